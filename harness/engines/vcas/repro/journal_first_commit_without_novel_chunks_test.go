//go:build verif

// Package repro holds minimal stand-alone reproductions of observations made by the vcas monitors.
//
//	cd /verif/harness && GOFLAGS=-mod=mod GOPROXY=off go test -tags verif -count=1 -run TestJournalFirstCommitWithoutNovelChunks -v ./engines/vcas/repro/
package repro

import (
	"context"
	"os"
	"path/filepath"
	"testing"

	"github.com/dolthub/dolt/go/store/chunks"
	"github.com/dolthub/dolt/go/store/constants"
	"github.com/dolthub/dolt/go/store/hash"
	"github.com/dolthub/dolt/go/store/nbs"
)

// A generational store whose new generation holds a chunk journal WITHOUT root record and no manifest file (left by a
// rejected first commit, see session 1) and whose old generation already holds chunk R. Commit(R, empty) has nothing novel to write: ChunkJournal.Update sees an unchanged
// (empty) table-spec set, so it does not flush the backing manifest and only appends the root record to the journal.
// The commit is acknowledged (true). A second opener replays the journal, finds the root record, but
// trueUpBackingManifest returns empty contents because no manifest file exists, and ParseIfExists then falls through to
// the (missing) backing manifest: the opener reports the EMPTY root. Only a clean Close of the writer repairs it.
func TestJournalFirstCommitWithoutNovelChunks(t *testing.T) {
	ctx := context.Background()
	dir, err := os.MkdirTemp("/var/tmp", "vcas-repro-")
	if err != nil {
		t.Fatal(err)
	}
	defer os.RemoveAll(dir)
	q := nbs.NewUnlimitedMemQuotaProvider()
	noRefs := func(chunks.Chunk) chunks.InsertAddrsCb {
		return func(context.Context, hash.HashSet, chunks.PendingRefExists) error { return nil }
	}
	og := filepath.Join(dir, "oldgen")
	os.MkdirAll(og, 0o755)
	old, err := nbs.NewLocalStore(ctx, constants.FormatDoltString, og, 1<<20, q, false)
	if err != nil {
		t.Fatal(err)
	}
	r := chunks.NewChunk([]byte("root chunk that lives in the old generation"))
	if err := old.Put(ctx, r, noRefs); err != nil {
		t.Fatal(err)
	}
	if ok, err := old.Commit(ctx, r.Hash(), hash.Hash{}); err != nil || !ok {
		t.Fatal(ok, err)
	}
	// session 1: the very first commit of the new generation is rejected (dangling root) after its memtable was flushed
	// into a freshly created journal file; the writer is closed. Result: a journal without root record, no manifest
	// (Close cannot flush empty contents: "Lock hash cannot be empty").
	ng1, err := nbs.NewLocalJournalingStore(ctx, constants.FormatDoltString, dir, q, false, func(error) {})
	if err != nil {
		t.Fatal(err)
	}
	if err := ng1.Put(ctx, chunks.NewChunk([]byte("some chunk")), noRefs); err != nil {
		t.Fatal(err)
	}
	var never hash.Hash
	never[0] = 1
	ok1, err1 := ng1.Commit(ctx, never, hash.Hash{})
	t.Logf("session 1: Commit(never-written root) = %v, %v", ok1, err1 != nil)
	t.Logf("session 1: Close() = %v", ng1.Close())

	// session 2
	ng, err := nbs.NewLocalJournalingStore(ctx, constants.FormatDoltString, dir, q, false, func(error) {})
	if err != nil {
		t.Fatal(err)
	}
	if _, err := ng.Root(ctx); err != nil { // the journaling store loads lazily; production touches it before committing
		t.Fatal(err)
	}
	gcs := nbs.NewGenerationalCS(old, ng, nil)
	defer gcs.Close()
	ok, err := gcs.Commit(ctx, r.Hash(), hash.Hash{})
	t.Logf("writer: Commit(%s, empty) = %v, %v", r.Hash(), ok, err)
	if err != nil || !ok {
		t.Skip("commit not accepted; nothing to show")
	}
	wroot, _ := gcs.Root(ctx)
	t.Logf("writer: Root() = %s", wroot)

	// what another process sees while the writer is still open (same thing a crash of the writer would leave behind)
	ro, err := nbs.NewLocalJournalingStoreWithOptions(ctx, constants.FormatDoltString, dir, q, false, func(error) {}, nbs.JournalingStoreOptions{SkipLockFileTimeout: true})
	if err != nil {
		t.Fatal(err)
	}
	defer ro.Close()
	got, err := ro.Root(ctx)
	if err != nil {
		t.Fatal(err)
	}
	ents, _ := os.ReadDir(dir)
	for _, e := range ents {
		t.Logf("  new gen dir: %s", e.Name())
	}
	if got != r.Hash() {
		t.Errorf("acknowledged commit is not visible to a second opener: Root() = %s, acknowledged %s", got, r.Hash())
	}
}
