package vcas

import (
	"context"
	"errors"
	"fmt"
	"io"
	"math/rand"
	"os"
	"path/filepath"
	"strings"
	"time"

	"github.com/dolthub/dolt/go/libraries/utils/verifhook"
	"github.com/dolthub/dolt/go/store/chunks"
	"github.com/dolthub/dolt/go/store/constants"
	"github.com/dolthub/dolt/go/store/hash"
	"github.com/dolthub/dolt/go/store/nbs"

	"verif/oracle"
	"verif/rig"
)

// C07 — committed state never contains dangling references.
//
// Oracle: after EVERY operation a fresh handle is opened on the storage; its root must be the root of the last commit
// the writer saw accepted (so an operation that was rejected — dangling-ref error or otherwise — did not move it), and
// the closure of that root, walked with the self-describing encoding through the fresh handle's own Get, must be fully
// present and byte-equal to what was written. Ghost addresses of the generational store are present leaves.
// Nothing is demanded about which valid operations are accepted (the statement does not forbid spurious refusals);
// non-vacuity counters make sure accepted commits, rejected writes, mid-sequence flushes etc. actually happened.

// c07Reported de-duplicates violation reports per key so that one class cannot crowd out the rest of the run.
var c07Reported = map[string]int{}

type tableFileStore interface {
	chunks.ChunkStore
	chunks.TableFileStore
}

type c07State struct {
	c     *rig.Ctx
	r     *rand.Rand
	cfg   string
	dir   string
	mem   uint64
	w     tableFileStore
	ghost hash.HashSet
	data  map[hash.Hash][]byte // every chunk the monitor created
	order []hash.Hash          // every address handed to the store (Put or table file)
	given map[hash.Hash]bool
	prov  map[hash.Hash]string // how the chunk entered the store
	proot hash.Hash
	prevRoot     hash.Hash // persisted root before the commit accepted during the current operation
	justAccepted bool
	later []chunks.Chunk // children whose parents were already Put
	trace []string
	seq   int
	bad   bool
	label string

	nAccepted, nRejDangling, nRejOther, nRefusedFalse int
	nPutRejected, nChildAfterParentOK                 int
	nAddOK, nAddRejected, nAddUncommittedDeps         int
	nRetryOK, nLostRefRejected, nReopens              int
	warmRefs, coldRefs                                int
	sinceReopen                                       int
}

func roJournal(dir string) (*nbs.NomsBlockStore, error) {
	return nbs.NewLocalJournalingStoreWithOptions(bg, constants.FormatDoltString, dir, oracle.Quota(), false, func(error) {},
		nbs.JournalingStoreOptions{SkipLockFileTimeout: true})
}

func (st *c07State) openWriter() error {
	switch st.cfg {
	case "local":
		s, err := oracle.OpenLocal(st.dir, st.mem)
		if err != nil {
			return err
		}
		st.w = s
	case "journal":
		s, err := oracle.OpenJournal(st.dir)
		if err != nil {
			return err
		}
		st.w = s
	case "generational":
		ng, err := oracle.OpenJournal(st.dir)
		if err != nil {
			return err
		}
		og := filepath.Join(st.dir, "oldgen")
		os.MkdirAll(og, 0o755)
		old, err := oracle.OpenLocal(og, st.mem)
		if err != nil {
			return err
		}
		gh, err := nbs.NewGhostBlockStore(st.dir)
		if err != nil {
			return err
		}
		st.w = nbs.NewGenerationalCS(old, ng, gh)
	}
	st.sinceReopen = 0
	return nil
}

func (st *c07State) openFresh() (chunks.ChunkStore, error) {
	switch st.cfg {
	case "local":
		return oracle.OpenLocal(st.dir, 1<<20)
	case "journal":
		return roJournal(st.dir)
	default:
		ng, err := roJournal(st.dir)
		if err != nil {
			return nil, err
		}
		old, err := oracle.OpenLocal(filepath.Join(st.dir, "oldgen"), 1<<20)
		if err != nil {
			return nil, err
		}
		gh, err := nbs.NewGhostBlockStore(st.dir)
		if err != nil {
			return nil, err
		}
		return nbs.NewGenerationalCS(old, ng, gh), nil
	}
}

func (st *c07State) tr(f string, a ...any) { st.trace = append(st.trace, fmt.Sprintf(f, a...)) }

func (st *c07State) key(k string) string { return "c07/" + k + "/" + st.cfg }

func (st *c07State) violation(k, what string, extra map[string]any) {
	w := map[string]any{"history": st.label, "memtable": st.mem, "trace": st.trace, "dir": oracle.DirListing(st.dir)}
	for a, b := range extra {
		w[a] = b
	}
	st.bad = true
	c07Reported[st.key(k)]++
	if c07Reported[st.key(k)] > 3 {
		st.c.Count("c07.repeat_violations_not_detailed", 1)
		return
	}
	st.c.Violation(st.key(k), st.label+": "+what, w)
}

// newChunk creates (does not write) a unique chunk with the given references.
func (st *c07State) newChunk(refs []hash.Hash) chunks.Chunk {
	st.seq++
	body := []byte(fmt.Sprintf("%s #%d ", st.label, st.seq))
	pad := make([]byte, st.r.Intn(90))
	st.r.Read(pad)
	ch := chunks.NewChunk(oracle.EncodeChunkData(refs, append(body, pad...)))
	st.data[ch.Hash()] = ch.Data()
	return ch
}

func (st *c07State) give(h hash.Hash, prov string) {
	if !st.given[h] {
		st.given[h] = true
		st.order = append(st.order, h)
	}
	st.prov[h] = prov
}

// present / lost addresses as the WRITER handle sees them now.
func (st *c07State) split() (present, lost []hash.Hash) {
	if len(st.order) == 0 {
		return
	}
	absent, err := st.w.HasMany(bg, hash.NewHashSet(st.order...))
	rig.Must(err)
	for _, h := range st.order {
		if absent.Has(h) {
			lost = append(lost, h)
		} else {
			present = append(present, h)
		}
	}
	return
}

func (st *c07State) never() hash.Hash {
	var h hash.Hash
	st.r.Read(h[:])
	return h
}

func isDangling(err error) bool {
	return err != nil && (errors.Is(err, nbs.ErrDanglingRef) || strings.Contains(err.Error(), "dangling"))
}

// put writes one chunk through the writer handle; returns whether the store accepted it.
func (st *c07State) put(ch chunks.Chunk, what string) bool {
	err := st.w.Put(bg, ch, oracle.GetAddrsCurry)
	st.give(ch.Hash(), "put")
	if err != nil {
		st.tr("Put %s (%s) -> error %v", oracle.Short(ch.Hash()), what, errText(err))
		if isDangling(err) {
			st.nPutRejected++
		} else {
			st.nRejOther++
		}
		return false
	}
	st.tr("Put %s (%s) refs=%d -> ok", oracle.Short(ch.Hash()), what, len(oracle.DecodeRefs(ch.Data())))
	return true
}

func (st *c07State) commit(root hash.Hash, what string) (accepted bool) {
	cur, err := st.w.Root(bg)
	rig.Must(err)
	ok, err := st.w.Commit(bg, root, cur)
	switch {
	case err != nil:
		st.tr("Commit(%s, %s) (%s) -> error %v", oracle.Short(root), oracle.Short(cur), what, errText(err))
		if isDangling(err) {
			st.nRejDangling++
		} else {
			st.nRejOther++
		}
	case !ok:
		st.tr("Commit(%s, %s) (%s) -> false", oracle.Short(root), oracle.Short(cur), what)
		st.nRefusedFalse++
	default:
		st.tr("Commit(%s, %s) (%s) -> true", oracle.Short(root), oracle.Short(cur), what)
		st.prevRoot, st.justAccepted = st.proot, true
		st.proot = root
		st.nAccepted++
		return true
	}
	return false
}

// check opens a fresh handle and verifies persisted root and closure.
func (st *c07State) check(after string) {
	f, err := st.openFresh()
	if err != nil {
		st.violation("reopen-failed", fmt.Sprintf("after %s a fresh handle cannot be opened: %v", after, err), nil)
		return
	}
	defer f.Close()
	root, err := f.Root(bg)
	if err != nil {
		st.violation("reopen-failed", fmt.Sprintf("after %s Root() of a fresh handle failed: %v", after, err), nil)
		return
	}
	st.c.Count("c07.fresh_handle_checks", 1)
	if root != st.proot {
		if st.justAccepted && root == st.prevRoot {
			// the other direction: a commit acknowledged with true that a second opener does not see. This is the
			// "acknowledged commits persist" clause of C02 observed by this monitor; it has its own key.
			st.violation("accepted-commit-not-visible-to-fresh-handle",
				fmt.Sprintf("after %s the writer's Commit(%s) returned true, but a fresh handle still reports the previous root %s", after, oracle.Short(st.proot), oracle.Short(root)),
				map[string]any{"persisted_root": root.String(), "acknowledged_root": st.proot.String()})
			return
		}
		st.violation("persisted-root-moved-without-accepted-commit",
			fmt.Sprintf("after %s the persisted root is %s, but the last commit the writer saw accepted installed %s", after, oracle.Short(root), oracle.Short(st.proot)),
			map[string]any{"persisted_root": root.String(), "expected_root": st.proot.String()})
		return
	}
	if root.IsEmpty() {
		return
	}
	type item struct{ h, parent hash.Hash }
	stack := []item{{root, hash.Hash{}}}
	seen := hash.NewHashSet()
	n := 0
	for len(stack) > 0 {
		it := stack[len(stack)-1]
		stack = stack[:len(stack)-1]
		if seen.Has(it.h) {
			continue
		}
		seen.Insert(it.h)
		ch, err := f.Get(bg, it.h)
		if err != nil {
			st.violation("closure-read-error", fmt.Sprintf("after %s Get(%s) on a fresh handle failed: %v", after, it.h, err), nil)
			return
		}
		has, herr := f.Has(bg, it.h)
		if ch.IsGhost() {
			if st.ghost == nil || !st.ghost.Has(it.h) {
				st.violation("ghost-chunk-for-non-ghost-address", fmt.Sprintf("after %s address %s reads as a ghost but was never declared one", after, it.h), nil)
				return
			}
			continue
		}
		if ch.IsEmpty() || herr != nil || !has {
			class := "committed-root-chunk-absent"
			if !it.parent.IsEmpty() {
				switch st.prov[it.parent] {
				case "tablefile-into-empty-root-store":
					class = "parent-added-by-table-file-into-empty-root-store"
				case "tablefile":
					class = "parent-added-by-table-file"
				case "tablefile-while-dependency-uncommitted":
					class = "parent-added-by-table-file-while-dependency-only-in-uncommitted-memtable"
				default:
					class = "parent-written-by-put"
				}
			}
			st.violation("dangling-reference-in-committed-state/"+class,
				fmt.Sprintf("after %s the persisted root %s reaches %s (referenced by %s), which the store does not have (Get empty=%v, Has=%v)", after, oracle.Short(root), it.h, oracle.Short(it.parent), ch.IsEmpty(), has),
				map[string]any{"root": root.String(), "missing": it.h.String(), "parent": it.parent.String(), "parent_provenance": st.prov[it.parent]})
			return
		}
		if want, ok := st.data[it.h]; !ok || !bytesEqual(want, ch.Data()) {
			st.violation("closure-chunk-differs", fmt.Sprintf("after %s chunk %s of the committed closure reads back different bytes", after, it.h), nil)
			return
		}
		n++
		for _, ref := range oracle.DecodeRefs(ch.Data()) {
			stack = append(stack, item{ref, it.h})
		}
	}
	st.c.Count("c07.closure_chunks_walked", n)
}

type tfile struct {
	id string
	n  int
	tf chunks.TableFile
}

// makeTableFiles writes the chunks into a scratch store whose reference check is blinded (the curry reports no
// references), so table files with arbitrary — also dangling — contents can be produced, the way a remote's files
// reach a puller. The scratch store must stay open while the files are copied.
func (st *c07State) makeTableFiles(chs []chunks.Chunk) (files []tfile, cleanup func(), err error) {
	dir := st.c.TempDir("c07side")
	s, err := oracle.OpenLocal(dir, 1<<20)
	if err != nil {
		os.RemoveAll(dir)
		return nil, nil, err
	}
	cleanup = func() { s.Close(); os.RemoveAll(dir) }
	blind := func(chunks.Chunk) chunks.InsertAddrsCb {
		return func(_ context.Context, _ hash.HashSet, _ chunks.PendingRefExists) error { return nil }
	}
	for _, ch := range chs {
		if err = s.Put(bg, ch, blind); err != nil {
			cleanup()
			return nil, nil, err
		}
	}
	ok, err := s.Commit(bg, chs[0].Hash(), hash.Hash{})
	if err != nil || !ok {
		cleanup()
		return nil, nil, fmt.Errorf("scratch commit: %v %v", ok, err)
	}
	src, err := s.Sources(bg)
	if err != nil {
		cleanup()
		return nil, nil, err
	}
	for _, tf := range src.TableFiles {
		files = append(files, tfile{tf.FileID(), tf.NumChunks(), tf})
	}
	return files, cleanup, nil
}

// addFiles copies table files holding chs into the store under test and adds them to its manifest.
func (st *c07State) addFiles(chs []chunks.Chunk, what string) (accepted bool) {
	files, cleanup, err := st.makeTableFiles(chs)
	rig.Must(err)
	defer cleanup()
	cur, err := st.w.Root(bg)
	rig.Must(err)
	m := map[string]int{}
	var closers []io.Closer
	for _, f := range files {
		tf := f.tf
		cl, err := st.w.WriteTableFile(bg, f.id, tf.SplitOffset(), f.n, nil, func() (io.ReadCloser, uint64, error) { return tf.Open(bg) })
		if err != nil {
			st.tr("WriteTableFile(%s) -> error %v", f.id, errText(err))
			st.nRejOther++
			return false
		}
		closers = append(closers, cl)
		m[f.id] = f.n
	}
	err = st.w.AddTableFilesToManifest(bg, m, oracle.GetAddrsCurry)
	for _, cl := range closers {
		if cl != nil {
			cl.Close()
		}
	}
	prov := "tablefile"
	if cur.IsEmpty() {
		prov = "tablefile-into-empty-root-store"
	} else if err == nil {
		// were all dependencies of the added chunks committed (visible to a fresh handle) when the files were accepted,
		// or did the writer's uncommitted memtable / novel tables satisfy the reference check?
		inFiles := hash.NewHashSet()
		for _, ch := range chs {
			inFiles.Insert(ch.Hash())
		}
		deps := hash.NewHashSet()
		for _, ch := range chs {
			for _, ref := range oracle.DecodeRefs(ch.Data()) {
				if !inFiles.Has(ref) && (st.ghost == nil || !st.ghost.Has(ref)) {
					deps.Insert(ref)
				}
			}
		}
		missingEverywhere := false
		if deps.Size() > 0 {
			if absentW, werr := st.w.HasMany(bg, deps.Copy()); werr == nil && absentW.Size() > 0 {
				missingEverywhere = true // not even the writer has them: the files were accepted without their dependencies
			}
		}
		if deps.Size() > 0 && !missingEverywhere {
			if f, ferr := st.openFresh(); ferr == nil {
				absent, herr := f.HasMany(bg, deps)
				f.Close()
				if herr == nil && absent.Size() > 0 {
					prov = "tablefile-while-dependency-uncommitted"
					st.nAddUncommittedDeps++
				}
			}
		}
	}
	if err != nil {
		st.tr("AddTableFilesToManifest(%d files, %d chunks, %s) -> error %v", len(files), len(chs), what, errText(err))
		st.nAddRejected++
		// the files are not part of the store; their chunks stay "given" so later references to them count as lost
		for _, ch := range chs {
			if !st.given[ch.Hash()] {
				st.give(ch.Hash(), prov)
			}
		}
		return false
	}
	st.tr("AddTableFilesToManifest(%d files, %d chunks, %s, store root %s) -> ok", len(files), len(chs), what, oracle.Short(cur))
	for _, ch := range chs {
		st.give(ch.Hash(), prov)
	}
	st.nAddOK++
	return true
}

func pick(r *rand.Rand, hs []hash.Hash) hash.Hash { return hs[r.Intn(len(hs))] }

func (st *c07State) someRefs(present []hash.Hash, max int) []hash.Hash {
	var refs []hash.Hash
	for k := st.r.Intn(max + 1); k > 0 && len(present) > 0; k-- {
		refs = append(refs, pick(st.r, present))
	}
	if st.ghost != nil && st.r.Intn(4) == 0 {
		refs = append(refs, oracle.SortedHashes(st.ghost)[st.r.Intn(st.ghost.Size())])
	}
	if st.sinceReopen > 6 {
		st.warmRefs += len(refs)
	} else {
		st.coldRefs += len(refs)
	}
	return refs
}

func c07History(c *rig.Ctx, cfg string, idx int) (st *c07State, flushes int) {
	r := c.SubRand("c07/"+cfg, idx)
	mems := []uint64{300, 700, 2 << 10, 16 << 10, 1 << 20}
	st = &c07State{c: c, r: r, cfg: cfg, mem: mems[r.Intn(len(mems))], data: map[hash.Hash][]byte{}, given: map[hash.Hash]bool{},
		prov: map[hash.Hash]string{}, label: fmt.Sprintf("c07/%s/%d", cfg, idx)}
	steps := 10 + r.Intn(c.Pick(22, 60))
	startEmptyAdd := r.Intn(4) == 0 // begin with table-file additions into the still empty store
	c.Case(st.label, map[string]any{"config": cfg, "memtable": st.mem, "steps": steps, "start_with_table_files": startEmptyAdd})
	st.dir = c.TempDir("c07")
	defer os.RemoveAll(st.dir)
	if err := st.openWriter(); err != nil {
		st.violation("open-failed", err.Error(), nil)
		return st, 0
	}
	defer func() {
		if st.w != nil {
			st.w.Close()
		}
	}()
	verifhook.Clear("")
	verifhook.Set("persist.afterRename", verifhook.Action{Kind: "count"})
	defer verifhook.Clear("")
	if cfg == "generational" {
		g := hash.NewHashSet()
		for k := 1 + r.Intn(3); k > 0; k-- {
			g.Insert(st.never())
		}
		// (GenerationalNBS.PersistGhostHashes has an inverted nil test; production code goes through GhostGen())
		rig.Must(st.w.(*nbs.GenerationalNBS).GhostGen().PersistGhostHashes(bg, g))
		st.ghost = g
		st.tr("ghost addresses: %d", g.Size())
		// some chunks live in the old generation only
		old := st.w.(*nbs.GenerationalNBS).OldGen().(*nbs.NomsBlockStore)
		var first hash.Hash
		for k := 1 + r.Intn(4); k > 0; k-- {
			ch := st.newChunk(nil)
			rig.Must(old.Put(bg, ch, oracle.GetAddrsCurry))
			st.give(ch.Hash(), "put")
			first = ch.Hash()
		}
		oroot, _ := old.Root(bg)
		if ok, err := old.Commit(bg, first, oroot); err != nil || !ok {
			rig.Must(fmt.Errorf("old gen commit: %v %v", ok, err))
		}
		st.tr("old generation seeded")
	}

	for s := 0; s < steps && !st.bad; s++ {
		st.justAccepted = false
		present, lost := st.split()
		op := r.Intn(100)
		if s == 0 && startEmptyAdd {
			op = 90 + r.Intn(10)
		}
		after := ""
		switch {
		case op < 24: // valid chunks
			for k := 1 + r.Intn(5); k > 0; k-- {
				ch := st.newChunk(st.someRefs(present, 3))
				if st.put(ch, "valid") {
					present = append(present, ch.Hash())
				}
			}
			after = "Put of valid chunks"
		case op < 34: // a chunk with a never-written (or lost) child
			refs := st.someRefs(present, 2)
			if len(lost) > 0 && r.Intn(2) == 0 {
				refs = append(refs, pick(r, lost))
			} else {
				refs = append(refs, st.never())
			}
			r.Shuffle(len(refs), func(i, j int) { refs[i], refs[j] = refs[j], refs[i] })
			st.put(st.newChunk(refs), "dangling child")
			after = "Put of a chunk with a never-written child"
		case op < 44: // parent first, child afterwards (legal inside one memtable)
			child := st.newChunk(st.someRefs(present, 1))
			parent := st.newChunk(append(st.someRefs(present, 1), child.Hash()))
			if st.put(parent, "parent before child") {
				if r.Intn(3) == 0 {
					st.later = append(st.later, child) // child much later
				} else {
					for k := r.Intn(3); k > 0; k-- {
						st.put(st.newChunk(st.someRefs(present, 1)), "filler between parent and child")
					}
					if st.put(child, "child after parent") {
						st.nChildAfterParentOK++
					}
				}
			}
			after = "Put of parent before child"
		case op < 48 && len(st.later) > 0:
			ch := st.later[0]
			st.later = st.later[1:]
			st.put(ch, "late child")
			after = "Put of a late child"
		case op < 64: // commit a root the writer says it has
			if len(present) == 0 {
				continue
			}
			root := pick(r, present)
			if len(present) > 3 && r.Intn(2) == 0 {
				root = present[len(present)-1-r.Intn(3)]
			}
			st.commit(root, "root reported present")
			after = "Commit of a present root"
		case op < 70: // commit a root that was never written
			st.commit(st.never(), "never-written root")
			after = "Commit of a never-written root"
		case op < 76 && len(lost) > 0: // commit / reference something that was Put once and then lost
			l := pick(r, lost)
			if r.Intn(2) == 0 {
				st.commit(l, "root lost with a dropped memtable")
				after = "Commit of a lost root"
			} else {
				p := st.newChunk([]hash.Hash{l})
				st.put(p, "references a lost chunk")
				before := st.nRejDangling + st.nPutRejected
				st.commit(p.Hash(), "root referencing a lost chunk")
				if st.nRejDangling+st.nPutRejected > before {
					st.nLostRefRejected++
				}
				after = "Put+Commit of a root referencing a lost chunk"
			}
		case op < 80: // retry: write the missing pieces again, then commit
			if len(lost) == 0 {
				continue
			}
			l := pick(r, lost)
			d, ok := st.data[l]
			if !ok {
				continue
			}
			closed := true
			for _, ref := range oracle.DecodeRefs(d) {
				if has, _ := st.w.Has(bg, ref); !has {
					closed = false
				}
			}
			if !closed {
				continue
			}
			if st.put(chunks.NewChunkWithHash(l, d), "retry of a lost chunk") && st.commit(l, "retry") {
				st.nRetryOK++
			}
			after = "retry of a lost chunk + Commit"
		case op < 84: // wrong expected root
			if len(present) == 0 {
				continue
			}
			ok, err := st.w.Commit(bg, pick(r, present), st.never())
			st.tr("Commit(x, wrong last) -> %v %v", ok, errText(err))
			if ok && err == nil {
				st.violation("commit-with-wrong-expected-root-accepted", "Commit with an expected root that never existed returned true", nil)
			}
			after = "Commit with a wrong expected root"
		case op < 90: // reopen the writer: cold hasCache, uncommitted memtable gone
			st.w.Close()
			st.w = nil
			if err := st.openWriter(); err != nil {
				st.violation("reopen-failed", "writer reopen failed: "+err.Error(), nil)
				return st, 0
			}
			st.nReopens++
			st.tr("writer reopened")
			after = "writer reopen"
		default: // table files
			kind := r.Intn(5)
			var chs []chunks.Chunk
			var top chunks.Chunk
			dropAfter := false
			switch kind {
			case 4: // dependency only in the writer's uncommitted memtable, which is then lost (writer closed without commit)
				leaf := st.newChunk(nil)
				if !st.put(leaf, "dependency kept uncommitted") {
					continue
				}
				top = st.newChunk([]hash.Hash{leaf.Hash()})
				chs = []chunks.Chunk{top}
				dropAfter = true
				after = "AddTableFilesToManifest of a file whose dependency is only in the uncommitted memtable"
			case 0: // self-contained: leaf + parent in the same file
				leaf := st.newChunk(nil)
				top = st.newChunk([]hash.Hash{leaf.Hash()})
				chs = []chunks.Chunk{top, leaf}
				after = "AddTableFilesToManifest of a self-contained file"
			case 1: // dependencies already in the store
				top = st.newChunk(st.someRefs(present, 3))
				chs = []chunks.Chunk{top}
				after = "AddTableFilesToManifest of a file whose dependencies are in the store"
			case 2: // dependency in a file that is NOT added
				leaf := st.newChunk(nil)
				top = st.newChunk(append(st.someRefs(present, 1), leaf.Hash()))
				chs = []chunks.Chunk{top}
				after = "AddTableFilesToManifest of a file without its dependency"
			default: // dependency never written anywhere
				top = st.newChunk([]hash.Hash{st.never()})
				mid := st.newChunk([]hash.Hash{top.Hash()})
				chs = []chunks.Chunk{mid, top}
				top = mid
				after = "AddTableFilesToManifest of a file with a never-written dependency"
			}
			if st.addFiles(chs, after) {
				st.check(after)
				if dropAfter && !st.bad {
					st.w.Close()
					st.w = nil
					if err := st.openWriter(); err != nil {
						st.violation("reopen-failed", "writer reopen failed: "+err.Error(), nil)
						return st, 0
					}
					st.nReopens++
					st.tr("writer closed without commit and reopened")
					after += " + writer reopen"
				}
				if !st.bad && (dropAfter || r.Intn(3) > 0) {
					st.commit(top.Hash(), "top chunk of the added table file")
					after = after + " + Commit of its top chunk"
				}
			}
		}
		if after == "" || st.bad {
			continue
		}
		st.sinceReopen++
		st.check(after)
	}
	flushes = int(verifhook.Hits("persist.afterRename"))
	c.Count("c07.histories."+cfg, 1)
	c.Count("c07.steps", steps)
	c.Count("c07.commits_accepted", st.nAccepted)
	c.Count("c07.commits_rejected_dangling", st.nRejDangling)
	c.Count("c07.commits_refused_false", st.nRefusedFalse)
	c.Count("c07.puts_rejected_dangling_at_flush", st.nPutRejected)
	c.Count("c07.other_errors", st.nRejOther)
	c.Count("c07.child_after_parent_accepted", st.nChildAfterParentOK)
	c.Count("c07.lost_chunk_reference_rejected", st.nLostRefRejected)
	c.Count("c07.retry_after_rejection_accepted", st.nRetryOK)
	c.Count("c07.table_file_adds_accepted", st.nAddOK)
	c.Count("c07.table_file_adds_rejected", st.nAddRejected)
	c.Count("c07.table_file_adds_accepted_on_uncommitted_dependencies", st.nAddUncommittedDeps)
	c.Count("c07.writer_reopens", st.nReopens)
	c.Count("c07.table_files_persisted(local)", flushes)
	c.Count("c07.refs_written_warm_handle", st.warmRefs)
	c.Count("c07.refs_written_cold_handle", st.coldRefs)
	if st.nAccepted > 0 && st.nRejDangling+st.nPutRejected+st.nAddRejected > 0 {
		c.Distinct(fmt.Sprintf("%s/%d/%d/%d/%d/%d/%d", cfg, st.mem, st.nAccepted, st.nRejDangling, st.nPutRejected, st.nAddOK, st.nAddRejected))
	}
	if idx < 2 {
		tr := st.trace
		if len(tr) > 14 {
			tr = tr[:14]
		}
		c.Sample(map[string]any{"case": st.label, "memtable": st.mem, "first_ops": tr})
	}
	return st, flushes
}

func c07(c *rig.Ctx) {
	c.Rule("PRNG histories over 3 configurations (table files with memtable 300B..1MB forcing flushes mid-sequence, chunk journal, generational " +
		"old/new gen + ghost) mixing valid chunks, chunks with never-written or lost children, parents written before their children, commits of " +
		"present / never-written / lost roots, retries, wrong expected roots, writer reopens (cold hasCache) and AddTableFilesToManifest of files " +
		"with / without their dependencies; after every operation a fresh handle must show the last accepted root with a fully present closure. " +
		"A history is distinct/non-trivial when its (configuration, memtable, accepted/rejected profile) differs and it had at least one accepted " +
		"commit and one rejected dangling write")
	c.Assume("table files are produced by a scratch store whose reference check is blinded, standing in for a remote's files reaching a puller")
	c.Assume("ghost addresses declared through GhostGen().PersistGhostHashes are present leaves (the statement's exception)")
	n := c.Pick(45, 1500)
	var acc, rejCommit, rejPut, addOK, addRej, cap, retry, lostRej, flushes int
	for i := 0; i < n; i++ {
		for _, cfg := range []string{"local", "journal", "generational"} {
			t0 := time.Now()
			st, fl := c07History(c, cfg, i)
			if d := time.Since(t0); d > 500*time.Millisecond {
				fmt.Fprintf(os.Stderr, "slow history %s: %s (%d trace lines)\n", st.label, d, len(st.trace))
			}
			acc += st.nAccepted
			rejCommit += st.nRejDangling
			rejPut += st.nPutRejected
			addOK += st.nAddOK
			addRej += st.nAddRejected
			cap += st.nChildAfterParentOK
			retry += st.nRetryOK
			lostRej += st.nLostRefRejected
			flushes += fl
		}
		if len(c07Reported) > 14 {
			return
		}
	}
	c.Require(acc > 0, "no commit was accepted")
	c.Require(rejCommit > 0, "no commit was rejected for a dangling reference")
	c.Require(rejPut > 0, "no Put was rejected at a mid-sequence memtable flush")
	c.Require(addOK > 0 && addRej > 0, "table-file additions were not both accepted and rejected")
	c.Require(cap > 0, "no child-after-parent sequence was accepted")
	c.Require(lostRej > 0, "no reference to a chunk lost with a dropped memtable was rejected")
	c.Require(flushes > 0, "no memtable flush to a table file happened")
}
