package vcas

import (
	"fmt"
	"math/rand"
	"os"
	"sync"

	"github.com/dolthub/dolt/go/libraries/utils/verifhook"
	"github.com/dolthub/dolt/go/store/chunks"
	"github.com/dolthub/dolt/go/store/hash"
	"github.com/dolthub/dolt/go/store/nbs"

	"verif/rig"
)

// C02 stage "conjoin": a manifest update that is NOT a commit (landing a conjoin) races a foreign commit.
//
// Two NomsBlockStore handles A and B on one NewLocalStore directory (file manifest + LOCK), tiny memtable so that
// every commit lands table files. A gets a conjoin in flight — explicitly through ConjoinTableFiles, or naturally by
// committing until the store has more than maxTables (256) table files and starts its background conjoin. At the hook
// point conjoin.beforeManifest (between building the conjoin's manifest contents and the manifest Update) B rebases
// and commits with the correct expected root; the conjoin's Update then fails its lock check and retries. The usual
// C02 rules decide: the recorded history must stay a CAS register (a conjoin is no operation of the register, so it
// may not change the root) and every fresh handle opened after an acknowledged commit shows it or a later root.

type conjoinStats struct {
	hookHits, foreignCommitsInHook, retriesAfterForeignCommit, conjoinsLanded int
	aCommits                                                                  int
	natural                                                                   bool
}

func lastCasOK(rec *recorder, client int) bool {
	rec.mu.Lock()
	defer rec.mu.Unlock()
	for i := len(rec.ops) - 1; i >= 0; i-- {
		if o := rec.ops[i]; o.Client == client && o.Kind == "cas" {
			return o.OK && o.Err == ""
		}
	}
	return false
}

func specCount(cs chunks.ChunkStore) int {
	src, err := cs.(*nbs.NomsBlockStore).Sources(bg)
	if err != nil {
		return -1
	}
	return len(src.TableFiles)
}

func runConjoinHistory(c *rig.Ctx, label string, r *rand.Rand, natural bool) (res histResult, cs conjoinStats, ok bool) {
	key := "c02/conjoin"
	cs.natural = natural
	dir := c.TempDir("c02conjoin")
	defer os.RemoveAll(dir)
	mem := uint64(200 + r.Intn(400))
	warm := 2 + r.Intn(5)
	staleA := r.Intn(3) == 0       // B also commits after A's last refresh, before the conjoin starts
	actOnHits := 1 + r.Intn(2)     // B commits during the first 1..2 visits of the hook point
	c.Case(label, map[string]any{"memtable": mem, "warmup_rounds": warm, "A_stale_at_conjoin": staleA, "foreign_commits_in_hook": actOnHits, "natural_background_conjoin": natural})
	env := fileEnv(dir, mem, true)
	verifhook.Clear("")
	defer verifhook.Clear("")

	open := func() chunks.ChunkStore {
		h, err := env.open()
		rig.Must(err)
		return h
	}
	hA, hB := open(), open()
	// only A conjoins: the hook drives B, and a conjoin of B's own would re-enter B from inside B's lock
	hB.(*nbs.NomsBlockStore).DisableConjoin()
	defer func() { hB.Close(); hA.Close() }()
	model := newSharedModel()
	rec := &recorder{}
	var fobs []freshObs
	var mu sync.Mutex
	anomalies := map[string]string{}
	mk := func(id int, h chunks.ChunkStore) *nbsClient {
		return &nbsClient{id: id, handle: id, cs: h, excl: true, r: rand.New(rand.NewSource(r.Int63())), rec: rec.add, putRec: model.add,
			fresh:    env.fresh,
			freshRec: func(fo freshObs) { mu.Lock(); fobs = append(fobs, fo); mu.Unlock() },
			anomaly:  func(k, w string) { mu.Lock(); anomalies[k] = w; mu.Unlock() }, freshAfter: 0, maxBody: 60}
	}
	a, b := mk(0, hA), mk(1, hB)
	initial := hash.Hash{}
	// warm-up: both writers land table files
	for i := 0; i < warm; i++ {
		a.step("sync")
		a.step("commit")
		b.step("sync")
		b.step("commit")
	}
	if !staleA {
		a.step("sync")
	}

	// the foreign writer acts inside A's conjoin, right before the conjoin's manifest update
	var bmu sync.Mutex
	foreignDone := false
	verifhook.Set("conjoin.beforeManifest", verifhook.Action{Kind: "func", Fn: func(_ string, hit int64) error {
		if !bmu.TryLock() {
			return nil // not A's conjoin (or the main goroutine is driving B): never block inside a store's lock
		}
		defer bmu.Unlock()
		cs.hookHits++
		if foreignDone {
			cs.retriesAfterForeignCommit++
		}
		if int(hit) <= actOnHits {
			b.step("sync")
			b.step("commit")
			if lastCasOK(rec, 1) {
				cs.foreignCommitsInHook++
				foreignDone = true
			}
			b.doFresh()
		}
		return nil
	}})

	if natural {
		// commit until the store starts (and lands) its own background conjoin
		for n := 0; n < 700; n++ {
			a.step("commit")
			cs.aCommits++
			bmu.Lock()
			hits := cs.hookHits
			bmu.Unlock()
			if hits > actOnHits {
				break
			}
		}
	} else {
		before := specCount(hA)
		_, err := hA.(*nbs.NomsBlockStore).ConjoinTableFiles(bg, nil)
		if err != nil {
			c.Violation(key+"/conjoin-error", fmt.Sprintf("%s: ConjoinTableFiles failed: %v", label, err), nil)
			return res, cs, false
		}
		if after := specCount(hA); after >= 0 && after <= before {
			cs.conjoinsLanded++
		}
	}
	// afterwards: observe before anyone commits again, then both writers continue
	bmu.Lock()
	fo, fop := observeFresh(2, env.fresh)
	fobs = append(fobs, fo)
	if fo.Err == "" {
		rec.add(fop)
	}
	b.step("sync")
	b.step("commit")
	bmu.Unlock()
	a.step("sync")
	a.step("commit")
	verifhook.Clear("")
	for _, cl := range []*nbsClient{a, b} {
		cl.step("sync")
	}
	fo, fop = observeFresh(2, env.fresh)
	fobs = append(fobs, fo)
	if fo.Err == "" {
		rec.add(fop)
	}
	if natural && specCount(hA) >= 0 && specCount(hA) <= 256 {
		cs.conjoinsLanded++
	}
	for k, w := range anomalies {
		c.Violation(key+"/"+k, label+": "+w, map[string]any{"ops": witnessOps(rec.ops)})
	}
	res.st = checkHistory(c, key, label, rec.ops, initial.String(), porcupineTimeout)
	res.fresh = checkFresh(c, key, label, rec.ops, fobs, model.data, initial.String())
	res.ops = len(rec.ops)
	return res, cs, true
}

func c02Conjoin(c *rig.Ctx) {
	c.Rule("conjoin stage: two NewLocalStore handles on one directory (memtable 200-600 B, every commit lands table files); writer A lands a conjoin " +
		"(ConjoinTableFiles, or the background conjoin started by exceeding 256 table files) while writer B rebases and commits with the correct " +
		"expected root at the hook point conjoin.beforeManifest, forcing the conjoin's manifest update to retry; history and fresh handles are " +
		"checked with the C02 rules. Distinct/non-trivial: (explicit|natural, A stale or fresh, number of foreign commits inside the conjoin) of " +
		"histories whose conjoin update retried after a foreign commit")
	nExplicit, nNatural := c.Pick(8, 200), c.Pick(1, 8)
	var hits, foreign, retries, landed, naturalRetries int
	run := func(label string, r *rand.Rand, natural bool) {
		res, cs, ok := runConjoinHistory(c, label, r, natural)
		if !ok {
			return
		}
		c.Count("c02.conjoin.histories", 1)
		c.Count("c02.conjoin.ops", res.ops)
		c.Count("c02.conjoin.commits_ok", res.st.commitsOK)
		c.Count("c02.conjoin.fresh_handle_observations", res.fresh)
		c.Count("c02.conjoin.hook_hits", cs.hookHits)
		c.Count("c02.conjoin.foreign_commits_during_conjoin", cs.foreignCommitsInHook)
		c.Count("c02.conjoin.manifest_update_retries_after_foreign_commit", cs.retriesAfterForeignCommit)
		c.Count("c02.conjoin.conjoins_landed", cs.conjoinsLanded)
		if natural {
			c.Count("c02.conjoin.natural.commits_by_A_until_background_conjoin", cs.aCommits)
			c.Count("c02.conjoin.natural.retries_after_foreign_commit", cs.retriesAfterForeignCommit)
			naturalRetries += cs.retriesAfterForeignCommit
		}
		if res.st.inconcl {
			c.Inconclusive("porcupine timed out on a conjoin history")
		}
		hits += cs.hookHits
		foreign += cs.foreignCommitsInHook
		retries += cs.retriesAfterForeignCommit
		landed += cs.conjoinsLanded
		if cs.retriesAfterForeignCommit > 0 {
			c.Distinct(fmt.Sprintf("conjoin/%v/%d/%d", natural, cs.foreignCommitsInHook, cs.hookHits))
		}
	}
	for i := 0; i < nExplicit && c.Violations() < 10; i++ {
		run(fmt.Sprintf("c02/conjoin/explicit/%d", i), c.SubRand("c02/conjoin/explicit", i), false)
	}
	for i := 0; i < nNatural && c.Violations() < 10; i++ {
		run(fmt.Sprintf("c02/conjoin/natural/%d", i), c.SubRand("c02/conjoin/natural", i), true)
	}
	c.Sample(map[string]any{"stage": "conjoin", "hook_hits": hits, "foreign_commits_during_conjoin": foreign, "retries_after_foreign_commit": retries, "conjoins_landed": landed})
	if c.Violations() == 0 {
		c.Require(retries > 0, "no conjoin manifest update had to retry because the other writer committed")
		c.Require(naturalRetries > 0, "the background (maxTables) conjoin never retried after a foreign commit")
		c.Require(landed > 0, "no conjoin landed")
	}
}
