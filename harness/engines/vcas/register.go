package vcas

import (
	"time"

	"verif/rig"
)

// Register wires the vcas checks and the helper-process entry points.
func Register() {
	rig.SubCommands["vcas-actor"] = actorMain
	nbsMechanism := []string{
		`nbs\.\(\*NomsBlockStore\)\.(commit|updateManifest|addChunk|putChunk|Put|Commit|Rebase|rebase|Root|errorIfDangling|refCheck)$`,
		`nbs\.fileManifest\.(Update|ParseIfExists)$`, `nbs\.updateWithChecker`, `nbs\.parseIfExists`,
		`nbs\.\(\*ChunkJournal\)\.(Update|ParseIfExists|flushToBackingManifest)$`, `nbs\.\(\*journalManifest\)\.(Update|ParseIfExists)$`,
		// rig's race-report parser cuts a function name at its first "(", so pointer-receiver methods arrive as ".../store/nbs."
		`/store/nbs\.$`,
	}
	rig.Register(&rig.Spec{Prop: "C02", Level: "exploration", RaceFuncs: nbsMechanism,
		Stages: []rig.Stage{
			{Name: "goroutines", Fn: c02Goroutines, Race: true, TimeoutQuick: 25 * time.Minute, TimeoutThorough: 4 * time.Hour},
			{Name: "processes", Fn: c02Processes, TimeoutQuick: 25 * time.Minute, TimeoutThorough: 4 * time.Hour},
			{Name: "conjoin", Fn: c02Conjoin, TimeoutQuick: 25 * time.Minute, TimeoutThorough: 4 * time.Hour},
		}})
	rig.Register(&rig.Spec{Prop: "C07", Level: "exploration",
		Stages: []rig.Stage{{Name: "closure", Fn: c07, TimeoutQuick: 25 * time.Minute, TimeoutThorough: 4 * time.Hour}}})
	rig.Register(&rig.Spec{Prop: "C42", Level: "exploration",
		RaceFuncs: append([]string{`blobstore\.\(\*(InMemoryBlobstore|LocalBlobstore)\)\.`, `nbs\.blobstoreManifest\.`, `nbs\.updateBSWithChecker`, `/store/blobstore\.$`}, nbsMechanism...),
		Stages: []rig.Stage{
			{Name: "ranges", Fn: c42Ranges, TimeoutQuick: 25 * time.Minute, TimeoutThorough: 4 * time.Hour},
			{Name: "cas", Fn: c42CAS, Race: true, TimeoutQuick: 25 * time.Minute, TimeoutThorough: 4 * time.Hour},
			{Name: "processes", Fn: c42Processes, TimeoutQuick: 25 * time.Minute, TimeoutThorough: 4 * time.Hour},
			{Name: "git", Fn: c42Git, TimeoutQuick: 25 * time.Minute, TimeoutThorough: 4 * time.Hour},
		}})
}
