package vcas

import (
	"time"

	"verif/rig"
)

// Register wires the vcas checks and the helper-process entry points.
func Register() {
	rig.SubCommands["vcas-actor"] = actorMain
	rig.Register(&rig.Spec{Prop: "C02", Level: "exploration",
		Stages: []rig.Stage{
			{Name: "goroutines", Fn: c02Goroutines, Race: true, TimeoutQuick: 25 * time.Minute, TimeoutThorough: 4 * time.Hour},
			{Name: "processes", Fn: c02Processes, TimeoutQuick: 25 * time.Minute, TimeoutThorough: 4 * time.Hour},
		}})
	rig.Register(&rig.Spec{Prop: "C07", Level: "exploration",
		Stages: []rig.Stage{{Name: "closure", Fn: c07, TimeoutQuick: 25 * time.Minute, TimeoutThorough: 4 * time.Hour}}})
	rig.Register(&rig.Spec{Prop: "C42", Level: "exploration",
		Stages: []rig.Stage{
			{Name: "ranges", Fn: c42Ranges, TimeoutQuick: 25 * time.Minute, TimeoutThorough: 4 * time.Hour},
			{Name: "cas", Fn: c42CAS, Race: true, TimeoutQuick: 25 * time.Minute, TimeoutThorough: 4 * time.Hour},
			{Name: "processes", Fn: c42Processes, TimeoutQuick: 25 * time.Minute, TimeoutThorough: 4 * time.Hour},
			{Name: "git", Fn: c42Git, TimeoutQuick: 25 * time.Minute, TimeoutThorough: 4 * time.Hour},
		}})
}
