package vcas

import (
	"fmt"
	"math/rand"

	"github.com/dolthub/dolt/go/store/chunks"
	"github.com/dolthub/dolt/go/store/hash"

	"verif/oracle"
	"verif/rig"
)

// nbsClient drives one client of a chunk store: unique root chunks, Put + Commit(cur,last) / Root / Rebase, every
// call and return stamped with rig.Mono(). It is used by goroutine clients in the monitor process and by the actor
// helper processes alike.
//
// Every root chunk the client commits references (a) the root it expects to replace and (b) every chunk the client
// has Put since its last acknowledged commit, so the closure of the current root is the whole acknowledged history
// and "every chunk written before the commit" is decidable by a closure walk from a fresh handle.
type nbsClient struct {
	id, handle int
	cs         chunks.ChunkStore
	excl       bool // this client is the only user of its handle
	cv         hash.Hash
	seen       []hash.Hash
	loose      []hash.Hash // own chunks not yet referenced by an acknowledged root
	seq        int
	r          *rand.Rand
	rec        func(histOp)
	putRec     func(hash.Hash, []byte)
	fresh      func() (chunks.ChunkStore, error)
	freshRec   func(freshObs)
	anomaly    func(key, what string)
	freshAfter int // percent of acknowledged commits followed by a fresh-handle observation
	maxBody    int
}

func (cl *nbsClient) put(refs []hash.Hash, tag string) (hash.Hash, error) {
	cl.seq++
	body := []byte(fmt.Sprintf("%s c%d n%d ", tag, cl.id, cl.seq))
	pad := make([]byte, cl.r.Intn(cl.maxBody+1))
	cl.r.Read(pad)
	ch := chunks.NewChunk(oracle.EncodeChunkData(refs, append(body, pad...)))
	cl.putRec(ch.Hash(), ch.Data())
	return ch.Hash(), cl.cs.Put(bg, ch, oracle.GetAddrsCurry)
}

func (cl *nbsClient) observe(h hash.Hash) {
	cl.cv = h
	for _, s := range cl.seen {
		if s == h {
			return
		}
	}
	cl.seen = append(cl.seen, h)
}

func (cl *nbsClient) presentLoose() []hash.Hash {
	if len(cl.loose) == 0 {
		return nil
	}
	absent, err := cl.cs.HasMany(bg, hash.NewHashSet(cl.loose...))
	if err != nil {
		return nil
	}
	var out []hash.Hash
	for _, h := range cl.loose {
		if !absent.Has(h) {
			out = append(out, h)
		}
	}
	return out
}

func errText(err error) string {
	if err == nil {
		return ""
	}
	s := err.Error()
	if len(s) > 160 {
		s = s[:160]
	}
	return s
}

func (cl *nbsClient) doFresh() {
	if cl.fresh == nil {
		return
	}
	fo, op := observeFresh(cl.id, cl.fresh)
	cl.freshRec(fo)
	if fo.Err == "" {
		cl.rec(op)
	}
}

func (cl *nbsClient) step(op string) {
	switch op {
	case "commit", "stale":
		last := cl.cv
		if op == "stale" && len(cl.seen) > 0 {
			last = cl.seen[cl.r.Intn(len(cl.seen))]
		}
		var refs []hash.Hash
		if !last.IsEmpty() {
			refs = append(refs, last)
		}
		loose := cl.presentLoose()
		refs = append(refs, loose...)
		puts := append([]hash.Hash(nil), loose...)
		for n := 1 + cl.r.Intn(3); n > 0; n-- {
			h, err := cl.put(nil, "data")
			if err != nil {
				cl.anomaly("put-error", fmt.Sprintf("Put of a chunk without references failed: %v", err))
				return
			}
			refs = append(refs, h)
			puts = append(puts, h)
		}
		root, err := cl.put(refs, "ROOT")
		if err != nil {
			cl.anomaly("put-error", fmt.Sprintf("Put of a root chunk whose references are all present failed: %v", err))
			return
		}
		puts = append(puts, root)
		call := rig.Mono()
		ok, err := cl.cs.Commit(bg, root, last)
		ret := rig.Mono()
		ps := make([]string, len(puts))
		for i, p := range puts {
			ps[i] = p.String()
		}
		cl.rec(histOp{Client: cl.id, Handle: cl.handle, Kind: "cas", Exp: last.String(), New: root.String(), OK: ok && err == nil, Err: errText(err), Call: call, Ret: ret, Puts: ps})
		if ok && err == nil {
			cl.observe(root)
			cl.loose = nil
			if cl.r.Intn(100) < cl.freshAfter {
				cl.doFresh()
			}
		} else {
			cl.loose = puts[:len(puts)-1]
			cl.step("root") // what a retry loop does: look at the root again
		}
	case "touch": // Commit(r,r) with a novel chunk: republishes the manifest (new lock, same root)
		h, err := cl.put(nil, "touch")
		if err != nil {
			cl.anomaly("put-error", fmt.Sprintf("Put failed: %v", err))
			return
		}
		cl.loose = append(cl.loose, h)
		call := rig.Mono()
		ok, err := cl.cs.Commit(bg, cl.cv, cl.cv)
		ret := rig.Mono()
		cl.rec(histOp{Client: cl.id, Handle: cl.handle, Kind: "cas", Exp: cl.cv.String(), New: cl.cv.String(), OK: ok && err == nil, Err: errText(err), Lenient: !cl.excl, Call: call, Ret: ret})
		if !(ok && err == nil) {
			cl.step("root")
		}
	case "bad": // a root that was never written: must be refused with an error and must have no effect
		var nv hash.Hash
		cl.r.Read(nv[:])
		call := rig.Mono()
		ok, err := cl.cs.Commit(bg, nv, cl.cv)
		ret := rig.Mono()
		cl.rec(histOp{Client: cl.id, Handle: cl.handle, Kind: "cas", Exp: cl.cv.String(), New: nv.String(), OK: ok && err == nil, Err: errText(err), Call: call, Ret: ret})
		if ok && err == nil {
			cl.observe(nv)
		} else {
			cl.step("root")
		}
	case "root":
		call := rig.Mono()
		h, err := cl.cs.Root(bg)
		ret := rig.Mono()
		if err != nil {
			cl.anomaly("root-error", err.Error())
			return
		}
		cl.rec(histOp{Client: cl.id, Handle: cl.handle, Kind: "weak", Val: h.String(), Call: call, Ret: ret})
		cl.observe(h)
	case "sync":
		call := rig.Mono()
		if err := cl.cs.Rebase(bg); err != nil {
			cl.anomaly("rebase-error", err.Error())
			return
		}
		h, err := cl.cs.Root(bg)
		ret := rig.Mono()
		if err != nil {
			cl.anomaly("root-error", err.Error())
			return
		}
		cl.rec(histOp{Client: cl.id, Handle: cl.handle, Kind: "read", Val: h.String(), Call: call, Ret: ret})
		cl.observe(h)
	case "fresh":
		cl.doFresh()
	}
}

func genProgram(r *rand.Rand, n int, excl bool) []string {
	prog := []string{"commit"}
	for len(prog) < n {
		x := r.Intn(100)
		switch {
		case x < 42:
			prog = append(prog, "commit")
		case x < 52:
			prog = append(prog, "stale")
		case x < 62:
			prog = append(prog, "root")
		case x < 74:
			prog = append(prog, "sync")
		case x < 86:
			prog = append(prog, "touch")
		case x < 94:
			prog = append(prog, "fresh")
		default:
			if excl {
				prog = append(prog, "bad")
			} else {
				prog = append(prog, "commit")
			}
		}
	}
	return prog
}
