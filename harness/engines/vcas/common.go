// Package vcas holds the compare-and-swap / dangling-reference monitors: C02 (root commit is an atomic CAS and
// acknowledged commits persist), C07 (committed state never contains dangling references) and C42 (blobstores:
// conditional manifest update, byte ranges, NBS on a blobstore).
package vcas

import (
	"bytes"
	"context"
	"crypto/sha1"
	"encoding/hex"
	"fmt"
	"sort"
	"strings"
	"sync"
	"time"

	"github.com/anishathalye/porcupine"

	"github.com/dolthub/dolt/go/store/chunks"
	"github.com/dolthub/dolt/go/store/hash"

	"verif/oracle"
	"verif/rig"
)

var bg = context.Background()

// ---- recorded histories -----------------------------------------------------------------------------------------

// histOp is one operation at the client boundary, stamped with rig.Mono() before the call and after the return.
type histOp struct {
	Client int    `json:"c"`
	Handle int    `json:"h"` // store handle the client used (-1: an ephemeral fresh handle)
	Kind   string `json:"k"` // cas | read (strict: synchronised inside its interval) | weak (cached view) | fresh (new handle)
	Exp    string `json:"exp,omitempty"`
	New    string `json:"new,omitempty"`
	OK     bool   `json:"ok,omitempty"`
	Err    string `json:"err,omitempty"`
	Val    string `json:"val,omitempty"`
	// Lenient marks Commit(x,x) issued on a handle shared with other clients: without novel chunks the
	// implementation turns it into rebase-and-succeed (DESIGN A.1), and the client cannot know which case it hit.
	Lenient bool     `json:"len,omitempty"`
	Call    int64    `json:"call"`
	Ret     int64    `json:"ret"`
	Puts    []string `json:"puts,omitempty"` // addresses Put by this client before this commit
	Digest  string   `json:"dg,omitempty"`   // blobstore: digest of the contents written / read
}

type recorder struct {
	mu  sync.Mutex
	ops []histOp
}

func (r *recorder) add(op histOp) {
	if op.Ret <= op.Call {
		op.Ret = op.Call + 1
	}
	r.mu.Lock()
	r.ops = append(r.ops, op)
	r.mu.Unlock()
}

// ---- porcupine model (DESIGN §3.3, Appendix A.1) ----------------------------------------------------------------

type regIn struct {
	Kind     string // cas | read
	Exp, New string
	Lenient  bool
}

type regOut struct {
	OK, Err bool
	Val     string
}

func regModel(initial string) porcupine.Model {
	return porcupine.Model{
		Init: func() any { return initial },
		Step: func(st, in, out any) (bool, any) {
			s := st.(string)
			i := in.(regIn)
			o := out.(regOut)
			switch i.Kind {
			case "cas":
				if o.Err {
					return true, s // an operation that returned an error must have had no effect
				}
				if o.OK {
					if i.Lenient && i.Exp == i.New {
						return true, s // Commit(x,x) on a shared handle: rebase-and-succeed is legal
					}
					return s == i.Exp, i.New
				}
				return s != i.Exp, s
			case "read":
				return o.Val == s, s
			}
			return false, s
		},
		DescribeOperation: func(in, out any) string { return fmt.Sprintf("%+v -> %+v", in, out) },
	}
}

type histStats struct {
	overlapWin  bool   // >= 2 overlapping conditional updates on one expected value, exactly one succeeded
	order       string // client ids of the successful updates in chain order
	commitsOK   int
	commitsFail int
	commitsErr  int
	reads       int
	inconcl     bool
}

func short(s string) string {
	if len(s) > 48 {
		return s[:48]
	}
	return s
}

func witnessOps(ops []histOp) []string {
	if len(ops) == 0 {
		return nil
	}
	t0 := ops[0].Call
	for _, o := range ops {
		if o.Call < t0 {
			t0 = o.Call
		}
	}
	srt := append([]histOp(nil), ops...)
	sort.Slice(srt, func(i, j int) bool { return srt[i].Call < srt[j].Call })
	var out []string
	for i, o := range srt {
		if i >= 300 {
			out = append(out, "...")
			break
		}
		s := fmt.Sprintf("[%8dus..%8dus] c%d h%d %s", (o.Call-t0)/1000, (o.Ret-t0)/1000, o.Client, o.Handle, o.Kind)
		switch o.Kind {
		case "cas":
			s += fmt.Sprintf(" exp=%s new=%s ok=%v", short(o.Exp), short(o.New), o.OK)
			if o.Lenient {
				s += " (shared-handle Commit(x,x))"
			}
			if o.Err != "" {
				s += " err=" + o.Err
			}
		default:
			s += " -> " + short(o.Val)
		}
		out = append(out, s)
	}
	return out
}

// checkHistory decides one recorded history: direct checks that need no search (fork, invented / failed / errored
// values becoming visible, broken chain) and the porcupine linearizability check with the weak reads' intervals
// widened back to the handle's last synchronisation (A.1: stale views are legal, invented or future ones are not).
// quietDup: the caller reports values installed twice itself (blobstore version reuse has its own key).
var quietDup bool

func checkHistory(c *rig.Ctx, key string, label string, ops []histOp, initial string, timeout time.Duration) histStats {
	var st histStats
	installed := map[string]*histOp{} // value -> the successful update that installed it
	failedNew := map[string]*histOp{}
	erroredNew := map[string]*histOp{}
	byExp := map[string][]*histOp{}
	wit := func(extra map[string]any) map[string]any {
		m := map[string]any{"history": label, "initial": initial, "ops": witnessOps(ops)}
		for k, v := range extra {
			m[k] = v
		}
		return m
	}
	for i := range ops {
		o := &ops[i]
		if o.Kind != "cas" {
			st.reads++
			continue
		}
		switch {
		case o.Err != "":
			st.commitsErr++
			if o.New != o.Exp {
				erroredNew[o.New] = o
			}
		case o.OK:
			st.commitsOK++
			if o.New != o.Exp {
				if prev, dup := installed[o.New]; dup && !quietDup {
					c.Violation(key+"/same-value-installed-twice", fmt.Sprintf("%s: value %s was installed by two successful updates (clients %d and %d)", label, short(o.New), prev.Client, o.Client), wit(nil))
				}
				installed[o.New] = o
			}
		default:
			st.commitsFail++
			if o.New != o.Exp {
				failedNew[o.New] = o
			}
		}
		if o.New != o.Exp {
			byExp[o.Exp] = append(byExp[o.Exp], o)
		}
	}
	// fork: two successful conditional updates against the same expected value
	for exp, grp := range byExp {
		var winners []*histOp
		for _, o := range grp {
			if o.OK && o.Err == "" {
				winners = append(winners, o)
			}
		}
		if len(winners) > 1 {
			c.Violation(key+"/fork-two-updates-succeeded-on-one-expected-value",
				fmt.Sprintf("%s: %d conditional updates expecting %s all succeeded (clients %d and %d ...): a lost update", label, len(winners), short(exp), winners[0].Client, winners[1].Client),
				wit(map[string]any{"expected": exp}))
		}
		if len(winners) == 1 && len(grp) >= 2 {
			w := winners[0]
			for _, o := range grp {
				if o != w && o.Err == "" && !o.OK && o.Call <= w.Ret && w.Call <= o.Ret {
					st.overlapWin = true
				}
			}
		}
		if len(winners) >= 1 && exp != initial {
			if _, ok := installed[exp]; !ok {
				c.Violation(key+"/update-succeeded-on-never-installed-value",
					fmt.Sprintf("%s: a conditional update expecting %s succeeded, but no successful update ever installed that value", label, short(exp)), wit(map[string]any{"expected": exp}))
			}
		}
	}
	// visible values must have been installed by a successful update
	for i := range ops {
		o := &ops[i]
		if o.Kind == "cas" || o.Val == initial {
			continue
		}
		if _, ok := installed[o.Val]; ok {
			continue
		}
		switch {
		case erroredNew[o.Val] != nil:
			c.Violation(key+"/update-that-returned-error-took-effect", fmt.Sprintf("%s: client %d observed %s, the value of an update that returned an error (%s)", label, o.Client, short(o.Val), erroredNew[o.Val].Err), wit(nil))
		case failedNew[o.Val] != nil:
			c.Violation(key+"/failed-update-took-effect", fmt.Sprintf("%s: client %d observed %s, the value of an update that reported failure", label, o.Client, short(o.Val)), wit(nil))
		default:
			c.Violation(key+"/observed-never-installed-value", fmt.Sprintf("%s: client %d observed %s which no successful update installed", label, o.Client, short(o.Val)), wit(nil))
		}
	}
	// order of successful updates (chain from the initial value)
	next := map[string]*histOp{}
	for _, o := range installed {
		next[o.Exp] = o
	}
	var ord []string
	cur := initial
	for n := 0; n <= len(installed); n++ {
		o := next[cur]
		if o == nil {
			break
		}
		ord = append(ord, fmt.Sprint(o.Client))
		cur = o.New
	}
	st.order = strings.Join(ord, ",")

	// porcupine
	tmin := int64(0)
	for i, o := range ops {
		if i == 0 || o.Call < tmin {
			tmin = o.Call
		}
	}
	var pops []porcupine.Operation
	for _, o := range ops {
		call := o.Call
		in := regIn{Kind: "read"}
		out := regOut{Val: o.Val}
		switch o.Kind {
		case "cas":
			in = regIn{Kind: "cas", Exp: o.Exp, New: o.New, Lenient: o.Lenient}
			out = regOut{OK: o.OK, Err: o.Err != ""}
		case "weak":
			// window start: the latest call of an operation on the same handle that certainly synchronised with the
			// shared state (strict read or successful update) and returned before this read was called; the handle
			// was opened before the history started otherwise.
			start := tmin - 1
			for _, z := range ops {
				if z.Handle == o.Handle && z.Ret < o.Call && z.Call > start && (z.Kind == "read" || (z.Kind == "cas" && z.OK && z.Err == "")) {
					start = z.Call
				}
			}
			call = start
		}
		pops = append(pops, porcupine.Operation{ClientId: o.Client + 1, Input: in, Call: call, Output: out, Return: o.Ret})
	}
	res := porcupine.CheckOperationsTimeout(regModel(initial), pops, timeout)
	switch res {
	case porcupine.Illegal:
		c.Violation(key+"/not-linearizable-as-cas-register", label+": the recorded history has no linearization as a compare-and-swap register (rules of DESIGN A.1)", wit(nil))
	case porcupine.Unknown:
		st.inconcl = true
	}
	return st
}

// ---- chunk bookkeeping ------------------------------------------------------------------------------------------

type sharedModel struct {
	mu   sync.Mutex
	data map[hash.Hash][]byte
}

func newSharedModel() *sharedModel { return &sharedModel{data: map[hash.Hash][]byte{}} }

func (m *sharedModel) add(h hash.Hash, d []byte) {
	m.mu.Lock()
	m.data[h] = append([]byte(nil), d...)
	m.mu.Unlock()
}

func digest(b []byte) string {
	s := sha1.Sum(b)
	return hex.EncodeToString(s[:8]) + fmt.Sprintf("/%d", len(b))
}

// freshObs is what a freshly opened handle showed: its root and the closure walked with the self-describing encoding.
type freshObs struct {
	Client  int               `json:"c"`
	Call    int64             `json:"call"`
	Ret     int64             `json:"ret"`
	Root    string            `json:"root"`
	Seen    map[string]string `json:"seen"` // address -> digest of the bytes read
	Missing []string          `json:"missing,omitempty"`
	Err     string            `json:"err,omitempty"`
}

// walkClosure reads the closure of root through cs. Ghost chunks are present leaves.
func walkClosure(cs chunks.ChunkStore, root hash.Hash) (seen map[hash.Hash][]byte, missing []hash.Hash, err error) {
	seen = map[hash.Hash][]byte{}
	if root.IsEmpty() {
		return
	}
	stack := []hash.Hash{root}
	for len(stack) > 0 {
		h := stack[len(stack)-1]
		stack = stack[:len(stack)-1]
		if _, ok := seen[h]; ok {
			continue
		}
		ch, gerr := cs.Get(bg, h)
		if gerr != nil {
			return seen, missing, gerr
		}
		if ch.IsGhost() {
			seen[h] = nil
			continue
		}
		if ch.IsEmpty() {
			missing = append(missing, h)
			seen[h] = nil
			continue
		}
		seen[h] = append([]byte(nil), ch.Data()...)
		stack = append(stack, oracle.DecodeRefs(ch.Data())...)
	}
	return
}

// observeFresh opens a fresh handle, reads its root and walks the closure.
func observeFresh(client int, open func() (chunks.ChunkStore, error)) (freshObs, histOp) {
	fo := freshObs{Client: client, Seen: map[string]string{}}
	fo.Call = rig.Mono()
	cs, err := open()
	if err != nil {
		fo.Ret = rig.Mono()
		fo.Err = "open: " + err.Error()
		return fo, histOp{}
	}
	defer cs.Close()
	root, err := cs.Root(bg)
	fo.Ret = rig.Mono()
	if err != nil {
		fo.Err = "Root: " + err.Error()
		return fo, histOp{}
	}
	fo.Root = root.String()
	seen, missing, err := walkClosure(cs, root)
	if err != nil {
		fo.Err = "Get: " + err.Error()
	}
	for h, d := range seen {
		if d != nil {
			fo.Seen[h.String()] = digest(d)
		}
	}
	for _, h := range missing {
		fo.Missing = append(fo.Missing, h.String())
	}
	sort.Strings(fo.Missing)
	return fo, histOp{Client: client, Handle: -1, Kind: "fresh", Val: fo.Root, Call: fo.Call, Ret: fo.Ret}
}

// checkFresh applies the reopen-after-ack rules (A.1 "chunk visibility") to every fresh-handle observation.
func checkFresh(c *rig.Ctx, key, label string, ops []histOp, fobs []freshObs, model map[hash.Hash][]byte, initial string) int {
	pred := map[string]string{} // installed root -> the root it replaced
	for _, o := range ops {
		if o.Kind == "cas" && o.OK && o.Err == "" && o.New != o.Exp {
			pred[o.New] = o.Exp
		}
	}
	checked := 0
	for _, fo := range fobs {
		w := map[string]any{"history": label, "fresh": fo, "ops": witnessOps(ops)}
		if fo.Err != "" {
			c.Violation(key+"/reopen-failed", fmt.Sprintf("%s: a fresh handle failed: %s", label, fo.Err), w)
			continue
		}
		if len(fo.Missing) > 0 {
			c.Violation(key+"/reopen-closure-unreadable", fmt.Sprintf("%s: fresh handle at root %s cannot read %d chunk(s) of the root's closure, e.g. %s", label, short(fo.Root), len(fo.Missing), fo.Missing[0]), w)
		}
		for a, dg := range fo.Seen {
			h, _ := hash.MaybeParse(a)
			want, ok := model[h]
			if !ok {
				c.Violation(key+"/reopen-unknown-chunk", fmt.Sprintf("%s: fresh handle's closure contains %s which no client wrote", label, a), w)
			} else if digest(want) != dg {
				c.Violation(key+"/reopen-chunk-differs", fmt.Sprintf("%s: fresh handle read different bytes for %s", label, a), w)
			}
		}
		chain := map[string]bool{}
		cur := fo.Root
		for n := 0; n <= len(pred)+1; n++ {
			chain[cur] = true
			p, ok := pred[cur]
			if !ok {
				break
			}
			cur = p
		}
		for _, o := range ops {
			if o.Kind != "cas" || !o.OK || o.Err != "" || o.Ret >= fo.Call || o.New == o.Exp {
				continue
			}
			if !chain[o.New] {
				c.Violation(key+"/reopen-shows-root-older-than-acknowledged",
					fmt.Sprintf("%s: client %d's commit of %s was acknowledged before a fresh handle was opened, but that handle's root %s is neither it nor a later root", label, o.Client, short(o.New), short(fo.Root)), w)
				continue
			}
			for _, p := range o.Puts {
				if _, ok := fo.Seen[p]; !ok {
					c.Violation(key+"/reopen-misses-chunk-written-before-ack",
						fmt.Sprintf("%s: chunk %s was Put by client %d before its acknowledged commit %s, and a handle opened afterwards (root %s) does not reach/read it", label, p, o.Client, short(o.New), short(fo.Root)), w)
					break
				}
			}
		}
		checked++
	}
	return checked
}

func hashOfString(s string) hash.Hash {
	h, _ := hash.MaybeParse(s)
	return h
}

func bytesEqual(a, b []byte) bool { return bytes.Equal(a, b) }
