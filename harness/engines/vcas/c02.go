package vcas

import (
	"encoding/json"
	"fmt"
	"math/rand"
	"os"
	"os/exec"
	"path/filepath"
	"strings"
	"sync"
	"time"

	"github.com/dolthub/dolt/go/libraries/utils/verifhook"
	"github.com/dolthub/dolt/go/store/blobstore"
	"github.com/dolthub/dolt/go/store/chunks"
	"github.com/dolthub/dolt/go/store/constants"
	"github.com/dolthub/dolt/go/store/hash"
	"github.com/dolthub/dolt/go/store/nbs"

	"verif/oracle"
	"verif/rig"
)

// C02 — root commit is an atomic compare-and-swap and acknowledged commits persist.
//
// (a) goroutines sharing one NomsBlockStore (journal, file manifest) or a few handles on one directory,
// (b) processes sharing a non-journal directory through the file manifest + LOCK,
// (c) a fresh handle after acknowledged commits must show that root or a later one and read the whole closure.
// Deciding step: direct checks + porcupine on the recorded call/return history (checkHistory), closure walks from
// fresh handles (checkFresh).

const porcupineTimeout = 30 * time.Second

// storeEnv describes how to obtain writer handles and fresh observer handles on one shared piece of storage.
type storeEnv struct {
	name  string
	multi bool // several writer handles may be opened on the same storage
	open  func() (chunks.ChunkStore, error)
	fresh func() (chunks.ChunkStore, error)
}

func journalEnv(dir string) *storeEnv {
	return &storeEnv{name: "journal",
		open: func() (chunks.ChunkStore, error) { return oracle.OpenJournal(dir) },
		fresh: func() (chunks.ChunkStore, error) {
			// a second opener of a journaled directory cannot take the lock and gets a read-only view of the journal
			return nbs.NewLocalJournalingStoreWithOptions(bg, constants.FormatDoltString, dir, oracle.Quota(), false, func(error) {},
				nbs.JournalingStoreOptions{SkipLockFileTimeout: true})
		}}
}

func fileEnv(dir string, mem uint64, multi bool) *storeEnv {
	name := "file"
	if multi {
		name = "file-multihandle"
	}
	op := func() (chunks.ChunkStore, error) { return oracle.OpenLocal(dir, mem) }
	return &storeEnv{name: name, multi: multi, open: op, fresh: op}
}

func bsEnv(name string, mk func() blobstore.Blobstore, mem uint64) *storeEnv {
	op := func() (chunks.ChunkStore, error) {
		return nbs.NewBSStore(bg, constants.FormatDoltString, mk(), mem, oracle.Quota())
	}
	return &storeEnv{name: name, multi: true, open: op, fresh: op}
}

type histResult struct {
	st     histStats
	ops    int
	fresh  int
	hookBM int64
	hookBR int64
}

// setHooks arms the scheduling hooks for one in-process history.
func setHooks(r *rand.Rand) string {
	verifhook.Clear("")
	mk := func() (verifhook.Action, string) {
		switch r.Intn(4) {
		case 0:
			return verifhook.Action{Kind: "count"}, "count"
		case 1:
			return verifhook.Action{Kind: "yield"}, "yield"
		default:
			d := time.Duration(50+r.Intn(1500)) * time.Microsecond
			return verifhook.Action{Kind: "sleep", Sleep: d}, "sleep(" + d.String() + ")"
		}
	}
	a, an := mk()
	b, bn := mk()
	verifhook.Set("nbs.commit.beforeManifestUpdate", a)
	verifhook.Set("manifest.beforeRename", b)
	return "beforeManifestUpdate=" + an + " beforeRename=" + bn
}

// runSharedHistory runs one in-process history: nClients goroutines over 1..3 handles of env.
func runSharedHistory(c *rig.Ctx, prop string, env *storeEnv, label string, r *rand.Rand) (res histResult, ok bool) {
	key := prop + "/" + env.name
	nHandles := 1
	if env.multi {
		nHandles = 1 + r.Intn(3)
	}
	nClients := 2 + r.Intn(5)
	if nClients < nHandles {
		nClients = nHandles
	}
	nOps := 3 + r.Intn(6)
	hooks := setHooks(r)
	defer verifhook.Clear("")
	preseed := r.Intn(2) == 0

	c.Case(label, map[string]any{"env": env.name, "handles": nHandles, "clients": nClients, "ops_per_client": nOps, "hooks": hooks, "preseed": preseed})

	model := newSharedModel()
	var handles []chunks.ChunkStore
	defer func() {
		for _, h := range handles {
			h.Close()
		}
	}()
	for i := 0; i < nHandles; i++ {
		h, err := env.open()
		if err != nil {
			c.Violation(key+"/open-failed", fmt.Sprintf("%s: opening handle %d failed: %v", label, i, err), nil)
			return res, false
		}
		handles = append(handles, h)
		if i == 0 && preseed {
			ch := chunks.NewChunk(oracle.EncodeChunkData(nil, []byte("seed "+label)))
			model.add(ch.Hash(), ch.Data())
			rig.Must(h.Put(bg, ch, oracle.GetAddrsCurry))
			okc, err := h.Commit(bg, ch.Hash(), hash.Hash{})
			if err != nil || !okc {
				c.Violation(key+"/seed-commit-failed", fmt.Sprintf("%s: single-writer commit on an empty store = %v, %v", label, okc, err), nil)
				return res, false
			}
		}
	}
	initial, err := handles[0].Root(bg)
	rig.Must(err)

	perHandle := map[int]int{}
	for i := 0; i < nClients; i++ {
		perHandle[i%nHandles]++
	}
	rec := &recorder{}
	var fmu sync.Mutex
	var fobs []freshObs
	var amu sync.Mutex
	anomalies := map[string]string{}
	start := make(chan struct{})
	var wg sync.WaitGroup
	for i := 0; i < nClients; i++ {
		hi := i % nHandles
		cr := rand.New(rand.NewSource(r.Int63()))
		cl := &nbsClient{id: i, handle: hi, cs: handles[hi], excl: perHandle[hi] == 1, cv: initial, r: cr,
			rec: rec.add, putRec: model.add, fresh: env.fresh,
			freshRec:   func(fo freshObs) { fmu.Lock(); fobs = append(fobs, fo); fmu.Unlock() },
			anomaly:    func(k, w string) { amu.Lock(); anomalies[k] = w; amu.Unlock() },
			freshAfter: 50, maxBody: 120}
		if !initial.IsEmpty() {
			cl.seen = []hash.Hash{initial}
		}
		prog := genProgram(cr, nOps, cl.excl)
		wg.Add(1)
		go func() {
			defer wg.Done()
			<-start
			for _, op := range prog {
				cl.step(op)
			}
		}()
	}
	close(start)
	wg.Wait()
	res.hookBM = verifhook.Hits("nbs.commit.beforeManifestUpdate")
	res.hookBR = verifhook.Hits("manifest.beforeRename")
	verifhook.Clear("")

	// quiescent end: every handle synchronises and must agree; one more fresh handle
	for hi, h := range handles {
		call := rig.Mono()
		if err := h.Rebase(bg); err != nil {
			anomalies["rebase-error"] = err.Error()
			continue
		}
		v, err := h.Root(bg)
		ret := rig.Mono()
		if err == nil {
			rec.add(histOp{Client: nClients, Handle: hi, Kind: "read", Val: v.String(), Call: call, Ret: ret})
		}
	}
	fo, fop := observeFresh(nClients, env.fresh)
	fobs = append(fobs, fo)
	if fo.Err == "" {
		rec.add(fop)
	}
	for k, w := range anomalies {
		c.Violation(key+"/"+k, label+": "+w, map[string]any{"ops": witnessOps(rec.ops)})
	}
	res.st = checkHistory(c, key, label, rec.ops, initial.String(), porcupineTimeout)
	res.fresh = checkFresh(c, key, label, rec.ops, fobs, model.data, initial.String())
	res.ops = len(rec.ops)
	return res, true
}

func tally(c *rig.Ctx, prop, env string, res histResult, orders map[string]bool) {
	p := strings.ToLower(prop)
	c.Count(p+".histories."+env, 1)
	c.Count(p+".ops", res.ops)
	c.Count(p+".commits_ok", res.st.commitsOK)
	c.Count(p+".commits_refused", res.st.commitsFail)
	c.Count(p+".commits_error", res.st.commitsErr)
	c.Count(p+".fresh_handle_observations", res.fresh)
	c.Count(p+".hook_hits.beforeManifestUpdate", int(res.hookBM))
	c.Count(p+".hook_hits.beforeRename", int(res.hookBR))
	if res.st.overlapWin {
		c.Count(p+".histories_with_overlapping_updates_one_winner", 1)
		c.Count(p+".histories_with_overlapping_updates_one_winner."+env, 1)
	}
	if res.st.inconcl {
		c.Inconclusive("porcupine timed out on a history (" + env + ")")
	}
	id := env + ":" + res.st.order
	if res.st.commitsOK >= 2 && !orders[id] {
		orders[id] = true
		c.Count(p+".distinct_commit_orders", 1)
		if res.st.overlapWin {
			c.Distinct(id)
		}
	}
}

const c02Rule = "PRNG-generated client programs (commit with fresh/stale expected root, Root, Rebase+Root, Commit(r,r) with a novel chunk, " +
	"commit of a never-written root, fresh-handle observation) run by 2-6 concurrent clients with unique root chunks; each history is checked " +
	"directly (fork, invented/failed/errored value visible) and with porcupine against the CAS-register rules of DESIGN A.1 (stale Root() " +
	"without Rebase legal, window = since the handle's last synchronisation). A history is distinct/non-trivial when its (configuration, " +
	"order of winning clients) differs and it contained >= 2 overlapping conditional updates on one expected root of which exactly one succeeded"

func c02Goroutines(c *rig.Ctx) {
	c.Rule(c02Rule)
	c.Assume("Commit(x,x) on a handle shared with other clients is recorded as rebase-or-CAS (either outcome legal, DESIGN A.1)")
	c.Assume("the datas.Database retry loop on top of the store (DESIGN C02 W(c)) is not driven here")
	n := c.Pick(18, 700)
	orders := map[string]bool{}
	wins := 0
	mems := []uint64{1 << 10, 8 << 10, 1 << 20}
	for i := 0; i < n; i++ {
		for _, kind := range []string{"journal", "file", "file-multihandle"} {
			r := c.SubRand("c02/"+kind, i)
			dir := c.TempDir("c02")
			var env *storeEnv
			switch kind {
			case "journal":
				env = journalEnv(dir)
			case "file":
				env = fileEnv(dir, mems[r.Intn(len(mems))], false)
			default:
				env = fileEnv(dir, mems[r.Intn(len(mems))], true)
			}
			label := fmt.Sprintf("c02/%s/%d", kind, i)
			res, ok := runSharedHistory(c, "c02", env, label, r)
			os.RemoveAll(dir)
			if !ok {
				continue
			}
			tally(c, "c02", kind, res, orders)
			if res.st.overlapWin {
				wins++
			}
			if i < 2 {
				c.Sample(map[string]any{"case": label, "ops": res.ops, "commit_order": res.st.order, "commits_ok": res.st.commitsOK, "refused": res.st.commitsFail, "overlap_one_winner": res.st.overlapWin})
			}
		}
		if c.Violations() > 20 {
			return
		}
	}
	c.Require(wins > 0, "no history had >= 2 overlapping conditional updates of which exactly one succeeded")
}

// ---- processes ----------------------------------------------------------------------------------------------

type actorSpec struct {
	Target  string   `json:"target"` // nbs-local | nbs-bslocal | bs-local
	Dir     string   `json:"dir"`
	Client  int      `json:"client"`
	Seed    int64    `json:"seed"`
	Prog    []string `json:"prog"`
	Sync    string   `json:"sync"` // directory of the ready-<n> / go rendezvous files
	Out     string   `json:"out"`
	Mem     uint64   `json:"mem"`
	Initial string   `json:"initial"`
}

type actorOut struct {
	Ops       []histOp          `json:"ops"`
	Chunks    map[string][]byte `json:"chunks"`
	Fresh     []freshObs        `json:"fresh"`
	Anomalies map[string]string `json:"anomalies"`
	HookBM    int64             `json:"hook_bm"`
	HookBR    int64             `json:"hook_br"`
	Versions  map[string]string `json:"versions,omitempty"` // blobstore: version -> digest of the contents written
	Done      bool              `json:"done"`
}

func openActorStore(sp actorSpec) (chunks.ChunkStore, error) {
	switch sp.Target {
	case "nbs-local":
		return oracle.OpenLocal(sp.Dir, sp.Mem)
	case "nbs-bslocal":
		return nbs.NewBSStore(bg, constants.FormatDoltString, blobstore.NewLocalBlobstore(sp.Dir), sp.Mem, oracle.Quota())
	}
	return nil, fmt.Errorf("unknown target %q", sp.Target)
}

// actorMain is the helper process: one client with its own handle on the shared storage.
func actorMain(args []string) int {
	b, err := os.ReadFile(args[0])
	if err != nil {
		fmt.Fprintln(os.Stderr, err)
		return 3
	}
	var sp actorSpec
	if err := json.Unmarshal(b, &sp); err != nil {
		fmt.Fprintln(os.Stderr, err)
		return 3
	}
	out := actorOut{Chunks: map[string][]byte{}, Anomalies: map[string]string{}}
	rec := &recorder{}
	r := rand.New(rand.NewSource(sp.Seed))
	if sp.Target == "bs-local" {
		bsActor(sp, r, rec, &out)
	} else {
		cs, err := openActorStore(sp)
		if err != nil {
			fmt.Fprintln(os.Stderr, "open:", err)
			return 3
		}
		cl := &nbsClient{id: sp.Client, handle: sp.Client, cs: cs, excl: true, cv: hashOfString(sp.Initial), r: r,
			rec:        rec.add,
			putRec:     func(h hash.Hash, d []byte) { out.Chunks[h.String()] = append([]byte(nil), d...) },
			fresh:      func() (chunks.ChunkStore, error) { return openActorStore(sp) },
			freshRec:   func(fo freshObs) { out.Fresh = append(out.Fresh, fo) },
			anomaly:    func(k, w string) { out.Anomalies[k] = w },
			freshAfter: 100, maxBody: 120}
		if !cl.cv.IsEmpty() {
			cl.seen = []hash.Hash{cl.cv}
		}
		waitForGo(sp)
		for _, op := range sp.Prog {
			cl.step(op)
		}
		// final synchronised read of this actor's own handle
		call := rig.Mono()
		if err := cs.Rebase(bg); err == nil {
			if v, err := cs.Root(bg); err == nil {
				rec.add(histOp{Client: sp.Client, Handle: sp.Client, Kind: "read", Val: v.String(), Call: call, Ret: rig.Mono()})
			}
		}
		cs.Close()
	}
	out.Ops = rec.ops
	out.HookBM = verifhook.Hits("nbs.commit.beforeManifestUpdate")
	out.HookBR = verifhook.Hits("manifest.beforeRename")
	out.Done = true
	ob, _ := json.Marshal(out)
	if err := os.WriteFile(sp.Out+".tmp", ob, 0o644); err != nil {
		fmt.Fprintln(os.Stderr, err)
		return 3
	}
	os.Rename(sp.Out+".tmp", sp.Out)
	return 0
}

// waitForGo: the actor reports that it is set up (handle open) and waits for the monitor's start signal, which
// carries a CLOCK_MONOTONIC instant shortly in the future so that all actors issue their first operation together.
func waitForGo(sp actorSpec) {
	os.WriteFile(filepath.Join(sp.Sync, fmt.Sprintf("ready-%d", sp.Client)), []byte("r"), 0o644)
	deadline := time.Now().Add(100 * time.Second)
	for time.Now().Before(deadline) {
		if b, err := os.ReadFile(filepath.Join(sp.Sync, "go")); err == nil {
			var at int64
			fmt.Sscan(string(b), &at)
			for rig.Mono() < at {
				time.Sleep(100 * time.Microsecond)
			}
			return
		}
		time.Sleep(500 * time.Microsecond)
	}
}

func genHookEnv(r *rand.Rand) string {
	part := func(point string) string {
		switch r.Intn(4) {
		case 0:
			return point + "=count"
		case 1:
			return point + "=yield"
		default:
			return fmt.Sprintf("%s=sleep(%.1f)", point, 0.2+float64(r.Intn(60))/10)
		}
	}
	return part("nbs.commit.beforeManifestUpdate") + ";" + part("manifest.beforeRename")
}

// runActors spawns one helper process per spec, waits for them and returns their outputs. A crashed actor is an
// observation (violation key/actor-crash); an actor that failed for another reason makes the run inconclusive.
func runActors(c *rig.Ctx, key, label, dir string, specs []actorSpec, hookEnvs []string) ([]actorOut, bool) {
	type proc struct {
		cmd  *exec.Cmd
		errf string
	}
	var procs []proc
	for i, sp := range specs {
		sf := filepath.Join(dir, fmt.Sprintf("actor-%d.spec.json", i))
		b, _ := json.Marshal(sp)
		rig.Must(os.WriteFile(sf, b, 0o644))
		cmd := exec.Command(rig.Self(), "vcas-actor", sf)
		cmd.Env = append(os.Environ(), "VERIF_HOOKS="+hookEnvs[i], "GORACE=halt_on_error=0")
		errf := filepath.Join(dir, fmt.Sprintf("actor-%d.stderr", i))
		f, err := os.Create(errf)
		rig.Must(err)
		cmd.Stdout, cmd.Stderr = f, f
		rig.Must(cmd.Start())
		f.Close()
		procs = append(procs, proc{cmd, errf})
	}
	// rendezvous: wait until every actor is ready (or gone), then publish the common start instant
	for waited := 0; waited < 90000; waited++ {
		ready := 0
		for i := range specs {
			if _, err := os.Stat(filepath.Join(specs[i].Sync, fmt.Sprintf("ready-%d", specs[i].Client))); err == nil {
				ready++
			}
		}
		if ready == len(specs) {
			break
		}
		time.Sleep(time.Millisecond)
	}
	gof := filepath.Join(specs[0].Sync, "go")
	rig.Must(os.WriteFile(gof+".tmp", []byte(fmt.Sprint(rig.Mono()+int64(40*time.Millisecond))), 0o644))
	rig.Must(os.Rename(gof+".tmp", gof))
	outs := make([]actorOut, len(specs))
	good := true
	for i, p := range procs {
		done := make(chan error, 1)
		go func() { done <- p.cmd.Wait() }()
		var werr error
		select {
		case werr = <-done:
		case <-time.After(120 * time.Second):
			p.cmd.Process.Kill()
			werr = fmt.Errorf("actor timed out: %v", <-done)
		}
		b, rerr := os.ReadFile(specs[i].Out)
		if rerr == nil {
			rerr = json.Unmarshal(b, &outs[i])
		}
		if werr != nil || rerr != nil || !outs[i].Done {
			eb, _ := os.ReadFile(p.errf)
			es := string(eb)
			if len(es) > 4000 {
				es = es[:4000]
			}
			if strings.Contains(es, "panic:") || strings.Contains(es, "fatal error:") {
				c.Violation(key+"/actor-crash", fmt.Sprintf("%s: actor process %d crashed", label, i), map[string]any{"stderr": es})
			} else {
				c.Inconclusive(fmt.Sprintf("%s: actor %d failed without verdict: %v %v: %s", label, i, werr, rerr, es))
			}
			good = false
		}
	}
	return outs, good
}

// runProcessHistory: nProcs actor processes, each with its own handle on one shared directory.
func runProcessHistory(c *rig.Ctx, prop, target, envName, label string, r *rand.Rand) (res histResult, ok bool) {
	key := prop + "/" + envName
	dir := c.TempDir(prop + "proc")
	defer os.RemoveAll(dir)
	store := filepath.Join(dir, "store")
	rig.Must(os.MkdirAll(store, 0o755))
	nProcs := 2 + r.Intn(3)
	nOps := 3 + r.Intn(5)
	mem := []uint64{1 << 10, 64 << 10, 1 << 20}[r.Intn(3)]
	sp0 := actorSpec{Target: target, Dir: store, Mem: mem}
	model := map[hash.Hash][]byte{}
	initial := hash.Hash{}
	if r.Intn(2) == 0 {
		cs, err := openActorStore(sp0)
		if err != nil {
			c.Violation(key+"/open-failed", label+": "+err.Error(), nil)
			return res, false
		}
		ch := chunks.NewChunk(oracle.EncodeChunkData(nil, []byte("seed "+label)))
		model[ch.Hash()] = ch.Data()
		rig.Must(cs.Put(bg, ch, oracle.GetAddrsCurry))
		okc, err := cs.Commit(bg, ch.Hash(), hash.Hash{})
		cs.Close()
		if err != nil || !okc {
			c.Violation(key+"/seed-commit-failed", fmt.Sprintf("%s: single-writer commit on an empty store = %v, %v", label, okc, err), nil)
			return res, false
		}
		initial = ch.Hash()
	}
	var specs []actorSpec
	var hookEnvs []string
	for i := 0; i < nProcs; i++ {
		sp := sp0
		sp.Client, sp.Seed, sp.Sync, sp.Initial = i, r.Int63(), dir, initial.String()
		sp.Prog = genProgram(r, nOps, true)
		sp.Out = filepath.Join(dir, fmt.Sprintf("actor-%d.out.json", i))
		specs = append(specs, sp)
		hookEnvs = append(hookEnvs, genHookEnv(r))
	}
	c.Case(label, map[string]any{"env": envName, "processes": nProcs, "ops_per_process": nOps, "memtable": mem, "hooks": hookEnvs, "preseed": !initial.IsEmpty(), "programs": specs})
	outs, good := runActors(c, key, label, dir, specs, hookEnvs)
	if !good {
		return res, false
	}
	var ops []histOp
	var fobs []freshObs
	for i, o := range outs {
		ops = append(ops, o.Ops...)
		fobs = append(fobs, o.Fresh...)
		for a, d := range o.Chunks {
			model[hashOfString(a)] = d
		}
		for k, w := range o.Anomalies {
			c.Violation(key+"/"+k, fmt.Sprintf("%s: actor %d: %s", label, i, w), map[string]any{"ops": witnessOps(o.Ops)})
		}
		res.hookBM += o.HookBM
		res.hookBR += o.HookBR
	}
	// the monitor's own fresh handle after every actor has exited
	fo, fop := observeFresh(nProcs, func() (chunks.ChunkStore, error) { return openActorStore(sp0) })
	fobs = append(fobs, fo)
	if fo.Err == "" {
		ops = append(ops, fop)
	}
	res.st = checkHistory(c, key, label, ops, initial.String(), porcupineTimeout)
	res.fresh = checkFresh(c, key, label, ops, fobs, model, initial.String())
	res.ops = len(ops)
	return res, true
}

func c02Processes(c *rig.Ctx) {
	c.Rule(c02Rule)
	c.Rule("process stage: 2-4 helper processes (re-exec of the harness), each with its own nbs.NewLocalStore handle on one non-journal directory " +
		"(file manifest + LOCK), VERIF_HOOKS yields/sleeps at nbs.commit.beforeManifestUpdate and manifest.beforeRename; histories merged by CLOCK_MONOTONIC")
	n := c.Pick(10, 250)
	orders := map[string]bool{}
	wins := 0
	for i := 0; i < n; i++ {
		r := c.SubRand("c02/processes", i)
		label := fmt.Sprintf("c02/processes/%d", i)
		res, ok := runProcessHistory(c, "c02", "nbs-local", "processes", label, r)
		if !ok {
			continue
		}
		tally(c, "c02", "processes", res, orders)
		if res.st.overlapWin {
			wins++
		}
		if i < 2 {
			c.Sample(map[string]any{"case": label, "ops": res.ops, "commit_order": res.st.order, "commits_ok": res.st.commitsOK, "refused": res.st.commitsFail, "errors": res.st.commitsErr, "overlap_one_winner": res.st.overlapWin})
		}
		if c.Violations() > 20 {
			return
		}
	}
	c.Require(wins > 0, "no multi-process history had >= 2 overlapping conditional updates of which exactly one succeeded")
}
