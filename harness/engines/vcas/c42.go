package vcas

import (
	"bytes"
	"context"
	"fmt"
	"io"
	"math/rand"
	"os"
	"os/exec"
	"path/filepath"
	"sort"
	"strings"
	"sync"
	"time"

	"github.com/dolthub/dolt/go/store/blobstore"
	"github.com/dolthub/dolt/go/store/chunks"
	"github.com/dolthub/dolt/go/store/constants"
	"github.com/dolthub/dolt/go/store/hash"
	"github.com/dolthub/dolt/go/store/nbs"

	"verif/oracle"
	"verif/rig"
)

// C42 — blobstores: conditional manifest update (CAS register keyed by version), byte ranges (slice model),
// Concatenate (== concatenation), and an NBS opened on a blobstore (C01-style read comparison + the C02 CAS check).
// Backends driven: InMemoryBlobstore, LocalBlobstore (goroutines and processes), GitBlobstore against a local bare
// "remote" repository. GCS / OCI / OSS / S3 / Azure backends need network and are not driven.

// ---- CAS histories on the raw Blobstore interface ---------------------------------------------------------------

type bsClient struct {
	id, handle int
	bs         blobstore.Blobstore
	ver        string
	seen       []string
	r          *rand.Rand
	rec        func(histOp)
	verRec     func(ver, dg string)
	anomaly    func(k, w string)
	seq        int
}

func (cl *bsClient) note(v string) {
	cl.ver = v
	for _, s := range cl.seen {
		if s == v {
			return
		}
	}
	cl.seen = append(cl.seen, v)
}

func (cl *bsClient) step(op string) {
	switch op {
	case "get":
		call := rig.Mono()
		data, ver, err := blobstore.GetBytes(bg, cl.bs, blobstore.ManifestKey, blobstore.AllRange)
		ret := rig.Mono()
		if err != nil {
			if !blobstore.IsNotFoundError(err) {
				cl.anomaly("get-error", err.Error())
				return
			}
			ver, data = "", nil
		}
		cl.rec(histOp{Client: cl.id, Handle: cl.handle, Kind: "read", Val: ver, Digest: digest(data), Call: call, Ret: ret})
		cl.note(ver)
	case "cas", "stale", "bogus":
		exp := cl.ver
		switch op {
		case "stale":
			if len(cl.seen) > 0 {
				exp = cl.seen[cl.r.Intn(len(cl.seen))]
			}
		case "bogus": // a version that never existed; lexicographically above / below / unrelated to the real one
			switch cl.r.Intn(4) {
			case 0:
				exp = cl.ver + "x"
			case 1:
				exp = "zzzz-never-a-version"
			case 2:
				exp = "!" + cl.ver
			default:
				if cl.ver != "" {
					exp = cl.ver[:len(cl.ver)-1]
				} else {
					exp = "0"
				}
			}
		}
		cl.seq++
		pad := make([]byte, cl.r.Intn(200))
		cl.r.Read(pad)
		contents := append([]byte(fmt.Sprintf("manifest-contents c%d n%d ", cl.id, cl.seq)), pad...)
		call := rig.Mono()
		nv, err := cl.bs.CheckAndPutManifest(bg, exp, contents)
		ret := rig.Mono()
		o := histOp{Client: cl.id, Handle: cl.handle, Kind: "cas", Exp: exp, Call: call, Ret: ret, Digest: digest(contents)}
		switch {
		case err == nil:
			o.OK, o.New = true, nv
			cl.verRec(nv, o.Digest)
			cl.note(nv)
		case blobstore.IsCheckAndPutError(err):
			o.New = fmt.Sprintf("(refused c%d n%d)", cl.id, cl.seq)
		default:
			o.Err = errText(err)
			o.New = fmt.Sprintf("(error c%d n%d)", cl.id, cl.seq)
		}
		if op == "bogus" && o.OK {
			// reported through the history check as well, but name the class precisely here
			cl.anomaly("cas-with-never-existing-expected-version-succeeded", fmt.Sprintf("CheckAndPutManifest(expected=%q) succeeded although the stored version was %q", exp, cl.ver))
		}
		cl.rec(o)
		if !o.OK {
			cl.step("get")
		}
	}
}

func genBSProgram(r *rand.Rand, n int) []string {
	prog := []string{"cas"}
	for len(prog) < n {
		x := r.Intn(100)
		switch {
		case x < 50:
			prog = append(prog, "cas")
		case x < 62:
			prog = append(prog, "stale")
		case x < 76:
			prog = append(prog, "bogus")
		default:
			prog = append(prog, "get")
		}
	}
	return prog
}

// checkBSHistory = checkHistory + "a read returns the contents written together with the version it returns" +
// "two successful writes of different contents never return the same version" (a version that names two states makes
// the conditional update blind to the write in between: ABA).
func checkBSHistory(c *rig.Ctx, key, label string, ops []histOp, verDigest map[string]string) histStats {
	byVer := map[string]map[string]bool{}
	reused := map[string]bool{}
	for _, o := range ops {
		if o.Kind == "cas" && o.OK && o.Err == "" {
			if byVer[o.New] == nil {
				byVer[o.New] = map[string]bool{}
			}
			byVer[o.New][o.Digest] = true
			if len(byVer[o.New]) > 1 {
				reused[o.New] = true
			}
		}
	}
	for v := range reused {
		c.Count("c42.version_reused_by_distinct_successful_writes", 1)
		c.Violation("c42/version-reuse/distinct-successful-writes-returned-the-same-version/"+strings.TrimPrefix(key, "c42/"),
			fmt.Sprintf("%s: %d successful CheckAndPutManifest calls with different contents all returned version %q; a client that read the first contents can overwrite the later ones without noticing", label, len(byVer[v]), v),
			map[string]any{"version": v, "ops": witnessOps(ops)})
	}
	quietDup = true
	st := checkHistory(c, key, label, ops, "", porcupineTimeout)
	quietDup = false
	for _, o := range ops {
		if o.Kind != "read" || o.Val == "" || reused[o.Val] {
			continue
		}
		if ds, ok := byVer[o.Val]; ok && !ds[o.Digest] {
			c.Violation(key+"/read-contents-do-not-match-version", fmt.Sprintf("%s: Get returned version %q with contents that are not what the CheckAndPutManifest returning that version wrote", label, o.Val),
				map[string]any{"ops": witnessOps(ops)})
		}
	}
	return st
}

func bsActor(sp actorSpec, r *rand.Rand, rec *recorder, out *actorOut) {
	out.Versions = map[string]string{}
	cl := &bsClient{id: sp.Client, handle: sp.Client, bs: blobstore.NewLocalBlobstore(sp.Dir), ver: sp.Initial, r: r, rec: rec.add,
		verRec:  func(v, d string) { out.Versions[v] = d },
		anomaly: func(k, w string) { out.Anomalies[k] = w }}
	waitForGo(sp)
	for _, op := range sp.Prog {
		cl.step(op)
	}
	cl.step("get")
}

// runBSGoroutines: 2-5 goroutine clients doing CheckAndPutManifest / Get on one blobstore.
func runBSGoroutines(c *rig.Ctx, name, label string, r *rand.Rand, n int, handleFor func(i int) blobstore.Blobstore, opsPer int) histResult {
	key := "c42/" + name
	c.Case(label, map[string]any{"blobstore": name, "clients": n, "ops_per_client": opsPer})
	rec := &recorder{}
	var mu sync.Mutex
	verDigest := map[string]string{}
	anomalies := map[string]string{}
	start := make(chan struct{})
	var wg sync.WaitGroup
	for i := 0; i < n; i++ {
		cr := rand.New(rand.NewSource(r.Int63()))
		cl := &bsClient{id: i, handle: i, bs: handleFor(i), r: cr, rec: rec.add,
			verRec:  func(v, d string) { mu.Lock(); verDigest[v] = d; mu.Unlock() },
			anomaly: func(k, w string) { mu.Lock(); anomalies[k] = w; mu.Unlock() }}
		prog := genBSProgram(cr, opsPer)
		wg.Add(1)
		go func() {
			defer wg.Done()
			<-start
			for _, op := range prog {
				cl.step(op)
			}
			cl.step("get")
		}()
	}
	close(start)
	wg.Wait()
	for k, w := range anomalies {
		c.Violation(key+"/"+k, label+": "+w, map[string]any{"ops": witnessOps(rec.ops)})
	}
	var res histResult
	res.st = checkBSHistory(c, key, label, rec.ops, verDigest)
	res.ops = len(rec.ops)
	return res
}

func c42CAS(c *rig.Ctx) {
	c.Rule("CheckAndPutManifest/Get programs (expected = last seen, stale, or never-existing version; unique contents) run by 2-5 concurrent " +
		"clients per history on InMemoryBlobstore and LocalBlobstore, checked directly and with porcupine as a CAS register keyed by version; " +
		"plus the C02 history check on several nbs.NewBSStore handles over one blobstore. Distinct/non-trivial: (backend, order of winners) of " +
		"histories with >= 2 overlapping conditional updates on one version of which exactly one succeeded")
	c.Assume("cloud blobstores (GCS, OCI, OSS, S3, Azure) are not driven: no network")
	orders := map[string]bool{}
	wins := 0
	nMem, nLocal, nNBS := c.Pick(40, 1500), c.Pick(8, 300), c.Pick(8, 300)
	if v := os.Getenv("VCAS_C42_LOCAL_ONLY"); v != "" { // triage knob: only LocalBlobstore CAS histories, v of them
		fmt.Sscan(v, &nLocal)
		nMem, nNBS = 0, 0
	}
	for i := 0; i < nMem; i++ {
		r := c.SubRand("c42/inmem", i)
		bs := blobstore.NewInMemoryBlobstore("")
		res := runBSGoroutines(c, "inmem", fmt.Sprintf("c42/cas/inmem/%d", i), r, 2+r.Intn(4), func(int) blobstore.Blobstore { return bs }, 4+r.Intn(5))
		tally(c, "c42", "inmem", res, orders)
		if res.st.overlapWin {
			wins++
		}
	}
	for i := 0; i < nLocal; i++ {
		r := c.SubRand("c42/local", i)
		dir := c.TempDir("c42local")
		res := runBSGoroutines(c, "local", fmt.Sprintf("c42/cas/local/%d", i), r, 2+r.Intn(4), func(int) blobstore.Blobstore { return blobstore.NewLocalBlobstore(dir) }, 3+r.Intn(3))
		os.RemoveAll(dir)
		tally(c, "c42", "local", res, orders)
		if res.st.overlapWin {
			wins++
		}
		if i == 0 {
			c.Sample(map[string]any{"case": "c42/cas/local/0", "ops": res.ops, "winner_order": res.st.order, "ok": res.st.commitsOK, "refused": res.st.commitsFail})
		}
	}
	// the C02 check on NBS handles over a blobstore
	for i := 0; i < nNBS; i++ {
		for _, kind := range []string{"nbs-on-inmem", "nbs-on-local"} {
			r := c.SubRand("c42/"+kind, i)
			var env *storeEnv
			dir := ""
			mem := []uint64{1 << 10, 64 << 10}[r.Intn(2)]
			if kind == "nbs-on-inmem" {
				bs := blobstore.NewInMemoryBlobstore("")
				env = bsEnv(kind, func() blobstore.Blobstore { return bs }, mem)
			} else {
				dir = c.TempDir("c42nbs")
				d := dir
				env = bsEnv(kind, func() blobstore.Blobstore { return blobstore.NewLocalBlobstore(d) }, mem)
			}
			res, ok := runSharedHistory(c, "c42", env, fmt.Sprintf("c42/%s/%d", kind, i), r)
			if dir != "" {
				os.RemoveAll(dir)
			}
			if !ok {
				continue
			}
			tally(c, "c42", kind, res, orders)
			if res.st.overlapWin {
				wins++
			}
		}
		if c.Violations() > 20 {
			return
		}
	}
	c.Require(wins > 0, "no history had >= 2 overlapping conditional updates of which exactly one succeeded")
}

func c42Processes(c *rig.Ctx) {
	c.Rule("process stage: 2-4 helper processes doing CheckAndPutManifest/Get on one LocalBlobstore directory, and 2-4 processes each with its own " +
		"nbs.NewBSStore handle on one LocalBlobstore; histories merged by CLOCK_MONOTONIC and checked as above")
	orders := map[string]bool{}
	wins := 0
	n := c.Pick(4, 120)
	for i := 0; i < n; i++ {
		// raw blobstore
		r := c.SubRand("c42/local-processes", i)
		label := fmt.Sprintf("c42/cas/local-processes/%d", i)
		key := "c42/local-processes"
		dir := c.TempDir("c42proc")
		store := filepath.Join(dir, "bs")
		rig.Must(os.MkdirAll(store, 0o755))
		nProcs := 2 + r.Intn(3)
		var specs []actorSpec
		var hookEnvs []string
		for p := 0; p < nProcs; p++ {
			specs = append(specs, actorSpec{Target: "bs-local", Dir: store, Client: p, Seed: r.Int63(), Prog: genBSProgram(r, 3+r.Intn(3)), Sync: dir,
				Out: filepath.Join(dir, fmt.Sprintf("actor-%d.out.json", p))})
			hookEnvs = append(hookEnvs, "")
		}
		c.Case(label, map[string]any{"processes": nProcs, "programs": specs})
		outs, good := runActors(c, key, label, dir, specs, hookEnvs)
		if good {
			var ops []histOp
			verDigest := map[string]string{}
			for pi, o := range outs {
				ops = append(ops, o.Ops...)
				for v, d := range o.Versions {
					verDigest[v] = d
				}
				for k, w := range o.Anomalies {
					c.Violation(key+"/"+k, fmt.Sprintf("%s: actor %d: %s", label, pi, w), map[string]any{"ops": witnessOps(o.Ops)})
				}
			}
			res := histResult{st: checkBSHistory(c, key, label, ops, verDigest), ops: len(ops)}
			tally(c, "c42", "local-processes", res, orders)
			if res.st.overlapWin {
				wins++
			}
		}
		os.RemoveAll(dir)
		// NBS on a LocalBlobstore, one handle per process
		r2 := c.SubRand("c42/nbs-on-local-processes", i)
		res, ok := runProcessHistory(c, "c42", "nbs-bslocal", "nbs-on-local-processes", fmt.Sprintf("c42/nbs-on-local-processes/%d", i), r2)
		if ok {
			tally(c, "c42", "nbs-on-local-processes", res, orders)
			if res.st.overlapWin {
				wins++
			}
		}
		if c.Violations() > 20 {
			return
		}
	}
	c.Require(wins > 0, "no multi-process history had >= 2 overlapping conditional updates of which exactly one succeeded")
}

// ---- byte ranges and Concatenate ------------------------------------------------------------------------------------

// modelRange is the slice model of BlobRange (range.go): a negative offset counts from the end, length 0 means "to the
// end", a range that runs past the end is clamped. An offset outside [-size, size] is not given a meaning by the
// statement or by the BlobRange documentation: defined=false.
func modelRange(data []byte, off, length int64) (want []byte, defined bool) {
	size := int64(len(data))
	o := off
	if o < 0 {
		o = size + o
	}
	if o < 0 || o > size {
		return nil, false
	}
	end := size
	if length > 0 && o+length < size {
		end = o + length
	}
	return data[o:end], true
}

type getResult struct {
	data     []byte
	size     uint64
	ver      string
	err      error
	panicked any
}

func safeGet(bs blobstore.Blobstore, key string, off, length int64) (gr getResult) {
	defer func() {
		if p := recover(); p != nil {
			gr.panicked = p
		}
	}()
	rc, size, ver, err := bs.Get(bg, key, blobstore.NewBlobRange(off, length))
	gr.size, gr.ver, gr.err = size, ver, err
	if err != nil || rc == nil {
		return
	}
	defer rc.Close()
	gr.data, gr.err = io.ReadAll(rc)
	return
}

type rangeStats struct{ defined, undefined, undefErr, undefPanic, suffix, clamped int }

// checkRanges compares ranged Gets of one blob with the slice model.
func checkRanges(c *rig.Ctx, name string, bs blobstore.Blobstore, key string, data []byte, putVer string, pairs [][2]int64, rs *rangeStats) {
	size := int64(len(data))
	for _, p := range pairs {
		off, length := p[0], p[1]
		want, defined := modelRange(data, off, length)
		if !defined {
			// fully outside the blob: only "no bytes that are not a part of the blob at that position" could be asked;
			// the outcome (error, panic, empty, clamped) is recorded, not judged.
			gr := safeGet(bs, key, off, length)
			rs.undefined++
			if gr.panicked != nil {
				rs.undefPanic++
			} else if gr.err != nil {
				rs.undefErr++
			}
			continue
		}
		rc, gotSize, ver, err := bs.Get(bg, key, blobstore.NewBlobRange(off, length))
		w := map[string]any{"blobstore": name, "blob_size": size, "offset": off, "length": length}
		cls := "positive-offset"
		o := off
		if off < 0 {
			cls = "suffix-offset"
			rs.suffix++
			o = size + off
		}
		if length > 0 && o+length > size {
			rs.clamped++
		}
		if err != nil {
			c.Violation(fmt.Sprintf("c42/%s/range/error/%s", name, cls), fmt.Sprintf("Get(size %d, offset %d, length %d) failed: %v", size, off, length, err), w)
			continue
		}
		got, rerr := io.ReadAll(rc)
		rc.Close()
		if rerr != nil {
			c.Violation(fmt.Sprintf("c42/%s/range/read-error/%s", name, cls), fmt.Sprintf("reading Get(size %d, offset %d, length %d) failed: %v", size, off, length, rerr), w)
			continue
		}
		rs.defined++
		if !bytes.Equal(got, want) {
			w["got_len"], w["want_len"] = len(got), len(want)
			c.Violation(fmt.Sprintf("c42/%s/range/wrong-bytes/%s", name, cls),
				fmt.Sprintf("Get(size %d, offset %d, length %d) returned %d bytes that are not blob[%d:%d] (%d bytes)", size, off, length, len(got), o, o+int64(len(want)), len(want)), w)
		}
		if int64(gotSize) != size {
			c.Violation(fmt.Sprintf("c42/%s/range/wrong-total-size", name), fmt.Sprintf("Get(size %d, offset %d, length %d) reported total size %d", size, off, length, gotSize), w)
		}
		if putVer != "" && ver != putVer {
			c.Violation(fmt.Sprintf("c42/%s/range/version-differs-from-put", name), fmt.Sprintf("Get returned version %q, Put had returned %q", ver, putVer), w)
		}
	}
}

func allPairs(size int64) [][2]int64 {
	var out [][2]int64
	for off := -size - 2; off <= size+2; off++ {
		for l := int64(0); l <= size+2; l++ {
			out = append(out, [2]int64{off, l})
		}
		out = append(out, [2]int64{off, 1 << 40})
	}
	return out
}

func sampledPairs(r *rand.Rand, size int64, n int) [][2]int64 {
	edge := []int64{0, 1, 2, size - 2, size - 1, size, size + 1, size / 2, -1, -2, -size, -size + 1, -size - 1, -size / 2, 4095, 4096, 4097, 65536}
	var out [][2]int64
	for len(out) < n {
		var off, l int64
		if r.Intn(2) == 0 {
			off = edge[r.Intn(len(edge))]
		} else {
			off = r.Int63n(2*size+4) - size - 2
		}
		switch r.Intn(4) {
		case 0:
			l = 0
		case 1:
			l = edge[r.Intn(8)]
			if l < 0 {
				l = -l
			}
		default:
			l = r.Int63n(size + 3)
		}
		out = append(out, [2]int64{off, l})
	}
	return out
}

func randBytes(r *rand.Rand, n int) []byte {
	b := make([]byte, n)
	r.Read(b)
	return b
}

// rangeAndConcat drives one blobstore through blobs of many sizes.
func rangeAndConcat(c *rig.Ctx, name string, bs blobstore.Blobstore, r *rand.Rand, sizes []int, exhaustiveUpTo int64, sampleN int, bigSizes []int, concatCounts []int, rs *rangeStats) {
	blobs := map[string][]byte{}
	for i, sz := range append(append([]int(nil), sizes...), bigSizes...) {
		key := fmt.Sprintf("blob-%d-%d", i, sz)
		data := randBytes(r, sz)
		c.Case(fmt.Sprintf("c42/range/%s/size-%d", name, sz), map[string]any{"size": sz})
		ver, err := blobstore.PutBytes(bg, bs, key, data)
		if err != nil {
			c.Violation(fmt.Sprintf("c42/%s/put-error", name), fmt.Sprintf("Put of a %d byte blob failed: %v", sz, err), nil)
			continue
		}
		blobs[key] = data
		var pairs [][2]int64
		if int64(sz) <= exhaustiveUpTo {
			pairs = allPairs(int64(sz))
		} else {
			pairs = sampledPairs(r, int64(sz), sampleN)
		}
		if name == "git" || name == "git-chunked" {
			putVer := "" // the version of a deferred git Put is only final after the manifest flush
			_ = ver
			checkRanges(c, name, bs, key, data, putVer, pairs, rs)
		} else {
			checkRanges(c, name, bs, key, data, ver, pairs, rs)
		}
		if ok, err := bs.Exists(bg, key); err != nil || !ok {
			c.Violation(fmt.Sprintf("c42/%s/exists-false-after-put", name), fmt.Sprintf("Exists(%s) = %v, %v after Put", key, ok, err), nil)
		}
		c.Distinct(fmt.Sprintf("range/%s/%d", name, sz))
	}
	if _, _, _, err := bs.Get(bg, "never-written-key", blobstore.AllRange); !blobstore.IsNotFoundError(err) {
		c.Violation(fmt.Sprintf("c42/%s/missing-key-not-notfound", name), fmt.Sprintf("Get of a never-written key returned %v", err), nil)
	}
	// Concatenate
	keys := make([]string, 0, len(blobs))
	for k := range blobs {
		keys = append(keys, k)
	}
	sort.Strings(keys)
	for ci, k := range concatCounts {
		var srcs []string
		var want []byte
		for j := 0; j < k; j++ {
			s := keys[r.Intn(len(keys))]
			if len(blobs[s]) > 70000 && k > 4 {
				s = keys[0]
			}
			srcs = append(srcs, s)
			want = append(want, blobs[s]...)
		}
		key := fmt.Sprintf("concat-%d-%d", ci, k)
		c.Case(fmt.Sprintf("c42/concat/%s/%d-sources", name, k), map[string]any{"sources": srcs})
		_, err := bs.Concatenate(bg, key, srcs)
		if err != nil {
			c.Violation(fmt.Sprintf("c42/%s/concatenate-error", name), fmt.Sprintf("Concatenate of %d existing sources failed: %v", k, err), map[string]any{"sources": srcs})
			continue
		}
		got, _, err := blobstore.GetBytes(bg, bs, key, blobstore.AllRange)
		if err != nil {
			c.Violation(fmt.Sprintf("c42/%s/concatenate-result-unreadable", name), err.Error(), map[string]any{"sources": srcs})
			continue
		}
		c.Count("c42.concatenations."+name, 1)
		if !bytes.Equal(got, want) {
			c.Violation(fmt.Sprintf("c42/%s/concatenate-not-concatenation", name),
				fmt.Sprintf("Concatenate of %d sources produced %d bytes that differ from the concatenation (%d bytes)", k, len(got), len(want)), map[string]any{"sources": srcs})
		}
		// a ranged read of the composite
		if len(want) > 2 {
			checkRanges(c, name, bs, key, want, "", sampledPairs(r, int64(len(want)), 12), rs)
		}
	}
}

func c42Ranges(c *rig.Ctx) {
	c.Rule("blobs of sizes 0..21 bytes: every (offset,length) with offset in [-size-2,size+2], length in [0,size+2] and 2^40; larger blobs (to 1 MB): " +
		"PRNG-sampled pairs around the edges; each ranged Get compared with the slice model (negative offset = from the end, 0 = to the end, " +
		"overlong = clamped); offsets outside [-size,size] are recorded, not judged; Concatenate of 1..70 sources compared with the concatenation; " +
		"NBS on a blobstore: C01-style comparison of Get/Has/GetMany/HasMany with a chunk model over put/commit/reopen histories. " +
		"Distinct/non-trivial: (backend, blob size) and (backend, NBS history shape)")
	c.Assume("an offset outside [-size, size] has no defined result (BlobRange doc and statement are silent): outcomes are counted only")
	r := c.SubRand("c42/ranges", 0)
	var rs rangeStats
	big := []int{100, 4096, 4097, 70000}
	if c.Thorough() {
		big = append(big, 1<<20, 1<<20+1, 300000)
	} else {
		big = append(big, 1<<20)
	}
	smallSizes := []int{0, 1, 2, 3, 5, 8, 13, 21}
	for rep := 0; rep < c.Pick(1, 6); rep++ {
		rangeAndConcat(c, "inmem", blobstore.NewInMemoryBlobstore(""), r, smallSizes, 21, c.Pick(300, 2000), big, []int{1, 2, 3, 5, 32, 33, 70}, &rs)
		dir := c.TempDir("c42ranges")
		rangeAndConcat(c, "local", blobstore.NewLocalBlobstore(dir), r, smallSizes, 21, c.Pick(300, 2000), big, []int{1, 2, 3, 5, 33}, &rs)
		os.RemoveAll(dir)
	}
	c.Count("c42.ranges_compared", rs.defined)
	c.Count("c42.ranges_suffix", rs.suffix)
	c.Count("c42.ranges_clamped", rs.clamped)
	c.Count("c42.ranges_outside_blob_not_judged", rs.undefined)
	c.Count("c42.ranges_outside_blob.error", rs.undefErr)
	c.Count("c42.ranges_outside_blob.panic", rs.undefPanic)
	if rs.undefPanic > 0 {
		c.Note(fmt.Sprintf("%d ranged Gets with an offset outside [-size,size] panicked inside the blobstore (InMemoryBlobstore slices out of bounds); not judged, the statement does not define such ranges", rs.undefPanic))
	}
	c.Require(rs.suffix > 0 && rs.clamped > 0, "no suffix / clamped ranges compared")

	// NBS on a blobstore: reads
	for i := 0; i < c.Pick(6, 150); i++ {
		bs := blobstore.NewInMemoryBlobstore("")
		c42NBSReads(c, "nbs-on-inmem", func() blobstore.Blobstore { return bs }, i)
		dir := c.TempDir("c42nbsr")
		c42NBSReads(c, "nbs-on-local", func() blobstore.Blobstore { return blobstore.NewLocalBlobstore(dir) }, i)
		os.RemoveAll(dir)
	}
}

// c42NBSReads: a small C01: chunk model vs Get / Has / GetMany / HasMany on an NBS over a blobstore.
func c42NBSReads(c *rig.Ctx, name string, mk func() blobstore.Blobstore, idx int) {
	r := c.SubRand("c42/reads/"+name, idx)
	label := fmt.Sprintf("c42/reads/%s/%d", name, idx)
	mem := []uint64{1 << 10, 4 << 10, 1 << 20}[r.Intn(3)]
	steps := 6 + r.Intn(14)
	c.Case(label, map[string]any{"memtable": mem, "steps": steps})
	open := func() (*nbs.NomsBlockStore, error) {
		return nbs.NewBSStore(bg, constants.FormatDoltString, mk(), mem, oracle.Quota())
	}
	cs, err := open()
	if err != nil {
		c.Violation("c42/"+name+"/open-failed", err.Error(), nil)
		return
	}
	defer func() { cs.Close() }()
	m := oracle.NewModel()
	pending := hash.NewHashSet()
	var fam []hash.Hash
	shape := ""
	committed := 0
	bad := func(path string, h hash.Hash, what string) {
		c.Violation(fmt.Sprintf("c42/%s/reads/%s", name, path), fmt.Sprintf("%s: %s: address %s: %s", label, path, h, what), map[string]any{"memtable": mem, "steps": shape})
	}
	for s := 0; s < steps; s++ {
		switch op := r.Intn(10); {
		case op < 6:
			for j := 1 + r.Intn(10); j > 0; j-- {
				var refs []hash.Hash
				for k := r.Intn(3); k > 0; k-- {
					if h, ok := m.Pick(r); ok {
						refs = append(refs, h)
					}
				}
				data := oracle.EncodeChunkData(refs, oracle.GenBody(r, 300))
				var ch chunks.Chunk
				forged := r.Intn(10) < 4
				if forged {
					if len(fam) == 0 {
						fam = oracle.ForgeFamily(r, 2+r.Intn(8))
					}
					ch = chunks.NewChunkWithHash(fam[0], data)
					fam = fam[1:]
					if _, dup := m.Data[ch.Hash()]; dup {
						continue
					}
				} else {
					ch = chunks.NewChunk(data)
				}
				if err := cs.Put(bg, ch, oracle.GetAddrsCurry); err != nil {
					bad("Put", ch.Hash(), "Put of a chunk whose references are present failed: "+err.Error())
					return
				}
				m.Add(ch, forged)
				pending.Insert(ch.Hash())
			}
			shape += "p"
		case op < 8:
			root, _ := cs.Root(bg)
			nr := root
			if h, ok := m.Pick(r); ok {
				nr = h
			}
			ok, err := cs.Commit(bg, nr, root)
			if err != nil || !ok {
				bad("Commit", nr, fmt.Sprintf("single-writer Commit = %v, %v", ok, err))
				return
			}
			pending = hash.NewHashSet()
			committed++
			shape += "c"
		default:
			cs.Close()
			cs, err = open()
			if err != nil {
				c.Violation("c42/"+name+"/reopen-failed", err.Error(), nil)
				return
			}
			for h := range pending {
				if has, _ := cs.Has(bg, h); !has {
					m.Remove(h)
				}
			}
			pending = hash.NewHashSet()
			shape += "o"
		}
		// compare the read paths
		probe := hash.NewHashSet()
		for i, h := range m.Order {
			probe.Insert(h)
			if i < 25 {
				for _, nb := range oracle.Neighbours(h) {
					probe.Insert(nb)
				}
			}
		}
		for i := 0; i < 4; i++ {
			var h hash.Hash
			r.Read(h[:])
			probe.Insert(h)
		}
		present := func(h hash.Hash) bool { _, ok := m.Data[h]; return ok }
		for _, h := range oracle.SortedHashes(probe) {
			ch, err := cs.Get(bg, h)
			if err != nil {
				bad("Get", h, err.Error())
				continue
			}
			if ch.IsEmpty() != !present(h) {
				bad("Get", h, fmt.Sprintf("empty=%v but model present=%v", ch.IsEmpty(), present(h)))
			} else if present(h) && !bytes.Equal(ch.Data(), m.Data[h]) {
				bad("Get", h, "returned bytes differ from the bytes stored")
			}
			if has, err := cs.Has(bg, h); err != nil || has != present(h) {
				bad("Has", h, fmt.Sprintf("Has=%v,%v model present=%v", has, err, present(h)))
			}
		}
		var mu sync.Mutex
		got := map[hash.Hash]int{}
		if err := cs.GetMany(bg, probe.Copy(), func(_ context.Context, ch *chunks.Chunk) {
			mu.Lock()
			defer mu.Unlock()
			got[ch.Hash()]++
			if !present(ch.Hash()) || !bytes.Equal(ch.Data(), m.Data[ch.Hash()]) {
				bad("GetMany", ch.Hash(), "delivered a chunk that is absent from / different in the model")
			}
		}); err != nil {
			bad("GetMany", hash.Hash{}, err.Error())
		}
		absent, err := cs.HasMany(bg, probe.Copy())
		if err != nil {
			bad("HasMany", hash.Hash{}, err.Error())
		}
		for h := range probe {
			if present(h) && got[h] != 1 {
				bad("GetMany", h, fmt.Sprintf("written chunk delivered %d times", got[h]))
			}
			if err == nil && absent.Has(h) == present(h) {
				bad("HasMany", h, fmt.Sprintf("absent=%v model present=%v", absent.Has(h), present(h)))
			}
		}
		c.Count("c42.nbs_reads.addresses_probed", probe.Size())
		if c.Violations() > 20 {
			return
		}
	}
	c.Count("c42.nbs_reads.histories."+name, 1)
	if committed > 0 {
		c.Distinct("reads/" + name + "/" + shape)
	}
}

// ---- git-backed blobstore -----------------------------------------------------------------------------------------

func gitRun(dir string, args ...string) error {
	cmd := exec.Command("git", args...)
	cmd.Dir = dir
	out, err := cmd.CombinedOutput()
	if err != nil {
		return fmt.Errorf("git %s: %v: %s", strings.Join(args, " "), err, out)
	}
	return nil
}

type gitRig struct {
	root, remote string
	n            int
}

func newGitRig(root string) (*gitRig, error) {
	g := &gitRig{root: root, remote: filepath.Join(root, "remote.git")}
	if err := gitRun(root, "init", "--bare", "-q", g.remote); err != nil {
		return nil, err
	}
	return g, nil
}

// instance returns a GitBlobstore with its own local cache repository whose "origin" is the shared bare remote.
func (g *gitRig) instance(maxPart uint64) (*blobstore.GitBlobstore, error) {
	g.n++
	local := filepath.Join(g.root, fmt.Sprintf("local-%d.git", g.n))
	if err := gitRun(g.root, "init", "--bare", "-q", local); err != nil {
		return nil, err
	}
	if err := gitRun(g.root, "--git-dir", local, "remote", "add", "origin", g.remote); err != nil {
		return nil, err
	}
	return blobstore.NewGitBlobstoreWithOptions(local, "refs/dolt/data", blobstore.GitBlobstoreOptions{MaxPartSize: maxPart, SyncForReadTTL: time.Nanosecond})
}

// c42GitBig: larger blob sizes for the git modes. Chunked mode names its parts with 4 digits ("0001".."9999"), and
// production runs it with MaxPartSize = 50 MB (nbs.NewGitStore), so more than 9999 parts would be a 500 GB table file;
// the harness's 7-byte parts must stay below that count (also for the concatenations of up to 3 of these blobs).
func c42GitBig(c *rig.Ctx, part uint64) []int {
	if !c.Thorough() {
		return []int{40}
	}
	if part > 0 {
		return []int{40, 1000, int(part) * 120} // every part read is a git process: keep part counts in the hundreds
	}
	return []int{40, 1000, 100000}
}

func c42Git(c *rig.Ctx) {
	c.Rule("git-backed blobstore against a local bare 'remote' repository (offline): each client owns a GitBlobstore with its own cache repository; " +
		"CheckAndPutManifest/Get histories checked as a CAS register keyed by version (blob id); ranged Gets (inline and chunked representation) " +
		"and Concatenate compared with the slice / concatenation model on sampled pairs")
	if _, err := exec.LookPath("git"); err != nil {
		c.Inconclusive("git binary not found: the git-backed blobstore cannot be driven")
		return
	}
	for _, kv := range []string{"GIT_AUTHOR_NAME=verif", "GIT_AUTHOR_EMAIL=verif@example.invalid", "GIT_COMMITTER_NAME=verif", "GIT_COMMITTER_EMAIL=verif@example.invalid",
		"GIT_CONFIG_NOSYSTEM=1", "GIT_TERMINAL_PROMPT=0"} {
		p := strings.SplitN(kv, "=", 2)
		os.Setenv(p[0], p[1])
	}
	os.Setenv("HOME", c.TempDir("c42githome"))
	orders := map[string]bool{}
	wins := 0
	for i := 0; i < c.Pick(2, 40); i++ {
		r := c.SubRand("c42/git", i)
		root := c.TempDir("c42git")
		g, err := newGitRig(root)
		if err != nil {
			c.Inconclusive("cannot set up git repositories: " + err.Error())
			return
		}
		nCl := 2 + r.Intn(2)
		var insts []*blobstore.GitBlobstore
		for k := 0; k < nCl; k++ {
			gb, err := g.instance(0)
			if err != nil {
				c.Inconclusive("cannot create GitBlobstore: " + err.Error())
				return
			}
			insts = append(insts, gb)
		}
		res := runBSGoroutines(c, "git", fmt.Sprintf("c42/cas/git/%d", i), r, nCl, func(k int) blobstore.Blobstore { return insts[k] }, 2+r.Intn(2))
		tally(c, "c42", "git", res, orders)
		if res.st.overlapWin {
			wins++
		}
		if i == 0 {
			c.Sample(map[string]any{"case": "c42/cas/git/0", "ops": res.ops, "winner_order": res.st.order, "ok": res.st.commitsOK, "refused": res.st.commitsFail, "errors": res.st.commitsErr})
		}
		os.RemoveAll(root)
	}
	c.Require(wins > 0, "no git history had >= 2 overlapping conditional updates of which exactly one succeeded")
	// ranges / concatenate
	var rs rangeStats
	r := c.SubRand("c42/git-ranges", 0)
	for _, mode := range []struct {
		name string
		part uint64
	}{{"git", 0}, {"git-chunked", 7}} {
		root := c.TempDir("c42gitr")
		g, err := newGitRig(root)
		if err == nil {
			var gb *blobstore.GitBlobstore
			gb, err = g.instance(mode.part)
			if err == nil {
				rangeAndConcat(c, mode.name, gb, r, []int{0, 3, 13}, int64(c.Pick(0, 5)), c.Pick(9, 60), c42GitBig(c, mode.part), []int{3}, &rs)
			}
		}
		if err != nil {
			c.Inconclusive("git range setup failed: " + err.Error())
		}
		os.RemoveAll(root)
	}
	c.Count("c42.git.ranges_compared", rs.defined)
	c.Count("c42.git.ranges_outside_blob_not_judged", rs.undefined)
}
