package vmerge

import (
	"fmt"
	"math/rand"
	"os"
	"sort"
	"strings"

	"verif/rig"
	"verif/sqlrig"
)

// ---------------------------------------------------------------------------------------------------------------
// keyless tables: a multiset of rows; the model is (row content -> cardinality)

type kltable struct {
	Name string
	Cols []colDef
	Rows map[string]int // key: cells joined by \x1f
}

func (t *kltable) clone() *kltable {
	n := &kltable{Name: t.Name, Cols: t.Cols, Rows: map[string]int{}}
	for k, v := range t.Rows {
		n.Rows[k] = v
	}
	return n
}

func (t *kltable) createSQL() string {
	var cols []string
	for _, c := range t.Cols {
		cols = append(cols, c.DDL())
	}
	return fmt.Sprintf("create table `%s` (%s)", t.Name, strings.Join(cols, ", "))
}

func (t *kltable) sorted() []string {
	var out []string
	for k, n := range t.Rows {
		for i := 0; i < n; i++ {
			out = append(out, k)
		}
	}
	sort.Strings(out)
	return out
}

func (t *kltable) insert(row string) string {
	t.Rows[row]++
	var lits []string
	for _, v := range strings.Split(row, "\x1f") {
		lits = append(lits, sqlrig.SQLLit(v))
	}
	return fmt.Sprintf("insert into `%s` values (%s)", t.Name, strings.Join(lits, ", "))
}

func (t *kltable) where(row string) string {
	var conds []string
	for i, v := range strings.Split(row, "\x1f") {
		conds = append(conds, fmt.Sprintf("`%s` <=> %s", t.Cols[i].Name, sqlrig.SQLLit(v)))
	}
	return strings.Join(conds, " and ")
}

func (t *kltable) deleteOne(row string) string {
	if t.Rows[row] == 0 {
		return ""
	}
	t.Rows[row]--
	if t.Rows[row] == 0 {
		delete(t.Rows, row)
	}
	return fmt.Sprintf("delete from `%s` where %s limit 1", t.Name, t.where(row))
}

func (t *kltable) deleteAll(row string) string {
	if t.Rows[row] == 0 {
		return ""
	}
	delete(t.Rows, row)
	return fmt.Sprintf("delete from `%s` where %s", t.Name, t.where(row))
}

type klScenario struct {
	Base, Left, Right          *kltable
	BaseSQL, LeftSQL, RightSQL []string
	Classes                    map[string]int
}

func genKeyless(r *rand.Rand, name string, conflictBias float64) *klScenario {
	g := newGen(r)
	sc := &klScenario{Classes: map[string]int{}}
	base := &kltable{Name: name, Rows: map[string]int{}}
	ncols := 1 + r.Intn(3)
	for i := 0; i < ncols; i++ {
		c := g.newCol(fmt.Sprintf("c%d", i))
		c.NotNull, c.Default = false, Null
		base.Cols = append(base.Cols, c)
	}
	newRow := func() string {
		var cells []string
		for _, c := range base.Cols {
			cells = append(cells, g.value(c))
		}
		return strings.Join(cells, "\x1f")
	}
	n := r.Intn(25)
	var rows []string
	for i := 0; i < n; i++ {
		row := newRow()
		rows = append(rows, row)
		for k, copies := 0, 1+r.Intn(3); k < copies; k++ {
			sc.BaseSQL = append(sc.BaseSQL, base.insert(row))
		}
	}
	sc.Base = base.clone()
	L, R := base.clone(), base.clone()
	emit := func(t *kltable, s string) {
		if s == "" {
			return
		}
		if t == L {
			sc.LeftSQL = append(sc.LeftSQL, s)
		} else {
			sc.RightSQL = append(sc.RightSQL, s)
		}
	}
	r.Shuffle(len(rows), func(i, j int) { rows[i], rows[j] = rows[j], rows[i] })
	nplan := 1 + r.Intn(6+n/2)
	for p := 0; p < nplan; p++ {
		a, b := L, R
		if r.Intn(2) == 0 {
			a, b = R, L
		}
		conflicting := r.Float64() < 0.15+0.7*conflictBias
		var row string
		existing := len(rows) > 0 && r.Intn(4) != 0
		if existing {
			row, rows = rows[0], rows[1:]
		} else {
			row = newRow()
		}
		switch {
		case existing && conflicting:
			switch r.Intn(4) {
			case 0:
				sc.Classes["add-copy-vs-delete-copy"]++
				emit(a, a.insert(row))
				emit(b, b.deleteOne(row))
			case 1:
				sc.Classes["delete-all-vs-add-copy"]++
				emit(a, a.deleteAll(row))
				emit(b, b.insert(row))
			case 2:
				sc.Classes["add-1-vs-add-2"]++
				emit(a, a.insert(row))
				emit(b, b.insert(row))
				emit(b, b.insert(row))
			default:
				sc.Classes["update-vs-add-copy"]++ // "update" = the old content disappears, a new one appears
				emit(a, a.deleteAll(row))
				emit(a, a.insert(newRow()))
				emit(b, b.insert(row))
			}
		case existing:
			switch r.Intn(5) {
			case 0:
				sc.Classes["one-side-add-copy"]++
				emit(a, a.insert(row))
			case 1:
				sc.Classes["one-side-delete-copy"]++
				emit(a, a.deleteOne(row))
			case 2:
				sc.Classes["one-side-delete-all"]++
				emit(a, a.deleteAll(row))
			case 3:
				sc.Classes["convergent-same-change"]++
				if r.Intn(2) == 0 {
					emit(a, a.insert(row))
					emit(b, b.insert(row))
				} else {
					emit(a, a.deleteAll(row))
					emit(b, b.deleteAll(row))
				}
			default:
				sc.Classes["one-side-update"]++
				emit(a, a.deleteAll(row))
				emit(a, a.insert(newRow()))
			}
		case conflicting:
			sc.Classes["both-add-new-row-different-cardinality"]++
			emit(a, a.insert(row))
			emit(b, b.insert(row))
			emit(b, b.insert(row))
		default:
			if r.Intn(4) == 0 {
				sc.Classes["convergent-add-new-row"]++
				emit(a, a.insert(row))
				emit(b, b.insert(row))
			} else {
				sc.Classes["one-side-add-new-row"]++
				emit(a, a.insert(row))
			}
		}
	}
	sc.Left, sc.Right = L, R
	return sc
}

// klConflict is a keyless conflict: one row content with its three cardinalities.
type klConflict struct {
	Row     string
	B, O, T int
	Lenient bool // both sides made the same change: dolt records a conflict for keyless tables; either outcome is accepted
}

// klMerge is the keyless model: a row content changed on one side only takes that side's cardinality; changed on both
// sides it is a conflict (ours kept).
func klMerge(base, ours, theirs *kltable) (*kltable, map[string]*klConflict) {
	out := &kltable{Name: ours.Name, Cols: ours.Cols, Rows: map[string]int{}}
	conf := map[string]*klConflict{}
	keys := map[string]bool{}
	for _, t := range []*kltable{base, ours, theirs} {
		for k := range t.Rows {
			keys[k] = true
		}
	}
	for k := range keys {
		b, o, t := base.Rows[k], ours.Rows[k], theirs.Rows[k]
		n := o
		switch {
		case o == b:
			n = t
		case t == b:
		default:
			conf[k] = &klConflict{Row: k, B: b, O: o, T: t, Lenient: o == t}
		}
		if n > 0 {
			out.Rows[k] = n
		}
	}
	return out, conf
}

func (t *kltable) conflictSelect() string {
	var cols []string
	for _, p := range []string{"base_", "our_"} {
		for _, c := range t.Cols {
			cols = append(cols, "`"+p+c.Name+"`")
		}
	}
	cols = append(cols, "our_diff_type")
	for _, c := range t.Cols {
		cols = append(cols, "`their_"+c.Name+"`")
	}
	cols = append(cols, "their_diff_type", "base_cardinality", "our_cardinality", "their_cardinality")
	return "select " + strings.Join(cols, ", ") + " from `dolt_conflicts_" + t.Name + "`"
}

func klDiffType(b, s int) string {
	switch {
	case b == 0:
		return "added"
	case s == 0:
		return "removed"
	}
	return "modified"
}

func (t *kltable) renderConflict(c *klConflict) string {
	cells := strings.Split(c.Row, "\x1f")
	var parts []string
	put := func(n int) {
		for _, v := range cells {
			if n > 0 {
				parts = append(parts, v)
			} else {
				parts = append(parts, Null)
			}
		}
	}
	put(c.B)
	put(c.O)
	parts = append(parts, klDiffType(c.B, c.O))
	put(c.T)
	parts = append(parts, klDiffType(c.B, c.T), fmt.Sprint(c.B), fmt.Sprint(c.O), fmt.Sprint(c.T))
	return strings.Join(parts, "\x1f")
}

// conflictContent recovers the row content from a fetched keyless conflict row (whichever of base / ours / theirs is set).
func (t *kltable) conflictContent(f []string) string {
	n := len(t.Cols)
	card := f[len(f)-3:]
	switch {
	case card[0] != "0":
		return strings.Join(f[0:n], "\x1f")
	case card[1] != "0":
		return strings.Join(f[n:2*n], "\x1f")
	}
	return strings.Join(f[2*n+1:3*n+1], "\x1f")
}

// ---------------------------------------------------------------------------------------------------------------

// c43tab is one table of a C43 case with the expectations for one merge direction.
type c43tab struct {
	name    string
	keyless bool
	sc      *scenario
	kl      *klScenario
}

// expectation for (ours, theirs) of one table
type c43expect struct {
	tab *c43tab
	// keyed
	m *mergeOut
	// keyless
	klMerged            *kltable
	klConf              map[string]*klConflict
	theirsKeyed         *mtable
	oursKl, theirsKl    *kltable
	nConflictsExact     int // conflicts that must be listed
	nConflictsLenient   int // keyless convergent changes (may be listed)
	unspec, addedVsDel  int
}

func (t *c43tab) expect(oursLeft bool) *c43expect {
	e := &c43expect{tab: t}
	if t.keyless {
		o, th := t.kl.Left, t.kl.Right
		if !oursLeft {
			o, th = th, o
		}
		e.oursKl, e.theirsKl = o, th
		e.klMerged, e.klConf = klMerge(t.kl.Base, o, th)
		for _, c := range e.klConf {
			if c.Lenient {
				e.nConflictsLenient++
			} else {
				e.nConflictsExact++
			}
		}
		return e
	}
	o, th := t.sc.Left, t.sc.Right
	if !oursLeft {
		o, th = th, o
	}
	e.theirsKeyed = th
	e.m = modelMerge(t.sc.Base, o, th)
	e.nConflictsExact = len(e.m.Conflicts)
	return e
}

func c43(c *rig.Ctx) {
	c.Rule("seeded databases of 1-3 tables (keyed tables from the C29 generator with conflict-heavy edit classes; keyless tables with duplicate rows " +
		"whose cardinalities both sides change) edited on two branches; after a conflicted dolt_merge: dolt_conflicts counts and every dolt_conflicts_<t> " +
		"row (base_*, our_*, their_*, diff types; base/our/their_cardinality for keyless) are compared with the model conflict set; then, on a fresh " +
		"scratch branch per pass, conflicts are resolved table by table with --ours, with --theirs, by DELETE FROM dolt_conflicts_<t> (one row, then the " +
		"rest) or all tables in one call; after each step the resolved table, the still unresolved tables and dolt_conflicts are compared with the " +
		"model, and finally dolt_commit must succeed and dolt_status be clean. Both merge directions. A case is distinct/non-trivial when it has " +
		"conflicts and its (tables, kinds, planned classes, conflict counts) signature is new")
	c.Assume("keyless tables: a row content whose cardinality both sides changed is a conflict (ours kept); when both sides made the SAME change dolt also records a conflict — " +
		"the model accepts either outcome for that case (counted as lenient)")
	c.Assume("identical schemas on both sides (conflict-table content under one-sided schema changes is checked by C29's schema stage)")
	dir := c.TempDir("c43")
	defer os.RemoveAll(dir)
	srv, err := sqlrig.Start(dir + "/data")
	rig.Must(err)
	defer srv.Stop()
	l := newLimiter(c)
	cnt := newCounters()
	n := c.Pick(40, 1000)
	forCases(srv, n, 6, nil, l.tooMany, func(i int, x *sqlrig.Session) {
		r := c.SubRand("c43", i)
		db := fmt.Sprintf("c43_%d", i)
		bias := []float64{0.1, 0.3, 0.6, 0.9}[r.Intn(4)]
		ntab := 1 + r.Intn(3)
		var tabs []*c43tab
		var create, baseSQL, leftSQL, rightSQL []string
		payload := map[string]any{"db": db}
		for ti := 0; ti < ntab; ti++ {
			t := &c43tab{name: fmt.Sprintf("t%d", ti), keyless: r.Intn(3) == 0}
			if t.keyless {
				t.kl = genKeyless(r, t.name, bias)
				create = append(create, t.kl.Base.createSQL())
				baseSQL, leftSQL, rightSQL = append(baseSQL, t.kl.BaseSQL...), append(leftSQL, t.kl.LeftSQL...), append(rightSQL, t.kl.RightSQL...)
				payload[t.name] = map[string]any{"create": t.kl.Base.createSQL(), "base": t.kl.BaseSQL, "left": t.kl.LeftSQL, "right": t.kl.RightSQL}
			} else {
				t.sc = genScenario(r, scenarioOpts{MaxRows: []int{3, 12, 40, 120}[r.Intn(4)], NCols: 1 + r.Intn(5), NullableOnly: r.Intn(2) == 0,
					ConflictBias: bias, RandomDML: 4, Name: t.name})
				create = append(create, t.sc.Base.createSQL())
				baseSQL, leftSQL, rightSQL = append(baseSQL, t.sc.BaseSQL...), append(leftSQL, t.sc.LeftSQL...), append(rightSQL, t.sc.RightSQL...)
				payload[t.name] = t.sc.payload(db)
			}
			tabs = append(tabs, t)
		}
		c.Case(fmt.Sprintf("c43/%d", i), payload)
		defer func() {
			x.Exec("set autocommit = 1")
			x.Exec("use mysql")
			x.Exec("drop database `" + db + "`")
		}()
		setup := []string{"create database `" + db + "`", "use `" + db + "`"}
		setup = append(setup, create...)
		setup = append(setup, baseSQL...)
		setup = append(setup, "call dolt_commit('--allow-empty','-Am','base')", "call dolt_branch('other')")
		setup = append(setup, leftSQL...)
		setup = append(setup, "call dolt_commit('--allow-empty','-Am','left')", "call dolt_checkout('other')")
		setup = append(setup, rightSQL...)
		setup = append(setup, "call dolt_commit('--allow-empty','-Am','right')", "call dolt_checkout('main')")
		if err := execAll(x, setup...); err != nil {
			l.violation("c43/setup", "setup failed: "+err.Error(), payload)
			return
		}
		modes := []string{"ours", "theirs", "manual-delete", "theirs-all-at-once", "ours-all-at-once"}
		pass := 0
		sawConflicts := false
		for _, oursLeft := range []bool{true, false} {
			// two passes per direction: {ours or theirs} and one of the other modes
			first := modes[r.Intn(2)]
			second := modes[r.Intn(len(modes))]
			if second == first {
				second = modes[(r.Intn(2)+1)%2]
				if second == first {
					second = "manual-delete"
				}
			}
			for _, mode := range []string{first, second} {
				pass++
				if c43pass(c, l, cnt, x, r, tabs, oursLeft, mode, pass, payload) {
					sawConflicts = true
				}
			}
		}
		if sawConflicts {
			var sig []string
			for _, t := range tabs {
				e := t.expect(true)
				cl := t.classNames()
				sig = append(sig, fmt.Sprintf("%v/%v/%d/%v", t.keyless, cl, e.nConflictsExact, e.nConflictsLenient > 0))
			}
			c.Distinct(strings.Join(sig, ";"))
			c.Sample(map[string]any{"tables": sig, "db": db})
		}
	})
	cnt.add("suppressed_repeat_violations", l.suppressedCount())
	cnt.flush(c, "c43.")
	c.Require(cnt.get("conflicted_merges") > 0, "no conflicted merge")
	c.Require(cnt.get("conflict_rows_compared.keyed") > 0 && cnt.get("conflict_rows_compared.keyless") > 0, "conflict rows of keyed and keyless tables were not both compared")
	c.Require(cnt.get("resolved.ours") > 0 && cnt.get("resolved.theirs") > 0 && cnt.get("resolved.manual-delete") > 0, "a resolution mode was never exercised")
	c.Require(cnt.get("resolved_rows.theirs_absent_deleted") > 0, "--theirs never had to delete a row (theirs absent)")
	c.Require(cnt.get("resolved_rows.theirs_present_ours_absent") > 0, "--theirs never had to re-create a row ours had deleted")
	c.Require(cnt.get("multi_table_conflicted_merges") > 0, "no merge with conflicts in several tables")
}

func (t *c43tab) classNames() []string {
	var cl []string
	m := map[string]int{}
	if t.keyless {
		m = t.kl.Classes
	} else {
		m = t.sc.Classes
	}
	for k := range m {
		cl = append(cl, k)
	}
	sort.Strings(cl)
	return cl
}

// tableState reads the table as a sorted multiset of rows (keyed: named columns of the model; keyless: all columns).
func (e *c43expect) readTable(x *sqlrig.Session) ([]string, error) {
	var q string
	if e.tab.keyless {
		q = "select * from `" + e.tab.name + "`"
	} else {
		q = selectSQL(e.tab.name, e.m.colNames())
	}
	rows, err := x.Query(q)
	if err != nil {
		return nil, err
	}
	return rows.Sorted(), nil
}

// wantTable renders the expected table content: "merged" (ours kept on conflicts), "ours" or "theirs" (after resolution).
func (e *c43expect) wantTable(state string, actualConflicts map[string]bool) []string {
	if e.tab.keyless {
		t := e.klMerged.clone()
		for k, cf := range e.klConf {
			if cf.Lenient && !actualConflicts[k] {
				continue // dolt merged the convergent change without a conflict: nothing to resolve
			}
			if state == "theirs" {
				if cf.T > 0 {
					t.Rows[k] = cf.T
				} else {
					delete(t.Rows, k)
				}
			}
		}
		return t.sorted()
	}
	cols := e.m.colNames()
	rows := map[int64]map[string]string{}
	for k, r := range e.m.Rows {
		rows[k] = r
	}
	if state == "theirs" {
		for k, cf := range e.m.Conflicts {
			if cf.Theirs == nil {
				delete(rows, k)
			} else {
				rows[k] = cf.Theirs
			}
		}
	}
	out := make([]string, 0, len(rows))
	for k, r := range rows {
		out = append(out, renderRow(k, r, cols))
	}
	sort.Strings(out)
	return out
}

// readConflicts returns the rendered conflict rows keyed by pk text (keyed) or row content (keyless).
func (e *c43expect) readConflicts(x *sqlrig.Session) (map[string]string, error) {
	out := map[string]string{}
	var q string
	if e.tab.keyless {
		q = e.tab.kl.Base.conflictSelect()
	} else {
		q = e.m.conflictSelect(e.tab.name)
	}
	rows, err := x.Query(q)
	if err != nil {
		return nil, err
	}
	for _, r := range rows.Data {
		key := ""
		if e.tab.keyless {
			key = e.tab.kl.Base.conflictContent(r)
		} else {
			key = conflictPK(r, len(e.m.BaseCols), len(e.m.Cols))
		}
		if _, dup := out[key]; dup {
			return nil, fmt.Errorf("dolt_conflicts_%s lists %q twice", e.tab.name, key)
		}
		out[key] = strings.Join(r, "\x1f")
	}
	return out, nil
}

func (e *c43expect) wantConflicts() (exact map[string]string, lenient map[string]string) {
	exact, lenient = map[string]string{}, map[string]string{}
	if e.tab.keyless {
		for k, cf := range e.klConf {
			if cf.Lenient {
				lenient[k] = e.tab.kl.Base.renderConflict(cf)
			} else {
				exact[k] = e.tab.kl.Base.renderConflict(cf)
			}
		}
		return
	}
	for k, cf := range e.m.Conflicts {
		exact[fmt.Sprint(k)] = e.m.renderConflict(cf)
	}
	return
}

func kind(keyless bool) string {
	if keyless {
		return "keyless"
	}
	return "keyed"
}

func diffLists(got, want []string, n int) []string {
	g, w := map[string]int{}, map[string]int{}
	for _, s := range got {
		g[s]++
	}
	for _, s := range want {
		w[s]++
	}
	var out []string
	for _, s := range got {
		if g[s] > w[s] && len(out) < n {
			out = append(out, "unexpected: "+strings.ReplaceAll(s, "\x1f", " | "))
			g[s]--
		}
	}
	for _, s := range want {
		if w[s] > g[s] && len(out) < 2*n {
			out = append(out, "missing: "+strings.ReplaceAll(s, "\x1f", " | "))
			w[s]--
		}
	}
	return out
}

// c43pass performs one merge + resolution pass on a fresh scratch branch. Returns whether the merge had conflicts.
func c43pass(c *rig.Ctx, l *limiter, cnt *counters, x *sqlrig.Session, r *rand.Rand, tabs []*c43tab, oursLeft bool, mode string, pass int, payload map[string]any) bool {
	ours, theirs := "main", "other"
	if !oursLeft {
		ours, theirs = "other", "main"
	}
	br := fmt.Sprintf("p%d", pass)
	wit := func(extra map[string]any) map[string]any {
		m := map[string]any{"ours": ours, "theirs": theirs, "mode": mode, "scenario": payload}
		for k, v := range extra {
			m[k] = v
		}
		return m
	}
	if err := execAll(x, "call dolt_branch('"+br+"','"+ours+"')", "call dolt_checkout('"+br+"')", "set autocommit = 0", "start transaction"); err != nil {
		l.violation("c43/setup", "pass setup: "+err.Error(), wit(nil))
		return false
	}
	defer execAll(x, "rollback", "set autocommit = 1")
	exp := make([]*c43expect, len(tabs))
	wantAny, skip := false, false
	for i, t := range tabs {
		exp[i] = t.expect(oursLeft)
		if exp[i].nConflictsExact > 0 {
			wantAny = true
		}
		if !t.keyless && (len(exp[i].m.Unspec) > 0 || len(exp[i].m.AddedColVsDelete) > 0) {
			skip = true
		}
	}
	if skip {
		return false
	}
	mr, err := x.Query("call dolt_merge('" + theirs + "')")
	if err != nil {
		kindE, sig := classifyMergeError(err)
		l.violation("c43/merge-"+kindE+"/"+sig, "dolt_merge failed: "+truncate(err.Error(), 300), wit(nil))
		return false
	}
	flag := len(mr.Data) == 1 && len(mr.Data[0]) > 2 && mr.Data[0][2] != "0"
	// ---- conflict tables right after the merge
	dc, err := x.Query("select `table`, num_conflicts from dolt_conflicts order by 1")
	if err != nil {
		l.violation("c43/read", "dolt_conflicts: "+err.Error(), wit(nil))
		return false
	}
	gotCounts := map[string]string{}
	for _, row := range dc.Data {
		gotCounts[row[0]] = row[1]
	}
	actual := make([]map[string]bool, len(tabs)) // conflicts actually listed per table
	withConf := 0
	for i, e := range exp {
		k := kind(e.tab.keyless)
		actual[i] = map[string]bool{}
		exact, lenient := e.wantConflicts()
		got := map[string]string{}
		if _, listed := gotCounts[e.tab.name]; listed {
			got, err = e.readConflicts(x)
			if err != nil {
				l.violation("c43/conflict-table-unreadable/"+k, err.Error(), wit(map[string]any{"table": e.tab.name}))
				return flag
			}
		}
		for key := range got {
			actual[i][key] = true
		}
		for key, want := range exact {
			g, ok := got[key]
			switch {
			case !ok:
				l.violation("c43/conflict-missing/"+k, fmt.Sprintf("table %s: the model conflict on %q is not listed in dolt_conflicts_%s", e.tab.name, key, e.tab.name),
					wit(map[string]any{"table": e.tab.name, "want": want}))
			case g != want:
				l.violation("c43/conflict-row-content/"+k, fmt.Sprintf("table %s: conflict row for %q differs from the model (base/ours/theirs values, diff types, cardinalities)", e.tab.name, key),
					wit(map[string]any{"table": e.tab.name, "got": g, "want": want}))
			}
			cnt.add("conflict_rows_compared."+k, 1)
		}
		for key, g := range got {
			if _, ok := exact[key]; ok {
				continue
			}
			if want, ok := lenient[key]; ok {
				cnt.add("keyless_convergent_listed_as_conflict", 1)
				if g != want {
					l.violation("c43/conflict-row-content/"+k, fmt.Sprintf("table %s: conflict row for %q (same change on both sides) has wrong content", e.tab.name, key),
						wit(map[string]any{"table": e.tab.name, "got": g, "want": want}))
				}
				continue
			}
			l.violation("c43/conflict-spurious/"+k, fmt.Sprintf("table %s: dolt_conflicts_%s lists %q which is not a conflict in the model", e.tab.name, e.tab.name, key),
				wit(map[string]any{"table": e.tab.name, "got": g}))
		}
		wantN := fmt.Sprint(len(got))
		if len(got) == 0 {
			wantN = ""
		}
		if gotCounts[e.tab.name] != wantN {
			l.violation("c43/conflict-count/"+k, fmt.Sprintf("dolt_conflicts says %q for table %s, dolt_conflicts_%s has %d rows", gotCounts[e.tab.name], e.tab.name, e.tab.name, len(got)), wit(nil))
		}
		if len(got) > 0 {
			withConf++
		}
		// merged table right after the merge: ours kept on conflicts
		if rows, err := e.readTable(x); err != nil {
			l.violation("c43/read", err.Error(), wit(nil))
		} else if want := e.wantTable("merged", actual[i]); strings.Join(rows, "\n") != strings.Join(want, "\n") {
			l.violation("c43/merged-table/"+k, fmt.Sprintf("table %s after the conflicted merge differs from the model (ours kept on conflicts)", e.tab.name),
				wit(map[string]any{"table": e.tab.name, "diff": diffLists(rows, want, 5)}))
		}
	}
	if flag != (withConf > 0) {
		l.violation("c43/merge-result-conflicts-flag", fmt.Sprintf("dolt_merge returned conflicts=%v but %d tables list conflicts", flag, withConf), wit(nil))
	}
	if wantAny && withConf == 0 {
		return false
	}
	if withConf == 0 {
		cnt.add("clean_merges", 1)
		return false
	}
	cnt.add("conflicted_merges", 1)
	if withConf > 1 {
		cnt.add("multi_table_conflicted_merges", 1)
	}
	// ---- resolution
	state := make([]string, len(tabs)) // expected content state per table
	for i := range state {
		state[i] = "merged"
	}
	checkAll := func(step string) {
		for i, e := range exp {
			k := kind(e.tab.keyless)
			rows, err := e.readTable(x)
			if err != nil {
				l.violation("c43/read", err.Error(), wit(nil))
				continue
			}
			if want := e.wantTable(state[i], actual[i]); strings.Join(rows, "\n") != strings.Join(want, "\n") {
				key := "c43/resolved-table/" + mode + "/" + k
				what := fmt.Sprintf("table %s after %s: content differs from the expected %q state (conflicted rows = that side's version, other rows untouched)", e.tab.name, step, state[i])
				if state[i] == "merged" {
					key = "c43/unresolved-table-changed/" + k
					what = fmt.Sprintf("table %s was changed by %s although its conflicts were not being resolved", e.tab.name, step)
				}
				l.violation(key, what, wit(map[string]any{"table": e.tab.name, "step": step, "diff": diffLists(rows, want, 5)}))
			}
		}
		dc, err := x.Query("select `table`, num_conflicts from dolt_conflicts order by 1")
		if err != nil {
			l.violation("c43/read", "dolt_conflicts: "+err.Error(), wit(nil))
			return
		}
		got := map[string]string{}
		for _, row := range dc.Data {
			got[row[0]] = row[1]
		}
		for i, e := range exp {
			want := ""
			if state[i] == "merged" && len(actual[i]) > 0 {
				want = fmt.Sprint(len(actual[i]))
			}
			if got[e.tab.name] != want {
				key := "c43/conflicts-not-cleared/" + mode
				if want != "" {
					key = "c43/conflicts-of-other-table-changed"
				}
				l.violation(key, fmt.Sprintf("after %s dolt_conflicts lists %q conflicts for table %s, expected %q", step, got[e.tab.name], e.tab.name, want),
					wit(map[string]any{"table": e.tab.name, "step": step}))
			}
			if want == "" {
				if n, err := x.Scalar("select count(*) from `dolt_conflicts_" + e.tab.name + "`"); err == nil && n != "0" {
					l.violation("c43/conflict-residue/"+mode, fmt.Sprintf("dolt_conflicts_%s still has %s rows after %s", e.tab.name, n, step), wit(map[string]any{"table": e.tab.name}))
				}
			}
		}
	}
	var order []int
	for i := range tabs {
		if len(actual[i]) > 0 {
			order = append(order, i)
		}
	}
	r.Shuffle(len(order), func(i, j int) { order[i], order[j] = order[j], order[i] })
	countResolved := func(i int, side string) {
		e := exp[i]
		if e.tab.keyless {
			for k, cf := range e.klConf {
				if actual[i][k] && side == "theirs" {
					if cf.T == 0 {
						cnt.add("resolved_rows.theirs_absent_deleted", 1)
					} else if cf.O == 0 {
						cnt.add("resolved_rows.theirs_present_ours_absent", 1)
					}
				}
			}
			return
		}
		for _, cf := range e.m.Conflicts {
			if side == "theirs" {
				if cf.Theirs == nil {
					cnt.add("resolved_rows.theirs_absent_deleted", 1)
				} else if cf.Ours == nil {
					cnt.add("resolved_rows.theirs_present_ours_absent", 1)
				}
			} else if cf.Ours == nil {
				cnt.add("resolved_rows.ours_absent_stays_deleted", 1)
			}
		}
	}
	switch mode {
	case "ours", "theirs":
		for _, i := range order {
			if _, err := x.Query("call dolt_conflicts_resolve('--" + mode + "', '" + tabs[i].name + "')"); err != nil {
				l.violation("c43/resolve-error/"+mode, "dolt_conflicts_resolve failed: "+truncate(err.Error(), 300), wit(map[string]any{"table": tabs[i].name}))
				return true
			}
			if mode == "theirs" {
				state[i] = "theirs"
			} else {
				state[i] = "ours"
			}
			countResolved(i, mode)
			cnt.add("resolved."+mode, 1)
			checkAll("dolt_conflicts_resolve --" + mode + " " + tabs[i].name)
		}
	case "theirs-all-at-once", "ours-all-at-once":
		side := strings.SplitN(mode, "-", 2)[0]
		args := "'.'"
		if r.Intn(2) == 0 {
			var names []string
			for _, i := range order {
				names = append(names, "'"+tabs[i].name+"'")
			}
			args = strings.Join(names, ", ")
		}
		if _, err := x.Query("call dolt_conflicts_resolve('--" + side + "', " + args + ")"); err != nil {
			l.violation("c43/resolve-error/"+mode, "dolt_conflicts_resolve failed: "+truncate(err.Error(), 300), wit(map[string]any{"args": args}))
			return true
		}
		for _, i := range order {
			state[i] = side
			countResolved(i, side)
		}
		cnt.add("resolved."+side, 1)
		cnt.add("resolved.all-at-once", 1)
		checkAll("dolt_conflicts_resolve --" + side + " " + args)
	case "manual-delete":
		for _, i := range order {
			e := exp[i]
			name := tabs[i].name
			if len(actual[i]) > 1 {
				// delete exactly one conflict row first
				before := len(actual[i])
				var where string
				var victim string
				keys := make([]string, 0, len(actual[i]))
				for k := range actual[i] {
					keys = append(keys, k)
				}
				sort.Strings(keys)
				victim = keys[r.Intn(len(keys))]
				if e.tab.keyless {
					var conds []string
					cells := strings.Split(victim, "\x1f")
					for ci, col := range e.tab.kl.Base.Cols {
						conds = append(conds, fmt.Sprintf("coalesce(`base_%s`, `our_%s`, `their_%s`) <=> %s", col.Name, col.Name, col.Name, sqlrig.SQLLit(cells[ci])))
					}
					// a NULL cell cannot be told apart from an absent version by coalesce: fall back to deleting everything
					if strings.Contains(victim, Null) {
						where = ""
					} else {
						where = strings.Join(conds, " and ")
					}
				} else {
					where = fmt.Sprintf("coalesce(base_pk, our_pk, their_pk) = %s", victim)
				}
				if where != "" {
					if err := x.Exec("delete from `dolt_conflicts_" + name + "` where " + where); err != nil {
						l.violation("c43/manual-delete-error", "DELETE on the conflicts table failed: "+truncate(err.Error(), 300), wit(map[string]any{"table": name, "where": where}))
						return true
					}
					n, _ := x.Scalar("select count(*) from `dolt_conflicts_" + name + "`")
					if n != fmt.Sprint(before-1) {
						l.violation("c43/manual-delete-one", fmt.Sprintf("deleting one conflict row of %s left %s rows, expected %d", name, n, before-1), wit(map[string]any{"table": name, "where": where}))
					}
					if rest, err := e.readConflicts(x); err == nil {
						if _, still := rest[victim]; still {
							l.violation("c43/manual-delete-one", "the deleted conflict row is still listed", wit(map[string]any{"table": name, "where": where}))
						}
					}
					delete(actual[i], victim)
					cnt.add("manual_single_row_deletes", 1)
					checkAll("DELETE one row FROM dolt_conflicts_" + name)
				}
			}
			if err := x.Exec("delete from `dolt_conflicts_" + name + "`"); err != nil {
				l.violation("c43/manual-delete-error", "DELETE on the conflicts table failed: "+truncate(err.Error(), 300), wit(map[string]any{"table": name}))
				return true
			}
			state[i] = "ours"
			cnt.add("resolved.manual-delete", 1)
			checkAll("DELETE FROM dolt_conflicts_" + name)
		}
	}
	// ---- no residue: the merge can be committed and the working set is clean afterwards
	if _, err := x.Query("call dolt_commit('-Am', 'resolved')"); err != nil {
		l.violation("c43/commit-after-resolve/"+mode, "dolt_commit after resolving every conflict failed: "+truncate(err.Error(), 300), wit(nil))
		return true
	}
	if err := x.Exec("commit"); err != nil {
		l.violation("c43/commit-after-resolve/"+mode, "COMMIT after resolving every conflict failed: "+truncate(err.Error(), 300), wit(nil))
		return true
	}
	x.Exec("start transaction")
	if st, err := x.Query("select * from dolt_status"); err == nil && len(st.Data) > 0 {
		l.violation("c43/residue-after-commit/"+mode, fmt.Sprintf("dolt_status not clean after committing the resolved merge: %v", st.Strings()), wit(nil))
	}
	if ms, err := x.Query("select is_merging from dolt_merge_status"); err == nil && len(ms.Data) > 0 && ms.Data[0][0] != "0" && ms.Data[0][0] != "false" {
		l.violation("c43/residue-after-commit/"+mode, "dolt_merge_status still reports a merge in progress", wit(nil))
	}
	checkAll("dolt_commit")
	cnt.add("passes_completed", 1)
	return true
}
