package vmerge

import (
	"fmt"
	"regexp"
	"sort"
	"strings"
	"sync"

	"verif/rig"
	"verif/sqlrig"
)

func execAll(x *sqlrig.Session, stmts ...string) error {
	for _, s := range stmts {
		if err := x.Exec(s); err != nil {
			return fmt.Errorf("%s: %w", s, err)
		}
	}
	return nil
}

// limiter keeps the number of reported violations per key small (the count of suppressed repeats is a counter).
type limiter struct {
	mu         sync.Mutex
	c          *rig.Ctx
	perKey     map[string]int
	suppressed int
}

func newLimiter(c *rig.Ctx) *limiter { return &limiter{c: c, perKey: map[string]int{}} }

func (l *limiter) violation(key, what string, witness any) {
	l.mu.Lock()
	l.perKey[key]++
	n := l.perKey[key]
	if n > 3 {
		l.suppressed++
	}
	l.mu.Unlock()
	if n <= 3 {
		l.c.Violation(key, what, witness)
	}
}

func (l *limiter) tooMany() bool {
	l.mu.Lock()
	defer l.mu.Unlock()
	return len(l.perKey) > 25
}

func (l *limiter) suppressedCount() int {
	l.mu.Lock()
	defer l.mu.Unlock()
	return l.suppressed
}

// counters is a concurrency-safe counter set.
type counters struct {
	mu sync.Mutex
	m  map[string]int
}

func newCounters() *counters { return &counters{m: map[string]int{}} }

func (k *counters) add(name string, n int) {
	k.mu.Lock()
	k.m[name] += n
	k.mu.Unlock()
}

func (k *counters) get(name string) int {
	k.mu.Lock()
	defer k.mu.Unlock()
	return k.m[name]
}

func (k *counters) sumPrefix(prefix string) int {
	k.mu.Lock()
	defer k.mu.Unlock()
	n := 0
	for name, v := range k.m {
		if strings.HasPrefix(name, prefix) {
			n += v
		}
	}
	return n
}

func (k *counters) flush(c *rig.Ctx, prefix string) {
	k.mu.Lock()
	defer k.mu.Unlock()
	names := make([]string, 0, len(k.m))
	for n := range k.m {
		names = append(names, n)
	}
	sort.Strings(names)
	for _, n := range names {
		c.Count(prefix+n, k.m[n])
	}
}

// forCases runs fn(i, session) for i in [0,n) on `workers` sessions of one server. Every case derives its PRNG from
// (seed, label, i) so the set of cases does not depend on the interleaving; stop() ends the run early.
func forCases(srv *sqlrig.Server, n, workers int, init []string, stop func() bool, fn func(i int, x *sqlrig.Session)) {
	ch := make(chan int)
	var wg sync.WaitGroup
	for w := 0; w < workers; w++ {
		wg.Add(1)
		go func() {
			defer wg.Done()
			x := srv.MustOpen("")
			defer x.Close()
			for _, s := range init {
				rig.Must(x.Exec(s))
			}
			for i := range ch {
				fn(i, x)
			}
		}()
	}
	for i := 0; i < n; i++ {
		if stop != nil && stop() {
			break
		}
		ch <- i
	}
	close(ch)
	wg.Wait()
}

var (
	reQuoted = regexp.MustCompile(`'[^']*'|"[^"]*"`)
	// phrases of dolt's own user-level "these schemas cannot be merged" answers
	refusalPhrases = []string{"schema conflict", "incompatible column types", "cannot merge", "different primary keys", "cannot be merged", "non-nullable column", "unmergeable"}
)

// classifyMergeError sorts an error returned by dolt_merge into internal failure / clean refusal / other error and
// returns a stable class name for it.
func classifyMergeError(err error) (kind, sig string) {
	if sqlrig.IsInternalError(err) {
		return "internal-error", internalSignature(err)
	}
	low := strings.ToLower(err.Error())
	for _, p := range refusalPhrases {
		if strings.Contains(low, p) {
			return "refused", p
		}
	}
	msg := low
	if i := strings.Index(msg, "): "); i >= 0 && strings.HasPrefix(msg, "error ") {
		msg = msg[i+3:]
	}
	msg = strings.TrimPrefix(msg, "error: ")
	msg = reQuoted.ReplaceAllString(msg, "X")
	if i := strings.Index(msg, ": "); i > 0 {
		msg = msg[:i]
	}
	msg = reDigits.ReplaceAllString(msg, "N")
	if len(msg) > 60 {
		msg = msg[:60]
	}
	return "merge-error", strings.TrimSpace(msg)
}

// setupScenario creates database db holding the scenario: branch main = left, branch other = right, plus one
// scratch branch per merge direction (ml from main, mr from other) so that the two merges never see each other.
func setupScenario(x *sqlrig.Session, db string, sc *scenario) error {
	if err := setupBase(x, db, sc.Base.createSQL(), sc.BaseSQL); err != nil {
		return err
	}
	return setupSides(x, sc.LeftSQL, sc.RightSQL)
}

// setupBase creates the database, the table and the base commit on main (the session ends up using db on main).
func setupBase(x *sqlrig.Session, db, create string, baseSQL []string) error {
	setup := []string{"create database `" + db + "`", "use `" + db + "`", create}
	setup = append(setup, baseSQL...)
	setup = append(setup, "call dolt_commit('--allow-empty','-Am','base')")
	return execAll(x, setup...)
}

// setupSides makes the left edits on main and the right edits on branch other, and the scratch branches ml / mr.
func setupSides(x *sqlrig.Session, leftSQL, rightSQL []string) error {
	setup := []string{"call dolt_branch('other')"}
	setup = append(setup, leftSQL...)
	setup = append(setup, "call dolt_commit('--allow-empty','-Am','left')", "call dolt_checkout('other')")
	setup = append(setup, rightSQL...)
	setup = append(setup, "call dolt_commit('--allow-empty','-Am','right')", "call dolt_branch('ml','main')", "call dolt_branch('mr','other')", "call dolt_checkout('main')")
	return execAll(x, setup...)
}

// dirResult is what one merge direction produced.
type dirResult struct {
	Err       error             // error returned by dolt_merge
	Refused   string            // non-empty: clean user-level refusal (schema conflict)
	MergeRow  []string          // hash, fast_forward, conflicts, message
	Rows      map[string]string // pk -> rendered row over the model's merged columns
	Conflicts map[string]string // pk -> rendered conflict row
	NConf     string            // num_conflicts reported by dolt_conflicts for the table ("0" when absent)
	ColNames  []string          // actual column names of the merged table (without pk)
}

var (
	reDigits   = regexp.MustCompile(`[0-9]+`)
	reMergeFn  = regexp.MustCompile(`doltcore/merge\.(?:\(\*?\w+\)\.)?(\w+)`)
	knownPanic = []string{"index out of range", "nil pointer", "slice bounds", "invalid memory", "interface conversion", "unexpected", "tuple", "descriptor"}
)

// internalSignature turns an internal-failure error text into a stable class name: "<what>@<function>".
func internalSignature(err error) string {
	s := err.Error()
	low := strings.ToLower(s)
	what := ""
	for _, p := range knownPanic {
		if strings.Contains(low, p) {
			what = p
			break
		}
	}
	if what == "" {
		first := strings.SplitN(low, "\n", 2)[0]
		if len(first) > 60 {
			first = first[:60]
		}
		what = reDigits.ReplaceAllString(first, "N")
	}
	fn := ""
	if i := strings.Index(s, "panic("); i >= 0 {
		if m := reMergeFn.FindStringSubmatch(s[i:]); m != nil {
			fn = m[1]
		}
	}
	if fn == "" {
		if m := reMergeFn.FindStringSubmatch(s); m != nil {
			fn = m[1]
		}
	}
	if fn != "" {
		return what + "@" + fn
	}
	return what
}

// mergeDirection checks out branch into, merges from into it inside a transaction (so that conflicts can be read),
// reads the result and rolls back.
func mergeDirection(x *sqlrig.Session, db, table, into, from string, m *mergeOut, mergeArgs string) (*dirResult, error) {
	res := &dirResult{Rows: map[string]string{}, Conflicts: map[string]string{}, NConf: "0"}
	if err := execAll(x, "call dolt_checkout('"+into+"')", "set autocommit = 0", "start transaction"); err != nil {
		return nil, err
	}
	defer execAll(x, "rollback", "set autocommit = 1")
	mr, err := x.Query("call dolt_merge(" + mergeArgs + "'" + from + "')")
	if err != nil {
		res.Err = err
		return res, nil
	}
	if len(mr.Data) == 1 {
		res.MergeRow = mr.Data[0]
	}
	if n, err := x.Scalar("select count(*) from dolt_schema_conflicts"); err == nil && n != "0" {
		d, _ := x.Query("select description from dolt_schema_conflicts")
		res.Refused = "schema conflict"
		if d != nil && len(d.Data) > 0 {
			res.Refused = "schema conflict: " + d.Data[0][0]
		}
		return res, nil
	}
	cn, err := x.Query("show columns from `" + table + "`")
	if err != nil {
		return nil, fmt.Errorf("show columns: %w", err)
	}
	for _, r := range cn.Data {
		if r[0] != "pk" {
			res.ColNames = append(res.ColNames, r[0])
		}
	}
	got, err := x.Query(selectSQL(table, m.colNames()))
	if err != nil {
		return nil, fmt.Errorf("read merged table: %w", err)
	}
	for _, r := range got.Data {
		res.Rows[r[0]] = strings.Join(r, "\x1f")
	}
	nc, err := x.Query("select num_conflicts from dolt_conflicts where `table` = '" + table + "'")
	if err != nil {
		return nil, fmt.Errorf("dolt_conflicts: %w", err)
	}
	if len(nc.Data) > 0 {
		res.NConf = nc.Data[0][0]
		gc, err := x.Query(m.conflictSelect(table))
		if err != nil {
			return nil, fmt.Errorf("dolt_conflicts_%s: %w", table, err)
		}
		for _, r := range gc.Data {
			res.Conflicts[conflictPK(r, len(m.BaseCols), len(m.Cols))] = strings.Join(r, "\x1f")
		}
		if len(gc.Data) != len(res.Conflicts) {
			return nil, fmt.Errorf("dolt_conflicts_%s lists a key twice", table)
		}
	}
	return res, nil
}

// firstDiffKind names the kind of the first column in which two rendered rows (over the merged columns) differ.
func firstDiffKind(m *mergeOut, got, want string) string {
	g, w := strings.Split(got, "\x1f"), strings.Split(want, "\x1f")
	for i, c := range m.Cols {
		if i+1 < len(g) && i+1 < len(w) && g[i+1] != w[i+1] {
			return c.Kind
		}
	}
	return "row"
}

// compareDirection compares one direction's result with the model. prefix is the key prefix ("c29/merge", "c29/schema");
// dirLabel qualifies keys where the direction is part of the input class ("" in the identical-schema stage).
func compareDirection(l *limiter, prefix, dirLabel string, sc *scenario, m *mergeOut, res *dirResult, shifted map[int64]bool, witness map[string]any) {
	shiftMark := func(k int64) string {
		if shifted[k] {
			return colShiftMark
		}
		return ""
	}
	suffix := ""
	if dirLabel != "" {
		suffix = "/" + dirLabel
	}
	w := func(extra map[string]any) map[string]any {
		out := map[string]any{}
		for k, v := range witness {
			out[k] = v
		}
		for k, v := range extra {
			out[k] = v
		}
		return out
	}
	// merged schema (as a set of names)
	gotCols := append([]string(nil), res.ColNames...)
	wantCols := m.colNames()
	sort.Strings(gotCols)
	sort.Strings(wantCols)
	if strings.Join(gotCols, ",") != strings.Join(wantCols, ",") {
		l.violation(prefix+"/merged-schema"+suffix, fmt.Sprintf("merged table has columns %v, the model's merged schema has %v", gotCols, wantCols), w(nil))
		return
	}
	cols := m.colNames()
	for _, k := range sortedKeys(unionKeys(sc)) {
		ks := fmt.Sprint(k)
		_, gotConf := res.Conflicts[ks]
		if _, un := m.Unspec[k]; un {
			// the statement does not say whether this row conflicts; whichever dolt chose, the rest must be consistent
			uc := m.UnspecConflict[k]
			var wantRow map[string]string
			switch {
			case gotConf:
				if g, want := res.Conflicts[ks], m.renderConflict(uc); g != want {
					l.violation(prefix+"/conflict-row-content+dropped-column-cell"+suffix, fmt.Sprintf("pk %d: dolt_conflicts_%s row differs from the versions of the row", k, sc.Base.Name),
						w(map[string]any{"pk": k, "got": g, "want": want}))
				}
				wantRow = uc.Ours
			case m.UnspecMustConflict[k]:
				l.violation(prefix+"/conflict-missing/same-cell+dropped-column-cell"+suffix, fmt.Sprintf("pk %d: both sides changed the same remaining cell differently, no conflict recorded", k),
					w(map[string]any{"pk": k, "got_row": res.Rows[ks]}))
				continue
			default:
				wantRow = m.UnspecClean[k]
			}
			got, gok := res.Rows[ks]
			if gok != (wantRow != nil) || (gok && got != renderRow(k, wantRow, cols)) {
				l.violation(prefix+"/merged-cell+dropped-column-cell"+suffix, fmt.Sprintf("pk %d (a cell was modified in a column the other side dropped; conflict recorded = %v): the remaining cells differ from the cell-wise model", k, gotConf),
					w(map[string]any{"pk": k, "got": got, "want": renderOrAbsent(k, wantRow, cols), "columns": cols}))
			}
			continue
		}
		if m.AddedColVsDelete[k] {
			if !gotConf {
				l.violation(prefix+"/delete-vs-update-of-added-column-not-a-conflict"+suffix,
					fmt.Sprintf("pk %d was deleted on one side and modified on the other (only in a column that side added); no conflict was recorded and the update was dropped silently", k),
					w(map[string]any{"pk": k, "got_row": res.Rows[ks]}))
			}
			continue
		}
		wantConf := m.Conflicts[k]
		switch {
		case wantConf != nil && !gotConf:
			class := "same-cell"
			if wantConf.Base == nil {
				class = "divergent-insert"
			} else if wantConf.Ours == nil || wantConf.Theirs == nil {
				class = "delete-vs-modify"
			}
			l.violation(prefix+"/conflict-missing/"+class+shiftMark(k)+suffix, fmt.Sprintf("pk %d: the model records a conflict, dolt_conflicts_%s has none", k, sc.Base.Name),
				w(map[string]any{"pk": k, "want_conflict": m.renderConflict(wantConf), "got_row": res.Rows[ks]}))
			continue
		case wantConf == nil && gotConf:
			l.violation(prefix+"/conflict-spurious/"+rowShape(sc, m, k)+shiftMark(k)+suffix, fmt.Sprintf("pk %d: dolt recorded a conflict where the model merges cleanly", k),
				w(map[string]any{"pk": k, "got_conflict": res.Conflicts[ks], "want_row": renderOrAbsent(k, m.Rows[k], cols)}))
			continue
		case wantConf != nil:
			if g, want := res.Conflicts[ks], m.renderConflict(wantConf); g != want {
				l.violation(prefix+"/conflict-row-content"+suffix, fmt.Sprintf("pk %d: dolt_conflicts_%s row differs from the model (base/ours/theirs/diff types)", k, sc.Base.Name),
					w(map[string]any{"pk": k, "got": g, "want": want}))
			}
		}
		got, gok := res.Rows[ks]
		wantRow, wok := m.Rows[k]
		switch {
		case gok != wok:
			l.violation(prefix+"/merged-row-presence"+suffix, fmt.Sprintf("pk %d: present in merged table = %v, model = %v", k, gok, wok),
				w(map[string]any{"pk": k, "got": got, "want": renderOrAbsent(k, wantRow, cols)}))
		case gok:
			if want := renderRow(k, wantRow, cols); got != want {
				l.violation(prefix+"/merged-cell/"+firstDiffKind(m, got, want)+jsonNullMark(sc, k)+suffix, fmt.Sprintf("pk %d: merged row differs from the cell-wise three-way model", k),
					w(map[string]any{"pk": k, "got": got, "want": want, "columns": cols}))
			}
		}
	}
	// bookkeeping consistency: dolt_conflicts count and the dolt_merge result row
	if res.NConf != fmt.Sprint(len(res.Conflicts)) {
		l.violation(prefix+"/conflict-count"+suffix, fmt.Sprintf("dolt_conflicts says %s, dolt_conflicts_%s has %d rows", res.NConf, sc.Base.Name, len(res.Conflicts)), w(nil))
	}
	if len(res.MergeRow) >= 3 {
		if (res.MergeRow[2] != "0") != (len(res.Conflicts) > 0) {
			l.violation(prefix+"/merge-result-conflicts-flag"+suffix, fmt.Sprintf("dolt_merge returned conflicts=%s but %d conflict rows exist", res.MergeRow[2], len(res.Conflicts)), w(nil))
		}
	}
}

// colShiftVsDelete names the input class "theirs deleted a row that ours still has, while a base column sits at a
// different non-key position in ours' schema than in theirs'" and returns the keys of such rows. In that situation
// valueMerger.processBaseColumn (right == nil branch) resolves the left column's type through the right schema.
const colShiftMark = "+theirs-deleted-row,column-positions-differ"

func colShiftVsDelete(base, ours, theirs *mtable) map[int64]bool {
	shift := false
	for i, c := range ours.Cols {
		if _, inBase := base.col(c.Name); !inBase {
			continue
		}
		j := -1
		for k, tc := range theirs.Cols {
			if tc.Name == c.Name {
				j = k
			}
		}
		if i != j {
			shift = true
		}
	}
	keys := map[int64]bool{}
	if !shift {
		return keys
	}
	for k, b := range base.Rows {
		if b != nil && ours.Rows[k] != nil && theirs.Rows[k] == nil {
			keys[k] = true
		}
	}
	return keys
}

// jsonNullMark returns "+json-null" when any version of row k holds SQL NULL in a JSON column (the input class of the
// JSON-NULL findings), else "".
func jsonNullMark(sc *scenario, k int64) string {
	for _, t := range []*mtable{sc.Base, sc.Left, sc.Right} {
		row := t.Rows[k]
		if row == nil {
			continue
		}
		for _, c := range t.Cols {
			if c.Kind == "json" && row[c.Name] == Null {
				return "+json-null"
			}
		}
	}
	return ""
}

// rowShape names the shape of the three versions of row k: which sides have it and whether the model sees it as modified.
func rowShape(sc *scenario, m *mergeOut, k int64) string {
	b, l, r := sc.Base.Rows[k], sc.Left.Rows[k], sc.Right.Rows[k]
	shape := "modified-on-both-sides"
	switch {
	case b == nil:
		shape = "inserted-on-both-sides"
	case l == nil || r == nil:
		shape = "deleted-vs-unmodified"
	}
	return shape + jsonNullMark(sc, k)
}

func renderOrAbsent(k int64, row map[string]string, cols []string) string {
	if row == nil {
		return "(absent)"
	}
	return renderRow(k, row, cols)
}

func unionKeys(sc *scenario) map[int64]bool {
	keys := map[int64]bool{}
	for _, t := range []*mtable{sc.Base, sc.Left, sc.Right} {
		for k := range t.Rows {
			keys[k] = true
		}
	}
	return keys
}

// compareSymmetry checks the swapped-sides clause directly on the two actual results: the same keys conflict, and every
// key that does not conflict has the same row in both merged tables.
func compareSymmetry(l *limiter, prefix string, sc *scenario, mLR, mRL *mergeOut, lr, rl *dirResult, shifted map[int64]bool, witness map[string]any) {
	// rows are rendered over each direction's merged columns, which may be ordered differently: re-key by column name
	byName := func(m *mergeOut, s string) map[string]string {
		f := strings.Split(s, "\x1f")
		out := map[string]string{}
		for i, c := range m.Cols {
			if i+1 < len(f) {
				out[c.Name] = f[i+1]
			}
		}
		return out
	}
	for _, k := range sortedKeys(unionKeys(sc)) {
		ks := fmt.Sprint(k)
		_, c1 := lr.Conflicts[ks]
		_, c2 := rl.Conflicts[ks]
		if c1 != c2 {
			mark := ""
			if shifted[k] {
				mark = colShiftMark
			}
			l.violation(prefix+"/asymmetric-conflict"+mark+jsonNullMark(sc, k), fmt.Sprintf("pk %d conflicts when merging right into left = %v, left into right = %v", k, c1, c2),
				map[string]any{"pk": k, "scenario": witness, "unspecified_by_statement": mLR.Unspec[k]})
			continue
		}
		if c1 {
			continue
		}
		r1, ok1 := lr.Rows[ks]
		r2, ok2 := rl.Rows[ks]
		same := ok1 == ok2
		if same && ok1 {
			a, b := byName(mLR, r1), byName(mRL, r2)
			for n, v := range a {
				if b[n] != v {
					same = false
				}
			}
		}
		if !same {
			l.violation(prefix+"/asymmetric-data", fmt.Sprintf("pk %d: merged row depends on the merge direction", k),
				map[string]any{"pk": k, "left<-right": r1, "right<-left": r2, "scenario": witness})
		}
	}
}
