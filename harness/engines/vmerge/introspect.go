package vmerge

import (
	"context"
	"fmt"
	"path/filepath"

	"github.com/dolthub/go-mysql-server/sql"

	"github.com/dolthub/dolt/go/libraries/doltcore/doltdb"
	"github.com/dolthub/dolt/go/libraries/doltcore/doltdb/durable"
	"github.com/dolthub/dolt/go/libraries/doltcore/merge"
	"github.com/dolthub/dolt/go/libraries/doltcore/ref"
	"github.com/dolthub/dolt/go/libraries/doltcore/table/editor"
	"github.com/dolthub/dolt/go/libraries/utils/filesys"
	"github.com/dolthub/dolt/go/store/prolly/tree"
	"github.com/dolthub/dolt/go/store/types"
	"github.com/dolthub/dolt/go/store/val"

	"verif/sqlrig"
)

// In-process, read-only views of a database that the running sql-server owns. The store handle comes from dolt's
// per-process singleton cache for file-backed databases, i.e. it is the very store the server uses. Nothing here
// decides a verdict by itself: the tree shape steers the C30 workload (edits at chunk boundaries) and is counted as
// evidence; the Go-level MergeRoots call exposes merge.MergeStats, which SQL does not return.

func openDoltDB(srv *sqlrig.Server, db string) (*doltdb.DoltDB, error) {
	url := "file://" + filepath.Join(srv.Dir, db, ".dolt", "noms")
	return doltdb.LoadDoltDB(context.Background(), types.Format_DOLT, url, filesys.LocalFS)
}

func branchRoot(ctx context.Context, ddb *doltdb.DoltDB, branch string) (*doltdb.Commit, doltdb.RootValue, error) {
	cm, err := ddb.ResolveCommitRef(ctx, ref.NewBranchRef(branch))
	if err != nil {
		return nil, nil, err
	}
	root, err := cm.GetRootValue(ctx)
	return cm, root, err
}

// treeShape describes the primary index of a table at a branch head.
type treeShape struct {
	Height int
	Leaves [][2]int64 // first and last primary key of every leaf chunk, in key order
}

func tableShape(ddb *doltdb.DoltDB, branch, table string) (*treeShape, error) {
	ctx := context.Background()
	_, root, err := branchRoot(ctx, ddb, branch)
	if err != nil {
		return nil, err
	}
	tbl, ok, err := root.GetTable(ctx, doltdb.TableName{Name: table})
	if err != nil || !ok {
		return nil, fmt.Errorf("table %s at %s: ok=%v err=%v", table, branch, ok, err)
	}
	idx, err := tbl.GetRowData(ctx)
	if err != nil {
		return nil, err
	}
	m, err := durable.ProllyMapFromIndex(idx)
	if err != nil {
		return nil, err
	}
	sh := &treeShape{Height: m.Height()}
	kd, _ := m.Descriptors()
	err = tree.WalkNodes(ctx, m.Node(), m.NodeStore(), func(ctx context.Context, nd *tree.Node) error {
		if nd == nil || !nd.IsLeaf() || nd.Count() == 0 {
			return nil
		}
		first, ok1 := kd.GetInt64(0, val.Tuple(nd.GetKey(0)))
		last, ok2 := kd.GetInt64(0, val.Tuple(nd.GetKey(nd.Count()-1)))
		if ok1 && ok2 {
			sh.Leaves = append(sh.Leaves, [2]int64{first, last})
		}
		return nil
	})
	return sh, err
}

// internalMergeStats runs merge.MergeRoots(ours <- theirs) on the branch heads through the Go API (nothing is written
// back) and returns the statistics the merge reports for the table.
func internalMergeStats(ddb *doltdb.DoltDB, ours, theirs, table string) (*merge.MergeStats, error) {
	ctx := context.Background()
	ocm, oroot, err := branchRoot(ctx, ddb, ours)
	if err != nil {
		return nil, err
	}
	tcm, troot, err := branchRoot(ctx, ddb, theirs)
	if err != nil {
		return nil, err
	}
	oc, err := doltdb.GetCommitAncestor(ctx, ocm, tcm)
	if err != nil {
		return nil, err
	}
	acm, ok := oc.ToCommit()
	if !ok {
		return nil, fmt.Errorf("common ancestor is a ghost commit")
	}
	aroot, err := acm.GetRootValue(ctx)
	if err != nil {
		return nil, err
	}
	res, err := merge.MergeRoots(sql.NewContext(ctx), doltdb.SimpleTableResolver{}, oroot, troot, aroot, tcm, acm, editor.Options{}, merge.MergeOpts{})
	if err != nil {
		return nil, err
	}
	st := res.Stats[doltdb.TableName{Name: table}]
	if st == nil {
		return nil, fmt.Errorf("no merge stats for table %s", table)
	}
	return st, nil
}
