package vmerge

import (
	"fmt"
	"math/rand"
	"os"

	"verif/rig"
	"verif/sqlrig"
)

// genLeafRuns adds the "leaf run" classes to a large scenario: for consecutive leaves A, B.., C of the base tree one
// side (x) edits one row in every leaf of the run and, in C, exactly the LAST key (nothing smaller in C); the other side
// (y) edits another row of A (so A is changed on both sides) and another row of C, and leaves the leaf before C
// untouched. With y = theirs the patch-based merge meets a leaf-level point edit of x on the end key of y's range
// patch for C. Returns the number of last-key edits generated.
func genLeafRuns(r *rand.Rand, g *gen, sc *scenario, sh *treeShape) int {
	leaves := sh.Leaves
	emit := func(t *mtable, s string) {
		if s == "" {
			return
		}
		if t == sc.Left {
			sc.LeftSQL = append(sc.LeftSQL, s)
		} else {
			sc.RightSQL = append(sc.RightSQL, s)
		}
	}
	upd := func(t *mtable, k int64, c colDef) string {
		row := t.Rows[k]
		if row == nil {
			return ""
		}
		return g.updateCells(t, k, map[string]string{c.Name: g.otherValue(c, row[c.Name])})
	}
	inner := func(j int) int64 { // a key of leaf j that is neither its first nor its last key
		first, last := leaves[j][0], leaves[j][1]
		for k := first + 3; k < last; k += 3 {
			if sc.Base.Rows[k] != nil && r.Intn(3) == 0 {
				return k
			}
		}
		return first
	}
	lastKeyEdits := 0
	nruns := 2 + r.Intn(3)
	region := len(leaves) / nruns
	for q := 0; q < nruns && region >= 9; q++ {
		L := 2 + r.Intn(3) // C = A + L
		a := q*region + 1 + r.Intn(region-L-3)
		cIdx := a + L
		if cIdx+1 >= len(leaves) {
			continue
		}
		x, y := sc.Left, sc.Right
		if r.Intn(2) == 0 {
			x, y = y, x
		}
		cols := sc.Base.Cols[:3]
		// x: one row in every leaf A .. C-1, and the LAST key of C
		emit(x, upd(x, inner(a), cols[0]))
		for j := a + 1; j < cIdx; j++ {
			k := inner(j)
			if r.Intn(3) == 0 {
				k = leaves[j][1]
			}
			emit(x, upd(x, k, cols[r.Intn(3)]))
		}
		lastC := leaves[cIdx][1]
		variant := []string{"leaf-run/last-key-update-one-side", "leaf-run/last-key-update-one-side", "leaf-run/last-key-delete-one-side",
			"leaf-run/last-key-cellwise", "leaf-run/last-key-same-cell-conflict"}[r.Intn(5)]
		sc.Classes[variant]++
		switch variant {
		case "leaf-run/last-key-delete-one-side":
			emit(x, g.deleteRow(x, lastC))
		default:
			emit(x, upd(x, lastC, cols[0]))
		}
		lastKeyEdits++
		// y: another row of A (different cell of the same row half of the time), another row of C, nothing in C-1
		if r.Intn(2) == 0 {
			emit(y, upd(y, leaves[a][0], cols[1]))
		} else {
			emit(y, upd(y, leaves[a][1], cols[1]))
		}
		emit(y, upd(y, inner(cIdx), cols[1]))
		switch variant {
		case "leaf-run/last-key-cellwise":
			emit(y, upd(y, lastC, cols[1]))
		case "leaf-run/last-key-same-cell-conflict":
			emit(y, upd(y, lastC, cols[0]))
		}
	}
	return lastKeyEdits
}

// c29large — stage "large": multi-chunk tables that take the chunk-level fast merge path (proven by merge.path),
// boundary-targeted edits, result compared with the cell-wise model in both directions plus the symmetry clause.
func c29large(c *rig.Ctx) {
	prefix := "c29/large"
	c.Rule("stage `large`: tables of 1500/4000/6000 ~200-byte rows (nullable columns only, no index/check: the chunk-level fast merge path, proven per merge " +
		"by the merge.path hook; tree height and leaf boundaries measured in-process) with edits aimed at the measured leaf boundaries: leaf runs (one side " +
		"edits a row in every leaf A..C and exactly the last key of C, the other side edits another row of A and of C), first/last key of a leaf, adjacent " +
		"leaves edited by different sides, whole-leaf range deletes and whole-chunk inserts; dolt_merge in both directions vs the cell-wise model, plus the swapped-sides clause")
	dir := c.TempDir("c29large")
	defer os.RemoveAll(dir)
	srv, err := sqlrig.Start(dir + "/data")
	rig.Must(err)
	defer srv.Stop()
	paths := &pathLog{}
	paths.install()
	l := newLimiter(c)
	cnt := newCounters()
	n := c.Pick(14, 150)
	forCases(srv, n, 5, nil, l.tooMany, func(i int, x *sqlrig.Session) {
		r := c.SubRand("c29large", i)
		g := newGen(r)
		nrows := []int{4000, 1500, 6000}[i%3]
		table := fmt.Sprintf("lg%d", i)
		db := fmt.Sprintf("c29l_%d", i)
		sc, hole := genLargeBase(r, g, table, nrows)
		c.Case(fmt.Sprintf("c29/large/%d", i), map[string]any{"db": db, "rows": nrows, "note": "edits are generated from the measured leaf boundaries after the base commit; see the next case event"})
		defer func() {
			x.Exec("use mysql")
			x.Exec("drop database `" + db + "`")
		}()
		if err := setupBase(x, db, sc.Base.createSQL(), sc.BaseSQL); err != nil {
			l.violation(prefix+"/setup", "base setup failed: "+err.Error(), nil)
			return
		}
		ddb, err := openDoltDB(srv, db)
		if err != nil {
			c.Note("openDoltDB: " + err.Error())
			cnt.add("introspection_failures", 1)
			return
		}
		sh, err := tableShape(ddb, "main", table)
		if err != nil || len(sh.Leaves) < 8 {
			c.Note(fmt.Sprintf("tableShape: %v", err))
			cnt.add("introspection_failures", 1)
			return
		}
		lastKeyEdits := genLeafRuns(r, g, sc, sh)
		genBoundaryEdits(r, g, sc, sh, hole)
		payload := sc.payload(db)
		payload["base"] = fmt.Sprintf("(%d multi-row inserts, %d rows, keys 3*i with a hole; see genLargeBase)", len(sc.BaseSQL), nrows)
		payload["tree_height"], payload["leaves"] = sh.Height, len(sh.Leaves)
		c.Case(fmt.Sprintf("c29/large/%d", i), payload)
		if err := setupSides(x, sc.LeftSQL, sc.RightSQL); err != nil {
			l.violation(prefix+"/setup", "setup failed: "+err.Error(), payload)
			return
		}
		mLR := modelMerge(sc.Base, sc.Left, sc.Right)
		mRL := modelMerge(sc.Base, sc.Right, sc.Left)
		results := map[string]*dirResult{}
		for _, d := range []struct {
			name, into, from string
			m                *mergeOut
		}{{"left<-right", "ml", "other", mLR}, {"right<-left", "mr", "main", mRL}} {
			paths.take(table)
			res, err := mergeDirection(x, db, table, d.into, d.from, d.m, "")
			took := paths.take(table)
			if err != nil {
				l.violation(prefix+"/read-after-merge", d.name+": "+err.Error(), payload)
				continue
			}
			w := map[string]any{"direction": d.name, "scenario": payload}
			if res.Err != nil {
				kind, sig := classifyMergeError(res.Err)
				w["error"] = truncate(res.Err.Error(), 3000)
				l.violation(prefix+"/"+kind+"/"+sig, "dolt_merge failed: "+truncate(res.Err.Error(), 300), w)
				continue
			}
			if res.Refused != "" {
				l.violation(prefix+"/refused", "dolt_merge on identical schemas reported "+res.Refused, w)
				continue
			}
			if len(took) == 1 && took[0] {
				cnt.add("fast_path_merges_compared", 1)
				if sh.Height >= 3 {
					cnt.add("fast_path_merges_compared.tree_height>=3", 1)
				}
			} else {
				cnt.add("merges_compared_not_on_fast_path", 1)
				c.Note(fmt.Sprintf("large table did not take the fast path: %v", took))
			}
			compareDirection(l, prefix, "", sc, d.m, res, nil, w)
			results[d.name] = res
		}
		if lr, rl := results["left<-right"], results["right<-left"]; lr != nil && rl != nil {
			compareSymmetry(l, prefix, sc, mLR, mRL, lr, rl, nil, payload)
			cnt.add("direction_pairs_compared", 1)
		}
		cnt.add("leaf_run_last_key_edits", lastKeyEdits)
		cnt.add("model_conflicts", len(mLR.Conflicts))
		cnt.add("cellwise_merged_rows", mLR.Cellwise)
		for k, v := range sc.Classes {
			cnt.add("class."+k, v)
		}
		c.Distinct(fmt.Sprintf("large/%d/%d/%s", nrows, len(sh.Leaves), sc.signature()))
		c.Sample(map[string]any{"stage": "large", "rows": nrows, "tree_height": sh.Height, "leaves": len(sh.Leaves), "classes": sc.Classes,
			"left_statements": len(sc.LeftSQL), "right_statements": len(sc.RightSQL), "model_conflicts": len(mLR.Conflicts)})
	})
	cnt.add("suppressed_repeat_violations", l.suppressedCount())
	cnt.flush(c, "c29.large.")
	c.Require(cnt.get("fast_path_merges_compared") > 0, "large: no merge on the chunk-level fast path was compared with the model")
	c.Require(cnt.get("fast_path_merges_compared.tree_height>=3") > 0, "large: no fast-path merge on a tree of height >= 3")
	c.Require(cnt.get("leaf_run_last_key_edits") > 0, "large: no leaf run with an edit on the last key of a leaf was generated")
	c.Require(cnt.get("model_conflicts") > 0 && cnt.get("cellwise_merged_rows") > 0, "large: no conflict / no cell-wise merged row")
}
