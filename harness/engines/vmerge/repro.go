package vmerge

import (
	"bufio"
	"fmt"
	"os"
	"strings"

	"github.com/dolthub/dolt/go/libraries/utils/verifhook"

	"verif/rig"
	"verif/sqlrig"
)

// sqlscript is a reproduction helper: `.build/vmerge sqlscript <file.sql>` starts a private in-process sql-server,
// runs the statements of the file one per line (lines starting with `--` are echoed as comments) on ONE session and
// prints every result set / error. merge.path hook events are printed as they happen. Nothing is asserted.
func sqlscript(args []string) int {
	if len(args) < 1 {
		fmt.Fprintln(os.Stderr, "usage: sqlscript <file.sql>")
		return 2
	}
	f, err := os.Open(args[0])
	if err != nil {
		fmt.Fprintln(os.Stderr, err)
		return 2
	}
	defer f.Close()
	dir := fmt.Sprintf("/var/tmp/verif-sqlscript-%d", os.Getpid())
	os.RemoveAll(dir)
	defer os.RemoveAll(dir)
	defer os.RemoveAll(dir + "/../home-data")
	srv, err := sqlrig.Start(dir + "/data")
	if err != nil {
		fmt.Fprintln(os.Stderr, err)
		return 2
	}
	defer srv.Stop()
	verifhook.OnEmit(func(point string, kv []any) { fmt.Printf("   [hook %s %v]\n", point, kv) })
	x := srv.MustOpen("")
	defer x.Close()
	sc := bufio.NewScanner(f)
	sc.Buffer(make([]byte, 1<<20), 1<<26)
	for sc.Scan() {
		line := strings.TrimSpace(sc.Text())
		if line == "" {
			continue
		}
		if strings.HasPrefix(line, "--") {
			fmt.Println(line)
			continue
		}
		line = strings.TrimSuffix(line, ";")
		short := line
		if len(short) > 300 {
			short = short[:300] + "..."
		}
		fmt.Println("> " + short)
		r, err := x.Query(line)
		if err != nil {
			msg := err.Error()
			if len(msg) > 1500 {
				msg = msg[:1500] + "..."
			}
			fmt.Println("   ERROR: " + msg)
			continue
		}
		if len(r.Cols) > 0 && len(r.Data) > 0 {
			fmt.Println("   " + strings.Join(r.Cols, " | "))
			for i, row := range r.Data {
				if i >= 60 {
					fmt.Printf("   ... (%d rows)\n", len(r.Data))
					break
				}
				for j := range row {
					if row[j] == sqlrig.Null {
						row[j] = "NULL"
					}
				}
				fmt.Println("   " + strings.Join(row, " | "))
			}
		}
	}
	return 0
}

func init() { rig.SubCommands["sqlscript"] = sqlscript }
