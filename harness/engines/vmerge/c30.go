package vmerge

import (
	"fmt"
	"math/rand"
	"os"
	"sort"
	"strings"
	"sync"

	"github.com/dolthub/dolt/go/libraries/doltcore/merge"
	"github.com/dolthub/dolt/go/libraries/utils/verifhook"

	"verif/rig"
	"verif/sqlrig"
)

// ---------------------------------------------------------------------------------------------------------------
// merge.path observer: table name -> the fast/slow decisions emitted for it (in order)

type pathLog struct {
	mu sync.Mutex
	m  map[string][]bool
}

func (p *pathLog) install() {
	p.m = map[string][]bool{}
	verifhook.OnEmit(func(point string, kv []any) {
		if point != "merge.path" || len(kv) < 2 {
			return
		}
		name, _ := kv[0].(string)
		fast, _ := kv[1].(bool)
		p.mu.Lock()
		p.m[name] = append(p.m[name], fast)
		p.mu.Unlock()
	})
}

// take returns and clears the decisions recorded for a table.
func (p *pathLog) take(table string) []bool {
	p.mu.Lock()
	defer p.mu.Unlock()
	v := p.m[table]
	delete(p.m, table)
	return v
}

// ---------------------------------------------------------------------------------------------------------------
// large scenarios: multi-chunk tables with edits aimed at chunk boundaries

func batchInsert(g *gen, t *mtable, pks []int64, preset map[int64]map[string]string) []string {
	var out []string
	names := []string{"pk"}
	for _, c := range t.Cols {
		names = append(names, "`"+c.Name+"`")
	}
	for start := 0; start < len(pks); start += 400 {
		end := start + 400
		if end > len(pks) {
			end = len(pks)
		}
		var tuples []string
		for _, pk := range pks[start:end] {
			if _, ok := t.Rows[pk]; ok {
				continue
			}
			row := map[string]string{}
			lits := []string{fmt.Sprint(pk)}
			for _, c := range t.Cols {
				v, ok := preset[pk][c.Name]
				if !ok {
					v = g.value(c)
				}
				row[c.Name] = v
				lits = append(lits, sqlrig.SQLLit(v))
			}
			t.Rows[pk] = row
			tuples = append(tuples, "("+strings.Join(lits, ", ")+")")
		}
		if len(tuples) > 0 {
			out = append(out, fmt.Sprintf("insert into `%s` (%s) values %s", t.Name, strings.Join(names, ", "), strings.Join(tuples, ", ")))
		}
	}
	return out
}

func rangeDelete(t *mtable, lo, hi int64) string {
	n := 0
	for k := range t.Rows {
		if k >= lo && k <= hi {
			delete(t.Rows, k)
			n++
		}
	}
	if n == 0 {
		return ""
	}
	return fmt.Sprintf("delete from `%s` where pk between %d and %d", t.Name, lo, hi)
}

// genLargeBase builds a base table of n rows with keys 3*i (free keys in between) and a large hole in the key space;
// a filler column makes rows ~200 bytes so that a few thousand rows give a tree of height >= 3.
func genLargeBase(r *rand.Rand, g *gen, name string, n int) (*scenario, [2]int64) {
	sc := &scenario{Classes: map[string]int{}}
	base := &mtable{Name: name, Rows: map[int64]map[string]string{}}
	base.Cols = []colDef{
		{Name: "c0", Kind: "int", Type: "int", Default: Null},
		{Name: "c1", Kind: "varchar", Type: "varchar(40)", Default: Null},
		{Name: "c2", Kind: "decimal", Type: "decimal(14,2)", Default: Null},
		{Name: "filler", Kind: "varchar", Type: "varchar(250)", Default: Null},
	}
	holeAt := int64(3 * (n / 2))
	hole := [2]int64{holeAt + 1, holeAt + 3000}
	var pks []int64
	preset := map[int64]map[string]string{}
	for i := 0; i < n; i++ {
		pk := int64(3 * i)
		if pk > holeAt {
			pk += 3000
		}
		pks = append(pks, pk)
		preset[pk] = map[string]string{"filler": fmt.Sprintf("f%d-%s", pk, strings.Repeat("x", 150+r.Intn(60)))}
	}
	sc.BaseSQL = batchInsert(g, base, pks, preset)
	sc.Base = base.clone()
	sc.Left, sc.Right = base.clone(), base.clone()
	return sc, hole
}

// genBoundaryEdits adds left / right edits aimed at the leaf boundaries of the base table's primary index.
func genBoundaryEdits(r *rand.Rand, g *gen, sc *scenario, sh *treeShape, hole [2]int64) {
	L, R := sc.Left, sc.Right
	leaves := sh.Leaves
	emit := func(t *mtable, s ...string) {
		for _, one := range s {
			if one == "" {
				continue
			}
			if t == L {
				sc.LeftSQL = append(sc.LeftSQL, one)
			} else {
				sc.RightSQL = append(sc.RightSQL, one)
			}
		}
	}
	sides := func() (*mtable, *mtable) {
		if r.Intn(2) == 0 {
			return L, R
		}
		return R, L
	}
	col := func() colDef { return sc.Base.Cols[r.Intn(3)] } // not the filler
	upd := func(t *mtable, k int64, c colDef) string {
		row := t.Rows[k]
		if row == nil {
			return ""
		}
		return g.updateCells(t, k, map[string]string{c.Name: g.otherValue(c, row[c.Name])})
	}
	leaf := func() int { return r.Intn(len(leaves)) }
	nev := 6 + r.Intn(10)
	for e := 0; e < nev; e++ {
		a, b := sides()
		j := leaf()
		first, last := leaves[j][0], leaves[j][1]
		cls := []string{"boundary-update-one-side", "boundary-both-adjacent", "boundary-cellwise", "boundary-same-cell-conflict", "boundary-delete",
			"boundary-delete-vs-modify", "boundary-insert", "whole-chunk-delete", "whole-chunk-delete-vs-modify", "whole-chunk-delete-both",
			"whole-chunk-insert", "whole-chunk-insert-both-same", "whole-chunk-insert-overlap-different", "every-nth-leaf",
			"same-edit-both+whole-chunk-delete-adjacent", "same-edit-both+whole-chunk-delete-adjacent", "same-insert-both+whole-chunk-delete-adjacent"}[r.Intn(17)]
		sc.Classes[cls]++
		switch cls {
		case "boundary-update-one-side":
			emit(a, upd(a, last, col()))
		case "boundary-both-adjacent":
			emit(a, upd(a, last, col()))
			if j+1 < len(leaves) {
				emit(b, upd(b, leaves[j+1][0], col()))
			}
		case "boundary-cellwise":
			emit(a, upd(a, first, sc.Base.Cols[0]))
			emit(b, upd(b, first, sc.Base.Cols[1]))
		case "boundary-same-cell-conflict":
			c := col()
			emit(a, upd(a, last, c))
			emit(b, upd(b, last, c))
		case "boundary-delete":
			emit(a, g.deleteRow(a, first), g.deleteRow(a, last))
		case "boundary-delete-vs-modify":
			emit(a, g.deleteRow(a, last))
			emit(b, upd(b, last, col()))
		case "boundary-insert":
			emit(a, insertIfAbsent(g, a, last+1, nil))
			emit(b, insertIfAbsent(g, b, first-1, nil))
		case "whole-chunk-delete":
			emit(a, rangeDelete(a, first, last))
		case "whole-chunk-delete-vs-modify":
			emit(a, rangeDelete(a, first, last))
			mid := first + 3*((last-first)/6)
			emit(b, upd(b, mid, col()))
		case "whole-chunk-delete-both":
			emit(a, rangeDelete(a, first, last))
			if j+1 < len(leaves) && r.Intn(2) == 0 {
				emit(b, rangeDelete(b, first+3*((last-first)/6), leaves[j+1][1])) // overlapping, one and a half chunks
			} else {
				emit(b, rangeDelete(b, first, last))
			}
		case "whole-chunk-insert", "whole-chunk-insert-both-same", "whole-chunk-insert-overlap-different":
			n := 60 + r.Intn(120)
			start := hole[0] + int64(r.Intn(int(hole[1]-hole[0])-n))
			var pks []int64
			preset := map[int64]map[string]string{}
			for k := start; k < start+int64(n); k++ {
				pks = append(pks, k)
				row := map[string]string{"filler": fmt.Sprintf("n%d-%s", k, strings.Repeat("y", 150+r.Intn(60)))}
				for _, c := range sc.Base.Cols[:3] {
					row[c.Name] = g.value(c)
				}
				preset[k] = row
			}
			emit(a, batchInsert(g, a, pks, preset)...)
			switch cls {
			case "whole-chunk-insert-both-same":
				emit(b, batchInsert(g, b, pks, preset)...)
			case "whole-chunk-insert-overlap-different":
				p2 := map[int64]map[string]string{}
				half := pks[len(pks)/2:]
				for _, k := range half {
					p2[k] = cloneRow(preset[k])
					if r.Intn(3) == 0 {
						c := col()
						p2[k][c.Name] = g.otherValue(c, p2[k][c.Name])
					}
				}
				emit(b, batchInsert(g, b, half, p2)...)
			}
		case "same-edit-both+whole-chunk-delete-adjacent":
			// both sides make the identical edit inside leaf j (so both produce the same new chunk), one side also removes
			// the whole leaf before or after it
			c := col()
			k := first
			if r.Intn(2) == 0 {
				k = last
			}
			if row := sc.Base.Rows[k]; row != nil {
				set := map[string]string{c.Name: g.otherValue(c, row[c.Name])}
				emit(a, g.updateCells(a, k, set))
				emit(b, g.updateCells(b, k, set))
			}
			adj := j - 1
			if r.Intn(2) == 0 {
				adj = j + 1
			}
			if adj >= 0 && adj < len(leaves) {
				who := a
				if r.Intn(2) == 0 {
					who = b
				}
				emit(who, rangeDelete(who, leaves[adj][0], leaves[adj][1]))
			}
		case "same-insert-both+whole-chunk-delete-adjacent":
			// identical run of new rows at the start of the hole on both sides; one side also removes the leaf just before it
			n := 60 + r.Intn(120)
			var pks []int64
			preset := map[int64]map[string]string{}
			for k := hole[0]; k < hole[0]+int64(n); k++ {
				pks = append(pks, k)
				row := map[string]string{"filler": fmt.Sprintf("s%d-%s", k, strings.Repeat("z", 150+r.Intn(60)))}
				for _, c := range sc.Base.Cols[:3] {
					row[c.Name] = g.value(c)
				}
				preset[k] = row
			}
			emit(a, batchInsert(g, a, pks, preset)...)
			emit(b, batchInsert(g, b, pks, preset)...)
			for li := len(leaves) - 1; li >= 0; li-- {
				if leaves[li][1] < hole[0] {
					emit(b, rangeDelete(b, leaves[li][0], leaves[li][1]))
					break
				}
			}
		case "every-nth-leaf":
			step := 3 + r.Intn(5)
			for i := r.Intn(step); i < len(leaves); i += step {
				emit(a, upd(a, leaves[i][0], col()))
				emit(b, upd(b, leaves[i][1], col()))
			}
		}
	}
}

// ---------------------------------------------------------------------------------------------------------------

// twinResult is everything observed for one twin in one merge direction.
type twinResult struct {
	Err        string
	Paths      []bool
	MergeRow   []string // fast_forward, conflicts, message
	Rows       []string
	NConf      string
	ConfRows   []string
	DiffStat   []string
	Stats      *merge.MergeStats
	StatsErr   string
	StatsPaths []bool
}

func c30(c *rig.Ctx) {
	c.Rule("seeded twin scenarios: the same (base,left,right) rows are built in two databases; table F has only nullable columns and no " +
		"index/check (qualifies for the chunk-level merge), its twin S additionally carries a semantically neutral disqualifier (an always-true " +
		"CHECK, or a non-unique secondary index). Small cases come from the C29 generator (1..200 rows, planned per-key edit classes); large " +
		"cases have 1500-6000 ~200-byte rows (tree height >= 3, measured) with edits aimed at the measured leaf boundaries: first/last key of " +
		"a leaf, adjacent leaves edited by different sides, whole-leaf range deletes (one side, both sides, overlapping, vs a modification inside), " +
		"whole-chunk inserts of 60-180 consecutive keys into a hole of the key space (one side, both identical, overlapping with differences). " +
		"dolt_merge --no-commit runs in both directions on both twins; the verifhook merge.path event proves which path each table took. " +
		"A case is distinct/non-trivial when it is a genuine fast-vs-slow pair and its (size class, edit classes, disqualifier) signature is new")
	c.Assume("a pair counts only when merge.path reported fast for F and slow for S in that direction; other cases are counted as not-a-pair (fast-forwards, path not as intended)")
	c.Assume("from_root_ish and dolt_conflict_id of conflict rows are excluded from the comparison (they hash the commit ids, which differ between the twin databases)")
	dir := c.TempDir("c30")
	defer os.RemoveAll(dir)
	srv, err := sqlrig.Start(dir + "/data")
	rig.Must(err)
	defer srv.Stop()
	paths := &pathLog{}
	paths.install()
	l := newLimiter(c)
	cnt := newCounters()
	n := c.Pick(44, 700)
	forCases(srv, n, 6, nil, l.tooMany, func(i int, x *sqlrig.Session) {
		r := c.SubRand("c30", i)
		g := newGen(r)
		large := i%5 == 0
		disq := []string{"check", "index"}[r.Intn(2)]
		tf, ts := fmt.Sprintf("t%d_f", i), fmt.Sprintf("t%d_s", i)
		dbf, dbs := fmt.Sprintf("c30_%d_f", i), fmt.Sprintf("c30_%d_s", i)
		defer func() {
			x.Exec("use mysql")
			x.Exec("drop database `" + dbf + "`")
			x.Exec("drop database `" + dbs + "`")
		}()
		var sc *scenario
		sizeClass := "small"
		height := 0
		nleaves := 0
		if large {
			nrows := []int{4000, 1500, 6000}[(i/5)%3]
			if c.Thorough() && r.Intn(4) == 0 {
				nrows = 20000
			}
			sizeClass = fmt.Sprintf("large-%d", nrows)
			var hole [2]int64
			sc, hole = genLargeBase(r, g, tf, nrows)
			c.Case(fmt.Sprintf("c30/%d", i), map[string]any{"db": dbf, "large_rows": nrows, "disqualifier": disq, "note": "edits are generated after the base commit from the measured leaf boundaries; see the next case event"})
			if err := setupBase(x, dbf, sc.Base.createSQL(), sc.BaseSQL); err != nil {
				l.violation("c30/setup", "base setup failed: "+err.Error(), nil)
				return
			}
			ddb, err := openDoltDB(srv, dbf)
			if err != nil {
				c.Note("openDoltDB: " + err.Error())
				cnt.add("introspection_failures", 1)
				return
			}
			sh, err := tableShape(ddb, "main", tf)
			if err != nil || len(sh.Leaves) == 0 {
				c.Note(fmt.Sprintf("tableShape: %v", err))
				cnt.add("introspection_failures", 1)
				return
			}
			height, nleaves = sh.Height, len(sh.Leaves)
			genBoundaryEdits(r, g, sc, sh, hole)
		} else {
			opts := scenarioOpts{MaxRows: []int{1, 3, 20, 200}[r.Intn(4)], NCols: 1 + r.Intn(5), NullableOnly: true, ConflictBias: []float64{0.05, 0.2, 0.4}[r.Intn(3)], RandomDML: 6, Name: tf}
			sc = genScenario(r, opts)
			sizeClass = fmt.Sprintf("small<=%d", opts.MaxRows)
		}
		// the slow twin: same columns and statements, different table name, plus the disqualifier
		extra := ", check (pk > -1000000)"
		if disq == "index" {
			idxCol := ""
			for _, cd := range sc.Base.Cols {
				if cd.Kind == "int" || cd.Kind == "bigint" || (cd.Kind == "varchar" && cd.Name != "filler") {
					idxCol = cd.Name
					break
				}
			}
			if idxCol == "" {
				disq = "check"
			} else {
				extra = ", key `k_" + idxCol + "` (`" + idxCol + "`)"
			}
		}
		slow := sc.Base.clone()
		slow.Name, slow.Extra = ts, extra
		rename := func(stmts []string) []string {
			out := make([]string, len(stmts))
			for k, s := range stmts {
				out[k] = strings.Replace(s, "`"+tf+"`", "`"+ts+"`", 1)
			}
			return out
		}
		payload := sc.payload(dbf)
		payload["twin_create"] = slow.createSQL()
		payload["disqualifier"] = disq
		if large {
			payload["base"] = fmt.Sprintf("(%d multi-row inserts, keys 3*i with a hole; see genLargeBase)", len(sc.BaseSQL))
			payload["tree_height"], payload["leaves"] = height, nleaves
		}
		c.Case(fmt.Sprintf("c30/%d", i), payload)
		var err error
		if large {
			err = setupSides(x, sc.LeftSQL, sc.RightSQL)
		} else {
			err = setupScenario(x, dbf, sc)
		}
		if err != nil {
			l.violation("c30/setup", "setup of the fast twin failed: "+err.Error(), payload)
			return
		}
		if err := setupBase(x, dbs, slow.createSQL(), rename(sc.BaseSQL)); err == nil {
			err = setupSides(x, rename(sc.LeftSQL), rename(sc.RightSQL))
		}
		if err != nil {
			l.violation("c30/setup", "setup of the slow twin failed: "+err.Error(), payload)
			return
		}
		model := modelMerge(sc.Base, sc.Left, sc.Right)
		genuine := 0
		for _, d := range []struct{ name, into, from, ours, theirs string }{{"left<-right", "ml", "other", "main", "other"}, {"right<-left", "mr", "main", "other", "main"}} {
			rf := observeTwin(x, srv, paths, dbf, tf, d.into, d.from, d.ours, d.theirs)
			rs := observeTwin(x, srv, paths, dbs, ts, d.into, d.from, d.ours, d.theirs)
			cnt.add("twin_merges", 1)
			w := map[string]any{"direction": d.name, "scenario": payload, "fast_twin": summarize(rf), "slow_twin": summarize(rs)}
			if rf.Err != "" || rs.Err != "" {
				if rf.Err == "" || rs.Err == "" {
					which := "fast"
					if rs.Err != "" {
						which = "slow"
					}
					l.violation("c30/error-only-on-"+which+"-path", fmt.Sprintf("dolt_merge failed on one twin only: fast=%q slow=%q", truncate(rf.Err, 200), truncate(rs.Err, 200)), w)
				} else {
					cnt.add("both_twins_failed", 1)
				}
				continue
			}
			if len(rf.Paths) == 0 && len(rs.Paths) == 0 {
				cnt.add("not_a_pair.no_three_way_merge", 1) // fast-forward or nothing to merge
				if strings.Join(rf.Rows, "\n") != strings.Join(rs.Rows, "\n") {
					l.violation("c30/rows-differ/no-three-way-merge", "twins differ although neither took a merge path", w)
				}
				continue
			}
			if !(len(rf.Paths) == 1 && rf.Paths[0] && len(rs.Paths) == 1 && !rs.Paths[0]) {
				cnt.add("not_a_pair.path_not_as_intended", 1)
				c.Note(fmt.Sprintf("paths not as intended: fast twin %v slow twin %v (disqualifier %s)", rf.Paths, rs.Paths, disq))
				continue
			}
			genuine++
			cnt.add("genuine_fast_vs_slow_pairs", 1)
			cnt.add("pairs."+disq, 1)
			if large {
				cnt.add("pairs.large", 1)
				if height >= 3 {
					cnt.add("pairs.tree_height>=3", 1)
				}
			}
			if rf.NConf != "0" {
				cnt.add("pairs.with_conflicts", 1)
			}
			if strings.Join(rf.Rows, "\n") != strings.Join(rs.Rows, "\n") {
				w["row_diff"] = firstDiffs(rf.Rows, rs.Rows, 6)
				l.violation("c30/rows-differ", fmt.Sprintf("merged rows differ between the fast-path table (%d rows) and its slow-path twin (%d rows)", len(rf.Rows), len(rs.Rows)), w)
			}
			if strings.Join(rf.ConfRows, "\n") != strings.Join(rs.ConfRows, "\n") {
				w["conflict_diff"] = firstDiffs(rf.ConfRows, rs.ConfRows, 6)
				l.violation("c30/conflict-rows-differ", fmt.Sprintf("conflict rows differ between the twins (%d vs %d)", len(rf.ConfRows), len(rs.ConfRows)), w)
			}
			if rf.NConf != rs.NConf {
				l.violation("c30/conflict-count-differs", fmt.Sprintf("dolt_conflicts.num_conflicts: fast %s, slow %s", rf.NConf, rs.NConf), w)
			}
			if strings.Join(rf.MergeRow, "|") != strings.Join(rs.MergeRow, "|") {
				l.violation("c30/merge-result-differs", fmt.Sprintf("dolt_merge returned (fast_forward, conflicts, message) = %v on the fast path, %v on the slow path", rf.MergeRow, rs.MergeRow), w)
			}
			if strings.Join(rf.DiffStat, "|") != strings.Join(rs.DiffStat, "|") {
				l.violation("c30/diff-stat-differs", fmt.Sprintf("dolt_diff_stat(HEAD, WORKING) after the merge: fast %v, slow %v", rf.DiffStat, rs.DiffStat), w)
			}
			// merge.MergeStats as returned by the Go API for the same inputs
			switch {
			case rf.StatsErr != "" || rs.StatsErr != "":
				cnt.add("internal_stats_unavailable", 1)
				c.Note("internal stats unavailable: " + truncate(rf.StatsErr+" / "+rs.StatsErr, 200))
			case !(len(rf.StatsPaths) == 1 && rf.StatsPaths[0] && len(rs.StatsPaths) == 1 && !rs.StatsPaths[0]):
				cnt.add("internal_stats_path_not_as_intended", 1)
			default:
				cnt.add("internal_stats_pairs", 1)
				a, b := rf.Stats, rs.Stats
				if a.Operation != b.Operation || a.DataConflicts != b.DataConflicts || a.SchemaConflicts != b.SchemaConflicts || a.ConstraintViolations != b.ConstraintViolations || a.RootObjectConflicts != b.RootObjectConflicts {
					l.violation("c30/merge-stats-differ/conflict-counters", fmt.Sprintf("merge.MergeStats: fast %+v, slow %+v", *a, *b), w)
				}
				if a.Adds != b.Adds || a.Deletes != b.Deletes || a.Modifications != b.Modifications {
					l.violation("c30/merge-stats-differ/row-counters", fmt.Sprintf("merge.MergeStats row counters: fast path {Adds:%d Deletes:%d Modifications:%d}, row-by-row path {Adds:%d Deletes:%d Modifications:%d}",
						a.Adds, a.Deletes, a.Modifications, b.Adds, b.Deletes, b.Modifications), w)
				}
			}
		}
		if genuine > 0 {
			var cl []string
			for k := range sc.Classes {
				cl = append(cl, k)
			}
			sort.Strings(cl)
			c.Distinct(fmt.Sprintf("%s/%s/%v/conflicts=%v", sizeClass, disq, cl, len(model.Conflicts) > 0))
			c.Sample(map[string]any{"size": sizeClass, "base_rows": len(sc.Base.Rows), "tree_height": height, "leaves": nleaves, "disqualifier": disq, "classes": sc.Classes,
				"left_statements": len(sc.LeftSQL), "right_statements": len(sc.RightSQL), "model_conflicts": len(model.Conflicts), "cellwise_rows": model.Cellwise})
		}
		cnt.add("model_conflicts", len(model.Conflicts))
		cnt.add("model_cellwise_rows", model.Cellwise)
		for k, v := range sc.Classes {
			if large {
				cnt.add("class."+k, v)
			}
		}
	})
	cnt.add("suppressed_repeat_violations", l.suppressedCount())
	cnt.flush(c, "c30.")
	c.Require(cnt.get("genuine_fast_vs_slow_pairs") > 0, "no genuine fast-vs-slow pair (merge.path = fast and = slow on the same input)")
	c.Require(cnt.get("pairs.with_conflicts") > 0, "no genuine pair produced conflicts")
	c.Require(cnt.get("pairs.tree_height>=3") > 0, "no genuine pair on a table of tree height >= 3")
	c.Require(cnt.get("pairs.check") > 0 && cnt.get("pairs.index") > 0, "a disqualifier kind was never part of a genuine pair")
	c.Require(cnt.sumPrefix("class.whole-chunk-delete") > 0 && cnt.sumPrefix("class.whole-chunk-insert") > 0, "no whole-chunk insert / delete was generated")
	c.Require(cnt.sumPrefix("class.same-edit-both") > 0, "no identical-chunk-on-both-sides next to a whole-chunk delete was generated")
}

// observeTwin merges (--no-commit) on one twin and collects everything that is compared.
func observeTwin(x *sqlrig.Session, srv *sqlrig.Server, paths *pathLog, db, table, into, from, ours, theirs string) *twinResult {
	res := &twinResult{NConf: "0"}
	if err := execAll(x, "use `"+db+"`", "call dolt_checkout('"+into+"')", "set autocommit = 0", "start transaction"); err != nil {
		res.Err = "harness: " + err.Error()
		return res
	}
	paths.take(table)
	mr, err := x.Query("call dolt_merge('--no-commit', '" + from + "')")
	res.Paths = paths.take(table)
	func() {
		defer execAll(x, "rollback", "set autocommit = 1")
		if err != nil {
			res.Err = err.Error()
			return
		}
		if len(mr.Data) == 1 && len(mr.Data[0]) >= 4 {
			res.MergeRow = mr.Data[0][1:]
		}
		rows, err := x.Query("select * from `" + table + "` order by pk")
		if err != nil {
			res.Err = "read: " + err.Error()
			return
		}
		res.Rows = rows.Strings()
		nc, err := x.Query("select num_conflicts from dolt_conflicts where `table` = '" + table + "'")
		if err != nil {
			res.Err = "dolt_conflicts: " + err.Error()
			return
		}
		if len(nc.Data) > 0 {
			res.NConf = nc.Data[0][0]
			cr, err := x.Query("select * from `dolt_conflicts_" + table + "`")
			if err != nil {
				res.Err = "dolt_conflicts_t: " + err.Error()
				return
			}
			for _, r := range cr.Data {
				var keep []string
				for k, col := range cr.Cols {
					if col != "from_root_ish" && col != "dolt_conflict_id" {
						keep = append(keep, r[k])
					}
				}
				res.ConfRows = append(res.ConfRows, strings.Join(keep, "\x1f"))
			}
			sort.Strings(res.ConfRows)
		}
		ds, err := x.Query("select rows_unmodified, rows_added, rows_deleted, rows_modified, cells_added, cells_deleted, cells_modified, old_row_count, new_row_count from dolt_diff_stat('HEAD', 'WORKING', '" + table + "')")
		if err != nil {
			res.DiffStat = []string{"error: " + err.Error()}
		} else if len(ds.Data) > 0 {
			res.DiffStat = ds.Data[0]
		}
	}()
	// Go-level statistics of the same merge (read-only)
	if ddb, err := openDoltDB(srv, db); err != nil {
		res.StatsErr = err.Error()
	} else {
		paths.take(table)
		st, err := internalMergeStats(ddb, ours, theirs, table)
		res.StatsPaths = paths.take(table)
		if err != nil {
			res.StatsErr = err.Error()
		} else {
			res.Stats = st
		}
	}
	return res
}

func summarize(t *twinResult) map[string]any {
	m := map[string]any{"paths_fast": t.Paths, "merge_result": t.MergeRow, "rows": len(t.Rows), "num_conflicts": t.NConf, "diff_stat": t.DiffStat}
	if t.Err != "" {
		m["error"] = truncate(t.Err, 600)
	}
	if t.Stats != nil {
		m["merge_stats"] = fmt.Sprintf("%+v", *t.Stats)
	}
	return m
}

// firstDiffs lists the first few elements present in only one of two sorted-or-ordered string lists.
func firstDiffs(a, b []string, n int) []string {
	inA, inB := map[string]int{}, map[string]int{}
	for _, s := range a {
		inA[s]++
	}
	for _, s := range b {
		inB[s]++
	}
	var out []string
	for _, s := range a {
		if inB[s] == 0 && len(out) < n {
			out = append(out, "only fast: "+strings.ReplaceAll(truncate(s, 200), "\x1f", " | "))
		}
	}
	for _, s := range b {
		if inA[s] == 0 && len(out) < 2*n {
			out = append(out, "only slow: "+strings.ReplaceAll(truncate(s, 200), "\x1f", " | "))
		}
	}
	return out
}
