package vmerge

import (
	"fmt"
	"math/rand"
	"sort"
	"strings"
	"time"

	"verif/sqlrig"
)

// Null is the rendering of SQL NULL in model cells (same as sqlrig.Null).
const Null = sqlrig.Null

// colDef is a non-key column of a model table. Cells are stored as the text the server prints for them.
type colDef struct {
	Name    string
	Kind    string // int | bigint | varchar | decimal | datetime | json
	Type    string // SQL type text, e.g. "varchar(40) collate utf8mb4_0900_ai_ci"
	NotNull bool
	Default string // model rendering of the default value; Null when the column has no default (implicit NULL)
}

// DDL renders the column definition.
func (c colDef) DDL() string {
	s := "`" + c.Name + "` " + c.Type
	if c.NotNull {
		s += " not null"
	}
	if c.Default != Null {
		s += " default " + sqlrig.SQLLit(c.Default)
	}
	return s
}

// mtable is the model of a keyed table: BIGINT primary key `pk` plus Cols. Rows map pk -> column name -> cell.
type mtable struct {
	Name string
	Cols []colDef
	Rows map[int64]map[string]string
	// Extra is appended inside the CREATE TABLE parentheses (", check (...)", ", key k(c0)") — semantically neutral
	// decorations used by the C30 twins.
	Extra string
}

func (t *mtable) clone() *mtable {
	n := &mtable{Name: t.Name, Cols: append([]colDef(nil), t.Cols...), Rows: make(map[int64]map[string]string, len(t.Rows)), Extra: t.Extra}
	for k, r := range t.Rows {
		n.Rows[k] = cloneRow(r)
	}
	return n
}

func cloneRow(r map[string]string) map[string]string {
	if r == nil {
		return nil
	}
	n := make(map[string]string, len(r))
	for k, v := range r {
		n[k] = v
	}
	return n
}

func (t *mtable) col(name string) (colDef, bool) {
	for _, c := range t.Cols {
		if c.Name == name {
			return c, true
		}
	}
	return colDef{}, false
}

func (t *mtable) colNames() []string {
	out := make([]string, len(t.Cols))
	for i, c := range t.Cols {
		out[i] = c.Name
	}
	return out
}

func (t *mtable) createSQL() string {
	var b strings.Builder
	fmt.Fprintf(&b, "create table `%s` (pk bigint primary key", t.Name)
	for _, c := range t.Cols {
		b.WriteString(", " + c.DDL())
	}
	b.WriteString(t.Extra + ")")
	return b.String()
}

func (t *mtable) pks() []int64 {
	out := make([]int64, 0, len(t.Rows))
	for k := range t.Rows {
		out = append(out, k)
	}
	sort.Slice(out, func(i, j int) bool { return out[i] < out[j] })
	return out
}

// renderRow renders a row over the given column names like Rows.Sorted() renders "select pk, cols... from t".
func renderRow(pk int64, row map[string]string, cols []string) string {
	parts := make([]string, 0, len(cols)+1)
	parts = append(parts, fmt.Sprint(pk))
	for _, c := range cols {
		parts = append(parts, row[c])
	}
	return strings.Join(parts, "\x1f")
}

func (t *mtable) sortedRows(cols []string) []string {
	out := make([]string, 0, len(t.Rows))
	for pk, r := range t.Rows {
		out = append(out, renderRow(pk, r, cols))
	}
	sort.Strings(out)
	return out
}

func selectSQL(table string, cols []string) string {
	q := "select pk"
	for _, c := range cols {
		q += ", `" + c + "`"
	}
	return q + " from `" + table + "`"
}

// ---------------------------------------------------------------------------------------------------------------
// value and schema generation

type gen struct {
	R    *rand.Rand
	next int64
	json bool // JSON columns allowed
}

func newGen(r *rand.Rand) *gen { return &gen{R: r, next: 1000} }

var t0 = time.Date(2021, 3, 4, 5, 6, 7, 0, time.UTC)

// rawValue returns a fresh, globally unique, non-NULL value of the column's kind.
func (g *gen) rawValue(c colDef) string {
	g.next++
	n := g.next
	switch c.Kind {
	case "int":
		return fmt.Sprint(n)
	case "bigint":
		return fmt.Sprint(5_000_000_000 + n)
	case "decimal":
		return fmt.Sprintf("%d.%02d", n, n%100)
	case "datetime":
		return t0.Add(time.Duration(n) * time.Second).Format("2006-01-02 15:04:05")
	case "json":
		return fmt.Sprintf(`{"k":%d}`, n)
	default:
		switch g.R.Intn(8) {
		case 0:
			return fmt.Sprintf("v'%d", n) // needs quoting
		case 1:
			return fmt.Sprintf("é%d", n)
		case 2:
			return fmt.Sprintf("V %d", n)
		}
		return fmt.Sprintf("v%d", n)
	}
}

// value returns a fresh value, occasionally NULL for nullable columns.
func (g *gen) value(c colDef) string {
	if !c.NotNull && g.R.Intn(10) == 0 {
		return Null
	}
	return g.rawValue(c)
}

// otherValue returns a fresh value different from cur (so NULL -> non-NULL).
func (g *gen) otherValue(c colDef, cur string) string {
	v := g.value(c)
	if v == cur {
		v = g.rawValue(c)
	}
	return v
}

// newCol makes a column of a random kind. name must be unique in the table.
func (g *gen) newCol(name string) colDef {
	kinds := []string{"int", "varchar", "int", "varchar", "decimal", "datetime", "bigint", "varchar"}
	if g.json {
		kinds = append(kinds, "json")
	}
	c := colDef{Name: name, Kind: kinds[g.R.Intn(len(kinds))], Default: Null}
	switch c.Kind {
	case "int":
		c.Type = "int"
	case "bigint":
		c.Type = "bigint"
	case "decimal":
		c.Type = "decimal(14,2)"
	case "datetime":
		c.Type = "datetime"
	case "json":
		c.Type = "json"
	case "varchar":
		c.Type = []string{"varchar(40)", "varchar(40) collate utf8mb4_0900_ai_ci", "varchar(30) collate utf8mb4_bin", "varchar(40)"}[g.R.Intn(4)]
	}
	if c.Kind != "json" {
		switch g.R.Intn(6) {
		case 0:
			c.NotNull = true
			c.Default = g.rawValue(c)
		case 1:
			c.Default = g.rawValue(c)
		}
	}
	return c
}

// newTable makes an empty table with ncols columns c0..c(n-1). When nullableOnly is set no column is NOT NULL (the
// chunk-level fast merge path requires that).
func (g *gen) newTable(name string, ncols int, nullableOnly bool) *mtable {
	t := &mtable{Name: name, Rows: map[int64]map[string]string{}}
	for i := 0; i < ncols; i++ {
		c := g.newCol(fmt.Sprintf("c%d", i))
		if nullableOnly {
			c.NotNull = false
		}
		t.Cols = append(t.Cols, c)
	}
	return t
}

// ---------------------------------------------------------------------------------------------------------------
// DML against the model (every function mutates the model and returns the statement that does the same in SQL)

func (g *gen) insertRow(t *mtable, pk int64, preset map[string]string) string {
	row := map[string]string{}
	names := []string{"pk"}
	lits := []string{fmt.Sprint(pk)}
	for _, c := range t.Cols {
		v, ok := preset[c.Name]
		if !ok {
			if c.Default != Null && g.R.Intn(4) == 0 {
				row[c.Name] = c.Default // column omitted: the default applies
				continue
			}
			v = g.value(c)
		}
		if v == Null && c.NotNull {
			v = g.rawValue(c)
		}
		row[c.Name] = v
		names = append(names, "`"+c.Name+"`")
		lits = append(lits, sqlrig.SQLLit(v))
	}
	t.Rows[pk] = row
	return fmt.Sprintf("insert into `%s` (%s) values (%s)", t.Name, strings.Join(names, ", "), strings.Join(lits, ", "))
}

// updateCells sets the given cells of row pk (which must exist). Columns that no longer exist are skipped; returns ""
// when nothing is left to do.
func (g *gen) updateCells(t *mtable, pk int64, set map[string]string) string {
	row := t.Rows[pk]
	if row == nil {
		return ""
	}
	var names []string
	for n := range set {
		if _, ok := t.col(n); ok {
			names = append(names, n)
		}
	}
	if len(names) == 0 {
		return ""
	}
	sort.Strings(names)
	var sets []string
	for _, n := range names {
		c, _ := t.col(n)
		v := set[n]
		if v == Null && c.NotNull {
			v = g.rawValue(c)
		}
		row[n] = v
		sets = append(sets, fmt.Sprintf("`%s` = %s", n, sqlrig.SQLLit(v)))
	}
	return fmt.Sprintf("update `%s` set %s where pk = %d", t.Name, strings.Join(sets, ", "), pk)
}

func (g *gen) deleteRow(t *mtable, pk int64) string {
	if _, ok := t.Rows[pk]; !ok {
		return ""
	}
	delete(t.Rows, pk)
	return fmt.Sprintf("delete from `%s` where pk = %d", t.Name, pk)
}

// randomDML performs one random insert / update / delete over the key pool.
func (g *gen) randomDML(t *mtable, keyPool int) string {
	pk := int64(g.R.Intn(keyPool))
	row, exists := t.Rows[pk]
	switch {
	case !exists:
		return g.insertRow(t, pk, nil)
	case len(t.Cols) > 0 && g.R.Intn(3) != 0:
		n := 1
		if len(t.Cols) > 1 && g.R.Intn(3) == 0 {
			n = 1 + g.R.Intn(len(t.Cols))
		}
		set := map[string]string{}
		for _, i := range g.R.Perm(len(t.Cols))[:n] {
			c := t.Cols[i]
			set[c.Name] = g.otherValue(c, row[c.Name])
		}
		return g.updateCells(t, pk, set)
	default:
		return g.deleteRow(t, pk)
	}
}

// ---------------------------------------------------------------------------------------------------------------
// schema changes

// schemaOp applies one random schema change to the model and returns the ALTER statement and a class label.
func (g *gen) schemaOp(t *mtable, seq int) (string, string) {
	for tries := 0; tries < 20; tries++ {
		switch g.R.Intn(7) {
		case 0, 1, 2: // ADD COLUMN first / middle / last, with / without default
			c := g.newCol(fmt.Sprintf("n%d", seq))
			pos := g.R.Intn(3)
			if len(t.Cols) == 0 {
				pos = 2
			}
			ddl := fmt.Sprintf("alter table `%s` add column %s", t.Name, c.DDL())
			label := "add-last"
			switch pos {
			case 0:
				ddl += " first"
				label = "add-first"
				t.Cols = append([]colDef{c}, t.Cols...)
			case 1:
				i := g.R.Intn(len(t.Cols))
				ddl += " after `" + t.Cols[i].Name + "`"
				label = "add-middle"
				if i == len(t.Cols)-1 {
					label = "add-last"
				}
				t.Cols = append(t.Cols[:i+1], append([]colDef{c}, t.Cols[i+1:]...)...)
			default:
				t.Cols = append(t.Cols, c)
			}
			if c.Default != Null {
				label += "-default"
			}
			for _, r := range t.Rows {
				r[c.Name] = c.Default
			}
			return ddl, label
		case 3: // DROP COLUMN
			if len(t.Cols) < 2 {
				continue
			}
			i := g.R.Intn(len(t.Cols))
			name := t.Cols[i].Name
			t.Cols = append(t.Cols[:i], t.Cols[i+1:]...)
			for _, r := range t.Rows {
				delete(r, name)
			}
			return fmt.Sprintf("alter table `%s` drop column `%s`", t.Name, name), "drop"
		case 4: // reorder: MODIFY ... AFTER / FIRST
			if len(t.Cols) < 2 {
				continue
			}
			i := g.R.Intn(len(t.Cols))
			c := t.Cols[i]
			rest := append(append([]colDef(nil), t.Cols[:i]...), t.Cols[i+1:]...)
			j := g.R.Intn(len(rest) + 1) // new position
			if j == i {
				continue
			}
			ddl := fmt.Sprintf("alter table `%s` modify column %s", t.Name, c.DDL())
			if j == 0 {
				ddl += " first"
			} else {
				ddl += " after `" + rest[j-1].Name + "`"
			}
			t.Cols = append(append(append([]colDef(nil), rest[:j]...), c), rest[j:]...)
			return ddl, "reorder"
		case 5: // widen VARCHAR(n) -> VARCHAR(m)
			var idx []int
			for i, c := range t.Cols {
				if c.Kind == "varchar" && !strings.Contains(c.Type, "(120)") {
					idx = append(idx, i)
				}
			}
			if len(idx) == 0 {
				continue
			}
			i := idx[g.R.Intn(len(idx))]
			c := t.Cols[i]
			open, close := strings.Index(c.Type, "("), strings.Index(c.Type, ")")
			c.Type = c.Type[:open] + "(120)" + c.Type[close+1:]
			t.Cols[i] = c
			return fmt.Sprintf("alter table `%s` modify column %s", t.Name, c.DDL()), "widen-varchar"
		case 6: // widen INT -> BIGINT
			var idx []int
			for i, c := range t.Cols {
				if c.Kind == "int" {
					idx = append(idx, i)
				}
			}
			if len(idx) == 0 {
				continue
			}
			i := idx[g.R.Intn(len(idx))]
			c := t.Cols[i]
			c.Kind, c.Type = "bigint", "bigint"
			t.Cols[i] = c
			return fmt.Sprintf("alter table `%s` modify column %s", t.Name, c.DDL()), "widen-int"
		}
	}
	return "", ""
}

// ---------------------------------------------------------------------------------------------------------------
// the three-way merge model (DESIGN §3.5), generalised to a one-sided schema change

type mconflict struct {
	PK                 int64
	Base, Ours, Theirs map[string]string // nil = absent; Ours is rendered in the merged schema
}

type mergeOut struct {
	Cols      []colDef // merged schema: ours' columns that theirs did not drop, then theirs' new columns
	BaseCols  []string
	TheirCols []string
	Rows      map[int64]map[string]string // expected merged table ("ours" kept for conflicting rows)
	Conflicts map[int64]*mconflict
	// Unspec lists keys whose outcome the property statement does not define (a cell modified on one side in a column
	// dropped on the other): only "no internal failure" is asserted for them.
	Unspec map[int64]string
	// For an Unspec key both outcomes are spelled out: either dolt records a conflict (UnspecConflict; the table keeps
	// ours) or it does not, and then every remaining cell must be the cell-wise merge (UnspecClean, nil = row absent).
	// UnspecMustConflict: the remaining cells clash by themselves, so a conflict is required.
	UnspecConflict     map[int64]*mconflict
	UnspecClean        map[int64]map[string]string
	UnspecMustConflict map[int64]bool
	// AddedColVsDelete lists keys deleted on one side whose only modification on the other side is in a column that side
	// added: the statement says "conflict" (a deleted row was modified); reported under its own key.
	AddedColVsDelete map[int64]bool
	Cellwise         int // rows modified on both sides and combined cell by cell
	Convergent       int // rows / cells on which both sides made the same change
	DeleteModify     int
}

func hasCol(cols []colDef, name string) (colDef, bool) {
	for _, c := range cols {
		if c.Name == name {
			return c, true
		}
	}
	return colDef{}, false
}

// modelMerge computes the expected result of merging theirs into ours with common ancestor base.
func modelMerge(base, ours, theirs *mtable) *mergeOut {
	out := &mergeOut{Rows: map[int64]map[string]string{}, Conflicts: map[int64]*mconflict{}, Unspec: map[int64]string{}, AddedColVsDelete: map[int64]bool{},
		UnspecConflict: map[int64]*mconflict{}, UnspecClean: map[int64]map[string]string{}, UnspecMustConflict: map[int64]bool{},
		BaseCols: base.colNames(), TheirCols: theirs.colNames()}
	// merged schema
	for _, c := range ours.Cols {
		_, inB := base.col(c.Name)
		tc, inT := theirs.col(c.Name)
		if inB && !inT {
			continue // dropped by theirs
		}
		if inB && inT {
			bc, _ := base.col(c.Name)
			if c == bc {
				c = tc // theirs may have widened it
			}
		}
		out.Cols = append(out.Cols, c)
	}
	for _, c := range theirs.Cols {
		_, inB := base.col(c.Name)
		_, inO := ours.col(c.Name)
		if !inB && !inO {
			out.Cols = append(out.Cols, c)
		}
	}
	inBase := func(n string) bool { _, ok := base.col(n); return ok }
	inOurs := func(n string) bool { _, ok := ours.col(n); return ok }
	inTheirs := func(n string) bool { _, ok := theirs.col(n); return ok }
	// migrate renders a row of side tbl in the merged schema (missing columns take the column default).
	migrate := func(row map[string]string, has func(string) bool) map[string]string {
		if row == nil {
			return nil
		}
		m := map[string]string{}
		for _, c := range out.Cols {
			if has(c.Name) {
				m[c.Name] = row[c.Name]
			} else {
				m[c.Name] = c.Default
			}
		}
		return m
	}
	// changed reports whether side row differs from base in a base column that both that side and the OTHER side still
	// have ("common"), in a base column the other side dropped ("dropped"), or in a column the side itself added ("added").
	type chg struct{ common, dropped, added bool }
	changed := func(b, row map[string]string, side *mtable, otherHas func(string) bool) chg {
		var c chg
		for _, col := range side.Cols {
			if inBase(col.Name) {
				if row[col.Name] != b[col.Name] {
					if otherHas(col.Name) {
						c.common = true
					} else {
						c.dropped = true
					}
				}
			} else if row[col.Name] != col.Default {
				c.added = true
			}
		}
		return c
	}
	keys := map[int64]bool{}
	for k := range base.Rows {
		keys[k] = true
	}
	for k := range ours.Rows {
		keys[k] = true
	}
	for k := range theirs.Rows {
		keys[k] = true
	}
	for k := range keys {
		b, o, t := base.Rows[k], ours.Rows[k], theirs.Rows[k]
		mo := migrate(o, inOurs)
		conflict := func() {
			out.Conflicts[k] = &mconflict{PK: k, Base: b, Ours: mo, Theirs: t}
			if mo != nil {
				out.Rows[k] = mo
			}
		}
		switch {
		case b == nil && o == nil && t == nil:
		case b == nil && t == nil:
			out.Rows[k] = mo
		case b == nil && o == nil:
			out.Rows[k] = migrate(t, inTheirs)
		case b == nil: // inserted on both sides
			m := map[string]string{}
			clash := false
			for _, c := range out.Cols {
				switch {
				case inOurs(c.Name) && inTheirs(c.Name):
					if o[c.Name] != t[c.Name] {
						clash = true
					}
					m[c.Name] = o[c.Name]
				case inOurs(c.Name):
					m[c.Name] = o[c.Name]
				default:
					m[c.Name] = t[c.Name]
				}
			}
			if clash {
				conflict()
			} else {
				out.Rows[k] = m
				out.Convergent++
			}
		case o == nil && t == nil: // deleted on both sides
			out.Convergent++
		case o == nil: // ours deleted
			c := changed(b, t, theirs, inOurs)
			switch {
			case c.common:
				out.DeleteModify++
				conflict()
			case c.dropped:
				out.Unspec[k] = "ours deleted the row and dropped a column whose cell theirs modified"
				out.UnspecConflict[k] = &mconflict{PK: k, Base: b, Ours: nil, Theirs: t}
			case c.added:
				out.AddedColVsDelete[k] = true
			}
		case t == nil: // theirs deleted
			c := changed(b, o, ours, inTheirs)
			switch {
			case c.common:
				out.DeleteModify++
				conflict()
			case c.dropped:
				out.Unspec[k] = "theirs deleted the row and dropped a column whose cell ours modified"
				out.UnspecConflict[k] = &mconflict{PK: k, Base: b, Ours: mo, Theirs: nil}
			case c.added:
				out.AddedColVsDelete[k] = true
			}
		default: // present on all three
			co, ct := changed(b, o, ours, inTheirs), changed(b, t, theirs, inOurs)
			unspec := co.dropped || ct.dropped
			m := map[string]string{}
			clash, tookO, tookT, same := false, false, false, false
			for _, c := range out.Cols {
				n := c.Name
				switch {
				case inBase(n): // in the merged schema and in base => on both sides
					switch {
					case o[n] == t[n]:
						m[n] = o[n]
						if o[n] != b[n] {
							same = true
						}
					case t[n] == b[n]:
						m[n] = o[n]
						tookO = true
					case o[n] == b[n]:
						m[n] = t[n]
						tookT = true
					default:
						clash = true
					}
				case inOurs(n):
					m[n] = o[n]
				default:
					m[n] = t[n]
				}
			}
			switch {
			case unspec:
				out.Unspec[k] = "a cell was modified on one side in a column dropped on the other"
				out.UnspecConflict[k] = &mconflict{PK: k, Base: b, Ours: mo, Theirs: t}
				if clash {
					out.UnspecMustConflict[k] = true
				} else {
					out.UnspecClean[k] = m
				}
			case clash:
				conflict()
			default:
				out.Rows[k] = m
				if tookO && tookT {
					out.Cellwise++
				}
				if same {
					out.Convergent++
				}
			}
		}
	}
	return out
}

func (m *mergeOut) colNames() []string {
	out := make([]string, len(m.Cols))
	for i, c := range m.Cols {
		out[i] = c.Name
	}
	return out
}

func diffType(base, side map[string]string) string {
	switch {
	case base == nil:
		return "added"
	case side == nil:
		return "removed"
	}
	return "modified"
}

// conflictSelect is the column list read from dolt_conflicts_<t>, and renderConflict the model's rendering of one row.
func (m *mergeOut) conflictSelect(table string) string {
	cols := []string{"base_pk"}
	for _, c := range m.BaseCols {
		cols = append(cols, "`base_"+c+"`")
	}
	cols = append(cols, "our_pk")
	for _, c := range m.Cols {
		cols = append(cols, "`our_"+c.Name+"`")
	}
	cols = append(cols, "our_diff_type", "their_pk")
	for _, c := range m.TheirCols {
		cols = append(cols, "`their_"+c+"`")
	}
	cols = append(cols, "their_diff_type")
	return "select " + strings.Join(cols, ", ") + " from `dolt_conflicts_" + table + "`"
}

func (m *mergeOut) renderConflict(cf *mconflict) string {
	var parts []string
	put := func(row map[string]string, cols []string) {
		if row == nil {
			parts = append(parts, Null)
			for range cols {
				parts = append(parts, Null)
			}
			return
		}
		parts = append(parts, fmt.Sprint(cf.PK))
		for _, c := range cols {
			parts = append(parts, row[c])
		}
	}
	put(cf.Base, m.BaseCols)
	put(cf.Ours, m.colNames())
	parts = append(parts, diffType(cf.Base, cf.Ours))
	put(cf.Theirs, m.TheirCols)
	parts = append(parts, diffType(cf.Base, cf.Theirs))
	return strings.Join(parts, "\x1f")
}

// conflictPK extracts the key of a rendered / fetched conflict row (base_pk, our_pk or their_pk, whichever is set).
func conflictPK(fields []string, nBase, nOurs int) string {
	for _, i := range []int{0, 1 + nBase, 1 + nBase + 1 + nOurs + 1} {
		if i < len(fields) && fields[i] != Null {
			return fields[i]
		}
	}
	return "?"
}

func sortedKeys[V any](m map[int64]V) []int64 {
	out := make([]int64, 0, len(m))
	for k := range m {
		out = append(out, k)
	}
	sort.Slice(out, func(i, j int) bool { return out[i] < out[j] })
	return out
}
