// Package vmerge holds the SQL-level merge monitors (C29, C30, C43).
package vmerge

import (
	"fmt"
	"os"

	"verif/rig"
	"verif/sqlrig"
)

// c29 — stage "merge": identical schemas on both sides. dolt_merge in both directions vs the cell-wise model.
func c29(c *rig.Ctx) { c29run(c, false) }

// c29schema — stage "schema": one side additionally applies 1-2 schema changes (ADD COLUMN first/middle/last with or
// without default, DROP COLUMN, reorder, widening) interleaved with its row edits.
func c29schema(c *rig.Ctx) { c29run(c, true) }

func c29run(c *rig.Ctx, schema bool) {
	stage, prefix := "merge", "c29/merge"
	if schema {
		stage, prefix = "schema", "c29/schema"
	}
	c.Rule("seeded (base,left,right) single-table scenarios: 1-6 non-key columns of mixed types (int, bigint, decimal, datetime, varchar with " +
		"collations, json; nullable / NOT NULL with defaults), 0..200 base rows; per key a planned edit class (cell-wise combinable, same cell " +
		"same value, same cell different values, convergent update/insert/delete, delete-vs-modify, delete-vs-no-op rewrite, update-then-revert, " +
		"delete+reinsert, divergent inserts) plus unstructured DML over a small shared key pool; stage `schema` adds 1-2 one-sided schema changes " +
		"(ADD COLUMN first/middle/last with/without default, DROP COLUMN, MODIFY..AFTER/FIRST, VARCHAR and INT widening) at random points of that " +
		"side's script. dolt_merge runs over the wire in both directions on scratch branches; merged rows (by column name), merged column set, " +
		"dolt_conflicts / dolt_conflicts_t rows and diff types are compared with the cell-wise three-way model, and the two directions with " +
		"each other. A case is distinct/non-trivial when its (columns, base rows, planned classes, schema ops) signature is new and both sides changed something")
	c.Assume("keys whose outcome the statement leaves undefined (a cell modified on one side in a column dropped on the other) are only checked for absence of internal failure")
	c.Assume("a clean user-level refusal of a schema-changing merge (schema conflict reported through dolt_schema_conflicts, or an error carrying dolt's schema-conflict wording) is not a violation; it is counted per schema operation. Any other error of dolt_merge is a violation")
	c.Assume("JSON cells are compared as printed; dolt_dont_merge_json=1 (JSON auto-merge is C17's subject)")
	dir := c.TempDir("c29" + stage)
	defer os.RemoveAll(dir)
	srv, err := sqlrig.Start(dir + "/data")
	rig.Must(err)
	defer srv.Stop()
	l := newLimiter(c)
	n := c.Pick(80, 1000)
	cnt := newCounters()
	forCases(srv, n, 8, []string{"set @@dolt_dont_merge_json = 1"}, l.tooMany, func(i int, x *sqlrig.Session) {
		r := c.SubRand("c29"+stage, i)
		opts := scenarioOpts{
			MaxRows: []int{3, 10, 40, 200}[r.Intn(4)], NCols: 1 + r.Intn(6), NullableOnly: r.Intn(3) == 0, JSON: r.Intn(3) == 0,
			Schema: schema, ConflictBias: []float64{0.05, 0.2, 0.4}[r.Intn(3)], RandomDML: 6, Name: "t",
		}
		sc := genScenario(r, opts)
		db := fmt.Sprintf("c29%s_%d", stage[:1], i)
		c.Case(fmt.Sprintf("c29/%s/%d", stage, i), sc.payload(db))
		defer func() {
			x.Exec("use mysql")
			if err := x.Exec("drop database `" + db + "`"); err != nil {
				c.Note("drop database: " + err.Error())
			}
		}()
		if err := setupScenario(x, db, sc); err != nil {
			l.violation(prefix+"/setup", "scenario setup failed: "+err.Error(), sc.payload(db))
			return
		}
		mLR := modelMerge(sc.Base, sc.Left, sc.Right)
		mRL := modelMerge(sc.Base, sc.Right, sc.Left)
		wit := sc.payload(db)
		label := func(ours string) string {
			if !schema {
				return ""
			}
			if sc.SchemaSide == ours {
				return "ours=schema-side"
			}
			return "theirs=schema-side"
		}
		refused := func(why string) {
			cnt.add("refused", 1)
			for _, op := range sc.SchemaOps {
				cnt.add("refused."+op, 1)
			}
			c.Note("refusal: " + truncate(why, 160))
		}
		results := map[string]*dirResult{}
		shiftLR, shiftRL := colShiftVsDelete(sc.Base, sc.Left, sc.Right), colShiftVsDelete(sc.Base, sc.Right, sc.Left)
		for _, d := range []struct {
			name, into, from, ours string
			m                      *mergeOut
			shifted                map[int64]bool
		}{{"left<-right", "ml", "other", "left", mLR, shiftLR}, {"right<-left", "mr", "main", "right", mRL, shiftRL}} {
			res, err := mergeDirection(x, db, "t", d.into, d.from, d.m, "")
			if err != nil {
				l.violation(prefix+"/read-after-merge", d.name+": "+err.Error(), wit)
				continue
			}
			w := map[string]any{"direction": d.name, "scenario": wit}
			suffix := ""
			if lb := label(d.ours); lb != "" {
				suffix = "/" + lb
			}
			switch {
			case res.Err != nil:
				kind, sig := classifyMergeError(res.Err)
				if len(d.shifted) > 0 {
					sig += colShiftMark
				}
				w["error"] = truncate(res.Err.Error(), 3000)
				switch {
				case kind == "internal-error":
					l.violation(prefix+"/internal-error/"+sig+suffix, "dolt_merge failed internally: "+truncate(res.Err.Error(), 300), w)
					cnt.add("internal_errors", 1)
				case kind == "refused" && schema:
					refused(res.Err.Error())
				default:
					// neither a schema-conflict refusal nor an internal failure: the merge of compatible schemas simply failed
					l.violation(prefix+"/"+kind+"/"+sig+suffix, "dolt_merge failed: "+truncate(res.Err.Error(), 300), w)
					cnt.add("merge_errors", 1)
				}
			case res.Refused != "" && !schema:
				l.violation(prefix+"/refused", "dolt_merge on identical schemas reported "+res.Refused, w)
			case res.Refused != "":
				refused(res.Refused)
			default:
				compareDirection(l, prefix, label(d.ours), sc, d.m, res, d.shifted, w)
				results[d.name] = res
				cnt.add("merges_compared", 1)
				if len(res.MergeRow) > 1 && res.MergeRow[1] == "1" {
					cnt.add("fast_forwards", 1)
				}
			}
		}
		if lr, rl := results["left<-right"], results["right<-left"]; lr != nil && rl != nil {
			both := map[int64]bool{}
			for k := range shiftLR {
				both[k] = true
			}
			for k := range shiftRL {
				both[k] = true
			}
			compareSymmetry(l, prefix, sc, mLR, mRL, lr, rl, both, wit)
			cnt.add("direction_pairs_compared", 1)
		}
		if len(mLR.Conflicts) != len(mRL.Conflicts) {
			l.violation(prefix+"/model-asymmetry", "model bug: conflict sets not mirrored", wit)
		}
		cnt.add("model_conflicts", len(mLR.Conflicts))
		cnt.add("cellwise_merged_rows", mLR.Cellwise)
		cnt.add("convergent_changes", mLR.Convergent)
		cnt.add("delete_vs_modify_conflicts", mLR.DeleteModify)
		cnt.add("unspecified_rows", len(mLR.Unspec))
		cnt.add("delete_vs_added_column_update", len(mLR.AddedColVsDelete))
		if len(mLR.Conflicts) == 0 {
			cnt.add("clean_merges", 1)
		}
		for _, op := range sc.SchemaOps {
			cnt.add("op."+op, 1)
		}
		if len(sc.LeftSQL) > 0 && len(sc.RightSQL) > 0 {
			c.Distinct(stage + "/" + sc.signature())
		}
		c.Sample(map[string]any{"stage": stage, "create": sc.Base.createSQL(), "base_rows": len(sc.Base.Rows), "left": head(sc.LeftSQL, 12), "right": head(sc.RightSQL, 12),
			"schema_side": sc.SchemaSide, "schema_ops": sc.SchemaOps, "model_conflicts": len(mLR.Conflicts), "cellwise_merged_rows": mLR.Cellwise})
	})
	pre := "c29."
	if schema {
		pre = "c29.schema."
	}
	cnt.add("suppressed_repeat_violations", l.suppressedCount())
	cnt.flush(c, pre)
	c.Require(cnt.get("model_conflicts") > 0, stage+": no merge produced a conflict")
	c.Require(cnt.get("cellwise_merged_rows") > 0, stage+": no merge combined cells from both sides")
	c.Require(cnt.get("delete_vs_modify_conflicts") > 0, stage+": no delete-vs-modify conflict")
	c.Require(cnt.get("convergent_changes") > 0, stage+": no convergent change")
	c.Require(cnt.get("merges_compared") > 0, stage+": no merge result was compared with the model")
	if schema {
		for _, op := range []string{"add-first", "add-middle", "add-last", "drop", "reorder", "widen-varchar"} {
			c.Require(cnt.sumPrefix("op."+op) > 0, "schema: no scenario applied "+op)
		}
	}
}

func truncate(s string, n int) string {
	if len(s) > n {
		return s[:n] + "..."
	}
	return s
}

func head(s []string, n int) []string {
	if len(s) > n {
		return append(append([]string(nil), s[:n]...), fmt.Sprintf("... (%d statements)", len(s)))
	}
	return s
}

// Register wires the vmerge checks.
func Register() {
	rig.Register(&rig.Spec{Prop: "C29", Level: "exploration", Stages: []rig.Stage{
		{Name: "merge", Fn: c29},
		{Name: "schema", Fn: c29schema},
		{Name: "large", Fn: c29large},
	}})
	rig.Register(&rig.Spec{Prop: "C30", Level: "exploration", Stages: []rig.Stage{{Name: "twins", Fn: c30}}})
	rig.Register(&rig.Spec{Prop: "C43", Level: "exploration", Stages: []rig.Stage{{Name: "resolve", Fn: c43}}})
}
