// Package vmerge holds the SQL-level merge monitors (C29, C30, C43).
package vmerge

import (
	"fmt"
	"math/rand"
	"os"
	"strings"

	"verif/rig"
	"verif/sqlrig"
)

// mergeCase is one generated three-way merge scenario on a single table with identical schemas on both sides.
type mergeCase struct {
	DB                 string
	Base, Left, Right  *sqlrig.Table
	Script             []string // every statement, logged before execution (the replay artefact)
	LeftSQL, RightSQL  []string
}

// genMergeCase builds base/left/right models and the SQL that produces them. Both sides edit a shared small key
// pool so that convergent edits, cell-wise combinable edits, same-cell divergences, delete-vs-modify and
// delete-vs-delete all occur.
func genMergeCase(r *rand.Rand, db string, maxRows int) *mergeCase {
	g := sqlrig.NewGen(r, "v")
	ncols := 1 + r.Intn(5)
	base := g.NewTable("t", ncols)
	mc := &mergeCase{DB: db}
	nbase := r.Intn(maxRows + 1)
	pool := nbase + 4
	for i := 0; i < nbase; i++ {
		pk := int64(r.Intn(pool))
		if _, ok := base.Rows[pk]; ok {
			continue
		}
		mc.Script = append(mc.Script, g.InsertSQL(base, pk))
	}
	mc.Base = base.Clone()
	left, right := base.Clone(), base.Clone()
	nl, nr := 1+r.Intn(8+nbase/3), 1+r.Intn(8+nbase/3)
	editPool := pool
	if editPool > 12 && r.Intn(2) == 0 {
		editPool = 12 // concentrate edits so that both sides touch the same rows
	}
	for i := 0; i < nl; i++ {
		mc.LeftSQL = append(mc.LeftSQL, g.DML(left, editPool))
	}
	for i := 0; i < nr; i++ {
		if r.Intn(5) == 0 && len(mc.LeftSQL) > 0 {
			// convergent edit: replay one of the left statements verbatim on the right when it applies identically
			st := mc.LeftSQL[r.Intn(len(mc.LeftSQL))]
			if applyVerbatim(right, left, st) {
				mc.RightSQL = append(mc.RightSQL, st)
				continue
			}
		}
		mc.RightSQL = append(mc.RightSQL, g.DML(right, editPool))
	}
	mc.Left, mc.Right = left, right
	return mc
}

// applyVerbatim applies a left-side single-row insert/delete statement to the right model when that is
// well-defined (used to create identical changes on both sides). Only inserts of absent keys and deletes of
// present keys are replayed; the resulting row is copied from the left model's final state only if the left row
// was not changed again afterwards — otherwise the statement is skipped.
func applyVerbatim(right, left *sqlrig.Table, st string) bool {
	var pk int64
	if strings.HasPrefix(st, "delete from") {
		if _, err := fmt.Sscanf(st[strings.Index(st, "pk = ")+5:], "%d", &pk); err != nil {
			return false
		}
		if _, ok := right.Rows[pk]; !ok {
			return false
		}
		delete(right.Rows, pk)
		return true
	}
	return false
}

func c29(c *rig.Ctx) {
	c.Rule("seeded (base,left,right) single-table scenarios (1-5 non-key columns, 0..N base rows, both sides edit a shared " +
		"small key pool with unique cell values); dolt_merge is run in both directions over the wire on a real sql-server and " +
		"the merged table and dolt_conflicts_t are compared with the cell-wise three-way model. A case is distinct/non-trivial " +
		"when its (columns, #left edits, #right edits, #model conflicts, #cell-wise merged rows) signature is new and both sides changed something")
	c.Assume("schemas identical on both sides in this stage; one-sided schema changes are a separate stage")
	dir := c.TempDir("c29")
	defer os.RemoveAll(dir)
	srv, err := sqlrig.Start(dir + "/data")
	rig.Must(err)
	defer srv.Stop()
	n := c.Pick(100, 3000)
	var conflictsSeen, cellwise, cleanMerges int
	for i := 0; i < n; i++ {
		r := c.SubRand("c29", i)
		maxRows := []int{3, 10, 40, 200}[r.Intn(4)]
		mc := genMergeCase(r, fmt.Sprintf("c29_%d", i), maxRows)
		c.Case(fmt.Sprintf("c29/%d", i), map[string]any{"db": mc.DB, "create": mc.Base.CreateSQL(), "base": mc.Script, "left": mc.LeftSQL, "right": mc.RightSQL})
		nc, cw, ok := runMergeCase(c, srv, mc)
		if !ok {
			continue
		}
		conflictsSeen += nc
		cellwise += cw
		if nc == 0 {
			cleanMerges++
		}
		c.Distinct(fmt.Sprintf("%d/%d/%d/%d/%d", len(mc.Base.Cols), len(mc.LeftSQL), len(mc.RightSQL), nc, cw))
		c.Sample(map[string]any{"create": mc.Base.CreateSQL(), "base_rows": len(mc.Base.Rows), "left": mc.LeftSQL, "right": mc.RightSQL, "model_conflicts": nc, "cellwise_merged_rows": cw})
		if c.Violations() > 10 {
			break
		}
	}
	c.Count("c29.model_conflicts", conflictsSeen)
	c.Count("c29.cellwise_merged_rows", cellwise)
	c.Count("c29.clean_merges", cleanMerges)
	c.Require(conflictsSeen > 0, "no merge produced a conflict")
	c.Require(cellwise > 0, "no merge combined cells from both sides")
}

func execAll(x *sqlrig.Session, stmts ...string) error {
	for _, s := range stmts {
		if err := x.Exec(s); err != nil {
			return fmt.Errorf("%s: %w", s, err)
		}
	}
	return nil
}

// runMergeCase executes the scenario and checks both merge directions. Returns (#model conflicts, #cell-wise merged rows).
func runMergeCase(c *rig.Ctx, srv *sqlrig.Server, mc *mergeCase) (int, int, bool) {
	x := srv.MustOpen("")
	defer x.Close()
	setup := []string{"create database " + mc.DB, "use " + mc.DB, mc.Base.CreateSQL()}
	setup = append(setup, mc.Script...)
	setup = append(setup, "call dolt_commit('-Am','base')", "call dolt_branch('other')")
	setup = append(setup, mc.LeftSQL...)
	setup = append(setup, "call dolt_commit('-Am','left')", "call dolt_checkout('other')")
	setup = append(setup, mc.RightSQL...)
	setup = append(setup, "call dolt_commit('--allow-empty','-Am','right')", "call dolt_checkout('main')")
	if err := execAll(x, setup...); err != nil {
		if strings.Contains(err.Error(), "nothing to commit") {
			return 0, 0, false // left side made no net change: not a merge scenario
		}
		c.Violation("c29/setup", "scenario setup failed: "+err.Error(), nil)
		return 0, 0, false
	}
	defer x.Exec("drop database " + mc.DB)
	wantLR, confLR := sqlrig.Merge3(mc.Base, mc.Left, mc.Right)
	wantRL, confRL := sqlrig.Merge3(mc.Base, mc.Right, mc.Left)
	cw := 0
	for pk, row := range wantLR.Rows {
		l, r := mc.Left.Rows[pk], mc.Right.Rows[pk]
		if l != nil && r != nil && strings.Join(row, "\x1f") != strings.Join(l, "\x1f") && strings.Join(row, "\x1f") != strings.Join(r, "\x1f") {
			cw++
		}
	}
	checkDir := func(dir, into, from string, want *sqlrig.Table, conf []sqlrig.Conflict) {
		if err := execAll(x, "call dolt_checkout('"+into+"')", "set autocommit = 0", "start transaction"); err != nil {
			c.Violation("c29/setup", err.Error(), nil)
			return
		}
		_, err := x.Query("call dolt_merge('" + from + "')")
		if err != nil {
			key := "c29/merge-error/" + dir
			if sqlrig.IsInternalError(err) {
				key = "c29/merge-internal-error/" + dir
			}
			c.Violation(key, "dolt_merge on identical schemas failed: "+err.Error(), nil)
			x.Exec("rollback")
			return
		}
		got, err := x.Query("select * from t")
		if err != nil {
			c.Violation("c29/read-after-merge", err.Error(), nil)
		} else if g, w := strings.Join(got.Sorted(), "\n"), strings.Join(want.SortedRows(), "\n"); g != w {
			c.Violation("c29/merged-rows/"+dir, fmt.Sprintf("merged table differs from the cell-wise three-way model (%d vs %d rows)", len(got.Data), len(want.Rows)),
				map[string]any{"got": got.Sorted(), "want": want.SortedRows()})
		}
		// conflicts
		var cols []string
		for _, p := range []string{"base_", "our_", "their_"} {
			cols = append(cols, p+"pk")
			for _, col := range mc.Base.Cols {
				cols = append(cols, p+col.Name)
			}
		}
		var wantConf []string
		for _, cf := range conf {
			var parts []string
			for _, row := range [][]string{cf.Base, cf.Ours, cf.Theirs} {
				if row == nil {
					parts = append(parts, sqlrig.Null)
					for range mc.Base.Cols {
						parts = append(parts, sqlrig.Null)
					}
				} else {
					parts = append(parts, fmt.Sprint(cf.PK))
					parts = append(parts, row...)
				}
			}
			wantConf = append(wantConf, strings.Join(parts, "\x1f"))
		}
		sortStrings(wantConf)
		if len(conf) == 0 {
			n, err := x.Scalar("select count(*) from dolt_conflicts")
			if err != nil || n != "0" {
				c.Violation("c29/conflicts/"+dir, fmt.Sprintf("model has no conflict but dolt_conflicts reports %s tables (%v)", n, err), nil)
			}
		} else {
			gc, err := x.Query("select " + strings.Join(cols, ", ") + " from dolt_conflicts_t")
			if err != nil {
				c.Violation("c29/conflicts/"+dir, "cannot read dolt_conflicts_t although the model predicts conflicts: "+err.Error(), map[string]any{"want": wantConf})
			} else if g, w := strings.Join(gc.Sorted(), "\n"), strings.Join(wantConf, "\n"); g != w {
				c.Violation("c29/conflicts/"+dir, "dolt_conflicts_t differs from the model conflict set", map[string]any{"got": gc.Sorted(), "want": wantConf})
			}
		}
		if err := execAll(x, "rollback", "set autocommit = 1"); err != nil {
			c.Violation("c29/rollback", err.Error(), nil)
		}
	}
	checkDir("ours=left", "main", "other", wantLR, confLR)
	checkDir("ours=right", "other", "main", wantRL, confRL)
	// mirrored conflicts / same data unless conflicting
	if len(confLR) != len(confRL) {
		c.Violation("c29/model-asymmetry", "model bug: conflict sets not mirrored", nil)
	}
	return len(confLR), cw, true
}

func sortStrings(s []string) {
	for i := 1; i < len(s); i++ {
		for j := i; j > 0 && s[j] < s[j-1]; j-- {
			s[j], s[j-1] = s[j-1], s[j]
		}
	}
}

// Register wires the vmerge checks.
func Register() {
	rig.Register(&rig.Spec{Prop: "C29", Level: "exploration", Stages: []rig.Stage{{Name: "merge", Fn: c29}}})
}
