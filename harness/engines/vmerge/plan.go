package vmerge

import (
	"fmt"
	"math/rand"
	"sort"
)

// scenario is one generated three-way merge input on a single keyed table: the model state of base / left / right and
// the SQL that produces them. The SQL lists are the replay artefact.
type scenario struct {
	Base, Left, Right          *mtable
	BaseSQL, LeftSQL, RightSQL []string
	SchemaSide                 string   // "" | "left" | "right": the side that changed the schema
	SchemaOps                  []string // labels of the schema changes applied
	Classes                    map[string]int
}

type scenarioOpts struct {
	MaxRows      int
	NCols        int
	NullableOnly bool    // no NOT NULL columns (fast-path eligible)
	JSON         bool    // allow JSON columns
	Schema       bool    // apply 1-2 schema changes on one side
	ConflictBias float64 // 0..1: weight of the conflicting classes
	RandomDML    int     // extra unstructured DML statements per side (upper bound)
	Name         string
}

type action func(g *gen, t *mtable) string

// class weights: {name, weight, conflicting}
type classDef struct {
	name     string
	w        int
	conflict bool
	existing bool // needs a key present in base
	minCols  int
}

var classes = []classDef{
	{"cellwise", 6, false, true, 2},
	{"cellwise+same-cell-same-value", 3, false, true, 2},
	{"same-cell-different-values", 3, true, true, 1},
	{"convergent-update", 2, false, true, 1},
	{"one-side-update", 3, false, true, 1},
	{"delete-vs-modify", 3, true, true, 1},
	{"delete-vs-delete", 1, false, true, 0},
	{"delete-vs-noop-rewrite", 1, false, true, 1},
	{"noop-rewrite-vs-update", 1, false, true, 1},
	{"update-revert-vs-update", 1, false, true, 1},
	{"delete-reinsert-vs-update", 1, true, true, 1},
	{"one-side-delete", 2, false, true, 0},
	{"one-side-insert", 2, false, false, 0},
	{"convergent-insert", 1, false, false, 0},
	{"divergent-insert", 1, true, false, 1},
	{"insert-same-but-one-cell", 1, true, false, 2},
}

func genScenario(r *rand.Rand, o scenarioOpts) *scenario {
	g := newGen(r)
	g.json = o.JSON
	sc := &scenario{Classes: map[string]int{}}
	base := g.newTable(o.Name, o.NCols, o.NullableOnly)
	nbase := r.Intn(o.MaxRows + 1)
	pool := nbase + 6
	for i := 0; i < nbase; i++ {
		pk := int64(r.Intn(pool))
		if _, ok := base.Rows[pk]; ok {
			continue
		}
		sc.BaseSQL = append(sc.BaseSQL, g.insertRow(base, pk, nil))
	}
	sc.Base = base.clone()
	left, right := base.clone(), base.clone()

	// plan: pick keys and a class for each
	var existing, absent []int64
	for k := 0; k < pool; k++ {
		if _, ok := base.Rows[int64(k)]; ok {
			existing = append(existing, int64(k))
		} else {
			absent = append(absent, int64(k))
		}
	}
	r.Shuffle(len(existing), func(i, j int) { existing[i], existing[j] = existing[j], existing[i] })
	r.Shuffle(len(absent), func(i, j int) { absent[i], absent[j] = absent[j], absent[i] })
	nplan := 1 + r.Intn(4+nbase/2)
	if nplan > 40 {
		nplan = 10 + r.Intn(30)
	}
	var leftProg, rightProg []action
	total := 0
	weight := func(c classDef) int {
		if c.minCols > len(base.Cols) {
			return 0
		}
		w := c.w * 10
		if c.conflict {
			w = int(float64(w) * (0.3 + 3*o.ConflictBias))
		}
		return w
	}
	for _, c := range classes {
		total += weight(c)
	}
	pickCols := func(n int) []colDef {
		idx := r.Perm(len(base.Cols))
		if n > len(idx) {
			n = len(idx)
		}
		out := make([]colDef, n)
		for i := 0; i < n; i++ {
			out[i] = base.Cols[idx[i]]
		}
		return out
	}
	for p := 0; p < nplan && total > 0; p++ {
		x := r.Intn(total)
		var cd classDef
		for _, c := range classes {
			if w := weight(c); x < w {
				cd = c
				break
			} else {
				x -= w
			}
		}
		var k int64
		if cd.existing {
			if len(existing) == 0 {
				continue
			}
			k, existing = existing[0], existing[1:]
		} else {
			if len(absent) == 0 {
				continue
			}
			k, absent = absent[0], absent[1:]
		}
		sc.Classes[cd.name]++
		brow := base.Rows[k]
		a, b := &leftProg, &rightProg // a = "first" role, b = "second" role; swapped at random
		if r.Intn(2) == 0 {
			a, b = b, a
		}
		fresh := func(c colDef) string { return g.otherValue(c, brow[c.Name]) }
		upd := func(set map[string]string) action {
			return func(g *gen, t *mtable) string { return g.updateCells(t, k, set) }
		}
		del := func(g *gen, t *mtable) string { return g.deleteRow(t, k) }
		switch cd.name {
		case "cellwise":
			cols := pickCols(2 + r.Intn(len(base.Cols)-1))
			cut := 1 + r.Intn(len(cols)-1)
			sa, sb := map[string]string{}, map[string]string{}
			for i, c := range cols {
				if i < cut {
					sa[c.Name] = fresh(c)
				} else {
					sb[c.Name] = fresh(c)
				}
			}
			*a, *b = append(*a, upd(sa)), append(*b, upd(sb))
		case "cellwise+same-cell-same-value":
			cols := pickCols(2 + r.Intn(len(base.Cols)-1))
			sa, sb := map[string]string{}, map[string]string{}
			v := fresh(cols[0])
			sa[cols[0].Name], sb[cols[0].Name] = v, v
			for i, c := range cols[1:] {
				if i%2 == 0 {
					sa[c.Name] = fresh(c)
				} else {
					sb[c.Name] = fresh(c)
				}
			}
			*a, *b = append(*a, upd(sa)), append(*b, upd(sb))
		case "same-cell-different-values":
			cols := pickCols(1 + r.Intn(len(base.Cols)))
			sa, sb := map[string]string{}, map[string]string{}
			va := fresh(cols[0])
			vb := g.otherValue(cols[0], va)
			if vb == brow[cols[0].Name] {
				vb = g.rawValue(cols[0])
			}
			sa[cols[0].Name], sb[cols[0].Name] = va, vb
			for i, c := range cols[1:] {
				if i%2 == 0 {
					sa[c.Name] = fresh(c)
				} else {
					sb[c.Name] = fresh(c)
				}
			}
			*a, *b = append(*a, upd(sa)), append(*b, upd(sb))
		case "convergent-update":
			cols := pickCols(1 + r.Intn(len(base.Cols)))
			s := map[string]string{}
			for _, c := range cols {
				s[c.Name] = fresh(c)
			}
			*a, *b = append(*a, upd(s)), append(*b, upd(s))
		case "one-side-update":
			cols := pickCols(1 + r.Intn(len(base.Cols)))
			s := map[string]string{}
			for _, c := range cols {
				s[c.Name] = fresh(c)
			}
			*a = append(*a, upd(s))
		case "delete-vs-modify":
			cols := pickCols(1 + r.Intn(len(base.Cols)))
			s := map[string]string{}
			for _, c := range cols {
				s[c.Name] = fresh(c)
			}
			*a, *b = append(*a, del), append(*b, upd(s))
		case "delete-vs-delete":
			*a, *b = append(*a, del), append(*b, del)
		case "delete-vs-noop-rewrite":
			c := pickCols(1)[0]
			*a, *b = append(*a, del), append(*b, upd(map[string]string{c.Name: brow[c.Name]}))
		case "noop-rewrite-vs-update":
			cols := pickCols(2)
			c2 := cols[len(cols)-1]
			*a = append(*a, upd(map[string]string{cols[0].Name: brow[cols[0].Name]}))
			*b = append(*b, upd(map[string]string{c2.Name: fresh(c2)}))
		case "update-revert-vs-update":
			cols := pickCols(2)
			c1, c2 := cols[0], cols[len(cols)-1]
			tmp := fresh(c1)
			*a = append(*a, func(g *gen, t *mtable) string {
				s1 := g.updateCells(t, k, map[string]string{c1.Name: tmp})
				s2 := g.updateCells(t, k, map[string]string{c1.Name: brow[c1.Name]})
				if s1 == "" || s2 == "" {
					return s1 + s2
				}
				return s1 + "\n" + s2
			})
			*b = append(*b, upd(map[string]string{c2.Name: fresh(c2)}))
		case "delete-reinsert-vs-update":
			c := pickCols(1)[0]
			*a = append(*a, func(g *gen, t *mtable) string {
				s1 := g.deleteRow(t, k)
				s2 := g.insertRow(t, k, nil)
				if s1 == "" {
					return s2
				}
				return s1 + "\n" + s2
			})
			*b = append(*b, upd(map[string]string{c.Name: fresh(c)}))
		case "one-side-delete":
			*a = append(*a, del)
		case "one-side-insert":
			*a = append(*a, func(g *gen, t *mtable) string { return insertIfAbsent(g, t, k, nil) })
		case "convergent-insert", "divergent-insert", "insert-same-but-one-cell":
			pa, pb := map[string]string{}, map[string]string{}
			for _, c := range base.Cols {
				v := g.value(c)
				if v == Null && c.NotNull {
					v = g.rawValue(c)
				}
				pa[c.Name], pb[c.Name] = v, v
			}
			switch cd.name {
			case "divergent-insert":
				for _, c := range pickCols(1 + r.Intn(len(base.Cols))) {
					pb[c.Name] = g.otherValue(c, pa[c.Name])
				}
			case "insert-same-but-one-cell":
				c := pickCols(1)[0]
				pb[c.Name] = g.otherValue(c, pa[c.Name])
			}
			*a = append(*a, func(g *gen, t *mtable) string { return insertIfAbsent(g, t, k, pa) })
			*b = append(*b, func(g *gen, t *mtable) string { return insertIfAbsent(g, t, k, pb) })
		}
	}
	// unstructured DML over the same small key pool
	editPool := pool
	if editPool > 14 && r.Intn(2) == 0 {
		editPool = 14
	}
	if o.RandomDML > 0 {
		for i, n := 0, r.Intn(o.RandomDML+1); i < n; i++ {
			leftProg = append(leftProg, func(g *gen, t *mtable) string { return g.randomDML(t, editPool) })
		}
		for i, n := 0, r.Intn(o.RandomDML+1); i < n; i++ {
			rightProg = append(rightProg, func(g *gen, t *mtable) string { return g.randomDML(t, editPool) })
		}
	}
	r.Shuffle(len(leftProg), func(i, j int) { leftProg[i], leftProg[j] = leftProg[j], leftProg[i] })
	r.Shuffle(len(rightProg), func(i, j int) { rightProg[i], rightProg[j] = rightProg[j], rightProg[i] })
	if o.Schema {
		prog := &leftProg
		sc.SchemaSide = "left"
		if r.Intn(2) == 0 {
			prog, sc.SchemaSide = &rightProg, "right"
		}
		nops := 1 + r.Intn(2)
		for i := 0; i < nops; i++ {
			seq := i
			op := func(g *gen, t *mtable) string {
				ddl, label := g.schemaOp(t, seq)
				if ddl != "" {
					sc.SchemaOps = append(sc.SchemaOps, label)
				}
				return ddl
			}
			at := r.Intn(len(*prog) + 1)
			*prog = append((*prog)[:at], append([]action{op}, (*prog)[at:]...)...)
		}
		// delete-vs-modify where the modification is confined to a column the schema side added: the schema side updates
		// only its new column on an otherwise untouched base row, the other side deletes that row.
		if len(existing) > 0 && r.Intn(4) == 0 {
			k := existing[0]
			existing = existing[1:]
			other := &rightProg
			if sc.SchemaSide == "right" {
				other = &leftProg
			}
			*prog = append(*prog, func(g *gen, t *mtable) string {
				for _, c := range t.Cols {
					if _, inBase := base.col(c.Name); !inBase {
						if row := t.Rows[k]; row != nil {
							sc.Classes["delete-vs-update-of-added-column"]++
							return g.updateCells(t, k, map[string]string{c.Name: g.otherValue(c, row[c.Name])})
						}
					}
				}
				return ""
			})
			*other = append(*other, func(g *gen, t *mtable) string { return g.deleteRow(t, k) })
		}
	}
	run := func(prog []action, t *mtable) []string {
		var out []string
		for _, a := range prog {
			if s := a(g, t); s != "" {
				for _, one := range splitLines(s) {
					out = append(out, one)
				}
			}
		}
		return out
	}
	sc.LeftSQL = run(leftProg, left)
	sc.RightSQL = run(rightProg, right)
	sc.Left, sc.Right = left, right
	sort.Strings(sc.SchemaOps)
	return sc
}

func insertIfAbsent(g *gen, t *mtable, k int64, preset map[string]string) string {
	if _, ok := t.Rows[k]; ok {
		return ""
	}
	return g.insertRow(t, k, preset)
}

func splitLines(s string) []string {
	var out []string
	start := 0
	for i := 0; i < len(s); i++ {
		if s[i] == '\n' {
			if i > start {
				out = append(out, s[start:i])
			}
			start = i + 1
		}
	}
	if start < len(s) {
		out = append(out, s[start:])
	}
	return out
}

func (sc *scenario) payload(db string) map[string]any {
	return map[string]any{"db": db, "create": sc.Base.createSQL(), "base": sc.BaseSQL, "left": sc.LeftSQL, "right": sc.RightSQL,
		"schema_side": sc.SchemaSide, "schema_ops": sc.SchemaOps}
}

func (sc *scenario) signature() string {
	var cl []string
	for k, v := range sc.Classes {
		cl = append(cl, fmt.Sprintf("%s=%d", k, v))
	}
	sort.Strings(cl)
	return fmt.Sprintf("%d cols/%d base rows/%v/%v", len(sc.Base.Cols), len(sc.Base.Rows), cl, sc.SchemaOps)
}
