package vval

import (
	"context"
	"fmt"
	"math/rand"
	"os"
	"strings"
	"sync/atomic"

	"github.com/dolthub/go-mysql-server/sql"
	gmstypes "github.com/dolthub/go-mysql-server/sql/types"

	"github.com/dolthub/dolt/go/libraries/utils/verifhook"
	"github.com/dolthub/dolt/go/store/prolly/tree"

	"verif/rig"
)

// C17 (operations) — a stored JSON document (tree.IndexedJsonDocument) answers Lookup / Insert / Set / Replace / Remove /
// ArrayInsert / ArrayAppend like go-mysql-server's in-memory types.JSONDocument on the same inputs: same result document,
// same changed flag, same error-or-not.
//
// The verifhook Emit point json.fallback tells, per operation, whether the indexed implementation served it or whether
// it fell back to the in-memory implementation (in which case the comparison is reference-vs-reference and is only
// counted, not relied upon). ArrayInsert / ArrayAppend are in-memory by design in dolt and are counted separately.
//
// Guard-rails: paths are generated in the syntax both implementations document (unquoted legs only for [A-Za-z_][A-Za-z0-9_]*,
// everything else double-quoted with \" for a quote); keys whose JSON text needs other backslash escapes occur in the
// documents but are never addressed by a path (the reference itself unescapes them differently in Lookup and in
// mutations); when both sides return an error the messages are not compared.

var c17Fallbacks atomic.Int64

func c17InstallHook() {
	verifhook.OnEmit(func(point string, kv []any) {
		if point == "json.fallback" {
			c17Fallbacks.Add(1)
		}
	})
}

type c17Run struct {
	c  *rig.Ctx
	ns tree.NodeStore
}

func (x *c17Run) index(v any) tree.IndexedJsonDocument {
	root, err := tree.SerializeJsonToAddr(bg, x.ns, gmstypes.JSONDocument{Val: jClone(v)})
	rig.Must(err)
	return tree.NewIndexedJsonDocument(root, x.ns)
}

type c17Op struct {
	elems []jElem // set when the path consists of member/index legs only
	kind  string
	path  string
	val   any
	cls   string // path class, part of the violation key
}

var c17Kinds = []string{"Lookup", "Insert", "Set", "Replace", "Remove", "ArrayInsert", "ArrayAppend"}

func (x *c17Run) genOp(r *rand.Rand, g *jgen, doc any) c17Op {
	var locs [][]jElem
	jWalk(doc, nil, &locs)
	op := c17Op{kind: c17Kinds[r.Intn(len(c17Kinds))]}
	base := locs[r.Intn(len(locs))]
	if op.kind == "Lookup" {
		// the reference's lookup path parser (jsonpath library) does not understand \" inside a quoted leg
		for try := 0; try < 30 && pathHasQuoteKey(base); try++ {
			base = locs[r.Intn(len(locs))]
		}
		if pathHasQuoteKey(base) {
			base = nil
		}
	}
	elems := append([]jElem{}, base...)
	cls := "existing"
	switch r.Intn(12) {
	case 0, 1, 2, 3, 4: // existing location
	case 5: // missing key below an existing location
		elems = append(elems, jElem{key: g.key()})
		for needsBackslashEscape(elems[len(elems)-1].key) || (op.kind == "Lookup" && strings.Contains(elems[len(elems)-1].key, `"`)) {
			elems[len(elems)-1].key = g.key()
		}
		cls = "child-key"
	case 6: // index at / past the end, or into a non-array
		n := 0
		if v, ok := jGet(doc, base); ok {
			if a, ok := v.([]any); ok {
				n = len(a)
			}
		}
		elems = append(elems, jElem{isIdx: true, idx: n + pick(r, []int{0, 0, 1, 3})})
		cls = "child-index"
	case 7: // two missing legs
		elems = append(elems, jElem{key: pick(r, jKeysPlain)}, jElem{key: pick(r, jKeysPlain)})
		cls = "deep-missing"
	case 8: // sibling with a shared prefix
		if len(elems) > 0 && !elems[len(elems)-1].isIdx {
			k := elems[len(elems)-1].key
			elems[len(elems)-1].key = pick(r, []string{k + "a", k + "0", k[:len(k)-1] + "", k + " ", k + "."})
			if elems[len(elems)-1].key == "" || needsBackslashEscape(elems[len(elems)-1].key) || strings.Contains(elems[len(elems)-1].key, `"`) {
				elems[len(elems)-1].key = "zz"
			}
		}
		cls = "sibling-prefix"
	case 9: // [0] on a scalar/object (MySQL auto-wrapping)
		elems = append(elems, jElem{isIdx: true, idx: 0})
		if r.Intn(2) == 0 {
			elems = append(elems, jElem{isIdx: true, idx: 0})
		}
		cls = "zero-index-wrap"
	case 10: // last / last-N
		leg := pick(r, []string{"[last]", "[last]", "[last-1]", "[last-0]", "[last-9]"})
		elems = append(elems, jElem{raw: leg})
		cls = "last"
		if leg != "[last]" {
			cls = "last-minus-n"
		}
	case 11:
		if op.kind == "Lookup" { // wildcards are only defined for lookups
			elems = append(elems, jElem{raw: pick(r, []string{".*", "[*]"})})
			cls = "wildcard"
		} else {
			elems = nil
			cls = "root"
		}
	}
	op.path = jPath(elems)
	op.cls = cls
	plain := true
	for _, e := range elems {
		plain = plain && e.raw == ""
	}
	if plain {
		op.elems = elems
	}
	if op.kind != "Lookup" && op.kind != "Remove" {
		switch r.Intn(6) {
		case 0:
			op.val = g.value(2)
		case 1:
			op.val = g.big(3000 + r.Intn(9000)) // large enough to move chunk boundaries
		default:
			op.val = g.scalar()
		}
	}
	return op
}

func pathHasQuoteKey(p []jElem) bool {
	for _, e := range p {
		if !e.isIdx && strings.Contains(e.key, `"`) {
			return true
		}
	}
	return false
}

// docHasEscapedKeys reports whether some member name of v needs a backslash escape other than \" in JSON text.
func docHasEscapedKeys(v any) bool {
	switch t := v.(type) {
	case map[string]any:
		for k, x := range t {
			if needsBackslashEscape(k) || docHasEscapedKeys(x) {
				return true
			}
		}
	case []any:
		for _, x := range t {
			if docHasEscapedKeys(x) {
				return true
			}
		}
	}
	return false
}

type c17Result struct {
	doc      any
	isNil    bool
	changed  bool
	err      error
	wrapper  sql.JSONWrapper
	panicked string
}

func c17Apply(doc sql.JSONWrapper, op c17Op) (res c17Result) {
	defer func() {
		// a panic inside the implementation under test is converted into a reported violation (see c17Ops) so that
		// the remaining cases still run; it is never swallowed
		if p := recover(); p != nil {
			res = c17Result{panicked: fmt.Sprint(p), err: fmt.Errorf("panic: %v", p)}
		}
	}()
	var valW sql.JSONWrapper
	if op.kind != "Lookup" && op.kind != "Remove" {
		valW = gmstypes.JSONDocument{Val: jClone(op.val)}
	}
	finish := func(w sql.JSONWrapper, changed bool, err error) c17Result {
		res := c17Result{changed: changed, err: err, wrapper: w}
		if err != nil {
			return res
		}
		if w == nil {
			res.isNil = true
			return res
		}
		v, err := w.ToInterface(bg)
		if err != nil {
			res.err = fmt.Errorf("ToInterface of the result: %w", err)
			return res
		}
		res.doc = v
		return res
	}
	if op.kind == "Lookup" {
		// the entry point used by JSON_EXTRACT & co. (it special-cases "$" before delegating to SearchableJSON.Lookup)
		w, err := gmstypes.LookupJSONValue(bg, doc, op.path)
		if w == nil {
			return finish(nil, false, err)
		}
		return finish(w, false, err)
	}
	m, ok := doc.(gmstypes.MutableJSON)
	if !ok {
		rig.Must(fmt.Errorf("%T is not mutable", doc))
	}
	var out gmstypes.MutableJSON
	var changed bool
	var err error
	switch op.kind {
	case "Insert":
		out, changed, err = m.Insert(bg, op.path, valW)
	case "Set":
		out, changed, err = m.Set(bg, op.path, valW)
	case "Replace":
		out, changed, err = m.Replace(bg, op.path, valW)
	case "Remove":
		out, changed, err = m.Remove(bg, op.path)
	case "ArrayInsert":
		out, changed, err = m.ArrayInsert(bg, op.path, valW)
	case "ArrayAppend":
		out, changed, err = m.ArrayAppend(bg, op.path, valW)
	}
	if err != nil || out == nil {
		return finish(nil, changed, err)
	}
	return finish(out, changed, err)
}

func c17Ops(c *rig.Ctx) {
	c.Rule("documents from a generator of nested objects/arrays (depth <= 5) with sibling keys sharing prefixes (a, aa, ab, abc, k1, k10 ...), keys that need quoting in a path (spaces, dots, brackets, quotes, non-ASCII) " +
		"and keys whose JSON text needs backslash escapes; one third of the documents are 12-120 KB (several chunks, read from the tree's level). On each document a chain of PRNG operations is applied to the stored and to the " +
		"in-memory document in lock-step (the stored result of one operation is the input of the next): paths to existing locations, missing children, out-of-range and wrapping indexes, shared-prefix siblings, last/last-N, wildcards (lookups), $ ; " +
		"values scalar / nested / multi-KB. distinct = (operation kind, path class, document is multi-chunk, served by the indexed path or by the fallback)")
	c.Assume("reference = go-mysql-server types.JSONDocument at the version pinned by dolt's go.mod; error messages are not compared, only error-or-not")
	c.Assume("paths never address keys that need backslash escapes other than \\\" (reference Lookup and reference mutations unescape them differently); lookup paths never address keys containing a double quote (the reference's lookup parser does not understand \\\"); an operation on which only the reference fails is not compared")
	c17InstallHook()
	x := &c17Run{c: c, ns: tree.NewTestNodeStore()}
	lim := newLimiter(c, "c17.further_violations_same_key")
	nDocs := c.Pick(260, 6000)
	opsPerDoc := c.Pick(10, 18)
	var indexed, fellBack, inMemByDesign, multiChunkOps, reindexed, refPanics int
	for d := 0; d < nDocs; d++ {
		// replay aid: VERIF_C17_ONLY_DOC=<n> runs the single chain c17/doc/<n> (documents are generated independently)
		if v := os.Getenv("VERIF_C17_ONLY_DOC"); v != "" && v != fmt.Sprint(d) {
			continue
		}
		r := c.SubRand("c17/doc", d)
		g := &jgen{r: r, escKeys: r.Intn(3) == 0}
		var doc any
		switch d % 3 {
		case 0:
			doc = g.big(12000 + r.Intn(c.Pick(40000, 110000)))
		case 1:
			doc = g.value(5)
		default:
			doc = g.object(4, 1+r.Intn(8))
		}
		doc = jNorm(doc)
		stored := sql.JSONWrapper(x.index(doc))
		ref := jClone(doc)
		multi := false
		if idx, ok := stored.(tree.IndexedJsonDocument); ok {
			root, err := tree.SerializeJsonToAddr(bg, x.ns, idx)
			rig.Must(err)
			multi = root.Level() > 0
		}
		c.Case(fmt.Sprintf("c17/doc/%d", d), map[string]any{"bytes": len(jMarshal(doc)), "multi_chunk": multi, "esc_keys": g.escKeys})
		if d < 3 {
			c.Sample(map[string]any{"doc_head": clipS(string(jMarshal(doc))), "multi_chunk": multi})
		}
		var history []string
		for k := 0; k < opsPerDoc; k++ {
			op := x.genOp(r, g, ref)
			refRes := c17Apply(gmstypes.JSONDocument{Val: jClone(ref)}, op)
			before := c17Fallbacks.Load()
			_, wasIndexed := stored.(tree.IndexedJsonDocument)
			stRes := c17Apply(stored, op)
			fell := c17Fallbacks.Load() != before
			served := "indexed"
			switch {
			case !wasIndexed:
				served = "not-indexed-input"
			case op.kind == "ArrayInsert" || op.kind == "ArrayAppend":
				served = "in-memory-by-design"
				inMemByDesign++
			case fell:
				served = "fallback"
				fellBack++
			default:
				indexed++
				if multi {
					multiChunkOps++
				}
			}
			c.Count("c17.ops."+op.kind, 1)
			c.Distinct(fmt.Sprintf("%s/%s/%v/%s", op.kind, op.cls, multi, served))
			witness := func() map[string]any {
				return map[string]any{"doc": clipS(string(jMarshal(ref))), "op": op.kind, "path": op.path, "value": clipS(string(jMarshal(op.val))), "served_by": served,
					"multi_chunk": multi, "stored_result": clipS(c17Show(stRes)), "reference_result": clipS(c17Show(refRes)), "chain_position": k, "chain_ops_so_far": append([]string{}, history...), "doc_case": fmt.Sprintf("c17/doc/%d", d)}
			}
			cls := op.cls
			switch cls {
			case "existing", "child-key", "child-index", "deep-missing", "sibling-prefix", "zero-index-wrap":
				if docHasEscapedKeys(ref) { // member lookup is involved: the escaped-key ordering matters
					cls += "+doc-has-escaped-keys"
				}
			}
			// key layout: path class + cause features / outcome / operation / implementation that served it.
			// The cause features are established by experiment at the moment a disagreement is seen:
			//  - path-at-chunk-boundary(<state>): the addressed location is exactly a key of the stored tree's chunk index;
			//  - only-after-earlier-indexed-edits: the same operation on a freshly stored copy of the same document agrees
			//    with the reference, i.e. the tree left behind by the earlier indexed edits of this chain is what misbehaves.
			preStored := stored
			mkKey := func() string {
				c2 := cls
				if f := c17BoundaryFeature(x.ns, preStored, op); f != "" {
					c2 += "+" + f
				}
				if wasIndexed && k > 0 {
					if fresh := c17Apply(x.index(ref), op); c17Agree(refRes, fresh) {
						c2 += "+only-after-earlier-indexed-edits"
					}
				}
				return fmt.Sprintf("c17/ops/%s", c2)
			}
			tail := fmt.Sprintf("/%s/%s", op.kind, served)
			bad := false
			switch {
			case stRes.panicked != "":
				lim.Violation(mkKey()+"/panic"+tail, "the stored JSON document panics on an operation the in-memory document answers: "+stRes.panicked, witness())
				bad = true
			case refRes.panicked != "":
				// the reference itself crashed on this input: nothing to compare against (recorded, first few as notes)
				c.Count("c17.reference_panicked", 1)
				if refPanics++; refPanics <= 3 {
					c.Note(fmt.Sprintf("reference (go-mysql-server JSONDocument) panicked: %s on %s(%s) doc=%s", refRes.panicked, op.kind, op.path, clipS(string(jMarshal(ref)))))
				}
				bad = true
			case op.kind == "Lookup" && refRes.err == nil && c17LookupModelDisagrees(op, ref, refRes):
				// the reference's lookup parser (jsonpath library) mis-reads some quoted legs (brackets, dots, quotes inside
				// the quotes): when it disagrees with a plain walk of the document there is nothing reliable to compare against
				c.Count("c17.reference_lookup_disagrees_with_plain_walk", 1)
			case refRes.err != nil && stRes.err == nil:
				// the reference's own path parser rejects some valid quoted legs; nothing to compare against
				c.Count("c17.reference_error_only", 1)
			case (refRes.err != nil) != (stRes.err != nil):
				lim.Violation(mkKey()+"/error-mismatch"+tail, "one implementation fails where the other succeeds", witness())
				bad = true
			case refRes.err != nil:
				c.Count("c17.both_error", 1)
			case refRes.isNil != stRes.isNil:
				lim.Violation(mkKey()+"/null-mismatch"+tail, "one implementation returns SQL NULL where the other returns a document", witness())
				bad = true
			case !refRes.isNil && !jEqual(refRes.doc, stRes.doc):
				lim.Violation(mkKey()+"/result"+tail, "stored JSON document returns a different result document than the in-memory document", witness())
				bad = true
			case refRes.changed != stRes.changed:
				lim.Violation(mkKey()+"/changed-flag"+tail, "stored JSON document reports a different changed flag than the in-memory document", witness())
				bad = true
			}
			if op.kind == "Lookup" || refRes.err != nil || stRes.err != nil {
				if bad && op.kind != "Lookup" {
					break
				}
				continue
			}
			// the stored result must also be self-consistent: its bytes are the document it claims to be
			if idx, ok := stRes.wrapper.(tree.IndexedJsonDocument); ok && !bad {
				b, err := idx.GetBytes(bg)
				var viaBytes any
				if err == nil {
					viaBytes, err = jParse(b)
				}
				if err != nil || !jEqual(viaBytes, refRes.doc) {
					lim.Violation(mkKey()+"/stored-bytes"+tail, "the bytes of the resulting stored document are not the resulting document", witness())
					bad = true
				}
				// and reading it afresh from the store (no cached interface) gives the same document
				root, err2 := tree.SerializeJsonToAddr(bg, x.ns, idx)
				rig.Must(err2)
				fresh, err2 := tree.NewIndexedJsonDocument(root, x.ns).ToInterface(bg)
				if err2 != nil || !jEqual(fresh, refRes.doc) {
					lim.Violation(mkKey()+"/reread"+tail, "the resulting stored document re-read from its root is not the resulting document", witness())
					bad = true
				}
			}
			if bad {
				break // do not cascade
			}
			ref = jNorm(refRes.doc)
			history = append(history, op.kind+" "+op.path)
			// continue the chain on the stored result; a fallback returns an in-memory document, which is re-stored
			if idx, ok := stRes.wrapper.(tree.IndexedJsonDocument); ok {
				stored = idx
				root, err := tree.SerializeJsonToAddr(bg, x.ns, idx)
				rig.Must(err)
				multi = root.Level() > 0
			} else {
				stored = x.index(ref)
				reindexed++
			}
		}
	}
	c.Count("c17.ops_served_by_indexed_path", indexed)
	c.Count("c17.ops_fell_back_to_in_memory", fellBack)
	c.Count("c17.ops_in_memory_by_design", inMemByDesign)
	c.Count("c17.indexed_ops_on_multi_chunk_docs", multiChunkOps)
	c.Count("c17.results_restored_after_fallback", reindexed)
	c.Require(indexed > 0, "no operation was served by the indexed implementation (everything fell back: reference compared with itself)")
	c.Require(indexed >= (indexed+fellBack)/4, "fewer than a quarter of the index-capable operations were served by the indexed implementation")
	c.Require(multiChunkOps > 0, "no indexed operation ran on a multi-chunk document")
}

// c17LookupModelDisagrees: for path classes whose meaning is a plain walk (no auto-wrapping, no last, no wildcard),
// does the reference's answer differ from walking the document?
func c17LookupModelDisagrees(op c17Op, doc any, ref c17Result) bool {
	switch op.cls {
	case "existing", "child-key", "deep-missing", "sibling-prefix":
	default:
		return false
	}
	if op.elems == nil && op.path != "$" {
		return false
	}
	want, ok := jGet(doc, op.elems)
	if ok == ref.isNil {
		return true
	}
	return ok && !jEqual(want, ref.doc)
}

// c17Agree: do two results agree on everything the monitor compares?
func c17Agree(a, b c17Result) bool {
	if a.panicked != "" || b.panicked != "" || (a.err != nil) != (b.err != nil) {
		return false
	}
	if a.err != nil {
		return true
	}
	if a.isNil != b.isNil || a.changed != b.changed {
		return false
	}
	return a.isNil || jEqual(a.doc, b.doc)
}

var c17StateNames = []string{"start-of-value", "object-initial-element", "array-initial-element", "end-of-value", "middle-of-string"}

// c17BoundaryFeature reports whether the location addressed by a plain path is exactly one of the keys of the stored
// document's chunk index (the location at which one chunk ends and the next begins), and in which scanner state.
func c17BoundaryFeature(ns tree.NodeStore, stored sql.JSONWrapper, op c17Op) string {
	idx, ok := stored.(tree.IndexedJsonDocument)
	if !ok || (op.elems == nil && op.path != "$") {
		return ""
	}
	var sb strings.Builder
	sb.WriteByte('$')
	for _, e := range op.elems {
		if e.isIdx {
			fmt.Fprintf(&sb, "[%d]", e.idx)
		} else {
			sb.WriteByte('.')
			sb.WriteString(e.key)
		}
	}
	want := sb.String()
	root, err := tree.SerializeJsonToAddr(bg, ns, idx)
	if err != nil || root.Level() == 0 {
		return ""
	}
	feature := ""
	_ = tree.WalkNodes(bg, root, ns, func(_ context.Context, nd *tree.Node) error {
		if nd.Level() != 1 {
			return nil
		}
		for i := 0; i < nd.Count(); i++ {
			k := nd.GetKey(i)
			if len(k) == 0 || int(k[0]) >= len(c17StateNames) {
				continue
			}
			if tree.MySqlJsonPathFromKey(k) == want && feature == "" {
				feature = "path-at-chunk-boundary(" + c17StateNames[k[0]] + ")"
			}
		}
		return nil
	})
	return feature
}

func c17Show(r c17Result) string {
	if r.err != nil {
		return "ERROR: " + r.err.Error()
	}
	if r.isNil {
		return "NULL"
	}
	return fmt.Sprintf("changed=%v %s", r.changed, jMarshal(r.doc))
}

func jParse(b []byte) (any, error) {
	var v any
	dec := jsonDecoder(b)
	if err := dec.Decode(&v); err != nil {
		return nil, err
	}
	if dec.More() {
		return nil, fmt.Errorf("trailing data after JSON value")
	}
	return v, nil
}
