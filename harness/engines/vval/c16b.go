package vval

import (
	"bytes"
	"context"
	"fmt"
	"strings"
	"unicode/utf8"

	"github.com/dolthub/go-mysql-server/sql"
	gmstypes "github.com/dolthub/go-mysql-server/sql/types"
	"github.com/dolthub/vitess/go/sqltypes"

	"github.com/dolthub/dolt/go/libraries/doltcore/schema"
	"github.com/dolthub/dolt/go/store/prolly/tree"
	"github.com/dolthub/dolt/go/store/val"

	"verif/rig"
)

// bytesChild is the trivial child handler used to drive val.AdaptiveEncodingTypeHandler.SerializedCompare.
type bytesChild struct{}

func (bytesChild) SerializedCompare(_ context.Context, a, b []byte) (int, error) {
	return bytes.Compare(a, b), nil
}
func (bytesChild) SerializeValue(_ context.Context, v any) ([]byte, error)   { return v.([]byte), nil }
func (bytesChild) DeserializeValue(_ context.Context, b []byte) (any, error) { return b, nil }
func (bytesChild) FormatValue(v any) (string, error)                         { return fmt.Sprint(v), nil }
func (bytesChild) SerializationCompatible(o val.TupleTypeHandler) bool {
	_, ok := o.(bytesChild)
	return ok
}
func (bytesChild) ConvertSerialized(_ context.Context, _ val.TupleTypeHandler, b []byte) ([]byte, error) {
	return b, nil
}

const c16MaxInline = 60000 // an inline adaptive field must fit a tuple (val.MaxTupleDataSize)
const c16MinOOB = 32

func (x *c16Run) forms(b []byte) map[string]val.AdaptiveValue {
	out := map[string]val.AdaptiveValue{}
	if len(b) <= c16MaxInline {
		out["inline"] = val.AdaptiveValueInlineBytes(b)
	}
	if len(b) >= c16MinOOB {
		av, err := val.NewOutOfBandAdaptiveValue(bg, x.ns, b)
		rig.Must(err)
		out["oob"] = av
	}
	return out
}

var c16Targets = []uint16{val.DefaultTupleLengthTarget, 256, 5000}

// tuples puts one value into adaptive tuple fields at several row-size targets through several routes.
func (x *c16Run) tuples(v c16Value, idx int) {
	c := x.c
	n := len(v.b)
	if n > c16MaxInline && n != 200*c16Chunk {
		// values that can never be inline are exercised at the default target only, a few of them
		if idx%3 != 0 {
			return
		}
	}
	type adaptive struct {
		name string
		enc  val.Encoding
		put  func(tb *val.TupleBuilder) error
		read func(td *val.TupleDesc, t val.Tuple) ([]byte, string, error)
	}
	unwrapB := func(v any) ([]byte, string, error) {
		switch w := v.(type) {
		case []byte:
			return w, "inline", nil
		case string:
			return []byte(w), "inline", nil
		case *val.ByteArray:
			b, err := w.ToBytes(bg)
			return b, "oob", err
		case *val.TextStorage:
			s, err := w.Unwrap(bg)
			return []byte(s), "oob", err
		case nil:
			return nil, "null", nil
		}
		return nil, "?", fmt.Errorf("unexpected type %T", v)
	}
	ai, fx := 1, 4 // index of the adaptive column, bytes of the fixed columns in front of it
	kinds := []adaptive{
		{"bytes", val.BytesAdaptiveEnc,
			func(tb *val.TupleBuilder) error { return tb.PutAdaptiveBytesFromInline(bg, ai, v.b) },
			func(td *val.TupleDesc, t val.Tuple) ([]byte, string, error) {
				g, _, err := td.GetBytesAdaptiveValue(bg, ai, x.ns, t)
				if err != nil {
					return nil, "", err
				}
				return unwrapB(g)
			}},
		{"string", val.StringAdaptiveEnc,
			func(tb *val.TupleBuilder) error { return tb.PutAdaptiveStringFromInline(bg, ai, string(v.b)) },
			func(td *val.TupleDesc, t val.Tuple) ([]byte, string, error) {
				g, _, err := td.GetStringAdaptiveValue(bg, ai, x.ns, t)
				if err != nil {
					return nil, "", err
				}
				return unwrapB(g)
			}},
	}
	for _, target := range c16Targets {
		if n > c16MaxInline && target != val.DefaultTupleLengthTarget {
			continue
		}
		for _, k := range kinds {
			for _, withFixed := range []bool{true, false} {
				// with and without a fixed-width column in front: alone, the adaptive column meets the target exactly at len+1
				td := val.NewTupleDescriptor(val.Type{Enc: val.Int32Enc}, val.Type{Enc: k.enc, Nullable: true})
				ai, fx = 1, 4
				if !withFixed {
					td = val.NewTupleDescriptor(val.Type{Enc: k.enc, Nullable: true})
					ai, fx = 0, 0
				}
				newTB := func() *val.TupleBuilder {
					tb := val.NewTupleBuilder(td, x.ns)
					if target != val.DefaultTupleLengthTarget {
						tb = tb.WithMaxRowSize(target)
					}
					if withFixed {
						tb.PutInt32(0, 7)
					}
					return tb
				}
				tb := newTB()
				rig.Must(k.put(tb))
				t0, err := tb.Build(bg, x.pool)
				rig.Must(err)
				c.Count("c16.adaptive_tuples", 1)
				field := td.GetField(ai, t0)
				isInline := val.IsInlineAdaptiveBytes(field)
				// the documented switch point: a row whose fields need more than the target goes out of band
				fits := fx+n+1 <= int(target)
				saves := n+1 > 21+3 // an address (varint + 20 bytes) must be shorter than the inline form
				if !saves && !isInline {
					x.lim.Violation("c16/threshold/"+k.name, "a value shorter than an address was stored out of band", map[string]any{"size": n, "target": target})
				}
				if saves && isInline != fits {
					x.lim.Violation("c16/threshold/"+k.name, "inline/out-of-band decision is not at the row-size target",
						map[string]any{"size": n, "target": target, "inline": isInline, "row_bytes_if_inline": fx + n + 1, "fixed_columns_bytes": fx})
				}
				if n+1+fx >= int(target)-2 && n+1+fx <= int(target)+2 {
					c.Count("c16.values_at_threshold", 1)
				}
				if isInline {
					c.Count("c16.stored_inline", 1)
				} else {
					c.Count("c16.stored_out_of_band", 1)
				}
				// read back through the three decoders
				got, form, err := k.read(td, t0)
				if err != nil || !bytes.Equal(got, v.b) || (form == "inline") != isInline {
					x.lim.Violation("c16/readback/adaptive-"+k.name, "adaptive field does not read back the written value",
						map[string]any{"size": n, "kind": v.kind, "target": target, "form": form, "err": fmt.Sprint(err), "got": clip(got)})
				}
				gf, err := tree.GetField(bg, td, ai, t0, x.ns)
				if err == nil {
					got, _, err = unwrapB(gf)
				}
				if err != nil || !bytes.Equal(got, v.b) {
					x.lim.Violation("c16/readback/getfield-"+k.name, "tree.GetField does not read back the written value",
						map[string]any{"size": n, "kind": v.kind, "target": target, "err": fmt.Sprint(err), "got": clip(got)})
				}
				sv, err := tree.GetFieldValue(bg, td, ai, t0, x.ns)
				if err == nil {
					if sv.WrappedVal != nil {
						var u any
						u, err = sv.WrappedVal.UnwrapAny(bg)
						if err == nil {
							got, _, err = unwrapB(u)
						}
					} else {
						got = sv.Val
					}
				}
				if err != nil || !bytes.Equal(got, v.b) {
					x.lim.Violation("c16/readback/getfieldvalue-"+k.name, "tree.GetFieldValue does not read back the written value",
						map[string]any{"size": n, "kind": v.kind, "target": target, "err": fmt.Sprint(err), "got": clip(got)})
				}
				c.Count("c16.readbacks", 3)

				// other construction routes for the same row
				routes := map[string]val.Tuple{}
				if n <= c16MaxInline {
					tb := newTB()
					tb.PutRaw(ai, val.AdaptiveValueInlineBytes(v.b))
					t, err := tb.Build(bg, x.pool)
					rig.Must(err)
					routes["putraw-inline-form"] = t
				}
				{ // tree.PutField with the plain Go value
					tb := newTB()
					if k.enc == val.BytesAdaptiveEnc {
						rig.Must(tree.PutField(bg, x.ns, tb, ai, v.b))
					} else {
						rig.Must(tree.PutField(bg, x.ns, tb, ai, string(v.b)))
					}
					t, err := tb.Build(bg, x.pool)
					rig.Must(err)
					routes["putfield-plain"] = t
				}
				if n >= 1 { // tree.PutField with the wrapper read from an address column / another row (INSERT ... SELECT)
					h, err := x.ns.WriteBytes(bg, v.b)
					rig.Must(err)
					tb := newTB()
					if k.enc == val.BytesAdaptiveEnc {
						rig.Must(tree.PutField(bg, x.ns, tb, ai, val.NewByteArray(h, x.ns)))
					} else {
						rig.Must(tree.PutField(bg, x.ns, tb, ai, val.NewTextStorage(h, x.ns)))
					}
					t, err := tb.Build(bg, x.pool)
					rig.Must(err)
					routes["putfield-wrapper"] = t
					if !isInline {
						// ... and the wrapper decoded from this very tuple
						gf, err := tree.GetField(bg, td, ai, t0, x.ns)
						rig.Must(err)
						tb := newTB()
						rig.Must(tree.PutField(bg, x.ns, tb, ai, gf))
						t, err := tb.Build(bg, x.pool)
						rig.Must(err)
						routes["putfield-wrapper-from-tuple"] = t
					}
				}
				for name, t := range routes {
					c.Count("c16.tuple_route_checks", 1)
					if !bytes.Equal(t, t0) {
						x.lim.Violation("c16/tuple-route/"+k.name+"/"+name, "the same row built through two routes is not byte-identical",
							map[string]any{"size": n, "kind": v.kind, "target": target, "from-inline": clip(t0), name: clip(t)})
					}
				}
			}
		}
	}
}

// ---------------------------------------------------------------- comparisons

type c16Pair struct {
	a, b     []byte
	kind     string
	relation string // self | prefix | mutation | unrelated
	offClass string // where the cut / first difference is relative to the 4000-byte chunk grid
	utf8     bool
}

func offClass(p int) string {
	switch m := p % c16Chunk; {
	case p == 0:
		return "start"
	case m == 0:
		return "at-chunk-boundary"
	case m == c16Chunk-1:
		return "last-byte-of-chunk"
	case m == 1:
		return "second-byte-of-chunk"
	case p < c16Chunk:
		return "inside-first-chunk"
	}
	return "inside-later-chunk"
}

var c16RuneSwap = map[string]string{"é": "ñ", "ñ": "é", "ü": "é", "ß": "é", "中": "丮", "文": "斈", "😀": "😁", "𝄞": "𝄟", "a": "b", "x": "y"}

// mutateAt returns a copy of b that first differs from b in the byte at offset p (or in the rune containing p when
// keepUTF8 is set, in which case the first differing byte may be a later byte of that rune).
func mutateAt(b []byte, p int, keepUTF8 bool) ([]byte, int) {
	out := bytes.Clone(b)
	if !keepUTF8 {
		out[p] ^= 0x01
		return out, p
	}
	s := p
	for s > 0 && !utf8.RuneStart(out[s]) {
		s--
	}
	_, sz := utf8.DecodeRune(out[s:])
	old := string(out[s : s+sz])
	repl, ok := c16RuneSwap[old]
	if !ok || len(repl) != sz {
		if sz == 1 && out[s] < 0x7e && out[s] >= 0x20 {
			out[s]++
			return out, s
		}
		return nil, 0
	}
	copy(out[s:], repl)
	for i := s; i < s+sz; i++ {
		if out[i] != b[i] {
			return out, i
		}
	}
	return nil, 0
}

func (x *c16Run) pairs(values []c16Value) {
	c := x.c
	var ps []c16Pair
	for i, v := range values {
		n := len(v.b)
		if n == 0 {
			continue
		}
		isText := v.kind == "ascii" || v.kind == "multibyte"
		ps = append(ps, c16Pair{v.b, v.b, v.kind, "self", "-", isText})
		cuts := map[int]bool{n - 1: true}
		muts := map[int]bool{0: true, n - 1: true, n / 2: true}
		nb := n / c16Chunk
		for _, k := range []int{1, 2, 3, nb - 1, nb} {
			if k < 1 {
				continue
			}
			for _, d := range []int{-2, -1, 0, 1} {
				p := k*c16Chunk + d
				if p > 0 && p < n {
					cuts[p] = true
				}
				if p >= 0 && p < n {
					muts[p] = true
				}
			}
		}
		if n > 100*c16Chunk { // giant values: only the structurally interesting points
			cuts = map[int]bool{c16Chunk: true, 200 * c16Chunk: true, n - 1: true}
			muts = map[int]bool{c16Chunk: true, 200*c16Chunk - 1: true, n - 1: true}
			for p := range cuts {
				if p >= n {
					delete(cuts, p)
				}
			}
			for p := range muts {
				if p >= n {
					delete(muts, p)
				}
			}
		}
		for p := range cuts {
			pre := v.b[:p]
			if isText && !utf8.Valid(pre) {
				// cutting inside a rune would make the prefix invalid UTF-8: compare it as bytes only
				ps = append(ps, c16Pair{pre, v.b, v.kind, "prefix", offClass(p), false})
				continue
			}
			ps = append(ps, c16Pair{pre, v.b, v.kind, "prefix", offClass(p), isText})
		}
		for p := range muts {
			m, at := mutateAt(v.b, p, isText)
			if m == nil {
				continue
			}
			ps = append(ps, c16Pair{v.b, m, v.kind, "mutation", offClass(at), isText})
		}
		if i+1 < len(values) && len(values[i+1].b) > 0 && n < 100*c16Chunk && len(values[i+1].b) < 100*c16Chunk {
			w := values[i+1]
			ps = append(ps, c16Pair{v.b, w.b, v.kind + "/" + w.kind, "unrelated", "-", isText && (w.kind == "ascii" || w.kind == "multibyte")})
		}
	}
	// deterministic order (map iteration above)
	sortPairs(ps)

	colls := []sql.CollationID{sql.Collation_utf8mb4_0900_bin, sql.Collation_utf8mb4_0900_ai_ci, sql.Collation_utf8mb4_general_ci}
	strTypes := map[sql.CollationID]sql.StringType{}
	for _, cl := range colls {
		st, err := gmstypes.CreateString(sqltypes.Text, 1<<30, cl)
		rig.Must(err)
		strTypes[cl] = st
	}
	handler := val.NewAdaptiveTypeHandler(x.ns, bytesChild{})
	keyDesc := val.NewTupleDescriptorWithArgs(val.TupleDescriptorArgs{ValueStore: x.ns}, val.Type{Enc: val.BytesAdaptiveEnc, Nullable: true})
	extDesc := val.NewTupleDescriptorWithArgs(val.TupleDescriptorArgs{ValueStore: x.ns, Handlers: []val.TupleTypeHandler{handler}}, val.Type{Enc: val.ExtendedAdaptiveEnc, Nullable: true})
	collDesc := map[sql.CollationID]*val.TupleDesc{}
	for _, cl := range colls {
		collDesc[cl] = val.NewTupleDescriptorWithArgs(val.TupleDescriptorArgs{Comparator: schema.CollationTupleComparator{Collations: []sql.CollationID{cl}}, ValueStore: x.ns},
			val.Type{Enc: val.StringAdaptiveEnc, Nullable: true})
	}

	for pi, p := range ps {
		c.Case(fmt.Sprintf("c16/pair/%d", pi), map[string]any{"kind": p.kind, "relation": p.relation, "off": p.offClass, "len_a": len(p.a), "len_b": len(p.b)})
		c.Distinct(fmt.Sprintf("pair/%s/%s/%s", p.kind, p.relation, p.offClass))
		fa, fb := x.forms(p.a), x.forms(p.b)
		want := sign(bytes.Compare(p.a, p.b))
		wantColl := map[sql.CollationID]int{}
		if p.utf8 {
			for _, cl := range colls {
				w, err := strTypes[cl].Compare(bg, string(p.a), string(p.b))
				rig.Must(err)
				wantColl[cl] = sign(w)
			}
		}
		for _, na := range []string{"inline", "oob"} {
			for _, nbm := range []string{"inline", "oob"} {
				l, ok1 := fa[na]
				r, ok2 := fb[nbm]
				if !ok1 || !ok2 {
					continue
				}
				combo := na + "-vs-" + nbm
				c.Count("c16.compare_form_combos."+combo, 1)
				report := func(entry string, got, want int, extra string) {
					family := "bytes"
					switch {
					case strings.HasPrefix(entry, "SerializedCompare"), strings.Contains(entry, "ExtendedAdaptive"):
						family = "handler"
					case strings.Contains(entry, "Collated"), strings.Contains(entry, "StringAdaptive"):
						family = "collated"
					}
					cls := c16Classify(p, na, nbm, family == "collated")
					x.lim.Violation(fmt.Sprintf("c16/compare/%s/%s", family, cls),
						"comparison of two values depends on their stored form (disagrees with the comparison of the plain values)",
						map[string]any{"entry": entry, "forms": combo, "got": got, "want": want, "kind": p.kind, "relation": p.relation, "first_difference": p.offClass,
							"len_left": len(p.a), "len_right": len(p.b), "left": clip(p.a), "right": clip(p.b), "note": extra})
				}
				for dir := 0; dir < 2; dir++ { // both argument orders
					ll, rr, w := l, r, want
					if dir == 1 {
						ll, rr, w = r, l, -want
					}
					g, err := x.ns.CompareAdaptive(bg, ll, rr, val.BytesAdaptiveEnc)
					rig.Must(err)
					if sign(g) != w {
						report("CompareAdaptive", sign(g), w, fmt.Sprintf("dir=%d", dir))
					}
					g, err = handler.SerializedCompare(bg, ll, rr)
					rig.Must(err)
					if sign(g) != w {
						report("SerializedCompare", sign(g), w, fmt.Sprintf("dir=%d", dir))
					}
					g, err = keyDesc.Compare(bg, val.NewTuple(x.pool, ll), val.NewTuple(x.pool, rr))
					rig.Must(err)
					if sign(g) != w {
						report("TupleDesc.Compare(BytesAdaptive)", sign(g), w, fmt.Sprintf("dir=%d", dir))
					}
					g, err = extDesc.Compare(bg, val.NewTuple(x.pool, ll), val.NewTuple(x.pool, rr))
					rig.Must(err)
					if sign(g) != w {
						report("TupleDesc.Compare(ExtendedAdaptive)", sign(g), w, fmt.Sprintf("dir=%d", dir))
					}
					c.Count("c16.compares", 4)
					if p.utf8 {
						for _, cl := range colls {
							wc := wantColl[cl]
							if dir == 1 {
								wc = -wc
							}
							g, err := x.ns.CompareAdaptiveCollatedStrings(bg, ll, rr, cl)
							rig.Must(err)
							if sign(g) != wc {
								report("CompareAdaptiveCollatedStrings/"+cl.Name(), sign(g), wc, fmt.Sprintf("dir=%d", dir))
							}
							g, err = collDesc[cl].Compare(bg, val.NewTuple(x.pool, ll), val.NewTuple(x.pool, rr))
							rig.Must(err)
							if sign(g) != wc {
								report("TupleDesc.Compare(StringAdaptive)/"+cl.Name(), sign(g), wc, fmt.Sprintf("dir=%d", dir))
							}
							c.Count("c16.collated_compares", 2)
						}
					}
				}
			}
		}
	}
	c.Count("c16.pairs", len(ps))
}

// blobHeight is the number of internal levels of the blob tree of an n-byte value (BlobBuilder.Init).
func blobHeight(n int) int {
	if n <= c16Chunk {
		return 0
	}
	h := 0
	for d := n / c16Chunk; d > 0; d /= c16Chunk / 20 {
		h++
	}
	return h
}

// c16Classify names the structural class of a failing pair (a property of the input, not a diagnosis), so that
// distinct defects get distinct keys.
func c16Classify(p c16Pair, formL, formR string, collated bool) string {
	if (formL == "inline" && len(p.a) > c16Chunk) || (formR == "inline" && len(p.b) > c16Chunk) {
		return "inline-operand-longer-than-one-chunk"
	}
	if p.relation == "self" {
		return "equal-values"
	}
	d := firstDiff(p.a, p.b)
	if collated {
		cs := d / c16Chunk * c16Chunk
		if cs > 0 && ((cs < len(p.a) && !utf8.RuneStart(p.a[cs])) || (cs < len(p.b) && !utf8.RuneStart(p.b[cs]))) {
			return "differing-chunk-starts-inside-a-rune"
		}
	} else {
		hl, hr := blobHeight(len(p.a)), blobHeight(len(p.b))
		if formL == "inline" {
			hl = 0
		}
		if formR == "inline" {
			hr = 0
		}
		if hl != hr {
			return "blob-trees-of-different-height"
		}
	}
	if d == len(p.a) || d == len(p.b) {
		return "prefix-cut-" + offClass(d)
	}
	return "difference-" + offClass(d)
}

func sortPairs(ps []c16Pair) {
	type keyed struct {
		k string
		p c16Pair
	}
	ks := make([]keyed, len(ps))
	for i, p := range ps {
		ks[i] = keyed{fmt.Sprintf("%s|%s|%s|%09d|%09d|%x", p.kind, p.relation, p.offClass, len(p.a), len(p.b), firstDiff(p.a, p.b)), p}
	}
	sortSlice(ks, func(i, j int) bool { return ks[i].k < ks[j].k })
	for i := range ks {
		ps[i] = ks[i].p
	}
}

func firstDiff(a, b []byte) int {
	d := 0
	for d < len(a) && d < len(b) && a[d] == b[d] {
		d++
	}
	return d
}
