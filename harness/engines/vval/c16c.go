package vval

import (
	"bytes"
	"fmt"
	"sort"

	"github.com/dolthub/go-mysql-server/sql"
	gmstypes "github.com/dolthub/go-mysql-server/sql/types"

	"github.com/dolthub/dolt/go/store/hash"
	"github.com/dolthub/dolt/go/store/prolly/tree"
	"github.com/dolthub/dolt/go/store/val"

	"verif/rig"
)

func sortSlice[T any](xs []T, less func(i, j int) bool) { sort.Slice(xs, less) }

// multiColumn: rows with several adaptive columns whose total is around the row-size target. The row must be
// byte-identical whatever the order/form in which the columns were supplied, every column must read back, a row that
// fits must be entirely inline, and the columns that went out of band must be the largest ones (documented selection rule).
func (x *c16Run) multiColumn() {
	c := x.c
	n := c.Pick(300, 6000)
	for i := 0; i < n; i++ {
		r := c.SubRand("c16/multi", i)
		ncol := 2 + r.Intn(3)
		target := pick(r, c16Targets)
		types := []val.Type{{Enc: val.Int64Enc}}
		vals := make([][]byte, ncol+1)
		budget := int(float64(target) * (0.4 + 1.4*r.Float64()))
		for k := 1; k <= ncol; k++ {
			enc := pick(r, []val.Encoding{val.BytesAdaptiveEnc, val.StringAdaptiveEnc})
			types = append(types, val.Type{Enc: enc, Nullable: true})
			sz := 0
			switch r.Intn(6) {
			case 0: // NULL
				continue
			case 1:
				sz = r.Intn(40)
			case 2:
				sz = budget / ncol // equal sizes: ties in the selection
			default:
				sz = r.Intn(budget + 1)
			}
			kind := "random"
			if enc == val.StringAdaptiveEnc {
				kind = "ascii"
			}
			vals[k] = c16Gen(r, kind, sz)
		}
		c.Case(fmt.Sprintf("c16/multi/%d", i), map[string]any{"target": target, "sizes": lens(vals)})
		td := val.NewTupleDescriptor(types...)
		newTB := func() *val.TupleBuilder {
			tb := val.NewTupleBuilder(td, x.ns)
			if target != val.DefaultTupleLengthTarget {
				tb = tb.WithMaxRowSize(target)
			}
			tb.PutInt64(0, int64(i))
			return tb
		}
		putInline := func(tb *val.TupleBuilder, k int) {
			if vals[k] == nil {
				return
			}
			if types[k].Enc == val.BytesAdaptiveEnc {
				rig.Must(tb.PutAdaptiveBytesFromInline(bg, k, vals[k]))
			} else {
				rig.Must(tb.PutAdaptiveStringFromInline(bg, k, string(vals[k])))
			}
		}
		build := func(order []int, put func(tb *val.TupleBuilder, k int)) val.Tuple {
			tb := newTB()
			for _, k := range order {
				put(tb, k)
			}
			t, err := tb.Build(bg, x.pool)
			rig.Must(err)
			return t
		}
		fwd, rev := []int{}, []int{}
		for k := 1; k <= ncol; k++ {
			fwd = append(fwd, k)
			rev = append([]int{k}, rev...)
		}
		t0 := build(fwd, putInline)
		routes := map[string]val.Tuple{
			"reverse-put-order": build(rev, putInline),
			"putfield-plain": build(fwd, func(tb *val.TupleBuilder, k int) {
				if vals[k] == nil {
					return
				}
				if types[k].Enc == val.BytesAdaptiveEnc {
					rig.Must(tree.PutField(bg, x.ns, tb, k, vals[k]))
				} else {
					rig.Must(tree.PutField(bg, x.ns, tb, k, string(vals[k])))
				}
			}),
			"putfield-wrappers": build(fwd, func(tb *val.TupleBuilder, k int) {
				if vals[k] == nil {
					return
				}
				var h hash.Hash
				if len(vals[k]) > 0 {
					var err error
					h, err = x.ns.WriteBytes(bg, vals[k])
					rig.Must(err)
				}
				if types[k].Enc == val.BytesAdaptiveEnc {
					rig.Must(tree.PutField(bg, x.ns, tb, k, val.NewByteArray(h, x.ns)))
				} else {
					rig.Must(tree.PutField(bg, x.ns, tb, k, val.NewTextStorage(h, x.ns)))
				}
			}),
		}
		for name, t := range routes {
			c.Count("c16.tuple_route_checks", 1)
			if !bytes.Equal(t, t0) {
				x.lim.Violation("c16/tuple-route/multi/"+name, "the same multi-column row built through two routes is not byte-identical",
					map[string]any{"target": target, "sizes": lens(vals), "a": clip(t0), "b": clip(t)})
			}
		}
		// read back + form bookkeeping
		inlineTotal := 8
		type colInfo struct {
			inlineSize, savings int
			inline              bool
		}
		var cols []colInfo
		for k := 1; k <= ncol; k++ {
			f := td.GetField(k, t0)
			if vals[k] == nil {
				if f != nil {
					x.lim.Violation("c16/readback/multi-null", "a NULL adaptive column does not read back as NULL", map[string]any{"col": k})
				}
				continue
			}
			var got []byte
			var err error
			if b, ok := val.InlineValueBytes(f); ok {
				got = b
			} else {
				var a hash.Hash
				a, err = val.AdaptiveValue(f).OutOfBandAddr()
				if err == nil {
					got, err = x.ns.ReadBytes(bg, a)
				}
			}
			if err != nil || !bytes.Equal(got, vals[k]) {
				x.lim.Violation("c16/readback/multi", "a column of a multi-column adaptive row does not read back the written value",
					map[string]any{"col": k, "size": len(vals[k]), "err": fmt.Sprint(err), "got": clip(got)})
			}
			is := len(vals[k]) + 1
			inlineTotal += is
			oob := 20 + varintLen(uint64(len(vals[k])))
			cols = append(cols, colInfo{inlineSize: is, savings: is - oob, inline: val.IsInlineAdaptiveBytes(f)})
		}
		c.Count("c16.readbacks", len(cols))
		anyOOB := false
		for _, ci := range cols {
			if !ci.inline {
				anyOOB = true
			}
		}
		if inlineTotal <= int(target) && anyOOB {
			x.lim.Violation("c16/threshold/multi-fits", "a row that fits the row-size target has an out-of-band column", map[string]any{"target": target, "sizes": lens(vals)})
		}
		if inlineTotal > int(target) {
			c.Count("c16.multi_rows_over_target", 1)
			for _, a := range cols {
				for _, b := range cols {
					if a.inline && !b.inline && a.savings > b.savings && a.savings > 0 {
						x.lim.Violation("c16/threshold/multi-selection", "a smaller column went out of band while a larger one stayed inline", map[string]any{"target": target, "sizes": lens(vals)})
					}
				}
			}
		} else {
			c.Count("c16.multi_rows_within_target", 1)
		}
		c.Distinct(fmt.Sprintf("multi/%d/%d/%v", ncol, target, inlineTotal > int(target)))
	}
}

func varintLen(x uint64) int {
	switch {
	case x <= 240:
		return 1
	case x <= 2287:
		return 2
	case x <= 67823:
		return 3
	case x <= 1<<24-1:
		return 4
	case x <= 1<<32-1:
		return 5
	}
	return 9
}

func lens(vs [][]byte) []int {
	out := make([]int, 0, len(vs))
	for _, v := range vs[1:] {
		if v == nil {
			out = append(out, -1)
		} else {
			out = append(out, len(v))
		}
	}
	return out
}

// jsonValues: JSON documents of sizes around the thresholds through the adaptive and the address encodings.
func (x *c16Run) jsonValues() {
	c := x.c
	n := c.Pick(160, 3000)
	type jv struct {
		v   any
		buf []byte
	}
	var docs []jv
	for i := 0; i < n; i++ {
		r := c.SubRand("c16/json", i)
		g := &jgen{r: r, escKeys: true}
		var v any
		switch i % 5 {
		case 0:
			v = g.scalar()
		case 1:
			v = g.value(6)
		case 2: // around the inline threshold
			v = g.big(1700 + r.Intn(700))
		case 3: // around the blob chunk length
			v = g.big(3600 + r.Intn(900))
		default:
			v = g.big(5000 + r.Intn(c.Pick(40000, 300000)))
		}
		v = jNorm(v)
		buf := jMarshal(v)
		docs = append(docs, jv{v, buf})
		c.Case(fmt.Sprintf("c16/json/%d", i), map[string]any{"bytes": len(buf)})
		c.Distinct(fmt.Sprintf("json/%d/%d", i%5, len(buf)/500))

		// adaptive column
		td := val.NewTupleDescriptor(val.Type{Enc: val.Int32Enc}, val.Type{Enc: val.JsonAdaptiveEnc, Nullable: true}, val.Type{Enc: val.JSONAddrEnc, Nullable: true})
		tb := val.NewTupleBuilder(td, x.ns)
		tb.PutInt32(0, 1)
		rig.Must(tree.PutField(bg, x.ns, tb, 1, gmstypes.JSONDocument{Val: jClone(v)}))
		rig.Must(tree.PutField(bg, x.ns, tb, 2, gmstypes.JSONDocument{Val: jClone(v)}))
		t0, err := tb.Build(bg, x.pool)
		rig.Must(err)
		f := td.GetField(1, t0)
		if val.IsInlineAdaptiveBytes(f) {
			c.Count("c16.json_stored_inline", 1)
		} else {
			c.Count("c16.json_stored_out_of_band", 1)
		}
		for _, col := range []int{1, 2} {
			gf, err := tree.GetField(bg, td, col, t0, x.ns)
			var got any
			if err == nil {
				w, ok := gf.(sql.JSONWrapper)
				if !ok {
					err = fmt.Errorf("GetField returned %T", gf)
				} else {
					got, err = w.ToInterface(bg)
				}
			}
			c.Count("c16.readbacks", 1)
			if err != nil || !jEqual(got, v) {
				x.lim.Violation(fmt.Sprintf("c16/readback/json-%s", []string{"", "adaptive", "addr"}[col]), "JSON column does not read back a JSON-equal document",
					map[string]any{"bytes": len(buf), "err": fmt.Sprint(err), "written": clipS(string(buf)), "read": clipS(string(jMarshalSafe(got)))})
			}
		}
		// the same document from the three wrapper kinds gives one indexed tree
		r1, err := tree.SerializeJsonToAddr(bg, x.ns, gmstypes.JSONDocument{Val: jClone(v)})
		rig.Must(err)
		r2, err := tree.SerializeJsonToAddr(bg, x.ns, gmstypes.NewLazyJSONDocument(buf))
		rig.Must(err)
		r3, err := tree.SerializeJsonToAddr(bg, x.ns2, gmstypes.JSONDocument{Val: jNorm(v)})
		rig.Must(err)
		a2, _ := td.GetJSONAddr(2, t0)
		c.Count("c16.route_hash_checks", 3)
		if r1.HashOf() != r2.HashOf() || r1.HashOf() != r3.HashOf() || r1.HashOf() != a2 {
			x.lim.Violation("c16/route-hash/json", "one JSON document, several production routes, different tree addresses",
				map[string]any{"bytes": len(buf), "JSONDocument": r1.HashOf().String(), "LazyJSONDocument": r2.HashOf().String(), "second store": r3.HashOf().String(), "PutField(JSONAddrEnc)": a2.String()})
		}
		if r1.Level() > 0 {
			c.Count("c16.json_multi_chunk_docs", 1)
		}
	}
	// comparisons: inline vs out-of-band forms of JSON documents must order like the documents
	np := 0
	for i := 0; i+1 < len(docs) && np < c.Pick(150, 2500); i++ {
		for _, j := range []int{i, i + 1} {
			a, b := docs[i], docs[j]
			want, err := gmstypes.CompareJSON(bg, a.v, b.v)
			rig.Must(err)
			fa, fb := x.forms(a.buf), x.forms(b.buf)
			for na, l := range fa {
				for nb, rr := range fb {
					g, err := x.ns.CompareAdaptive(bg, l, rr, val.JsonAdaptiveEnc)
					c.Count("c16.json_compares", 1)
					if err != nil || sign(g) != sign(want) {
						cls := "other"
						_, ao := a.v.(map[string]any)
						_, bo := b.v.(map[string]any)
						_, aa := a.v.([]any)
						_, ba := b.v.([]any)
						switch {
						case want == 0:
							cls = "equal-documents"
						case ao && bo:
							cls = "order-of-unequal-objects"
						case aa && ba:
							cls = "order-of-unequal-arrays"
						}
						x.lim.Violation("c16/compare/json/"+cls+"/"+na+"-vs-"+nb, "comparison of two JSON documents depends on their stored form",
							map[string]any{"got": g, "want": want, "err": fmt.Sprint(err), "left": clipS(string(a.buf)), "right": clipS(string(b.buf))})
					}
				}
			}
			np++
		}
	}
}

func jMarshalSafe(v any) []byte {
	b, err := gmstypes.MarshallJsonValue(v)
	if err != nil {
		return []byte(fmt.Sprintf("<%v>", err))
	}
	return b
}
