package vval

import (
	"encoding/json"
	"fmt"
	"math/rand"
	"reflect"
	"regexp"
	"sort"
	"strconv"
	"strings"

	gmstypes "github.com/dolthub/go-mysql-server/sql/types"

	"verif/rig"
)

// JSON value generator shared by C16 and C17. Values are built from map[string]any / []any / string / float64 /
// bool / nil only (what json.Unmarshal produces), so that the in-memory reference and the stored document see the
// same Go types.

type jgen struct {
	r *rand.Rand
	// escKeys: also use keys whose JSON text needs backslash escapes other than \" (control characters, backslash).
	// Paths never address such keys (the reference implementation's own path syntax for them is inconsistent);
	// they are present to stress the scanner and the chunk index ordering.
	escKeys bool
}

// keys with shared prefixes; keys that need quoting in a path; keys that need escaping in JSON text
var jKeysPlain = []string{"a", "aa", "ab", "abc", "abd", "b", "ba", "k", "k1", "k10", "k2", "children", "number", "string", "z", "A", "Z", "_", "a_b", "a1"}
var jKeysQuoted = []string{"a b", "a.b", "a.c", "a[0]", "a\"b", "\"", "a\"", "é", "ée", "中", "a-b", "a,b", "a:b", "{", "}", "[", "]", "a}", "$", "$.a", "k 1", "'", "a'b", "1", "0", "10", "<k>", "a&b"}
var jKeysEscaped = []string{"a\\b", "\\", "a\nb", "a\tb", "\x01", "a\\", "a\\\"", "\\\"", "a\x1fb"}

func (g *jgen) key() string {
	switch x := g.r.Intn(10); {
	case x < 6:
		return pick(g.r, jKeysPlain)
	case x < 9 || !g.escKeys:
		return pick(g.r, jKeysQuoted)
	}
	return pick(g.r, jKeysEscaped)
}

var jStrings = []string{"", "x", "dolt", "a b", "<tag>&amp;</tag>", `<`, `back\slash`, `quote"q`, "new\nline", "tab\t", "é中😀", "  ", "\x01\x1f", "null", "true", "1", "[]", "{}", `","`, `":`, "}", "]",
	"a,b", "\\", "\\\"", "ÿ", "�"}

func (g *jgen) scalar() any {
	switch g.r.Intn(9) {
	case 0:
		return nil
	case 1:
		return g.r.Intn(2) == 0
	case 2:
		return float64(g.r.Intn(2000) - 1000)
	case 3:
		return pick(g.r, []float64{0, 1, -1, 1.5, -2.25, 1e20, 1e-7, 123456789012, 1e21, 1e-6, 0.1, 9007199254740993, 3.141592653589793, 1.7976931348623157e308, 5e-324})
	case 4:
		n := []int{0, 3, 20, 200, 1500}[g.r.Intn(5)]
		var sb strings.Builder
		for sb.Len() < n {
			sb.WriteString(pick(g.r, []string{"lorem", " ", "ipsum", "é", "\"", "\\", "<", "\n", "😀"}))
		}
		return sb.String()
	default:
		return pick(g.r, jStrings)
	}
}

func (g *jgen) value(depth int) any {
	if depth <= 0 || g.r.Intn(3) == 0 {
		return g.scalar()
	}
	n := g.r.Intn(5)
	if g.r.Intn(2) == 0 {
		m := map[string]any{}
		for i := 0; i < n; i++ {
			m[g.key()] = g.value(depth - 1)
		}
		return m
	}
	a := make([]any, 0, n)
	for i := 0; i < n; i++ {
		a = append(a, g.value(depth-1))
	}
	return a
}

// object returns an object (the only shape MergeJSON merges field-wise).
func (g *jgen) object(depth, width int) map[string]any {
	m := map[string]any{}
	for i := 0; i < width; i++ {
		m[g.key()] = g.value(depth - 1)
	}
	return m
}

// big returns a document whose serialisation is at least |size| bytes (several chunks), as an object or an array of
// objects with many sibling keys sharing prefixes.
func (g *jgen) big(size int) any {
	obj := g.r.Intn(2) == 0
	m := map[string]any{}
	var a []any
	total := 0
	for i := 0; total < size; i++ {
		v := g.value(3)
		total += len(jMarshal(v)) + 8
		if obj {
			k := g.key()
			if g.r.Intn(2) == 0 {
				k = k + strconv.Itoa(g.r.Intn(500))
			}
			m[k] = v
		} else {
			a = append(a, v)
		}
	}
	if obj {
		return m
	}
	return a
}

func jMarshal(v any) []byte {
	b, err := gmstypes.MarshallJsonValue(v)
	rig.Must(err)
	return b
}

// jNorm brings a value into the canonical Go shape (float64 numbers, map[string]any, []any).
func jNorm(v any) any {
	var out any
	rig.Must(json.Unmarshal(jMarshal(v), &out))
	return out
}

func jClone(v any) any {
	switch t := v.(type) {
	case map[string]any:
		m := make(map[string]any, len(t))
		for k, x := range t {
			m[k] = jClone(x)
		}
		return m
	case []any:
		a := make([]any, len(t))
		for i, x := range t {
			a[i] = jClone(x)
		}
		return a
	}
	return v
}

func jEqual(a, b any) bool { return reflect.DeepEqual(jNorm(a), jNorm(b)) }

// ---- paths

type jElem struct {
	key   string
	idx   int
	isIdx bool
	raw   string // verbatim leg (wildcards, last, ...)
}

var plainKeyRe = regexp.MustCompile(`^[A-Za-z_][A-Za-z0-9_]*$`)

func needsBackslashEscape(k string) bool {
	for _, ch := range []byte(k) {
		if ch == '\\' || ch < 0x20 {
			return true
		}
	}
	return false
}

func jPath(elems []jElem) string {
	var sb strings.Builder
	sb.WriteByte('$')
	for _, e := range elems {
		switch {
		case e.raw != "":
			sb.WriteString(e.raw)
		case e.isIdx:
			fmt.Fprintf(&sb, "[%d]", e.idx)
		case plainKeyRe.MatchString(e.key):
			sb.WriteByte('.')
			sb.WriteString(e.key)
		default:
			sb.WriteString(`."`)
			sb.WriteString(strings.ReplaceAll(e.key, `"`, `\"`))
			sb.WriteByte('"')
		}
	}
	return sb.String()
}

// jWalk lists every addressable location of v (excluding keys that would need backslash escapes in a path).
func jWalk(v any, prefix []jElem, out *[][]jElem) {
	*out = append(*out, append([]jElem{}, prefix...))
	switch t := v.(type) {
	case map[string]any:
		keys := make([]string, 0, len(t))
		for k := range t {
			keys = append(keys, k)
		}
		sort.Strings(keys)
		for _, k := range keys {
			if needsBackslashEscape(k) || k == "" {
				continue
			}
			jWalk(t[k], append(prefix, jElem{key: k}), out)
		}
	case []any:
		for i, x := range t {
			jWalk(x, append(prefix, jElem{idx: i, isIdx: true}), out)
		}
	}
}

func jGet(v any, path []jElem) (any, bool) {
	for _, e := range path {
		switch t := v.(type) {
		case map[string]any:
			if e.isIdx {
				return nil, false
			}
			x, ok := t[e.key]
			if !ok {
				return nil, false
			}
			v = x
		case []any:
			if !e.isIdx || e.idx >= len(t) {
				return nil, false
			}
			v = t[e.idx]
		default:
			return nil, false
		}
	}
	return v, true
}
