// Package vval holds the value-layer monitors: tuple codecs and comparison (C15), large TEXT/BLOB/JSON
// storage (C16) and stored-JSON document semantics (C17).
package vval

import (
	"context"
	"encoding/hex"
	"fmt"
	"math/rand"
	"os"

	"verif/rig"
)

var bg = context.Background()

// Register registers the checks of this engine.
func Register() {
	rig.Register(&rig.Spec{Prop: "C15", Level: "exploration", Stages: []rig.Stage{{Name: "val", Fn: c15}}})
	rig.Register(&rig.Spec{Prop: "C16", Level: "exploration", Stages: []rig.Stage{
		{Name: "store", Fn: c16Store},
		{Name: "sql", Fn: c16SQL},
	}})
	rig.Register(&rig.Spec{Prop: "C17", Level: "exploration", Stages: []rig.Stage{
		{Name: "ops", Fn: c17Ops},
		{Name: "merge", Fn: c17Merge},
	}})
}

// limiter reports at most 3 violations per key (with full witness) and counts the rest, so that one defect hit by many
// generated cases does not flood the event log (the rig suppresses witnesses after 200 violations).
type limiter struct {
	c     *rig.Ctx
	seen  map[string]int
	name  string
	total int
}

func newLimiter(c *rig.Ctx, counter string) *limiter {
	return &limiter{c: c, seen: map[string]int{}, name: counter}
}

func (l *limiter) Violation(key, what string, witness any) {
	l.seen[key]++
	l.total++
	if l.seen[key] <= 3 {
		l.c.Violation(key, what, witness)
		return
	}
	l.c.Count(l.name, 1)
}

func sign(x int) int {
	switch {
	case x < 0:
		return -1
	case x > 0:
		return 1
	}
	return 0
}

// clip renders a byte string for a witness without flooding the replay file.
func clip(b []byte) string {
	if len(b) <= 48 {
		return hex.EncodeToString(b)
	}
	return fmt.Sprintf("%s..(%d bytes)..%s", hex.EncodeToString(b[:24]), len(b), hex.EncodeToString(b[len(b)-16:]))
}

func clipS(s string) string {
	if len(s) <= 200 || os.Getenv("VERIF_VVAL_FULL") != "" {
		return s
	}
	return fmt.Sprintf("%s ...(%d bytes)... %s", s[:120], len(s), s[len(s)-60:])
}

func pick[T any](r *rand.Rand, xs []T) T { return xs[r.Intn(len(xs))] }
