package vval

import (
	"bytes"
	"context"
	"fmt"
	"io"
	"math/rand"
	"sort"
	"strings"

	"github.com/dolthub/dolt/go/store/hash"
	"github.com/dolthub/dolt/go/store/pool"
	"github.com/dolthub/dolt/go/store/prolly/tree"
	"github.com/dolthub/dolt/go/store/val"

	"verif/rig"
)

// C16 (storage level) — large TEXT / BLOB / JSON values are stored faithfully.
//
// Observed: tree.BlobBuilder / SerializeBytesToAddr / NodeStore.WriteBytes+ReadBytes, val.ByteArray / TextStorage /
// JsonAdaptiveStorage wrappers, adaptive (inline vs out-of-band) tuple fields built with val.TupleBuilder and read with
// TupleDesc.Get*AdaptiveValue / tree.GetField / tree.GetFieldValue, and the three comparison entry points for adaptive
// values: NodeStore.CompareAdaptive, NodeStore.CompareAdaptiveCollatedStrings, AdaptiveEncodingTypeHandler.SerializedCompare
// (plus TupleDesc.Compare over adaptive key fields).
// Oracle: the bytes written; bytes.Compare / go-mysql-server StringType.Compare / types.CompareJSON on the plain values —
// the answer must not depend on which of the two stored forms either operand has; one address per value whatever the
// production route.
//
// Guard-rails: an out-of-band form is only produced for values longer than an address (the documented contract of
// AdaptiveValue: "we only store an address when the address is shorter than the string"); collated comparison only on
// valid UTF-8; a reader that returns short reads (legal for io.Reader, never used by dolt's own call sites, which all
// pass bytes.Reader) is recorded as a diagnostic counter, not as a violation.

const c16Chunk = tree.DefaultFixedChunkLength // 4000

type c16Run struct {
	c    *rig.Ctx
	ns   tree.NodeStore
	ns2  tree.NodeStore
	pool pool.BuffPool
	bb   *tree.BlobBuilder // explicitly reused builder (as the sync.Pool in NodeStore does)
	lim  *limiter
}

// ---------------------------------------------------------------- value generators

type c16Value struct {
	kind string
	b    []byte
}

var c16Kinds = []string{"random", "compressible", "ascii", "multibyte", "escapes", "invalid-utf8"}

func c16Gen(r *rand.Rand, kind string, n int) []byte {
	b := make([]byte, 0, n+4)
	switch kind {
	case "random":
		b = b[:n]
		r.Read(b)
	case "compressible":
		pat := []byte{byte(r.Intn(256)), byte(r.Intn(256)), 0}
		for len(b) < n {
			b = append(b, pat[len(b)%len(pat)])
		}
	case "ascii":
		for len(b) < n {
			b = append(b, byte(' '+r.Intn(95)))
		}
	case "multibyte":
		// runes of 1..4 bytes; the byte length is forced to n by ASCII padding at the front so that multi-byte
		// runes land on (and straddle) every chunk boundary
		rs := []string{"é", "ñ", "ü", "中", "文", "😀", "𝄞", "a", "ß"}
		var tail []byte
		for len(tail) < n {
			s := rs[r.Intn(len(rs))]
			if len(tail)+len(s) > n {
				break
			}
			tail = append(tail, s...)
		}
		for len(b)+len(tail) < n {
			b = append(b, 'x')
		}
		b = append(b, tail...)
	case "escapes":
		parts := []string{`\`, `"`, `\\`, `\"`, `\n`, "\n", "\t", "\x00", `<`, `<`, `>`, `&`, `&`, `'`, `%`, `_`, "\r\n", `{"k":[1,2]}`}
		for len(b) < n {
			b = append(b, parts[r.Intn(len(parts))]...)
		}
		b = b[:n]
	case "invalid-utf8":
		al := []byte{0xff, 0xfe, 0xc3, 0x28, 0xe2, 0x82, 0xf0, 0x9f, 0x80, 'a', 0}
		for len(b) < n {
			b = append(b, al[r.Intn(len(al))])
		}
	}
	return b[:n]
}

func c16Sizes(c *rig.Ctx, r *rand.Rand) []int {
	sizes := []int{0, 1, 2, 19, 20, 21, 22, 31, 32, 33, 127, 128, 129, 240, 241, 248, 249, 250, 251, 252, 254, 255, 256, 2030, 2038, 2039, 2040, 2041, 2042, 2043, 2044, 2045, 2046, 2047, 2048, 2049, 2050, 2287, 2288, 2289,
		c16Chunk - 2, c16Chunk - 1, c16Chunk, c16Chunk + 1, c16Chunk + 2, 4994, 4995, 4996, 4998, 4999, 5000, 2*c16Chunk - 1, 2 * c16Chunk, 2*c16Chunk + 1, 3 * c16Chunk, 16383, 16384, 5*c16Chunk + 17, 65535, 65536, 67823, 67824,
		20 * c16Chunk, 199*c16Chunk + 3999, 200 * c16Chunk, 200*c16Chunk + 1}
	if c.Thorough() {
		sizes = append(sizes, 201*c16Chunk, 400*c16Chunk, 400*c16Chunk+1, 1<<20, 2<<20, 2<<20+1)
	}
	for i := 0; i < c.Pick(40, 600); i++ {
		switch r.Intn(4) {
		case 0:
			sizes = append(sizes, r.Intn(300))
		case 1:
			sizes = append(sizes, 1900+r.Intn(300))
		case 2:
			sizes = append(sizes, (1+r.Intn(6))*c16Chunk+r.Intn(7)-3)
		default:
			sizes = append(sizes, r.Intn(60000))
		}
	}
	return sizes
}

// chunkedReader returns at most n bytes per Read call (a legal io.Reader).
type chunkedReader struct {
	b []byte
	n int
}

func (s *chunkedReader) Read(p []byte) (int, error) {
	if len(s.b) == 0 {
		return 0, io.EOF
	}
	n := min(s.n, len(p), len(s.b))
	copy(p, s.b[:n])
	s.b = s.b[n:]
	return n, nil
}

// ---------------------------------------------------------------- stage

func c16Store(c *rig.Ctx) {
	c.Rule("values of 6 content kinds (random, compressible, ascii, multi-byte runes straddling chunk boundaries, escape sequences, invalid UTF-8) at ~55 fixed sizes around " +
		"the address length (20), the varint steps (240/2287/67823), the inline/out-of-band threshold (2048), the blob chunk length (4000, 8000, ...), the tuple data limit (65535) and the " +
		"200-address level boundary (800000), plus PRNG sizes; each value is written through every production route, read back through every wrapper, placed in adaptive tuples at several row-size " +
		"targets, and compared (with itself, with its prefixes cut at/next to chunk boundaries, with copies mutated at/next to chunk boundaries, with unrelated values) in all four inline/out-of-band " +
		"form combinations through every comparison entry point. distinct = (kind, size) for stored values, (kind, relation, cut/mutation offset class) for pairs")
	c.Assume("out-of-band forms are only built for values longer than 31 bytes (AdaptiveValue contract: an address is stored only when shorter than the value)")
	c.Assume("io.Reader implementations that return short reads are not a production route (every call site in dolt passes bytes.Reader); observed divergence is a counter, not a violation")
	x := &c16Run{c: c, ns: tree.NewTestNodeStore(), ns2: tree.NewTestNodeStore(), pool: pool.NewBuffPool(), lim: newLimiter(c, "c16.further_violations_same_key")}
	bb, err := tree.NewBlobBuilder(c16Chunk)
	rig.Must(err)
	bb.SetNodeStore(x.ns)
	x.bb = bb

	r := c.SubRand("c16/sizes", 0)
	sizes := c16Sizes(c, r)
	var values []c16Value
	for i, n := range sizes {
		kind := c16Kinds[i%len(c16Kinds)]
		if n >= 100*c16Chunk { // keep the big ones few but of both compressible and incompressible kinds
			kind = []string{"random", "multibyte"}[i%2]
		}
		values = append(values, c16Value{kind: kind, b: c16Gen(c.SubRand("c16/value", i), kind, n)})
	}
	for i, v := range values {
		c.Case(fmt.Sprintf("c16/value/%d", i), map[string]any{"kind": v.kind, "size": len(v.b)})
		x.storeRoutes(v, i)
		x.tuples(v, i)
		c.Distinct(fmt.Sprintf("value/%s/%d", v.kind, len(v.b)))
		if i%17 == 0 {
			c.Sample(map[string]any{"kind": v.kind, "size": len(v.b), "head": clip(v.b)})
		}
	}
	x.pairs(values)
	x.multiColumn()
	x.jsonValues()

	c.Require(true, "")
}

// storeRoutes writes one value through every production route and reads it back through every wrapper.
func (x *c16Run) storeRoutes(v c16Value, idx int) {
	c := x.c
	n := len(v.b)
	if n == 0 {
		// the empty value has no tree; wrappers over the empty address must read back empty
		ba := val.NewByteArray(hash.Hash{}, x.ns)
		got, err := ba.ToBytes(bg)
		if err != nil || len(got) != 0 {
			x.lim.Violation("c16/readback/empty", "the empty value does not read back as empty", map[string]any{"err": fmt.Sprint(err), "len": len(got)})
		}
		return
	}
	addrs := map[string]hash.Hash{}
	h, err := x.ns.WriteBytes(bg, v.b)
	rig.Must(err)
	addrs["NodeStore.WriteBytes"] = h
	_, h2, err := tree.SerializeBytesToAddr(bg, x.ns, bytes.NewReader(v.b), n)
	rig.Must(err)
	addrs["SerializeBytesToAddr(bytes.Reader)"] = h2
	_, h3, err := tree.SerializeBytesToAddr(bg, x.ns, strings.NewReader(string(v.b)), n)
	rig.Must(err)
	addrs["SerializeBytesToAddr(strings.Reader)"] = h3
	{ // fresh builder
		nb, err := tree.NewBlobBuilder(c16Chunk)
		rig.Must(err)
		nb.SetNodeStore(x.ns)
		nb.Init(n)
		_, h4, err := nb.Chunk(bg, bytes.NewReader(v.b))
		rig.Must(err)
		addrs["fresh BlobBuilder"] = h4
	}
	{ // builder that has built blobs of other heights before (what the NodeStore's sync.Pool hands out)
		x.bb.Reset()
		x.bb.Init(n)
		_, h5, err := x.bb.Chunk(bg, bytes.NewReader(v.b))
		rig.Must(err)
		addrs["reused BlobBuilder after Reset"] = h5
	}
	h6, err := x.ns2.WriteBytes(bg, v.b)
	rig.Must(err)
	addrs["second NodeStore"] = h6
	if n >= 32 {
		av, err := val.NewOutOfBandAdaptiveValue(bg, x.ns, v.b)
		rig.Must(err)
		h7, err := av.OutOfBandAddr()
		rig.Must(err)
		addrs["NewOutOfBandAdaptiveValue"] = h7
	}
	{ // address-encoded columns through tree.PutField
		td := val.NewTupleDescriptor(val.Type{Enc: val.BytesAddrEnc, Nullable: true}, val.Type{Enc: val.StringAddrEnc, Nullable: true})
		tb := val.NewTupleBuilder(td, x.ns)
		rig.Must(tree.PutField(bg, x.ns, tb, 0, v.b))
		rig.Must(tree.PutField(bg, x.ns, tb, 1, string(v.b)))
		t, err := tb.Build(bg, x.pool)
		rig.Must(err)
		a0, _ := td.GetBytesAddr(0, t)
		a1, _ := td.GetStringAddr(1, t)
		addrs["PutField(BytesAddrEnc)"] = a0
		addrs["PutField(StringAddrEnc)"] = a1
		// and back through GetField
		f0, err := tree.GetField(bg, td, 0, t, x.ns)
		rig.Must(err)
		gb, err := f0.(*val.ByteArray).ToBytes(bg)
		if err != nil || !bytes.Equal(gb, v.b) {
			x.lim.Violation("c16/readback/bytesaddr", "BytesAddrEnc field does not read back the written bytes", map[string]any{"size": n, "kind": v.kind, "err": fmt.Sprint(err), "got": clip(gb)})
		}
		f1, err := tree.GetField(bg, td, 1, t, x.ns)
		rig.Must(err)
		gs, err := f1.(*val.TextStorage).Unwrap(bg)
		if err != nil || gs != string(v.b) {
			x.lim.Violation("c16/readback/stringaddr", "StringAddrEnc field does not read back the written string", map[string]any{"size": n, "kind": v.kind, "err": fmt.Sprint(err)})
		}
	}
	names := make([]string, 0, len(addrs))
	for k := range addrs {
		names = append(names, k)
	}
	sort.Strings(names)
	for _, k := range names {
		c.Count("c16.route_hash_checks", 1)
		if addrs[k] != h {
			x.lim.Violation("c16/route-hash/"+k, "one value, two production routes, two different tree addresses",
				map[string]any{"size": n, "kind": v.kind, "route": k, "addr": addrs[k].String(), "WriteBytes": h.String()})
		}
	}
	// diagnostic only: short-read readers
	for _, step := range []int{1000, c16Chunk - 1, c16Chunk + 96} {
		if n <= step {
			continue
		}
		_, hs, err := tree.SerializeBytesToAddr(bg, x.ns, &chunkedReader{b: v.b, n: step}, n)
		if err == nil {
			c.Count("c16.diag_shortread_reader_runs", 1)
			if hs != h {
				c.Count("c16.diag_shortread_reader_different_address", 1)
			}
			if got, err := x.ns.ReadBytes(bg, hs); err != nil || !bytes.Equal(got, v.b) {
				c.Count("c16.diag_shortread_reader_tree_reads_back_differently", 1)
			}
		}
	}

	// read back
	got, err := x.ns.ReadBytes(bg, h)
	c.Count("c16.readbacks", 4)
	if err != nil || !bytes.Equal(got, v.b) {
		x.lim.Violation("c16/readback/ReadBytes", "NodeStore.ReadBytes does not return the written bytes", map[string]any{"size": n, "kind": v.kind, "err": fmt.Sprint(err), "got": clip(got)})
	}
	if gb, err := val.NewByteArray(h, x.ns).ToBytes(bg); err != nil || !bytes.Equal(gb, v.b) {
		x.lim.Violation("c16/readback/ByteArray", "ByteArray does not return the written bytes", map[string]any{"size": n, "kind": v.kind, "err": fmt.Sprint(err)})
	}
	if gs, err := val.NewTextStorage(h, x.ns).Unwrap(bg); err != nil || gs != string(v.b) {
		x.lim.Violation("c16/readback/TextStorage", "TextStorage does not return the written string", map[string]any{"size": n, "kind": v.kind, "err": fmt.Sprint(err)})
	}
	if gb, err := val.NewByteArray(h, x.ns2).ToBytes(bg); err != nil || !bytes.Equal(gb, v.b) {
		x.lim.Violation("c16/readback/ByteArray", "ByteArray over the second store does not return the written bytes", map[string]any{"size": n, "kind": v.kind, "err": fmt.Sprint(err)})
	}
	// canonical shape: every leaf holds exactly one chunk of 4000 bytes except the last one
	root, err := x.ns.Read(bg, h)
	rig.Must(err)
	var leaves []int
	rig.Must(tree.WalkNodes(bg, root, x.ns, func(_ context.Context, nd *tree.Node) error {
		if nd.IsLeaf() {
			leaves = append(leaves, len(nd.GetValue(0)))
		}
		return nil
	}))
	okShape := len(leaves) == (n+c16Chunk-1)/c16Chunk
	for i, l := range leaves {
		if i < len(leaves)-1 && l != c16Chunk {
			okShape = false
		}
	}
	if !okShape {
		x.lim.Violation("c16/shape", "blob tree leaves are not the canonical 4000-byte cut of the value", map[string]any{"size": n, "leaves": len(leaves)})
	}
	if root.Level() > 0 {
		c.Count("c16.multi_chunk_values", 1)
	}
	if root.Level() > 1 {
		c.Count("c16.three_level_values", 1)
	}
}
