package vval

import (
	"bytes"
	"cmp"
	"fmt"
	"math"
	"math/big"
	"math/rand"
	"strings"
	"time"

	"github.com/cockroachdb/apd/v3"
	"github.com/dolthub/go-mysql-server/sql"
	gmstypes "github.com/dolthub/go-mysql-server/sql/types"
	"github.com/dolthub/vitess/go/sqltypes"

	"github.com/dolthub/dolt/go/libraries/doltcore/schema"
	"github.com/dolthub/dolt/go/store/hash"
	"github.com/dolthub/dolt/go/store/pool"
	"github.com/dolthub/dolt/go/store/prolly/tree"
	"github.com/dolthub/dolt/go/store/val"

	"verif/rig"
)

// C15 — tuple encodings round-trip and sort like the SQL values they encode.
//
// Observed: val.TupleBuilder.Put*/Build, val.NewTuple, val.TupleDesc.Get*/Compare (default comparator with and
// without fixed-access, schema.CollationTupleComparator), tree.PutField/GetField.
// Oracle: the Go value that was written (round trip) and a model comparison on Go values, field by field, NULL first.
//
// Soundness guard-rails (what the codec contract does NOT promise, hence is not asserted):
//   - NaN has no SQL order (MySQL FLOAT/DOUBLE cannot hold NaN): NaN values are round-tripped bit-exactly but never ordered.
//   - +0 and -0 are the same SQL value: they must compare equal; the round trip is checked on the bits.
//   - DECIMAL: the model compares numerically (1.0 == 1.00); the round trip demands equal value AND equal exponent;
//     negative zero is not an SQL value and is not generated; NaN/Inf forms (Doltgres numeric) are round-tripped only.
//   - strings under a collation are compared with go-mysql-server's StringType.Compare; only valid UTF-8 is generated
//     for collated comparisons (SQL strings are valid in their character set); the default comparator is bytewise.
//   - JSONEnc / GeometryEnc are value-only encodings (TupleDesc.Compare does not support them): round trip only.
//   - Extended (Doltgres handler) encodings are not driven here; adaptive encodings are the subject of C16.

type encSpec struct {
	name      string
	enc       val.Encoding
	boundary  func() []any
	random    func(r *rand.Rand) any
	put       func(tb *val.TupleBuilder, i int, v any)
	get       func(td *val.TupleDesc, i int, t val.Tuple) (any, bool)
	same      func(a, b any) bool
	cmp       func(a, b any) int // nil: not an ordered (key) encoding
	ordered   func(v any) bool   // nil: every value is ordered
	toField   func(v any) any    // form expected by tree.PutField; nil: route not applicable
	fromField func(v any) any    // normalise what tree.GetField returns; nil: identity
	show      func(v any) string
}

func (s *encSpec) String(v any) string {
	if v == nil {
		return "NULL"
	}
	if s.show != nil {
		return s.show(v)
	}
	return fmt.Sprintf("%v", v)
}

func ordSpec[T cmp.Ordered](name string, enc val.Encoding, boundary []T, rnd func(*rand.Rand) T,
	put func(*val.TupleBuilder, int, T), get func(*val.TupleDesc, int, val.Tuple) (T, bool)) *encSpec {
	return &encSpec{
		name: name, enc: enc,
		boundary: func() []any {
			out := make([]any, len(boundary))
			for i, b := range boundary {
				out[i] = b
			}
			return out
		},
		random:  func(r *rand.Rand) any { return rnd(r) },
		put:     func(tb *val.TupleBuilder, i int, v any) { put(tb, i, v.(T)) },
		get:     func(td *val.TupleDesc, i int, t val.Tuple) (any, bool) { v, ok := get(td, i, t); return v, ok },
		same:    func(a, b any) bool { return a.(T) == b.(T) },
		cmp:     func(a, b any) int { return cmp.Compare(a.(T), b.(T)) },
		toField: func(v any) any { return v },
	}
}

func bytesSpec(name string, enc val.Encoding, n int, put func(*val.TupleBuilder, int, []byte), get func(*val.TupleDesc, int, val.Tuple) ([]byte, bool), ordered bool) *encSpec {
	s := &encSpec{
		name: name, enc: enc,
		random: func(r *rand.Rand) any {
			b := make([]byte, n)
			r.Read(b)
			if r.Intn(3) == 0 { // shared prefixes
				for i := 0; i < n-1-r.Intn(n-1); i++ {
					b[i] = 0x7f
				}
			}
			return b
		},
		boundary: func() []any {
			z := make([]byte, n)
			f := bytes.Repeat([]byte{0xff}, n)
			lo := make([]byte, n)
			lo[n-1] = 1
			hi := make([]byte, n)
			hi[0] = 1
			m := bytes.Repeat([]byte{0x80}, n)
			return []any{z, f, lo, hi, m}
		},
		put:  func(tb *val.TupleBuilder, i int, v any) { put(tb, i, v.([]byte)) },
		get:  func(td *val.TupleDesc, i int, t val.Tuple) (any, bool) { v, ok := get(td, i, t); return v, ok },
		same: func(a, b any) bool { return bytes.Equal(a.([]byte), b.([]byte)) },
		show: func(v any) string { return clip(v.([]byte)) },
	}
	if ordered {
		s.cmp = func(a, b any) int { return bytes.Compare(a.([]byte), b.([]byte)) }
	}
	return s
}

func addrSpec(name string, enc val.Encoding, put func(*val.TupleBuilder, int, hash.Hash), get func(*val.TupleDesc, int, val.Tuple) (hash.Hash, bool)) *encSpec {
	return &encSpec{
		name: name, enc: enc,
		random: func(r *rand.Rand) any {
			var h hash.Hash
			r.Read(h[:])
			if r.Intn(3) == 0 {
				for i := 0; i < 19-r.Intn(19); i++ {
					h[i] = 0x11
				}
			}
			return h
		},
		boundary: func() []any {
			var z, f, lo, hi hash.Hash
			for i := range f {
				f[i] = 0xff
			}
			lo[hash.ByteLen-1] = 1
			hi[0] = 1
			return []any{z, f, lo, hi}
		},
		put:  func(tb *val.TupleBuilder, i int, v any) { put(tb, i, v.(hash.Hash)) },
		get:  func(td *val.TupleDesc, i int, t val.Tuple) (any, bool) { v, ok := get(td, i, t); return v, ok },
		same: func(a, b any) bool { return a.(hash.Hash) == b.(hash.Hash) },
		cmp: func(a, b any) int {
			x, y := a.(hash.Hash), b.(hash.Hash)
			return bytes.Compare(x[:], y[:])
		},
		show: func(v any) string { return v.(hash.Hash).String() },
	}
}

func decRat(d *apd.Decimal) *big.Rat {
	c := new(big.Int).Set(d.Coeff.MathBigInt())
	if d.Negative {
		c.Neg(c)
	}
	r := new(big.Rat).SetInt(c)
	e := new(big.Int).Exp(big.NewInt(10), big.NewInt(int64(abs32(d.Exponent))), nil)
	if d.Exponent >= 0 {
		r.Mul(r, new(big.Rat).SetInt(e))
	} else {
		r.Quo(r, new(big.Rat).SetInt(e))
	}
	return r
}

func abs32(x int32) int32 {
	if x < 0 {
		return -x
	}
	return x
}

func mustDec(s string) *apd.Decimal {
	d, _, err := apd.NewFromString(s)
	rig.Must(err)
	return d
}

func randDigits(r *rand.Rand, n int) string {
	var sb strings.Builder
	for i := 0; i < n; i++ {
		d := r.Intn(10)
		if i == 0 && n > 1 && d == 0 {
			d = 1 + r.Intn(9)
		}
		sb.WriteByte(byte('0' + d))
	}
	return sb.String()
}

var zeroTime = gmstypes.ZeroTime

func c15Specs() []*encSpec {
	i32 := func(r *rand.Rand) int32 { return int32(r.Uint32()) }
	specs := []*encSpec{
		ordSpec("int8", val.Int8Enc, []int8{math.MinInt8, -1, 0, 1, math.MaxInt8}, func(r *rand.Rand) int8 { return int8(r.Intn(256)) },
			(*val.TupleBuilder).PutInt8, (*val.TupleDesc).GetInt8),
		ordSpec("uint8", val.Uint8Enc, []uint8{0, 1, 127, 128, 255}, func(r *rand.Rand) uint8 { return uint8(r.Intn(256)) },
			(*val.TupleBuilder).PutUint8, (*val.TupleDesc).GetUint8),
		ordSpec("int16", val.Int16Enc, []int16{math.MinInt16, -257, -256, -255, -129, -128, -1, 0, 1, 127, 128, 255, 256, 257, math.MaxInt16},
			func(r *rand.Rand) int16 { return int16(r.Intn(65536)) }, (*val.TupleBuilder).PutInt16, (*val.TupleDesc).GetInt16),
		ordSpec("uint16", val.Uint16Enc, []uint16{0, 1, 127, 128, 255, 256, 257, 32767, 32768, 65280, 65535},
			func(r *rand.Rand) uint16 { return uint16(r.Intn(65536)) }, (*val.TupleBuilder).PutUint16, (*val.TupleDesc).GetUint16),
		ordSpec("int32", val.Int32Enc, []int32{math.MinInt32, math.MinInt32 + 1, -65537, -65536, -32769, -256, -1, 0, 1, 255, 256, 65535, 65536, 1 << 24, 1<<24 - 1, math.MaxInt32 - 1, math.MaxInt32},
			i32, (*val.TupleBuilder).PutInt32, (*val.TupleDesc).GetInt32),
		ordSpec("uint32", val.Uint32Enc, []uint32{0, 1, 255, 256, 65535, 65536, 1 << 24, 1<<31 - 1, 1 << 31, 1<<31 + 1, math.MaxUint32 - 1, math.MaxUint32},
			func(r *rand.Rand) uint32 { return r.Uint32() }, (*val.TupleBuilder).PutUint32, (*val.TupleDesc).GetUint32),
		ordSpec("int64", val.Int64Enc, []int64{math.MinInt64, math.MinInt64 + 1, -1 << 32, -1<<32 - 1, -256, -1, 0, 1, 255, 256, 1 << 32, 1<<32 - 1, 1 << 56, math.MaxInt64 - 1, math.MaxInt64},
			func(r *rand.Rand) int64 { return int64(r.Uint64()) >> uint(r.Intn(64)) }, (*val.TupleBuilder).PutInt64, (*val.TupleDesc).GetInt64),
		ordSpec("uint64", val.Uint64Enc, []uint64{0, 1, 255, 256, 1 << 32, 1<<63 - 1, 1 << 63, 1<<63 + 1, math.MaxUint64 - 1, math.MaxUint64},
			func(r *rand.Rand) uint64 { return r.Uint64() >> uint(r.Intn(64)) }, (*val.TupleBuilder).PutUint64, (*val.TupleDesc).GetUint64),
		ordSpec("bit64", val.Bit64Enc, []uint64{0, 1, 255, 256, 1 << 63, math.MaxUint64},
			func(r *rand.Rand) uint64 { return r.Uint64() >> uint(r.Intn(64)) }, (*val.TupleBuilder).PutBit, (*val.TupleDesc).GetBit),
		ordSpec("enum", val.EnumEnc, []uint16{0, 1, 2, 255, 256, 257, 32767, 32768, 65535},
			func(r *rand.Rand) uint16 { return uint16(r.Intn(65536)) }, (*val.TupleBuilder).PutEnum, (*val.TupleDesc).GetEnum),
		ordSpec("set", val.SetEnc, []uint64{0, 1, 2, 3, 255, 256, 1 << 63, math.MaxUint64},
			func(r *rand.Rand) uint64 { return r.Uint64() >> uint(r.Intn(64)) }, (*val.TupleBuilder).PutSet, (*val.TupleDesc).GetSet),
		ordSpec("year", val.YearEnc, []int16{0, 1901, 1902, 2000, 2028, 2029, 2154, 2155},
			func(r *rand.Rand) int16 {
				if r.Intn(20) == 0 {
					return 0
				}
				return int16(1901 + r.Intn(255))
			}, (*val.TupleBuilder).PutYear, (*val.TupleDesc).GetYear),
		ordSpec("time", val.TimeEnc, []int64{-3020399000000, -1, 0, 1, 999999, 1000000, 3020399000000},
			func(r *rand.Rand) int64 { return r.Int63n(2*3020399000000+1) - 3020399000000 }, (*val.TupleBuilder).PutSqlTime, (*val.TupleDesc).GetSqlTime),
		ordSpec("string", val.StringEnc, []string{"", "\x00", "a", "a\x00", "a\x00b", "A", "aa", "ab", "b", "\xff", "\xff\xff", "é", "e", "á", "\U0001F600", strings.Repeat("x", 300)},
			func(r *rand.Rand) string {
				n := r.Intn(12)
				b := make([]byte, n)
				al := []byte("ab\x00\xffA\xc3\xa9z")
				for i := range b {
					b[i] = al[r.Intn(len(al))]
				}
				return string(b)
			}, func(tb *val.TupleBuilder, i int, s string) { rig.Must(tb.PutString(i, s)) }, (*val.TupleDesc).GetString),
	}
	// TimeEnc through tree.PutField/GetField uses types.Timespan
	for _, s := range specs {
		if s.enc == val.TimeEnc {
			s.toField = func(v any) any { return gmstypes.Timespan(v.(int64)) }
			s.fromField = func(v any) any { return int64(v.(gmstypes.Timespan)) }
		}
	}

	f32 := ordSpec("float32", val.Float32Enc,
		[]float32{float32(math.Inf(-1)), -math.MaxFloat32, -1, -math.SmallestNonzeroFloat32, float32(math.Copysign(0, -1)), 0, math.SmallestNonzeroFloat32, 1, 1.5, math.MaxFloat32, float32(math.Inf(1)), float32(math.NaN())},
		func(r *rand.Rand) float32 {
			f := math.Float32frombits(r.Uint32())
			if r.Intn(2) == 0 {
				f = float32(r.NormFloat64() * 1000)
			}
			return f
		}, (*val.TupleBuilder).PutFloat32, (*val.TupleDesc).GetFloat32)
	f32.same = func(a, b any) bool { return math.Float32bits(a.(float32)) == math.Float32bits(b.(float32)) }
	f32.ordered = func(v any) bool { return !math.IsNaN(float64(v.(float32))) }
	f32.show = func(v any) string { return fmt.Sprintf("%g(bits %08x)", v.(float32), math.Float32bits(v.(float32))) }
	f64 := ordSpec("float64", val.Float64Enc,
		[]float64{math.Inf(-1), -math.MaxFloat64, -1, -math.SmallestNonzeroFloat64, math.Copysign(0, -1), 0, math.SmallestNonzeroFloat64, 1, 1.5, 1 << 53, 1<<53 + 2, math.MaxFloat64, math.Inf(1), math.NaN()},
		func(r *rand.Rand) float64 {
			f := math.Float64frombits(r.Uint64())
			if r.Intn(2) == 0 {
				f = r.NormFloat64() * 1e6
			}
			return f
		}, (*val.TupleBuilder).PutFloat64, (*val.TupleDesc).GetFloat64)
	f64.same = func(a, b any) bool { return math.Float64bits(a.(float64)) == math.Float64bits(b.(float64)) }
	f64.ordered = func(v any) bool { return !math.IsNaN(v.(float64)) }
	f64.show = func(v any) string { return fmt.Sprintf("%g(bits %016x)", v.(float64), math.Float64bits(v.(float64))) }
	specs = append(specs, f32, f64)

	dec := &encSpec{
		name: "decimal", enc: val.DecimalEnc,
		boundary: func() []any {
			out := []any{}
			for _, s := range []string{"0", "0.00", "1", "1.0", "1.00", "-1", "-1.0", "0.1", "-0.1", "0.10", "9", "10", "99", "100", "255", "256", "65535", "65536",
				"18446744073709551615", "18446744073709551616", "-18446744073709551616", "340282366920938463463374607431768211455", "340282366920938463463374607431768211456",
				"0.000000000000000000000000000001", "-0.000000000000000000000000000001", "99999999999999999999999999999999999.999999999999999999999999999999",
				"-99999999999999999999999999999999999.999999999999999999999999999999", "1E+3", "1000", "1E-3", "0.001", "12345678901234567890.12345"} {
				out = append(out, mustDec(s))
			}
			out = append(out, &apd.Decimal{Form: apd.NaN}, &apd.Decimal{Form: apd.Infinite}, &apd.Decimal{Form: apd.Infinite, Negative: true})
			return out
		},
		random: func(r *rand.Rand) any {
			ip := randDigits(r, 1+r.Intn([]int{3, 18, 35}[r.Intn(3)]))
			s := ip
			if sc := r.Intn(4); sc > 0 {
				s += "." + randDigits(r, []int{1, 2, 10, 30}[sc])[0:]
			}
			if r.Intn(2) == 0 && strings.Trim(s, "0.") != "" {
				s = "-" + s
			}
			return mustDec(s)
		},
		put: func(tb *val.TupleBuilder, i int, v any) { tb.PutDecimal(i, v.(*apd.Decimal)) },
		get: func(td *val.TupleDesc, i int, t val.Tuple) (any, bool) { v, ok := td.GetDecimal(i, t); return v, ok },
		same: func(a, b any) bool {
			x, y := a.(*apd.Decimal), b.(*apd.Decimal)
			if x.Form != y.Form {
				return false
			}
			if x.Form == apd.NaN {
				return true
			}
			if x.Form == apd.Infinite {
				return x.Negative == y.Negative
			}
			return x.Exponent == y.Exponent && x.Negative == y.Negative && x.Coeff.MathBigInt().Cmp(y.Coeff.MathBigInt()) == 0
		},
		cmp:     func(a, b any) int { return decRat(a.(*apd.Decimal)).Cmp(decRat(b.(*apd.Decimal))) },
		ordered: func(v any) bool { return v.(*apd.Decimal).Form == apd.Finite },
		toField: func(v any) any { return v },
		show:    func(v any) string { d := v.(*apd.Decimal); return fmt.Sprintf("%s(exp %d)", d.String(), d.Exponent) },
	}
	specs = append(specs, dec)

	date := &encSpec{
		name: "date", enc: val.DateEnc,
		boundary: func() []any {
			return []any{zeroTime, time.Date(1, 1, 1, 0, 0, 0, 0, time.UTC), time.Date(999, 12, 31, 0, 0, 0, 0, time.UTC), time.Date(1000, 1, 1, 0, 0, 0, 0, time.UTC),
				time.Date(1969, 12, 31, 0, 0, 0, 0, time.UTC), time.Date(1970, 1, 1, 0, 0, 0, 0, time.UTC), time.Date(2000, 2, 29, 0, 0, 0, 0, time.UTC),
				time.Date(2000, 3, 1, 0, 0, 0, 0, time.UTC), time.Date(2038, 1, 19, 0, 0, 0, 0, time.UTC), time.Date(2255, 12, 1, 0, 0, 0, 0, time.UTC),
				time.Date(2256, 1, 31, 0, 0, 0, 0, time.UTC), time.Date(9999, 12, 31, 0, 0, 0, 0, time.UTC)}
		},
		random: func(r *rand.Rand) any {
			return time.Date(1+r.Intn(9999), time.Month(1+r.Intn(12)), 1+r.Intn(28), 0, 0, 0, 0, time.UTC)
		},
		put:     func(tb *val.TupleBuilder, i int, v any) { tb.PutDate(i, v.(time.Time)) },
		get:     func(td *val.TupleDesc, i int, t val.Tuple) (any, bool) { v, ok := td.GetDate(i, t); return v, ok },
		same:    func(a, b any) bool { return a.(time.Time).Equal(b.(time.Time)) },
		cmp:     func(a, b any) int { return a.(time.Time).Compare(b.(time.Time)) },
		toField: func(v any) any { return v },
		show:    func(v any) string { return v.(time.Time).Format(time.RFC3339Nano) },
	}
	dt := &encSpec{
		name: "datetime", enc: val.DatetimeEnc,
		boundary: func() []any {
			return []any{zeroTime, time.Date(1, 1, 1, 0, 0, 0, 0, time.UTC), time.Date(1000, 1, 1, 0, 0, 0, 0, time.UTC),
				time.Date(1969, 12, 31, 23, 59, 59, 999999000, time.UTC), time.Date(1970, 1, 1, 0, 0, 0, 0, time.UTC), time.Date(1970, 1, 1, 0, 0, 0, 1000, time.UTC),
				time.Date(2038, 1, 19, 3, 14, 7, 0, time.UTC), time.Date(2038, 1, 19, 3, 14, 8, 0, time.UTC), time.Date(9999, 12, 31, 23, 59, 59, 999999000, time.UTC)}
		},
		random: func(r *rand.Rand) any {
			return time.Date(1+r.Intn(9999), time.Month(1+r.Intn(12)), 1+r.Intn(28), r.Intn(24), r.Intn(60), r.Intn(60), r.Intn(1000000)*1000, time.UTC)
		},
		put:     func(tb *val.TupleBuilder, i int, v any) { tb.PutDatetime(i, v.(time.Time)) },
		get:     func(td *val.TupleDesc, i int, t val.Tuple) (any, bool) { v, ok := td.GetDatetime(i, t); return v, ok },
		same:    func(a, b any) bool { return a.(time.Time).Equal(b.(time.Time)) },
		cmp:     func(a, b any) int { return a.(time.Time).Compare(b.(time.Time)) },
		toField: func(v any) any { return v },
		show:    func(v any) string { return v.(time.Time).Format(time.RFC3339Nano) },
	}
	specs = append(specs, date, dt)

	varBytes := func(name string, enc val.Encoding, put func(*val.TupleBuilder, int, []byte), get func(*val.TupleDesc, int, val.Tuple) ([]byte, bool), ordered bool) *encSpec {
		s := bytesSpec(name, enc, 4, put, get, ordered)
		s.boundary = func() []any {
			return []any{[]byte{}, []byte{0}, []byte{0, 0}, []byte{1}, []byte{0xff}, []byte{0xff, 0}, []byte("a"), []byte("a\x00"), []byte("ab"), []byte("b"), bytes.Repeat([]byte{0xab}, 400)}
		}
		s.random = func(r *rand.Rand) any {
			b := make([]byte, r.Intn(10))
			al := []byte{0, 1, 0x7f, 0x80, 0xff, 'a'}
			for i := range b {
				b[i] = al[r.Intn(len(al))]
			}
			return b
		}
		return s
	}
	bs := varBytes("bytes", val.ByteStringEnc, (*val.TupleBuilder).PutByteString, (*val.TupleDesc).GetBytes, true)
	bs.toField = func(v any) any { return v }
	js := varBytes("json", val.JSONEnc, (*val.TupleBuilder).PutJSON, (*val.TupleDesc).GetJSON, false)
	ge := varBytes("geometry", val.GeometryEnc, (*val.TupleBuilder).PutGeometry, (*val.TupleDesc).GetGeometry, false)
	h128 := bytesSpec("hash128", val.Hash128Enc, 16, (*val.TupleBuilder).PutHash128, (*val.TupleDesc).GetHash128, true)
	h128.toField = func(v any) any { return v }
	cell := bytesSpec("cell", val.CellEnc, 17,
		func(tb *val.TupleBuilder, i int, b []byte) { var c val.Cell; copy(c[:], b); tb.PutCell(i, c) },
		func(td *val.TupleDesc, i int, t val.Tuple) ([]byte, bool) { c, ok := td.GetCell(i, t); return c[:], ok }, true)
	specs = append(specs, bs, js, ge, h128, cell)

	ca := addrSpec("commitaddr", val.CommitAddrEnc, (*val.TupleBuilder).PutCommitAddr, (*val.TupleDesc).GetCommitAddr)
	ca.toField = func(v any) any { return v }
	specs = append(specs, ca,
		addrSpec("bytesaddr", val.BytesAddrEnc, (*val.TupleBuilder).PutBytesAddr, (*val.TupleDesc).GetBytesAddr),
		addrSpec("stringaddr", val.StringAddrEnc, (*val.TupleBuilder).PutStringAddr, (*val.TupleDesc).GetStringAddr),
		addrSpec("jsonaddr", val.JSONAddrEnc, (*val.TupleBuilder).PutJSONAddr, (*val.TupleDesc).GetJSONAddr),
		addrSpec("geomaddr", val.GeomAddrEnc, (*val.TupleBuilder).PutGeometryAddr, (*val.TupleDesc).GetGeometryAddr),
	)
	return specs
}

type c15Run struct {
	lim  *limiter
	c    *rig.Ctx
	ns   tree.NodeStore
	pool pool.BuffPool
}

func (x *c15Run) build1(td *val.TupleDesc, s *encSpec, v any) val.Tuple {
	tb := val.NewTupleBuilder(td, x.ns)
	if v != nil {
		s.put(tb, 0, v)
	}
	t, err := tb.Build(bg, x.pool)
	rig.Must(err)
	return t
}

func (x *c15Run) compare(td *val.TupleDesc, a, b val.Tuple) int {
	c, err := td.Compare(bg, a, b)
	rig.Must(err)
	return sign(c)
}

// checkSet round-trips every value of the set through a one-field tuple and, for ordered encodings, compares
// the given index pairs (or all pairs when pairs == nil) against the model.
func (x *c15Run) checkSet(s *encSpec, vals []any, pairs func(n int, f func(i, j int)), label string) {
	c := x.c
	tdN := val.NewTupleDescriptor(val.Type{Enc: s.enc, Nullable: true})
	tdF := val.NewTupleDescriptor(val.Type{Enc: s.enc, Nullable: false}) // fixed-access fast path for fixed-width encodings
	tupsN := make([]val.Tuple, len(vals))
	tupsF := make([]val.Tuple, len(vals))
	rt := 0
	for i, v := range vals {
		tupsN[i] = x.build1(tdN, s, v)
		tupsF[i] = x.build1(tdF, s, v)
		if !bytes.Equal(tupsN[i], tupsF[i]) {
			x.lim.Violation("c15/route/nullable-flag/"+s.name, "tuple bytes depend on the nullability flag of the descriptor", map[string]any{"value": s.String(v), "nullable": clip(tupsN[i]), "notnull": clip(tupsF[i])})
		}
		for _, td := range []*val.TupleDesc{tdN, tdF} {
			got, ok := s.get(td, 0, tupsN[i])
			rt++
			if !ok || !s.same(got, v) {
				x.lim.Violation("c15/roundtrip/"+s.name, fmt.Sprintf("decode(encode(v)) != v for %s", s.name),
					map[string]any{"written": s.String(v), "read": s.String(got), "ok": ok, "tuple": clip(tupsN[i]), "set": label})
			}
		}
		if s.toField != nil { // generic decode route
			got, err := tree.GetField(bg, tdN, 0, tupsN[i], x.ns)
			if err == nil && got != nil && s.fromField != nil {
				got = s.fromField(got)
			}
			rt++
			if err != nil || got == nil || !s.same(got, v) {
				x.lim.Violation("c15/roundtrip-getfield/"+s.name, "tree.GetField does not return the written value", map[string]any{"written": s.String(v), "read": fmt.Sprint(got), "err": fmt.Sprint(err)})
			}
		}
		if tupsN[i].Count() != 1 {
			x.lim.Violation("c15/count/"+s.name, "one non-NULL field must give a tuple of count 1", map[string]any{"count": tupsN[i].Count(), "value": s.String(v)})
		}
	}
	c.Count("c15.roundtrips", rt)
	if s.cmp == nil {
		return
	}
	tdW := tdF.WithoutFixedAccess()
	nullT := x.build1(tdN, s, nil)
	ncmp := 0
	do := func(i, j int) {
		if s.ordered != nil && (!s.ordered(vals[i]) || !s.ordered(vals[j])) {
			return
		}
		want := sign(s.cmp(vals[i], vals[j]))
		for k, td := range []*val.TupleDesc{tdN, tdF, tdW} {
			got := x.compare(td, tupsN[i], tupsN[j])
			ncmp++
			if got != want {
				x.lim.Violation(fmt.Sprintf("c15/order/%s", s.name), fmt.Sprintf("TupleDesc.Compare disagrees with the SQL order of %s values", s.name),
					map[string]any{"left": s.String(vals[i]), "right": s.String(vals[j]), "got": got, "want": want, "desc": []string{"nullable", "notnull-fast", "notnull-nofast"}[k], "set": label})
				return
			}
		}
	}
	if pairs == nil {
		for i := range vals {
			for j := range vals {
				do(i, j)
			}
		}
	} else {
		pairs(len(vals), do)
	}
	// NULL sorts first, NULL == NULL
	for i := range vals {
		if i > 64 && i%97 != 0 {
			continue
		}
		if g := x.compare(tdN, nullT, tupsN[i]); g != -1 {
			x.lim.Violation("c15/null-order/"+s.name, "NULL must sort before every value", map[string]any{"value": s.String(vals[i]), "got": g})
		}
		if g := x.compare(tdN, tupsN[i], nullT); g != 1 {
			x.lim.Violation("c15/null-order/"+s.name, "every value must sort after NULL", map[string]any{"value": s.String(vals[i]), "got": g})
		}
		ncmp += 2
	}
	if g := x.compare(tdN, nullT, nullT); g != 0 {
		x.lim.Violation("c15/null-order/"+s.name, "NULL must compare equal to NULL", map[string]any{"got": g})
	}
	c.Count("c15.compares", ncmp)
}

func c15(c *rig.Ctx) {
	c.Rule("(A) exhaustive: every value of the 8-bit encodings (int8, uint8, year, bool) round-tripped and ALL ordered pairs compared; " +
		"every value of the 16-bit encodings (int16, uint16, enum) round-tripped, compared with its successor, its byte-swapped and sign-flipped images and PRNG pairs. " +
		"(B) wider encodings: boundary set ∪ PRNG values per encoding, all pairs. (C) tuples of 1-5 PRNG fields over every encoding, every NULL pattern of the nullable fields, " +
		"values drawn from 3-value pools so that later fields decide; compared pairwise against the field-wise model (NULL first) and rebuilt through 7 construction routes that must be byte-identical. " +
		"(D) StringEnc under go-mysql-server collations vs StringType.Compare. distinct = (encoding) for A/B, (descriptor shape, NULL pattern) for C, (collation) for D")
	c.Assume("NaN is not an SQL value: round-tripped bit-exactly, never ordered; -0 == +0")
	c.Assume("DECIMAL NaN/Inf forms (Doltgres) and negative zero are not SQL DECIMAL values: NaN/Inf round-tripped only, -0 not generated")
	c.Assume("collated comparisons are driven with valid UTF-8 only; model = go-mysql-server StringType.Compare")
	c.Assume("JSONEnc/GeometryEnc are value-only encodings (no comparator): round trip only; Extended* encodings need a Doltgres handler and are not driven; adaptive encodings belong to C16")
	x := &c15Run{c: c, ns: tree.NewTestNodeStore(), pool: pool.NewBuffPool(), lim: newLimiter(c, "c15.further_violations_same_key")}
	specs := c15Specs()
	byName := map[string]*encSpec{}
	for _, s := range specs {
		byName[s.name] = s
	}

	// ---- (A) exhaustive 8-bit
	c.Case("c15/exhaustive8", nil)
	all8 := map[string][]any{}
	for i := 0; i < 256; i++ {
		all8["int8"] = append(all8["int8"], int8(i-128))
		all8["uint8"] = append(all8["uint8"], uint8(i))
	}
	all8["year"] = append(all8["year"], int16(0))
	for y := 1901; y <= 2155; y++ {
		all8["year"] = append(all8["year"], int16(y))
	}
	for _, n := range []string{"int8", "uint8", "year"} {
		x.checkSet(byName[n], all8[n], nil, "exhaustive")
		c.Count("c15.exhaustive8_values", len(all8[n]))
		c.Count("c15.exhaustive8_pairs", len(all8[n])*len(all8[n]))
		c.Distinct("exh8/" + n)
	}
	{ // bool rides on Int8Enc
		td := val.NewTupleDescriptor(val.Type{Enc: val.Int8Enc})
		var ts [2]val.Tuple
		for i, b := range []bool{false, true} {
			tb := val.NewTupleBuilder(td, x.ns)
			tb.PutBool(0, b)
			t, err := tb.Build(bg, x.pool)
			rig.Must(err)
			ts[i] = t
			if g, ok := td.GetBool(0, t); !ok || g != b {
				x.lim.Violation("c15/roundtrip/bool", "bool does not round-trip", map[string]any{"written": b, "read": g})
			}
		}
		if x.compare(td, ts[0], ts[1]) != -1 || x.compare(td, ts[1], ts[0]) != 1 {
			x.lim.Violation("c15/order/bool", "false must sort before true", nil)
		}
		c.Count("c15.roundtrips", 2)
	}

	// ---- (A) exhaustive 16-bit values, structured + PRNG pairs
	c.Case("c15/exhaustive16", nil)
	for _, n := range []string{"int16", "uint16", "enum"} {
		s := byName[n]
		vals := make([]any, 65536)
		for i := 0; i < 65536; i++ {
			if n == "int16" {
				vals[i] = int16(i - 32768)
			} else {
				vals[i] = uint16(i)
			}
		}
		r := c.SubRand("c15/pairs16/"+n, 0)
		np := c.Pick(200000, 40000000)
		x.checkSet(s, vals, func(nv int, f func(i, j int)) {
			for i := 0; i < nv; i++ {
				f(i, i)
				f(i, (i+1)%nv)
				f((i+1)%nv, i)
				u := uint16(i)
				f(i, int(u<<8|u>>8)) // byte-swapped image: catches endianness slips
				f(i, int(u^0x8000))  // sign-bit image
				f(i, int(u^0x0080))
			}
			for k := 0; k < np; k++ {
				f(r.Intn(nv), r.Intn(nv))
			}
		}, "exhaustive16")
		c.Count("c15.exhaustive16_values", 65536)
		c.Distinct("exh16/" + n)
	}

	// ---- (B) wider encodings
	nRand := c.Pick(160, 2500)
	for _, s := range specs {
		c.Case("c15/pool/"+s.name, nil)
		r := c.SubRand("c15/pool/"+s.name, 0)
		vals := s.boundary()
		for i := 0; i < nRand; i++ {
			vals = append(vals, s.random(r))
		}
		// neighbours: pairs that differ by the smallest step are the ones a byte-order slip reorders
		x.checkSet(s, vals, nil, "boundary+random")
		c.Count("c15.pool_values", len(vals))
		c.Distinct("pool/" + s.name)
		if len(vals) > 3 {
			c.Sample(map[string]any{"encoding": s.name, "values": []string{s.String(vals[0]), s.String(vals[len(vals)/2]), s.String(vals[len(vals)-1])}})
		}
	}

	// ---- (C) multi-field tuples, NULL patterns, construction routes
	c15Tuples(x, specs)

	// ---- (D) collations
	c15Collations(x)

	c.Require(true, "")
}

type c15Field struct {
	s        *encSpec
	nullable bool
	pool     []any
}

func c15Tuples(x *c15Run, specs []*encSpec) {
	c := x.c
	nDesc := c.Pick(400, 40000)
	var ordered []*encSpec
	for _, s := range specs {
		if s.cmp != nil {
			ordered = append(ordered, s)
		}
	}
	for d := 0; d < nDesc; d++ {
		r := c.SubRand("c15/tuples", d)
		nf := 1 + r.Intn(5)
		cmpable := r.Intn(4) != 0 // 3/4 of the descriptors are comparable (key-like); the others also use value-only encodings
		fields := make([]c15Field, nf)
		var shape strings.Builder
		types := make([]val.Type, nf)
		for i := range fields {
			var s *encSpec
			if cmpable {
				s = pick(r, ordered)
			} else {
				s = pick(r, specs)
			}
			f := c15Field{s: s, nullable: r.Intn(3) != 0}
			if i == 0 && r.Intn(2) == 0 {
				f.nullable = false // favour a fixed-access prefix
			}
			b := s.boundary()
			for k := 0; k < 3; k++ {
				var v any
				if r.Intn(2) == 0 {
					v = pick(r, b)
				} else {
					v = s.random(r)
				}
				if s.ordered != nil && !s.ordered(v) {
					continue
				}
				f.pool = append(f.pool, v)
			}
			if len(f.pool) == 0 {
				f.pool = append(f.pool, s.random(r))
			}
			fields[i] = f
			types[i] = val.Type{Enc: s.enc, Nullable: f.nullable}
			fmt.Fprintf(&shape, "%s%s,", s.name, map[bool]string{true: "?", false: "!"}[f.nullable])
		}
		name := fmt.Sprintf("c15/tuples/%d", d)
		c.Case(name, map[string]any{"shape": shape.String()})
		td := val.NewTupleDescriptor(types...)
		if len(td.GetFixedAccess()) > 0 {
			c.Count("c15.descs_with_fixed_access_prefix", 1)
		}
		// rows: every NULL pattern over the nullable fields × a few value choices
		var nullableIdx []int
		for i, f := range fields {
			if f.nullable {
				nullableIdx = append(nullableIdx, i)
			}
		}
		var rows [][]any
		for mask := 0; mask < 1<<len(nullableIdx); mask++ {
			for rep := 0; rep < 3; rep++ {
				row := make([]any, nf)
				for i, f := range fields {
					row[i] = pick(r, f.pool)
				}
				for k, idx := range nullableIdx {
					if mask&(1<<k) != 0 {
						row[idx] = nil
					}
				}
				rows = append(rows, row)
			}
			c.Distinct(fmt.Sprintf("tuple/%s/%b", shape.String(), mask))
		}
		c.Count("c15.null_patterns", 1<<len(nullableIdx))
		tups := make([]val.Tuple, len(rows))
		for i, row := range rows {
			tups[i] = c15Routes(x, td, fields, row, r)
		}
		if d < 2 {
			c.Sample(map[string]any{"descriptor": shape.String(), "rows": len(rows), "first_tuple": clip(tups[0])})
		}
		if !cmpable {
			continue
		}
		tdW := td.WithoutFixedAccess()
		n := 0
		for i := range rows {
			for j := range rows {
				want := 0
				for k, f := range fields {
					a, b := rows[i][k], rows[j][k]
					if a == nil || b == nil {
						if a == nil && b == nil {
							continue
						}
						if a == nil {
							want = -1
						} else {
							want = 1
						}
						break
					}
					if w := sign(f.s.cmp(a, b)); w != 0 {
						want = w
						break
					}
				}
				for k, dsc := range []*val.TupleDesc{td, tdW} {
					got := x.compare(dsc, tups[i], tups[j])
					n++
					if got != want {
						x.lim.Violation("c15/order/tuple", "TupleDesc.Compare disagrees with the field-wise SQL comparison (NULL first)",
							map[string]any{"shape": shape.String(), "left": c15RowString(fields, rows[i]), "right": c15RowString(fields, rows[j]), "got": got, "want": want, "fixed_access": k == 0})
						break
					}
				}
			}
		}
		c.Count("c15.tuple_compares", n)
	}
}

func c15RowString(fields []c15Field, row []any) []string {
	out := make([]string, len(row))
	for i, v := range row {
		out[i] = fields[i].s.name + "=" + fields[i].s.String(v)
	}
	return out
}

// c15Routes builds one row through every construction route, asserts byte-identity, trailing-NULL trimming and
// field round trip, and returns the canonical tuple.
func c15Routes(x *c15Run, td *val.TupleDesc, fields []c15Field, row []any, r *rand.Rand) val.Tuple {
	c := x.c
	nf := len(fields)
	build := func(desc *val.TupleDesc, tb *val.TupleBuilder, order []int, put func(tb *val.TupleBuilder, i int, v any)) val.Tuple {
		for _, i := range order {
			if row[i] != nil {
				put(tb, i, row[i])
			}
		}
		t, err := tb.Build(bg, x.pool)
		rig.Must(err)
		return t
	}
	fwd := make([]int, nf)
	rev := make([]int, nf)
	for i := range fwd {
		fwd[i] = i
		rev[i] = nf - 1 - i
	}
	typed := func(tb *val.TupleBuilder, i int, v any) { fields[i].s.put(tb, i, v) }
	t0 := build(td, val.NewTupleBuilder(td, x.ns), fwd, typed)
	routes := map[string]val.Tuple{}
	routes["typed-reverse-order"] = build(td, val.NewTupleBuilder(td, x.ns), rev, typed)
	routes["putfield"] = build(td, val.NewTupleBuilder(td, x.ns), fwd, func(tb *val.TupleBuilder, i int, v any) {
		if fields[i].s.toField != nil {
			rig.Must(tree.PutField(bg, x.ns, tb, i, fields[i].s.toField(v)))
		} else {
			fields[i].s.put(tb, i, v)
		}
	})
	raw := make([][]byte, nf)
	for i := range raw {
		raw[i] = td.GetField(i, t0)
	}
	routes["newtuple-raw"] = val.NewTuple(x.pool, raw...)
	routes["putraw"] = build(td, val.NewTupleBuilder(td, x.ns), fwd, func(tb *val.TupleBuilder, i int, v any) { tb.PutRaw(i, raw[i]) })
	// a builder that has already produced another row (Recycle) and has a grown buffer
	{
		tb := val.NewTupleBuilder(td, x.ns)
		for i := range fields {
			fields[i].s.put(tb, i, fields[i].pool[0])
		}
		_, err := tb.Build(bg, x.pool)
		rig.Must(err)
		routes["recycled-builder"] = build(td, tb, fwd, typed)
	}
	// a wider descriptor whose extra trailing nullable columns stay NULL (column added to the schema later)
	{
		extra := 1 + r.Intn(3)
		types := append([]val.Type{}, td.Types...)
		for k := 0; k < extra; k++ {
			types = append(types, val.Type{Enc: pick(r, []val.Encoding{val.Int64Enc, val.StringEnc, val.DecimalEnc, val.BytesAddrEnc}), Nullable: true})
		}
		wide := val.NewTupleDescriptor(types...)
		routes["wider-descriptor-trailing-null"] = build(wide, val.NewTupleBuilder(wide, x.ns), fwd, typed)
	}
	for name, t := range routes {
		c.Count("c15.route_identity_checks", 1)
		if !bytes.Equal(t, t0) {
			x.lim.Violation("c15/route/"+name, "tuples built from the same values through different routes are not byte-identical",
				map[string]any{"row": c15RowString(fields, row), "typed": clip(t0), name: clip(t)})
		}
	}
	// trailing NULLs trimmed
	last := -1
	for i, v := range row {
		if v != nil {
			last = i
		}
	}
	if t0.Count() != last+1 {
		x.lim.Violation("c15/trailing-null", "the NULL suffix of a tuple must be dropped and the field count reduced",
			map[string]any{"row": c15RowString(fields, row), "count": t0.Count(), "want": last + 1, "tuple": clip(t0)})
	}
	if last < nf-1 {
		c.Count("c15.trailing_null_trims", 1)
	}
	if last == -1 && !bytes.Equal(t0, val.EmptyTuple) {
		x.lim.Violation("c15/trailing-null", "an all-NULL tuple must be the empty tuple", map[string]any{"tuple": clip(t0)})
	}
	// field round trip inside the multi-field tuple
	for i, f := range fields {
		got, ok := f.s.get(td, i, t0)
		if row[i] == nil {
			if ok || !td.IsNull(i, t0) {
				x.lim.Violation("c15/roundtrip-null", "a NULL field does not read back as NULL", map[string]any{"row": c15RowString(fields, row), "field": i})
			}
			continue
		}
		if !ok || !f.s.same(got, row[i]) {
			x.lim.Violation("c15/roundtrip/"+f.s.name, "field of a multi-field tuple does not round-trip",
				map[string]any{"row": c15RowString(fields, row), "field": i, "read": f.s.String(got)})
		}
	}
	c.Count("c15.roundtrips", nf)
	return t0
}

func c15Collations(x *c15Run) {
	c := x.c
	colls := []sql.CollationID{sql.Collation_utf8mb4_0900_bin, sql.Collation_utf8mb4_0900_ai_ci, sql.Collation_utf8mb4_0900_as_cs, sql.Collation_utf8mb4_general_ci,
		sql.Collation_utf8mb4_unicode_ci, sql.Collation_utf8mb4_bin, sql.Collation_utf8mb3_general_ci, sql.Collation_utf8mb4_unicode_520_ci, sql.Collation_utf8mb4_0900_as_ci}
	runes := []string{"a", "A", "á", "Á", "à", "ä", "b", "B", "e", "é", "E", "ê", "n", "ñ", "Ñ", "o", "ö", "ß", "s", "ss", "z", "Z", " ", "_", "0", "9", "æ", "œ", "Æ",
		"\u0301", "\ufffd", "中", "丮", "😀", "😁", "ǆ", "ǅ", "İ", "ı", "i", "I"}
	nWords := c.Pick(90, 700)
	for ci, coll := range colls {
		if coll.Sorter() == nil {
			c.Count("c15.collations_without_sorter_skipped", 1)
			continue
		}
		c.Case("c15/collation/"+coll.Name(), nil)
		r := c.SubRand("c15/collation", ci)
		st, err := gmstypes.CreateString(sqltypes.VarChar, 200, coll)
		rig.Must(err)
		words := []string{"", " ", "a", "A", "a ", "á", "ab", "aB", "éa", "ña", "ea"}
		for len(words) < nWords {
			var sb strings.Builder
			if r.Intn(2) == 0 { // shared prefix
				sb.WriteString(pick(r, words))
			}
			for k := r.Intn(4); k >= 0; k-- {
				sb.WriteString(pick(r, runes))
			}
			words = append(words, sb.String())
		}
		td := val.NewTupleDescriptorWithArgs(val.TupleDescriptorArgs{Comparator: schema.CollationTupleComparator{Collations: []sql.CollationID{coll, sql.Collation_Unspecified}}},
			val.Type{Enc: val.StringEnc, Nullable: true}, val.Type{Enc: val.Int8Enc, Nullable: true})
		tups := make([]val.Tuple, len(words))
		for i, w := range words {
			tb := val.NewTupleBuilder(td, x.ns)
			rig.Must(tb.PutString(0, w))
			tb.PutInt8(1, 1)
			t, err := tb.Build(bg, x.pool)
			rig.Must(err)
			tups[i] = t
		}
		n, ties := 0, 0
		for i := range words {
			for j := range words {
				want, err := st.Compare(bg, words[i], words[j])
				rig.Must(err)
				got := x.compare(td, tups[i], tups[j])
				n++
				if sign(want) == 0 && words[i] != words[j] {
					ties++
				}
				if got != sign(want) {
					x.lim.Violation("c15/order/collation/"+coll.Name(), "collated StringEnc comparison disagrees with go-mysql-server's StringType.Compare",
						map[string]any{"left": words[i], "right": words[j], "got": got, "want": sign(want)})
				}
				if dc := sign(val.CompareCollatedStrings(coll, []byte(words[i]), []byte(words[j]))); dc != sign(want) {
					x.lim.Violation("c15/order/collation-func/"+coll.Name(), "val.CompareCollatedStrings disagrees with go-mysql-server's StringType.Compare",
						map[string]any{"left": words[i], "right": words[j], "got": dc, "want": sign(want)})
				}
			}
		}
		c.Count("c15.collation_compares", n)
		c.Count("c15.collation_equal_weight_distinct_strings", ties)
		c.Distinct("collation/" + coll.Name())
	}
}
