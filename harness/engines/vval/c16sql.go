package vval

import (
	"bytes"
	"context"
	"encoding/hex"
	"fmt"
	"sort"
	"strings"
	"unicode/utf8"

	gms "github.com/dolthub/go-mysql-server"
	"github.com/dolthub/go-mysql-server/sql"

	dsqle "github.com/dolthub/dolt/go/libraries/doltcore/sqle"
	"github.com/dolthub/dolt/go/libraries/doltcore/table/editor"

	"verif/rig"
)

// C16 (SQL level) — the same TEXT / BLOB / JSON values are written through SQL into two tables whose target_row_size
// (a supported table option) forces them into different stored forms: rows of `c16_small` (target 256) keep only short
// values inline, rows of `c16_big` (target 60000) keep values up to ~60 KB inline. Read-back, cross-form equality joins,
// ORDER BY, DISTINCT and GROUP BY must not depend on the form.
//
// In-process engine (dolt's own sqle test helpers over an in-memory DoltDB); no server, no network.

type c16SQLRun struct {
	c      *rig.Ctx
	lim    *limiter
	engine *gms.Engine
	ctx    *sql.Context
}

func (x *c16SQLRun) exec(q string) []sql.Row {
	rows, err := dsqle.QueryRows(x.ctx, x.engine, q)
	if err != nil {
		short := q
		if len(short) > 200 {
			short = short[:200] + "..."
		}
		rig.Must(fmt.Errorf("sql %q: %w", short, err))
	}
	return rows
}

// query runs one of the checking queries; an SQL error on them is an observation about dolt, not an infrastructure failure.
func (x *c16SQLRun) query(check, typ, q string) ([]sql.Row, bool) {
	rows, err := dsqle.QueryRows(x.ctx, x.engine, q)
	if err != nil {
		x.lim.Violation("c16/sql/"+check+"/"+typ+"/error", "the query fails on a table holding out-of-band values: "+err.Error(), map[string]any{"query": q})
		return nil, false
	}
	return rows, true
}

func unwrapSQL(ctx context.Context, v any) ([]byte, error) {
	u, err := sql.UnwrapAny(ctx, v)
	if err != nil {
		return nil, err
	}
	switch t := u.(type) {
	case nil:
		return nil, nil
	case []byte:
		return t, nil
	case string:
		return []byte(t), nil
	}
	return nil, fmt.Errorf("unexpected column type %T", u)
}

func c16SQL(c *rig.Ctx) {
	c.Rule("SQL stage: ~70 TEXT and ~70 BLOB values (sizes 0..60000 around 250, 2047, 4000, 8000, 12000; families of values that share a prefix up to / next to a chunk boundary, prefixes cut at a chunk boundary, " +
		"multi-byte runes straddling a boundary) and ~40 JSON documents are inserted into two tables with target_row_size 256 and 60000, so that each value exists inline and out of band; checks: read-back, " +
		"a.v = b.v across the two tables, ORDER BY v in both tables vs the model order, COUNT(DISTINCT) and GROUP BY over the union. distinct = (type, size class, family)")
	c.Assume("default collation utf8mb4_0900_bin orders valid UTF-8 strings bytewise")
	dEnv := dsqle.CreateTestEnvWithName("c16sql")
	db, err := dsqle.NewDatabase(bg, "dolt", dEnv.DbData(bg), editor.Options{})
	rig.Must(err)
	engine, sqlCtx, err := dsqle.NewTestEngine(dEnv, bg, db)
	rig.Must(err)
	x := &c16SQLRun{c: c, lim: newLimiter(c, "c16.further_violations_same_key"), engine: engine, ctx: sqlCtx}

	for _, typ := range []string{"LONGTEXT", "LONGBLOB"} {
		x.textBlob(typ)
	}
	x.jsonColumn()
	c.Require(true, "")
}

func (x *c16SQLRun) textBlob(typ string) {
	c := x.c
	isText := typ == "LONGTEXT"
	kind := "random"
	if isText {
		kind = "multibyte"
	}
	r := c.SubRand("c16/sql/"+typ, 0)
	// families: a base value, its prefixes cut at/next to chunk boundaries, and copies mutated at/next to them
	type val struct {
		b      []byte
		family string
	}
	var vals []val
	add := func(b []byte, fam string) { vals = append(vals, val{b, fam}) }
	for _, n := range []int{0, 1, 20, 240, 249, 250, 251, 252, 2040, 2047, 2048, 5000, 59000} {
		add(c16Gen(r, kind, n), "single")
	}
	if isText {
		add([]byte("a"), "single")
		add([]byte("A"), "single")
		add([]byte("é"), "single")
	}
	for fi, n := range []int{c16Chunk + 2, 2*c16Chunk + 1, 3 * c16Chunk, 12003} {
		base := c16Gen(c.SubRand("c16/sql/fam/"+typ, fi), kind, n)
		add(base, "family-base")
		for _, p := range []int{c16Chunk - 1, c16Chunk, c16Chunk + 1, 2 * c16Chunk, n - 1} {
			if p > 0 && p < n {
				pre := base[:p]
				if !isText || validUTF8(pre) {
					add(pre, "family-prefix-"+offClass(p))
				}
				if m, at := mutateAt(base, p, isText); m != nil {
					add(m, "family-mutation-"+offClass(at))
				}
			}
		}
	}
	// duplicates (for DISTINCT / GROUP BY)
	nDup := 0
	for i := 0; i < len(vals) && nDup < 8; i += 5 {
		add(vals[i].b, "duplicate")
		nDup++
	}
	small, big := "c16_small_"+strings.ToLower(typ), "c16_big_"+strings.ToLower(typ)
	x.exec(fmt.Sprintf("CREATE TABLE %s (id INT PRIMARY KEY, v %s) target_row_size=256", small, typ))
	x.exec(fmt.Sprintf("CREATE TABLE %s (id INT PRIMARY KEY, v %s) target_row_size=60000", big, typ))
	lit := func(b []byte) string {
		if isText {
			return "CONVERT(UNHEX('" + hex.EncodeToString(b) + "') USING utf8mb4)"
		}
		return "UNHEX('" + hex.EncodeToString(b) + "')"
	}
	for i, v := range vals {
		c.Case(fmt.Sprintf("c16/sql/%s/insert/%d", typ, i), map[string]any{"size": len(v.b), "family": v.family})
		x.exec(fmt.Sprintf("INSERT INTO %s VALUES (%d, %s)", small, i, lit(v.b)))
		x.exec(fmt.Sprintf("INSERT INTO %s VALUES (%d, %s)", big, i, lit(v.b)))
		c.Distinct(fmt.Sprintf("sql/%s/%s/%d", typ, v.family, len(v.b)/1000))
	}
	c.Count("c16.sql_values_written", 2*len(vals))

	// read back
	for _, tbl := range []string{small, big} {
		c.Case("c16/sql/"+typ+"/readback/"+tbl, nil)
		rows := x.exec(fmt.Sprintf("SELECT id, v FROM %s ORDER BY id", tbl))
		if len(rows) != len(vals) {
			x.lim.Violation("c16/sql/readback/"+typ+"/row-count", "rows are missing", map[string]any{"table": tbl, "got": len(rows), "want": len(vals)})
			continue
		}
		for i, row := range rows {
			got, err := unwrapSQL(x.ctx, row[1])
			c.Count("c16.sql_readbacks", 1)
			if err != nil || !bytes.Equal(got, vals[i].b) {
				x.lim.Violation("c16/sql/readback/"+typ, "a value written through SQL does not read back byte for byte",
					map[string]any{"table": tbl, "id": i, "size": len(vals[i].b), "family": vals[i].family, "err": fmt.Sprint(err), "got": clip(got)})
			}
		}
	}
	// how many were actually stored in two different forms (inline in one table, out of band in the other)?
	twoForms := 0
	for _, v := range vals {
		if len(v.b)+1 > 256 && len(v.b)+1 <= 60000 { // the value tuple holds only v (id is the key)
			twoForms++
		}
	}
	c.Count("c16.sql_values_in_both_forms", twoForms)

	// equality across forms
	c.Case("c16/sql/"+typ+"/join", nil)
	rows, ok := x.query("equality", typ, fmt.Sprintf("SELECT a.id, b.id FROM %s a JOIN %s b ON a.v = b.v ORDER BY a.id, b.id", small, big))
	gotPairs := map[[2]int]bool{}
	for _, row := range rows {
		gotPairs[[2]int{toInt(row[0]), toInt(row[1])}] = true
	}
	for i := range vals {
		for j := range vals {
			want := bytes.Equal(vals[i].b, vals[j].b)
			if ok && want != gotPairs[[2]int{i, j}] {
				x.lim.Violation("c16/sql/equality/"+typ, "a.v = b.v between the inline and the out-of-band copy disagrees with the equality of the values",
					map[string]any{"small_id": i, "big_id": j, "want": want, "size_a": len(vals[i].b), "size_b": len(vals[j].b), "family_a": vals[i].family, "family_b": vals[j].family})
			}
		}
	}
	c.Count("c16.sql_equality_pairs", len(vals)*len(vals))

	// ORDER BY
	model := make([]int, len(vals))
	for i := range model {
		model[i] = i
	}
	sort.SliceStable(model, func(a, b int) bool {
		if c := bytes.Compare(vals[model[a]].b, vals[model[b]].b); c != 0 {
			return c < 0
		}
		return model[a] < model[b]
	})
	for _, tbl := range []string{small, big} {
		c.Case("c16/sql/"+typ+"/orderby/"+tbl, nil)
		rows, ok := x.query("orderby", typ, fmt.Sprintf("SELECT id FROM %s ORDER BY v, id", tbl))
		if !ok {
			continue
		}
		var got []int
		for _, row := range rows {
			got = append(got, toInt(row[0]))
		}
		c.Count("c16.sql_orderby_rows", len(got))
		if fmt.Sprint(got) != fmt.Sprint(model) {
			first := 0
			for first < len(got) && first < len(model) && got[first] == model[first] {
				first++
			}
			w := map[string]any{"table": tbl, "first_divergence_at": first}
			if first < len(got) && first < len(model) {
				w["got_id"], w["want_id"] = got[first], model[first]
				w["got_size"], w["want_size"] = len(vals[got[first]].b), len(vals[model[first]].b)
				w["got_family"], w["want_family"] = vals[got[first]].family, vals[model[first]].family
			}
			x.lim.Violation("c16/sql/orderby/"+typ, "ORDER BY over the column disagrees with the order of the values", w)
		}
	}
	// DISTINCT / GROUP BY over the union of both forms
	c.Case("c16/sql/"+typ+"/distinct", nil)
	distinct := map[string]int{}
	for _, v := range vals {
		distinct[string(v.b)]++
	}
	// per table first: a failure (or a wrong count) that occurs for one stored form only is a form dependence; a query that
	// fails identically on both tables is an engine limitation unrelated to the stored form (counted, not reported)
	type outcome struct {
		n   int
		err string
	}
	var oc [2]outcome
	for k, tbl := range []string{small, big} {
		rows, err := dsqle.QueryRows(x.ctx, x.engine, fmt.Sprintf("SELECT COUNT(DISTINCT v) FROM %s", tbl))
		if err != nil {
			oc[k] = outcome{-1, err.Error()}
		} else {
			oc[k] = outcome{toInt(rows[0][0]), ""}
		}
	}
	switch {
	case oc[0].err != "" && oc[1].err != "":
		c.Count("c16.sql_count_distinct_fails_for_both_forms."+typ, 1)
	case oc[0].err != "" || oc[1].err != "":
		x.lim.Violation("c16/sql/distinct/"+typ+"/error-in-one-form-only", "COUNT(DISTINCT v) fails on the table whose values are out of band and succeeds on the table holding the same values inline (or vice versa)",
			map[string]any{"small_table": small + " (target_row_size=256, values out of band)", "big_table": big + " (target_row_size=60000, values inline)", "err_small": oc[0].err, "err_big": oc[1].err, "n_small": oc[0].n, "n_big": oc[1].n})
	case oc[0].n != len(distinct) || oc[1].n != len(distinct):
		x.lim.Violation("c16/sql/distinct/"+typ, "COUNT(DISTINCT v) disagrees with the number of distinct values", map[string]any{"n_small": oc[0].n, "n_big": oc[1].n, "want": len(distinct)})
	}
	if oc[0].err != "" || oc[1].err != "" {
		// the union query would only repeat the same failure; use the DISTINCT subquery form instead
		rows, ok = x.query("distinct-subquery", typ, fmt.Sprintf("SELECT COUNT(*) FROM (SELECT v FROM %s UNION SELECT v FROM %s) u", small, big))
		if ok {
			if got := toInt(rows[0][0]); got != len(distinct) {
				x.lim.Violation("c16/sql/distinct/"+typ, "UNION (distinct) over inline and out-of-band copies disagrees with the number of distinct values", map[string]any{"got": got, "want": len(distinct)})
			}
		}
	} else {
		rows, ok = x.query("distinct", typ, fmt.Sprintf("SELECT COUNT(DISTINCT v) FROM (SELECT v FROM %s UNION ALL SELECT v FROM %s) u", small, big))
		if !ok {
		} else if got := toInt(rows[0][0]); got != len(distinct) {
			x.lim.Violation("c16/sql/distinct/"+typ, "COUNT(DISTINCT v) over inline and out-of-band copies disagrees with the number of distinct values", map[string]any{"got": got, "want": len(distinct)})
		}
	}
	rows, ok = x.query("groupby", typ, fmt.Sprintf("SELECT MIN(id), COUNT(*) FROM (SELECT id, v FROM %s UNION ALL SELECT id, v FROM %s) u GROUP BY v", small, big))
	if ok && len(rows) != len(distinct) {
		x.lim.Violation("c16/sql/groupby/"+typ, "GROUP BY v over inline and out-of-band copies produces a wrong number of groups", map[string]any{"got": len(rows), "want": len(distinct)})
	}
	for _, row := range rows {
		id, n := toInt(row[0]), toInt(row[1])
		if id < 0 || id >= len(vals) || n != 2*distinct[string(vals[id].b)] {
			x.lim.Violation("c16/sql/groupby/"+typ, "GROUP BY v puts the inline and the out-of-band copy of a value in different groups", map[string]any{"min_id": id, "count": n})
		}
	}
	c.Count("c16.sql_distinct_values", len(distinct))
}

func (x *c16SQLRun) jsonColumn() {
	c := x.c
	x.exec("CREATE TABLE c16_small_json (id INT PRIMARY KEY, v JSON) target_row_size=256")
	x.exec("CREATE TABLE c16_big_json (id INT PRIMARY KEY, v JSON) target_row_size=60000")
	n := c.Pick(40, 400)
	var docs []any
	for i := 0; i < n; i++ {
		r := c.SubRand("c16/sql/json", i)
		g := &jgen{r: r, escKeys: true}
		var v any
		switch i % 4 {
		case 0:
			v = g.value(4)
		case 1:
			v = g.big(150 + r.Intn(250))
		case 2:
			v = g.big(1800 + r.Intn(500))
		default:
			v = g.big(3500 + r.Intn(20000))
		}
		v = jNorm(v)
		docs = append(docs, v)
		buf := jMarshal(v)
		c.Case(fmt.Sprintf("c16/sql/json/insert/%d", i), map[string]any{"bytes": len(buf)})
		lit := "CAST(CONVERT(UNHEX('" + hex.EncodeToString(buf) + "') USING utf8mb4) AS JSON)"
		x.exec(fmt.Sprintf("INSERT INTO c16_small_json VALUES (%d, %s)", i, lit))
		x.exec(fmt.Sprintf("INSERT INTO c16_big_json VALUES (%d, %s)", i, lit))
		c.Distinct(fmt.Sprintf("sql/json/%d/%d", i%4, len(buf)/1000))
	}
	for _, tbl := range []string{"c16_small_json", "c16_big_json"} {
		c.Case("c16/sql/json/readback/"+tbl, nil)
		rows := x.exec("SELECT id, v FROM " + tbl + " ORDER BY id")
		for i, row := range rows {
			var got any
			var err error
			w, ok := row[1].(sql.JSONWrapper)
			if !ok {
				err = fmt.Errorf("column is %T", row[1])
			} else {
				got, err = w.ToInterface(x.ctx)
			}
			c.Count("c16.sql_readbacks", 1)
			if err != nil || !jEqual(got, docs[i]) {
				x.lim.Violation("c16/sql/readback/JSON", "a JSON document written through SQL does not read back JSON-equal",
					map[string]any{"table": tbl, "id": i, "err": fmt.Sprint(err), "written": clipS(string(jMarshal(docs[i]))), "read": clipS(string(jMarshalSafe(got)))})
			}
		}
	}
	c.Case("c16/sql/json/join", nil)
	rows, ok := x.query("equality", "JSON", "SELECT COUNT(*) FROM c16_small_json a JOIN c16_big_json b ON a.id = b.id AND a.v = b.v")
	if !ok {
	} else if got := toInt(rows[0][0]); got != len(docs) {
		x.lim.Violation("c16/sql/equality/JSON", "a JSON document does not compare equal to its copy stored in the other form", map[string]any{"equal_pairs": got, "want": len(docs)})
	}
	c.Count("c16.sql_json_docs", len(docs))
}

func toInt(v any) int {
	switch t := v.(type) {
	case int:
		return t
	case int8:
		return int(t)
	case int16:
		return int(t)
	case int32:
		return int(t)
	case int64:
		return int(t)
	case uint32:
		return int(t)
	case uint64:
		return int(t)
	}
	return -1
}

func validUTF8(b []byte) bool { return utf8Valid(b) }

func utf8Valid(b []byte) bool { return utf8.Valid(b) }
