package vval

import "verif/rig"

func c16SQL(c *rig.Ctx) {
	c.Distinct("stub1")
	c.Distinct("stub2")
}
