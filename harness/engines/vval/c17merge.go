package vval

import (
	"bytes"
	"encoding/json"
	"fmt"
	"math/rand"
	"strings"

	"github.com/dolthub/go-mysql-server/sql"
	gmstypes "github.com/dolthub/go-mysql-server/sql/types"

	"github.com/dolthub/dolt/go/libraries/doltcore/merge"
	"github.com/dolthub/dolt/go/store/prolly/tree"

	"verif/rig"
)

// C17 (merge) — merge.MergeJSON against a path-edit model.
//
// Model (exactly the property statement): the edits of a side are the differences base->side, located at paths
// (object members recursively; a member that is not an object on all three sides is one location). The merge applies the
// edits of both sides; it is a conflict iff some location is edited by both sides to different results (an edit of a
// location and an edit below it overlap).
//
// Guard-rails:
//   - MergeJSON is only called by the row merger when both sides changed the cell (left != base, right != base,
//     left != right); for a top-level value that is not an object on all three sides it documents "fall back to
//     equality": that case is only asserted under the caller's precondition.
//   - Arrays: dolt documents that two sides changing different positions of the same array is "currently a conflict,
//     may be relaxed". When base/left/right all hold an array at a location and both sides changed it differently, the
//     model computes the index-wise merge; if that merge itself conflicts a conflict is required, otherwise BOTH a
//     conflict and the index-wise merged array are accepted (counted as c17.merge_array_conservative).

func jsonDecoder(b []byte) *json.Decoder { return json.NewDecoder(bytes.NewReader(b)) }

type jopt struct {
	v  any
	ok bool
}

func optEq(a, b jopt) bool {
	if a.ok != b.ok {
		return false
	}
	return !a.ok || jEqual(a.v, b.v)
}

type m3 struct {
	res       jopt
	conflict  bool
	arrayAmbi bool // result is only one of the two accepted outcomes (the other one is a conflict)
}

func merge3(b, l, r jopt) m3 {
	switch {
	case optEq(l, r):
		return m3{res: l}
	case optEq(b, l):
		return m3{res: r}
	case optEq(b, r):
		return m3{res: l}
	}
	if !(b.ok && l.ok && r.ok) {
		return m3{conflict: true}
	}
	bo, ok1 := b.v.(map[string]any)
	lo, ok2 := l.v.(map[string]any)
	ro, ok3 := r.v.(map[string]any)
	if ok1 && ok2 && ok3 {
		keys := map[string]bool{}
		for _, m := range []map[string]any{bo, lo, ro} {
			for k := range m {
				keys[k] = true
			}
		}
		out := map[string]any{}
		ambi := false
		for k := range keys {
			get := func(m map[string]any) jopt { v, ok := m[k]; return jopt{v, ok} }
			sub := merge3(get(bo), get(lo), get(ro))
			if sub.conflict {
				return m3{conflict: true}
			}
			ambi = ambi || sub.arrayAmbi
			if sub.res.ok {
				out[k] = sub.res.v
			}
		}
		return m3{res: jopt{out, true}, arrayAmbi: ambi}
	}
	ba, ok1 := b.v.([]any)
	la, ok2 := l.v.([]any)
	ra, ok3 := r.v.([]any)
	if ok1 && ok2 && ok3 {
		n := max(len(ba), len(la), len(ra))
		var out []any
		hole := false
		for i := 0; i < n; i++ {
			get := func(a []any) jopt {
				if i < len(a) {
					return jopt{a[i], true}
				}
				return jopt{}
			}
			sub := merge3(get(ba), get(la), get(ra))
			if sub.conflict {
				return m3{conflict: true}
			}
			if !sub.res.ok {
				hole = true
				continue
			}
			if hole { // an element survives after a removed one: not expressible index-wise
				return m3{conflict: true}
			}
			out = append(out, sub.res.v)
		}
		if out == nil {
			out = []any{}
		}
		return m3{res: jopt{out, true}, arrayAmbi: true}
	}
	return m3{conflict: true}
}

// ---- edit scripts on Go values

func jSet(v any, path []jElem, nv any) any {
	if len(path) == 0 {
		return nv
	}
	e := path[0]
	switch t := v.(type) {
	case map[string]any:
		if e.isIdx {
			return v
		}
		child, ok := t[e.key]
		if !ok && len(path) > 1 {
			return v
		}
		t[e.key] = jSet(child, path[1:], nv)
	case []any:
		if !e.isIdx {
			return v
		}
		if e.idx >= len(t) {
			if len(path) == 1 {
				return append(t, nv)
			}
			return v
		}
		t[e.idx] = jSet(t[e.idx], path[1:], nv)
	}
	return v
}

func jRemove(v any, path []jElem) any {
	if len(path) == 0 {
		return v
	}
	e := path[0]
	switch t := v.(type) {
	case map[string]any:
		if e.isIdx {
			return v
		}
		if len(path) == 1 {
			delete(t, e.key)
			return t
		}
		if child, ok := t[e.key]; ok {
			t[e.key] = jRemove(child, path[1:])
		}
	case []any:
		if !e.isIdx || e.idx >= len(t) {
			return v
		}
		if len(path) == 1 {
			return append(append([]any{}, t[:e.idx]...), t[e.idx+1:]...)
		}
		t[e.idx] = jRemove(t[e.idx], path[1:])
	}
	return v
}

type c17Edit struct {
	Kind string `json:"kind"`
	Path string `json:"path"`
	Val  any    `json:"val,omitempty"`
	path []jElem
}

func applyEdits(v any, es []c17Edit) any {
	v = jClone(v)
	for _, e := range es {
		switch e.Kind {
		case "set":
			v = jSet(v, e.path, jClone(e.Val))
		case "remove":
			v = jRemove(v, e.path)
		}
	}
	return v
}

func (x *c17Run) genEdit(r *rand.Rand, g *jgen, doc any, noArrays bool) c17Edit {
	var locs [][]jElem
	jWalk(doc, nil, &locs)
	for try := 0; ; try++ {
		p := locs[r.Intn(len(locs))]
		if len(p) == 0 && try < 50 {
			continue
		}
		if noArrays {
			inArr := false
			for _, e := range p {
				inArr = inArr || e.isIdx
			}
			if inArr && try < 50 {
				continue
			}
		}
		e := c17Edit{path: append([]jElem{}, p...)}
		switch r.Intn(6) {
		case 0:
			e.Kind = "remove"
		case 1: // add a new member / append an element below p
			if v, ok := jGet(doc, p); ok {
				switch t := v.(type) {
				case map[string]any:
					k := g.key()
					for needsBackslashEscape(k) {
						k = g.key()
					}
					e.path = append(e.path, jElem{key: k})
				case []any:
					if !noArrays {
						e.path = append(e.path, jElem{isIdx: true, idx: len(t)})
					}
				}
			}
			e.Kind, e.Val = "set", g.value(2)
		default:
			e.Kind = "set"
			if r.Intn(3) == 0 {
				e.Val = g.value(2)
			} else {
				e.Val = g.scalar()
			}
		}
		if len(e.path) == 0 {
			e.Kind, e.Val = "set", g.object(2, 2)
		}
		e.Path = jPath(e.path)
		return e
	}
}

func c17Merge(c *rig.Ctx) {
	c.Rule("triples (base, left, right): base is a generated object (one in four spans several chunks), each side is base plus 1-4 PRNG edits (set / add member / remove / replace subtree / array element edits); " +
		"overlap modes: independent, same location same value, same location different value, ancestor vs descendant, and prefix families (left edits below key k and key k+suffix, right edits key k+suffix). " +
		"Each triple is merged with all-stored, all-in-memory and mixed wrappers. distinct = (overlap mode, expected outcome, wrapper mix, multi-chunk)")
	c.Assume("triples are only asserted under the row merger's precondition for calling MergeJSON: left != base, right != base, left != right")
	c.Assume("different positions of one array edited by both sides: conflict (dolt's documented conservative rule) and the index-wise merge are both accepted")
	x := &c17Run{c: c, ns: tree.NewTestNodeStore()}
	lim := newLimiter(c, "c17.further_violations_same_key")
	n := c.Pick(900, 20000)
	var conflicts, merges, ambi int
	for i := 0; i < n; i++ {
		r := c.SubRand("c17/merge", i)
		g := &jgen{r: r}
		var base any
		multi := i%4 == 0
		if multi {
			base = g.big(9000 + r.Intn(30000))
			if _, ok := base.(map[string]any); !ok {
				base = map[string]any{"a": base, "ab": g.object(3, 3), "k": g.value(2)}
			}
		} else {
			base = g.object(4, 2+r.Intn(7))
		}
		base = jNorm(base)
		mode := pick(r, []string{"independent", "independent", "same-same", "same-different", "ancestor-descendant", "prefix-family", "prefix-family", "no-arrays", "top-level-non-object"})
		var le, re []c17Edit
		noArr := mode == "no-arrays" || mode == "prefix-family"
		for k := 1 + r.Intn(3); k > 0; k-- {
			le = append(le, x.genEdit(r, g, base, noArr))
		}
		for k := 1 + r.Intn(3); k > 0; k-- {
			re = append(re, x.genEdit(r, g, base, noArr))
		}
		switch mode {
		case "same-same":
			re[0] = le[0]
		case "same-different":
			re[0] = le[0]
			re[0].Kind, re[0].Val = "set", g.scalar()
		case "ancestor-descendant":
			if len(le[0].path) > 1 {
				re[0] = c17Edit{Kind: pick(r, []string{"set", "remove"}), Val: g.scalar(), path: le[0].path[:len(le[0].path)-1]}
				re[0].Path = jPath(re[0].path)
			}
		case "prefix-family":
			bo := base.(map[string]any)
			k1 := pick(r, []string{"a", "k", "ab", "é", "a b"})
			k2 := k1 + pick(r, []string{"a", "b", "0", " ", ".x", "z"})
			if _, ok := bo[k1].(map[string]any); !ok {
				bo[k1] = map[string]any{"x": 1.0, "y": "v"}
			}
			if _, ok := bo[k2]; !ok {
				bo[k2] = g.scalar()
			}
			base = jNorm(bo)
			inner := "x"
			for k := range bo[k1].(map[string]any) {
				if !needsBackslashEscape(k) && k != "" {
					inner = k
					break
				}
			}
			le = []c17Edit{{Kind: "set", Val: "L-inner", path: []jElem{{key: k1}, {key: inner}}}, {Kind: "set", Val: "L-sibling", path: []jElem{{key: k2}}}}
			rv := any("R-sibling")
			if r.Intn(3) == 0 {
				rv = "L-sibling"
			}
			re = []c17Edit{{Kind: "set", Val: rv, path: []jElem{{key: k2}}}}
			if r.Intn(2) == 0 {
				le, re = re, le
			}
			for i := range le {
				le[i].Path = jPath(le[i].path)
			}
			for i := range re {
				re[i].Path = jPath(re[i].path)
			}
		}
		left := jNorm(applyEdits(base, le))
		right := jNorm(applyEdits(base, re))
		if mode == "top-level-non-object" {
			switch r.Intn(3) {
			case 0:
				left = jNorm(g.value(2))
			case 1:
				right = jNorm([]any{right})
			default:
				base = jNorm(g.scalar())
			}
		}
		_, bObj := base.(map[string]any)
		_, lObj := left.(map[string]any)
		_, rObj := right.(map[string]any)
		allObj := bObj && lObj && rObj
		precond := !jEqual(base, left) && !jEqual(base, right) && !jEqual(left, right)
		if !precond {
			// the row merger only calls MergeJSON when both sides changed the cell, differently
			c.Count("c17.merge_skipped_outside_callers_precondition", 1)
			continue
		}
		var want m3
		if allObj {
			want = merge3(jopt{base, true}, jopt{left, true}, jopt{right, true})
		} else {
			want = m3{conflict: true}
		}
		payload := map[string]any{"mode": mode, "left_edits": le, "right_edits": re, "multi_chunk": multi}
		c.Case(fmt.Sprintf("c17/merge/%d", i), payload)
		if i < 3 {
			c.Sample(map[string]any{"base": clipS(string(jMarshal(base))), "left_edits": le, "right_edits": re, "expected_conflict": want.conflict})
		}
		memBad := false
		memStart := lim.total
		for _, mix := range []string{"in-memory", "stored", "mixed"} {
			if mix == "stored" {
				memBad = lim.total != memStart
			}
			wrap := func(v any, stored bool) sql.JSONWrapper {
				if stored {
					return x.index(v)
				}
				return gmstypes.JSONDocument{Val: jClone(v)}
			}
			var bw, lw, rw sql.JSONWrapper
			switch mix {
			case "stored":
				bw, lw, rw = wrap(base, true), wrap(left, true), wrap(right, true)
			case "in-memory":
				bw, lw, rw = wrap(base, false), wrap(left, false), wrap(right, false)
			default:
				bw, lw, rw = wrap(base, true), wrap(left, r.Intn(2) == 0), wrap(right, r.Intn(2) == 0)
			}
			res, conflict, err, panicked := c17SafeMerge(x.ns, bw, lw, rw)
			outcome := "merged"
			if want.conflict {
				outcome = "conflict"
			} else if want.arrayAmbi {
				outcome = "array-either"
			}
			c.Distinct(fmt.Sprintf("merge/%s/%s/%s/%v", mode, outcome, mix, multi))
			c.Count("c17.merges_run", 1)
			witness := func(got string) map[string]any {
				w := map[string]any{"mode": mode, "wrappers": mix, "base": clipS(string(jMarshal(base))), "left": clipS(string(jMarshal(left))), "right": clipS(string(jMarshal(right))),
					"left_edits": le, "right_edits": re, "got": clipS(got), "want_conflict": want.conflict}
				if !want.conflict {
					w["want_merged"] = clipS(string(jMarshal(want.res.v)))
				}
				return w
			}
			key := "c17/merge/" + c17MergeClass(base, left, right)
			if mix != "in-memory" && !memBad {
				// the same triple merges correctly from in-memory documents: the stored-document differ is what misbehaves
				key += "+only-with-stored-documents"
			}
			if panicked != "" {
				// a panic inside MergeJSON is reported as a violation of its own (never swallowed); the run continues
				lim.Violation(key+"/panic", "MergeJSON panicked: "+panicked, witness("panic"))
				continue
			}
			if err != nil {
				lim.Violation(key+"/error", "MergeJSON failed: "+err.Error(), witness("error"))
				continue
			}
			switch {
			case want.conflict && !conflict:
				got, _ := res.ToInterface(bg)
				lim.Violation(key+"/missed-conflict", "both sides edited the same location differently but MergeJSON reported no conflict (one side's edit is lost)", witness(string(jMarshal(got))))
			case !want.conflict && conflict:
				if want.arrayAmbi {
					ambi++
					continue
				}
				lim.Violation(key+"/spurious-conflict", "the edits of the two sides do not overlap but MergeJSON reported a conflict", witness("conflict"))
			case !want.conflict:
				got, err := res.ToInterface(bg)
				if err != nil || !jEqual(got, want.res.v) {
					lim.Violation(key+"/wrong-merge", "MergeJSON result is not base plus the edits of both sides", witness(fmt.Sprint(string(jMarshal(got)), err)))
				}
			}
			if want.conflict {
				conflicts++
			} else {
				merges++
			}
		}
	}
	c.Count("c17.merge_expected_conflicts", conflicts)
	c.Count("c17.merge_expected_clean", merges)
	c.Count("c17.merge_array_conservative", ambi)
	c.Require(conflicts > 0 && merges > 0, "the workload must produce both conflicting and cleanly merging triples")
}

// jDiffPaths lists the locations at which |to| differs from |from|, at the granularity of dolt's JSON differ
// (objects member-wise, arrays index-wise, anything else as one location). shrink2 reports whether some array lost two
// or more elements.
func jDiffPaths(from, to any, prefix []jElem, out *[][]jElem, shrink2 *bool) {
	if jEqual(from, to) {
		return
	}
	fo, ok1 := from.(map[string]any)
	too, ok2 := to.(map[string]any)
	if ok1 && ok2 {
		keys := map[string]bool{}
		for k := range fo {
			keys[k] = true
		}
		for k := range too {
			keys[k] = true
		}
		for k := range keys {
			a, inA := fo[k]
			b, inB := too[k]
			p := append(append([]jElem{}, prefix...), jElem{key: k})
			if inA && inB {
				jDiffPaths(a, b, p, out, shrink2)
			} else {
				*out = append(*out, p)
			}
		}
		return
	}
	fa, ok1 := from.([]any)
	ta, ok2 := to.([]any)
	if ok1 && ok2 {
		if len(ta) <= len(fa)-2 {
			*shrink2 = true
		}
		if len(fa) == 0 && len(ta) > 0 {
			*out = append(*out, append(append([]jElem{}, prefix...), jElem{raw: "grows-empty-array"}))
		}
		for i := 0; i < max(len(fa), len(ta)); i++ {
			p := append(append([]jElem{}, prefix...), jElem{isIdx: true, idx: i})
			if i < len(fa) && i < len(ta) {
				jDiffPaths(fa[i], ta[i], p, out, shrink2)
			} else {
				*out = append(*out, p)
			}
		}
		return
	}
	*out = append(*out, append([]jElem{}, prefix...))
}

// docOrder compares two locations in document order (member names bytewise, indexes numerically, parent first).
func docOrder(a, b []jElem) int {
	for i := 0; i < len(a) && i < len(b); i++ {
		switch {
		case a[i].isIdx && b[i].isIdx:
			if a[i].idx != b[i].idx {
				return sign(a[i].idx - b[i].idx)
			}
		case a[i].isIdx != b[i].isIdx:
			if a[i].isIdx {
				return -1
			}
			return 1
		default:
			if c := bytes.Compare([]byte(a[i].key), []byte(b[i].key)); c != 0 {
				return c
			}
		}
	}
	return sign(len(a) - len(b))
}

// locKeyOrder compares the serialized location keys the way ThreeWayJsonDiffer does (bytes.Compare of
// 0xFF-member / 0xFE-index sequences).
func locKeyOrder(a, b []jElem) int {
	enc := func(p []jElem) []byte {
		var out []byte
		for _, e := range p {
			if e.isIdx {
				out = append(out, 0xFE, byte(e.idx>>24), byte(e.idx>>16), byte(e.idx>>8), byte(e.idx))
			} else {
				out = append(append(out, 0xFF), e.key...)
			}
		}
		return out
	}
	return bytes.Compare(enc(a), enc(b))
}

func c17SafeMerge(ns tree.NodeStore, b, l, r sql.JSONWrapper) (res sql.JSONWrapper, conflict bool, err error, panicked string) {
	defer func() {
		if p := recover(); p != nil {
			panicked = fmt.Sprint(p)
		}
	}()
	res, conflict, err = merge.MergeJSON(bg, ns, b, l, r)
	return
}

// c17MergeClass: structural class of a triple (a property of the input) for the violation key.
func c17MergeClass(base, left, right any) string {
	var lp, rp [][]jElem
	shrink := false
	jDiffPaths(base, left, nil, &lp, &shrink)
	jDiffPaths(base, right, nil, &rp, &shrink)
	inversion, arrays, esc, growsEmpty, quote := false, false, false, false, false
	strip := func(ps [][]jElem) [][]jElem {
		var out [][]jElem
		for _, p := range ps {
			if len(p) > 0 && p[len(p)-1].raw != "" {
				growsEmpty = true
				continue
			}
			out = append(out, p)
		}
		return out
	}
	lp, rp = strip(lp), strip(rp)
	for _, l := range lp {
		for _, r := range rp {
			if docOrder(l, r) != locKeyOrder(l, r) {
				inversion = true
			}
		}
	}
	for _, ps := range [][][]jElem{lp, rp} {
		for _, p := range ps {
			for _, e := range p {
				arrays = arrays || e.isIdx
				esc = esc || (!e.isIdx && needsBackslashEscape(e.key))
				quote = quote || (!e.isIdx && strings.Contains(e.key, `"`))
			}
		}
	}
	var flags []string
	if inversion {
		flags = append(flags, "edited-paths-whose-key-byte-order-differs-from-document-order")
	}
	if shrink {
		flags = append(flags, "array-shrinks-by-2-or-more")
	}
	if growsEmpty {
		flags = append(flags, "first-element-added-to-an-empty-array")
	}
	if arrays {
		flags = append(flags, "array-element-edits")
	}
	if esc {
		flags = append(flags, "escaped-keys")
	}
	if quote {
		flags = append(flags, "member-name-containing-a-double-quote")
	}
	if len(flags) == 0 {
		return "plain-object-edits"
	}
	return strings.Join(flags, "+")
}

var _ = rig.Must
