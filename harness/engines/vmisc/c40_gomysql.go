//go:build gomysql

package vmisc

// NOT BUILT BY DEFAULT (build tag gomysql): go-mysql v1.12.0 is in the module cache but its go.mod requires
// github.com/BurntSushi/toml v1.3.2, whose go.mod is not, so `go get github.com/go-mysql-org/go-mysql` cannot resolve
// offline. To enable: make the dependency resolvable in /verif/harness/go.mod and build with `-tags "verif gomysql"`.
//
// C40, second opinion — the binlog file written by the in-package twin (format description event + the very
// TableMap / WriteRows events it decoded with vitess) is parsed with go-mysql's replication.BinlogParser, an
// independent MySQL binlog decoder, and every decoded cell is compared with the canonical rendering of the stored
// value that the twin wrote next to it. Runs in the external harness module because dolt's module does not depend on
// go-mysql.

import (
	"bufio"
	"bytes"
	"encoding/hex"
	"encoding/json"
	"fmt"
	"math"
	"math/big"
	"os"
	"path/filepath"
	"strconv"
	"strings"
	"time"

	"github.com/go-mysql-org/go-mysql/replication"

	"verif/rig"
)

type c40ExpCol struct {
	Def    string `json:"def"`
	Family string `json:"family"`
}

type c40ExpTable struct {
	TableID uint64               `json:"table_id"`
	Table   string               `json:"table"`
	Cols    []c40ExpCol          `json:"cols"`
	Rows    map[string][]*string `json:"rows"`
}

func c40PadYear(s string) string {
	if i := strings.IndexByte(s, '-'); i > 0 && i < 4 {
		s = strings.Repeat("0", 4-i) + s
	}
	return s
}

func c40TrimFrac(s string) string {
	if i := strings.IndexByte(s, '.'); i >= 0 {
		s = strings.TrimRight(s, "0")
		s = strings.TrimSuffix(s, ".")
	}
	return c40PadYear(s)
}

func c40TimeMicros(s string) (int64, bool) {
	neg := strings.HasPrefix(s, "-")
	s = strings.TrimPrefix(s, "-")
	frac := ""
	if i := strings.IndexByte(s, '.'); i >= 0 {
		s, frac = s[:i], s[i+1:]
	}
	parts := strings.Split(s, ":")
	if len(parts) != 3 {
		return 0, false
	}
	h, e1 := strconv.ParseInt(parts[0], 10, 64)
	m, e2 := strconv.ParseInt(parts[1], 10, 64)
	sec, e3 := strconv.ParseInt(parts[2], 10, 64)
	if e1 != nil || e2 != nil || e3 != nil || m > 59 || sec > 59 {
		return 0, false
	}
	for len(frac) < 6 {
		frac += "0"
	}
	us, e4 := strconv.ParseInt(frac[:6], 10, 64)
	if e4 != nil {
		return 0, false
	}
	v := ((h*60+m)*60+sec)*1_000_000 + us
	if neg {
		v = -v
	}
	return v, true
}

func c40JSONNorm(v any) any {
	switch x := v.(type) {
	case map[string]any:
		out := map[string]any{}
		for k, e := range x {
			out[k] = c40JSONNorm(e)
		}
		return out
	case []any:
		out := make([]any, len(x))
		for i, e := range x {
			out[i] = c40JSONNorm(e)
		}
		return out
	case json.Number:
		f, _ := x.Float64()
		return f
	}
	return v
}

// c40GoMySQLCanon renders a value decoded by go-mysql in the canonical form of the twin (see c40Canon there).
func c40GoMySQLCanon(col c40ExpCol, v any) (string, error) {
	asInt := func() (int64, bool) {
		switch x := v.(type) {
		case int8:
			return int64(x), true
		case int16:
			return int64(x), true
		case int32:
			return int64(x), true
		case int64:
			return x, true
		case int:
			return int64(x), true
		}
		return 0, false
	}
	switch col.Family {
	case "int":
		i, ok := asInt()
		if !ok {
			return "", fmt.Errorf("unexpected %T", v)
		}
		if strings.Contains(col.Def, "unsigned") { // the decoder has no signedness information: reinterpret by width
			switch {
			case strings.HasPrefix(col.Def, "tinyint"):
				return strconv.FormatUint(uint64(uint8(i)), 10), nil
			case strings.HasPrefix(col.Def, "smallint"):
				return strconv.FormatUint(uint64(uint16(i)), 10), nil
			case strings.HasPrefix(col.Def, "mediumint"):
				return strconv.FormatUint(uint64(uint32(i)&0xFFFFFF), 10), nil
			case strings.HasPrefix(col.Def, "int"):
				return strconv.FormatUint(uint64(uint32(i)), 10), nil
			default:
				return strconv.FormatUint(uint64(i), 10), nil
			}
		}
		return strconv.FormatInt(i, 10), nil
	case "float":
		switch x := v.(type) {
		case float32:
			if x == 0 {
				x = 0
			}
			return fmt.Sprintf("f32:%08x", math.Float32bits(x)), nil
		case float64:
			if x == 0 {
				x = 0
			}
			return fmt.Sprintf("f64:%016x", math.Float64bits(x)), nil
		}
		return "", fmt.Errorf("unexpected %T", v)
	case "decimal":
		s := fmt.Sprint(v)
		r, ok := new(big.Rat).SetString(s)
		if !ok {
			return "", fmt.Errorf("bad decimal %q", s)
		}
		return r.String(), nil
	case "date":
		return c40PadYear(fmt.Sprint(v)), nil
	case "datetime", "timestamp":
		if t, ok := v.(time.Time); ok {
			return c40TrimFrac(t.UTC().Format("2006-01-02 15:04:05.000000")), nil
		}
		return c40TrimFrac(fmt.Sprint(v)), nil
	case "time":
		us, ok := c40TimeMicros(fmt.Sprint(v))
		if !ok {
			return "not-a-valid-time:" + fmt.Sprint(v), nil
		}
		return strconv.FormatInt(us, 10), nil
	case "year":
		i, ok := asInt()
		if !ok {
			return "", fmt.Errorf("unexpected %T", v)
		}
		return strconv.FormatInt(i, 10), nil
	case "bit", "enum", "set":
		i, ok := asInt()
		if !ok {
			return "", fmt.Errorf("unexpected %T", v)
		}
		return strconv.FormatUint(uint64(i), 10), nil
	case "json":
		var raw []byte
		switch x := v.(type) {
		case []byte:
			raw = x
		case string:
			raw = []byte(x)
		default:
			return "", fmt.Errorf("unexpected %T", v)
		}
		dec := json.NewDecoder(bytes.NewReader(raw))
		dec.UseNumber()
		var doc any
		if err := dec.Decode(&doc); err != nil {
			return "", fmt.Errorf("decoder produced invalid JSON text: %v", err)
		}
		b, err := json.Marshal(c40JSONNorm(doc))
		return string(b), err
	}
	var raw []byte
	switch x := v.(type) {
	case []byte:
		raw = x
	case string:
		raw = []byte(x)
	default:
		return "", fmt.Errorf("unexpected %T", v)
	}
	if strings.HasPrefix(col.Def, "binary(") {
		raw = bytes.TrimRight(raw, "\x00")
	}
	return "hex:" + hex.EncodeToString(raw), nil
}

func c40Short(s string) string {
	if len(s) > 140 {
		return fmt.Sprintf("%s...(%d bytes)", s[:140], len(s))
	}
	return s
}

// c40ValueClass names the class of a stored value (same names as the twin uses) so that findings are keyed by input class.
func c40ValueClass(col c40ExpCol, want string) string {
	switch col.Family {
	case "year":
		if want == "0" {
			return "year-0000"
		}
	case "time":
		us, err := strconv.ParseInt(want, 10, 64)
		if err == nil && us < 0 {
			switch {
			case us%1_000_000 != 0 && (-us/1_000_000)%60 == 59:
				return "negative-with-fraction-and-59-seconds"
			case us%1_000_000 != 0:
				return "negative-with-fraction"
			}
			return "negative"
		}
	case "json":
		var doc any
		if json.Unmarshal([]byte(want), &doc) == nil && c40MaxKeyLen(doc) >= 256 {
			return "object-key-of-256-bytes-or-more"
		}
	}
	return "any"
}

func c40MaxKeyLen(v any) int {
	m := 0
	switch x := v.(type) {
	case map[string]any:
		for k, e := range x {
			m = max(m, len(k), c40MaxKeyLen(e))
		}
	case []any:
		for _, e := range x {
			m = max(m, c40MaxKeyLen(e))
		}
	}
	return m
}

func init() {
	extraC40Stages = append(extraC40Stages, rig.Stage{Name: "gomysql", Fn: c40GoMySQL, TimeoutQuick: 10 * time.Minute, TimeoutThorough: time.Hour})
}

func c40GoMySQL(c *rig.Ctx) {
	c.Rule("second decoder: go-mysql's BinlogParser parses the binlog file written by the vitess stage (the same TableMap/WriteRows events); " +
		"each decoded cell is compared with the canonical stored value written by the twin; distinct non-trivial = distinct (column type, stored value)")
	c.Assume("go-mysql v1.12.0 replication.BinlogParser is an independent implementation of the MySQL row-event and binary-JSON decoders; unsigned integers are reinterpreted by column width because row events carry no signedness")
	dir := filepath.Join(filepath.Dir(c.Dir), "s-vitess")
	evPath, expPath := filepath.Join(dir, "c40-events.binlog"), filepath.Join(dir, "c40-expected.jsonl")
	f, err := os.Open(expPath)
	if err != nil {
		c.Inconclusive("the vitess stage left no side files (" + err.Error() + ")")
		return
	}
	tables := map[uint64]*c40ExpTable{}
	sc := bufio.NewScanner(f)
	sc.Buffer(make([]byte, 1<<20), 1<<30)
	for sc.Scan() {
		var t c40ExpTable
		if json.Unmarshal(sc.Bytes(), &t) == nil {
			tables[t.TableID] = &t
		}
	}
	f.Close()

	p := replication.NewBinlogParser()
	p.SetVerifyChecksum(true)
	p.SetTimestampStringLocation(time.UTC)
	perKey := map[string]int{}
	viol := func(key, what string, w any) {
		perKey[key]++
		if perKey[key] <= 3 {
			c.Violation(key, what, w)
		} else {
			c.Count("c40.violations_beyond_3_per_class."+key, 1)
		}
	}
	var cells, nulls, rows, rowEvents int
	famCells := map[string]int{}
	c.Case("c40/gomysql/parse", map[string]any{"file": evPath})
	err = p.ParseFile(evPath, 0, func(ev *replication.BinlogEvent) error {
		re, ok := ev.Event.(*replication.RowsEvent)
		if !ok {
			return nil
		}
		rowEvents++
		t := tables[re.TableID]
		if t == nil {
			return nil
		}
		for _, row := range re.Rows {
			rows++
			if len(row) != len(t.Cols)+1 {
				viol("c40/gomysql/row/column-count", fmt.Sprintf("table %s: %d columns decoded, %d expected", t.Table, len(row), len(t.Cols)+1), nil)
				continue
			}
			id := fmt.Sprint(row[0])
			want, ok := t.Rows[id]
			if !ok {
				viol("c40/gomysql/row/unknown-id", "decoded row id "+id+" is not a stored row of "+t.Table, nil)
				continue
			}
			for i, col := range t.Cols {
				v := row[i+1]
				def := col.Def
				if col.Family == "enum" || col.Family == "set" {
					def = fmt.Sprintf("%s[%d values]", col.Family, strings.Count(def, ",")+1)
				}
				if (v == nil) != (want[i] == nil) {
					viol("c40/gomysql/null-bitmap/"+col.Family, fmt.Sprintf("column %s: stored NULL=%v, decoded NULL=%v", def, want[i] == nil, v == nil),
						map[string]any{"table": t.Table, "row_id": id})
					continue
				}
				if v == nil {
					nulls++
					continue
				}
				cells++
				famCells[col.Family]++
				got, err := c40GoMySQLCanon(col, v)
				if err != nil {
					got = "undecodable: " + err.Error()
				}
				c.Distinct(def + "|" + c40Short(*want[i]))
				if got != *want[i] {
					viol("c40/gomysql/value/"+col.Family+"/"+def+"/"+c40ValueClass(col, *want[i]),
						fmt.Sprintf("column %s: stored %s but go-mysql decodes %s", def, c40Short(*want[i]), c40Short(got)),
						map[string]any{"table": t.Table, "row_id": id, "column": def, "stored": c40Short(*want[i]), "decoded": c40Short(got), "decoded_go_type": fmt.Sprintf("%T", v)})
				}
			}
		}
		return nil
	})
	if err != nil {
		viol("c40/gomysql/parse-error", "go-mysql cannot parse the binlog file produced from Dolt's events: "+err.Error(), map[string]any{"file": evPath})
	}
	c.Count("c40.gomysql.rows_events", rowEvents)
	c.Count("c40.gomysql.rows_decoded", rows)
	c.Count("c40.gomysql.cells_compared", cells)
	c.Count("c40.gomysql.null_cells", nulls)
	for f, n := range famCells {
		c.Count("c40.gomysql.cells."+f, n)
	}
	c.Require(cells > 0 && nulls > 0, "go-mysql decoded no cell")
}
