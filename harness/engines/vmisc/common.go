// Package vmisc holds the monitors for branch permissions (C38), the remote server's sealed URLs and
// file handler (C39) and binlog row-event encoding (C40).
package vmisc

import (
	"time"

	"verif/rig"
)

// twinEnv makes the overlay-injected go test runs share the build cache with every other checkout of the
// tree (mutant copies): without -trimpath the package directories are part of the cache key.
var twinEnv = []string{"GOFLAGS=-mod=mod -trimpath"}

// extraC40Stages is filled by c40_gomysql.go (build tag gomysql): go-mysql as a second decoder of the same events.
var extraC40Stages []rig.Stage

// Register registers the checks of this engine.
func Register() {
	rig.Register(&rig.Spec{Prop: "C38", Level: "exploration", Stages: []rig.Stage{
		{Name: "rules", Fn: c38, TimeoutQuick: 20 * time.Minute, TimeoutThorough: 3 * time.Hour},
	}})
	rig.Register(&rig.Spec{Prop: "C39", Level: "exploration", Stages: []rig.Stage{
		{Name: "sealer", Twin: &rig.Twin{Pkg: "libraries/doltcore/remotesrv", Run: "^TestVerifC39Sealer$"},
			Env: twinEnv, TimeoutQuick: 25 * time.Minute, TimeoutThorough: 3 * time.Hour},
		{Name: "http", Twin: &rig.Twin{Pkg: "utils/remotesrv", Run: "^TestVerifC39Http$"},
			Env: twinEnv, TimeoutQuick: 25 * time.Minute, TimeoutThorough: 3 * time.Hour},
	}})
	rig.Register(&rig.Spec{Prop: "C40", Level: "exploration", Stages: append([]rig.Stage{
		// no -trimpath here: the package's external tests locate their testdata through runtime.Caller at init time
		{Name: "vitess", Twin: &rig.Twin{Pkg: "libraries/doltcore/sqle/binlogreplication", Run: "^TestVerifC40$"},
			TimeoutQuick: 40 * time.Minute, TimeoutThorough: 4 * time.Hour},
	}, extraC40Stages...)})
}
