package vmisc

// C38 — branch permissions follow the rule table's documented matching.
//
// Oracle: the current rule set is evaluated directly with an independent LIKE matcher (dynamic programming over
// runes; '_' one character, '%' any run, backslash escapes the next character) in which two characters are equal
// when the column's collation gives them the same weight (database, branch, host: utf8mb4_0900_ai_ci; user:
// utf8mb4_0900_bin — read from sortFuncs in expr_parser_node.go and the table schemas in sqle/dtables), then
//   - access: the rule(s) with the longest folded pattern win, equally long ones are OR-ed, Admin > Write > Merge
//     > Read is closed downwards (access.go MatchIgnoringRow);
//   - namespace: unrestricted when no rule's database matches or none of those matches the branch; otherwise the
//     rule(s) with the longest branch pattern among them decide: allowed iff one of them matches user and host.
// It is compared with the production Access trie and Namespace.CanCreate after every step of a random history of
// inserts / deletes / updates / save+reload, where every rule is written in a random equivalent spelling (unfolded
// wildcards, case and accent variants in the case-insensitive columns, needless escapes).
//
// Guard-rails (what the statement leaves open is not asserted):
//   - "longest" is the length of the FOLDED pattern. The code measures tokens over all four columns for access
//     and bytes of the branch pattern for the namespace; the statement does not say which unit. The oracle computes
//     the verdict under tokens, runes and bytes and asserts only when all three agree (counted otherwise).
//   - patterns ending in a lone backslash have no defined LIKE meaning and are not generated.
//   - whether an INSERT/UPDATE through the system table is accepted (duplicate / subset rejection) is not part of
//     the statement: the model applies an operation iff the table editor returned no error.

import (
	"context"
	"fmt"
	"math/rand"
	"os"
	"path/filepath"
	"sort"
	"strings"
	"unicode/utf8"

	"github.com/dolthub/go-mysql-server/sql"

	"github.com/dolthub/dolt/go/libraries/doltcore/branch_control"
	"github.com/dolthub/dolt/go/libraries/doltcore/sqle/dtables"
	"github.com/dolthub/dolt/go/libraries/utils/filesys"

	"verif/rig"
)

const (
	bcLit = iota
	bcOne
	bcAny
)

type bcTok struct {
	kind int
	r    rune
	esc  bool // literal was written with a backslash
}

var (
	bcCI  = sql.Collation_utf8mb4_0900_ai_ci.Sorter()
	bcBin = sql.Collation_utf8mb4_0900_bin.Sorter()
	// database, branch, user, host
	bcWeights = [4]func(rune) int32{bcCI, bcCI, bcBin, bcCI}
	bcIsCI    = [4]bool{true, true, false, true}
)

// bcParse is the oracle's own pattern parser. dangling reports a trailing lone backslash.
func bcParse(p string) (toks []bcTok, dangling bool) {
	esc := false
	for _, r := range p {
		switch {
		case esc:
			toks = append(toks, bcTok{kind: bcLit, r: r, esc: true})
			esc = false
		case r == '\\':
			esc = true
		case r == '_':
			toks = append(toks, bcTok{kind: bcOne})
		case r == '%':
			toks = append(toks, bcTok{kind: bcAny})
		default:
			toks = append(toks, bcTok{kind: bcLit, r: r})
		}
	}
	return toks, esc
}

// bcFold is the oracle's own normal form: inside every maximal run of wildcards the '_' come first and at most
// one '%' follows. It preserves the language of the pattern.
func bcFold(toks []bcTok) []bcTok {
	var out []bcTok
	i := 0
	for i < len(toks) {
		if toks[i].kind == bcLit {
			out = append(out, toks[i])
			i++
			continue
		}
		ones, any := 0, false
		for i < len(toks) && toks[i].kind != bcLit {
			if toks[i].kind == bcOne {
				ones++
			} else {
				any = true
			}
			i++
		}
		for k := 0; k < ones; k++ {
			out = append(out, bcTok{kind: bcOne})
		}
		if any {
			out = append(out, bcTok{kind: bcAny})
		}
	}
	return out
}

// bcLike decides "s LIKE pattern" where characters are equal iff weight() agrees.
func bcLike(p []bcTok, s []rune, weight func(rune) int32) bool {
	m := len(s)
	cur := make([]bool, m+1)
	cur[0] = true
	for _, t := range p {
		next := make([]bool, m+1)
		switch t.kind {
		case bcAny:
			seen := false
			for j := 0; j <= m; j++ {
				if cur[j] {
					seen = true
				}
				next[j] = seen
			}
		case bcOne:
			for j := 1; j <= m; j++ {
				next[j] = cur[j-1]
			}
		default:
			w := weight(t.r)
			for j := 1; j <= m; j++ {
				next[j] = cur[j-1] && w == weight(s[j-1])
			}
		}
		cur = next
	}
	return cur[m]
}

// bcString renders folded tokens back to the text the table shows (escapes kept as written; the
// case-insensitive columns are lower-cased).
func bcString(toks []bcTok, ci bool) string {
	var sb strings.Builder
	for _, t := range toks {
		switch t.kind {
		case bcOne:
			sb.WriteByte('_')
		case bcAny:
			sb.WriteByte('%')
		default:
			if t.esc {
				sb.WriteByte('\\')
			}
			sb.WriteRune(t.r)
		}
	}
	if ci {
		return strings.ToLower(sb.String())
	}
	return sb.String()
}

// bcKey identifies a column pattern up to the column's collation (what the primary key of the table compares).
func bcKey(toks []bcTok, weight func(rune) int32) string {
	var sb strings.Builder
	for _, t := range toks {
		switch t.kind {
		case bcOne:
			sb.WriteString("_,")
		case bcAny:
			sb.WriteString("%,")
		default:
			fmt.Fprintf(&sb, "%d,", weight(t.r))
		}
	}
	return sb.String()
}

type bcRule struct {
	Raw   [4]string `json:"raw"` // as written by the history
	toks  [4][]bcTok
	Text  [4]string `json:"text"` // folded text as the table shows it
	Perms uint64    `json:"perms"`
}

func bcNewRule(raw [4]string, perms uint64) *bcRule {
	r := &bcRule{Raw: raw, Perms: perms}
	for i := 0; i < 4; i++ {
		t, _ := bcParse(raw[i])
		r.toks[i] = bcFold(t)
		r.Text[i] = bcString(r.toks[i], bcIsCI[i])
	}
	return r
}

func (r *bcRule) collKey() string {
	var parts [4]string
	for i := 0; i < 4; i++ {
		parts[i] = bcKey(r.toks[i], bcWeights[i])
	}
	return strings.Join(parts[:], "|")
}

func (r *bcRule) textKey() string { return strings.Join(r.Text[:], "\x00") }

// length of the folded pattern of column i under the three candidate units.
func (r *bcRule) colLen(i int) [3]int {
	toks := len(r.toks[i])
	return [3]int{toks, utf8.RuneCountInString(r.Text[i]), len(r.Text[i])}
}

func (r *bcRule) matches(req [4]string) bool {
	for i := 0; i < 4; i++ {
		if !bcLike(r.toks[i], []rune(req[i]), bcWeights[i]) {
			return false
		}
	}
	return true
}

func bcClose(p uint64) uint64 {
	const admin, write, merge, read = 1, 2, 4, 8
	switch {
	case p&admin != 0:
		p |= write | merge | read
	case p&write != 0:
		p |= merge | read
	case p&merge != 0:
		p |= read
	}
	return p
}

type bcAccessVerdict struct {
	Matched   bool      `json:"matched"`
	Perms     [3]uint64 `json:"perms_by_unit"` // tokens, runes, bytes
	Agree     bool      `json:"units_agree"`
	NMatch    int       `json:"n_match"`
	NLongest  int       `json:"n_longest"`
	NeededCI  bool      `json:"-"`
	MatchText []string  `json:"match_rules,omitempty"`
}

func bcRefAccess(rules []*bcRule, req [4]string) bcAccessVerdict {
	var v bcAccessVerdict
	var ms []*bcRule
	for _, r := range rules {
		if r.matches(req) {
			ms = append(ms, r)
			v.MatchText = append(v.MatchText, strings.Join(r.Text[:], " | "))
			// would a binary comparison have matched as well?
			bin := true
			for i := 0; i < 4; i++ {
				if !bcLike(r.toks[i], []rune(req[i]), bcBin) {
					bin = false
				}
			}
			if !bin {
				v.NeededCI = true
			}
		}
	}
	v.NMatch = len(ms)
	v.Matched = len(ms) > 0
	for u := 0; u < 3; u++ {
		best, perms, n := -1, uint64(0), 0
		for _, r := range ms {
			l := 0
			for i := 0; i < 4; i++ {
				l += r.colLen(i)[u]
			}
			if l > best {
				best, perms, n = l, r.Perms, 1
			} else if l == best {
				perms |= r.Perms
				n++
			}
		}
		v.Perms[u] = bcClose(perms)
		if u == 0 {
			v.NLongest = n
		}
	}
	v.Agree = v.Perms[0] == v.Perms[1] && v.Perms[1] == v.Perms[2]
	return v
}

type bcNsVerdict struct {
	Allowed      [3]bool `json:"allowed_by_unit"`
	Agree        bool    `json:"units_agree"`
	Unrestricted bool    `json:"unrestricted"`
	NBranch      int     `json:"n_branch_match"`
}

func bcRefNamespace(rules []*bcRule, req [4]string) bcNsVerdict {
	var v bcNsVerdict
	var dbm, brm []*bcRule
	for _, r := range rules {
		if bcLike(r.toks[0], []rune(req[0]), bcWeights[0]) {
			dbm = append(dbm, r)
		}
	}
	for _, r := range dbm {
		if bcLike(r.toks[1], []rune(req[1]), bcWeights[1]) {
			brm = append(brm, r)
		}
	}
	v.NBranch = len(brm)
	if len(dbm) == 0 || len(brm) == 0 {
		v.Unrestricted, v.Agree = true, true
		v.Allowed = [3]bool{true, true, true}
		return v
	}
	for u := 0; u < 3; u++ {
		best := -1
		for _, r := range brm {
			if l := r.colLen(1)[u]; l > best {
				best = l
			}
		}
		for _, r := range brm {
			if r.colLen(1)[u] == best &&
				bcLike(r.toks[2], []rune(req[2]), bcWeights[2]) && bcLike(r.toks[3], []rune(req[3]), bcWeights[3]) {
				v.Allowed[u] = true
			}
		}
	}
	v.Agree = v.Allowed[0] == v.Allowed[1] && v.Allowed[1] == v.Allowed[2]
	return v
}

// ---------------------------------------------------------------------------------------------------------------
// generators

var (
	bcLitCI  = []rune{'a', 'A', 'b', 'e', 'E', 'é'}
	bcLitBin = []rune{'a', 'A', 'b', 'e', 'é'}
)

func bcLits(col int) []rune {
	if bcIsCI[col] {
		return bcLitCI
	}
	return bcLitBin
}

// bcGenPattern returns a pattern in folded-looking form (it may still contain adjacent wildcards).
func bcGenPattern(rng *rand.Rand, col int) string {
	switch rng.Intn(12) {
	case 0:
		return "%"
	case 1:
		return ""
	}
	n := 1 + rng.Intn(4)
	var sb strings.Builder
	lits := bcLits(col)
	for i := 0; i < n; i++ {
		switch x := rng.Intn(20); {
		case x < 11:
			sb.WriteRune(lits[rng.Intn(len(lits))])
		case x < 14:
			sb.WriteByte('_')
		case x < 17:
			sb.WriteByte('%')
		case x == 17:
			sb.WriteString(`\_`)
		case x == 18:
			sb.WriteString(`\%`)
		default:
			sb.WriteString(`\\`)
		}
	}
	return sb.String()
}

// bcRespell writes an equivalent spelling of a pattern: unfolded wildcard runs, case / accent variants in the
// case-insensitive columns, needless escapes. It denotes the same language and the same primary key.
func bcRespell(rng *rand.Rand, p string, col int) string {
	toks, _ := bcParse(p)
	toks = bcFold(toks)
	var sb strings.Builder
	i := 0
	for i < len(toks) {
		t := toks[i]
		if t.kind == bcLit {
			r := t.r
			if bcIsCI[col] && rng.Intn(3) == 0 {
				switch r {
				case 'a':
					r = 'A'
				case 'A':
					r = 'a'
				case 'b':
					r = 'B'
				case 'e', 'E', 'é':
					r = []rune{'e', 'E', 'é', 'É'}[rng.Intn(4)]
				}
			}
			if t.esc || r == '_' || r == '%' || r == '\\' || rng.Intn(8) == 0 {
				sb.WriteByte('\\')
			}
			sb.WriteRune(r)
			i++
			continue
		}
		ones, any := 0, false
		for i < len(toks) && toks[i].kind != bcLit {
			if toks[i].kind == bcOne {
				ones++
			} else {
				any = true
			}
			i++
		}
		// emit the run in a random order with duplicated '%'
		var run []byte
		for k := 0; k < ones; k++ {
			run = append(run, '_')
		}
		if any {
			for k := 0; k <= rng.Intn(3); k++ {
				run = append(run, '%')
			}
		}
		if rng.Intn(2) == 0 {
			rng.Shuffle(len(run), func(a, b int) { run[a], run[b] = run[b], run[a] })
		}
		sb.Write(run)
	}
	return sb.String()
}

// bcInstantiate produces a string matched by the pattern (up to the collation).
func bcInstantiate(rng *rand.Rand, p string, col int) string {
	toks, _ := bcParse(p)
	lits := bcLits(col)
	var sb strings.Builder
	for _, t := range toks {
		switch t.kind {
		case bcOne:
			sb.WriteRune(lits[rng.Intn(len(lits))])
		case bcAny:
			for k := rng.Intn(3); k > 0; k-- {
				sb.WriteRune(lits[rng.Intn(len(lits))])
			}
		default:
			r := t.r
			if bcIsCI[col] && rng.Intn(2) == 0 {
				switch r {
				case 'a', 'A':
					r = []rune{'a', 'A'}[rng.Intn(2)]
				case 'e', 'E', 'é':
					r = []rune{'e', 'E', 'é', 'É'}[rng.Intn(4)]
				}
			}
			sb.WriteRune(r)
		}
	}
	return sb.String()
}

func bcRandString(rng *rand.Rand, col int) string {
	n := rng.Intn(4)
	lits := bcLits(col)
	var sb strings.Builder
	for i := 0; i < n; i++ {
		sb.WriteRune(lits[rng.Intn(len(lits))])
	}
	return sb.String()
}

func bcGenRequest(rng *rand.Rand, rules []*bcRule) [4]string {
	var req [4]string
	if len(rules) > 0 && rng.Intn(10) < 7 {
		base := rules[rng.Intn(len(rules))]
		for i := 0; i < 4; i++ {
			src := base
			if rng.Intn(6) == 0 {
				src = rules[rng.Intn(len(rules))]
			}
			req[i] = bcInstantiate(rng, src.Text[i], i)
		}
	} else {
		for i := 0; i < 4; i++ {
			req[i] = bcRandString(rng, i)
		}
	}
	if rng.Intn(10) < 7 { // most requests carry no empty string
		for i := 0; i < 4; i++ {
			if req[i] == "" {
				lits := bcLits(i)
				for k := 1 + rng.Intn(2); k > 0; k-- {
					req[i] += string(lits[rng.Intn(len(lits))])
				}
			}
		}
	}
	if rng.Intn(8) == 0 { // a request that literally contains a LIKE metacharacter
		i := rng.Intn(4)
		m := []string{"_", "%", `\`}[rng.Intn(3)]
		pos := 0
		if len(req[i]) > 0 {
			rs := []rune(req[i])
			pos = rng.Intn(len(rs) + 1)
			req[i] = string(rs[:pos]) + m + string(rs[pos:])
		} else {
			req[i] = m
		}
	}
	return req
}

func bcHasMeta(req [4]string) bool {
	for _, s := range req {
		if strings.ContainsAny(s, `_%\`) {
			return true
		}
	}
	return false
}

func bcHasEmpty(req [4]string) bool {
	for _, s := range req {
		if s == "" {
			return true
		}
	}
	return false
}

// bcTailZero reports whether some rule that matches the request does so with a host pattern whose final '%'
// consumes no character (the host column is the last one of the concatenated expression).
func bcTailZero(rules []*bcRule, req [4]string) bool {
	for _, r := range rules {
		h := r.toks[3]
		if len(h) == 0 || h[len(h)-1].kind != bcAny || !r.matches(req) {
			continue
		}
		if bcLike(h[:len(h)-1], []rune(req[3]), bcWeights[3]) {
			return true
		}
	}
	return false
}

// bcAccessClass names the class of a request for the access table (it becomes part of the violation key).
func bcAccessClass(rules []*bcRule, req [4]string) string {
	switch {
	case bcHasMeta(req):
		return "metachar-request"
	case bcTailZero(rules, req):
		return "host-final-percent-matches-empty"
	case bcHasEmpty(req):
		return "empty-request"
	}
	return "plain"
}

// bcNsClass names the class of a request for the namespace table.
func bcNsClass(req [4]string) string {
	switch {
	case bcHasEmpty(req):
		return "empty-request"
	case bcHasMeta(req):
		return "metachar-request"
	}
	return "plain"
}

// ---------------------------------------------------------------------------------------------------------------
// the monitor

type bcOp struct {
	Op    string    `json:"op"`
	Table string    `json:"table"`
	Row   [4]string `json:"row,omitempty"`
	New   [4]string `json:"new,omitempty"`
	Perms uint64    `json:"perms,omitempty"`
	Err   string    `json:"err,omitempty"`
}

// perKey bounds how many witnesses of one violation class are written out in full (the rig keeps 200 in total).
var bcPerKey = map[string]int{}

func bcViolation(c *rig.Ctx, key, what string, witness any) {
	bcPerKey[key]++
	if bcPerKey[key] <= 3 {
		c.Violation(key, what, witness)
	} else {
		c.Count("c38.violations_beyond_3_per_class."+key, 1)
	}
}

type bcWorld struct {
	c        *rig.Ctx
	ctx      context.Context
	sqlCtx   *sql.Context
	dir      string
	file     string
	ctl      *branch_control.Controller
	mode     string             // api | sql
	access   map[string]*bcRule // model, keyed by collation key
	ns       map[string]*bcRule // model, keyed by visible text
	hist     []bcOp
	caseName string
}

func (w *bcWorld) accessRules() []*bcRule {
	keys := make([]string, 0, len(w.access))
	for k := range w.access {
		keys = append(keys, k)
	}
	sort.Strings(keys)
	out := make([]*bcRule, 0, len(keys))
	for _, k := range keys {
		out = append(out, w.access[k])
	}
	return out
}

func (w *bcWorld) nsRules() []*bcRule {
	keys := make([]string, 0, len(w.ns))
	for k := range w.ns {
		keys = append(keys, k)
	}
	sort.Strings(keys)
	out := make([]*bcRule, 0, len(keys))
	for _, k := range keys {
		out = append(out, w.ns[k])
	}
	return out
}

func (w *bcWorld) visibleAccess() []*bcRule {
	var out []*bcRule
	it := w.ctl.Access.Iter()
	for {
		row, ok := it.Next()
		if !ok {
			break
		}
		out = append(out, bcNewRule([4]string{row.Database, row.Branch, row.User, row.Host}, uint64(row.Permissions)))
	}
	return out
}

func (w *bcWorld) visibleNs() []*bcRule {
	var out []*bcRule
	for _, v := range w.ctl.Namespace.Values {
		out = append(out, bcNewRule([4]string{v.Database, v.Branch, v.User, v.Host}, 0))
	}
	return out
}

func rulesText(rs []*bcRule) []string {
	var out []string
	for _, r := range rs {
		out = append(out, fmt.Sprintf("%q %q %q %q perms=%d", r.Text[0], r.Text[1], r.Text[2], r.Text[3], r.Perms))
	}
	sort.Strings(out)
	return out
}

func (w *bcWorld) witness(req [4]string, extra map[string]any) map[string]any {
	m := map[string]any{
		"request_database_branch_user_host": req,
		"mode":                              w.mode,
		"history":                           w.hist,
		"model_access_rules":                rulesText(w.accessRules()),
		"model_namespace_rules":             rulesText(w.nsRules()),
	}
	for k, v := range extra {
		m[k] = v
	}
	return m
}

type c38Stats struct {
	cmp, matched, multi, tie, ci, unitSens, metachar, empty, plain, tailZero int
	nsCmp, nsDeny, nsAllowRule, nsUnres, nsUnitSens                          int
	visibleDiff                                                              int
	families, siblingDeletes, exactHost                                      int
}

func (w *bcWorld) check(rng *rand.Rand, st *c38Stats, nReq int, extra ...[4]string) {
	c := w.c
	aRules, nRules := w.accessRules(), w.nsRules()
	visA, visN := w.visibleAccess(), w.visibleNs()
	if strings.Join(rulesText(visA), "\n") != strings.Join(rulesText(aRules), "\n") ||
		strings.Join(rulesText(visN), "\n") != strings.Join(rulesText(nRules), "\n") {
		st.visibleDiff++ // diagnostic only; decisions are what the statement is about
	}
	for q := 0; q < nReq+len(extra); q++ {
		var req [4]string
		switch {
		case q >= nReq:
			req = extra[q-nReq] // targeted request (exact host of a rule of a prefix-host family)
			st.exactHost++
		case q%2 == 0:
			req = bcGenRequest(rng, aRules)
		default:
			req = bcGenRequest(rng, nRules)
		}
		class, nsClass := bcAccessClass(aRules, req), bcNsClass(req)
		if bcHasMeta(req) {
			st.metachar++
		}
		if bcHasEmpty(req) {
			st.empty++
		}
		if class == "plain" {
			st.plain++
		}
		if class == "host-final-percent-matches-empty" {
			st.tailZero++
		}

		// ---- access
		ok, perms := w.ctl.Access.Match(req[0], req[1], req[2], req[3])
		ref := bcRefAccess(aRules, req)
		st.cmp++
		if ref.Matched {
			st.matched++
		}
		if ref.NMatch >= 2 {
			st.multi++
			c.Distinct(fmt.Sprintf("%v|%v", ref.MatchText, req))
		}
		if ref.NMatch >= 2 && ref.NLongest >= 2 {
			st.tie++
		}
		if ref.NeededCI {
			st.ci++
		}
		modelDisagrees := ok != ref.Matched || (ref.Agree && uint64(perms) != ref.Perms[0])
		if ok != ref.Matched {
			bcViolation(c, "c38/access/"+class+"/matched-flag",
				fmt.Sprintf("Access.Match(%q,%q,%q,%q) matched=%v but direct LIKE evaluation of the rule set says %v", req[0], req[1], req[2], req[3], ok, ref.Matched),
				w.witness(req, map[string]any{"production_matched": ok, "production_perms": uint64(perms), "reference": ref}))
		} else if !ref.Agree {
			st.unitSens++
		} else if uint64(perms) != ref.Perms[0] {
			bcViolation(c, "c38/access/"+class+"/permissions",
				fmt.Sprintf("Access.Match(%q,%q,%q,%q) perms=%04b but the longest matching rule(s) give %04b", req[0], req[1], req[2], req[3], uint64(perms), ref.Perms[0]),
				w.witness(req, map[string]any{"production_matched": ok, "production_perms": uint64(perms), "reference": ref}))
		}
		if w.mode == "sql" && !modelDisagrees { // the rows the system table shows, evaluated directly
			vref := bcRefAccess(visA, req)
			if ok != vref.Matched || (vref.Agree && uint64(perms) != vref.Perms[0]) {
				bcViolation(c, "c38/access-visible-rows/"+class,
					fmt.Sprintf("Access.Match(%q,%q,%q,%q) = (%v,%04b) but the rows shown by dolt_branch_control evaluate to (%v,%04b)", req[0], req[1], req[2], req[3], ok, uint64(perms), vref.Matched, vref.Perms[0]),
					w.witness(req, map[string]any{"visible_rows": rulesText(visA), "reference_on_visible": vref}))
			}
		}

		// ---- namespace
		got := w.ctl.Namespace.CanCreate(req[0], req[1], req[2], req[3])
		nref := bcRefNamespace(nRules, req)
		st.nsCmp++
		switch {
		case nref.Unrestricted:
			st.nsUnres++
		case !nref.Agree:
			st.nsUnitSens++
		case nref.Allowed[0]:
			st.nsAllowRule++
		default:
			st.nsDeny++
		}
		if nref.NBranch >= 2 {
			c.Distinct(fmt.Sprintf("ns|%v|%v", rulesText(nRules), req))
		}
		if nref.Agree && got != nref.Allowed[0] {
			bcViolation(c, "c38/namespace/"+nsClass+"/cancreate",
				fmt.Sprintf("Namespace.CanCreate(%q,%q,%q,%q)=%v but direct evaluation of the namespace rules says %v", req[0], req[1], req[2], req[3], got, nref.Allowed[0]),
				w.witness(req, map[string]any{"production": got, "reference": nref}))
		}
		vn := bcRefNamespace(visN, req)
		if vn.Agree && nref.Agree && vn.Allowed[0] == nref.Allowed[0] {
			continue
		}
		if vn.Agree && got != vn.Allowed[0] {
			bcViolation(c, "c38/namespace-visible-rows/"+nsClass,
				fmt.Sprintf("Namespace.CanCreate(%q,%q,%q,%q)=%v but the rows shown by dolt_branch_namespace_control evaluate to %v", req[0], req[1], req[2], req[3], got, vn.Allowed[0]),
				w.witness(req, map[string]any{"visible_rows": rulesText(visN), "reference_on_visible": vn}))
		}
	}
}

func errStr(err error) string {
	if err == nil {
		return ""
	}
	s := err.Error()
	if len(s) > 80 {
		s = s[:80]
	}
	return s
}

func (w *bcWorld) accessInsert(raw [4]string, perms uint64) {
	op := bcOp{Op: "insert", Table: "access", Row: raw, Perms: perms}
	applied := true
	if w.mode == "sql" {
		err := dtables.NewBranchControlTable(w.ctl.Access).Insert(w.sqlCtx, sql.Row{raw[0], raw[1], raw[2], raw[3], perms})
		op.Err = errStr(err)
		applied = err == nil
	} else {
		w.ctl.Access.Insert(raw[0], raw[1], raw[2], raw[3], branch_control.Permissions(perms))
	}
	w.hist = append(w.hist, op)
	if applied {
		r := bcNewRule(raw, perms)
		w.access[r.collKey()] = r
	}
}

func (w *bcWorld) accessDelete(raw [4]string) {
	op := bcOp{Op: "delete", Table: "access", Row: raw}
	if w.mode == "sql" {
		err := dtables.NewBranchControlTable(w.ctl.Access).Delete(w.sqlCtx, sql.Row{raw[0], raw[1], raw[2], raw[3], uint64(0)})
		op.Err = errStr(err)
	} else {
		w.ctl.Access.Delete(raw[0], raw[1], raw[2], raw[3])
	}
	w.hist = append(w.hist, op)
	delete(w.access, bcNewRule(raw, 0).collKey())
}

func (w *bcWorld) accessUpdate(old, nw [4]string, oldPerms, perms uint64) {
	op := bcOp{Op: "update", Table: "access", Row: old, New: nw, Perms: perms}
	err := dtables.NewBranchControlTable(w.ctl.Access).Update(w.sqlCtx,
		sql.Row{old[0], old[1], old[2], old[3], oldPerms}, sql.Row{nw[0], nw[1], nw[2], nw[3], perms})
	op.Err = errStr(err)
	w.hist = append(w.hist, op)
	if err == nil {
		delete(w.access, bcNewRule(old, 0).collKey())
		r := bcNewRule(nw, perms)
		w.access[r.collKey()] = r
	}
}

func (w *bcWorld) nsInsert(raw [4]string) {
	op := bcOp{Op: "insert", Table: "namespace", Row: raw}
	err := dtables.NewBranchNamespaceControlTable(w.ctl.Namespace).Insert(w.sqlCtx, sql.Row{raw[0], raw[1], raw[2], raw[3]})
	op.Err = errStr(err)
	w.hist = append(w.hist, op)
	if err == nil {
		r := bcNewRule(raw, 0)
		w.ns[r.textKey()] = r
	}
}

func (w *bcWorld) nsDelete(raw [4]string) {
	op := bcOp{Op: "delete", Table: "namespace", Row: raw}
	err := dtables.NewBranchNamespaceControlTable(w.ctl.Namespace).Delete(w.sqlCtx, sql.Row{raw[0], raw[1], raw[2], raw[3]})
	op.Err = errStr(err)
	w.hist = append(w.hist, op)
	delete(w.ns, bcNewRule(raw, 0).textKey())
}

func (w *bcWorld) reload() {
	rig.Must(w.ctl.SaveData(w.ctx, filesys.LocalFS))
	ctl, err := branch_control.LoadData(w.ctx, w.file, w.dir)
	rig.Must(err)
	w.ctl = ctl
	w.hist = append(w.hist, bcOp{Op: "save+reload"})
}

// bcFamilyPhase builds rule families that differ only in the LAST column (host) with hosts drawn from a prefix
// chain (h, h0, h1, h10, h11, ...): in the access trie only the last column lets one whole rule be a prefix of
// another, so a rule node with its own data gets children. Siblings are then deleted one by one, and after every
// operation (and after a save+reload) the exact host of every rule of the family is requested, in both tables.
func (w *bcWorld) bcFamilyPhase(rng *rand.Rand, st *c38Stats) {
	st.families++
	pick := func(xs ...string) string { return xs[rng.Intn(len(xs))] }
	base := [3]string{pick("a", "b", "ea", "%"), pick("ab", "e", "b", "%"), pick("a", "b", "ae", "%")}
	prefix := pick("h", "10.0.0.1", "e", "ab", "h", "b")
	if rng.Intn(8) == 0 {
		prefix = "" // the empty host as the prefix rule (requests for it fall into the empty-string classes)
	}
	d1, d2 := "0", "1"
	if rng.Intn(2) == 0 {
		d1, d2 = "a", "b"
	}
	hosts := []string{prefix, prefix + d1, prefix + d2}
	for _, extra := range []string{prefix + d1 + d1, prefix + d1 + d2, prefix + d2 + d1, prefix + d1 + d2 + d1} {
		if rng.Intn(3) == 0 {
			hosts = append(hosts, extra)
		}
	}
	row := func(h string) [4]string { return [4]string{base[0], base[1], base[2], h} }
	reqFor := func(h string) [4]string {
		var r [4]string
		for i := 0; i < 3; i++ {
			r[i] = strings.ReplaceAll(base[i], "%", "a")
		}
		r[3] = h
		return r
	}
	exact := func() [][4]string {
		var out [][4]string
		for _, h := range hosts {
			out = append(out, reqFor(h))
			if h != "" && rng.Intn(3) == 0 {
				out = append(out, reqFor(h+"1"), reqFor(h[:len(h)-1]))
			}
		}
		return out
	}
	perms := []uint64{1, 2, 4, 8}
	order := rng.Perm(len(hosts))
	for k, i := range order {
		w.accessInsert(row(hosts[i]), perms[(k+rng.Intn(2))%len(perms)])
		w.nsInsert([4]string{base[0], base[1], pick("a", "b", "%"), hosts[i]})
		w.check(rng, st, 2, exact()...)
	}
	// delete the siblings (never the prefix rule first), querying every exact host after each step
	del := rng.Perm(len(hosts) - 1)
	for k, j := range del {
		if k == len(del)-1 && rng.Intn(2) == 0 {
			break // sometimes leave one sibling
		}
		h := hosts[j+1]
		w.accessDelete(row(h))
		st.siblingDeletes++
		if rs := w.nsRules(); len(rs) > 0 {
			for _, r := range rs {
				if r.Text[0] == base[0] && r.Text[1] == base[1] && r.Text[3] == h {
					w.nsDelete(r.Text)
					break
				}
			}
		}
		w.check(rng, st, 2, exact()...)
		if rng.Intn(3) == 0 {
			w.reload()
			w.check(rng, st, 2, exact()...)
		}
		if rng.Intn(4) == 0 { // re-insert the sibling so that the node gets children again
			w.accessInsert(row(h), perms[rng.Intn(len(perms))])
			w.check(rng, st, 1, exact()...)
		}
	}
	w.reload()
	w.check(rng, st, 2, exact()...)
}

func c38(c *rig.Ctx) {
	c.Rule("case = seeded history of 12-40 operations (insert / delete / update / save+reload) on dolt_branch_control and " +
		"dolt_branch_namespace_control, each rule written in a random equivalent spelling (unfolded %/_ runs, case+accent variants, " +
		"needless escapes) over the alphabet {a,A,b,e,E,é,_,%,\\}; after every operation 10 request tuples (70% instantiated from " +
		"current rules, incl. empty strings and literal metacharacters) are decided by Access.Match / Namespace.CanCreate and by direct " +
		"LIKE evaluation of the model rule set; twice per history a family of rules that differ only in the host column, with hosts from a prefix chain " +
		"(h, h0, h1, h10, ... or '', a, b), is inserted in random order and its siblings are deleted one by one, the exact host of every family rule being " +
		"requested after every step and after save+reload; distinct non-trivial = a (rule set, request) where >= 2 rules match so that the longest-pattern rule decides")
	c.Assume("character equality is the GMS per-rune weight of utf8mb4_0900_ai_ci (database, branch, host) / utf8mb4_0900_bin (user); the weight tables themselves are trusted")
	c.Assume("'longest' is asserted only where tokens, runes and bytes of the folded pattern give the same verdict; acceptance of an INSERT/UPDATE by the table editor is taken from production")

	nCases := c.Pick(240, 6000)
	var st c38Stats
	ops := map[string]int{}
	scratch := c.TempDir("c38")
	for ci := 0; ci < nCases; ci++ {
		rng := c.SubRand("c38/case", ci)
		mode := "api"
		if ci%2 == 1 {
			mode = "sql"
		}
		dir := filepath.Join(scratch, fmt.Sprintf("case%d", ci))
		rig.Must(os.MkdirAll(dir, 0o755))
		file := filepath.Join(dir, "branch_control.db")
		ctx := context.Background()
		ctl, err := branch_control.LoadData(ctx, file, dir) // file absent: default rule ('%','%','%','%', write)
		rig.Must(err)
		w := &bcWorld{c: c, ctx: ctx, sqlCtx: sql.NewEmptyContext(), dir: dir, file: file, ctl: ctl, mode: mode,
			access: map[string]*bcRule{}, ns: map[string]*bcRule{}, caseName: fmt.Sprintf("c38/%s/%d", mode, ci)}
		def := bcNewRule([4]string{"%", "%", "%", "%"}, uint64(branch_control.Permissions_Write))
		w.access[def.collKey()] = def
		c.Case(w.caseName, map[string]any{"case": ci, "mode": mode})

		// a small pool of patterns per column keeps the rules overlapping
		var pool [4][]string
		for col := 0; col < 4; col++ {
			for k := 0; k < 3+rng.Intn(3); k++ {
				p := bcGenPattern(rng, col)
				if _, dangling := bcParse(p); dangling {
					continue
				}
				pool[col] = append(pool[col], p)
			}
			// patterns that share a prefix with another one make the trie split inside a column
			for k := 0; k < 2 && len(pool[col]) > 0; k++ {
				base := pool[col][rng.Intn(len(pool[col]))]
				lits := bcLits(col)
				switch rng.Intn(3) {
				case 0:
					base += string(lits[rng.Intn(len(lits))])
				case 1:
					base += "%"
				default:
					if toks, _ := bcParse(base); len(toks) > 1 {
						base = bcString(toks[:len(toks)-1], false)
					}
				}
				pool[col] = append(pool[col], base)
			}
			pool[col] = append(pool[col], "%")
		}
		genRow := func() [4]string {
			var r [4]string
			for col := 0; col < 4; col++ {
				r[col] = bcRespell(rng, pool[col][rng.Intn(len(pool[col]))], col)
			}
			return r
		}
		permChoices := []uint64{1, 2, 4, 8, 0, 2 | 4, 4 | 8}
		nOps := 12 + rng.Intn(29)
		famAt := map[int]bool{rng.Intn(nOps): true, rng.Intn(nOps): true}
		for oi := 0; oi < nOps; oi++ {
			if famAt[oi] {
				w.bcFamilyPhase(rng, &st)
			}
			switch x := rng.Intn(100); {
			case x < 30:
				w.accessInsert(genRow(), permChoices[rng.Intn(len(permChoices))])
				ops["access.insert"]++
			case x < 42:
				if rs := w.accessRules(); len(rs) > 0 {
					r := rs[rng.Intn(len(rs))]
					var raw [4]string
					for col := 0; col < 4; col++ {
						raw[col] = bcRespell(rng, r.Text[col], col)
					}
					w.accessDelete(raw)
					ops["access.delete_existing_respelled"]++
				}
			case x < 46:
				w.accessDelete(genRow())
				ops["access.delete_random"]++
			case x < 52:
				if rs := w.accessRules(); len(rs) > 0 && mode == "sql" {
					r := rs[rng.Intn(len(rs))]
					w.accessUpdate(r.Text, genRow(), r.Perms, permChoices[rng.Intn(len(permChoices))])
					ops["access.update"]++
				} else { // the path dolt takes when a user creates a branch (AddAdminForContext)
					row := genRow()
					w.accessInsert(row, uint64(branch_control.Permissions_Admin))
					ops["access.insert_admin"]++
				}
			case x < 78:
				w.nsInsert(genRow())
				ops["namespace.insert"]++
			case x < 88:
				if rs := w.nsRules(); len(rs) > 0 {
					r := rs[rng.Intn(len(rs))]
					var raw [4]string
					for col := 0; col < 4; col++ {
						// the namespace primary key is the text: keep escapes and letters, only unfold wildcards
						raw[col] = bcUnfoldOnly(rng, r.Text[col])
					}
					w.nsDelete(raw)
					ops["namespace.delete_existing_unfolded"]++
				}
			case x < 92:
				w.nsDelete(genRow())
				ops["namespace.delete_random"]++
			default:
				w.reload()
				ops["save_reload"]++
			}
			w.check(rng, &st, 10)
		}
		w.reload()
		ops["save_reload"]++
		w.check(rng, &st, 10)
		if ci < 3 {
			c.Sample(map[string]any{"case": w.caseName, "access_rules": rulesText(w.accessRules()), "namespace_rules": rulesText(w.nsRules()), "ops": len(w.hist)})
		}
		os.RemoveAll(dir)
	}

	for k, v := range ops {
		c.Count("c38.ops."+k, v)
	}
	c.Count("c38.access.comparisons", st.cmp)
	c.Count("c38.access.requests_matched", st.matched)
	c.Count("c38.access.requests_with_2plus_matching_rules", st.multi)
	c.Count("c38.access.longest_tie_or_combined", st.tie)
	c.Count("c38.access.match_needed_case_or_accent_folding", st.ci)
	c.Count("c38.access.skipped_length_unit_sensitive", st.unitSens)
	c.Count("c38.requests.with_literal_metachar", st.metachar)
	c.Count("c38.requests.with_empty_string", st.empty)
	c.Count("c38.family.prefix_host_families", st.families)
	c.Count("c38.family.sibling_deletes", st.siblingDeletes)
	c.Count("c38.family.exact_host_requests", st.exactHost)
	c.Count("c38.requests.plain", st.plain)
	c.Count("c38.requests.host_final_percent_matches_empty", st.tailZero)
	c.Count("c38.namespace.comparisons", st.nsCmp)
	c.Count("c38.namespace.unrestricted", st.nsUnres)
	c.Count("c38.namespace.denied_by_longest_rule", st.nsDeny)
	c.Count("c38.namespace.allowed_by_longest_rule", st.nsAllowRule)
	c.Count("c38.namespace.skipped_length_unit_sensitive", st.nsUnitSens)
	c.Count("c38.diagnostic.visible_rows_differ_from_model", st.visibleDiff)
	c.Require(st.families > 0 && st.siblingDeletes > 0 && st.exactHost > 0, "no prefix-host rule family / sibling delete / exact-host request exercised")
	c.Require(st.multi > 0, "no request matched two or more access rules")
	c.Require(st.tie > 0, "no request had two equally long longest access rules")
	c.Require(st.ci > 0, "no match depended on the collation")
	c.Require(st.nsDeny > 0 && st.nsAllowRule > 0, "namespace never decided by a rule (deny and allow both needed)")
	c.Require(ops["save_reload"] > 0 && ops["access.delete_existing_respelled"] > 0, "no delete / reload exercised")
}

// bcUnfoldOnly rewrites wildcard runs only (duplicated '%', '%' before '_'), keeping every other character as is.
func bcUnfoldOnly(rng *rand.Rand, p string) string {
	toks, _ := bcParse(p)
	var sb strings.Builder
	i := 0
	for i < len(toks) {
		t := toks[i]
		if t.kind == bcLit {
			if t.esc {
				sb.WriteByte('\\')
			}
			sb.WriteRune(t.r)
			i++
			continue
		}
		ones, any := 0, false
		for i < len(toks) && toks[i].kind != bcLit {
			if toks[i].kind == bcOne {
				ones++
			} else {
				any = true
			}
			i++
		}
		var run []byte
		for k := 0; k < ones; k++ {
			run = append(run, '_')
		}
		if any {
			for k := 0; k <= rng.Intn(3); k++ {
				run = append(run, '%')
			}
		}
		if rng.Intn(2) == 0 {
			rng.Shuffle(len(run), func(a, b int) { run[a], run[b] = run[b], run[a] })
		}
		sb.Write(run)
	}
	return sb.String()
}
