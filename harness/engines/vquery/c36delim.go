package vquery

import (
	"fmt"
	"os"
	"path/filepath"
	"strings"

	"verif/rig"
)

// c36DelimiterBoundaries: `dolt dump` writes a `delimiter END_PROCEDURE` directive before every stored procedure, so a
// dump only round-trips if `dolt sql --file` recognises the directive wherever it falls in the input stream. The statement
// scanner reads its input in growing blocks (4096, 8192, 16384, ... bytes); this stage places the directive at every offset
// next to those read boundaries (a padding statement of the right length in front) and requires that the script loads and
// that both procedures defined under the custom delimiter exist afterwards.
// (Found by the thorough tier, where a dump happened to put the directive 6 bytes before the 4096 boundary.)
func c36DelimiterBoundaries(c *rig.Ctx, root, home string) {
	c.Rule("directed stage `delimiter`: scripts `select '<padding>'; delimiter // create procedure p1() select 1// create procedure p2() begin select 2; end// delimiter ;` " +
		"with the DELIMITER directive starting at every offset from 14 bytes before to 2 bytes after the scanner's read boundaries (4096, 8192, 16384, 32768; " +
		"thorough: also 65536, 131072 and both delimiter spellings) are loaded with `dolt sql --file` into a fresh repository; p1 and p2 must exist")
	bounds := []int{4096, 8192, 16384, 32768}
	spell := []string{"delimiter"}
	if c.Thorough() {
		bounds = append(bounds, 65536, 131072)
		spell = append(spell, "DELIMITER")
	}
	loaded, n := 0, 0
	for _, b := range bounds {
		for d := -14; d <= 2; d++ {
			if !c.Thorough() && d < -11 {
				continue
			}
			for _, sp := range spell {
				off := b + d
				n++
				dst := filepath.Join(root, fmt.Sprintf("delim-%d", n))
				file := filepath.Join(root, fmt.Sprintf("delim-%d.sql", n))
				s := "select '" + strings.Repeat("x", off-11) + "';\n" // the directive starts at byte |off|
				s += sp + " //\ncreate procedure p1() select 1//\ncreate procedure p2() begin select 2; end//\n" + sp + " ;\nselect 3;\n"
				rig.Must(os.WriteFile(file, []byte(s), 0o644))
				rig.Must(mustCLI(dst, home, "init"))
				code, out := doltCLI(dst, home, "sql", "--file", file)
				_, procs := doltCLI(dst, home, "sql", "-q", "select name from dolt_procedures order by name", "-r", "csv")
				c.Case(fmt.Sprintf("c36/delimiter/%d%+d/%s", b, d, sp), nil)
				c.Distinct(fmt.Sprintf("delim/%d/%d/%s", b, d, sp))
				if code != 0 || !strings.Contains(procs, "p1") || !strings.Contains(procs, "p2") {
					c.Violation(fmt.Sprintf("c36/sqlfile/delimiter-directive-at-read-boundary/%d", b),
						fmt.Sprintf("`dolt sql --file` of a script whose DELIMITER directive starts at byte %d (boundary %d%+d): exit %d, procedures afterwards: %q", off, b, d, code, strings.TrimSpace(procs)),
						map[string]any{"offset": off, "boundary": b, "delta": d, "spelling": sp, "output_tail": tailStr(out, 600)})
				} else {
					loaded++
				}
				dropRepo(dst)
				os.Remove(file)
			}
		}
	}
	c.Count("c36.delimiter_scripts", n)
	c.Count("c36.delimiter_scripts_loaded_with_both_procedures", loaded)
	c.Require(n > 0, "no delimiter script was run")
}
