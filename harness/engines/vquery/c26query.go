package vquery

import (
	"fmt"
	"math/rand"
	"sort"
	"strings"
)

// ---- predicate AST ------------------------------------------------------------------------------------------------

type pred interface{}

type atom struct {
	A    int // alias index
	C    int // column position in the alias's table
	Op   string
	Lits []value
	Und  bool // the harness's evaluator does not decide this atom
}

type boolOp struct {
	Op   string // and | or | not
	Kids []pred
}

var aliasNames = []string{"a", "b"}

func (q *query) colName(a, c int) string {
	return aliasNames[a] + "." + q.schema.Tables[q.Tables[a]].Cols[c].Name
}

func (q *query) renderPred(p pred) string {
	switch p := p.(type) {
	case *atom:
		col := q.colName(p.A, p.C)
		lits := make([]string, len(p.Lits))
		for i, l := range p.Lits {
			lits[i] = l.Lit
		}
		switch p.Op {
		case "between":
			return fmt.Sprintf("%s between %s and %s", col, lits[0], lits[1])
		case "notbetween":
			return fmt.Sprintf("%s not between %s and %s", col, lits[0], lits[1])
		case "in":
			return fmt.Sprintf("%s in (%s)", col, strings.Join(lits, ", "))
		case "notin":
			return fmt.Sprintf("%s not in (%s)", col, strings.Join(lits, ", "))
		case "isnull":
			return col + " is null"
		case "notnull":
			return col + " is not null"
		default:
			return fmt.Sprintf("%s %s %s", col, p.Op, lits[0])
		}
	case *boolOp:
		if p.Op == "not" {
			return "not (" + q.renderPred(p.Kids[0]) + ")"
		}
		parts := make([]string, len(p.Kids))
		for i, k := range p.Kids {
			parts[i] = "(" + q.renderPred(k) + ")"
		}
		return strings.Join(parts, " "+p.Op+" ")
	}
	panic("bad pred")
}

func predUndecided(p pred) bool {
	switch p := p.(type) {
	case nil:
		return false
	case *atom:
		return p.Und
	case *boolOp:
		for _, k := range p.Kids {
			if predUndecided(k) {
				return true
			}
		}
	}
	return false
}

// ---- query ----------------------------------------------------------------------------------------------------------

type selExpr struct {
	Agg  string // "" | count* | count | min | max | sum
	A, C int
}

type joinEq struct {
	LC, RC   int
	NullSafe bool
}

type ordKey struct {
	A, C int
	Desc bool
}

type query struct {
	schema  *schemaSpec
	Kind    string // filter | order | agg | group | join | joinagg
	Tables  []int  // table index per alias
	AsOf    bool
	Hint    string
	Select  []selExpr
	Left    bool
	On      []joinEq
	OnExtra pred
	Where   pred
	GroupBy []ordKey // columns only
	OrderBy []ordKey
	Limit   int // -1 = none
	Offset  int
	Ordered bool

	nullCmpDefinite bool // diagnostic evaluation variant, see evalNullCmpVariant
}

// voices
const (
	vIndexed = iota // dolt, indexed tables (voices 1 and 2)
	vTwin           // dolt, keyless twin without any index (voice 3)
	vRef            // go-mysql-server memory engine (voice 4)
	vRefTwin        // go-mysql-server memory engine, keyless unindexed copies (voice 4u)
)

func (q *query) tableRef(voice, a int) string {
	t := q.schema.Tables[q.Tables[a]]
	name := t.Name
	if voice == vTwin || voice == vRefTwin {
		name += "_u"
	}
	ref := voice == vRef || voice == vRefTwin
	if ref && q.AsOf {
		name = "`" + q.schema.DB + "_old`." + name
	}
	if q.AsOf && !ref {
		name += " as of 'v1'"
	}
	return name + " " + aliasNames[a]
}

func (q *query) selText(s selExpr) string {
	switch s.Agg {
	case "":
		return q.colName(s.A, s.C)
	case "count*":
		return "count(*)"
	default:
		return fmt.Sprintf("%s(%s)", s.Agg, q.colName(s.A, s.C))
	}
}

func (q *query) sql(voice int) string {
	var b strings.Builder
	b.WriteString("select ")
	if q.Hint != "" && voice != vTwin && voice != vRefTwin {
		b.WriteString("/*+ " + q.Hint + " */ ")
	}
	for i, s := range q.Select {
		if i > 0 {
			b.WriteString(", ")
		}
		b.WriteString(q.selText(s))
	}
	b.WriteString(" from " + q.tableRef(voice, 0))
	if len(q.Tables) > 1 {
		if q.Left {
			b.WriteString(" left join ")
		} else {
			b.WriteString(" join ")
		}
		b.WriteString(q.tableRef(voice, 1) + " on ")
		for i, e := range q.On {
			if i > 0 {
				b.WriteString(" and ")
			}
			op := "="
			if e.NullSafe {
				op = "<=>"
			}
			fmt.Fprintf(&b, "%s %s %s", q.colName(0, e.LC), op, q.colName(1, e.RC))
		}
		if q.OnExtra != nil {
			b.WriteString(" and (" + q.renderPred(q.OnExtra) + ")")
		}
	}
	if q.Where != nil {
		b.WriteString(" where " + q.renderPred(q.Where))
	}
	if len(q.GroupBy) > 0 {
		b.WriteString(" group by ")
		for i, g := range q.GroupBy {
			if i > 0 {
				b.WriteString(", ")
			}
			b.WriteString(q.colName(g.A, g.C))
		}
	}
	if len(q.OrderBy) > 0 {
		b.WriteString(" order by ")
		for i, o := range q.OrderBy {
			if i > 0 {
				b.WriteString(", ")
			}
			b.WriteString(q.colName(o.A, o.C))
			if o.Desc {
				b.WriteString(" desc")
			}
		}
	}
	if q.Limit >= 0 {
		fmt.Fprintf(&b, " limit %d", q.Limit)
		if q.Offset > 0 {
			fmt.Fprintf(&b, " offset %d", q.Offset)
		}
	}
	return b.String()
}

func kindName(c *colSpec) string {
	switch c.Kind {
	case kInt:
		return "int"
	case kDec:
		return "decimal"
	case kFloat:
		return "float"
	case kDate:
		return "date"
	case kDatetime:
		return "datetime"
	case kStr:
		if c.ci() {
			return "str_ci"
		}
		return "str_bin"
	case kBin:
		return "varbinary"
	}
	return "enum"
}

func (q *query) predKinds(p pred, into map[string]bool) {
	switch p := p.(type) {
	case *atom:
		into[kindName(q.schema.Tables[q.Tables[p.A]].Cols[p.C])] = true
	case *boolOp:
		for _, k := range p.Kids {
			q.predKinds(k, into)
		}
	}
}

// signature names the column kinds the query's join keys (joins) or filters (other kinds) touch; it is part of
// the violation key so that distinct defect classes get distinct keys.
func (q *query) signature() string {
	set := map[string]bool{}
	if len(q.Tables) > 1 {
		for _, e := range q.On {
			set[kindName(q.schema.Tables[q.Tables[0]].Cols[e.LC])] = true
		}
	} else {
		q.predKinds(q.Where, set)
	}
	var names []string
	for k := range set {
		names = append(names, k)
	}
	sort.Strings(names)
	switch {
	case len(names) == 0:
		return "nofilter"
	case len(names) > 2:
		return "mixed"
	}
	return strings.Join(names, "+")
}

// walkAtoms calls f for every atom of the query's WHERE and residual ON predicates.
func (q *query) walkAtoms(f func(*atom, *colSpec)) {
	var walk func(p pred)
	walk = func(p pred) {
		switch p := p.(type) {
		case *atom:
			f(p, q.schema.Tables[q.Tables[p.A]].Cols[p.C])
		case *boolOp:
			for _, k := range p.Kids {
				walk(k)
			}
		}
	}
	walk(q.Where)
	walk(q.OnExtra)
}

// hasCollationEqualInList: an IN list (or BETWEEN-free equality list) over a case-insensitive column that names two
// different strings which the collation equates.
func (q *query) hasCollationEqualInList() bool {
	found := false
	q.walkAtoms(func(a *atom, c *colSpec) {
		if !c.ci() || (a.Op != "in" && a.Op != "notin") {
			return
		}
		for i := range a.Lits {
			for j := i + 1; j < len(a.Lits); j++ {
				if !a.Lits[i].Null && !a.Lits[j].Null && a.Lits[i].K == a.Lits[j].K && a.Lits[i].Text != a.Lits[j].Text {
					found = true
				}
			}
		}
	})
	return found
}

// hasNegativeLiteralOnUnsigned: a comparison of an UNSIGNED integer column with a negative literal.
func (q *query) hasNegativeLiteralOnUnsigned() bool {
	found := false
	q.walkAtoms(func(a *atom, c *colSpec) {
		if c.Kind != kInt || !strings.Contains(c.SQLType, "unsigned") {
			return
		}
		for _, l := range a.Lits {
			if !l.Null && l.R != nil && l.R.Sign() < 0 {
				found = true
			}
		}
	})
	return found
}

// decidable reports whether the brute-force evaluator (voice 5) decides this query.
func (q *query) decidable() bool {
	if len(q.On) > 1 {
		for _, e := range q.On {
			if e.NullSafe {
				return false // go-mysql-server's handling of <=> mixed with = in one join condition is not modelled
			}
		}
	}
	for _, e := range q.On {
		if e.NullSafe && q.schema.Tables[q.Tables[0]].Cols[e.LC].ci() {
			return false
		}
	}
	return !predUndecided(q.Where) && !predUndecided(q.OnExtra)
}

// ---- generation -------------------------------------------------------------------------------------------------------

type qgen struct {
	r *rand.Rand
	s *schemaSpec
}

func (g *qgen) table(q *query, a int) *tableSpec { return g.s.Tables[q.Tables[a]] }

func (g *qgen) pickLit(q *query, a, c int) value {
	col := g.table(q, a).Cols[c]
	if c == 0 { // id: around the existing ids
		t := g.table(q, a)
		base := t.NextID - len(t.Rows)/2 - g.r.Intn(len(t.Rows)/2+3)
		return intVal(bi(fmt.Sprint(base)))
	}
	sub := g.s.sub[q.Tables[a]][c]
	switch x := g.r.Intn(10); {
	case x < 7 || len(col.Extra) == 0:
		return sub[g.r.Intn(len(sub))]
	case x < 9:
		return col.Pool[g.r.Intn(len(col.Pool))]
	default:
		return col.Extra[g.r.Intn(len(col.Extra))]
	}
}

// indexedCol picks a column position, biased to leading columns of the primary key / secondary indexes.
func (g *qgen) pickCol(q *query, a int) int {
	t := g.table(q, a)
	if g.r.Intn(4) != 0 {
		var lead []int
		lead = append(lead, t.PK[0])
		for _, ix := range t.Indexes {
			lead = append(lead, ix.Cols[0])
		}
		return lead[g.r.Intn(len(lead))]
	}
	return g.r.Intn(len(t.Cols))
}

var cmpOps = []string{"=", "<", "<=", ">", ">=", "<>", "<=>"}

func (g *qgen) atomOn(q *query, a, c int) *atom {
	col := g.table(q, a).Cols[c]
	at := &atom{A: a, C: c}
	switch x := g.r.Intn(20); {
	case x < 8:
		at.Op = cmpOps[g.r.Intn(len(cmpOps))]
		at.Lits = []value{g.pickLit(q, a, c)}
	case x < 12:
		at.Op = "between"
		if g.r.Intn(6) == 0 {
			at.Op = "notbetween"
		}
		at.Lits = []value{g.pickLit(q, a, c), g.pickLit(q, a, c)}
		if g.r.Intn(5) != 0 && cmpValues(col, at.Lits[0], at.Lits[1]) > 0 {
			at.Lits[0], at.Lits[1] = at.Lits[1], at.Lits[0]
		}
	case x < 16:
		at.Op = "in"
		if g.r.Intn(5) == 0 {
			at.Op = "notin"
		}
		for n := 1 + g.r.Intn(4); n > 0; n-- {
			at.Lits = append(at.Lits, g.pickLit(q, a, c))
		}
		if g.r.Intn(12) == 0 {
			at.Lits = append(at.Lits, nullValue)
		}
	case x < 18 && col.Nullable:
		at.Op = "isnull"
	case x < 20 && col.Nullable:
		at.Op = "notnull"
	default:
		at.Op = "="
		at.Lits = []value{g.pickLit(q, a, c)}
	}
	for _, l := range at.Lits {
		if l.Odd {
			at.Und = true
		}
	}
	if col.ci() {
		switch at.Op {
		case "in", "notin", "<=>":
			// go-mysql-server evaluates IN / <=> on strings bytewise regardless of the collation (shared by every
			// engine voice); the harness does not decide these
			at.Und = true
		}
	}
	if col.Kind == kEnum {
		switch at.Op {
		case "=", "<>", "<=>", "in", "notin", "isnull", "notnull":
		default:
			at.Und = true // enum vs string ordering semantics are not decided by the harness
		}
	}
	return at
}

func (g *qgen) atom(q *query, a int) *atom { return g.atomOn(q, a, g.pickCol(q, a)) }

// prefixRange builds "lead columns equal, next column ranged" over a multi-column key of alias a's table.
func (g *qgen) prefixRange(q *query, a int) pred {
	t := g.table(q, a)
	var keys [][]int
	if len(t.PK) > 1 {
		keys = append(keys, t.PK)
	}
	for _, ix := range t.Indexes {
		if len(ix.Cols) > 1 {
			keys = append(keys, ix.Cols)
		}
	}
	if len(keys) == 0 {
		return g.atom(q, a)
	}
	key := keys[g.r.Intn(len(keys))]
	n := 1 + g.r.Intn(len(key)-1)
	and := &boolOp{Op: "and"}
	for i := 0; i < n; i++ {
		at := &atom{A: a, C: key[i], Op: "=", Lits: []value{g.pickLit(q, a, key[i])}}
		if g.r.Intn(6) == 0 {
			at = g.atomOn(q, a, key[i])
		}
		at.Und = at.Und || at.Lits != nil && at.Lits[0].Odd
		and.Kids = append(and.Kids, at)
	}
	and.Kids = append(and.Kids, g.atomOn(q, a, key[n]))
	g.r.Shuffle(len(and.Kids), func(i, j int) { and.Kids[i], and.Kids[j] = and.Kids[j], and.Kids[i] })
	return and
}

func (g *qgen) pred(q *query, aliases []int, depth int) pred {
	a := aliases[g.r.Intn(len(aliases))]
	x := g.r.Intn(100)
	switch {
	case depth <= 0 || x < 40:
		return g.atom(q, a)
	case x < 52:
		return g.prefixRange(q, a)
	case x < 72:
		b := &boolOp{Op: "and"}
		for n := 2 + g.r.Intn(2); n > 0; n-- {
			b.Kids = append(b.Kids, g.pred(q, aliases, depth-1))
		}
		return b
	case x < 90:
		b := &boolOp{Op: "or"}
		for n := 2 + g.r.Intn(2); n > 0; n-- {
			b.Kids = append(b.Kids, g.pred(q, aliases, depth-1))
		}
		return b
	default:
		return &boolOp{Op: "not", Kids: []pred{g.pred(q, aliases, depth-1)}}
	}
}

func (g *qgen) projection(q *query, aliases []int) []selExpr {
	var out []selExpr
	for _, a := range aliases {
		t := g.table(q, a)
		out = append(out, selExpr{A: a, C: 0})
		all := len(aliases) == 1 && g.r.Intn(2) == 0
		for c := 1; c < len(t.Cols); c++ {
			if all || g.r.Intn(3) == 0 {
				out = append(out, selExpr{A: a, C: c})
			}
		}
	}
	return out
}

func (g *qgen) totalOrder(q *query, aliases []int) []ordKey {
	var keys []ordKey
	for n := g.r.Intn(3); n > 0; n-- {
		a := aliases[g.r.Intn(len(aliases))]
		keys = append(keys, ordKey{A: a, C: g.pickCol(q, a), Desc: g.r.Intn(2) == 0})
	}
	for _, a := range aliases {
		keys = append(keys, ordKey{A: a, C: 0, Desc: g.r.Intn(3) == 0})
	}
	return keys
}

func (g *qgen) aggregates(q *query, aliases []int) []selExpr {
	var out []selExpr
	n := 1 + g.r.Intn(3)
	for len(out) < n {
		a := aliases[g.r.Intn(len(aliases))]
		t := g.table(q, a)
		c := g.r.Intn(len(t.Cols))
		col := t.Cols[c]
		switch g.r.Intn(6) {
		case 0:
			out = append(out, selExpr{Agg: "count*"})
		case 1:
			out = append(out, selExpr{Agg: "count", A: a, C: c})
		case 2, 3:
			if col.planDependent() {
				continue
			}
			out = append(out, selExpr{Agg: []string{"min", "max"}[g.r.Intn(2)], A: a, C: c})
		default:
			// SUM is accumulated in a double by the engine: only over columns whose values keep such a sum
			// independent of the summation order (no 64-bit integers, no wide decimals)
			if !(col.Kind == kFloat || (col.Kind == kInt && !strings.HasPrefix(col.SQLType, "bigint")) || col.SQLType == "decimal(10,3)") {
				continue
			}
			out = append(out, selExpr{Agg: "sum", A: a, C: c})
		}
	}
	return out
}

func (g *qgen) join(q *query) {
	nt := len(g.s.Tables)
	q.Tables = []int{g.r.Intn(nt), g.r.Intn(nt)}
	ta, tb := g.table(q, 0), g.table(q, 1)
	// join-compatible column pairs
	type pair struct{ l, r int }
	var pairs []pair
	for i := 1; i < len(ta.Cols); i++ {
		for j := 1; j < len(tb.Cols); j++ {
			if ta.Cols[i].TypeID == tb.Cols[j].TypeID {
				pairs = append(pairs, pair{i, j})
			}
		}
	}
	p := pairs[g.r.Intn(len(pairs))]
	q.On = []joinEq{{LC: p.l, RC: p.r, NullSafe: g.r.Intn(12) == 0}}
	if g.r.Intn(4) == 0 {
		p2 := pairs[g.r.Intn(len(pairs))]
		if p2 != p {
			q.On = append(q.On, joinEq{LC: p2.l, RC: p2.r})
		}
	}
	// go-mysql-server's hash join compares multi-column keys containing case-insensitive strings bytewise (its result
	// then depends on the plan, in the reference engine too): such conditions are not generated
	for _, e := range q.On {
		if ta.Cols[e.LC].ci() && len(q.On) > 1 {
			q.On = q.On[:1]
			break
		}
	}
	if ta.Cols[q.On[0].LC].ci() {
		q.On[0].NullSafe = false
	}
	if g.r.Intn(4) == 0 {
		q.OnExtra = g.atom(q, g.r.Intn(2))
	}
	q.Left = g.r.Intn(10) < 3
	if g.r.Intn(2) == 0 {
		q.Where = g.pred(q, []int{0, 1}, 1)
	}
	x, y := "a", "b"
	if g.r.Intn(2) == 0 && !q.Left {
		x, y = "b", "a"
	}
	switch g.r.Intn(8) {
	case 0, 1, 2:
		q.Hint = fmt.Sprintf("JOIN_ORDER(%s,%s) LOOKUP_JOIN(%s,%s)", x, y, x, y)
	case 3, 4, 5:
		q.Hint = fmt.Sprintf("JOIN_ORDER(%s,%s) MERGE_JOIN(%s,%s)", x, y, x, y)
	case 6:
		q.Hint = fmt.Sprintf("JOIN_ORDER(%s,%s) HASH_JOIN(%s,%s)", x, y, x, y)
	}
}

// gen draws one query.
func (g *qgen) gen() *query {
	q := &query{schema: g.s, Limit: -1}
	q.AsOf = g.r.Intn(5) == 0
	x := g.r.Intn(100)
	one := func() {
		q.Tables = []int{g.r.Intn(len(g.s.Tables))}
		if g.r.Intn(3) == 0 {
			q.Tables[0] = 0
		}
	}
	switch {
	case x < 28:
		q.Kind = "filter"
		one()
		q.Where = g.pred(q, []int{0}, 2)
		q.Select = g.projection(q, []int{0})
	case x < 40:
		q.Kind = "order"
		one()
		if g.r.Intn(4) != 0 {
			q.Where = g.pred(q, []int{0}, 2)
		}
		q.Select = g.projection(q, []int{0})
		q.OrderBy = g.totalOrder(q, []int{0})
		q.Ordered = true
		if g.r.Intn(3) != 0 {
			q.Limit = g.r.Intn(12)
			if g.r.Intn(3) == 0 {
				q.Offset = g.r.Intn(6)
			}
		}
	case x < 56:
		q.Kind = "agg"
		one()
		switch g.r.Intn(6) {
		case 0: // the count fast paths: no filter at all
			q.Select = []selExpr{{Agg: "count*"}}
			if g.r.Intn(2) == 0 {
				q.Select = []selExpr{{Agg: "count", A: 0, C: g.r.Intn(len(g.table(q, 0).Cols))}}
			}
		case 1: // single COUNT over an index range
			q.Select = []selExpr{{Agg: "count*"}}
			if g.r.Intn(2) == 0 {
				q.Select = []selExpr{{Agg: "count", A: 0, C: g.r.Intn(len(g.table(q, 0).Cols))}}
			}
			q.Where = g.pred(q, []int{0}, 0)
		default:
			q.Select = g.aggregates(q, []int{0})
			if g.r.Intn(4) != 0 {
				q.Where = g.pred(q, []int{0}, 2)
			}
		}
	case x < 64:
		q.Kind = "group"
		one()
		t := g.table(q, 0)
		var cands []int
		for c := 1; c < len(t.Cols); c++ {
			if !t.Cols[c].planDependent() {
				cands = append(cands, c)
			}
		}
		if len(cands) == 0 {
			cands = []int{0}
		}
		gc := cands[g.r.Intn(len(cands))]
		q.GroupBy = []ordKey{{A: 0, C: gc}}
		q.Select = append([]selExpr{{A: 0, C: gc}}, g.aggregates(q, []int{0})...)
		if g.r.Intn(2) == 0 {
			q.Where = g.pred(q, []int{0}, 1)
		}
	case x < 92:
		q.Kind = "join"
		g.join(q)
		q.Select = g.projection(q, []int{0, 1})
		if g.r.Intn(4) == 0 {
			q.OrderBy = g.totalOrder(q, []int{0, 1})
			q.Ordered = true
			if g.r.Intn(2) == 0 {
				q.Limit = g.r.Intn(20)
			}
		}
	default:
		q.Kind = "joinagg"
		g.join(q)
		q.Select = g.aggregates(q, []int{0, 1})
	}
	return q
}
