package vquery

import (
	"bufio"
	"context"
	"database/sql"
	"fmt"
	"io"
	"net"
	"os"
	"os/exec"
	"strings"
	"time"

	sqle "github.com/dolthub/go-mysql-server"
	"github.com/dolthub/go-mysql-server/memory"
	"github.com/dolthub/go-mysql-server/server"
	gsql "github.com/dolthub/go-mysql-server/sql"
	"github.com/sirupsen/logrus"

	"verif/rig"
	"verif/sqlrig"
)

// The reference voice (voice 4 of C26): go-mysql-server's in-memory engine, run as a wire server in a CHILD process so
// that it shares no process-global state (system variables, registries) with the in-process dolt sql-server, and so
// that both engines' answers pass through the same MySQL text protocol before they are compared.

// gmsRefMain is the helper sub-command `gmsref`: it serves an empty memory provider on a free port, prints
// "READY <port>" and exits when its stdin is closed.
func gmsRefMain(args []string) int {
	logrus.SetLevel(logrus.ErrorLevel)
	pro := memory.NewDBProvider(memory.NewDatabase("verif_boot"))
	engine := sqle.NewDefault(pro)
	l, err := net.Listen("tcp", "127.0.0.1:0")
	if err != nil {
		fmt.Fprintln(os.Stderr, "gmsref listen:", err)
		return 3
	}
	port := l.Addr().(*net.TCPAddr).Port
	l.Close()
	cfg := server.Config{Protocol: "tcp", Address: fmt.Sprintf("127.0.0.1:%d", port)}
	s, err := server.NewServer(cfg, engine, gsql.NewContext, memory.NewSessionBuilder(pro), nil)
	if err != nil {
		fmt.Fprintln(os.Stderr, "gmsref server:", err)
		return 3
	}
	go func() {
		if err := s.Start(); err != nil {
			fmt.Fprintln(os.Stderr, "gmsref start:", err)
			os.Exit(3)
		}
	}()
	// wait until it accepts
	for i := 0; i < 200; i++ {
		c, err := net.Dial("tcp", cfg.Address)
		if err == nil {
			c.Close()
			break
		}
		time.Sleep(25 * time.Millisecond)
	}
	fmt.Printf("READY %d\n", port)
	io.Copy(io.Discard, os.Stdin)
	s.Close()
	return 0
}

// gmsRef is the parent-side handle of the reference server.
type gmsRef struct {
	cmd   *exec.Cmd
	stdin io.WriteCloser
	port  int
}

func startGmsRef() (*gmsRef, error) {
	cmd := exec.Command(rig.Self(), "gmsref")
	cmd.Stderr = os.Stderr
	in, err := cmd.StdinPipe()
	if err != nil {
		return nil, err
	}
	out, err := cmd.StdoutPipe()
	if err != nil {
		return nil, err
	}
	if err := cmd.Start(); err != nil {
		return nil, err
	}
	g := &gmsRef{cmd: cmd, stdin: in}
	rd := bufio.NewReader(out)
	line, err := rd.ReadString('\n')
	if err != nil || !strings.HasPrefix(line, "READY ") {
		cmd.Process.Kill()
		cmd.Wait()
		return nil, fmt.Errorf("gmsref did not start: %q %v", line, err)
	}
	fmt.Sscanf(line, "READY %d", &g.port)
	go io.Copy(io.Discard, rd)
	return g, nil
}

func (g *gmsRef) stop() {
	g.stdin.Close()
	done := make(chan struct{})
	go func() { g.cmd.Wait(); close(done) }()
	select {
	case <-done:
	case <-time.After(10 * time.Second):
		g.cmd.Process.Kill()
		<-done
	}
}

// open returns a wire session on the reference server (same Session type as the dolt rig, so the same reader code
// renders both engines' answers).
func (g *gmsRef) open(db string) (*sqlrig.Session, error) {
	dsn := fmt.Sprintf("root:@tcp(127.0.0.1:%d)/%s?multiStatements=false&parseTime=false&interpolateParams=true", g.port, db)
	d, err := sql.Open("mysql", dsn)
	if err != nil {
		return nil, err
	}
	d.SetMaxOpenConns(1)
	c, err := d.Conn(context.Background())
	if err != nil {
		d.Close()
		return nil, err
	}
	return &sqlrig.Session{DB: d, Conn: c, Name: "gms"}, nil
}
