package vquery

import (
	"fmt"
	"os"
	"path/filepath"
	"sort"
	"strings"
	"time"

	"github.com/dolthub/dolt/go/libraries/doltcore/dbfactory"

	"verif/rig"
	"verif/sqlrig"
)

// c36Routes: SQL dump + `dolt sql --file`, and table-file dumps + `dolt table import -c -s <schema>`.
var c36Routes = []string{"sql", "csv", "json", "parquet"}

// c36Excluded is the per-route type-support table: column families a route's FILE FORMAT cannot represent faithfully
// (value = the reason, listed in the evidence). Cells of such columns are not compared on that route; everything else is.
var c36Excluded = map[string]map[string]string{
	"sql":     {},
	"csv":     {},
	"json":    {"binary": "JSON has no byte-string type: `dolt dump -r json` writes binary cells as (UTF-8-sanitised / base64) text, which cannot be told from a text value on import"},
	"parquet": {},
}

// c36SkipKinds: table kinds not loaded at all on a route (value = reason).
var c36SkipKinds = map[string]map[string]string{
	"sql": {},
	"csv": {
		"parent": "table-file routes carry no schema: tables with generated columns / foreign keys are loaded on the SQL route only",
		"child":  "table-file routes carry no schema: tables with generated columns / foreign keys are loaded on the SQL route only",
		"bits":   "`dolt table import` has no conversion from file cells to BIT (it refuses every row: 'column value should be of type string'); BIT is exercised on the SQL route only",
	},
}

func init() {
	c36SkipKinds["json"] = map[string]string{"bins": "all columns are of the excluded family binary"}
	for k, v := range c36SkipKinds["csv"] {
		c36SkipKinds["json"][k] = v
	}
	c36SkipKinds["parquet"] = c36SkipKinds["csv"]
}

type c36snapTable struct {
	Create string
	Cols   []string
	Rows   []string // sorted, cells joined by \x1f
	raw    [][]string
}

type c36snap struct {
	Tables map[string]*c36snapTable
	Views  map[string]string
	Trigs  map[string]string
	Procs  map[string]string
}

func takeC36Snap(x *sqlrig.Session, db *c36db, tables []string) (*c36snap, error) {
	s := &c36snap{Tables: map[string]*c36snapTable{}, Views: map[string]string{}, Trigs: map[string]string{}, Procs: map[string]string{}}
	if err := x.Exec("use " + qid(db.Name)); err != nil {
		return nil, err
	}
	for _, name := range tables {
		st := &c36snapTable{}
		rs, err := x.Query("show create table " + qid(name))
		if err != nil {
			s.Tables[name] = nil
			continue
		}
		if len(rs.Data) == 1 && len(rs.Data[0]) >= 2 {
			st.Create = rs.Data[0][1]
		}
		rows, err := x.Query("select * from " + qid(name))
		if err != nil {
			return nil, fmt.Errorf("read %s: %w", name, err)
		}
		st.Cols = rows.Cols
		st.raw = rows.Data
		st.Rows = rows.Sorted()
		s.Tables[name] = st
	}
	one := func(q string, col int) string {
		rs, err := x.Query(q)
		if err != nil {
			return "ERROR: " + err.Error()
		}
		if len(rs.Data) != 1 || len(rs.Data[0]) <= col {
			return fmt.Sprintf("ERROR: %d rows", len(rs.Data))
		}
		return rs.Data[0][col]
	}
	for _, v := range db.Views {
		s.Views[v] = one("show create view "+qid(v), 1)
	}
	for _, t := range db.Trigs {
		s.Trigs[t] = one("show create trigger "+qid(t), 2)
	}
	for _, p := range db.Procs {
		s.Procs[p] = one("show create procedure "+qid(p), 2)
	}
	return s, nil
}

// normCreate normalises SHOW CREATE TABLE text: the AUTO_INCREMENT counter option is not part of the logical schema.
func normCreate(s string) string {
	if i := strings.Index(s, " AUTO_INCREMENT="); i >= 0 {
		j := i + len(" AUTO_INCREMENT=")
		for j < len(s) && s[j] >= '0' && s[j] <= '9' {
			j++
		}
		s = s[:i] + s[j:]
	}
	return s
}

func c36(c *rig.Ctx) {
	c.Rule("seeded databases created through SQL over the wire: nums (all integer widths signed/unsigned at their bounds, decimal(65,30) at max precision, float/double extremes and " +
		"denormals, bit(1/16/64) incl. quote/backslash bytes, year, boolean, auto_increment), strs (char/varchar in two collations/tinytext/text/mediumtext/longtext, enum and set " +
		"with quotes/semicolons/backslashes in member names, column names `select` / `my col`, prefix indexes; values from a hostile list: ' \" ` \\ NUL \\n \\r\\n ^Z % _ \\q \\\\ " +
		"NULL-the-word, \\N, empty, spaces, comment/DELIMITER look-alikes, non-BMP runes, BOM, U+2028, lines up to 300 KB; NULL vs 'NULL' vs ''), bins (binary/varbinary/tiny..longblob " +
		"incl. all 256 byte values, empty, NUL runs, invalid UTF-8, 150 KB random), times (date/datetime(6)/timestamp(6)/time(6) at range ends), docs (JSON with escapes, deep nesting, " +
		"big numbers, SQL-injection look-alikes), a keyless table with duplicate rows, a parent/child pair with three foreign keys (child sorts first; self reference), generated " +
		"stored+virtual columns, literal and expression defaults, checks, comments with quotes; two views, two triggers (one BEGIN..END), two procedures. Each database is dumped with " +
		"`dolt dump` (SQL; randomly --no-batch / --no-autocommit) and `dolt dump -r csv|json|parquet`, loaded into an EMPTY repository with `dolt sql --file` resp. `dolt table import -c -s`, " +
		"and source and copy are read back over the wire and compared. A case is distinct when its data differ (seeded); non-trivial = at least one table compared equal on some route")
	c.Assume("the dolt CLI commands are the real command objects (commands.DumpCmd, commands.SqlCmd, commands.InitCmd, tblcmds.ImportCmd) executed in-process on a DoltEnv loaded like cmd/dolt does; no dolt binary is built")
	c.Assume("rows are compared as multisets of the exact bytes the MySQL text protocol delivers per cell (NULL distinct from every string); SHOW CREATE TABLE is compared after dropping the AUTO_INCREMENT=<n> counter option; views / triggers / procedures by their SHOW CREATE text")
	for _, route := range c36Routes {
		for fam, why := range c36Excluded[route] {
			c.Assume(fmt.Sprintf("type-support[%s]: column family %q excluded: %s", route, fam, why))
		}
		for kind, why := range c36SkipKinds[route] {
			c.Assume(fmt.Sprintf("type-support[%s]: table kind %q not loaded: %s", route, kind, why))
		}
	}

	root := c.TempDir("c36")
	defer os.RemoveAll(root)
	home := filepath.Join(root, "home")
	srcDir := filepath.Join(root, "src")
	cnt := newCounters()
	l := &limiter{c: c, seen: map[string]int{}}
	n := c.Pick(3, 40)

	t0 := time.Now()
	// ---- phase 1: build the source databases through SQL and snapshot them ---------------------------------------------
	srv, err := sqlrig.Start(srcDir)
	rig.Must(err)
	x := srv.MustOpen("")
	var dbs []*c36db
	snaps := map[string]*c36snap{}
	only := map[string]bool{} // development aid: VQUERY_C36_ONLY=30,31 restricts the run to these database indexes
	for _, f := range strings.Split(os.Getenv("VQUERY_C36_ONLY"), ",") {
		if f != "" {
			only[f] = true
		}
	}
	for i := 0; i < n; i++ {
		if len(only) > 0 && !only[fmt.Sprint(i)] {
			continue
		}
		r := c.SubRand("c36", i)
		db := genC36(r, fmt.Sprintf("c36_%d", i))
		c.Case(fmt.Sprintf("c36/%d", i), map[string]any{"db": db.Name, "regenerate": fmt.Sprintf("SubRand(\"c36\", %d)", i), "dump_flags": db.DumpArg})
		rig.Must(x.Exec("create database " + qid(db.Name)))
		rig.Must(x.Exec("use " + qid(db.Name)))
		var tables []string
		for _, t := range db.Tables {
			if err := x.Exec(t.createSQL()); err != nil {
				cnt.add("setup.create_rejected", 1)
				c.Note("setup: create rejected: " + truncate(err.Error(), 200) + " :: " + truncate(t.createSQL(), 300))
				continue
			}
			tables = append(tables, t.Name)
			for _, ins := range t.insertSQL() {
				if err := x.Exec(ins); err != nil {
					cnt.add("setup.insert_rejected", 1)
					c.Note("setup: insert rejected: " + truncate(err.Error(), 200) + " :: " + truncate(ins, 200))
					continue
				}
				cnt.add("setup.rows", 1)
			}
		}
		for _, st := range db.Extra {
			if err := x.Exec(st); err != nil {
				cnt.add("setup.extra_rejected", 1)
				c.Note("setup: statement rejected: " + truncate(err.Error(), 200) + " :: " + truncate(st, 200))
			}
		}
		if i%2 == 0 { // half of the databases are dumped with a clean working set, half with uncommitted changes
			x.Exec("call dolt_commit('-Am', 'all')")
		}
		snap, err := takeC36Snap(x, db, tables)
		rig.Must(err)
		snaps[db.Name] = snap
		dbs = append(dbs, db)
	}
	x.Close()
	rig.Must(srv.Stop())
	t1 := time.Now()
	c.Note(fmt.Sprintf("timing: phase 1 (build + snapshot %d databases) %.1fs", n, t1.Sub(t0).Seconds()))

	// ---- phase 2: dump every database on every route and load the dumps into empty repositories -------------------------
	loadOut := map[string]string{}             // db -> what the (--continue) SQL load printed
	loaded := map[string]map[string][]string{} // route -> db -> tables loaded
	for _, route := range c36Routes {
		loaded[route] = map[string][]string{}
	}
	for _, db := range dbs {
		src := filepath.Join(srcDir, db.Name)
		snap := snaps[db.Name]
		for _, route := range c36Routes {
			dst := filepath.Join(root, "dst-"+route, db.Name)
			if err := mustCLI(dst, home, "init"); err != nil {
				rig.Must(err)
			}
			if route == "sql" {
				args := append([]string{"dump", "-f"}, db.DumpArg...)
				if code, out := doltCLI(src, home, args...); code != 0 {
					l.violation("c36/sql/dump-failed", "dolt dump failed: "+truncate(out, 600), map[string]any{"db": db.Name, "args": args})
					continue
				}
				cnt.add("sql.dumps", 1)
				file := filepath.Join(src, "doltdump.sql")
				if st, err := os.Stat(file); err == nil {
					cnt.add("sql.dump_bytes", int(st.Size()))
				}
				if code, out := doltCLI(dst, home, "sql", "--file", file); code != 0 {
					failing := "other"
					for _, t := range db.Tables {
						if strings.Contains(out, "INSERT INTO "+qid(t.Name)+" ") || strings.Contains(out, "CREATE TABLE "+qid(t.Name)+" ") {
							failing = t.Kind
							break
						}
					}
					l.violation("c36/sql/load-failed/"+failing, "`dolt sql --file doltdump.sql` into an empty repository failed: "+truncate(out, 700), map[string]any{"db": db.Name, "dump_flags": db.DumpArg})
					cnt.add("sql.loads_failed", 1)
					// the plain load stops at the first error. So that the rest of the dump is still judged, the dump is loaded
					// again into a fresh empty repository with --continue (the failure above stays reported).
					dropRepo(dst)
					rig.Must(mustCLI(dst, home, "init"))
					_, out2 := doltCLI(dst, home, "sql", "--continue", "--file", file)
					loadOut[db.Name] = out2
				} else {
					cnt.add("sql.loads_ok", 1)
				}
				for name := range snap.Tables {
					loaded[route][db.Name] = append(loaded[route][db.Name], name)
				}
				continue
			}
			args := []string{"dump", "-f", "-r", route}
			if code, out := doltCLI(src, home, args...); code != 0 {
				l.violation("c36/"+route+"/dump-failed", "dolt dump -r "+route+" failed: "+truncate(out, 600), map[string]any{"db": db.Name})
				continue
			}
			cnt.add(route+".dumps", 1)
			for _, t := range db.Tables {
				st := snap.Tables[t.Name]
				if st == nil || c36SkipKinds[route][t.Kind] != "" {
					continue
				}
				file := filepath.Join(src, "doltdump", t.Name+"."+route)
				schemaFile := filepath.Join(dst, "schema-"+strings.ReplaceAll(t.Name, " ", "_")+".sql")
				rig.Must(os.WriteFile(schemaFile, []byte(st.Create+";\n"), 0o644))
				if code, out := doltCLI(dst, home, "table", "import", "-c", "-s", schemaFile, t.Name, file); code != 0 {
					l.violation("c36/"+route+"/import-failed/"+t.Kind, "`dolt table import -c -s` of the dumped file failed: "+truncate(out, 900), map[string]any{"db": db.Name, "table": t.Name, "file": filepath.Base(file)})
					continue
				}
				loaded[route][db.Name] = append(loaded[route][db.Name], t.Name)
			}
		}
	}

	t2 := time.Now()
	c.Note(fmt.Sprintf("timing: phase 2 (dump + load, %d CLI invocations) %.1fs", cliCalls, t2.Sub(t1).Seconds()))

	// ---- phase 3: read the copies back over the wire and compare --------------------------------------------------------
	for _, route := range c36Routes {
		dstRoot := filepath.Join(root, "dst-"+route)
		srv, err := sqlrig.Start(dstRoot)
		rig.Must(err)
		x := srv.MustOpen("")
		for _, db := range dbs {
			tables := loaded[route][db.Name]
			sort.Strings(tables)
			if len(tables) == 0 {
				continue
			}
			src := snaps[db.Name]
			got, err := takeC36Snap(x, db, tables)
			if err != nil {
				l.violation("c36/"+route+"/read-failed", "reading the copy failed: "+err.Error(), map[string]any{"db": db.Name})
				continue
			}
			equalTables := 0
			for _, name := range tables {
				t := db.table(name)
				want, have := src.Tables[name], got.Tables[name]
				wit := map[string]any{"db": db.Name, "table": name, "route": route, "dump_flags": db.DumpArg, "regenerate": "case " + db.Name}
				if have == nil {
					l.violation("c36/"+route+"/table-missing/"+t.Kind, "table absent from the copy", wit)
					continue
				}
				cnt.add(route+".tables_compared", 1)
				ok := true
				if route == "sql" && normCreate(want.Create) != normCreate(have.Create) {
					ok = false
					wit["source_create"], wit["copy_create"] = want.Create, have.Create
					l.violation("c36/sql/schema-differs/"+t.Kind, "SHOW CREATE TABLE differs between source and copy", wit)
				}
				if fam, detail := diffRows(route, t, want, have); fam != "" {
					ok = false
					wit["difference"] = detail
					l.violation("c36/"+route+"/rows-differ/"+t.Kind+"/"+fam, "row multiset differs between source and copy: "+truncate(detail, 300), wit)
				}
				cnt.add(route+".rows_compared", len(want.Rows))
				if ok {
					equalTables++
					cnt.add(route+".tables_equal", 1)
				}
			}
			if route == "sql" {
				for kind, pair := range map[string][2]map[string]string{"view": {src.Views, got.Views}, "trigger": {src.Trigs, got.Trigs}, "procedure": {src.Procs, got.Procs}} {
					for name, want := range pair[0] {
						cnt.add("sql."+kind+"s_compared", 1)
						if have := pair[1][name]; have != want {
							key := "c36/sql/" + kind + "-differs"
							if kind == "procedure" { // keyed by cause
								switch lo := loadOut[db.Name]; {
								case strings.HasPrefix(have, "ERROR") && strings.Contains(lo, "for query delimiter ") && strings.Contains(lo, "near 'delimiter'"):
									// `dolt sql --file` did not recognise the dump's own `delimiter END_PROCEDURE` directive and ran it as SQL
									key += "/delimiter-directive-not-recognised"
								case strings.HasPrefix(have, "ERROR"):
									key += "/absent"
								default:
									key += "/text-changed"
								}
							}
							l.violation(key, kind+" "+name+" differs between source and copy", map[string]any{"db": db.Name, "source": want, "copy": have, "load_output_tail": tailStr(loadOut[db.Name], 1500)})
						}
					}
				}
			}
			if equalTables > 0 {
				c.Distinct(route + "/" + db.Name + "/" + fmt.Sprint(c.Seed))
			}
		}
		x.Close()
		rig.Must(srv.Stop())
	}
	for _, db := range dbs[:1] {
		s := snaps[db.Name]
		c.Sample(map[string]any{"db": db.Name, "tables": len(s.Tables), "create_strs": truncate(s.Tables["strs"].Create, 1500), "dump_flags": db.DumpArg})
	}
	c36DelimiterBoundaries(c, root, home)
	cnt.add("suppressed_repeat_violations", l.sup)
	cnt.flush(c, "c36.")
	for _, route := range c36Routes {
		c.Require(cnt.get(route+".dumps") > 0, "no dump on route "+route)
		c.Require(cnt.get(route+".tables_compared") > 0, "no table compared on route "+route)
	}
	c.Require(cnt.get("sql.views_compared") > 0 && cnt.get("sql.triggers_compared") > 0 && cnt.get("sql.procedures_compared") > 0, "schema elements not compared")
}

// diffRows compares the row multisets on the columns the route supports. It returns the type family of the first
// differing column ("" if equal) and a description.
func diffRows(route string, t *c36table, want, have *c36snapTable) (string, string) {
	if len(want.Cols) != len(have.Cols) {
		return "columns", fmt.Sprintf("column lists differ: %v vs %v", want.Cols, have.Cols)
	}
	fam := make([]string, len(want.Cols))
	keep := make([]bool, len(want.Cols))
	for i := range want.Cols {
		fam[i] = "unknown"
		if i < len(t.Cols) {
			fam[i] = t.Cols[i].Family
		}
		keep[i] = c36Excluded[route][fam[i]] == ""
	}
	proj := func(raw [][]string) [][]string {
		out := make([][]string, len(raw))
		for i, row := range raw {
			p := make([]string, 0, len(row))
			for j, cell := range row {
				if keep[j] {
					p = append(p, cell)
				} else {
					p = append(p, "")
				}
			}
			out[i] = p
		}
		sort.Slice(out, func(a, b int) bool { return strings.Join(out[a], "\x1f") < strings.Join(out[b], "\x1f") })
		return out
	}
	w, h := proj(want.raw), proj(have.raw)
	if len(w) != len(h) {
		return "rowcount", fmt.Sprintf("%d rows in the source, %d in the copy", len(w), len(h))
	}
	// multiset difference first: rows present on one side only. Pairing rows by their sorted position would blame the
	// wrong column when a change in one cell moves a row past other rows (keyless tables, duplicate rows).
	join := func(r []string) string { return strings.Join(r, "\x1f") }
	count := map[string]int{}
	for _, r := range h {
		count[join(r)]++
	}
	var srcOnly, cpOnly [][]string
	for _, r := range w {
		if k := join(r); count[k] > 0 {
			count[k]--
		} else {
			srcOnly = append(srcOnly, r)
		}
	}
	count = map[string]int{}
	for _, r := range w {
		count[join(r)]++
	}
	for _, r := range h {
		if k := join(r); count[k] > 0 {
			count[k]--
		} else {
			cpOnly = append(cpOnly, r)
		}
	}
	if len(srcOnly) == 0 {
		return "", ""
	}
	// the first source-only row is explained by the copy-only row that differs from it in the fewest cells
	src := srcOnly[0]
	best, bestDiff := -1, 1<<30
	for k, r := range cpOnly {
		d := 0
		for j := range src {
			if src[j] != r[j] {
				d++
			}
		}
		if d < bestDiff {
			best, bestDiff = k, d
		}
	}
	if best < 0 {
		return "rowcount", "a source row has no counterpart in the copy"
	}
	for j := range src {
		if src[j] != cpOnly[best][j] {
			return fam[j] + "/" + classifyCell(src[j], cpOnly[best][j]), fmt.Sprintf("column %s (%s): source %s copy %s (%d source-only rows, closest copy-only row differs in %d cells)", want.Cols[j], t.Cols[j].Type, showCell(src[j]), showCell(cpOnly[best][j]), len(srcOnly), bestDiff)
		}
	}
	return "", ""
}

func tailStr(s string, n int) string {
	if len(s) > n {
		return "..." + s[len(s)-n:]
	}
	return s
}

// dropRepo removes a repository directory AND its entry in dolt's in-process singleton database cache (the CLI runs
// in-process: a later `dolt init` at the same path must not be handed the store object of the deleted repository).
func dropRepo(dir string) {
	dbfactory.DeleteFromSingletonCache(dbfactory.SingletonCacheKeyForDatabaseDir(dir), true)
	os.RemoveAll(dir)
}

// classifyCell names the kind of change between a source cell and its copy (part of the violation key).
func classifyCell(src, cp string) string {
	switch {
	case src == sqlrig.Null && cp == "":
		return "null-to-empty"
	case src == "" && cp == sqlrig.Null:
		return "empty-to-null"
	case src == sqlrig.Null:
		return "null-to-value"
	case cp == sqlrig.Null:
		return "value-to-null"
	case strings.ReplaceAll(src, "\r\n", "\n") == cp:
		return "crlf-to-lf"
	case strings.HasPrefix(src, cp):
		return "truncated"
	case strings.ToValidUTF8(src, "\uFFFD") == cp:
		return "invalid-utf8-replaced"
	case strings.TrimRight(src, " ") == strings.TrimRight(cp, " ") || strings.TrimRight(src, "\x00") == strings.TrimRight(cp, "\x00"):
		return "padding"
	}
	return "changed"
}

func showCell(s string) string {
	if s == sqlrig.Null {
		return "NULL"
	}
	return fmt.Sprintf("%q(len %d)", truncate(s, 80), len(s))
}
