package vquery

import (
	"fmt"
	"math"
	"math/big"
	"math/rand"
	"strconv"
	"strings"
)

// ---- typed values ---------------------------------------------------------------------------------------------

type colKind int

const (
	kInt colKind = iota
	kDec
	kFloat
	kDate
	kDatetime
	kStr
	kBin
	kEnum
)

// value is one SQL value as the harness understands it, independent of any engine: the literal that writes it,
// the text a MySQL text-protocol reader must see for it, and the typed payload the brute-force evaluator compares.
type value struct {
	Null bool
	Lit  string   // SQL literal
	Text string   // expected wire text when read back from a column of the owning type ("" for literal-only values)
	R    *big.Rat // kInt, kDec
	F    float64  // kFloat
	K    string   // comparison key: canonical datetime text, collation key of a string, raw bytes of a binary
	E    int      // enum ordinal (1-based), 0 = not a member
	Odd  bool     // literal whose comparison semantics the harness does not decide (voice 5 abstains)
}

var nullValue = value{Null: true, Lit: "NULL"}

// colSpec describes one column type with its value pool.
type colSpec struct {
	Name     string
	Kind     colKind
	SQLType  string // type text without nullability
	TypeID   string // two columns with equal TypeID are join-compatible (same type, same collation)
	Coll     string // for kStr: bin | utf8mb4_bin | ai_ci | general_ci | unicode_ci
	F32      bool
	Nullable bool
	EnumVals []string
	Pool     []value // values stored in rows
	Extra    []value // literal-only values (neighbours, out-of-range, finer scale)
}

func (c *colSpec) ci() bool {
	return c.Kind == kStr && (c.Coll == "ai_ci" || c.Coll == "general_ci" || c.Coll == "unicode_ci")
}

// planDependent: MIN/MAX/GROUP BY/DISTINCT representatives of such a column legitimately depend on the plan.
func (c *colSpec) planDependent() bool { return c.ci() || c.Kind == kEnum }

func intVal(n *big.Int) value {
	return value{Lit: n.String(), Text: n.String(), R: new(big.Rat).SetInt(n)}
}

func decVal(s string) value { // s is an exact decimal text with the column's scale
	r, ok := new(big.Rat).SetString(s)
	if !ok {
		panic("bad decimal " + s)
	}
	return value{Lit: s, Text: s, R: r}
}

func floatVal(f float64, f32 bool) value {
	if f32 {
		f = float64(float32(f))
	}
	// 'e' notation makes the literal a floating-point literal (a plain "1.5" would be an exact decimal literal)
	return value{Lit: strconv.FormatFloat(f, 'e', -1, 64), F: f, Text: strconv.FormatFloat(f, 'g', -1, 64)}
}

func dateVal(s string) value { return value{Lit: "'" + s + "'", Text: s, K: s + " 00:00:00.000000"} }

func datetimeVal(s string, frac int) value { // s = "YYYY-MM-DD hh:mm:ss[.ffffff]"
	base, fr := s, ""
	if i := strings.IndexByte(s, '.'); i >= 0 {
		base, fr = s[:i], s[i+1:]
	}
	fr = (fr + "000000")[:6]
	text := base
	if frac > 0 {
		text = base + "." + fr[:frac]
	}
	return value{Lit: "'" + s + "'", Text: text, K: base + "." + fr}
}

// foldKey is the harness's own collation key for the case- and accent-insensitive collations, valid ONLY over the
// restricted alphabet the generator uses for such columns (ASCII letters, digits, space, and a fixed list of Latin
// letters with diacritics that utf8mb4_0900_ai_ci, utf8mb4_general_ci and utf8mb4_unicode_ci all equate with their
// base letter). Over that alphabet all three collations order strings by the folded text.
var foldMap = map[rune]rune{'á': 'a', 'à': 'a', 'â': 'a', 'ä': 'a', 'Á': 'a', 'À': 'a', 'Ä': 'a', 'é': 'e', 'è': 'e', 'ê': 'e', 'ë': 'e', 'É': 'e',
	'È': 'e', 'í': 'i', 'Í': 'i', 'ó': 'o', 'ö': 'o', 'Ö': 'o', 'ú': 'u', 'ü': 'u', 'Ü': 'u', 'ñ': 'n', 'Ñ': 'n', 'ç': 'c', 'Ç': 'c'}

func foldKey(s string) (string, bool) {
	var b strings.Builder
	ok := true
	for _, r := range s {
		switch {
		case r >= 'a' && r <= 'z', r >= '0' && r <= '9', r == ' ':
			b.WriteRune(r)
		case r >= 'A' && r <= 'Z':
			b.WriteRune(r + 32)
		default:
			if f, in := foldMap[r]; in {
				b.WriteRune(f)
			} else {
				ok = false
				b.WriteRune(r)
			}
		}
	}
	return b.String(), ok
}

func sqlQuote(s string) string {
	var b strings.Builder
	b.WriteByte('\'')
	for i := 0; i < len(s); i++ {
		switch s[i] {
		case '\'':
			b.WriteString("''")
		case '\\':
			b.WriteString("\\\\")
		case 0:
			b.WriteString("\\0")
		case '\n':
			b.WriteString("\\n")
		case '\r':
			b.WriteString("\\r")
		case 0x1a:
			b.WriteString("\\Z")
		default:
			b.WriteByte(s[i])
		}
	}
	b.WriteByte('\'')
	return b.String()
}

func strVal(s, coll string) value {
	v := value{Lit: sqlQuote(s), Text: s}
	switch coll {
	case "bin", "utf8mb4_bin":
		v.K = s
		if coll == "utf8mb4_bin" && strings.HasSuffix(s, " ") {
			v.Odd = true // PAD SPACE
		}
	default:
		k, ok := foldKey(s)
		v.K = k
		if !ok || strings.HasSuffix(s, " ") {
			v.Odd = true
		}
	}
	return v
}

func binVal(b []byte) value {
	return value{Lit: fmt.Sprintf("X'%X'", b), Text: string(b), K: string(b)}
}

// ---- type catalogue -------------------------------------------------------------------------------------------

func bi(s string) *big.Int { n, _ := new(big.Int).SetString(s, 10); return n }

func intSpec(sqlType, lo, hi string) *colSpec {
	c := &colSpec{Kind: kInt, SQLType: sqlType, TypeID: sqlType}
	l, h := bi(lo), bi(hi)
	add := func(n *big.Int) {
		if n.Cmp(l) >= 0 && n.Cmp(h) <= 0 {
			for _, p := range c.Pool {
				if p.R.Cmp(new(big.Rat).SetInt(n)) == 0 {
					return
				}
			}
			c.Pool = append(c.Pool, intVal(n))
		}
	}
	one := big.NewInt(1)
	add(l)
	add(new(big.Int).Add(l, one))
	for _, s := range []string{"-2", "-1", "0", "1", "2", "3", "5", "7", "100"} {
		add(bi(s))
	}
	add(new(big.Int).Sub(h, one))
	add(h)
	c.Extra = []value{intVal(new(big.Int).Sub(l, one)), intVal(new(big.Int).Add(h, one)), intVal(bi("4")), intVal(bi("6"))}
	for _, s := range []string{"0.5", "1.5", "-0.5", "2.0"} {
		v := decVal(s)
		c.Extra = append(c.Extra, v)
	}
	return c
}

func decSpec(prec, scale int) *colSpec {
	t := fmt.Sprintf("decimal(%d,%d)", prec, scale)
	c := &colSpec{Kind: kDec, SQLType: t, TypeID: t}
	z := strings.Repeat("0", scale)
	nines := strings.Repeat("9", prec-scale) + "." + strings.Repeat("9", scale)
	tiny := "0." + strings.Repeat("0", scale-1) + "1"
	for _, s := range []string{"-" + nines, "-1." + "5" + z[1:], "-" + tiny, "0." + z, tiny, "1." + z, "1.5" + z[1:], "2." + z, "2.5" + z[1:], "10." + z, nines} {
		c.Pool = append(c.Pool, decVal(s))
	}
	c.Extra = []value{decVal("1"), decVal("2"), decVal("0"), decVal("-1"), decVal("3." + z)}
	// finer-scale literals: exact comparison semantics are decided by the model, flagged Odd where go-mysql-server
	// is known to round the literal to the column scale (every engine voice shares that expression code)
	f := decVal("1.5" + z[1:] + "1")
	f.Odd = true
	c.Extra = append(c.Extra, f)
	return c
}

func floatSpec(f32 bool) *colSpec {
	t := "double"
	if f32 {
		t = "float"
	}
	c := &colSpec{Kind: kFloat, SQLType: t, TypeID: t, F32: f32}
	for _, f := range []float64{-1e10, -2.5, -0.125, 0, 0.125, 1, 1.5, 2, 3.25, 1e10} {
		c.Pool = append(c.Pool, floatVal(f, f32))
	}
	if !f32 {
		c.Pool = append(c.Pool, floatVal(0.1, false), floatVal(math.MaxFloat64, false), floatVal(-math.SmallestNonzeroFloat64, false))
	}
	c.Extra = []value{floatVal(0.5, f32), floatVal(-1, f32), floatVal(4, f32), floatVal(1e11, f32)}
	return c
}

var dates = []string{"1000-01-01", "1969-12-31", "1970-01-01", "2000-02-29", "2020-01-01", "2020-01-02", "2020-12-31", "9999-12-31"}

func dateSpec() *colSpec {
	c := &colSpec{Kind: kDate, SQLType: "date", TypeID: "date"}
	for _, d := range dates {
		c.Pool = append(c.Pool, dateVal(d))
	}
	c.Extra = []value{dateVal("1999-12-31"), dateVal("2020-01-03"), dateVal("2021-06-15")}
	return c
}

func datetimeSpec(frac int) *colSpec {
	t := "datetime"
	if frac > 0 {
		t = fmt.Sprintf("datetime(%d)", frac)
	}
	c := &colSpec{Kind: kDatetime, SQLType: t, TypeID: t}
	times := []string{"1000-01-01 00:00:00", "1969-12-31 23:59:59", "1970-01-01 00:00:00", "2000-02-29 12:00:00", "2020-01-01 00:00:00",
		"2020-01-01 00:00:01", "2020-01-01 23:59:59", "2020-01-02 00:00:00", "9999-12-31 23:59:59"}
	for _, s := range times {
		c.Pool = append(c.Pool, datetimeVal(s, frac))
	}
	if frac == 6 {
		for _, s := range []string{"2020-01-01 00:00:00.000001", "2020-01-01 00:00:00.999999", "2020-01-01 00:00:00.500000"} {
			c.Pool = append(c.Pool, datetimeVal(s, frac))
		}
	}
	c.Extra = []value{datetimeVal("2020-01-01 12:00:00", frac), datetimeVal("1999-12-31 00:00:00", frac), datetimeVal("2020-01-03 00:00:00", frac)}
	return c
}

var ciWords = []string{"", "a", "A", "b", "B", "ab", "Ab", "aB", "AB", "abc", "á", "Á", "à", "e", "é", "E", "z", "Z", "0", "10", "9", "a b", "ñ", "n", "o", "ö", "ç", "c"}
var binWords = []string{"", "a", "A", "b", "B", "ab", "Ab", "abc", "á", "é", "e", "z", "Z", "0", "10", "9", "a b", "a_b", "a%", "it's", "back\\slash", "tab\there", "\U0001F600", "~", "_", "%"}

func strSpec(coll string, n int) *colSpec {
	full := map[string]string{"bin": "utf8mb4_0900_bin", "utf8mb4_bin": "utf8mb4_bin", "ai_ci": "utf8mb4_0900_ai_ci", "general_ci": "utf8mb4_general_ci", "unicode_ci": "utf8mb4_unicode_ci"}[coll]
	t := fmt.Sprintf("varchar(%d) collate %s", n, full)
	c := &colSpec{Kind: kStr, SQLType: t, TypeID: t, Coll: coll}
	words := binWords
	if c.ci() {
		words = ciWords
	}
	for _, w := range words {
		c.Pool = append(c.Pool, strVal(w, coll))
	}
	c.Extra = []value{strVal("aa", coll), strVal("m", coll), strVal("zz", coll), strVal("C", coll)}
	return c
}

func binSpec() *colSpec {
	c := &colSpec{Kind: kBin, SQLType: "varbinary(16)", TypeID: "varbinary(16)"}
	for _, b := range [][]byte{{}, {0}, {0, 0}, {0, 1}, {1}, {'a'}, {'a', 0}, {'a', 'b'}, {0x7f}, {0x80}, {0xff}, {0xff, 0xff}, {0xfe, 0xff}} {
		c.Pool = append(c.Pool, binVal(b))
	}
	c.Extra = []value{binVal([]byte{0x40}), binVal([]byte{0xff, 0}), binVal([]byte{'b'})}
	return c
}

func enumSpec() *colSpec {
	vals := []string{"z", "y", "m", "b", "a"}
	c := &colSpec{Kind: kEnum, SQLType: "enum('z','y','m','b','a')", TypeID: "enum5", EnumVals: vals}
	for i, s := range vals {
		c.Pool = append(c.Pool, value{Lit: sqlQuote(s), Text: s, K: s, E: i + 1})
	}
	return c
}

// typeCatalogue returns fresh specs of every column type the workload covers.
func typeCatalogue() []*colSpec {
	return []*colSpec{
		intSpec("tinyint", "-128", "127"), intSpec("smallint", "-32768", "32767"), intSpec("mediumint", "-8388608", "8388607"),
		intSpec("int", "-2147483648", "2147483647"), intSpec("bigint", "-9223372036854775808", "9223372036854775807"),
		intSpec("tinyint unsigned", "0", "255"), intSpec("smallint unsigned", "0", "65535"), intSpec("int unsigned", "0", "4294967295"),
		intSpec("bigint unsigned", "0", "18446744073709551615"),
		decSpec(10, 3), decSpec(20, 5), decSpec(65, 30),
		floatSpec(false), floatSpec(true),
		dateSpec(), datetimeSpec(0), datetimeSpec(6),
		strSpec("bin", 20), strSpec("utf8mb4_bin", 20), strSpec("ai_ci", 20), strSpec("general_ci", 20), strSpec("unicode_ci", 20),
		binSpec(), enumSpec(),
	}
}

// ---- tables -----------------------------------------------------------------------------------------------------

type indexSpec struct {
	Name   string
	Cols   []int // column positions
	Unique bool
}

type tableSpec struct {
	Name    string
	Cols    []*colSpec // Cols[0] is always `id int` (unique, NOT NULL)
	PK      []int      // column positions; always ends with 0 (id) so the key is unique
	Indexes []indexSpec
	Rows    [][]value // current rows
	Old     [][]value // rows as of tag v1
	NextID  int
}

func (t *tableSpec) colList() string {
	names := make([]string, len(t.Cols))
	for i, c := range t.Cols {
		names[i] = c.Name
	}
	return strings.Join(names, ", ")
}

func (t *tableSpec) createSQL(name string, indexed bool) string {
	var b strings.Builder
	fmt.Fprintf(&b, "create table %s (", name)
	pk := map[int]bool{}
	for _, p := range t.PK {
		pk[p] = true
	}
	for i, c := range t.Cols {
		if i > 0 {
			b.WriteString(", ")
		}
		b.WriteString(c.Name + " " + c.SQLType)
		if !c.Nullable || (indexed && pk[i]) {
			b.WriteString(" not null")
		}
	}
	if indexed {
		var names []string
		for _, p := range t.PK {
			names = append(names, t.Cols[p].Name)
		}
		fmt.Fprintf(&b, ", primary key (%s)", strings.Join(names, ", "))
		for _, ix := range t.Indexes {
			names = names[:0]
			for _, p := range ix.Cols {
				names = append(names, t.Cols[p].Name)
			}
			u := ""
			if ix.Unique {
				u = "unique "
			}
			fmt.Fprintf(&b, ", %skey %s (%s)", u, ix.Name, strings.Join(names, ", "))
		}
	}
	b.WriteString(")")
	return b.String()
}

func insertSQL(name string, rows [][]value) []string {
	var out []string
	for i := 0; i < len(rows); i += 40 {
		j := i + 40
		if j > len(rows) {
			j = len(rows)
		}
		var b strings.Builder
		fmt.Fprintf(&b, "insert into %s values ", name)
		for k, row := range rows[i:j] {
			if k > 0 {
				b.WriteString(", ")
			}
			b.WriteString("(")
			for m, v := range row {
				if m > 0 {
					b.WriteString(", ")
				}
				b.WriteString(v.Lit)
			}
			b.WriteString(")")
		}
		out = append(out, b.String())
	}
	return out
}

// cloneSpec gives a column of a table its own name / nullability while sharing the type's pools.
func cloneSpec(c *colSpec, name string, nullable bool) *colSpec {
	d := *c
	d.Name, d.Nullable = name, nullable
	return &d
}

func idSpec() *colSpec {
	return &colSpec{Name: "id", Kind: kInt, SQLType: "int", TypeID: "int-id"}
}

// genRow draws one row. Each non-id column draws from a per-table sub-pool (so that equal values repeat and ranges
// hit) and is NULL with probability ~1/4 when nullable.
func (t *tableSpec) genRow(r *rand.Rand, sub [][]value) []value {
	row := make([]value, len(t.Cols))
	row[0] = intVal(big.NewInt(int64(t.NextID)))
	t.NextID++
	for i := 1; i < len(t.Cols); i++ {
		if t.Cols[i].Nullable && r.Intn(4) == 0 {
			row[i] = nullValue
			continue
		}
		row[i] = sub[i][r.Intn(len(sub[i]))]
	}
	return row
}

type schemaSpec struct {
	DB     string
	Tables []*tableSpec
	Shared []*colSpec // the type specs the tables draw from (join-compatible across tables)
	sub    [][][]value
}

// genSchema builds 2-3 tables over a shared selection of 3-6 types, so that every table pair has join-compatible
// columns with overlapping value pools.
func genSchema(r *rand.Rand, db string, forced *colSpec) *schemaSpec {
	cat := typeCatalogue()
	r.Shuffle(len(cat), func(i, j int) { cat[i], cat[j] = cat[j], cat[i] })
	nTypes := 3 + r.Intn(4)
	shared := cat[:nTypes]
	if forced != nil {
		shared[0] = forced
	}
	s := &schemaSpec{DB: db, Shared: shared}
	nTables := 2 + r.Intn(2)
	for ti := 0; ti < nTables; ti++ {
		t := &tableSpec{Name: fmt.Sprintf("t%d", ti), NextID: 1 + ti*1000}
		t.Cols = append(t.Cols, idSpec())
		// every table gets one column of each of the first two shared types (join partners), and some of the rest
		for k, sp := range shared {
			if k >= 2 && r.Intn(3) == 0 {
				continue
			}
			t.Cols = append(t.Cols, cloneSpec(sp, fmt.Sprintf("c%d", k), r.Intn(4) != 0))
		}
		if r.Intn(2) == 0 { // a second column of an already used type: same-table multi-column indexes over one type
			k := r.Intn(len(shared))
			t.Cols = append(t.Cols, cloneSpec(shared[k], fmt.Sprintf("d%d", k), true))
		}
		// primary key: (id) | (c, id) | (c, c', id)
		switch r.Intn(3) {
		case 0:
			t.PK = []int{0}
		case 1:
			t.PK = []int{1 + r.Intn(len(t.Cols)-1), 0}
		default:
			a := 1 + r.Intn(len(t.Cols)-1)
			b := 1 + r.Intn(len(t.Cols)-1)
			if a == b {
				t.PK = []int{a, 0}
			} else {
				t.PK = []int{a, b, 0}
			}
		}
		for _, p := range t.PK {
			t.Cols[p].Nullable = false
		}
		// secondary indexes: single-column on most columns, 1-2 multi-column
		for i := 1; i < len(t.Cols); i++ {
			if r.Intn(4) != 0 {
				t.Indexes = append(t.Indexes, indexSpec{Name: fmt.Sprintf("ix_%s", t.Cols[i].Name), Cols: []int{i}})
			}
		}
		for m := 0; m < 1+r.Intn(2) && len(t.Cols) > 2; m++ {
			perm := r.Perm(len(t.Cols) - 1)
			n := 2 + r.Intn(2)
			if n > len(perm) {
				n = len(perm)
			}
			ix := indexSpec{Name: fmt.Sprintf("mx%d", m)}
			for _, p := range perm[:n] {
				ix.Cols = append(ix.Cols, p+1)
			}
			if r.Intn(4) == 0 {
				ix.Cols = append(ix.Cols, 0)
				ix.Unique = true
			}
			t.Indexes = append(t.Indexes, ix)
		}
		s.Tables = append(s.Tables, t)
	}
	// per-schema sub-pools per type (shared across tables so that joins match), 4-9 values each
	typeSub := map[string][]value{}
	for _, sp := range shared {
		n := 4 + r.Intn(6)
		if n > len(sp.Pool) {
			n = len(sp.Pool)
		}
		perm := r.Perm(len(sp.Pool))
		var vs []value
		for _, p := range perm[:n] {
			vs = append(vs, sp.Pool[p])
		}
		typeSub[sp.TypeID] = vs
	}
	for _, t := range s.Tables {
		sub := make([][]value, len(t.Cols))
		for i := 1; i < len(t.Cols); i++ {
			sub[i] = typeSub[t.Cols[i].TypeID]
		}
		s.sub = append(s.sub, sub)
		n := []int{0, 1, 12, 40, 90, 160}[r.Intn(6)]
		if t.Name == "t0" && n < 12 {
			n = 60
		}
		for k := 0; k < n; k++ {
			t.Rows = append(t.Rows, t.genRow(r, sub))
		}
	}
	return s
}

// mutate applies the post-tag edits: deletes, updates of non-key columns, inserts. Returns the statements (for a
// table named name) and updates t.Rows; t.Old keeps the tagged state.
func (s *schemaSpec) mutate(r *rand.Rand, ti int) []string {
	t := s.Tables[ti]
	t.Old = append([][]value(nil), t.Rows...)
	var stmts []string
	pk := map[int]bool{}
	for _, p := range t.PK {
		pk[p] = true
	}
	var kept [][]value
	for _, row := range t.Rows {
		switch x := r.Intn(10); {
		case x == 0:
			stmts = append(stmts, fmt.Sprintf("delete from {T} where id = %s", row[0].Lit))
			continue
		case x <= 2 && len(t.Cols) > len(t.PK):
			ci := 1 + r.Intn(len(t.Cols)-1)
			if pk[ci] {
				break
			}
			nr := append([]value(nil), row...)
			if t.Cols[ci].Nullable && r.Intn(4) == 0 {
				nr[ci] = nullValue
			} else {
				nr[ci] = s.sub[ti][ci][r.Intn(len(s.sub[ti][ci]))]
			}
			if t.Cols[ci].ci() && !row[ci].Null && !nr[ci].Null && row[ci].K == nr[ci].K && row[ci].Text != nr[ci].Text {
				// an UPDATE to a collation-equal but different string: go-mysql-server treats the row as unchanged
				// (every engine voice shares that UPDATE code); not a read-query matter, so not generated
				break
			}
			stmts = append(stmts, fmt.Sprintf("update {T} set %s = %s where id = %s", t.Cols[ci].Name, nr[ci].Lit, row[0].Lit))
			row = nr
		}
		kept = append(kept, row)
	}
	t.Rows = kept
	var added [][]value
	for k := r.Intn(12); k > 0; k-- {
		added = append(added, t.genRow(r, s.sub[ti]))
	}
	t.Rows = append(t.Rows, added...)
	stmts = append(stmts, insertSQL("{T}", added)...)
	return stmts
}
