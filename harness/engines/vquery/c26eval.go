package vquery

import (
	"fmt"
	"math"
	"math/big"
	"sort"
	"strconv"
	"strings"

	"verif/sqlrig"
)

// The harness's own brute-force evaluator (voice 5). Three-valued logic, exact rationals for integer/decimal
// columns, IEEE doubles for float columns, canonical text for temporal columns, byte order for binary collations and
// the folded key for the insensitive collations (restricted alphabet, see foldKey).

const (
	triF = 0
	triT = 1
	triU = 2
)

func triNot(x int) int {
	switch x {
	case triT:
		return triF
	case triF:
		return triT
	}
	return triU
}

// cmpValues compares two non-NULL values of a column's type.
func cmpValues(col *colSpec, x, y value) int {
	switch col.Kind {
	case kInt, kDec:
		return x.R.Cmp(y.R)
	case kFloat:
		switch {
		case x.F < y.F:
			return -1
		case x.F > y.F:
			return 1
		}
		return 0
	case kEnum:
		return x.E - y.E
	default:
		return strings.Compare(x.K, y.K)
	}
}

func (q *query) evalAtom(p *atom, rows [][]value) int {
	col := q.schema.Tables[q.Tables[p.A]].Cols[p.C]
	var v value
	if rows[p.A] == nil {
		v = nullValue // null-extended side of a left join
	} else {
		v = rows[p.A][p.C]
	}
	rel := func(op string, l value) int {
		if op == "<=>" {
			if v.Null || l.Null {
				if v.Null && l.Null {
					return triT
				}
				return triF
			}
			if cmpValues(col, v, l) == 0 {
				return triT
			}
			return triF
		}
		if v.Null || l.Null {
			if q.nullCmpDefinite {
				// diagnostic variant only (never an oracle): go-mysql-server's ValueRow comparison path yields "equal" for a
				// NULL operand, so >= and <= come out TRUE and < and > come out (definitely) FALSE
				switch op {
				case ">=", "<=":
					return triT
				case "<", ">":
					return triF
				}
			}
			return triU
		}
		c := cmpValues(col, v, l)
		var b bool
		switch op {
		case "=":
			b = c == 0
		case "<>":
			b = c != 0
		case "<":
			b = c < 0
		case "<=":
			b = c <= 0
		case ">":
			b = c > 0
		case ">=":
			b = c >= 0
		}
		if b {
			return triT
		}
		return triF
	}
	and := func(a, b int) int {
		if a == triF || b == triF {
			return triF
		}
		if a == triU || b == triU {
			return triU
		}
		return triT
	}
	switch p.Op {
	case "isnull":
		if v.Null {
			return triT
		}
		return triF
	case "notnull":
		if v.Null {
			return triF
		}
		return triT
	case "between":
		return and(rel(">=", p.Lits[0]), rel("<=", p.Lits[1]))
	case "notbetween":
		return triNot(and(rel(">=", p.Lits[0]), rel("<=", p.Lits[1])))
	case "in", "notin":
		res := triF
		for _, l := range p.Lits {
			switch rel("=", l) {
			case triT:
				res = triT
			case triU:
				if res == triF {
					res = triU
				}
			}
			if res == triT {
				break
			}
		}
		if p.Op == "notin" {
			return triNot(res)
		}
		return res
	default:
		return rel(p.Op, p.Lits[0])
	}
}

func (q *query) evalPred(p pred, rows [][]value) int {
	switch p := p.(type) {
	case nil:
		return triT
	case *atom:
		return q.evalAtom(p, rows)
	case *boolOp:
		switch p.Op {
		case "not":
			return triNot(q.evalPred(p.Kids[0], rows))
		case "and":
			res := triT
			for _, k := range p.Kids {
				switch q.evalPred(k, rows) {
				case triF:
					return triF
				case triU:
					res = triU
				}
			}
			return res
		default:
			res := triF
			for _, k := range p.Kids {
				switch q.evalPred(k, rows) {
				case triT:
					return triT
				case triU:
					res = triU
				}
			}
			return res
		}
	}
	panic("bad pred")
}

// ---- canonical cells ------------------------------------------------------------------------------------------------

const (
	clsText = iota
	clsRat
	clsF64 // double column: relative tolerance 1e-12
	clsF32 // float column: relative tolerance 1e-6
	clsSum // SUM accumulated in a double by the engine: relative 1e-6 + absolute 1e-6
)

// crow is one canonical result row: the exactly compared cells, and the approximately compared numeric cells.
type crow struct {
	key  string
	nums []float64
	tol  []int // class of each num
}

func (r crow) String() string {
	if len(r.nums) == 0 {
		return r.key
	}
	return fmt.Sprintf("%s ~%v", r.key, r.nums)
}

func approxEq(cls int, a, b float64) bool {
	if a == b || (math.IsNaN(a) && math.IsNaN(b)) {
		return true
	}
	if math.IsInf(a, 0) || math.IsInf(b, 0) {
		return false
	}
	d, m := math.Abs(a-b), math.Max(math.Abs(a), math.Abs(b))
	switch cls {
	case clsF32:
		return d <= 1e-6*m
	case clsSum:
		return d <= 1e-6*m+1e-6
	}
	return d <= 1e-12*m
}

func crowLess(a, b crow) bool {
	if a.key != b.key {
		return a.key < b.key
	}
	for i := range a.nums {
		if i >= len(b.nums) {
			return false
		}
		if a.nums[i] != b.nums[i] {
			return a.nums[i] < b.nums[i]
		}
	}
	return false
}

func crowEq(a, b crow) bool {
	if a.key != b.key || len(a.nums) != len(b.nums) {
		return false
	}
	for i := range a.nums {
		if !approxEq(a.tol[i], a.nums[i], b.nums[i]) {
			return false
		}
	}
	return true
}

// mkRow builds a canonical row from the cells' texts.
func mkRow(cls []int, cells []string) crow {
	var r crow
	parts := make([]string, len(cells))
	for j, c := range cells {
		k := clsText
		if j < len(cls) {
			k = cls[j]
		}
		parts[j] = c
		if c == sqlrig.Null {
			continue
		}
		switch k {
		case clsRat:
			if x, ok := new(big.Rat).SetString(c); ok {
				parts[j] = x.RatString()
			}
		case clsF64, clsF32, clsSum:
			if f, err := strconv.ParseFloat(c, 64); err == nil {
				parts[j] = "~"
				r.nums = append(r.nums, f)
				r.tol = append(r.tol, k)
			}
		}
	}
	r.key = strings.Join(parts, "\x1f")
	return r
}

func sortRows(rows []crow) {
	sort.SliceStable(rows, func(i, j int) bool { return crowLess(rows[i], rows[j]) })
}

func colClass(c *colSpec) int {
	switch c.Kind {
	case kInt, kDec:
		return clsRat
	case kFloat:
		if c.F32 {
			return clsF32
		}
		return clsF64
	}
	return clsText
}

// classes returns the comparison class of every output column.
func (q *query) classes() []int {
	out := make([]int, len(q.Select))
	for i, s := range q.Select {
		switch s.Agg {
		case "count*", "count":
			out[i] = clsRat
		case "sum":
			col := q.schema.Tables[q.Tables[s.A]].Cols[s.C]
			switch col.Kind {
			case kDec:
				out[i] = clsSum // go-mysql-server accumulates decimal sums in a double, too
			case kFloat:
				out[i] = clsSum
			default:
				out[i] = clsSum // go-mysql-server accumulates integer sums in a double
			}
		default:
			out[i] = colClass(q.schema.Tables[q.Tables[s.A]].Cols[s.C])
		}
	}
	return out
}

// canonRows renders a wire result canonically: one string per row; sorted unless the query is ordered.
func (q *query) canonRows(rs *sqlrig.Rows) []crow {
	cls := q.classes()
	out := make([]crow, len(rs.Data))
	for i, row := range rs.Data {
		out[i] = mkRow(cls, row)
	}
	if !q.Ordered {
		sortRows(out)
	}
	return out
}

func valueText(col *colSpec, v value) string {
	if v.Null {
		return sqlrig.Null
	}
	if col.Kind == kFloat {
		return strconv.FormatFloat(v.F, 'g', -1, 64)
	}
	return v.Text
}

// ---- evaluation -------------------------------------------------------------------------------------------------------

func (q *query) tableRows(a int) [][]value {
	t := q.schema.Tables[q.Tables[a]]
	if q.AsOf {
		return t.Old
	}
	return t.Rows
}

// joined enumerates the rows of the FROM clause after ON / WHERE.
func (q *query) joined() [][][]value {
	var out [][][]value
	left := q.tableRows(0)
	if len(q.Tables) == 1 {
		for _, r := range left {
			rows := [][]value{r}
			if q.evalPred(q.Where, rows) == triT {
				out = append(out, rows)
			}
		}
		return out
	}
	right := q.tableRows(1)
	ta, tb := q.schema.Tables[q.Tables[0]], q.schema.Tables[q.Tables[1]]
	for _, l := range left {
		matched := false
		for _, r := range right {
			ok := true
			for _, e := range q.On {
				x, y := l[e.LC], r[e.RC]
				_ = tb
				if x.Null || y.Null {
					if !(e.NullSafe && x.Null && y.Null) {
						ok = false
						break
					}
					continue
				}
				if cmpValues(ta.Cols[e.LC], x, y) != 0 {
					ok = false
					break
				}
			}
			rows := [][]value{l, r}
			if ok && q.OnExtra != nil && q.evalPred(q.OnExtra, rows) != triT {
				ok = false
			}
			if !ok {
				continue
			}
			matched = true
			if q.evalPred(q.Where, rows) == triT {
				out = append(out, rows)
			}
		}
		if !matched && q.Left {
			rows := [][]value{l, nil}
			if q.evalPred(q.Where, rows) == triT {
				out = append(out, rows)
			}
		}
	}
	return out
}

func cell(rows [][]value, a, c int) value {
	if rows[a] == nil {
		return nullValue
	}
	return rows[a][c]
}

func (q *query) aggregate(group [][][]value) crow {
	cls := q.classes()
	cells := make([]string, len(q.Select))
	for i, s := range q.Select {
		var col *colSpec
		if s.Agg != "count*" {
			col = q.schema.Tables[q.Tables[s.A]].Cols[s.C]
		}
		switch s.Agg {
		case "":
			cells[i] = valueText(col, cell(group[0], s.A, s.C))
		case "count*":
			cells[i] = strconv.Itoa(len(group))
		case "count":
			n := 0
			for _, rows := range group {
				if !cell(rows, s.A, s.C).Null {
					n++
				}
			}
			cells[i] = strconv.Itoa(n)
		case "min", "max":
			var best *value
			for _, rows := range group {
				v := cell(rows, s.A, s.C)
				if v.Null {
					continue
				}
				if best == nil {
					w := v
					best = &w
					continue
				}
				c := cmpValues(col, v, *best)
				if (s.Agg == "min" && c < 0) || (s.Agg == "max" && c > 0) {
					w := v
					best = &w
				}
			}
			if best == nil {
				cells[i] = sqlrig.Null
			} else {
				cells[i] = valueText(col, *best)
			}
		case "sum":
			any := false
			sumR := new(big.Rat)
			sumF := 0.0
			for _, rows := range group {
				v := cell(rows, s.A, s.C)
				if v.Null {
					continue
				}
				any = true
				if col.Kind == kFloat {
					sumF += v.F
				} else {
					sumR.Add(sumR, v.R)
				}
			}
			switch {
			case !any:
				cells[i] = sqlrig.Null
			case col.Kind == kFloat:
				cells[i] = strconv.FormatFloat(sumF, 'g', -1, 64)
			default:
				f, _ := sumR.Float64()
				cells[i] = strconv.FormatFloat(f, 'g', -1, 64)
			}
		}
	}
	return mkRow(cls, cells)
}

// evalNullCmpVariant evaluates the query under the "NULL compares equal" semantics of the known null-comparison defect.
// It is used only to attribute a violation to that cause (key component), never to decide one.
func (q *query) evalNullCmpVariant() ([]crow, bool) {
	q.nullCmpDefinite = true
	defer func() { q.nullCmpDefinite = false }()
	return q.eval()
}

// eval is voice 5. ok=false when the harness does not decide the query.
func (q *query) eval() (out []crow, ok bool) {
	if !q.decidable() {
		return nil, false
	}
	js := q.joined()
	hasAgg := false
	for _, s := range q.Select {
		if s.Agg != "" {
			hasAgg = true
		}
	}
	switch {
	case len(q.GroupBy) > 0:
		g := q.GroupBy[0]
		col := q.schema.Tables[q.Tables[g.A]].Cols[g.C]
		groups := map[string][][][]value{}
		for _, rows := range js {
			k := mkRow([]int{colClass(col)}, []string{valueText(col, cell(rows, g.A, g.C))}).String()
			groups[k] = append(groups[k], rows)
		}
		for _, grp := range groups {
			out = append(out, q.aggregate(grp))
		}
		sortRows(out)
		return out, true
	case hasAgg:
		if len(js) == 0 {
			// aggregate over the empty set: COUNT = 0, others NULL
			cells := make([]string, len(q.Select))
			for i, s := range q.Select {
				if s.Agg == "count*" || s.Agg == "count" {
					cells[i] = "0"
				} else {
					cells[i] = sqlrig.Null
				}
			}
			return []crow{mkRow(q.classes(), cells)}, true
		}
		return []crow{q.aggregate(js)}, true
	}
	if q.Ordered {
		sort.SliceStable(js, func(i, j int) bool {
			for _, o := range q.OrderBy {
				col := q.schema.Tables[q.Tables[o.A]].Cols[o.C]
				x, y := cell(js[i], o.A, o.C), cell(js[j], o.A, o.C)
				c := 0
				switch {
				case x.Null && y.Null:
				case x.Null:
					c = -1
				case y.Null:
					c = 1
				default:
					c = cmpValues(col, x, y)
				}
				if o.Desc {
					c = -c
				}
				if c != 0 {
					return c < 0
				}
			}
			return false
		})
		if q.Limit >= 0 {
			lo := q.Offset
			if lo > len(js) {
				lo = len(js)
			}
			hi := lo + q.Limit
			if hi > len(js) {
				hi = len(js)
			}
			js = js[lo:hi]
		}
	}
	cls := q.classes()
	for _, rows := range js {
		cells := make([]string, len(q.Select))
		for i, s := range q.Select {
			col := q.schema.Tables[q.Tables[s.A]].Cols[s.C]
			cells[i] = valueText(col, cell(rows, s.A, s.C))
		}
		out = append(out, mkRow(cls, cells))
	}
	if !q.Ordered {
		sortRows(out)
	}
	return out, true
}
