package vquery

import (
	"fmt"
	"os"
	"sort"
	"strconv"
	"strings"
	"sync"

	"verif/rig"
	"verif/sqlrig"
)

// counters is a mutex-protected counter map flushed into the evidence at the end of the stage.
type counters struct {
	mu sync.Mutex
	m  map[string]int
}

func newCounters() *counters { return &counters{m: map[string]int{}} }
func (k *counters) add(name string, n int) {
	k.mu.Lock()
	k.m[name] += n
	k.mu.Unlock()
}
func (k *counters) get(name string) int {
	k.mu.Lock()
	defer k.mu.Unlock()
	return k.m[name]
}
func (k *counters) flush(c *rig.Ctx, prefix string) {
	k.mu.Lock()
	defer k.mu.Unlock()
	names := make([]string, 0, len(k.m))
	for n := range k.m {
		names = append(names, n)
	}
	sort.Strings(names)
	for _, n := range names {
		c.Count(prefix+n, k.m[n])
	}
}

// limiter bounds the number of witnesses per violation key.
type limiter struct {
	c    *rig.Ctx
	mu   sync.Mutex
	seen map[string]int
	sup  int
}

func (l *limiter) violation(key, what string, witness any) {
	l.mu.Lock()
	l.seen[key]++
	n := l.seen[key]
	if n > 3 {
		l.sup++
	}
	l.mu.Unlock()
	if n <= 3 {
		l.c.Violation(key, what, witness)
	}
}

func truncate(s string, n int) string {
	if len(s) > n {
		return s[:n] + "..."
	}
	return s
}

func headRows(rows []crow, n int) []string {
	s := make([]string, len(rows))
	for i, r := range rows {
		s[i] = r.String()
	}
	return headStrings(s, n)
}

func headStrings(s []string, n int) []string {
	if len(s) > n {
		out := make([]string, 0, n+1)
		for _, x := range s[:n] {
			out = append(out, truncate(x, 300))
		}
		return append(out, fmt.Sprintf("... (%d rows)", len(s)))
	}
	out := make([]string, len(s))
	for i, x := range s {
		out[i] = truncate(x, 300)
	}
	return out
}

// firstDiff describes the first position at which two canonical results differ.
func firstDiff(a, b []crow) string {
	n := len(a)
	if len(b) < n {
		n = len(b)
	}
	for i := 0; i < n; i++ {
		if !crowEq(a[i], b[i]) {
			return fmt.Sprintf("row %d: %q vs %q (lens %d/%d)", i, truncate(a[i].String(), 120), truncate(b[i].String(), 120), len(a), len(b))
		}
	}
	if len(a) > n {
		return fmt.Sprintf("row %d: %q vs <none> (lens %d/%d)", n, truncate(a[n].String(), 120), len(a), len(b))
	}
	if len(b) > n {
		return fmt.Sprintf("row %d: <none> vs %q (lens %d/%d)", n, truncate(b[n].String(), 120), len(a), len(b))
	}
	return "equal"
}

// direction classifies how got differs from want: extra rows, missing rows, both, or (same cardinality, as for
// aggregates) different values.
func direction(got, want []crow) string {
	g, w := append([]crow(nil), got...), append([]crow(nil), want...)
	sortRows(g)
	sortRows(w)
	extra, missing := 0, 0
	i, j := 0, 0
	for i < len(g) && j < len(w) {
		switch {
		case crowEq(g[i], w[j]):
			i++
			j++
		case crowLess(g[i], w[j]):
			extra++
			i++
		default:
			missing++
			j++
		}
	}
	extra += len(g) - i
	missing += len(w) - j
	switch {
	case extra > 0 && missing > 0 && len(g) == len(w):
		return "values"
	case extra > 0 && missing > 0:
		return "extra+missing"
	case extra > 0:
		return "extra"
	case missing > 0:
		return "missing"
	}
	return "order"
}

// errorClass reduces an error text to a stable slug (digits, addresses and stacks dropped).
func errorClass(err error) string {
	s := err.Error()
	if i := strings.Index(s, "panic recovered:"); i >= 0 {
		s = "panic " + s[i+len("panic recovered:"):]
	}
	if i := strings.IndexByte(s, '\n'); i >= 0 {
		s = s[:i]
	}
	var b strings.Builder
	words := 0
	prevDash := true
	for _, r := range strings.ToLower(s) {
		switch {
		case r >= 'a' && r <= 'z':
			b.WriteRune(r)
			prevDash = false
		case !prevDash:
			words++
			if words >= 9 {
				return strings.TrimRight(b.String(), "-")
			}
			b.WriteByte('-')
			prevDash = true
		}
	}
	return strings.TrimRight(b.String(), "-")
}

func sameRows(a, b []crow) bool {
	if len(a) != len(b) {
		return false
	}
	for i := range a {
		if !crowEq(a[i], b[i]) {
			return false
		}
	}
	return true
}

// planInfo is what the harness reads off `EXPLAIN PLAN` of the voice-1 query.
type planInfo struct {
	Lines []string
	Tags  map[string]bool
}

func readPlan(x *sqlrig.Session, sql string) planInfo {
	p := planInfo{Tags: map[string]bool{}}
	rs, err := x.Query("explain plan " + sql)
	if err != nil {
		p.Lines = []string{"explain failed: " + err.Error()}
		return p
	}
	for _, row := range rs.Data {
		p.Lines = append(p.Lines, row[0])
	}
	for i, ln := range p.Lines {
		switch {
		case strings.Contains(ln, "IndexedTableAccess("):
			kind := "index_access_other"
			for j := i + 1; j < len(p.Lines) && j <= i+4; j++ {
				if strings.Contains(p.Lines[j], "filters: [") {
					kind = "index_range_scan"
					if strings.Contains(p.Lines[j], "[NULL, ∞)}]") && strings.Count(p.Lines[j], "{") == 1 && strings.Count(p.Lines[j], ",") == 1 {
						kind = "index_full_ordered_scan"
					}
					break
				}
				if strings.Contains(p.Lines[j], "keys: ") {
					kind = "index_lookup"
					break
				}
			}
			p.Tags[kind] = true
		case strings.Contains(ln, "LookupJoin"):
			p.Tags["lookup_join"] = true
		case strings.Contains(ln, "MergeJoin"):
			p.Tags["merge_join"] = true
		case strings.Contains(ln, "HashJoin"):
			p.Tags["hash_join"] = true
		case strings.Contains(ln, "table_count("):
			p.Tags["table_count"] = true
		case strings.Contains(ln, "TopN"):
			p.Tags["topn"] = true
		}
	}
	return p
}

func (p planInfo) op() string {
	for _, t := range []string{"merge_join", "lookup_join", "hash_join", "table_count", "index_range_scan", "index_full_ordered_scan", "index_lookup"} {
		if p.Tags[t] {
			return t
		}
	}
	return "scan"
}

type c26worker struct {
	c    *rig.Ctx
	l    *limiter
	cnt  *counters
	obs  *execObserver
	xd   *sqlrig.Session // voice 1 (and 3: twin tables)
	xb   *sqlrig.Session // voice 2: kvexec bypassed
	xg   *sqlrig.Session // voice 4: reference
	idD  uint32
	srv  *sqlrig.Server
	ref  *gmsRef
	smu  *sync.Mutex
	seen map[string]bool // plan ops already sampled
}

func connID(x *sqlrig.Session) uint32 {
	s, err := x.Scalar("select connection_id()")
	rig.Must(err)
	n, err := strconv.ParseUint(s, 10, 32)
	rig.Must(err)
	return uint32(n)
}

// setup creates the schema in dolt (indexed tables + keyless twins, tag v1, post-tag edits) and in the reference
// (current database and <db>_old holding the tagged state).
func (w *c26worker) setup(s *schemaSpec, commitAfter bool, muts [][]string) error {
	d := func(q string) error {
		if err := w.xd.Exec(q); err != nil {
			return fmt.Errorf("dolt: %s: %w", truncate(q, 200), err)
		}
		return nil
	}
	g := func(q string) error {
		if err := w.xg.Exec(q); err != nil {
			return fmt.Errorf("reference: %s: %w", truncate(q, 200), err)
		}
		return nil
	}
	steps := []func() error{
		func() error { return d("create database `" + s.DB + "`") },
		func() error { return d("use `" + s.DB + "`") },
		func() error { return g("create database `" + s.DB + "`") },
		func() error { return g("create database `" + s.DB + "_old`") },
	}
	for _, st := range steps {
		if err := st(); err != nil {
			return err
		}
	}
	for _, t := range s.Tables {
		if err := d(t.createSQL(t.Name, true)); err != nil {
			return err
		}
		if err := d(t.createSQL(t.Name+"_u", false)); err != nil {
			return err
		}
		for _, db := range []string{s.DB, s.DB + "_old"} {
			if err := g("use `" + db + "`"); err != nil {
				return err
			}
			for k, name := range []string{t.Name, t.Name + "_u"} {
				if err := g(t.createSQL(name, k == 0)); err != nil {
					return err
				}
				for _, ins := range insertSQL(name, t.Old) {
					if err := g(ins); err != nil {
						return err
					}
				}
			}
		}
		for _, name := range []string{t.Name, t.Name + "_u"} {
			for _, ins := range insertSQL(name, t.Old) {
				if err := d(ins); err != nil {
					return err
				}
			}
		}
	}
	if err := d("call dolt_commit('-Am', 'v1')"); err != nil {
		return err
	}
	if err := d("call dolt_tag('v1')"); err != nil {
		return err
	}
	if err := g("use `" + s.DB + "`"); err != nil {
		return err
	}
	for ti, t := range s.Tables {
		for _, st := range muts[ti] {
			for _, name := range []string{t.Name, t.Name + "_u"} {
				if err := d(strings.Replace(st, "{T}", name, 1)); err != nil {
					return err
				}
			}
			for _, name := range []string{t.Name, t.Name + "_u"} {
				if err := g(strings.Replace(st, "{T}", name, 1)); err != nil {
					return err
				}
			}
		}
	}
	if commitAfter {
		if err := d("call dolt_commit('-Am', 'v2')"); err != nil {
			return err
		}
	}
	return w.xb.Exec("use `" + s.DB + "`")
}

type voiceResult struct {
	rows []crow
	err  error
}

// voice ids for run
const (
	runDolt = iota
	runBypass
	runTwin
	runRef
	runRefTwin
)

func (w *c26worker) run(which int, q *query) voiceResult {
	x, voice := w.xd, vIndexed
	switch which {
	case runBypass:
		x = w.xb
	case runTwin:
		voice = vTwin
	case runRef:
		x, voice = w.xg, vRef
	case runRefTwin:
		x, voice = w.xg, vRefTwin
	}
	rs, err := x.Query(q.sql(voice))
	if err != nil {
		if sqlrig.IsConnErr(err) {
			// the server dropped the connection (a recovered panic in its handler): reconnect so that later queries of
			// this worker are not lost; the error itself is judged like any other error of that voice
			w.cnt.add(fmt.Sprintf("connection_lost.voice%d", which), 1)
			w.reopen(which, q.schema.DB)
		}
		return voiceResult{err: err}
	}
	return voiceResult{rows: q.canonRows(rs)}
}

func (w *c26worker) reopen(which int, db string) {
	switch which {
	case runRef, runRefTwin:
		w.xg.Close()
		xg, err := w.ref.open(db)
		rig.Must(err)
		w.xg = xg
	case runBypass:
		w.xb.Close()
		w.xb = w.srv.MustOpen(db)
		w.obs.bypass(connID(w.xb))
	default:
		w.xd.Close()
		w.xd = w.srv.MustOpen(db)
		w.idD = connID(w.xd)
	}
}

// judge runs one query through all voices and applies the verdict rule.
func (w *c26worker) judge(caseName string, q *query) {
	cnt := w.cnt
	sql1 := q.sql(vIndexed)
	w.obs.takeLast(w.idD)
	r1 := w.run(runDolt, q)
	kv := w.obs.takeLast(w.idD)
	plan := readPlan(w.xd, sql1)
	r2 := w.run(runBypass, q)
	w.obs.takeLast(w.idD)
	r3 := w.run(runTwin, q)
	kvTwin := strings.TrimPrefix(w.obs.takeLast(w.idD), "*kvexec.")
	if kvTwin == "" {
		kvTwin = "rowexec"
	}
	r4 := w.run(runRef, q)
	r4u := w.run(runRefTwin, q)
	r5, has5 := q.eval()

	op := plan.op()
	cnt.add("queries", 1)
	cnt.add("kind."+q.Kind, 1)
	for t := range plan.Tags {
		cnt.add("plan."+t, 1)
	}
	if kv != "" {
		cnt.add("exec."+strings.TrimPrefix(kv, "*kvexec."), 1)
	}
	if q.AsOf {
		cnt.add("as_of_queries", 1)
		if kv != "" {
			cnt.add("as_of_kvexec", 1)
		}
		if plan.Tags["index_range_scan"] {
			cnt.add("as_of_index_range_scan", 1)
		}
	}
	wit := map[string]any{"db": q.schema.DB, "query": sql1, "twin_query": q.sql(vTwin), "reference_query": q.sql(vRef), "plan": plan.Lines, "kvexec_iter": kv}
	addRes := func(name string, r voiceResult) {
		if r.err != nil {
			wit[name] = "ERROR: " + truncate(r.err.Error(), 400)
		} else {
			wit[name] = headRows(r.rows, 40)
		}
	}
	fill := func() {
		addRes("v1_dolt_indexed", r1)
		addRes("v2_dolt_indexed_rowexec", r2)
		addRes("v3_dolt_unindexed_twin", r3)
		addRes("v4_reference", r4)
		addRes("v4u_reference_unindexed_twin", r4u)
		if has5 {
			wit["v5_model"] = headRows(r5, 40)
		}
		var ddl []string
		for _, t := range q.schema.Tables {
			ddl = append(ddl, t.createSQL(t.Name, true))
		}
		wit["ddl"] = ddl
		wit["replay"] = "rows are regenerated from the case: " + caseName
	}
	sig := q.signature()
	if q.Left {
		op = "left_" + op
	}
	// cause attributes a divergence of |got| to a defect class from features of the query, the plan and the answer, so
	// that one plan/type/shape key does not lump different root causes. It never decides a verdict.
	cause := func(got []crow, kvIter string, lines []string) string {
		if strings.HasSuffix(kvIter, "countAggKvIter") {
			for _, ln := range lines {
				if strings.Contains(ln, "IndexedTableAccess(") {
					// attribute to the listed class only if the answer is exactly COUNT(*) under the same filter (= the
					// NULLs of the counted column were counted); anything else stays a separate key
					if len(q.Select) == 1 && q.Select[0].Agg == "count" {
						q2 := *q
						q2.Select = []selExpr{{Agg: "count*"}}
						if v, ok := q2.eval(); !ok {
							return "kv-count-over-index-undecided"
						} else if sameRows(got, v) {
							return "kv-count-over-index-counts-nulls"
						}
					}
					return "kv-count-over-index-other"
				}
			}
			return "kv-count"
		}
		if v, ok := q.evalNullCmpVariant(); ok && sameRows(got, v) {
			return "null-cmp" // exactly the answer obtained when NULL >= x / NULL <= x are TRUE
		}
		planText := strings.Join(lines, "\n")
		if strings.Contains(planText, "LookupJoin") && len(q.Tables) > 1 {
			for _, e := range q.On {
				if q.schema.Tables[q.Tables[0]].Cols[e.LC].Kind == kDec {
					return "decimal-lookup-key"
				}
			}
		}
		if strings.Contains(planText, "LeftOuterMergeJoin") && len(q.Tables) > 1 {
			for _, e := range q.On { // the planner picks one of the ON equalities as the merge comparison
				nulls := 0
				for _, row := range q.tableRows(0) {
					if row[e.LC].Null {
						nulls++
					}
				}
				if nulls >= 2 {
					return "left-merge-null-keys"
				}
			}
		}
		if strings.Contains(planText, "LeftOuterMergeJoin") && strings.Contains(planText, "─ sel: ") {
			return "left-merge-residual-filter"
		}
		if q.hasCollationEqualInList() {
			return "ci-in-list-dup"
		}
		if q.hasNegativeLiteralOnUnsigned() {
			return "neg-literal-unsigned"
		}
		for i, ln := range lines {
			if strings.Contains(ln, "MergeJoin") {
				for _, l2 := range lines[i+1:] {
					if strings.Contains(l2, "─ Filter") {
						return "filtered-merge-side"
					}
				}
			}
		}
		return "other"
	}
	// key layout: the defect-discriminating parts first, so that known-finding patterns can end in '*'; the attributed
	// cause is the last component
	key := func(why string, want []crow) string {
		return "c26/indexed/" + op + "/" + direction(r1.rows, want) + "/" + sig + "/" + q.Kind + "/" + why + "/" + cause(r1.rows, kv, plan.Lines)
	}
	// twinVerdict: the twin query is itself a read query on dolt tables (keyless, unindexed). It is judged against the
	// SAME query on the reference engine's own keyless unindexed twins (same physical design on both sides), so that a
	// plan-dependent defect inside go-mysql-server that both engines share does not count against dolt.
	twinVerdict := func() {
		if r3.err != nil || r4u.err != nil {
			if r3.err != nil && r4u.err == nil {
				cnt.add("twin_errors", 1)
			}
			return
		}
		cnt.add("twin_compared", 1)
		if sameRows(r3.rows, r4u.rows) {
			if r4.err == nil && !sameRows(r4.rows, r4u.rows) {
				cnt.add("reference_plan_dependent", 1) // the reference disagrees with itself between indexed and unindexed tables
			}
			return
		}
		if has5 && sameRows(r3.rows, r5) {
			cnt.add("reference_divergence", 1)
			w.c.Note("reference-divergence (dolt twin == model != reference twin): " + truncate(q.sql(vTwin), 400))
			return
		}
		// the reference's unindexed answer must itself be corroborated (by the model where it decides, else by the
		// reference's own indexed answer): a reference that is wrong on this plan is suspect, not an oracle
		if (has5 && !sameRows(r4u.rows, r5)) || (!has5 && (r4.err != nil || !sameRows(r4u.rows, r4.rows))) {
			cnt.add("reference_twin_unreliable", 1)
			w.c.Note("reference-twin-unreliable (reference unindexed answer not corroborated; dolt twin differs too): " + truncate(q.sql(vTwin), 400))
			return
		}
		cnt.add("twin_divergence", 1)
		fill()
		wit["judged_query"] = q.sql(vTwin)
		wit["kvexec_iter_twin"] = kvTwin
		twinPlan := readPlan(w.xd, q.sql(vTwin))
		wit["twin_plan"] = twinPlan.Lines
		w.l.violation("c26/twin/"+kvTwin+"/"+direction(r3.rows, r4u.rows)+"/"+sig+"/"+q.Kind+"/"+twinPlan.op()+"/"+cause(r3.rows, kvTwin, twinPlan.Lines), "dolt's answer on keyless unindexed tables differs from the reference engine's answer on its own keyless unindexed copy of the same data: "+firstDiff(r3.rows, r4u.rows), wit)
	}
	defer twinVerdict()

	w.smu.Lock()
	first := !w.seen[op+"/"+q.Kind]
	w.seen[op+"/"+q.Kind] = true
	w.smu.Unlock()
	if first {
		w.c.Sample(map[string]any{"query": sql1, "plan": plan.Lines, "kvexec_iter": kv, "rows_v1": len(r1.rows), "decided_by_model": has5})
	}

	if r1.err != nil {
		if r3.err == nil && r4.err == nil {
			fill()
			w.l.violation("c26/indexed/"+op+"/error/"+sig+"/"+q.Kind+"/"+errorClass(r1.err), "dolt fails on the indexed tables where the unindexed twin and the reference answer: "+truncate(r1.err.Error(), 300), wit)
			return
		}
		cnt.add("errors_in_every_voice", 1)
		w.c.Note("query rejected: " + truncate(r1.err.Error(), 120) + " :: " + truncate(sql1, 300))
		return
	}
	if r2.err == nil && !sameRows(r1.rows, r2.rows) {
		cnt.add("kvexec_vs_rowexec_divergence", 1)
		wit["note_voice2"] = "kvexec and row executor disagree on the same indexed tables"
	}
	if len(r1.rows) > 0 {
		w.c.Distinct(q.Kind + "|" + op + "|" + sql1)
		cnt.add("nonempty_results", 1)
	}
	ok3, ok4 := r3.err == nil, r4.err == nil
	if !ok4 {
		cnt.add("reference_errors", 1)
		w.c.Note("reference rejected: " + truncate(r4.err.Error(), 120) + " :: " + truncate(q.sql(vRef), 300))
	}
	if !ok3 {
		cnt.add("twin_errors", 1)
		w.c.Note("twin rejected: " + truncate(r3.err.Error(), 120) + " :: " + truncate(q.sql(vTwin), 300))
	}
	if has5 {
		cnt.add("decided_by_model", 1)
		cnt.add("decided_by_model."+q.Kind, 1)
		if !sameRows(r1.rows, r5) {
			if ok4 && sameRows(r1.rows, r4.rows) {
				// dolt equals the reference engine: the statement (same results as the reference) holds; the harness's
				// MySQL-semantics model disagrees with go-mysql-server's expression semantics. Recorded, not a violation.
				cnt.add("model_divergence", 1)
				w.c.Note("model-divergence (dolt == reference != model): " + truncate(sql1, 400) + " :: " + firstDiff(r1.rows, r5))
				return
			}
			fill()
			w.l.violation(key("model", r5), "dolt's answer on the indexed tables differs from the brute-force evaluation (and from the reference engine)", wit)
			return
		}
		cnt.add("model_agrees", 1)
		if ok4 && !sameRows(r1.rows, r4.rows) {
			cnt.add("reference_divergence", 1)
			w.c.Note("reference-divergence (dolt == model != reference): " + truncate(sql1, 400) + " :: " + firstDiff(r1.rows, r4.rows))
			return
		}
		return
	}
	if !ok3 || !ok4 {
		return
	}
	cnt.add("decided_by_twin_and_reference", 1)
	switch {
	case sameRows(r3.rows, r4.rows):
		if !sameRows(r1.rows, r3.rows) {
			fill()
			w.l.violation(key("ref+twin", r4.rows), "dolt's answer on the indexed tables differs from the common answer of its unindexed twin and the reference engine", wit)
		}
	case sameRows(r1.rows, r3.rows):
		cnt.add("reference_divergence", 1)
		w.c.Note("reference-divergence (dolt indexed == dolt twin != reference): " + truncate(sql1, 400))
	case sameRows(r1.rows, r4.rows):
		cnt.add("indexed_vs_twin_divergence", 1)
	default:
		cnt.add("three_way_divergence", 1)
		w.c.Note("three-way divergence: " + truncate(sql1, 400))
	}
}

func c26(c *rig.Ctx) {
	c.Rule("seeded schemas: 2-3 tables sharing 3-6 column types drawn from {tinyint..bigint signed/unsigned, decimal(10,3)/(20,5)/(65,30), float, double, date, " +
		"datetime, datetime(6), varchar in utf8mb4_0900_bin/utf8mb4_bin/0900_ai_ci/general_ci/unicode_ci, varbinary, enum}; every type is forced into one case in turn; " +
		"primary key (id) | (c,id) | (c,c',id); single- and multi-column secondary indexes (some unique); 0-160 rows per table from small per-schema value pools with " +
		"boundary values and ~25% NULLs; tag v1, then deletes/updates/inserts. Queries per schema: filters (=,<,<=,>,>=,<>,<=>,BETWEEN,IN,IS NULL, AND/OR/NOT to depth 2, " +
		"equality-prefix + range over multi-column keys), ORDER BY on a total order with LIMIT/OFFSET, COUNT/MIN/MAX/SUM with and without WHERE / GROUP BY, inner and left " +
		"equi-joins (incl. self-joins, <=>, residual ON filters) with LOOKUP_JOIN/MERGE_JOIN/HASH_JOIN hints in both join orders, ~20% of all AS OF 'v1'. Every query runs on " +
		"(1) dolt indexed tables, (2) the same with kvexec bypassed, (3) dolt keyless unindexed twins, (4) go-mysql-server's memory engine in a child process, (5) the harness's " +
		"brute-force evaluator where it decides. A query is distinct/non-trivial when its text is new and voice 1 returned at least one row")
	c.Assume("verdict: voice 1 != voice 5 (where the harness decides) and voice 1 != voice 4 => violation; with no voice 5: voice 1 != the common answer of 3 and 4 => violation. " +
		"A disagreement with the reference in which the twin (or the model) sides with dolt is counted as reference_divergence; dolt == reference != model is counted as model_divergence " +
		"(the statement's oracle is the reference engine); neither is a violation")
	c.Assume("unordered results are compared as multisets; float/double cells and integer SUMs (accumulated in doubles by the engine) after rounding to 9 (float: 5) significant digits; " +
		"never generated: LIMIT without a total order, MIN/MAX/GROUP BY over case-insensitive or enum columns, SUM over 64-bit integer columns, non-deterministic functions")
	c.Assume("the kvexec observer wraps the engine's priority exec builder in-process: it counts iterator types and lets voice 2's connection bypass kvexec; it does not change what other connections execute")

	dir := c.TempDir("c26")
	defer os.RemoveAll(dir)
	srv, err := sqlrig.Start(dir + "/data")
	rig.Must(err)
	defer srv.Stop()
	obs, err := installObserver()
	rig.Must(err)
	ref, err := startGmsRef()
	rig.Must(err)
	defer ref.stop()

	nCases := c.Pick(40, 400)
	nQueries := c.Pick(60, 100)
	cnt := newCounters()
	l := &limiter{c: c, seen: map[string]int{}}
	var smu sync.Mutex
	seen := map[string]bool{}
	cat := typeCatalogue()

	jobs := make(chan int)
	var wg sync.WaitGroup
	for wk := 0; wk < 8; wk++ {
		wg.Add(1)
		go func() {
			defer wg.Done()
			w := &c26worker{c: c, l: l, cnt: cnt, obs: obs, smu: &smu, seen: seen, srv: srv, ref: ref}
			w.xd = srv.MustOpen("")
			w.xb = srv.MustOpen("")
			defer w.xd.Close()
			defer w.xb.Close()
			xg, err := ref.open("")
			rig.Must(err)
			w.xg = xg
			defer xg.Close()
			w.idD = connID(w.xd)
			obs.bypass(connID(w.xb))
			for i := range jobs {
				r := c.SubRand("c26", i)
				db := fmt.Sprintf("c26_%d", i)
				forced := typeCatalogue()[i%len(cat)]
				s := genSchema(r, db, forced)
				muts := make([][]string, len(s.Tables))
				for ti := range s.Tables {
					muts[ti] = s.mutate(r, ti)
				}
				caseName := fmt.Sprintf("c26/%d", i)
				var ddl []string
				var nrows []int
				for _, t := range s.Tables {
					ddl = append(ddl, t.createSQL(t.Name, true))
					nrows = append(nrows, len(t.Rows))
				}
				c.Case(caseName, map[string]any{"db": db, "ddl": ddl, "rows": nrows, "queries": nQueries, "regenerate": fmt.Sprintf("SubRand(\"c26\", %d)", i)})
				if err := w.setup(s, r.Intn(2) == 0, muts); err != nil {
					if strings.HasPrefix(err.Error(), "dolt:") {
						l.violation("c26/setup", "dolt rejected the generated schema/data: "+truncate(err.Error(), 400), map[string]any{"ddl": ddl})
					} else {
						cnt.add("reference_setup_failures", 1)
						c.Note("reference setup failed: " + truncate(err.Error(), 300))
					}
					continue
				}
				cnt.add("schemas", 1)
				for _, t := range s.Tables {
					for _, col := range t.Cols[1:] {
						cnt.add("coltype."+col.TypeID, 1)
					}
				}
				g := &qgen{r: r, s: s}
				// full scans first: the loaded data itself must agree in every voice
				for ti := range s.Tables {
					for _, asof := range []bool{false, true} {
						q := &query{schema: s, Kind: "scan", Tables: []int{ti}, AsOf: asof, Limit: -1, Ordered: true, OrderBy: []ordKey{{A: 0, C: 0}}}
						for ci := range s.Tables[ti].Cols {
							q.Select = append(q.Select, selExpr{A: 0, C: ci})
						}
						w.judge(caseName, q)
					}
				}
				for k := 0; k < nQueries; k++ {
					w.judge(caseName, g.gen())
				}
				w.xd.Exec("use mysql")
				if err := w.xd.Exec("drop database `" + db + "`"); err != nil {
					c.Note("drop database: " + err.Error())
				}
				w.xg.Exec("drop database `" + db + "`")
				w.xg.Exec("drop database `" + db + "_old`")
			}
		}()
	}
	for i := 0; i < nCases; i++ {
		jobs <- i
	}
	close(jobs)
	wg.Wait()

	for k, v := range obs.snapshot() {
		cnt.add("built_total."+strings.TrimPrefix(k, "*kvexec."), v)
	}
	cnt.add("suppressed_repeat_violations", l.sup)
	cnt.flush(c, "c26.")
	c.Require(cnt.get("plan.index_range_scan") > 0, "no executed plan contained an index range scan (IndexedTableAccess with static ranges)")
	c.Require(cnt.get("plan.lookup_join") > 0 && cnt.get("exec.lookupJoinKvIter") > 0, "the kvexec lookup join never executed")
	c.Require(cnt.get("plan.merge_join") > 0 && cnt.get("exec.mergeJoinKvIter") > 0, "the kvexec merge join never executed")
	c.Require(cnt.get("exec.countAggKvIter") > 0, "the kvexec count fast path never executed")
	c.Require(cnt.get("plan.table_count") > 0, "the table_count fast path never appeared")
	c.Require(cnt.get("as_of_queries") > 0 && cnt.get("as_of_index_range_scan") > 0, "no AS OF query ran through an index")
	c.Require(cnt.get("decided_by_model") > 0, "the brute-force evaluator decided nothing")
	c.Require(cnt.get("decided_by_twin_and_reference") > 0, "no query was decided by twin + reference")
	c.Require(cnt.get("nonempty_results") > cnt.get("queries")/4, "too few non-empty results")
	c.Require(cnt.get("reference_setup_failures") == 0, "the reference engine rejected a generated schema")
	for _, t := range cat {
		c.Require(cnt.get("coltype."+t.TypeID) > 0, "column type never exercised: "+t.TypeID)
	}
}
