package vquery

import (
	"fmt"
	"os"
	"path/filepath"
	"strconv"
	"strings"

	"verif/rig"
	"verif/sqlrig"
)

// c36CaseMain is the reproduction helper `vquery c36case <sql|csv|json|parquet> [--dump-flag ...] -- <statement> ...`:
// it builds a database `r` from the given statements over the wire, runs `dolt dump` on the given route and the
// matching load (`dolt sql --file` / `dolt table import -c -s <source schema>`) in-process exactly as the C36 monitor
// does, prints the dump file(s) (quoted, truncated) and every table's rows in source and copy.
func c36CaseMain(args []string) int {
	if len(args) < 2 {
		fmt.Println("usage: c36case <route> [dump flags] -- <sql> ...")
		return 2
	}
	if args[0] == "sqlfile" { // c36case sqlfile <file>: `dolt init` + `dolt sql --file <file>` in a fresh repository, then list procedures
		root, _ := os.MkdirTemp("/var/tmp", "verif-c36case-")
		defer os.RemoveAll(root)
		dst, home := filepath.Join(root, "r"), filepath.Join(root, "home")
		mustCLI(dst, home, "init")
		abs, _ := filepath.Abs(args[1])
		code, out := doltCLI(dst, home, "sql", "--file", abs)
		fmt.Println("dolt sql --file exit", code, truncate(out, 1200))
		code, out = doltCLI(dst, home, "sql", "-q", "select name from dolt_procedures", "-r", "csv")
		fmt.Println("procedures:", code, strings.TrimSpace(out))
		return 0
	}
	route := args[0]
	dbName := "r" // VQUERY_DB overrides the database (= repository directory) name
	if v := os.Getenv("VQUERY_DB"); v != "" {
		dbName = v
	}
	var flags, stmts []string
	rest := args[1:]
	for i, a := range rest {
		if a == "--" {
			flags, stmts = rest[:i], rest[i+1:]
			break
		}
	}
	if len(stmts) == 4 && stmts[0] == "@case" { // @case <seed> <db index> <table>: the monitor's own statements for that table
		seed, _ := strconv.ParseInt(stmts[1], 10, 64)
		i, _ := strconv.Atoi(stmts[2])
		db := genC36((&rig.Ctx{Seed: seed}).SubRand("c36", i), dbName)
		if stmts[3] == "*" { // the whole database, schema elements included
			fmt.Println("dump flags of the case:", db.DumpArg)
			stmts = nil
			for _, t := range db.Tables {
				stmts = append(append(stmts, t.createSQL()), t.insertSQL()...)
			}
			stmts = append(stmts, db.Extra...)
			if i%2 == 0 { // like the monitor: even databases are committed before the dump
				stmts = append(stmts, "call dolt_commit('-Am', 'all')")
			}
		} else {
			t := db.table(stmts[3])
			if t == nil {
				fmt.Println("no such table")
				return 2
			}
			stmts = append([]string{t.createSQL()}, t.insertSQL()...)
			for _, s := range stmts {
				fmt.Println(truncate(s, 300) + ";")
			}
		}
	}
	root, _ := os.MkdirTemp("/var/tmp", "verif-c36case-")
	defer os.RemoveAll(root)
	home, srcDir := filepath.Join(root, "home"), filepath.Join(root, "src")
	srv, err := sqlrig.Start(srcDir)
	if err != nil {
		fmt.Println(err)
		return 1
	}
	x := srv.MustOpen("")
	x.Exec("create database " + dbName)
	x.Exec("use " + dbName)
	for _, s := range stmts {
		if err := x.Exec(s); err != nil {
			fmt.Printf("source: %s: %v\n", truncate(s, 80), err)
		}
	}
	read := func(x *sqlrig.Session) (map[string][]string, map[string]string) {
		rows, creates := map[string][]string{}, map[string]string{}
		ts, _ := x.Query("show full tables where table_type = 'BASE TABLE'")
		if ts == nil {
			return rows, creates
		}
		for _, t := range ts.Data {
			rs, err := x.Query("select * from " + qid(t[0]))
			if err != nil {
				rows[t[0]] = []string{"ERROR " + err.Error()}
				continue
			}
			for _, r := range rs.Sorted() {
				rows[t[0]] = append(rows[t[0]], fmt.Sprintf("%q", r))
			}
			if cr, err := x.Query("show create table " + qid(t[0])); err == nil && len(cr.Data) == 1 {
				creates[t[0]] = cr.Data[0][1]
			}
		}
		return rows, creates
	}
	procs := func(x *sqlrig.Session) []string {
		var out []string
		if rs, err := x.Query("select name, type from dolt_schemas"); err == nil {
			for _, r := range rs.Data {
				out = append(out, r[1]+" "+r[0])
			}
		}
		if rs, err := x.Query("select name from dolt_procedures"); err == nil {
			for _, r := range rs.Data {
				out = append(out, "procedure "+r[0])
			}
		}
		return out
	}
	srcRows, creates := read(x)
	srcEl := procs(x)
	x.Close()
	srv.Stop()
	src, dst := filepath.Join(srcDir, dbName), filepath.Join(root, "dst", dbName)
	mustCLI(dst, home, "init")
	show := func(file string) {
		b, err := os.ReadFile(file)
		if err != nil {
			fmt.Println("  (no file", filepath.Base(file), ")")
			return
		}
		fmt.Printf("---- %s (%d bytes)\n%s\n", filepath.Base(file), len(b), truncate(fmt.Sprintf("%q", string(b)), 2500))
	}
	if route == "sql" {
		code, out := doltCLI(src, home, append([]string{"dump", "-f"}, flags...)...)
		fmt.Println("dump exit", code, truncate(out, 300))
		b, _ := os.ReadFile(filepath.Join(src, "doltdump.sql"))
		fmt.Printf("---- doltdump.sql (%d bytes)\n%s\n", len(b), truncate(string(b), 4000))
		if len(b) > 6000 {
			fmt.Printf("---- ... tail\n%s\n", string(b[len(b)-2500:]))
		}
		code, out = doltCLI(dst, home, "sql", "--file", filepath.Join(src, "doltdump.sql"))
		fmt.Println("load exit", code, truncate(out, 600))
		if code != 0 { // like the monitor: judge the rest of the dump through a --continue load into a fresh repository
			dropRepo(dst)
			mustCLI(dst, home, "init")
			code, out = doltCLI(dst, home, "sql", "--continue", "--file", filepath.Join(src, "doltdump.sql"))
			fmt.Println("load --continue exit", code, truncate(out, 3000))
		}
	} else {
		code, out := doltCLI(src, home, append([]string{"dump", "-f", "-r", route}, flags...)...)
		fmt.Println("dump exit", code, truncate(out, 300))
		for t, cr := range creates {
			file := filepath.Join(src, "doltdump", t+"."+route)
			show(file)
			sf := filepath.Join(dst, "schema.sql")
			os.WriteFile(sf, []byte(cr+";\n"), 0o644)
			code, out := doltCLI(dst, home, "table", "import", "-c", "-s", sf, t, file)
			fmt.Println("import", t, "exit", code, truncate(strings.TrimSpace(out), 400))
		}
	}
	srv2, err := sqlrig.Start(filepath.Join(root, "dst"))
	if err != nil {
		fmt.Println(err)
		return 1
	}
	defer srv2.Stop()
	y := srv2.MustOpen(dbName)
	defer y.Close()
	dstRows, _ := read(y)
	for t, rows := range srcRows {
		fmt.Println("table", t)
		fmt.Println("  source:", rows)
		fmt.Println("  copy  :", dstRows[t])
	}
	fmt.Println("schema elements source:", srcEl)
	fmt.Println("schema elements copy  :", procs(y))
	return 0
}
