package vquery

import (
	"fmt"
	"sync"
	"time"

	dsqlserver "github.com/dolthub/dolt/go/libraries/doltcore/sqlserver"
	gsql "github.com/dolthub/go-mysql-server/sql"
)

// execObserver wraps the production priority exec builder (kvexec.Builder) of the running in-process sql-server.
// It only COUNTS which kv-level operators were actually built for executed plans (non-vacuity evidence) and lets a
// chosen set of connections bypass kvexec (voice 2: same plan through go-mysql-server's row executor). It never
// alters what the production builder returns for other connections and never decides a verdict.
type execObserver struct {
	inner gsql.NodeExecBuilder
	mu    sync.Mutex
	built map[string]int    // iterator type name -> times built
	skip  map[uint32]bool   // connection ids that bypass the priority builder
	last  map[uint32]string // connection id -> kv iterator type built by its latest statement ("" if none)
}

func (o *execObserver) Build(ctx *gsql.Context, n gsql.Node, r gsql.Row) (gsql.RowIter, error) {
	id := ctx.Session.ID()
	o.mu.Lock()
	skip := o.skip[id]
	o.mu.Unlock()
	if skip {
		return nil, nil
	}
	it, err := o.inner.Build(ctx, n, r)
	if it != nil && err == nil {
		name := fmt.Sprintf("%T", it)
		o.mu.Lock()
		o.built[name]++
		o.last[id] = name
		o.mu.Unlock()
	}
	return it, err
}

// installObserver hooks the observer into the running server's engine. Returns nil if no server is running.
func installObserver() (*execObserver, error) {
	srv := dsqlserver.GetRunningServer()
	for i := 0; srv == nil && i < 400; i++ { // registered by the server's run goroutine shortly after the listener is up
		time.Sleep(10 * time.Millisecond)
		srv = dsqlserver.GetRunningServer()
	}
	if srv == nil || srv.Engine == nil || srv.Engine.Analyzer == nil || srv.Engine.Analyzer.ExecBuilder == nil {
		return nil, fmt.Errorf("no running in-process sql-server engine to observe")
	}
	bb := srv.Engine.Analyzer.ExecBuilder
	if bb.PriorityBuilder == nil {
		return nil, fmt.Errorf("engine has no priority exec builder (kvexec not installed?)")
	}
	o := &execObserver{inner: bb.PriorityBuilder, built: map[string]int{}, skip: map[uint32]bool{}, last: map[uint32]string{}}
	bb.PriorityBuilder = o
	return o, nil
}

func (o *execObserver) bypass(connID uint32) {
	o.mu.Lock()
	o.skip[connID] = true
	o.mu.Unlock()
}

// takeLast returns and clears the kv iterator type built by the latest statement(s) of a connection.
func (o *execObserver) takeLast(connID uint32) string {
	o.mu.Lock()
	defer o.mu.Unlock()
	s := o.last[connID]
	delete(o.last, connID)
	return s
}

func (o *execObserver) snapshot() map[string]int {
	o.mu.Lock()
	defer o.mu.Unlock()
	out := map[string]int{}
	for k, v := range o.built {
		out[k] = v
	}
	return out
}
