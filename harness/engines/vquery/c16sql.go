package vquery

import (
	"bytes"
	"encoding/json"
	"fmt"
	"math/rand"
	"os"
	"reflect"
	"sort"
	"strings"

	"verif/rig"
	"verif/sqlrig"
)

// C16SQL is the SQL stage of C16: TEXT / BLOB / JSON values of sizes sampled densely around the inline / out-of-band
// threshold of the adaptive encoding (tuple target 2048 bytes), the blob chunk length (4000) and its multiples, up to
// 2 MB, written through SQL, must read back byte-for-byte (JSON: JSON-equal); and values must compare, sort, group and
// de-duplicate the same whether the row around them forces them inline or out of band.
func C16SQL(c *rig.Ctx) {
	c.Rule("sizes: 0..70 step 1-7, every size in 2000..2110, 3980..4020, 7990..8010, 11990..12010, 65530..65540, 799990..800010 (200 chunk addresses = one internal node), " +
		"plus seeded random sizes up to 2 MB; content: text = UTF-8 mixing 1/2/3/4-byte runes with quotes, backslashes, NUL, newlines; blob = arbitrary bytes (all 256 values, invalid " +
		"UTF-8); JSON = object with a string payload of that size with escapes, arrays of numbers, nesting. Every value is written with a quoted / hex literal INSERT, read back by primary " +
		"key and by full scan, once alone in its row (inline while the tuple fits) and once next to a 1.9-2.1 KB sibling (pushes it out of band). Comparison set: prefixes of one random " +
		"string at lengths straddling the thresholds, and variants differing only in their last byte, each stored twice (alone / with a large sibling): ORDER BY, DISTINCT, GROUP BY, " +
		"self-join on equality, UNIQUE prefix index and join with a VARCHAR copy are compared with the harness's byte-order model. A case is distinct per (kind, size)")
	c.Assume("columns use utf8mb4_0900_bin / binary so that byte order is the expected order; which physical form (inline / out of band) a value took is not observed directly - both forms are forced by construction (value far below / far above the 2048-byte tuple target, with and without a large sibling)")
	dir := c.TempDir("c16sql")
	defer os.RemoveAll(dir)
	srv, err := sqlrig.Start(dir + "/data")
	rig.Must(err)
	defer srv.Stop()
	x := srv.MustOpen("")
	defer x.Close()
	rig.Must(x.Exec("create database c16"))
	rig.Must(x.Exec("use c16"))
	cnt := newCounters()
	l := &limiter{c: c, seen: map[string]int{}}
	r := c.SubRand("c16sql", 0)

	// ---- sizes
	var sizes []int
	for s := 0; s <= 70; s += 1 + r.Intn(7) {
		sizes = append(sizes, s)
	}
	rng := func(lo, hi, step int) {
		for s := lo; s <= hi; s += step {
			sizes = append(sizes, s)
		}
	}
	dense := 1
	if !c.Thorough() {
		dense = 5
	}
	rng(2000, 2110, dense)
	rng(3980, 4020, dense)
	rng(7990, 8010, dense)
	rng(11990, 12010, dense*2)
	rng(65530, 65540, dense)
	rng(799990, 800010, 10)
	for k := c.Pick(6, 60); k > 0; k-- {
		sizes = append(sizes, r.Intn([]int{5000, 100000, 2 << 20}[r.Intn(3)]))
	}
	sizes = append(sizes, 2<<20)

	// ---- round trip
	rig.Must(x.Exec("create table rt (id int primary key, kind varchar(8), t longtext collate utf8mb4_0900_bin, b longblob, j json, sib longtext)"))
	runes := []rune("aZ09 '\"\\\n\t%_é߿ࠀ日本\U0001F600\U0001D11E\x00\x7f")
	mkText := func(n int) string {
		var sb strings.Builder
		for sb.Len() < n {
			ru := runes[r.Intn(len(runes))]
			if sb.Len()+len(string(ru)) > n {
				ru = 'x'
			}
			sb.WriteRune(ru)
		}
		return sb.String()
	}
	mkBlob := func(n int) []byte {
		b := make([]byte, n)
		r.Read(b)
		for i := 0; i < n && i < 256; i++ {
			b[i] = byte(i)
		}
		return b
	}
	mkJSON := func(n int) string {
		switch r.Intn(3) {
		case 0:
			payload, _ := json.Marshal(mkText(n))
			return `{"k": ` + string(payload) + `, "n": [1, 2.5, -3e10, null, true], "o": {"a": {"b": []}}}`
		case 1:
			var sb strings.Builder
			sb.WriteString("[")
			for i := 0; sb.Len() < n; i++ {
				if i > 0 {
					sb.WriteString(",")
				}
				fmt.Fprintf(&sb, `{"i":%d,"s":"v%d"}`, i, i*7)
			}
			sb.WriteString("]")
			return sb.String()
		default:
			payload, _ := json.Marshal(strings.Repeat("é\"\\", n/4+1))
			return `{"deep": [[[[{"x": ` + string(payload) + `}]]]]}`
		}
	}
	id := 0
	for _, n := range sizes {
		for _, withSib := range []bool{false, true} {
			id++
			sib := ""
			if withSib {
				sib = strings.Repeat("s", 1900+r.Intn(200))
			}
			txt, blob, doc := mkText(n), mkBlob(n), mkJSON(n)
			c.Case(fmt.Sprintf("c16sql/rt/%d", id), map[string]any{"size": n, "sibling": len(sib)})
			stmt := fmt.Sprintf("insert into rt values (%d, 'v', %s, %s, %s, %s)", id, sqlQuote(txt), hexLit(blob), sqlQuote(doc), sqlQuote(sib))
			if err := x.Exec(stmt); err != nil {
				l.violation("c16sql/insert-failed", fmt.Sprintf("insert of a %d-byte value failed: %s", n, truncate(err.Error(), 300)), map[string]any{"size": n, "sibling": len(sib)})
				continue
			}
			for _, how := range []string{"pk", "scan"} {
				q := fmt.Sprintf("select t, b, j from rt where id = %d", id)
				if how == "scan" {
					q = fmt.Sprintf("select t, b, j from rt where id + 0 = %d", id)
				}
				rs, err := x.Query(q)
				if err != nil || len(rs.Data) != 1 {
					l.violation("c16sql/read-failed/"+how, fmt.Sprintf("reading back a %d-byte value failed: %v", n, err), map[string]any{"size": n, "sibling": len(sib)})
					continue
				}
				row := rs.Data[0]
				wit := map[string]any{"size": n, "sibling": len(sib), "read": how, "id": id}
				if row[0] != txt {
					wit["first_difference_at"] = firstByteDiff(row[0], txt)
					l.violation(fmt.Sprintf("c16sql/text-differs/%s", sizeClass(n)), fmt.Sprintf("TEXT of %d bytes read back differently (got %d bytes)", n, len(row[0])), wit)
				}
				if row[1] != string(blob) {
					wit["first_difference_at"] = firstByteDiff(row[1], string(blob))
					l.violation(fmt.Sprintf("c16sql/blob-differs/%s", sizeClass(n)), fmt.Sprintf("BLOB of %d bytes read back differently (got %d bytes)", n, len(row[1])), wit)
				}
				if !jsonEqual(row[2], doc) {
					l.violation(fmt.Sprintf("c16sql/json-differs/%s", sizeClass(n)), fmt.Sprintf("JSON of ~%d bytes read back not JSON-equal", len(doc)), wit)
				}
				cnt.add("roundtrip.reads", 1)
			}
			cnt.add("roundtrip.values", 3)
			cnt.add("roundtrip.bytes", len(txt)+len(blob)+len(doc))
			c.Distinct(fmt.Sprintf("rt/%d/%v", n, withSib))
		}
	}

	// ---- compare / sort / de-duplicate
	for _, kind := range []string{"text", "blob"} {
		col := "longtext collate utf8mb4_0900_bin"
		if kind == "blob" {
			col = "longblob"
		}
		tbl := "cmp_" + kind
		rig.Must(x.Exec(fmt.Sprintf("create table %s (id int primary key, v %s, sib longtext)", tbl, col)))
		base := make([]byte, 9000)
		for i := range base {
			if kind == "text" {
				base[i] = "abcdefghijklmnopqrstuvwxyzABCDEFGHIJKLMNOPQRSTUVWXYZ0123456789 _-"[r.Intn(65)]
			} else {
				base[i] = byte(r.Intn(256))
			}
		}
		var lens []int
		for _, n := range []int{0, 1, 2, 10, 100, 1000, 1990, 2040, 2047, 2048, 2049, 2100, 3999, 4000, 4001, 7999, 8000, 8001, 9000} {
			lens = append(lens, n)
		}
		var vals [][]byte
		for _, n := range lens {
			vals = append(vals, append([]byte(nil), base[:n]...))
			if n > 0 {
				alt := append([]byte(nil), base[:n]...)
				alt[n-1] ^= 1
				vals = append(vals, alt)
			}
		}
		lit := func(v []byte) string {
			if kind == "text" {
				return sqlQuote(string(v))
			}
			return hexLit(v)
		}
		type rowT struct {
			id int
			v  []byte
		}
		var rows []rowT
		rid := 0
		c.Case("c16sql/cmp/"+kind, map[string]any{"values": len(vals)})
		for _, v := range vals {
			for _, sibLen := range []int{0, 2000} { // alone -> inline while small; with a 2000-byte sibling -> tuple over target
				rid++
				if err := x.Exec(fmt.Sprintf("insert into %s values (%d, %s, %s)", tbl, rid, lit(v), sqlQuote(strings.Repeat("s", sibLen)))); err != nil {
					l.violation("c16sql/cmp-insert-failed/"+kind, truncate(err.Error(), 300), map[string]any{"len": len(v)})
					continue
				}
				rows = append(rows, rowT{rid, v})
			}
		}
		// ORDER BY
		sorted := append([]rowT(nil), rows...)
		sort.SliceStable(sorted, func(i, j int) bool {
			if c := bytes.Compare(sorted[i].v, sorted[j].v); c != 0 {
				return c < 0
			}
			return sorted[i].id < sorted[j].id
		})
		for _, dirn := range []string{"", " desc"} {
			rs, err := x.Query(fmt.Sprintf("select id from %s order by v%s, id%s", tbl, dirn, dirn))
			if err != nil {
				l.violation("c16sql/order-failed/"+kind, err.Error(), nil)
				continue
			}
			want := make([]string, len(sorted))
			for i, rw := range sorted {
				k := i
				if dirn != "" {
					k = len(sorted) - 1 - i
				}
				want[k] = fmt.Sprint(rw.id)
			}
			got := make([]string, len(rs.Data))
			for i, rw := range rs.Data {
				got[i] = rw[0]
			}
			if !reflect.DeepEqual(got, want) {
				l.violation("c16sql/order-by/"+kind, "ORDER BY over values stored alone and next to a large sibling does not follow byte order", map[string]any{"got_ids": got, "want_ids": want})
			}
			cnt.add("cmp.order_by_checks", 1)
		}
		// DISTINCT / GROUP BY
		distinct := map[string]int{}
		for _, rw := range rows {
			distinct[string(rw.v)]++
		}
		if s, err := x.Scalar(fmt.Sprintf("select count(distinct v) from %s", tbl)); err != nil || s != fmt.Sprint(len(distinct)) {
			l.violation("c16sql/distinct/"+kind, fmt.Sprintf("COUNT(DISTINCT v) = %s (err %v), expected %d", s, err, len(distinct)), nil)
		}
		if rs, err := x.Query(fmt.Sprintf("select length(v), count(*) from %s group by v", tbl)); err != nil || len(rs.Data) != len(distinct) {
			l.violation("c16sql/group-by/"+kind, fmt.Sprintf("GROUP BY v produced %d groups (err %v), expected %d", len(rs.Data), err, len(distinct)), nil)
		} else {
			for _, g := range rs.Data {
				if g[1] != "2" {
					l.violation("c16sql/group-by/"+kind, "a value stored twice (alone / with sibling) did not fall into one group of 2: length "+g[0]+" count "+g[1], nil)
					break
				}
			}
		}
		if rs, err := x.Query(fmt.Sprintf("select distinct v from %s", tbl)); err != nil || len(rs.Data) != len(distinct) {
			l.violation("c16sql/distinct/"+kind, fmt.Sprintf("SELECT DISTINCT v returned %d rows (err %v), expected %d", len(rs.Data), err, len(distinct)), nil)
		}
		// equality self-join: every value matches exactly its own two copies
		wantPairs := 0
		for _, n := range distinct {
			wantPairs += n * n
		}
		for _, hint := range []string{"", "/*+ HASH_JOIN(a,b) */ ", "/*+ MERGE_JOIN(a,b) */ "} {
			s, err := x.Scalar(fmt.Sprintf("select %scount(*) from %s a join %s b on a.v = b.v", hint, tbl, tbl))
			if err != nil || s != fmt.Sprint(wantPairs) {
				// diagnose: which pairs of equal values did not match (or which unequal ones did)
				wit := map[string]any{"hint": hint}
				if rs, qerr := x.Query(fmt.Sprintf("select %sa.id, b.id from %s a join %s b on a.v = b.v", hint, tbl, tbl)); qerr == nil {
					got := map[string]bool{}
					for _, p := range rs.Data {
						got[p[0]+"="+p[1]] = true
					}
					var missing, extra []string
					for _, a := range rows {
						for _, b := range rows {
							k := fmt.Sprintf("%d=%d", a.id, b.id)
							eq := bytes.Equal(a.v, b.v)
							if eq && !got[k] && len(missing) < 12 {
								missing = append(missing, fmt.Sprintf("ids %s (value length %d)", k, len(a.v)))
							}
							if !eq && got[k] && len(extra) < 12 {
								extra = append(extra, fmt.Sprintf("ids %s (lengths %d/%d)", k, len(a.v), len(b.v)))
							}
						}
					}
					wit["equal_values_not_matched"], wit["unequal_values_matched"] = missing, extra
				}
				l.violation("c16sql/self-join/"+kind, fmt.Sprintf("%sequality self-join matched %s pairs (err %v), expected %d", hint, s, err, wantPairs), wit)
			}
			cnt.add("cmp.join_checks", 1)
		}
		// equality with a literal, for a short and a long value, must find both physical copies
		for _, v := range [][]byte{vals[3], vals[len(vals)-1], vals[len(vals)/2]} {
			s, err := x.Scalar(fmt.Sprintf("select count(*) from %s where v = %s", tbl, lit(v)))
			if err != nil || s != "2" {
				l.violation("c16sql/literal-equality/"+kind, fmt.Sprintf("v = <literal of %d bytes> matched %s rows (err %v), expected 2", len(v), s, err), nil)
			}
		}
		if kind == "text" {
			// join with a VARCHAR column holding the same bytes
			rig.Must(x.Exec("create table vc (id int primary key, s varchar(9000) collate utf8mb4_0900_bin)"))
			i := 0
			for v := range distinct {
				i++
				rig.Must(x.Exec(fmt.Sprintf("insert into vc values (%d, %s)", i, sqlQuote(v))))
			}
			s, err := x.Scalar("select count(*) from cmp_text a join vc b on a.v = b.s")
			if err != nil || s != fmt.Sprint(len(rows)) {
				l.violation("c16sql/text-varchar-join", fmt.Sprintf("TEXT = VARCHAR join matched %s pairs (err %v), expected %d", s, err, len(rows)), nil)
			}
			// UNIQUE prefix index: equal 100-byte prefixes collide whatever the physical form; different prefixes do not
			rig.Must(x.Exec("create table uq (id int primary key, v longtext collate utf8mb4_0900_bin, sib longtext, unique key uv (v(100)))"))
			small, large := string(base[:100]), string(base[:5000])
			other := "Z" + string(base[1:5000])
			rig.Must(x.Exec(fmt.Sprintf("insert into uq values (1, %s, '')", sqlQuote(small))))
			if err := x.Exec(fmt.Sprintf("insert into uq values (2, %s, '')", sqlQuote(large))); err == nil {
				l.violation("c16sql/unique-prefix/missed-duplicate", "a 5000-byte value sharing its 100-byte prefix with an existing 100-byte value was accepted by UNIQUE (v(100))", nil)
			} else if sqlrig.Errno(err) != 1062 {
				l.violation("c16sql/unique-prefix/wrong-error", "unexpected error: "+truncate(err.Error(), 200), nil)
			}
			if err := x.Exec(fmt.Sprintf("insert into uq values (3, %s, %s)", sqlQuote(other), sqlQuote(strings.Repeat("s", 2000)))); err != nil {
				l.violation("c16sql/unique-prefix/false-duplicate", "a value with a different prefix was rejected: "+truncate(err.Error(), 200), nil)
			}
			cnt.add("cmp.unique_checks", 3)
		}
		cnt.add("cmp.values."+kind, len(rows))
		c.Distinct("cmp/" + kind)
	}
	cnt.add("suppressed_repeat_violations", l.sup)
	cnt.flush(c, "c16sql.")
	c.Require(cnt.get("roundtrip.reads") > 0 && cnt.get("cmp.order_by_checks") >= 4 && cnt.get("cmp.join_checks") >= 6, "c16sql: comparison checks did not run")
}

func sizeClass(n int) string {
	switch {
	case n < 1900:
		return "small"
	case n < 2200:
		return "tuple-target"
	case n < 3900:
		return "below-chunk"
	case n < 4100:
		return "one-chunk"
	case n < 800100:
		return "multi-chunk"
	}
	return "multi-level"
}

func firstByteDiff(a, b string) int {
	n := len(a)
	if len(b) < n {
		n = len(b)
	}
	for i := 0; i < n; i++ {
		if a[i] != b[i] {
			return i
		}
	}
	return n
}

func jsonEqual(a, b string) bool {
	var x, y any
	da := json.NewDecoder(strings.NewReader(a))
	da.UseNumber()
	db := json.NewDecoder(strings.NewReader(b))
	db.UseNumber()
	if da.Decode(&x) != nil || db.Decode(&y) != nil {
		return false
	}
	return reflect.DeepEqual(normNumbers(x), normNumbers(y))
}

// normNumbers renders JSON numbers canonically (1, 1.0 and 1e0 are the same JSON number).
func normNumbers(v any) any {
	switch t := v.(type) {
	case json.Number:
		f, err := t.Float64()
		if err != nil {
			return t.String()
		}
		return f
	case []any:
		for i := range t {
			t[i] = normNumbers(t[i])
		}
	case map[string]any:
		for k := range t {
			t[k] = normNumbers(t[k])
		}
	}
	return v
}

var _ = rand.Int
