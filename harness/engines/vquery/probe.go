package vquery

import (
	"fmt"
	"os"
	"strings"

	"verif/sqlrig"
)

func probeMain(args []string) int {
	dir, _ := os.MkdirTemp("/var/tmp", "verif-probe-")
	defer os.RemoveAll(dir)
	srv, err := sqlrig.Start(dir + "/data")
	if err != nil {
		fmt.Println("start:", err)
		return 1
	}
	defer srv.Stop()
	obs, err := installObserver()
	fmt.Println("observer:", err)
	g, err := startGmsRef()
	if err != nil {
		fmt.Println("gms:", err)
		return 1
	}
	defer g.stop()
	d := srv.MustOpen("")
	r, err := g.open("")
	if err != nil {
		fmt.Println("gms open:", err)
		return 1
	}
	both := func(q string) {
		for i, x := range []*sqlrig.Session{d, r} {
			if err := x.Exec(q); err != nil {
				fmt.Printf("voice %d: %s: %v\n", i, q, err)
			}
		}
	}
	both("create database p")
	both("use p")
	both("create table a (id int primary key, x int, s varchar(20) collate utf8mb4_0900_ai_ci, d decimal(10,3), f double, dt datetime(6), e enum('a','b','c'), key ix (x), key isx (s, x))")
	both("create table b (id int primary key, x int, y int, key ix (x))")
	both("insert into a values (1,1,'a',1.5,1.25,'2020-01-01 00:00:00.5','a'),(2,2,'A',2.5,1e10,'2020-01-02','b'),(3,NULL,'é',NULL,NULL,NULL,NULL),(4,2,'b',-0.001,-0.0,'1000-01-01','c')")
	both("insert into b values (1,1,1),(2,2,2),(3,2,3),(4,NULL,4)")
	if len(args) > 0 {
		for _, q := range args {
			for i, x := range []*sqlrig.Session{d, r} {
				rows, err := x.Query(q)
				if err != nil {
					fmt.Printf("voice %d: %v\n", i, err)
					continue
				}
				for _, row := range rows.Data {
					fmt.Printf("voice %d: %q\n", i, row)
				}
			}
			fmt.Println("built:", obs.snapshot())
		}
		return 0
	}
	for _, q := range []string{
		"select * from a where x between 1 and 2",
		"select count(*) from a",
		"select count(x) from a",
		"select /*+ LOOKUP_JOIN(a,b) */ a.id, b.id from a join b on a.x = b.x",
		"select /*+ MERGE_JOIN(a,b) */ a.id, b.id from a join b on a.x = b.x",
		"select /*+ JOIN_ORDER(b,a) LOOKUP_JOIN(b,a) */ a.id, b.id from a join b on a.x = b.x",
		"select * from a where s = 'A' and x > 1",
		"select sum(d), min(f), max(dt), sum(f), sum(x) from a",
	} {
		for i, x := range []*sqlrig.Session{d, r} {
			rows, err := x.Query(q)
			if err != nil {
				fmt.Printf("voice %d: %s: %v\n", i, q, err)
				continue
			}
			fmt.Printf("voice %d: %s -> %q\n", i, q, rows.Sorted())
		}
		rows, err := d.Query("explain plan " + q)
		if err == nil {
			fmt.Println(strings.Join(rows.Strings(), "\n"))
		} else {
			fmt.Println("explain:", err)
		}
		fmt.Println("built:", obs.snapshot())
	}
	return 0
}
