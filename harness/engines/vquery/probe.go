package vquery

import (
	"fmt"
	"os"
	"strconv"
	"strings"
	"sync"

	"verif/rig"
	"verif/sqlrig"
)

// c26CaseMain is the reproduction helper `vquery c26case <seed> <case> [@dump] [sql ...]`: it regenerates case <case>
// of seed <seed> exactly as the monitor does, loads it into a fresh dolt sql-server and the reference server, and runs
// each given statement on dolt (kvexec), dolt with kvexec bypassed, and the reference, printing rows and the plan.
// `@dump` prints the complete SQL script (DDL, rows, tag, edits) of the case for a standalone reproduction.
func c26CaseMain(args []string) int {
	if len(args) < 2 {
		fmt.Println("usage: c26case <seed> <case> [@dump] [sql ...]")
		return 2
	}
	seed, _ := strconv.ParseInt(args[0], 10, 64)
	i, _ := strconv.Atoi(args[1])
	dir, _ := os.MkdirTemp("/var/tmp", "verif-c26case-")
	defer os.RemoveAll(dir)
	c := &rig.Ctx{Seed: seed}
	r := c.SubRand("c26", i)
	db := fmt.Sprintf("c26_%d", i)
	cat := typeCatalogue()
	s := genSchema(r, db, typeCatalogue()[i%len(cat)])
	muts := make([][]string, len(s.Tables))
	for ti := range s.Tables {
		muts[ti] = s.mutate(r, ti)
	}
	commitAfter := r.Intn(2) == 0
	rest := args[2:]
	if len(rest) > 0 && rest[0] == "@dump" {
		rest = rest[1:]
		fmt.Printf("create database `%s`; use `%s`;\n", db, db)
		for _, t := range s.Tables {
			fmt.Println(t.createSQL(t.Name, true) + ";")
			fmt.Println(t.createSQL(t.Name+"_u", false) + ";")
			for _, name := range []string{t.Name, t.Name + "_u"} {
				for _, ins := range insertSQL(name, t.Old) {
					fmt.Println(ins + ";")
				}
			}
		}
		fmt.Println("call dolt_commit('-Am','v1'); call dolt_tag('v1');")
		for ti, t := range s.Tables {
			for _, st := range muts[ti] {
				for _, name := range []string{t.Name, t.Name + "_u"} {
					fmt.Println(strings.Replace(st, "{T}", name, 1) + ";")
				}
			}
		}
		if commitAfter {
			fmt.Println("call dolt_commit('-Am','v2');")
		}
	}
	if len(rest) == 0 {
		return 0
	}
	srv, err := sqlrig.Start(dir + "/data")
	if err != nil {
		fmt.Println("start:", err)
		return 1
	}
	defer srv.Stop()
	obs, err := installObserver()
	if err != nil {
		fmt.Println(err)
		return 1
	}
	ref, err := startGmsRef()
	if err != nil {
		fmt.Println("reference:", err)
		return 1
	}
	defer ref.stop()
	var smu sync.Mutex
	w := &c26worker{cnt: newCounters(), obs: obs, smu: &smu, seen: map[string]bool{}, srv: srv, ref: ref}
	w.xd, w.xb = srv.MustOpen(""), srv.MustOpen("")
	w.xg, err = ref.open("")
	if err != nil {
		fmt.Println("reference:", err)
		return 1
	}
	w.idD = connID(w.xd)
	obs.bypass(connID(w.xb))
	if err := w.setup(s, commitAfter, muts); err != nil {
		fmt.Println("setup:", err)
		return 1
	}
	for _, q := range rest {
		fmt.Println("==", q)
		for k, x := range []*sqlrig.Session{w.xd, w.xb, w.xg} {
			name := []string{"dolt", "dolt-rowexec", "reference"}[k]
			if k == 2 && strings.Contains(q, " as of ") {
				continue
			}
			rows, err := x.Query(q)
			if err != nil {
				fmt.Printf("  %s: ERROR %v\n", name, err)
				continue
			}
			fmt.Printf("  %s: %d rows\n", name, len(rows.Data))
			for _, row := range rows.Sorted() {
				fmt.Printf("    %q\n", row)
			}
		}
		if !strings.HasPrefix(strings.ToLower(q), "select") {
			continue
		}
		rows, err := w.xd.Query("explain plan " + q)
		if err == nil {
			fmt.Println("  plan:\n    " + strings.Join(rows.Strings(), "\n    "))
		}
		fmt.Println("  kvexec iterators built so far:", obs.snapshot())
	}
	return 0
}
