package vquery

import (
	"bytes"
	"context"
	"fmt"
	"os"
	"path/filepath"
	"regexp"
	"sync"

	"github.com/dolthub/dolt/go/cmd/dolt/cli"
	"github.com/dolthub/dolt/go/cmd/dolt/commands"
	"github.com/dolthub/dolt/go/cmd/dolt/commands/tblcmds"
	"github.com/dolthub/dolt/go/libraries/doltcore/doltdb"
	"github.com/dolthub/dolt/go/libraries/doltcore/env"
	"github.com/dolthub/dolt/go/libraries/utils/argparser"
	"github.com/dolthub/dolt/go/libraries/utils/config"
	"github.com/dolthub/dolt/go/libraries/utils/filesys"
)

// The dolt CLI, driven in-process: `dolt init`, `dolt dump`, `dolt sql --file`, `dolt table import` are executed
// through the very command objects cmd/dolt registers (commands.DumpCmd etc.), on a DoltEnv loaded for the working
// directory exactly as cmd/dolt/dolt.go loads it. Nothing of the dump / import code path is re-implemented here.
// The commands print through cli.CliOut / cli.CliErr, which are process-global: calls are serialised.

var cliMu sync.Mutex
var cliCalls int

var progressRe = regexp.MustCompile(`\r?Processed [0-9.]+% of the file\r?\n?`)

// doltCLI runs `dolt <args...>` with working directory dir. It returns the exit code and what the command printed.
func doltCLI(dir, home string, args ...string) (int, string) {
	cliMu.Lock()
	defer cliMu.Unlock()
	cliCalls++
	ctx := context.Background()
	if err := os.MkdirAll(dir, 0o755); err != nil {
		return 99, err.Error()
	}
	os.MkdirAll(home, 0o755)
	fs, err := filesys.LocalFilesysWithWorkingDir(dir)
	if err != nil {
		return 99, err.Error()
	}
	dEnv := env.LoadWithoutDB(ctx, func() (string, error) { return home, nil }, fs, doltdb.LocalDirDoltDB, "verif")
	if cfg, ok := dEnv.Config.GetConfig(env.GlobalConfig); ok {
		cfg.SetStrings(map[string]string{config.UserNameKey: "verif", config.UserEmailKey: "verif@example.com"})
	}
	// the real CLI runs with the repository as its working directory, and some writers (parquet) open relative paths
	// through the process cwd; calls are serialised and no server runs while the CLI phase is active
	if cwd, err := os.Getwd(); err == nil {
		defer os.Chdir(cwd)
	}
	if err := os.Chdir(dir); err != nil {
		return 99, err.Error()
	}
	var out bytes.Buffer
	oldOut, oldErr := cli.CliOut, cli.CliErr
	cli.CliOut, cli.CliErr = &out, &out
	defer func() { cli.CliOut, cli.CliErr = oldOut, oldErr }()

	var cmd cli.Command
	rest := args[1:]
	name := "dolt " + args[0]
	switch args[0] {
	case "init":
		cmd = commands.InitCmd{}
	case "dump":
		cmd = commands.DumpCmd{}
	case "sql":
		cmd = commands.SqlCmd{VersionStr: "verif"}
	case "table":
		if len(args) < 2 || args[1] != "import" {
			return 98, "unsupported table sub-command"
		}
		cmd = tblcmds.ImportCmd{}
		rest = args[2:]
		name = "dolt table import"
	default:
		return 98, "unsupported command " + args[0]
	}
	var cliCtx cli.CliContext
	if args[0] == "init" {
		latebind := func(ctx context.Context, opts ...cli.LateBindQueryistOption) (res cli.LateBindQueryistResult, err error) {
			return res, nil
		}
		c, verr := cli.NewCliContext(argparser.NewEmptyResults(), dEnv.Config, dEnv.FS, latebind)
		if verr != nil {
			return 97, verr.Verbose()
		}
		cliCtx = c
	} else {
		c, verr := commands.NewArgFreeCliContext(ctx, dEnv, dEnv.FS)
		if verr != nil {
			return 97, verr.Verbose()
		}
		cliCtx = c
	}
	code := cmd.Exec(ctx, name, rest, dEnv, cliCtx)
	return code, progressRe.ReplaceAllString(out.String(), "")
}

func mustCLI(dir, home string, args ...string) error {
	code, out := doltCLI(dir, home, args...)
	if code != 0 {
		return fmt.Errorf("dolt %v (in %s) exited %d: %s", args, filepath.Base(dir), code, truncate(out, 1500))
	}
	return nil
}
