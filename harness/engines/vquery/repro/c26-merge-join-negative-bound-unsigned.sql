-- C26: a merge-join side filter `unsigned_col > <negative literal>` is pushed into a multi-column index as the range
-- (-0.5, inf) without being normalised; dolt's range builder cannot represent the bound for an unsigned column and the
-- index scan returns no rows (kvexec and row executor alike). Single-table `where u > -0.5` is normalised to (NULL, inf) and is fine.
-- key: c26/indexed/merge_join/<dir>/int/<kind>/<oracle>/neg-literal-unsigned
-- thorough seed 1 case 100: select /*+ JOIN_ORDER(b,a) MERGE_JOIN(b,a) */ min(b.id) from t1 a join t1 b on a.c1 = b.c1 and (a.c1 > -0.5) where b.c0 = -1
--   dolt NULL (0 rows joined), reference and model 1004  (vquery c26case 1 100 "<query>")
create table tu (id int primary key, u tinyint unsigned not null, w int, key iu(u,w));
insert into tu values (1,0,0),(2,1,1),(3,255,2);
select /*+ JOIN_ORDER(a,b) MERGE_JOIN(a,b) */ a.id, b.id from tu a join tu b on a.u = b.u and (b.u > -0.5);
-- dolt: 0 rows    expected (1,1),(2,2),(3,3)   (go-mysql-server's memory engine returns 2 rows here: it is wrong too, differently)
