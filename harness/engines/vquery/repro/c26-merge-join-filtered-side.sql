-- C26: kvexec inner merge join returns no rows when one side is Filter(IndexedTableAccess) over a multi-column index
-- whose leading column is pinned only by the residual filter (the index range on it is not a point), so the index
-- order (g,x) is not the merge-key order until the filter is applied. The row executor filters first; kvexec merges first.
-- key: c26/indexed/merge_join/<dir>/<kinds>/<kind>/<oracle>/filtered-merge-side
-- (this is the minimised form of the class first seen at quick seed 7 case 37, "inner merge join on a multi-column index")
create table ma (id int primary key, g int, x int, key gx (g, x));
create table mb (id int primary key, x int, key ix (x));
insert into ma values (1,1,1),(2,1,2),(3,2,1),(4,2,2),(5,3,1);
insert into mb values (1,1),(2,2);
select /*+ JOIN_ORDER(ma,mb) MERGE_JOIN(ma,mb) */ ma.id, mb.id from ma join mb on ma.x = mb.x and ma.g = 2 where not (ma.g >= 3);
-- plan: MergeJoin(cmp ma.x = mb.x, Filter((ma.g < 3) AND (ma.g = 2)) over IndexedTableAccess(ma) index [ma.g,ma.x] filters [{(NULL, 3), [NULL, inf)}], ...)
-- dolt (kvexec): 0 rows        row executor / reference: (3,1),(4,2)
