-- C26: kvexec lookup join panics on a NULL key in a null-safe (<=>) lookup whose key covers the whole index key.
-- key: c26/indexed/lookup_join/error/<kinds>/<kind>/panic-cannot-write-null-to-non-null-field
-- stack: val.(*TupleBuilder).Build <- prolly.IncrementTuple (store/prolly/tuple_range.go:363)
--        <- index.(*covLaxSecondaryLookupGen).New (sqle/index/secondary_iter.go:194) <- kvexec.(*lookupJoinKvIter).Next
-- The row executor (same plan) and the reference engine answer 1.
create table np (c1 int not null, id int not null, primary key (c1,id), key ix(c1));
create table nq (id int primary key, c1 int);
insert into np values (1,1),(2,2);
insert into nq values (1,NULL),(2,1);
select /*+ JOIN_ORDER(nq,np) LOOKUP_JOIN(nq,np) */ count(*) from np join nq on np.c1 <=> nq.c1 where np.id = 1 and np.c1 = 1;
-- dolt: ERROR 1105 panic recovered: cannot write NULL to non-NULL field: 0        expected: 1
