-- NOT listed as a C26 violation: reference engine is wrong as well (oracle suspect). Recorded for completeness.
-- A LEFT hash join whose ON condition contains `enum_col = 'literal'` puts the literal into the hash key
-- (left-key: (ha.x, ha.y, 'b'), right-key: (hb.x, hb.y, hb.e)); on keyless tables both engines lose matches, differently.
create table ha (id int, x bigint unsigned, y bigint unsigned);
create table hb (id int, x bigint unsigned, y bigint unsigned, e enum('z','y','m','b','a') not null);
insert into ha values (1,1,1),(2,2,2),(3,3,3);
insert into hb values (1,1,1,'b'),(2,2,2,'z'),(3,3,3,'b');
select /*+ HASH_JOIN(ha,hb) */ ha.id, hb.id from ha left join hb on ha.x = hb.x and ha.y = hb.y and (hb.e = 'b') where hb.x between 0 and 7;
-- expected (1,1),(3,3); dolt: (3,3) only; go-mysql-server memory engine: (1,1) only
