#!/bin/sh
# C36: `dolt sql --file` (and `dolt sql < file`) does not recognise a `DELIMITER x` directive whose first 10 bytes
# ("delimiter ") are not all inside the bytes read so far, i.e. when the directive starts fewer than 10 bytes before a
# read boundary (4096, 8192, 16384, ... bytes into the file). StreamScanner.isDelimiterExpr
# (go/cmd/dolt/commands/sql_statement_scanner.go:224) only reads more input when s.i == 0, which holds only at the very
# start of the file; elsewhere the directive is executed as SQL together with the following statement.
# `dolt dump` writes `delimiter END_PROCEDURE` before every procedure, so whether a dump can be loaded depends on byte offsets
# (thorough seed 1, database c36_30: procedure p_simple lost; the same data in a database named `r` loads fine).
# key: c36/sql/procedure-differs/delimiter-directive-not-recognised
set -e
d=$(mktemp -d) && cd "$d" && dolt init >/dev/null
python3 - <<'PY'
off = 4090                      # "delimiter" starts 6 bytes before the first 4096-byte read boundary
s = "select '" + "x" * (off - 11) + "';\n"
s += "delimiter //\ncreate procedure p1() select 1//\ndelimiter ;\nselect 2;\n"
open("in.sql", "w").write(s)
PY
dolt sql --file in.sql >/dev/null || echo "dolt sql --file failed (syntax error near 'delimiter')"
dolt sql -q "select name from dolt_procedures"      # expected: p1 ; actual: empty. With off = 4000 it works.
