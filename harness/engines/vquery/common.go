// Package vquery holds the query-result and dump/import monitors (C26, C36) and the SQL stage of C16.
package vquery

import (
	"os"
	"time"

	"verif/rig"
)

// Register wires the vquery checks.
func Register() {
	rig.SubCommands["gmsref"] = gmsRefMain
	rig.SubCommands["c26case"] = c26CaseMain
	rig.SubCommands["c36case"] = c36CaseMain
	rig.Register(&rig.Spec{Prop: "C26", Level: "exploration", Stages: []rig.Stage{
		{Name: "differential", Fn: c26, TimeoutQuick: 20 * time.Minute, TimeoutThorough: 6 * time.Hour},
	}})
	if os.Getenv("VQUERY_DEV_C16SQL") != "" { // development only: run the C16 SQL stage standalone (the stage is wired into C16 by the owner of C16)
		rig.Register(&rig.Spec{Prop: "C16SQL", Level: "exploration", Stages: []rig.Stage{{Name: "c16sql", Fn: C16SQL, TimeoutQuick: 20 * time.Minute}}})
	}
	rig.Register(&rig.Spec{Prop: "C36", Level: "exploration", Stages: []rig.Stage{
		{Name: "roundtrip", Fn: c36, TimeoutQuick: 25 * time.Minute, TimeoutThorough: 6 * time.Hour},
	}})
}
