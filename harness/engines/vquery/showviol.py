#!/usr/bin/env python3
# dev helper: print C26 violation witnesses compactly.  usage: showviol.py <substring of key> [nrows]
import json,glob,sys
pat=sys.argv[1]; n=int(sys.argv[2]) if len(sys.argv)>2 else 4
for f in sorted(glob.glob('/verif/replay/C26/*.json')):
    d=json.load(open(f))
    if pat not in d['key']: continue
    w=d['detail']['witness']
    print('KEY',d['key'],'seed',d['seed'],w.get('replay'))
    print(' WHAT',d['what'][:300])
    print(' Q1:', w.get('query')); print(' QT:', w.get('twin_query'))
    for k in ['v1_dolt_indexed','v2_dolt_indexed_rowexec','v3_dolt_unindexed_twin','v4_reference','v5_model']:
        v=w.get(k)
        print('  ',k, (len(v) if isinstance(v,list) else v), (v[:n] if isinstance(v,list) else ''))
    print('  kv',w.get('kvexec_iter'),'kvtwin',w.get('kvexec_iter_twin'))
    for l in w.get('ddl',[]): print('  ',l)
    print('  plan:'); print('    '+'\n    '.join(w.get('plan',[])))
