package vquery

import (
	"fmt"
	"math/rand"
	"strings"
)

// ---- C36 workload: databases built through SQL -----------------------------------------------------------------------

type c36col struct {
	Name   string // unquoted
	Type   string // SQL type text (+ options)
	Family string // type family for the per-route support table
	Gen    bool   // generated column: not inserted
}

type c36table struct {
	Name  string
	Kind  string // nums | strs | bins | times | docs | keyless | parent | child
	Cols  []c36col
	Tail  string     // extra table-level clauses (keys, checks, fks)
	Rows  [][]string // SQL literals, one per non-generated column
	Order string     // ORDER BY for deterministic reads ("" = none, compare as multiset anyway)
}

func qid(s string) string { return "`" + strings.ReplaceAll(s, "`", "``") + "`" }

func (t *c36table) createSQL() string {
	var parts []string
	for _, c := range t.Cols {
		parts = append(parts, qid(c.Name)+" "+c.Type)
	}
	if t.Tail != "" {
		parts = append(parts, t.Tail)
	}
	return fmt.Sprintf("create table %s (%s)", qid(t.Name), strings.Join(parts, ", "))
}

func (t *c36table) insertSQL() []string {
	var names []string
	for _, c := range t.Cols {
		if !c.Gen {
			names = append(names, qid(c.Name))
		}
	}
	var out []string
	for _, row := range t.Rows {
		out = append(out, fmt.Sprintf("insert into %s (%s) values (%s)", qid(t.Name), strings.Join(names, ", "), strings.Join(row, ", ")))
	}
	return out
}

type c36db struct {
	Name    string
	Tables  []*c36table
	Extra   []string // views, triggers, procedures (created after the data)
	Views   []string
	Trigs   []string
	Procs   []string
	DumpArg []string // extra flags for `dolt dump` on the SQL route
}

// hostile strings (the statement's list): quotes, backslashes, NUL, newline, ^Z, LIKE wildcards, invalid-looking escapes,
// SQL comment / delimiter look-alikes, the words NULL / \N, non-BMP runes, BOM and line separators.
var hostileStrings = []string{
	"'", "\"", "`", "\\", "\x00", "\n", "\r\n", "\x1a", "%", "_", "\\q", "\\\\", "\\'", "''", "a'b\"c`d\\e", "NULL", "null", "\\N", "", " ",
	"  lead and trail  ", "line1\nline2", "tab\tsep", ",", ";", "--", "-- x", "/* c */", "#", "DELIMITER ;", "\U0001F600", "\U0001D11E\U0001D11E", "é", "ß", "ÿ",
	"\u2028", "\ufeff", "\\0", "\\n", "\\Z", "0x41", "1e5", "-0", "true", "a,b", "\"quoted\",\"csv\"", "{\"json\":\"like\"}", "x\x00y", "\\%", "\\_", "end\\",
	"'); drop table t; --", "it's", "${var}", "\x7f", "\x01\x02", "日本語", "ａ", "𝓧",
}

func longLine(r *rand.Rand, n int) string {
	var b strings.Builder
	frag := []string{"x", "lorem ", "'", "\\", "\"", "é", "\U0001F600", ",", ";", "0"}
	for b.Len() < n {
		b.WriteString(frag[r.Intn(len(frag))])
		if r.Intn(4) == 0 {
			b.WriteString(strings.Repeat("y", 50+r.Intn(500)))
		}
	}
	return b.String()
}

func pickStr(r *rand.Rand) string { return hostileStrings[r.Intn(len(hostileStrings))] }

func trunc(s string, n int) string { // truncate to n runes
	rs := []rune(s)
	if len(rs) > n {
		return string(rs[:n])
	}
	return s
}

func hexLit(b []byte) string {
	if len(b) == 0 {
		return "''"
	}
	return fmt.Sprintf("X'%X'", b)
}

func allBytes() []byte {
	b := make([]byte, 256)
	for i := range b {
		b[i] = byte(i)
	}
	return b
}

func genC36(r *rand.Rand, name string) *c36db {
	db := &c36db{Name: name}
	switch r.Intn(4) {
	case 1:
		db.DumpArg = []string{"--no-batch"}
	case 2:
		db.DumpArg = []string{"--no-autocommit"}
	}
	null := func(s string) string { // sometimes NULL
		if r.Intn(5) == 0 {
			return "NULL"
		}
		return s
	}

	// ---- nums
	nums := &c36table{Name: "nums", Kind: "nums", Order: "id"}
	nums.Cols = []c36col{
		{Name: "id", Type: "int not null auto_increment", Family: "int"},
		{Name: "c_tiny", Type: "tinyint", Family: "int"}, {Name: "c_small", Type: "smallint", Family: "int"}, {Name: "c_medium", Type: "mediumint", Family: "int"},
		{Name: "c_int", Type: "int", Family: "int"}, {Name: "c_big", Type: "bigint", Family: "int"},
		{Name: "u_tiny", Type: "tinyint unsigned", Family: "int"}, {Name: "u_big", Type: "bigint unsigned", Family: "uint64"},
		{Name: "c_dec", Type: "decimal(65,30)", Family: "decimal"}, {Name: "c_dec0", Type: "decimal(10,0)", Family: "decimal"},
		{Name: "c_float", Type: "float", Family: "float"}, {Name: "c_double", Type: "double", Family: "double"},
		{Name: "c_year", Type: "year", Family: "year"}, {Name: "c_bool", Type: "boolean", Family: "int"},
	}
	nums.Tail = "primary key (id), key ix_big (c_big), unique key ux (c_int, c_tiny)"
	nines := strings.Repeat("9", 35) + "." + strings.Repeat("9", 30)
	numRows := [][]string{
		{"-128", "-32768", "-8388608", "-2147483648", "-9223372036854775808", "0", "0", "-" + nines, "-9999999999", "-1.5e38", "-1.5e308", "b'0'", "b'0'", "b'0'", "1901", "0"},
		{"127", "32767", "8388607", "2147483647", "9223372036854775807", "255", "18446744073709551615", nines, "9999999999", "1.5e38", "1.5e308", "b'1'", "b'1111111111111111'", "b'" + strings.Repeat("1", 64) + "'", "2155", "1"},
		{"0", "0", "0", "0", "0", "1", "9223372036854775808", "0." + strings.Repeat("0", 29) + "1", "0", "1.17549435e-38", "5e-324", "b'1'", "b'0101110000100111'", "b'0010011100100010010111000000000000001010'", "0", "1"},
		{"NULL", "NULL", "NULL", "NULL", "NULL", "NULL", "NULL", "NULL", "NULL", "NULL", "NULL", "NULL", "NULL", "NULL", "NULL", "NULL"},
		{"-1", "-1", "-1", "-1", "-1", "128", "1", "-0." + strings.Repeat("0", 29) + "1", "-1", "0.1", "0.1", "b'0'", "b'0010011100100111'", "b'1'", "2000", "NULL"},
		{"1", "1", "1", "7", "1", "2", "2", "1.5", "2", "-0.0", "1e-7", "b'1'", "b'0000000000001010'", "b'0000000000000000'", "1999", "0"},
	}
	bits := &c36table{Name: "bits", Kind: "bits", Order: "id"}
	bits.Cols = []c36col{{Name: "id", Type: "int not null", Family: "int"}, {Name: "c_bit1", Type: "bit(1)", Family: "bit"}, {Name: "c_bit16", Type: "bit(16)", Family: "bit"}, {Name: "c_bit64", Type: "bit(64)", Family: "bit"}}
	bits.Tail = "primary key (id)"
	for i, row := range numRows {
		// the three bit values live in their own table (a route that cannot load BIT must not hide the other numeric types)
		bits.Rows = append(bits.Rows, append([]string{fmt.Sprint(i + 1)}, row[11:14]...))
		rest := append(append([]string{}, row[:11]...), row[14:]...)
		nums.Rows = append(nums.Rows, append([]string{"NULL"}, rest...)) // id generated by auto_increment
	}
	// the largest finite float / double in their own table (so that a route failing on them does not hide the other numerics)
	ext := &c36table{Name: "extremes", Kind: "extremes", Order: "id"}
	ext.Cols = []c36col{{Name: "id", Type: "int not null", Family: "int"}, {Name: "c_float", Type: "float", Family: "float_max"}, {Name: "c_double", Type: "double", Family: "double_max"}}
	ext.Tail = "primary key (id)"
	ext.Rows = [][]string{{"1", "3.4028234e38", "1.7976931348623157e308"}, {"2", "-3.4028234e38", "-1.7976931348623157e308"}, {"3", "1.17549435e-38", "2.2250738585072014e-308"}}
	db.Tables = append(db.Tables, nums, ext)
	if r.Intn(2) == 0 { // BIT columns in half of the databases
		db.Tables = append(db.Tables, bits)
	}

	// ---- strs
	strs := &c36table{Name: "strs", Kind: "strs", Order: "id"}
	strs.Cols = []c36col{
		{Name: "id", Type: "int not null", Family: "int"},
		{Name: "k", Type: "varchar(64) collate utf8mb4_0900_bin not null", Family: "string_notnull"},
		{Name: "c_char", Type: "char(12)", Family: "char"},
		{Name: "v", Type: "varchar(255)", Family: "string"},
		{Name: "v_ci", Type: "varchar(255) collate utf8mb4_0900_ai_ci", Family: "string"},
		{Name: "v_nn", Type: "varchar(255) not null", Family: "string_notnull"},
		{Name: "select", Type: "tinytext", Family: "string"},
		{Name: "my col", Type: "text", Family: "string"},
		{Name: "c_medium", Type: "mediumtext", Family: "string"},
		{Name: "c_long", Type: "longtext", Family: "string"},
		{Name: "c_enum", Type: "enum('x','it''s','semi;colon','back\\\\slash','','ÿ')", Family: "enum"},
		{Name: "c_set", Type: "set('a','b''c','d e','\"q\"')", Family: "set"},
	}
	strs.Tail = "primary key (id), unique key uk (k), key ix_v (v(10)), key ix_txt (`my col`(8))"
	enumVals := []string{"'x'", "'it''s'", "'semi;colon'", "''", "'ÿ'", "NULL"}
	setVals := []string{"''", "'a'", "'a,b''c'", "'d e,\"q\"'", "'a,b''c,d e,\"q\"'", "NULL"}
	nStr := 24 + r.Intn(16)
	for i := 0; i < nStr; i++ {
		var v func() string
		switch i {
		case 0: // NULL vs 'NULL' vs empty
			v = func() string { return "NULL" }
		case 1:
			v = func() string { return "'NULL'" }
		case 2:
			v = func() string { return "''" }
		default:
			v = func() string { return null(sqlQuote(pickStr(r))) }
		}
		key := fmt.Sprintf("k%03d-%s", i, trunc(hostileStrings[i%len(hostileStrings)], 40))
		nn := sqlQuote(pickStr(r))
		if i == 2 {
			nn = "''"
		}
		long := v()
		if i%7 == 3 {
			long = sqlQuote(longLine(r, []int{3000, 70000, 300000}[r.Intn(3)]))
		}
		med := v()
		if i%9 == 4 {
			med = sqlQuote(longLine(r, 20000))
		}
		tiny := v()
		if tiny != "NULL" && len(tiny) > 200 {
			tiny = "'t'"
		}
		ch := null(sqlQuote(trunc(strings.TrimRight(pickStr(r), " "), 12)))
		strs.Rows = append(strs.Rows, []string{fmt.Sprint(i + 1), sqlQuote(key), ch, v(), v(), nn, tiny, v(), med, long,
			enumVals[r.Intn(len(enumVals))], setVals[r.Intn(len(setVals))]})
	}
	db.Tables = append(db.Tables, strs)

	// ---- bins
	bins := &c36table{Name: "bins", Kind: "bins", Order: "id"}
	bins.Cols = []c36col{
		{Name: "id", Type: "int not null", Family: "int"},
		{Name: "c_bin", Type: "binary(8)", Family: "binary"},
		{Name: "c_varbin", Type: "varbinary(300)", Family: "binary"},
		{Name: "c_tinyblob", Type: "tinyblob", Family: "binary"},
		{Name: "c_blob", Type: "blob", Family: "binary"},
		{Name: "c_mediumblob", Type: "mediumblob", Family: "binary"},
		{Name: "c_longblob", Type: "longblob", Family: "binary"},
	}
	bins.Tail = "primary key (id), key ix_vb (c_varbin)"
	byteVals := [][]byte{allBytes(), {}, {0}, {0, 0, 0}, {'\''}, {'\\'}, {'\\', '\''}, {0xff, 0xfe}, {0xc3, 0x28}, {0xf0, 0x9f, 0x98}, []byte("NULL"), []byte("\\N"), {0x1a}, {'\n'}, {'\r', '\n'},
		[]byte("plain ascii"), {0x80}, {'a', 0, 'b'}, []byte("0x4142"), []byte("X'41'")}
	pickB := func(max int) string {
		if r.Intn(6) == 0 {
			return "NULL"
		}
		b := byteVals[r.Intn(len(byteVals))]
		if len(b) > max {
			b = b[:max]
		}
		return hexLit(b)
	}
	for i := 0; i < 14+r.Intn(10); i++ {
		row := []string{fmt.Sprint(i + 1), pickB(8), pickB(300), pickB(255), pickB(60000), pickB(1 << 20), pickB(1 << 20)}
		switch i {
		case 0:
			row = []string{"1", hexLit([]byte{0, 1, 2, 3, 4, 5, 6, 7}), hexLit(allBytes()), hexLit(allBytes()[:255]), hexLit(allBytes()), hexLit(allBytes()), hexLit(allBytes())}
		case 1:
			row = []string{"2", "NULL", "NULL", "NULL", "NULL", "NULL", "NULL"}
		case 2:
			row = []string{"3", hexLit([]byte{0, 0, 0, 0, 0, 0, 0, 0}), "''", "''", "''", "''", "''"}
		case 3:
			big := make([]byte, 150000)
			r.Read(big)
			row = []string{"4", hexLit([]byte("NULL\x00\x00\x00\x00")), hexLit([]byte("NULL")), hexLit([]byte("NULL")), hexLit(big[:60000]), hexLit(big), hexLit(big[:100])}
		}
		bins.Rows = append(bins.Rows, row)
	}
	db.Tables = append(db.Tables, bins)

	// ---- times
	times := &c36table{Name: "times", Kind: "times", Order: "id"}
	times.Cols = []c36col{
		{Name: "id", Type: "int not null", Family: "int"},
		{Name: "c_date", Type: "date", Family: "date"}, {Name: "c_dt", Type: "datetime", Family: "datetime"}, {Name: "c_dt6", Type: "datetime(6)", Family: "datetime6"},
		{Name: "c_ts", Type: "timestamp null", Family: "timestamp"}, {Name: "c_ts6", Type: "timestamp(6) null", Family: "timestamp6"},
		{Name: "c_time", Type: "time", Family: "time"}, {Name: "c_time6", Type: "time(6)", Family: "time6"},
	}
	times.Tail = "primary key (id), key ix_dt (c_dt6)"
	times.Rows = [][]string{
		{"1", "'1000-01-01'", "'1000-01-01 00:00:00'", "'1000-01-01 00:00:00.000000'", "'1970-01-01 00:00:01'", "'1970-01-01 00:00:01.000000'", "'-838:59:59'", "'-838:59:59.000000'"},
		{"2", "'9999-12-31'", "'9999-12-31 23:59:59'", "'9999-12-31 23:59:59.999999'", "'2038-01-19 03:14:07'", "'2038-01-19 03:14:07.999999'", "'838:59:59'", "'838:59:59.000000'"},
		{"3", "NULL", "NULL", "NULL", "NULL", "NULL", "NULL", "NULL"},
		{"4", "'2024-02-29'", "'2024-02-29 12:34:56'", "'2024-02-29 12:34:56.000001'", "'2024-02-29 12:34:56'", "'2024-02-29 12:34:56.100000'", "'00:00:00'", "'12:34:56.789012'"},
		{"5", "'1000-01-01'", "'1000-01-01 00:00:01'", "'1000-01-01 00:00:00.000001'", "'2000-01-01 00:00:00'", "'2000-01-01 00:00:00.000001'", "'-00:00:01'", "'-00:00:00.000001'"},
	}
	// years below 1000 (accepted by dolt, outside MySQL's documented range) in their own table
	early := &c36table{Name: "times_early", Kind: "times_early", Order: "id"}
	early.Cols = []c36col{{Name: "id", Type: "int not null", Family: "int"}, {Name: "c_date", Type: "date", Family: "date_early"}, {Name: "c_dt6", Type: "datetime(6)", Family: "date_early"}}
	early.Tail = "primary key (id)"
	early.Rows = [][]string{{"1", "'0001-01-01'", "'0001-01-01 00:00:00.000001'"}, {"2", "'0999-12-31'", "'0999-12-31 23:59:59.999999'"}}
	db.Tables = append(db.Tables, times, early)

	// ---- docs (JSON)
	docs := &c36table{Name: "docs", Kind: "docs", Order: "id"}
	docs.Cols = []c36col{{Name: "id", Type: "int not null", Family: "int"}, {Name: "j", Type: "json", Family: "json"}, {Name: "note", Type: "varchar(40) not null", Family: "string_notnull"}}
	docs.Tail = "primary key (id)"
	jsonDocs := []string{
		`{"a": "\"quoted\" \\ back / slash \n nl \t tab \u0001 ctl", "b": [1, 2.5, null, true, false], "c": {}}`,
		`"just a 'string' with \\'"`, `null`, `[]`, `{}`, `0`, `-1.5e300`, `12345678901234567890`, `[[[[[[[[[[1]]]]]]]]]]`,
		`{"": "", " ": " ", "k'ey": "v'al", "k\"ey": "v\"al", "emoji": "😀", "esc": "😀", "nul": "a\u0000b"}`,
		`{"sql": "'); drop table docs; --", "semi": ";", "dash": "--", "hash": "#", "pct": "%_"}`,
		`{"big": "` + strings.Repeat("z", 5000) + `"}`,
	}
	for i, d := range jsonDocs {
		docs.Rows = append(docs.Rows, []string{fmt.Sprint(i + 1), sqlQuote(d), sqlQuote(fmt.Sprintf("doc %d", i))})
	}
	docs.Rows = append(docs.Rows, []string{"100", "NULL", "'sql null'"})
	db.Tables = append(db.Tables, docs)

	// ---- keyless with duplicates
	kl := &c36table{Name: "kl dup", Kind: "keyless"}
	kl.Cols = []c36col{{Name: "a", Type: "int", Family: "int"}, {Name: "b", Type: "varchar(50)", Family: "string"}, {Name: "c", Type: "varbinary(20)", Family: "binary"}}
	for i := 0; i < 10; i++ {
		row := []string{null(fmt.Sprint(r.Intn(3))), null(sqlQuote(pickStr(r))), null(hexLit(byteVals[2+r.Intn(8)]))}
		for n := 1 + r.Intn(3); n > 0; n-- {
			kl.Rows = append(kl.Rows, row)
		}
	}
	db.Tables = append(db.Tables, kl)

	// ---- parent / child: FKs (child sorts before parent), generated columns, defaults, checks
	parent := &c36table{Name: "z_parent", Kind: "parent", Order: "id"}
	parent.Cols = []c36col{
		{Name: "id", Type: "int not null", Family: "int"},
		{Name: "code", Type: "varchar(20) not null comment 'it''s a \"code\"; with \\\\ and `tick`'", Family: "string_notnull"},
		{Name: "n", Type: "int not null default 7", Family: "int"},
		{Name: "v", Type: "varchar(30) default 'it''s \\\\ \"d\"'", Family: "string"},
		{Name: "e", Type: "varchar(30) default (concat('a', '''', 'b'))", Family: "string"},
		{Name: "created", Type: "datetime default '2001-02-03 04:05:06'", Family: "datetime"},
		{Name: "g", Type: "int generated always as (n * 2) stored", Family: "int", Gen: true},
		{Name: "gv", Type: "varchar(40) generated always as (concat(code, '!''')) virtual", Family: "string", Gen: true},
	}
	parent.Tail = "primary key (id), unique key uk_code (code), constraint chk_n check (n >= 0), constraint `chk q` check (code <> 'it''s')"
	for i := 0; i < 6; i++ {
		v := "default"
		if i%2 == 0 {
			v = null(sqlQuote(trunc(pickStr(r), 30)))
		}
		parent.Rows = append(parent.Rows, []string{fmt.Sprint(i + 1), sqlQuote(fmt.Sprintf("c%d%s", i, trunc(pickStr(r), 10))), fmt.Sprint(i * 3), v, "default", "default"})
	}
	child := &c36table{Name: "a_child", Kind: "child", Order: "id"}
	child.Cols = []c36col{
		{Name: "id", Type: "int not null auto_increment", Family: "int"},
		{Name: "pid", Type: "int", Family: "int"},
		{Name: "pcode", Type: "varchar(20)", Family: "string"},
		{Name: "self", Type: "int", Family: "int"},
		{Name: "note", Type: "text", Family: "string"},
	}
	child.Tail = "primary key (id), key ix_pid (pid), constraint fk_p foreign key (pid) references z_parent (id) on delete cascade, " +
		"constraint `fk code` foreign key (pcode) references z_parent (code) on update cascade, constraint fk_self foreign key (self) references a_child (id)"
	for i := 0; i < 8; i++ {
		pid := fmt.Sprint(1 + r.Intn(6))
		self := "NULL"
		if i > 0 && r.Intn(2) == 0 {
			self = fmt.Sprint(1 + r.Intn(i))
		}
		child.Rows = append(child.Rows, []string{fmt.Sprint(i + 1), null(pid), "NULL", self, null(sqlQuote(pickStr(r)))})
	}
	db.Tables = append(db.Tables, parent, child)

	// ---- views, triggers, procedures
	db.Views = []string{"v_plain", "v quote"}
	db.Extra = append(db.Extra,
		"create view v_plain as select id, c_int + 1 as n from nums where c_int is not null",
		"create view `v quote` as select id, concat(v, ' ''q'' \"d\" \\\\ ; -- not a comment') as c from strs where v <> ';' or v like '\\%%'",
	)
	db.Trigs = []string{"trg_ins", "trg_blk"}
	db.Extra = append(db.Extra,
		"create trigger trg_ins before insert on z_parent for each row set new.n = coalesce(new.n, 0) + 0",
		"create trigger trg_blk before update on z_parent for each row begin if new.n < 0 then set new.n = 0; end if; set new.v = concat(coalesce(new.v, ''), ';''x'); end",
	)
	db.Procs = []string{"p_simple", "p_blk"}
	db.Extra = append(db.Extra,
		"create procedure p_simple(x int) select x + 1 as y, 'a;b''c' as s",
		"create procedure p_blk(in x int, out y varchar(50)) begin declare s varchar(50); set s = 'semi; quote'' back\\\\ -- dash'; if x > 0 then set y = concat(s, x); else set y = s; end if; end",
	)
	return db
}

func (db *c36db) table(name string) *c36table {
	for _, t := range db.Tables {
		if t.Name == name {
			return t
		}
	}
	return nil
}
