package vrepo

import (
	"fmt"
	"os"
	"path/filepath"
	"sort"
	"strings"
	"sync"

	"verif/rig"
	"verif/sqlrig"
)

// ---------------------------------------------------------------------------------------------------------------
// C35, stage "interrupted" (fault enumeration): the transferring process SIGKILLs itself at the N-th hit of a
// storage boundary (verifhook kill, armed in the child right before the transfer statement), for every N until the
// transfer survives.
//
//   push  : a child server on a copy of the source directory pushes main, b1 (existing at the remote, older), bnew and a
//           tag (new) to a copy of the remote. Afterwards the remote must open, every head must be the OLD or the NEW
//           one, the whole store closure must be complete, a fresh clone must read fully; a retry (no hooks) must
//           succeed and converge: remote heads = source heads, every commit reads the same in a clone as at the source.
//   clone : a child server clones the complete remote and is killed; the remote (source of the transfer) must be
//           byte-for-byte unchanged and a fresh clone must succeed and equal the source.
//   fetch : a child server holding an older clone fetches and is killed; its directory must open, every ref must be
//           old or new and fully readable, a retry (pull) must converge; the remote must be unchanged.

var c35pushKinds = []string{"persist.afterRename", "manifest.beforeRename", "manifest.afterRename", "nbs.commit.afterManifestUpdate", "datas.update.beforeCommit"}
var c35pullKinds = []string{"persist.afterRename", "manifest.afterRename", "journal.afterSync"}

func c35interrupted(c *rig.Ctx) {
	c.Rule("one seeded source repository (400-800 rows, branches, tags, optional schema change) in its own server directory, pushed in an OLD " +
		"state to a file remote, then advanced (new commits on main and b1, new branch bnew, new tag). For every boundary kind " +
		"(persist.afterRename = table file landed, manifest.beforeRename / afterRename, nbs.commit.afterManifestUpdate, " +
		"datas.update.beforeCommit; for clone/fetch also journal.afterSync of the destination) and every N = 1.. until the transfer survives, " +
		"a child server process runs the transfer on private copies of the directories and SIGKILLs itself at the N-th hit. " +
		"distinct = (transfer, boundary kind, N, step that was interrupted)")
	c.Assume("kill points are the hook call sites compiled into dolt with the verif tag; a SIGKILL loses no written data (page cache survives), so this enumerates process crashes, not power loss (C03/C05 cover that)")
	tl := newTally()
	for rep := 0; rep < c.Pick(1, 3); rep++ {
		c35interruptedRep(c, rep, tl)
	}
	tl.flush(c)
	var kinds []string
	for _, k := range c35pushKinds {
		if tl.get("c35.kills.push."+k) == 0 {
			kinds = append(kinds, k)
		}
	}
	sort.Strings(kinds)
	c.Require(tl.get("c35.kills.push") > 0, "no push was interrupted")
	c.Require(tl.get("c35.kills.push.persist.afterRename") > 0, "no push was interrupted at a table-file boundary")
	c.Require(tl.get("c35.kills.push.manifest.afterRename")+tl.get("c35.kills.push.manifest.beforeRename") > 0, "no push was interrupted at a manifest boundary")
	c.Require(tl.get("c35.kills.clone") > 0, "no clone was interrupted")
	c.Require(tl.get("c35.kills.fetch") > 0, "no fetch was interrupted")
	if len(kinds) > 0 {
		c.Note("push boundary kinds never hit: " + strings.Join(kinds, ","))
	}
}

// c35interruptedRep runs the whole enumeration for the rep-th seeded source repository.
func c35interruptedRep(c *rig.Ctx, rep int, tl *tally) {
	dir := c.TempDir("c35i")
	defer os.RemoveAll(dir)
	var vmu sync.Mutex
	viol := func(key, what string, w any) {
		vmu.Lock()
		c.Violation(key, what, w)
		vmu.Unlock()
	}
	r := c.SubRand("c35i", rep)
	h := genC35(r, true)
	srcDir, remOld, remNew := filepath.Join(dir, "src"), filepath.Join(dir, "rem-old"), filepath.Join(dir, "rem-new")

	// --- build the source (OLD state pushed to rem-old, then advanced)
	var steps []childStep
	steps = append(steps, childStep{SQL: "create database p"})
	first := true
	for _, q := range h.Stmts {
		if strings.Contains(q, "dolt_tag") {
			continue
		}
		st := childStep{SQL: q}
		if first {
			st.DB = "p"
			first = false
		}
		steps = append(steps, st)
	}
	steps = append(steps,
		childStep{SQL: "call dolt_remote('add','origin','file://" + remOld + "')"},
		childStep{SQL: "call dolt_push('origin','main')"},
		childStep{SQL: "call dolt_push('origin','b1')"},
		childStep{SQL: "call dolt_tag('told','main')"},
		childStep{SQL: "call dolt_push('origin','told')"})
	oldFPStep := len(steps)
	steps = append(steps, childStep{FP: "p"})
	// advance
	var vals []string
	for k := 0; k < 300; k++ {
		vals = append(vals, fmt.Sprintf("(%d,%d,'%s')", 2_000_000+k, r.Intn(100), randStr(r, 50+r.Intn(100))))
	}
	steps = append(steps,
		childStep{SQL: "insert into t0 (pk,a,b) values " + strings.Join(vals, ",")},
		childStep{SQL: "update t0 set a = a + 1 where pk % 3 = 0"},
		childStep{SQL: "call dolt_commit('-Am','main-new-1')"},
		childStep{SQL: "delete from t0 where pk % 11 = 0"},
		childStep{SQL: "call dolt_commit('-Am','main-new-2')"},
		childStep{SQL: "call dolt_checkout('b1')"},
		childStep{SQL: fmt.Sprintf("insert into t0 (pk,a,b) values (3000000,1,'%s'),(3000001,2,'%s')", randStr(r, 150), randStr(r, 150))},
		childStep{SQL: "call dolt_commit('-Am','b1-new')"},
		childStep{SQL: "call dolt_checkout('-b','bnew','main')"},
		childStep{SQL: fmt.Sprintf("insert into t0 (pk,a,b) values (4000000,1,'%s')", randStr(r, 180))},
		childStep{SQL: "call dolt_commit('-Am','bnew-1')"},
		childStep{SQL: "call dolt_checkout('main')"},
		childStep{SQL: "call dolt_tag('tnew','bnew','-m','new tag')"})
	newFPStep := len(steps)
	steps = append(steps, childStep{FP: "p", Graph: "main,b1,bnew"})
	c.Case(fmt.Sprintf("c35/interrupted/%d/build-source", rep), map[string]any{"steps": steps})
	o := runChild(c, srcDir, "", steps)
	for _, rr := range o.Results {
		if rr.Err != "" {
			c.Inconclusive(fmt.Sprintf("building the source repository failed at step %d (%s): %s", rr.Step, trunc(steps[max(rr.Step, 0)].SQL, 80), rr.Err))
			return
		}
	}
	if o.result(newFPStep) == nil || o.result(oldFPStep) == nil {
		c.Inconclusive("building the source repository did not finish: " + trunc(o.Log, 500))
		return
	}
	oldFP, newFP := o.result(oldFPStep).FP, o.result(newFPStep).FP
	heads := func(fp sqlrig.Fingerprint) map[string]string {
		m := map[string]string{}
		for _, line := range strings.Split(fp["branches"], "\n") {
			if f := strings.Split(line, "\x1f"); len(f) == 2 {
				m["heads/"+f[0]] = f[1]
			}
		}
		return m
	}
	oldHeads, newHeads := heads(oldFP), heads(newFP)
	if len(newHeads) < 3 || newHeads["heads/main"] == oldHeads["heads/main"] {
		c.Inconclusive(fmt.Sprintf("source heads not as planned: old %v new %v", oldHeads, newHeads))
		return
	}
	srcGraph := graphKeys(newFP)

	// the parent's own server: fresh clones of the remotes are read here
	psrv, err := sqlrig.Start(filepath.Join(dir, "pdata"))
	rig.Must(err)
	defer psrv.Stop()
	var cloneSeq int
	var cmu sync.Mutex
	// cloneAndRead clones the remote directory into the parent's server and reads everything; it returns the
	// unreadable components, the branch heads as the clone sees them, and the graph fingerprint of the given heads.
	cloneAndRead := func(remDir string) (errs []string, rheads map[string]string, g sqlrig.Fingerprint, cerr error) {
		cmu.Lock()
		cloneSeq++
		name := fmt.Sprintf("k%d", cloneSeq)
		cmu.Unlock()
		x, err := psrv.Open("")
		if err != nil {
			return nil, nil, nil, err
		}
		defer x.Close()
		if err := script(x, "call dolt_clone('file://"+remDir+"','"+name+"')"); err != nil {
			return nil, nil, nil, err
		}
		fp := sqlrig.TakeFingerprint(x, name, sqlrig.FingerprintOptions{})
		g = sqlrig.Fingerprint{}
		done := map[string]bool{}
		rheads, _ = remoteBranchHeads(x, name)
		for _, hh := range rheads {
			commitGraphFingerprint(x, name, hh, g, done)
		}
		errs = append(fpErrors(fp), fpErrors(g)...)
		// re-key g/<hash> by branch name so that it compares with the child's g/<name>
		for b, hh := range rheads {
			if v, ok := g["g/"+hh]; ok {
				g["g/"+strings.TrimPrefix(b, "origin/")] = v
			}
		}
		for _, hh := range rheads {
			delete(g, "g/"+hh)
		}
		x.Exec("use mysql")
		x.Exec("drop database " + name)
		return errs, rheads, g, nil
	}

	// --- control: the uninterrupted push gives rem-new (also the source of the clone / fetch cases)
	pushSteps := func(rem string) []childStep {
		return []childStep{
			{DB: "p", SQL: "call dolt_remote('remove','origin')"},
			{SQL: "call dolt_remote('add','origin','file://" + rem + "')"},
			{SQL: "call dolt_push('origin','main')"},
			{SQL: "call dolt_push('origin','b1')"},
			{SQL: "call dolt_push('origin','bnew')"},
			{SQL: "call dolt_push('origin','tnew')"},
		}
	}
	rig.Must(copyDir(remOld, remNew))
	ctlSrc := filepath.Join(dir, "src-ctl")
	rig.Must(copyDir(srcDir, ctlSrc))
	c.Case(fmt.Sprintf("c35/interrupted/%d/control-push", rep), nil)
	oc := runChild(c, ctlSrc, "", pushSteps(remNew))
	for _, rr := range oc.Results {
		if rr.Err != "" && rr.Step >= 2 {
			viol("c35/push/error", fmt.Sprintf("uninterrupted push step %d failed: %s", rr.Step, rr.Err), nil)
			return
		}
	}
	checkConverged := func(tag, remDir string, wit any) bool {
		v := viewRemote(remDir)
		if v.Err != "" {
			viol("c35/interrupted/"+tag+"/remote-unopenable", "remote cannot be opened: "+v.Err, wit)
			return false
		}
		ok := true
		for b, hh := range newHeads {
			if b == "heads/b2" || b == "heads/b3" {
				continue // never pushed
			}
			if v.Heads[b] != hh {
				viol("c35/interrupted/"+tag+"/not-converged", fmt.Sprintf("after the retry the remote's %s is %q, the source's is %s", b, v.Heads[b], hh), wit)
				ok = false
			}
		}
		if rep := sqlrig.WalkClosure(v.ddb, nil, false); len(rep.Problems) > 0 {
			viol("c35/interrupted/"+tag+"/remote-closure", fmt.Sprintf("remote has dangling or altered chunks: %v", rep.Problems), wit)
			ok = false
		}
		errs, _, g, err := cloneAndRead(remDir)
		if err != nil {
			viol("c35/interrupted/"+tag+"/clone-failed", "a fresh clone of the remote failed: "+err.Error(), wit)
			return false
		}
		if len(errs) > 0 {
			viol("c35/interrupted/"+tag+"/unreadable", fmt.Sprintf("a fresh clone of the remote has unreadable components: %v", errs), wit)
			ok = false
		}
		if d := srcGraph.Diff(g); len(d) > 0 {
			viol("c35/interrupted/"+tag+"/differs", fmt.Sprintf("a fresh clone of the remote reads differently than the source: %s", trunc(d[0], 400)), map[string]any{"case": wit, "diff": d})
			ok = false
		}
		return ok
	}
	if !checkConverged("control", remNew, nil) {
		return
	}
	tl.inc("c35.control_push_converged")
	remNewListing := dirListing(remNew)

	type job struct {
		transfer, kind string
		n              int
	}
	maxN := c.Pick(4, 60)
	workers := 8

	// enumerate runs fn for N = 1.. per kind (kinds in parallel, N sequential so that we stop at the first survivor)
	enumerate := func(transfer string, kinds []string, fn func(j job, base string) (killed bool)) {
		var wg sync.WaitGroup
		sem := make(chan struct{}, workers)
		for _, kind := range kinds {
			wg.Add(1)
			go func(kind string) {
				defer wg.Done()
				for n := 1; n <= maxN; n++ {
					sem <- struct{}{}
					j := job{transfer, kind, n}
					base := filepath.Join(dir, fmt.Sprintf("%s-%s-%d", transfer, strings.ReplaceAll(kind, ".", "_"), n))
					os.MkdirAll(base, 0o755)
					vmu.Lock()
					c.Case(fmt.Sprintf("c35/interrupted/%d/%s/%s@%d", rep, transfer, kind, n), map[string]any{"transfer": transfer, "hook": fmt.Sprintf("%s=kill@%d", kind, n)})
					vmu.Unlock()
					killed := fn(j, base)
					os.RemoveAll(base)
					<-sem
					if !killed {
						tl.inc("c35.enumeration_exhausted." + transfer + "." + kind)
						break
					}
					tl.inc("c35.kills." + transfer)
					tl.inc("c35.kills." + transfer + "." + kind)
				}
			}(kind)
		}
		wg.Wait()
	}

	// --- interrupted push
	enumerate("push", c35pushKinds, func(j job, base string) bool {
		src, rem := filepath.Join(base, "src"), filepath.Join(base, "rem")
		rig.Must(copyDir(srcDir, src))
		rig.Must(copyDir(remOld, rem))
		ps := pushSteps(rem)
		ps[2].Hooks = fmt.Sprintf("%s=kill@%d", j.kind, j.n)
		o := runChild(c, src, "", ps)
		wit := map[string]any{"transfer": "push", "hook": ps[2].Hooks, "steps": ps, "interrupted_step": o.LastStep, "build": fmt.Sprintf("see case c35/interrupted/%d/build-source", rep)}
		if !o.Killed {
			return false
		}
		vmu.Lock()
		c.Distinct(fmt.Sprintf("c35i/%d/push/%s/%d/step%d", rep, j.kind, j.n, o.LastStep))
		vmu.Unlock()
		tl.inc(fmt.Sprintf("c35.push_killed_in_step.%d", o.LastStep))
		// 1. the remote after the crash
		v := viewRemote(rem)
		if v.Err != "" {
			viol("c35/interrupted/push/remote-unopenable", "after an interrupted push the remote cannot be opened: "+v.Err, wit)
			return true
		}
		for name, got := range v.Heads {
			o, n := oldHeads[name], newHeads[name]
			if strings.HasPrefix(name, "tags/") {
				continue
			}
			if got != o && got != n {
				viol("c35/interrupted/push/ref-neither-old-nor-new", fmt.Sprintf("after an interrupted push the remote's %s is %s (old %q, new %q)", name, got, o, n), wit)
			}
		}
		for name, o := range oldHeads {
			if (name == "heads/main" || name == "heads/b1") && v.Heads[name] == "" {
				viol("c35/interrupted/push/ref-lost", fmt.Sprintf("after an interrupted push the remote lost %s (was %s)", name, o), wit)
			}
		}
		if rep := sqlrig.WalkClosure(v.ddb, nil, false); len(rep.Problems) > 0 {
			viol("c35/interrupted/push/dangling", fmt.Sprintf("after an interrupted push a remote ref points at missing data: %v", rep.Problems), wit)
		} else {
			tl.add("c35.interrupted_remote_chunks_walked", rep.Chunks)
		}
		if errs, _, _, err := cloneAndRead(rem); err != nil {
			viol("c35/interrupted/push/clone-failed", "after an interrupted push a fresh clone of the remote fails: "+err.Error(), wit)
		} else if len(errs) > 0 {
			viol("c35/interrupted/push/unreadable", fmt.Sprintf("after an interrupted push a fresh clone has unreadable components: %v", errs), wit)
		}
		// 2. retry from the crashed source directory
		rs := pushSteps(rem)
		rs = append(rs, childStep{FP: "p", Graph: "main,b1,bnew"})
		o2 := runChild(c, src, "", rs)
		if o2.Killed || o2.result(len(rs)-1) == nil {
			viol("c35/interrupted/push/source-unopenable", "after an interrupted push the SOURCE server directory cannot be served again: "+trunc(o2.Log, 600), wit)
			return true
		}
		for _, rr := range o2.Results {
			if rr.Err != "" && rr.Step >= 2 && rr.Step < len(rs)-1 && !strings.Contains(rr.Err, "up to date") && !strings.Contains(rr.Err, "up-to-date") {
				viol("c35/interrupted/push/retry-failed", fmt.Sprintf("retrying the interrupted push failed at step %d (%s): %s", rr.Step, rs[rr.Step].SQL, rr.Err), wit)
				return true
			}
		}
		if d := srcGraph.Diff(graphKeys(o2.result(len(rs) - 1).FP)); len(d) > 0 {
			viol("c35/interrupted/push/source-changed", "the source repository reads differently after its push was interrupted: "+trunc(d[0], 300), wit)
		}
		if checkConverged("push", rem, wit) {
			tl.inc("c35.interrupted_push_retry_converged")
		}
		return true
	})

	// --- interrupted clone (the killed process is the destination)
	enumerate("clone", c35pullKinds, func(j job, base string) bool {
		dst := filepath.Join(base, "dst")
		cs := []childStep{{SQL: "call dolt_clone('file://" + remNew + "','c')", Hooks: fmt.Sprintf("%s=kill@%d", j.kind, j.n)}}
		o := runChild(c, dst, "", cs)
		wit := map[string]any{"transfer": "clone", "hook": cs[0].Hooks, "remote": "result of the control push"}
		if !o.Killed {
			if rr := o.result(0); rr != nil && rr.Err != "" {
				viol("c35/clone/error", "uninterrupted clone failed: "+rr.Err, wit)
			}
			return false
		}
		vmu.Lock()
		c.Distinct(fmt.Sprintf("c35i/%d/clone/%s/%d", rep, j.kind, j.n))
		vmu.Unlock()
		if l := dirListing(remNew); l != remNewListing {
			viol("c35/interrupted/clone/source-changed", "the files of the remote changed while a clone of it was interrupted", map[string]any{"case": wit, "before": remNewListing, "after": l})
		}
		return true
	})
	if tl.get("c35.kills.clone") > 0 {
		if checkConverged("clone", remNew, "after all interrupted clones") {
			tl.inc("c35.source_intact_after_interrupted_clones")
		}
	}

	// --- interrupted fetch: an older clone (of rem-old) fetches from rem-new
	oldClone := filepath.Join(dir, "oldclone")
	c.Case(fmt.Sprintf("c35/interrupted/%d/build-old-clone", rep), nil)
	ocl := runChild(c, oldClone, "", []childStep{{SQL: "call dolt_clone('file://" + remOld + "','c')"}})
	if rr := ocl.result(0); rr == nil || rr.Err != "" {
		c.Note("building the old clone failed; fetch cases skipped: " + trunc(ocl.Log, 300))
	} else {
		fetchSteps := func() []childStep {
			return []childStep{
				{DB: "c", SQL: "call dolt_remote('remove','origin')"},
				{SQL: "call dolt_remote('add','origin','file://" + remNew + "')"},
				{SQL: "call dolt_fetch('origin')"},
			}
		}
		enumerate("fetch", c35pullKinds, func(j job, base string) bool {
			dst := filepath.Join(base, "dst")
			rig.Must(copyDir(oldClone, dst))
			fs := fetchSteps()
			fs[2].Hooks = fmt.Sprintf("%s=kill@%d", j.kind, j.n)
			o := runChild(c, dst, "", fs)
			wit := map[string]any{"transfer": "fetch", "hook": fs[2].Hooks, "steps": fs}
			if !o.Killed {
				if rr := o.result(2); rr != nil && rr.Err != "" {
					viol("c35/fetch/error", "uninterrupted fetch failed: "+rr.Err, wit)
				}
				return false
			}
			vmu.Lock()
			c.Distinct(fmt.Sprintf("c35i/%d/fetch/%s/%d", rep, j.kind, j.n))
			vmu.Unlock()
			if l := dirListing(remNew); l != remNewListing {
				viol("c35/interrupted/fetch/source-changed", "the files of the remote changed while a fetch from it was interrupted", wit)
			}
			// the destination after the crash: open, read everything, then retry
			vs := []childStep{
				{FP: "c"},
				{DB: "c", SQL: "select name, hash from dolt_remote_branches"},
				{SQL: "call dolt_remote('remove','origin')"},
				{SQL: "call dolt_remote('add','origin','file://" + remNew + "')"},
				{SQL: "call dolt_pull('origin','main')"},
				{SQL: "call dolt_fetch('origin')"},
				{FP: "c", Graph: "main,origin/b1,origin/bnew"},
			}
			o2 := runChild(c, dst, "", vs)
			if o2.Killed || o2.result(0) == nil {
				viol("c35/interrupted/fetch/destination-unopenable", "after an interrupted fetch the destination cannot be served again: "+trunc(o2.Log, 600), wit)
				return true
			}
			if e := fpErrors(o2.result(0).FP); len(e) > 0 {
				viol("c35/interrupted/fetch/unreadable", fmt.Sprintf("after an interrupted fetch the destination has unreadable components: %v", e), wit)
			}
			if rr := o2.result(1); rr != nil {
				for _, row := range rr.Rows {
					name := "heads/" + strings.TrimPrefix(row[0], "remotes/origin/")
					if row[1] != oldHeads[name] && row[1] != newHeads[name] {
						viol("c35/interrupted/fetch/ref-neither-old-nor-new", fmt.Sprintf("after an interrupted fetch %s is %s (old %q new %q)", row[0], row[1], oldHeads[name], newHeads[name]), wit)
					}
				}
			}
			for _, k := range []int{4, 5} {
				if rr := o2.result(k); rr == nil || rr.Err != "" {
					e := ""
					if rr != nil {
						e = rr.Err
					}
					viol("c35/interrupted/fetch/retry-failed", fmt.Sprintf("retrying after an interrupted fetch failed (%s): %s", vs[k].SQL, e), wit)
					return true
				}
			}
			last := o2.result(len(vs) - 1)
			if last == nil {
				return true
			}
			if e := fpErrors(last.FP); len(e) > 0 {
				viol("c35/interrupted/fetch/unreadable", fmt.Sprintf("after the retry the destination has unreadable components: %v", e), wit)
			}
			g := graphKeys(last.FP)
			for _, b := range []string{"b1", "bnew"} {
				if v, ok := g["g/origin/"+b]; ok {
					g["g/"+b] = v
					delete(g, "g/origin/"+b)
				}
			}
			if d := srcGraph.Diff(g); len(d) > 0 {
				viol("c35/interrupted/fetch/differs", "after interrupted fetch + retry the destination reads differently than the source: "+trunc(d[0], 400), map[string]any{"case": wit, "diff": d})
			} else {
				tl.inc("c35.interrupted_fetch_retry_converged")
			}
			return true
		})
	}

	c.Sample(map[string]any{"old_heads": oldHeads, "new_heads": newHeads})
}
