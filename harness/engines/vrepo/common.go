// Package vrepo holds the repository-level monitors that observe a whole database before and after an operation
// that promises to keep or to transfer "everything reachable":
// C08 (garbage collection keeps everything that is still reachable) and C35 (push / pull / fetch / clone).
//
// Shared skeleton: repositories are built through SQL on a real in-process sql-server (sqlrig); the observable state
// is taken through two independent routes — the SQL fingerprint (sqlrig.TakeFingerprint plus the extra components
// below) and the Go API (sqlrig.APIFingerprint + sqlrig.WalkClosure: every chunk reachable from the store root and
// from every address a working set / stash names must be present and must hash to its address).
package vrepo

import (
	"encoding/json"
	"fmt"
	"os"
	"os/exec"
	"path/filepath"
	"sort"
	"strings"
	"sync"
	"sync/atomic"
	"syscall"
	"time"

	"github.com/dolthub/dolt/go/libraries/utils/verifhook"

	"verif/rig"
	"verif/sqlrig"
)

// tally is a goroutine-safe set of named counters (flushed into the evidence at the end of a stage).
type tally struct {
	mu sync.Mutex
	m  map[string]int
}

func newTally() *tally { return &tally{m: map[string]int{}} }

func (t *tally) inc(name string) { t.add(name, 1) }

func (t *tally) add(name string, n int) {
	t.mu.Lock()
	t.m[name] += n
	t.mu.Unlock()
}

func (t *tally) get(name string) int {
	t.mu.Lock()
	defer t.mu.Unlock()
	return t.m[name]
}

func (t *tally) flush(c *rig.Ctx) {
	t.mu.Lock()
	defer t.mu.Unlock()
	var names []string
	for k := range t.m {
		names = append(names, k)
	}
	sort.Strings(names)
	for _, k := range names {
		c.Count(k, t.m[k])
	}
}

// script runs statements on a session; it returns the first error together with its statement.
func script(x *sqlrig.Session, stmts ...string) error {
	for _, q := range stmts {
		if _, err := x.Query(q); err != nil {
			return fmt.Errorf("%s: %w", q, err)
		}
	}
	return nil
}

// hashOf runs a statement whose first column of the first row is a commit hash (dolt_commit, hashof()).
func hashOf(x *sqlrig.Session, q string) (string, error) {
	r, err := x.Query(q)
	if err != nil {
		return "", fmt.Errorf("%s: %w", q, err)
	}
	if len(r.Data) != 1 || len(r.Data[0]) < 1 || len(r.Data[0][0]) != 32 {
		return "", fmt.Errorf("%s: no hash returned: %v", q, r.Data)
	}
	return r.Data[0][0], nil
}

func trunc(s string, n int) string {
	if len(s) > n {
		return s[:n] + "..."
	}
	return s
}

// extraFingerprint adds, for every branch working set, the components that sqlrig.TakeFingerprint does not read:
// conflict rows, constraint violations, schema conflicts and the rebase plan. x must be a dedicated session.
func extraFingerprint(x *sqlrig.Session, db string) sqlrig.Fingerprint {
	fp := sqlrig.Fingerprint{}
	br, err := x.Query("select name from `" + db + "`.dolt_branches order by name")
	if err != nil {
		fp["x/branches"] = "ERROR: " + err.Error()
		return fp
	}
	rd := func(key, q string) *sqlrig.Rows {
		r, err := x.Query(q)
		if err != nil {
			fp[key] = "ERROR: " + err.Error()
			return &sqlrig.Rows{}
		}
		fp[key] = fmt.Sprintf("%d:%s", len(r.Data), strings.Join(r.Sorted(), "\n"))
		return r
	}
	for _, b := range br.Data {
		name := b[0]
		if err := x.Exec("use `" + db + "/" + name + "`"); err != nil {
			fp["x/"+name] = "ERROR: " + err.Error()
			continue
		}
		cf := rd("x/"+name+"/conflicts", "select `table`, num_conflicts from dolt_conflicts")
		for _, r := range cf.Data {
			rd("x/"+name+"/conflicts/"+r[0], "select * from `dolt_conflicts_"+r[0]+"`")
		}
		cv := rd("x/"+name+"/violations", "select `table`, num_violations from dolt_constraint_violations")
		for _, r := range cv.Data {
			rd("x/"+name+"/violations/"+r[0], "select * from `dolt_constraint_violations_"+r[0]+"`")
		}
		rd("x/"+name+"/schema_conflicts", "select table_name, description from dolt_schema_conflicts")
		if strings.HasPrefix(name, "dolt_rebase_") {
			rd("x/"+name+"/rebase_plan", "select * from dolt_rebase")
		}
	}
	x.Exec("use `" + db + "`")
	return fp
}

// commitGraphFingerprint reads, through session x (which it switches to database db), everything reachable from
// the commit `head`: the commit graph (hash, parents, committer, date, message) and at every commit each table's
// SHOW CREATE TABLE text and the sorted multiset of its rows. Keys do not mention db, so the fingerprints of the
// same commit in two databases are comparable component by component. done is a per-(db) memo of commits already
// read in this observation (a commit is immutable between two operations of one case, not across them).
func commitGraphFingerprint(x *sqlrig.Session, db, head string, fp sqlrig.Fingerprint, done map[string]bool) {
	if err := x.Exec("use `" + db + "`"); err != nil {
		fp["g/"+head] = "ERROR: " + err.Error()
		return
	}
	lg, err := x.Query("select commit_hash, parents, committer, email, date, message from dolt_log('" + head + "', '--parents')")
	if err != nil {
		fp["g/"+head] = "ERROR: " + err.Error()
		return
	}
	var hs []string
	for _, r := range lg.Data {
		hs = append(hs, r[0])
	}
	sort.Strings(hs)
	fp["g/"+head] = strings.Join(hs, ",")
	for _, r := range lg.Data {
		h := r[0]
		if done[h] {
			continue
		}
		done[h] = true
		fp["c/"+h] = strings.Join(r[1:], "\x1f")
		rdb := "`" + db + "/" + h + "`"
		tabs, err := x.Query("show tables from " + rdb)
		if err != nil {
			fp["c/"+h+"/tables"] = "ERROR: " + err.Error()
			continue
		}
		var names []string
		for _, t := range tabs.Data {
			names = append(names, t[0])
		}
		sort.Strings(names)
		fp["c/"+h+"/tables"] = strings.Join(names, ",")
		for _, t := range names {
			qt := rdb + ".`" + t + "`"
			if r, err := x.Query("show create table " + qt); err != nil {
				fp["c/"+h+"/schema/"+t] = "ERROR: " + err.Error()
			} else if len(r.Data) > 0 && len(r.Data[0]) > 1 {
				fp["c/"+h+"/schema/"+t] = r.Data[0][1]
			}
			if r, err := x.Query("select * from " + qt); err != nil {
				fp["c/"+h+"/rows/"+t] = "ERROR: " + err.Error()
			} else {
				fp["c/"+h+"/rows/"+t] = fmt.Sprintf("%d:%s", len(r.Data), strings.Join(r.Sorted(), "\n"))
			}
		}
	}
}

// fpErrors lists the components of a fingerprint that could not be read.
func fpErrors(fp sqlrig.Fingerprint) []string {
	var out []string
	for k, v := range fp {
		if strings.HasPrefix(v, "ERROR: ") {
			out = append(out, k+": "+trunc(v, 200))
		}
	}
	sort.Strings(out)
	return out
}

// merge copies b into a.
func mergeFP(a, b sqlrig.Fingerprint) sqlrig.Fingerprint {
	for k, v := range b {
		a[k] = v
	}
	return a
}

// dirSize returns the number of regular files and their total size below dir.
func dirSize(dir string) (files int, bytes int64) {
	filepath.Walk(dir, func(p string, info os.FileInfo, err error) error {
		if err == nil && info.Mode().IsRegular() {
			files++
			bytes += info.Size()
		}
		return nil
	})
	return
}

// dirListing renders the names and sizes of the table files, manifest and journal below dir (used for "the source
// of an interrupted clone / fetch is unchanged").
func dirListing(dir string) string {
	var out []string
	filepath.Walk(dir, func(p string, info os.FileInfo, err error) error {
		if err == nil && info.Mode().IsRegular() && info.Name() != "LOCK" {
			rel, _ := filepath.Rel(dir, p)
			out = append(out, fmt.Sprintf("%s:%d", rel, info.Size()))
		}
		return nil
	})
	sort.Strings(out)
	return strings.Join(out, "\n")
}

// ---------------------------------------------------------------------------------------------------------------
// Child processes: `vrepo child-sql <dataDir> <scriptFile> <outFile>` starts a sql-server on dataDir (a second
// server can only live in another process) and runs the steps of the script, appending one JSON line per step to
// outFile *before* and *after* executing it, so that the parent knows in which step a killed child died.
// Hooks are armed through the environment variable VERIF_HOOKS of the child (verifhook reads it at start-up).

// childStep is one step of a child script.
type childStep struct {
	DB       string `json:"db,omitempty"`       // USE this database first ("" = stay)
	SQL      string `json:"sql,omitempty"`      // statement to run (rows are returned)
	FP       string `json:"fp,omitempty"`       // instead of SQL: take the full fingerprint of this database
	Graph    string `json:"graph,omitempty"`    // with FP: comma-separated extra commit heads / ref names whose graph + rows are read
	WaitFile string `json:"waitfile,omitempty"` // instead of SQL: spin until this file exists (barrier between processes)
	Touch    string `json:"touch,omitempty"`    // instead of SQL: create this file
	Hooks    string `json:"hooks,omitempty"`    // before the step: arm verifhook points, "point=kill@3;point=sleep(5)" (hits count from now)
}

// childResult is the outcome of one step.
type childResult struct {
	Step  int                `json:"step"`
	Phase string             `json:"phase"` // begin | end
	Err   string             `json:"err,omitempty"`
	Rows  [][]string         `json:"rows,omitempty"`
	FP    sqlrig.Fingerprint `json:"fp,omitempty"`
	T0    int64              `json:"t0,omitempty"`
	T1    int64              `json:"t1,omitempty"`
}

func init() {
	rig.SubCommands["child-sql"] = func(args []string) int {
		if len(args) < 3 {
			fmt.Fprintln(os.Stderr, "usage: child-sql <dataDir> <scriptFile> <outFile>")
			return 2
		}
		b, err := os.ReadFile(args[1])
		if err != nil {
			fmt.Fprintln(os.Stderr, err)
			return 2
		}
		var steps []childStep
		if err := json.Unmarshal(b, &steps); err != nil {
			fmt.Fprintln(os.Stderr, err)
			return 2
		}
		out, err := os.OpenFile(args[2], os.O_APPEND|os.O_CREATE|os.O_WRONLY, 0o644)
		if err != nil {
			fmt.Fprintln(os.Stderr, err)
			return 2
		}
		emit := func(r childResult) {
			b, _ := json.Marshal(r)
			out.Write(append(b, '\n'))
		}
		srv, err := sqlrig.Start(args[0])
		if err != nil {
			emit(childResult{Step: -1, Phase: "end", Err: "server start: " + err.Error()})
			return 3
		}
		x, err := srv.Open("")
		if err != nil {
			emit(childResult{Step: -1, Phase: "end", Err: "open: " + err.Error()})
			srv.Stop()
			return 3
		}
		for i, st := range steps {
			emit(childResult{Step: i, Phase: "begin"})
			res := childResult{Step: i, Phase: "end", T0: rig.Mono()}
			if st.DB != "" {
				if err := x.Exec("use `" + st.DB + "`"); err != nil {
					res.Err = "use: " + err.Error()
					emit(res)
					continue
				}
			}
			armHooks(st.Hooks)
			switch {
			case st.WaitFile != "":
				for k := 0; k < 60000; k++ {
					if _, err := os.Stat(st.WaitFile); err == nil {
						break
					}
					time.Sleep(time.Millisecond)
				}
			case st.Touch != "":
				os.WriteFile(st.Touch, []byte("x"), 0o644)
			case st.FP != "":
				y, err := srv.Open("")
				if err != nil {
					res.Err = err.Error()
					break
				}
				fp := sqlrig.TakeFingerprint(y, st.FP, sqlrig.FingerprintOptions{})
				done := map[string]bool{}
				for _, g := range strings.Split(st.Graph, ",") {
					if g != "" {
						commitGraphFingerprint(y, st.FP, g, fp, done)
					}
				}
				y.Close()
				res.FP = fp
			default:
				r, err := x.Query(st.SQL)
				if err != nil {
					res.Err = err.Error()
				} else {
					res.Rows = r.Data
				}
			}
			res.T1 = rig.Mono()
			emit(res)
		}
		x.Close()
		srv.Stop()
		out.Close()
		return 0
	}
}

// armHooks arms verifhook points in this process; hit counting starts now.
func armHooks(spec string) {
	for _, part := range strings.Split(spec, ";") {
		kv := strings.SplitN(strings.TrimSpace(part), "=", 2)
		if len(kv) != 2 {
			continue
		}
		a := verifhook.Action{}
		act := kv[1]
		if i := strings.LastIndex(act, "@"); i >= 0 {
			fmt.Sscanf(act[i+1:], "%d", &a.Nth)
			act = act[:i]
		}
		if strings.HasPrefix(act, "rendezvous(") && strings.HasSuffix(act, ")") {
			// first hit only: announce this process in the directory and wait (bounded) for a second process to arrive at
			// the same point, so that both are between "closure evaluated" and "root committed" at the same time
			d := act[len("rendezvous(") : len(act)-1]
			var once atomic.Bool
			a.Kind, a.Nth = "func", 0
			a.Fn = func(string, int64) error {
				if once.Swap(true) {
					time.Sleep(2 * time.Millisecond)
					return nil
				}
				os.WriteFile(filepath.Join(d, fmt.Sprintf("hit-%d", os.Getpid())), []byte("x"), 0o644)
				for k := 0; k < 600; k++ {
					if m, _ := filepath.Glob(filepath.Join(d, "hit-*")); len(m) >= 2 {
						os.WriteFile(filepath.Join(d, fmt.Sprintf("met-%d", os.Getpid())), []byte("x"), 0o644)
						return nil
					}
					time.Sleep(time.Millisecond)
				}
				return nil
			}
		} else if strings.HasPrefix(act, "sleep(") {
			var ms float64
			fmt.Sscanf(act, "sleep(%f)", &ms)
			a.Kind, a.Sleep = "sleep", time.Duration(ms*float64(time.Millisecond))
		} else {
			a.Kind = act
		}
		verifhook.Set(kv[0], a)
	}
}

// childOutcome is what the parent learns about a finished child.
type childOutcome struct {
	Killed   bool          // died by a signal (the armed kill hook fired)
	ExitCode int           // otherwise
	Results  []childResult // "end" records in order
	LastStep int           // last step that was begun
	Log      string
}

func (o childOutcome) result(step int) *childResult {
	for i := range o.Results {
		if o.Results[i].Step == step {
			return &o.Results[i]
		}
	}
	return nil
}

var childSeq struct {
	sync.Mutex
	n int
}

// runChild runs a child script on dataDir with the given VERIF_HOOKS value and waits for it.
func runChild(c *rig.Ctx, dataDir string, hooks string, steps []childStep) childOutcome {
	childSeq.Lock()
	childSeq.n++
	id := childSeq.n
	childSeq.Unlock()
	base := filepath.Join(c.Dir, fmt.Sprintf("child-%d", id))
	sb, _ := json.Marshal(steps)
	rig.Must(os.WriteFile(base+".script.json", sb, 0o644))
	outFile := base + ".out.jsonl"
	logFile := base + ".log"
	lf, err := os.Create(logFile)
	rig.Must(err)
	cmd := exec.Command(rig.Self(), "child-sql", dataDir, base+".script.json", outFile)
	var env []string
	for _, e := range os.Environ() {
		if !strings.HasPrefix(e, "VERIF_HOOKS=") && !strings.HasPrefix(e, "VERIF_HOOK_LOG=") && !strings.HasPrefix(e, "GORACE=") {
			env = append(env, e)
		}
	}
	if hooks != "" {
		env = append(env, "VERIF_HOOKS="+hooks)
	}
	cmd.Env = env
	cmd.Stdout, cmd.Stderr = lf, lf
	cmd.Dir = c.Dir
	rig.Must(cmd.Start())
	pid := cmd.Process.Pid
	done := make(chan error, 1)
	go func() { done <- cmd.Wait() }()
	var werr error
	select {
	case werr = <-done:
	case <-time.After(10 * time.Minute):
		cmd.Process.Kill()
		werr = <-done
		c.Inconclusive(fmt.Sprintf("child %d did not finish within 10 minutes", id))
	}
	lf.Close()
	// a killed child cannot remove its socket file
	if m, _ := filepath.Glob(fmt.Sprintf("/var/tmp/verif-sock-%d-*.sock*", pid)); len(m) > 0 {
		for _, f := range m {
			os.Remove(f)
		}
	}
	var o childOutcome
	o.LastStep = -1
	if ee, ok := werr.(*exec.ExitError); ok {
		if ws, ok := ee.Sys().(syscall.WaitStatus); ok && ws.Signaled() {
			o.Killed = true
		} else {
			o.ExitCode = ee.ExitCode()
		}
	} else if werr != nil {
		o.ExitCode = -1
	}
	if b, err := os.ReadFile(outFile); err == nil {
		for _, line := range strings.Split(string(b), "\n") {
			if line == "" {
				continue
			}
			var r childResult
			if json.Unmarshal([]byte(line), &r) != nil {
				continue
			}
			if r.Phase == "begin" {
				o.LastStep = r.Step
			} else {
				o.Results = append(o.Results, r)
			}
		}
	}
	if b, err := os.ReadFile(logFile); err == nil {
		o.Log = trunc(string(b), 2000)
	}
	os.Remove(base + ".script.json")
	os.Remove(outFile)
	os.Remove(logFile)
	return o
}

// copyDir copies a directory tree (regular files and directories only).
func copyDir(src, dst string) error {
	return filepath.Walk(src, func(p string, info os.FileInfo, err error) error {
		if err != nil {
			return err
		}
		rel, _ := filepath.Rel(src, p)
		t := filepath.Join(dst, rel)
		if info.IsDir() {
			return os.MkdirAll(t, 0o755)
		}
		if !info.Mode().IsRegular() {
			return nil
		}
		b, err := os.ReadFile(p)
		if err != nil {
			return err
		}
		return os.WriteFile(t, b, info.Mode().Perm())
	})
}

// Register wires the vrepo checks.
func Register() {
	rig.Register(&rig.Spec{Prop: "C08", Level: "exploration",
		Stages: []rig.Stage{
			{Name: "states", Fn: c08states, TimeoutQuick: 40 * time.Minute, TimeoutThorough: 6 * time.Hour},
			{Name: "online", Fn: c08online, Race: true, TimeoutQuick: 40 * time.Minute, TimeoutThorough: 6 * time.Hour},
		},
		RaceFuncs: []string{
			`store/nbs\.\(\*NomsBlockStore\)\.(swapTables|BeginGC|EndGC|MarkAndSweepChunks|beginRead|gcTableSize|addChunk|Put|putChunk)`,
			`store/nbs\.\(\*(markAndSweeper|gcCopier|gcFinalizer|GenerationalNBS)\)`,
			`store/types\.\(\*ValueStore\)\.(gc|GC|gcAddChunk|transitionTo\w+|readAndResetNewGenToVisit|waitForNotFinalizingGC|waitForNoGC)`,
			`gcctx\.`,
		}})
	rig.Register(&rig.Spec{Prop: "C35", Level: "exploration",
		Stages: []rig.Stage{
			{Name: "transfer", Fn: c35transfer, TimeoutQuick: 40 * time.Minute, TimeoutThorough: 6 * time.Hour},
			{Name: "concurrent-push", Fn: c35concurrent, TimeoutQuick: 40 * time.Minute, TimeoutThorough: 6 * time.Hour},
			{Name: "interrupted", Fn: c35interrupted, TimeoutQuick: 40 * time.Minute, TimeoutThorough: 6 * time.Hour},
		}})
}
