package vrepo

import (
	"context"
	"fmt"
	"os"
	"path/filepath"
	"regexp"
	"sort"
	"strings"
	"sync"
	"sync/atomic"
	"time"

	"github.com/dolthub/dolt/go/libraries/doltcore/dbfactory"
	"github.com/dolthub/dolt/go/libraries/doltcore/sqle/dprocedures"
	"github.com/dolthub/dolt/go/libraries/utils/verifhook"
	"github.com/dolthub/dolt/go/store/hash"

	"verif/rig"
	"verif/sqlrig"
)

// ---------------------------------------------------------------------------------------------------------------
// C08, stage "online" (-race): writer sessions commit unique rows while another session collects; every
// acknowledged row / commit must be there afterwards (no-loss, exactly-once ledger), also after a restart.

type wop struct {
	Writer  int
	Kind    string  // tx (insert + COMMIT on main) | dc (autocommit insert + dolt_commit on the writer's branch)
	PK      int64   // first row
	PKs     []int64 // every row of the operation (a held transaction inserts several)
	T0, T1  int64
	Outcome string // ok | indeterminate | failed
	InsOK   bool   // dc: the autocommit insert was acknowledged (even if dolt_commit was not)
	Hash    string // dc: acknowledged commit hash
	Err     string
}

type window struct {
	Point  string
	T0, T1 int64
}

type onlineLedger struct {
	mu   sync.Mutex
	ops  []wop
	wins []window
}

func (l *onlineLedger) add(o wop) {
	l.mu.Lock()
	l.ops = append(l.ops, o)
	l.mu.Unlock()
}

func (l *onlineLedger) snapshot() []wop {
	l.mu.Lock()
	defer l.mu.Unlock()
	return append([]wop(nil), l.ops...)
}

var missingDataRe = regexp.MustCompile(`(?i)dangling|missing|not found|empty chunk|corrupt|cannot find|unable to (find|load|resolve)|invalid (hash|address)|no such`)

var gcPoints = []string{"gc.afterMark", "gc.beforeFinalize", "gc.afterFinalize", "gc.beforeSwap"}

func c08online(c *rig.Ctx) {
	c.Rule("one database, 6 writer sessions: 3 run `insert; COMMIT` transactions on main (primary-key table + keyless table), 3 run autocommit " +
		"insert + dolt_commit on their own branch; every row value is unique (writer*1e6+seq). A collector session creates fresh garbage and calls " +
		"dolt_gc in rotating modes (default/--full/--shallow x archive level) while verifhook sleeps stretch gc.afterMark / gc.beforeFinalize / " +
		"gc.afterFinalize / gc.beforeSwap (schedules: writers free / writers only until the end of the mark window / writers only between drain and " +
		"finalize / transactions held open across the whole collection and committed afterwards); first under the session_aware safepoint controller, then (after a server restart) under " +
		"kill_connections. Ledger oracle: every acknowledged row is present exactly once and every acknowledged dolt_commit hash is in its " +
		"branch's log — checked after each collection (acks completed before the read started), at the end, and after each restart; operations " +
		"that ended in a connection error are indeterminate (0 or 1 occurrence). Plus chunk-closure walk and full-read fingerprint without " +
		"unreadable components. distinct = (gc spec, controller) rounds in which writer commits overlapped a stretched phase")
	c.Assume("server-side statement errors returned to a writer during a collection are counted, not reported (availability is not part of C08)")
	dir := c.TempDir("c08o")
	defer os.RemoveAll(dir)
	dataDir := filepath.Join(dir, "data")
	tl := newTally()
	led := &onlineLedger{}
	const W = 6
	const db = "onl"
	sleep := 80 * time.Millisecond

	// Schedules: "all" stretches every phase while the writers run freely; "quiet-after-mark" lets the writers run until the
	// end of the new-generation pass's gc.afterMark window and then parks them until dolt_gc returns (what they wrote is only
	// known through the addresses drained by readAndResetNewGenToVisit); "only-before-finalize" parks them before the
	// collection and lets them run only inside the new-generation pass's gc.beforeFinalize window (what they write is only
	// known through the addresses handed over at finalize).
	gt := &gate{}
	var sched atomic.Value
	sched.Store("all")
	var hits sync.Map // point -> *atomic.Int64, reset per round
	hitOf := func(pt string) int64 {
		v, _ := hits.LoadOrStore(pt, new(atomic.Int64))
		return v.(*atomic.Int64).Add(1)
	}
	record := func(pt string, t0 int64) {
		t1 := rig.Mono()
		led.mu.Lock()
		led.wins = append(led.wins, window{pt, t0, t1})
		led.mu.Unlock()
	}
	for _, pt := range gcPoints {
		pt := pt
		verifhook.Set(pt, verifhook.Action{Kind: "func", Fn: func(string, int64) error {
			h := hitOf(pt)
			t0 := rig.Mono()
			switch sched.Load().(string) {
			case "all", "straddle":
				time.Sleep(sleep)
				record(pt, t0)
			case "quiet-after-mark":
				if pt == "gc.afterMark" && h == 2 {
					time.Sleep(2 * sleep)
					record(pt, t0)
					gt.pause()
				}
			case "only-before-finalize":
				if pt == "gc.beforeFinalize" && h == 2 {
					gt.resume()
					time.Sleep(2 * sleep)
					record(pt, t0)
					gt.pause()
				}
			}
			return nil
		}})
	}
	defer verifhook.Clear("")

	srv, err := sqlrig.Start(dataDir)
	rig.Must(err)
	{
		x := srv.MustOpen("")
		rig.Must(script(x, "create database "+db, "use "+db,
			"create table kv (pk bigint primary key, w int, v varchar(120), key iw (w))",
			"create table kl (w int, v bigint)",
			"insert into kv values (0,0,'seed')",
			"call dolt_commit('-Am','init')"))
		for i := 3; i < W; i++ {
			rig.Must(script(x, fmt.Sprintf("call dolt_branch('wb%d')", i)))
		}
		x.Close()
	}

	var vmu sync.Mutex
	viol := func(key, what string, w any) {
		vmu.Lock()
		c.Violation(key, what, w)
		vmu.Unlock()
	}

	var seq [W]atomic.Int64
	// writer i runs until stop is set
	writer := func(i int, stop *atomic.Bool, wg *sync.WaitGroup) {
		defer wg.Done()
		var x *sqlrig.Session
		connect := func() bool {
			for try := 0; try < 200 && !stop.Load(); try++ {
				s, err := srv.Open(db)
				if err == nil {
					if i < 3 {
						err = s.Exec("set autocommit = 0")
					} else {
						err = s.Exec(fmt.Sprintf("call dolt_checkout('wb%d')", i))
					}
					if err == nil {
						x = s
						return true
					}
					s.Close()
				}
				time.Sleep(5 * time.Millisecond)
			}
			return false
		}
		if !connect() {
			return
		}
		defer func() {
			if x != nil {
				x.Close()
			}
		}()
		gt.enter()
		defer gt.leave()
		for !stop.Load() {
			gt.wait(stop)
			if stop.Load() {
				break
			}
			sq := seq[i].Add(1)
			pk := int64(i)*1_000_000 + sq
			o := wop{Writer: i, PK: pk, PKs: []int64{pk}, T0: rig.Mono()}
			var err error
			if i < 3 {
				o.Kind = "tx"
				for {
					err = x.Exec(fmt.Sprintf("insert into kv values (%d,%d,'%s')", pk, i, strings.Repeat(fmt.Sprint(pk%97), 1+int(pk%20))))
					if err == nil {
						err = x.Exec(fmt.Sprintf("insert into kl values (%d,%d)", i, pk))
					}
					if err != nil || !gt.holding() || stop.Load() || len(o.PKs) > 400 {
						break
					}
					// schedule "straddle": the transaction stays open across the collection and keeps writing
					time.Sleep(3 * time.Millisecond)
					pk = int64(i)*1_000_000 + seq[i].Add(1)
					o.PKs = append(o.PKs, pk)
				}
				if err != nil {
					// nothing was committed: the transaction dies with the statement / connection
					o.Outcome = "failed"
					if !sqlrig.IsConnErr(err) {
						x.Exec("rollback")
					}
				} else if err = x.Exec("commit"); err == nil {
					o.Outcome = "ok"
				} else if sqlrig.IsConnErr(err) {
					o.Outcome = "indeterminate"
				} else {
					o.Outcome = "failed-commit" // a COMMIT answered with an error: treated as indeterminate
					x.Exec("rollback")
				}
			} else {
				o.Kind = "dc"
				err = x.Exec(fmt.Sprintf("insert into kv values (%d,%d,'%s')", pk, i, strings.Repeat(fmt.Sprint(pk%89), 1+int(pk%25))))
				if err == nil {
					o.InsOK = true
					var h string
					h, err = hashOf(x, fmt.Sprintf("call dolt_commit('-Am','w%d-%d')", i, sq))
					if err == nil {
						o.Outcome, o.Hash = "ok", h
					} else if sqlrig.IsConnErr(err) {
						o.Outcome = "indeterminate"
					} else {
						o.Outcome = "failed-commit"
					}
				} else if sqlrig.IsConnErr(err) {
					o.Outcome = "indeterminate"
				} else {
					o.Outcome = "failed"
				}
			}
			o.T1 = rig.Mono()
			if err != nil {
				o.Err = trunc(err.Error(), 160)
				// A COMMIT / dolt_commit that the server answers with "the data is not there" while or after a collection
				// means the session's writes were not retained (the statement's second sentence). Other server errors are
				// availability and only counted.
				if strings.HasPrefix(o.Outcome, "failed-commit") && sqlrig.Errno(err) != 1213 {
					if missingDataRe.MatchString(err.Error()) {
						viol("c08/online/commit-failed-missing-data/"+o.Kind, fmt.Sprintf("commit of rows written while a collection ran failed because data is missing: %v", err), map[string]any{"op": o})
					} else {
						tl.inc("c08.writer_commit_errors_other")
					}
				}
			}
			led.add(o)
			if err != nil && (sqlrig.IsConnErr(err) || strings.Contains(err.Error(), "can no longer be used")) {
				x.Close()
				x = nil
				if !connect() {
					return
				}
			}
		}
	}

	// verify reads the tables and checks every op that completed before `before` (monotonic clock).
	verify := func(s *sqlrig.Server, when string, before int64) {
		x, err := s.Open(db)
		if err != nil {
			viol("c08/online/open", "cannot open a session "+when+": "+err.Error(), nil)
			return
		}
		defer x.Close()
		ops := led.snapshot()
		read := func(q string) map[string]int {
			r, err := x.Query(q)
			if err != nil {
				viol("c08/online/read-error", fmt.Sprintf("%s %s: %v", q, when, err), nil)
				return nil
			}
			m := map[string]int{}
			for _, row := range r.Data {
				m[row[0]]++
			}
			return m
		}
		mainKV := read("select pk from `" + db + "/main`.kv")
		mainKL := read("select v from `" + db + "/main`.kl")
		brWork, brHead, brLog := map[int]map[string]int{}, map[int]map[string]int{}, map[int]map[string]int{}
		for i := 3; i < W; i++ {
			brWork[i] = read(fmt.Sprintf("select pk from `%s/wb%d`.kv", db, i))
			brHead[i] = read(fmt.Sprintf("select pk from `%s/wb%d`.kv as of 'wb%d'", db, i, i))
			brLog[i] = read(fmt.Sprintf("select commit_hash from `%s/wb%d`.dolt_log", db, i))
		}
		if mainKV == nil || mainKL == nil {
			return
		}
		lost := 0
		for _, o := range ops {
			if o.T1 >= before {
				continue
			}
			if len(o.PKs) > 1 && o.Outcome == "ok" {
				tl.inc("c08.held_transactions_checked")
			}
			for _, pk := range o.PKs {
				k := fmt.Sprint(pk)
				wit := map[string]any{"op": o, "when": when, "row": pk}
				switch o.Kind {
				case "tx":
					if o.Outcome == "ok" {
						if mainKV[k] != 1 || mainKL[k] != 1 {
							lost++
							viol("c08/online/acked-row-lost/tx", fmt.Sprintf("row %s acknowledged by COMMIT is present %d times in kv and %d times in kl %s", k, mainKV[k], mainKL[k], when), wit)
						}
					} else if mainKV[k] > 1 || mainKL[k] > 1 {
						viol("c08/online/duplicate/tx", fmt.Sprintf("row %s (outcome %s) is present %d times in kv and %d times in kl %s", k, o.Outcome, mainKV[k], mainKL[k], when), wit)
					}
				case "dc":
					if o.InsOK && brWork[o.Writer] != nil && brWork[o.Writer][k] != 1 {
						lost++
						viol("c08/online/acked-row-lost/autocommit", fmt.Sprintf("row %s acknowledged by an autocommit insert is present %d times in the working set of wb%d %s", k, brWork[o.Writer][k], o.Writer, when), wit)
					}
					if o.Outcome == "ok" && brLog[o.Writer] != nil && brHead[o.Writer] != nil {
						if brLog[o.Writer][o.Hash] != 1 {
							lost++
							viol("c08/online/acked-commit-lost", fmt.Sprintf("commit %s acknowledged by dolt_commit is not in the log of wb%d %s", o.Hash, o.Writer, when), wit)
						} else if brHead[o.Writer][k] != 1 {
							lost++
							viol("c08/online/acked-row-lost/dolt_commit", fmt.Sprintf("row %s committed by acknowledged commit %s is missing at the head of wb%d %s", k, o.Hash, o.Writer, when), wit)
						}
					}
				}
			}
		}
		// a row on main must have been issued by one of the three transaction writers (its sequence number was handed out)
		for k := range mainKV {
			var pk int64
			fmt.Sscan(k, &pk)
			w, sq := pk/1_000_000, pk%1_000_000
			if pk != 0 && (w < 0 || w >= 3 || sq < 1 || sq > seq[w].Load()) {
				viol("c08/online/phantom-row", "row "+k+" in kv on main was never written "+when, nil)
			}
		}
		tl.inc("c08.ledger_checks")
		if lost == 0 {
			tl.inc("c08.ledger_checks_clean")
		}
	}

	closure := func(s *sqlrig.Server, when string) {
		ddb, err := s.OpenDoltDB(db)
		if err != nil {
			viol("c08/online/open", "cannot open the database through the API "+when+": "+err.Error(), nil)
			return
		}
		_, roots := sqlrig.APIFingerprint(ddb)
		rep := sqlrig.WalkClosure(ddb, roots, false)
		tl.add("c08.closure_chunks_walked", rep.Chunks)
		if len(rep.Problems) > 0 {
			viol("c08/online/closure/"+strings.SplitN(rep.Problems[0], " ", 2)[0], fmt.Sprintf("reachable chunk missing or altered %s: %v", when, rep.Problems), nil)
		}
	}

	specsSession := []gcSpec{{Mode: "default", Archive: 1}, {Mode: "full", Archive: 0}, {Mode: "shallow"}, {Mode: "default", Archive: 0}, {Mode: "full", Archive: 1}}
	roundsA, roundsB := c.Pick(4, 16), c.Pick(3, 10)
	round := 0
	phase := func(s *sqlrig.Server, n int, kill bool) {
		var stop atomic.Bool
		var wg sync.WaitGroup
		for i := 0; i < W; i++ {
			wg.Add(1)
			go writer(i, &stop, &wg)
		}
		for k := 0; k < n; k++ {
			g := specsSession[(round+int(c.Seed))%len(specsSession)]
			sc := []string{"all", "quiet-after-mark", "only-before-finalize", "straddle"}[round%4]
			if (kill || sc != "all") && g.Mode == "shallow" {
				g = gcSpec{Mode: "default", Archive: 1}
			}
			g.Kill = kill
			round++
			c.Case(fmt.Sprintf("c08/online/round%d", round), map[string]any{"gc": g, "writers": W, "schedule": sc})
			hits.Range(func(k, _ any) bool { hits.Delete(k); return true })
			time.Sleep(150 * time.Millisecond) // let the writers produce novelty
			sched.Store(sc)
			if sc == "only-before-finalize" {
				gt.pause()
			}
			if sc == "straddle" {
				gt.hold(true)
			}
			x, err := s.Open(db)
			if err != nil {
				c.Note("collector cannot connect: " + err.Error())
				continue
			}
			// fresh garbage
			probe := ""
			name := fmt.Sprintf("deadon%d", round)
			if err := script(x, "call dolt_checkout('-b','"+name+"','main')", fmt.Sprintf("insert into kv values (%d,99,'%s')", 900_000_000+round, strings.Repeat("garbage", 15)),
				"call dolt_commit('-Am','garbage')"); err == nil {
				probe, _ = hashOf(x, "select hashof('HEAD')")
				if err := script(x, "call dolt_checkout('main')", "call dolt_branch('-D','"+name+"')"); err != nil {
					probe = ""
				}
			} else {
				x.Exec("call dolt_checkout('main')")
			}
			led.mu.Lock()
			w0 := len(led.wins)
			led.mu.Unlock()
			g0 := rig.Mono()
			_, err = x.Query(g.call())
			g1 := rig.Mono()
			sched.Store("all")
			gt.hold(false)
			gt.resume()
			x.Close()
			if err != nil {
				tl.inc("c08.online_gc_errors")
				c.Note(fmt.Sprintf("online %s failed: %v", g.call(), trunc(err.Error(), 300)))
				continue
			}
			tl.inc("c08.online_gc_runs")
			tl.inc("c08.online_gc_runs." + g.String())
			tl.inc("c08.online_gc_runs.schedule." + sc)
			if probe != "" {
				if ddb, err := s.OpenDoltDB(db); err == nil {
					if ok, _ := ddb.Has(context.Background(), hash.Parse(probe)); !ok {
						tl.inc("c08.online_gc_runs_collected_garbage")
					}
				}
			}
			// writer commits overlapping the collection and each stretched phase
			led.mu.Lock()
			wins := append([]window(nil), led.wins[w0:]...)
			led.mu.Unlock()
			ops := led.snapshot()
			anyPhase := false
			for _, o := range ops {
				if o.Outcome != "ok" {
					continue
				}
				if o.T1 >= g0 && o.T0 <= g1 {
					tl.inc("c08.commits_overlapping_gc")
				}
				for _, w := range wins {
					if o.T1 >= w.T0 && o.T0 <= w.T1 {
						tl.inc("c08.commits_overlapping." + w.Point)
						anyPhase = true
					}
				}
			}
			if anyPhase {
				c.Distinct("c08o/" + sc + "/" + g.String())
				tl.inc("c08.online_rounds_with_overlap." + sc)
			}
			verify(s, fmt.Sprintf("after online collection %d (%s)", round, g), g1)
		}
		stop.Store(true)
		gt.hold(false)
		gt.resume()
		wg.Wait()
		verify(s, "after the writers stopped", rig.Mono())
		closure(s, "after the writers stopped")
	}

	phase(srv, roundsA, false)
	rig.Must(srv.Stop())
	dbfactory.CloseAllLocalDatabases()
	srv, err = sqlrig.Start(dataDir)
	rig.Must(err)
	// (engine start-up forces the session-aware controller when auto-GC is configured, so the switch comes after it;
	// no statement is running yet)
	dprocedures.UseSessionAwareSafepointController = false
	verify(srv, "after the first restart", rig.Mono())
	phase(srv, roundsB, true)
	rig.Must(srv.Stop())
	dbfactory.CloseAllLocalDatabases()
	dprocedures.UseSessionAwareSafepointController = true
	srv, err = sqlrig.Start(dataDir)
	rig.Must(err)
	defer srv.Stop()
	verify(srv, "after the final restart", rig.Mono())
	closure(srv, "after the final restart")
	{
		x := srv.MustOpen("")
		fp := sqlrig.TakeFingerprint(x, db, sqlrig.FingerprintOptions{MaxCommitsWithRows: 25})
		x.Close()
		if e := fpErrors(fp); len(e) > 0 {
			viol("c08/online/unreadable", fmt.Sprintf("components unreadable after the collections and a restart: %v", e), nil)
		}
		tl.add("c08.online_final_fingerprint_components", len(fp))
	}

	ops := led.snapshot()
	byOutcome := map[string]int{}
	errs := map[string]int{}
	for _, o := range ops {
		byOutcome[o.Kind+"."+o.Outcome]++
		if o.Err != "" && !strings.HasPrefix(o.Outcome, "ok") {
			errs[o.Outcome+": "+o.Err]++
		}
	}
	for k, v := range byOutcome {
		tl.add("c08.writer_ops."+k, v)
	}
	var el []string
	for k, v := range errs {
		el = append(el, fmt.Sprintf("%dx %s", v, k))
	}
	sort.Strings(el)
	if len(el) > 12 {
		el = el[:12]
	}
	if len(el) > 0 {
		c.Note("writer errors during collections: " + strings.Join(el, " | "))
	}
	if len(ops) > 2 {
		c.Sample(map[string]any{"ops": ops[:3], "total_ops": len(ops)})
	}
	tl.flush(c)
	c.Require(tl.get("c08.online_gc_runs") >= 2, "fewer than two online collections completed")
	c.Require(tl.get("c08.online_gc_runs_collected_garbage") > 0, "no online collection collected the garbage probe")
	c.Require(tl.get("c08.online_rounds_with_overlap.quiet-after-mark") > 0, "no round in which writers committed only until the end of the mark phase")
	c.Require(tl.get("c08.held_transactions_checked") > 0, "no transaction that stayed open across a collection was committed and checked")
	c.Require(tl.get("c08.online_rounds_with_overlap.only-before-finalize") > 0, "no round in which writers committed only between drain and finalize")
	for _, pt := range gcPoints {
		c.Require(tl.get("c08.commits_overlapping."+pt) > 0, "no acknowledged writer commit overlapped phase "+pt)
	}
}

// gate parks the writers on request of the collector / a GC hook.
type gate struct {
	mu      sync.Mutex
	held    atomic.Bool // transaction writers keep their transaction open (schedule "straddle")
	paused  bool
	parked  int
	writers int
}

func (g *gate) hold(v bool)   { g.held.Store(v) }
func (g *gate) holding() bool { return g.held.Load() }

func (g *gate) enter() { g.mu.Lock(); g.writers++; g.mu.Unlock() }
func (g *gate) leave() { g.mu.Lock(); g.writers--; g.mu.Unlock() }

// wait parks the calling writer while the gate is paused.
func (g *gate) wait(stop *atomic.Bool) {
	g.mu.Lock()
	if !g.paused {
		g.mu.Unlock()
		return
	}
	g.parked++
	for g.paused && !stop.Load() {
		g.mu.Unlock()
		time.Sleep(time.Millisecond)
		g.mu.Lock()
	}
	g.parked--
	g.mu.Unlock()
}

// pause closes the gate and waits (bounded) until every running writer is parked.
func (g *gate) pause() {
	g.mu.Lock()
	g.paused = true
	g.mu.Unlock()
	for k := 0; k < 5000; k++ {
		g.mu.Lock()
		done := g.parked >= g.writers
		g.mu.Unlock()
		if done {
			return
		}
		time.Sleep(time.Millisecond)
	}
}

func (g *gate) resume() {
	g.mu.Lock()
	g.paused = false
	g.mu.Unlock()
}
