package vrepo

import (
	"bufio"
	"fmt"
	"os"
	"sort"
	"strings"

	"github.com/dolthub/dolt/go/libraries/doltcore/sqle/dprocedures"

	"verif/rig"
	"verif/sqlrig"
)

func init() {
	// `vrepo sql <file>`: run the statements of a file against a fresh in-process server and print every result; it is
	// the reproduction tool for the witnesses of this engine. One statement per line; "@name stmt" runs on the named
	// session (sessions are opened on first use; a session named like the script's sessions works as in the monitor);
	// "#" starts a comment; "!kill_connections" / "!session_aware" switch the GC safepoint controller; "!apifp <db>" prints the Go-API
	// fingerprint and the result of the chunk-closure walk.
	rig.SubCommands["sql"] = func(args []string) int {
		if len(args) < 1 {
			fmt.Fprintln(os.Stderr, "usage: sql <file>")
			return 2
		}
		f, err := os.Open(args[0])
		if err != nil {
			fmt.Fprintln(os.Stderr, err)
			return 2
		}
		defer f.Close()
		dir, err := os.MkdirTemp("/var/tmp", "verif-vrepo-sql-")
		if err != nil {
			fmt.Fprintln(os.Stderr, err)
			return 2
		}
		defer os.RemoveAll(dir)
		srv, err := sqlrig.Start(dir + "/data")
		if err != nil {
			fmt.Fprintln(os.Stderr, err)
			return 2
		}
		defer srv.Stop()
		sess := map[string]*sqlrig.Session{}
		curDB := ""
		get := func(n string) *sqlrig.Session {
			if s, ok := sess[n]; ok {
				return s
			}
			s := srv.MustOpen(curDB)
			sess[n] = s
			return s
		}
		sc := bufio.NewScanner(f)
		sc.Buffer(make([]byte, 1<<20), 1<<26)
		for sc.Scan() {
			line := strings.TrimSpace(sc.Text())
			if line == "" || strings.HasPrefix(line, "#") {
				continue
			}
			if line == "!kill_connections" || line == "!session_aware" {
				dprocedures.UseSessionAwareSafepointController = line == "!session_aware"
				continue
			}
			if strings.HasPrefix(line, "!apifp ") { // print the Go-API fingerprint and the closure walk of a database
				db := strings.TrimSpace(line[7:])
				ddb, err := srv.OpenDoltDB(db)
				if err != nil {
					fmt.Println("  ERROR:", err)
					continue
				}
				fp, roots := sqlrig.APIFingerprint(ddb)
				var keys []string
				for k := range fp {
					keys = append(keys, k)
				}
				sort.Strings(keys)
				for _, k := range keys {
					fmt.Printf("  %s = %s\n", k, fp[k])
				}
				rep := sqlrig.WalkClosure(ddb, roots, false)
				fmt.Printf("  closure: %d chunks, problems: %v\n", rep.Chunks, rep.Problems)
				continue
			}
			name := "0"
			if len(line) > 2 && line[0] == '@' {
				sp := strings.IndexByte(line, ' ')
				name, line = line[1:sp], strings.TrimSpace(line[sp+1:])
			}
			line = strings.ReplaceAll(line, `\n`, "\n")
			fmt.Printf("@%s> %s\n", name, trunc(line, 300))
			r, err := get(name).Query(line)
			if err != nil {
				fmt.Printf("  ERROR: %v\n", err)
				continue
			}
			if f := strings.Fields(strings.ToLower(line)); len(f) == 3 && f[0] == "create" && f[1] == "database" {
				curDB = f[2] // sessions opened from now on start in the database the script created
			}
			if len(r.Cols) > 0 {
				fmt.Printf("  [%s]\n", strings.Join(r.Cols, " | "))
			}
			for _, row := range r.Data {
				for i := range row {
					if row[i] == sqlrig.Null {
						row[i] = "NULL"
					}
				}
				fmt.Printf("  %s\n", trunc(strings.Join(row, " | "), 400))
			}
		}
		for _, s := range sess {
			s.Close()
		}
		return 0
	}
}
