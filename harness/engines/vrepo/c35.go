package vrepo

import (
	"context"
	"fmt"
	"math/rand"
	"net"
	"os"
	"path/filepath"
	"strings"
	"sync"

	"github.com/dolthub/dolt/go/libraries/doltcore/doltdb"
	"github.com/dolthub/dolt/go/libraries/doltcore/ref"
	"github.com/dolthub/dolt/go/libraries/utils/filesys"
	"github.com/dolthub/dolt/go/store/hash"
	"github.com/dolthub/dolt/go/store/types"

	"verif/rig"
	"verif/sqlrig"
)

// ---------------------------------------------------------------------------------------------------------------
// Shared observation of a file:// remote through the Go API (independent of clone / fetch, which are under test).

type remoteView struct {
	ddb   *doltdb.DoltDB
	Heads map[string]string // "heads/main", "tags/v1" -> address (for tags: the tag's address)
	Err   string
}

// viewRemote opens the file remote at dir and lists its branch and tag heads.
func viewRemote(dir string) remoteView {
	ctx := context.Background()
	v := remoteView{Heads: map[string]string{}}
	ddb, err := doltdb.LoadDoltDB(ctx, types.Format_DOLT, "file://"+dir, filesys.LocalFS)
	if err != nil {
		v.Err = err.Error()
		return v
	}
	v.ddb = ddb
	refs, err := ddb.GetRefsWithHashes(ctx)
	if err != nil {
		v.Err = err.Error()
		return v
	}
	for _, r := range refs {
		switch r.Ref.GetType() {
		case ref.BranchRefType:
			v.Heads["heads/"+r.Ref.GetPath()] = r.Hash.String()
		case ref.TagRefType:
			v.Heads["tags/"+r.Ref.GetPath()] = r.Hash.String()
		}
	}
	return v
}

// closureOf walks everything reachable at the remote from the given addresses ("" entries are skipped).
func (v remoteView) closureOf(addrs ...string) sqlrig.ClosureReport {
	var hs []hash.Hash
	for _, a := range addrs {
		if h, ok := hash.MaybeParse(a); ok {
			hs = append(hs, h)
		}
	}
	return sqlrig.WalkClosure(v.ddb, hs, true)
}

func freePort() int {
	l, err := net.Listen("tcp", "127.0.0.1:0")
	if err != nil {
		panic(err)
	}
	defer l.Close()
	return l.Addr().(*net.TCPAddr).Port
}

// heads reads branch name -> hash of a database.
func branchHeads(x *sqlrig.Session, db string) (map[string]string, error) {
	r, err := x.Query("select name, hash from `" + db + "`.dolt_branches")
	if err != nil {
		return nil, err
	}
	m := map[string]string{}
	for _, row := range r.Data {
		m[row[0]] = row[1]
	}
	return m, nil
}

func remoteBranchHeads(x *sqlrig.Session, db string) (map[string]string, error) {
	r, err := x.Query("select name, hash from `" + db + "`.dolt_remote_branches")
	if err != nil {
		return nil, err
	}
	m := map[string]string{}
	for _, row := range r.Data {
		m[strings.TrimPrefix(row[0], "remotes/")] = row[1]
	}
	return m, nil
}

// isAncestor reports whether commit anc is reachable from commit desc (inclusive), read in database db.
func isAncestor(x *sqlrig.Session, db, anc, desc string) (bool, error) {
	if anc == desc {
		return true, nil
	}
	if err := x.Exec("use `" + db + "`"); err != nil {
		return false, err
	}
	n, err := x.Scalar("select count(*) from dolt_log('" + desc + "') where commit_hash = '" + anc + "'")
	return n == "1", err
}

// graphKeys filters a fingerprint to the database-independent components (commit contents and commit sets).
func graphKeys(fp sqlrig.Fingerprint) sqlrig.Fingerprint {
	out := sqlrig.Fingerprint{}
	for k, v := range fp {
		if strings.HasPrefix(k, "c/") || strings.HasPrefix(k, "g/") {
			out[k] = v
		}
	}
	return out
}

// ---------------------------------------------------------------------------------------------------------------
// history generator shared by the C35 stages

type c35hist struct {
	Tables   []string
	Branches []string
	Stmts    []string
}

func genC35(r *rand.Rand, big bool) *c35hist {
	h := &c35hist{Tables: []string{"t0"}}
	add := func(q string) { h.Stmts = append(h.Stmts, q) }
	add("create table t0 (pk bigint primary key, a int, b varchar(200), key ia (a))")
	if r.Intn(2) == 0 {
		h.Tables = append(h.Tables, "t1")
		add("create table t1 (x int, y varchar(80))") // keyless
	}
	n := []int{5, 30, 120}[r.Intn(3)]
	if big {
		n = 400 + r.Intn(400)
	}
	ins := func(lo, cnt int) {
		var vals []string
		for k := 0; k < cnt; k++ {
			vals = append(vals, fmt.Sprintf("(%d,%d,'%s')", lo+k, r.Intn(500), randStr(r, 10+r.Intn(150))))
		}
		add("insert into t0 (pk,a,b) values " + strings.Join(vals, ","))
	}
	ins(1, n)
	if len(h.Tables) > 1 {
		add(fmt.Sprintf("insert into t1 values (1,'%s'),(1,'same'),(1,'same'),(2,NULL)", randStr(r, 30)))
	}
	add("call dolt_commit('-Am','m0')")
	for k := 1; k <= 1+r.Intn(3); k++ {
		ins(10000*k, 1+r.Intn(20))
		if r.Intn(2) == 0 {
			add(fmt.Sprintf("update t0 set a = a + %d where pk %% %d = 0", k, 2+r.Intn(5)))
		}
		if r.Intn(4) == 0 {
			add(fmt.Sprintf("delete from t0 where pk %% %d = 1 and pk < 10000", 7+r.Intn(5)))
		}
		add(fmt.Sprintf("call dolt_commit('-Am','m%d')", k))
	}
	nb := 1 + r.Intn(3)
	for b := 1; b <= nb; b++ {
		name := fmt.Sprintf("b%d", b)
		h.Branches = append(h.Branches, name)
		add(fmt.Sprintf("call dolt_checkout('-b','%s','main~%d')", name, r.Intn(2)))
		for k := 0; k < 1+r.Intn(3); k++ {
			ins(100000*b+1000*k, 1+r.Intn(15))
			if k == 0 && r.Intn(3) == 0 {
				add(fmt.Sprintf("alter table t0 add column e%d int default %d", b, b))
			}
			add(fmt.Sprintf("call dolt_commit('-Am','%s-%d')", name, k))
		}
		add("call dolt_checkout('main')")
	}
	if r.Intn(2) == 0 { // a real merge commit on main
		add("call dolt_merge('--no-ff','b1','-m','merge b1')")
	}
	add("call dolt_tag('v1','main')")
	if r.Intn(2) == 0 {
		add("call dolt_tag('v0','main~1','-m','older')")
	}
	return h
}

// ---------------------------------------------------------------------------------------------------------------
// C35, stage "transfer": successful push / clone / pull / fetch over file:// remotes and the remotesapi.

func c35transfer(c *rig.Ctx) {
	c.Rule("seeded source histories (1-2 tables incl. keyless, 5-120 rows, 2-4 commits on main, 1-3 branches with own commits and sometimes a " +
		"schema change, optional --no-ff merge, tags) in one sql-server; per case: push every branch and a tag to a fresh file:// remote " +
		"(remote heads + chunk closure checked through the Go API), clone into a second database (commit graph, schema and rows of every commit " +
		"of every branch compared with the source), clone pushes / source pulls (fast-forward), both diverge: non-ff push must be rejected and " +
		"leave the remote unchanged, pull with merge then push, fetch at the source, --force push; the same source is cloned and re-pulled " +
		"through the server's remotesapi (http://localhost). After every successful non-force push the old remote head must be an ancestor of " +
		"the new one. distinct = (history shape, transfer step) combinations observed")
	c.Assume("a file remote is observed through doltdb.LoadDoltDB in the monitor's process (same store instance the server pushes through) and additionally through a fresh clone")
	dir := c.TempDir("c35t")
	defer os.RemoveAll(dir)
	port := freePort()
	srv, err := sqlrig.Start(filepath.Join(dir, "data"), "--remotesapi-port", fmt.Sprint(port))
	rig.Must(err)
	defer srv.Stop()
	tl := newTally()
	var vmu sync.Mutex
	n := c.Pick(6, 80)
	var wg sync.WaitGroup
	ch := make(chan int)
	for w := 0; w < 4; w++ {
		wg.Add(1)
		go func() {
			defer wg.Done()
			for i := range ch {
				c35transferCase(c, srv, dir, port, i, tl, &vmu)
			}
		}()
	}
	for i := 0; i < n; i++ {
		ch <- i
	}
	close(ch)
	wg.Wait()
	tl.flush(c)
	c.Require(tl.get("c35.push_ok") > 0 && tl.get("c35.clone_ok") > 0 && tl.get("c35.pull_ok") > 0 && tl.get("c35.fetch_ok") > 0, "a transfer kind never succeeded")
	c.Require(tl.get("c35.nonff_push_rejected") > 0, "no non-fast-forward push was attempted")
	c.Require(tl.get("c35.graphs_compared") > 0, "no commit graph was compared")
}

func c35transferCase(c *rig.Ctx, srv *sqlrig.Server, dir string, port, i int, tl *tally, vmu *sync.Mutex) {
	r := c.SubRand("c35t", i)
	h := genC35(r, false)
	src, cl, hc := fmt.Sprintf("s%d", i), fmt.Sprintf("c%d", i), fmt.Sprintf("h%d", i)
	remDir := filepath.Join(dir, fmt.Sprintf("rem%d", i))
	url := "file://" + remDir
	vmu.Lock()
	c.Case(fmt.Sprintf("c35/transfer/%d", i), map[string]any{"source": src, "remote": url, "history": h.Stmts})
	vmu.Unlock()
	wit := map[string]any{"source_db": src, "history": h.Stmts, "remote": url}
	viol := func(key, what string, extra any) {
		vmu.Lock()
		c.Violation(key, what, map[string]any{"case": wit, "detail": extra})
		vmu.Unlock()
	}
	x := srv.MustOpen("")
	defer x.Close()
	y := srv.MustOpen("") // observer session (switches databases)
	defer y.Close()
	skip := func(err error) bool {
		if err != nil {
			vmu.Lock()
			c.Note(fmt.Sprintf("case %d skipped: %v", i, trunc(err.Error(), 300)))
			vmu.Unlock()
			tl.inc("c35.cases_skipped")
			return true
		}
		return false
	}
	if skip(script(x, "create database "+src, "use "+src)) || skip(script(x, h.Stmts...)) {
		return
	}
	if skip(script(x, "call dolt_remote('add','origin','"+url+"')")) {
		return
	}
	distinct := func(step string) {
		vmu.Lock()
		c.Distinct(fmt.Sprintf("c35t/%s/tables%d/branches%d", step, len(h.Tables), len(h.Branches)))
		vmu.Unlock()
	}
	// compareGraphs: everything reachable from `head` must read the same in databases a and b
	compareGraphs := func(step, a, b, head string) {
		fa, fb := sqlrig.Fingerprint{}, sqlrig.Fingerprint{}
		commitGraphFingerprint(y, a, head, fa, map[string]bool{})
		commitGraphFingerprint(y, b, head, fb, map[string]bool{})
		tl.inc("c35.graphs_compared")
		tl.add("c35.commits_compared", len(strings.Split(fa["g/"+head], ",")))
		if e := fpErrors(fb); len(e) > 0 {
			viol("c35/"+step+"/unreadable", fmt.Sprintf("after a successful %s, data reachable from transferred commit %s cannot be read at the destination %s: %v", step, head, b, e), nil)
			return
		}
		if e := fpErrors(fa); len(e) > 0 {
			vmu.Lock()
			c.Note(fmt.Sprintf("source unreadable (%s): %v", a, e))
			vmu.Unlock()
			return
		}
		if d := fa.Diff(fb); len(d) > 0 {
			viol("c35/"+step+"/differs", fmt.Sprintf("after a successful %s, commit %s reads differently at %s than at %s: %s", step, head, b, a, trunc(d[0], 400)), d)
		}
	}
	// checkRemote: the remote's head of `branch` must be `want` and its closure complete
	checkRemote := func(step, name, want string) {
		v := viewRemote(remDir)
		if v.Err != "" {
			viol("c35/"+step+"/remote-unopenable", "remote cannot be opened after "+step+": "+v.Err, nil)
			return
		}
		if got := v.Heads[name]; got != want {
			viol("c35/"+step+"/remote-head", fmt.Sprintf("after %s the remote's %s is %s, expected %s", step, name, got, want), v.Heads)
			return
		}
		rep := v.closureOf(want)
		tl.add("c35.remote_closure_chunks", rep.Chunks)
		if len(rep.Problems) > 0 {
			viol("c35/"+step+"/remote-closure", fmt.Sprintf("after %s the remote's %s=%s has an incomplete closure: %v", step, name, want, rep.Problems), nil)
		}
	}

	// 1. push everything
	sh, err := branchHeads(y, src)
	if skip(err) {
		return
	}
	pushAll := r.Intn(3) == 0
	if pushAll {
		if err := script(x, "call dolt_push('origin','--all')"); err != nil {
			viol("c35/push/error", "dolt_push --all to a fresh file remote failed: "+err.Error(), nil)
			return
		}
	} else {
		for _, b := range append([]string{"main"}, h.Branches...) {
			if err := script(x, "call dolt_push('origin','"+b+"')"); err != nil {
				viol("c35/push/error", "dolt_push of "+b+" to a fresh file remote failed: "+err.Error(), nil)
				return
			}
		}
	}
	tl.inc("c35.push_ok")
	for b, hh := range sh {
		checkRemote("push", "heads/"+b, hh)
	}
	if err := script(x, "call dolt_push('origin','v1')"); err != nil {
		viol("c35/push/error", "dolt_push of tag v1 failed: "+err.Error(), nil)
	} else {
		tl.inc("c35.push_tag_ok")
		v := viewRemote(remDir)
		if v.Heads["tags/v1"] == "" {
			viol("c35/push/remote-head", "after pushing tag v1 the remote has no such tag", v.Heads)
		} else if rep := v.closureOf(v.Heads["tags/v1"]); len(rep.Problems) > 0 {
			viol("c35/push/remote-closure", fmt.Sprintf("tag v1 at the remote has an incomplete closure: %v", rep.Problems), nil)
		}
	}
	distinct("push")

	// 2. clone
	if err := script(x, "call dolt_clone('"+url+"','"+cl+"')"); err != nil {
		viol("c35/clone/error", "dolt_clone of the file remote failed: "+err.Error(), nil)
		return
	}
	tl.inc("c35.clone_ok")
	crh, err := remoteBranchHeads(y, cl)
	if err != nil {
		viol("c35/clone/unreadable", "dolt_remote_branches of the clone: "+err.Error(), nil)
		return
	}
	for b, hh := range sh {
		if crh["origin/"+b] != hh {
			viol("c35/clone/ref", fmt.Sprintf("clone's origin/%s is %q, source branch is %s", b, crh["origin/"+b], hh), crh)
			continue
		}
		compareGraphs("clone", src, cl, hh)
	}
	if ch, _ := branchHeads(y, cl); ch["main"] != sh["main"] {
		viol("c35/clone/ref", fmt.Sprintf("clone's main is %q, source main is %s", ch["main"], sh["main"]), nil)
	}
	if t, err := y.Scalar("select tag_hash from `" + cl + "`.dolt_tags where tag_name = 'v1'"); err != nil || t == "" {
		viol("c35/clone/ref", fmt.Sprintf("tag v1 missing in the clone (%v)", err), nil)
	}
	if ddb, err := srv.OpenDoltDB(cl); err == nil {
		if rep := sqlrig.WalkClosure(ddb, nil, false); len(rep.Problems) > 0 {
			viol("c35/clone/closure", fmt.Sprintf("the clone's store has dangling or altered chunks: %v", rep.Problems), nil)
		} else {
			tl.add("c35.clone_closure_chunks", rep.Chunks)
		}
	}
	distinct("clone")

	// 3. clone commits and pushes (fast-forward), source pulls (fast-forward)
	z := srv.MustOpen(cl)
	defer z.Close()
	oldHead := sh["main"]
	if skip(script(z, fmt.Sprintf("insert into t0 (pk,a,b) values (%d,1,'%s')", 500000+i, randStr(r, 80)), "call dolt_commit('-Am','from-clone')")) {
		return
	}
	ch1, _ := branchHeads(y, cl)
	if err := script(z, "call dolt_push('origin','main')"); err != nil {
		viol("c35/push/error", "fast-forward push from the clone failed: "+err.Error(), nil)
		return
	}
	tl.inc("c35.push_ok")
	checkRemote("push", "heads/main", ch1["main"])
	if ok, err := isAncestor(y, cl, oldHead, ch1["main"]); err == nil && !ok {
		viol("c35/push/removed-commits", fmt.Sprintf("a fast-forward-only push replaced remote head %s by %s which does not descend from it", oldHead, ch1["main"]), nil)
	}
	if err := script(x, "call dolt_pull('origin','main')"); err != nil {
		viol("c35/pull/error", "fast-forward pull failed: "+err.Error(), nil)
		return
	}
	tl.inc("c35.pull_ok")
	sh, _ = branchHeads(y, src)
	if sh["main"] != ch1["main"] {
		viol("c35/pull/ref", fmt.Sprintf("after a fast-forward pull source main is %s, remote main is %s", sh["main"], ch1["main"]), nil)
	} else {
		compareGraphs("pull", cl, src, sh["main"])
	}
	distinct("pull-ff")

	// 4. divergence: non-ff push must be rejected and leave the remote unchanged
	if skip(script(x, fmt.Sprintf("insert into t0 (pk,a,b) values (%d,2,'%s')", 600000+i, randStr(r, 60)), "call dolt_commit('-Am','src-diverge')", "call dolt_push('origin','main')")) {
		return
	}
	sh, _ = branchHeads(y, src)
	if skip(script(z, fmt.Sprintf("insert into t0 (pk,a,b) values (%d,3,'%s')", 700000+i, randStr(r, 60)), "call dolt_commit('-Am','clone-diverge')")) {
		return
	}
	if err := script(z, "call dolt_push('origin','main')"); err == nil {
		ch2, _ := branchHeads(y, cl)
		viol("c35/push/nonff-accepted", fmt.Sprintf("a push without --force of %s onto remote head %s (diverged) was accepted", ch2["main"], sh["main"]), nil)
		return
	}
	tl.inc("c35.nonff_push_rejected")
	checkRemote("rejected-push", "heads/main", sh["main"])
	if v := viewRemote(remDir); v.Err == "" {
		if rep := sqlrig.WalkClosure(v.ddb, nil, false); len(rep.Problems) > 0 {
			viol("c35/rejected-push/remote-closure", fmt.Sprintf("after a rejected push the remote has dangling chunks: %v", rep.Problems), nil)
		}
	}
	// pull with merge, push the merge
	if err := script(z, "call dolt_pull('origin','main')"); err != nil {
		viol("c35/pull/error", "pull with merge of disjoint rows failed: "+err.Error(), nil)
		return
	}
	tl.inc("c35.pull_ok")
	tl.inc("c35.pull_merge_ok")
	ch2, _ := branchHeads(y, cl)
	if ok, err := isAncestor(y, cl, sh["main"], ch2["main"]); err != nil || !ok {
		viol("c35/pull/ref", fmt.Sprintf("after a merging pull the remote head %s is not an ancestor of main %s (%v)", sh["main"], ch2["main"], err), nil)
	}
	compareGraphs("pull", src, cl, sh["main"])
	if err := script(z, "call dolt_push('origin','main')"); err != nil {
		viol("c35/push/error", "push of the merge commit failed: "+err.Error(), nil)
		return
	}
	tl.inc("c35.push_ok")
	checkRemote("push", "heads/main", ch2["main"])
	// 5. fetch at the source
	if err := script(x, "call dolt_fetch('origin')"); err != nil {
		viol("c35/fetch/error", "dolt_fetch failed: "+err.Error(), nil)
		return
	}
	tl.inc("c35.fetch_ok")
	srh, _ := remoteBranchHeads(y, src)
	if srh["origin/main"] != ch2["main"] {
		viol("c35/fetch/ref", fmt.Sprintf("after fetch origin/main is %s, remote main is %s", srh["origin/main"], ch2["main"]), nil)
	} else {
		compareGraphs("fetch", cl, src, ch2["main"])
	}
	distinct("diverge-merge-fetch")
	// 6. force push from the (stale) source
	if skip(script(x, fmt.Sprintf("insert into t0 (pk,a,b) values (%d,4,'%s')", 800000+i, randStr(r, 60)), "call dolt_commit('-Am','src-force')")) {
		return
	}
	sh, _ = branchHeads(y, src)
	if err := script(x, "call dolt_push('origin','main')"); err == nil {
		viol("c35/push/nonff-accepted", "a second diverged push without --force was accepted", nil)
	} else {
		tl.inc("c35.nonff_push_rejected")
		checkRemote("rejected-push", "heads/main", ch2["main"])
	}
	if err := script(x, "call dolt_push('--force','origin','main')"); err != nil {
		viol("c35/push/error", "push --force failed: "+err.Error(), nil)
	} else {
		tl.inc("c35.force_push_ok")
		checkRemote("push-force", "heads/main", sh["main"])
	}
	// 7. remotesapi: clone the source database over http, then pull new commits
	hurl := fmt.Sprintf("http://localhost:%d/%s", port, src)
	if err := script(x, "call dolt_clone('"+hurl+"','"+hc+"')"); err != nil {
		vmu.Lock()
		c.Note("remotesapi clone not available: " + trunc(err.Error(), 200))
		vmu.Unlock()
		tl.inc("c35.http_clone_unavailable")
		return
	}
	tl.inc("c35.http_clone_ok")
	sh, _ = branchHeads(y, src)
	hrh, _ := remoteBranchHeads(y, hc)
	for b, hh := range sh {
		if hrh["origin/"+b] != hh {
			viol("c35/http-clone/ref", fmt.Sprintf("http clone's origin/%s is %q, source branch is %s", b, hrh["origin/"+b], hh), hrh)
			continue
		}
		compareGraphs("http-clone", src, hc, hh)
	}
	if ddb, err := srv.OpenDoltDB(hc); err == nil {
		if rep := sqlrig.WalkClosure(ddb, nil, false); len(rep.Problems) > 0 {
			viol("c35/http-clone/closure", fmt.Sprintf("the http clone's store has dangling or altered chunks: %v", rep.Problems), nil)
		}
	}
	if skip(script(x, fmt.Sprintf("insert into t0 (pk,a,b) values (%d,5,'%s')", 900000+i, randStr(r, 60)), "call dolt_commit('-Am','src-after-http-clone')")) {
		return
	}
	sh, _ = branchHeads(y, src)
	w := srv.MustOpen(hc)
	defer w.Close()
	if err := script(w, "call dolt_pull('origin','main')"); err != nil {
		viol("c35/http-pull/error", "pull over the remotesapi failed: "+err.Error(), nil)
		return
	}
	tl.inc("c35.http_pull_ok")
	if hh, _ := branchHeads(y, hc); hh["main"] != sh["main"] {
		viol("c35/http-pull/ref", fmt.Sprintf("after pull over http main is %s, source main is %s", hh["main"], sh["main"]), nil)
	} else {
		compareGraphs("http-pull", src, hc, sh["main"])
	}
	distinct("http")
}
