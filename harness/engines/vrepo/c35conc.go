package vrepo

import (
	"fmt"
	"os"
	"path/filepath"
	"strings"
	"sync"
	"time"

	"github.com/dolthub/dolt/go/libraries/utils/verifhook"

	"verif/rig"
	"verif/sqlrig"
)

// ---------------------------------------------------------------------------------------------------------------
// C35, stage "concurrent-push".
//
// Round kinds (what the pushed ref is at the remote when both pushers start):
//   existing     : both pushers cloned remote main = H0 and push different new heads of main
//   new-branch   : remote has main, both pushers create branch `feat` locally and push it (the ref does not exist
//                  at the remote: old head = none)
//   fresh-remote : the remote directory does not exist yet; both pushers (same history up to H0, obtained through a
//                  side remote) push main to it (old head = none, store uninitialised)
// In a quarter of the rounds B's head descends from A's (B fetched A's head through a side remote).

// concPlan is the script of one round; the same statements run on wire sessions of one server (in-process mode) or
// as child-server scripts (two-processes mode).
type concPlan struct {
	Kind   string `json:"kind"`
	Desc   bool   `json:"descends"`
	Branch string `json:"branch"`
	Rem    string `json:"remote_dir"`

	ASetup, BSetup []string // B's setup runs after A's
	ANew, BNew     []string // B's runs after A's
	Push           string
	Converge       []string
}

func concKind(round int) string {
	switch round % 6 {
	case 0, 3:
		return "existing"
	case 5:
		return "fresh-remote"
	}
	return "new-branch"
}

// concFree reports the rounds in which the pushers are not forced into the commit window together (only a short sleep
// at datas.update.beforeCommit): there the second pusher often resolves the remote ref after the first one landed, which
// exercises the ancestor test instead of the retry re-validation.
func concFree(round int) bool { return round%6 == 2 || round%6 == 3 }

func genConc(r interface{ Intn(int) int }, round int, da, dbb, base string) *concPlan {
	p := &concPlan{Kind: concKind(round), Desc: r.Intn(4) == 0, Branch: "main", Rem: filepath.Join(base, "rem")}
	side, dsc := filepath.Join(base, "side"), filepath.Join(base, "dsc")
	rs := func(n int) string {
		const al = "abcdefghijklmnopqrstuvwxyz0123456789"
		b := make([]byte, n)
		for i := range b {
			b[i] = al[r.Intn(len(al))]
		}
		return string(b)
	}
	p.ASetup = []string{"create database " + da, "use " + da, "create table t (pk bigint primary key, v varchar(100))",
		fmt.Sprintf("insert into t values (1,'%s')", rs(40)), "call dolt_commit('-Am','h0')",
		"call dolt_remote('add','tgt','file://" + p.Rem + "')"}
	if p.Kind == "fresh-remote" {
		p.ASetup = append(p.ASetup, "call dolt_remote('add','side','file://"+side+"')", "call dolt_push('side','main')")
		p.BSetup = []string{"call dolt_clone('file://" + side + "','" + dbb + "')", "use " + dbb, "call dolt_remote('add','tgt','file://" + p.Rem + "')"}
	} else {
		p.ASetup = append(p.ASetup, "call dolt_push('tgt','main')")
		p.BSetup = []string{"call dolt_clone('file://" + p.Rem + "','" + dbb + "')", "use " + dbb, "call dolt_remote('add','tgt','file://" + p.Rem + "')"}
	}
	if p.Kind == "new-branch" {
		p.Branch = fmt.Sprintf("feat%d", round)
		p.ANew = append(p.ANew, "call dolt_checkout('-b','"+p.Branch+"')")
	}
	p.ANew = append(p.ANew, fmt.Sprintf("insert into t values (%d,'%s')", 100+round, rs(60)), "call dolt_commit('-Am','a1')")
	if p.Desc {
		p.ANew = append(p.ANew, "call dolt_remote('add','dsc','file://"+dsc+"')", "call dolt_push('dsc','"+p.Branch+"')")
		p.BNew = append(p.BNew, "call dolt_remote('add','dsc','file://"+dsc+"')", "call dolt_fetch('dsc')")
		if p.Kind == "new-branch" {
			p.BNew = append(p.BNew, "call dolt_checkout('-b','"+p.Branch+"','dsc/"+p.Branch+"')")
		} else {
			p.BNew = append(p.BNew, "call dolt_merge('dsc/main')")
		}
	} else if p.Kind == "new-branch" {
		p.BNew = append(p.BNew, "call dolt_checkout('-b','"+p.Branch+"')")
	}
	p.BNew = append(p.BNew, fmt.Sprintf("insert into t values (%d,'%s')", 200+round, rs(60)), "call dolt_commit('-Am','b1')")
	p.Push = "call dolt_push('tgt','" + p.Branch + "')"
	p.Converge = []string{"call dolt_pull('tgt','" + p.Branch + "')", p.Push}
	return p
}

// rendezvous lets the first two hits of a hook point after arm() wait for each other (bounded), so that both pushers
// are inside datas update() between "closure evaluated on the old root" and "root committed" at the same time: the
// second committer then necessarily takes the optimistic-lock retry path.
type rendezvous struct {
	mu      sync.Mutex
	armed   bool
	waiting chan struct{}
	met     bool
}

func (r *rendezvous) arm() { r.mu.Lock(); r.armed, r.met, r.waiting = true, false, nil; r.mu.Unlock() }
func (r *rendezvous) disarm() bool {
	r.mu.Lock()
	defer r.mu.Unlock()
	r.armed = false
	return r.met
}

func (r *rendezvous) hit() {
	r.mu.Lock()
	if !r.armed {
		r.mu.Unlock()
		time.Sleep(2 * time.Millisecond)
		return
	}
	if r.waiting == nil {
		ch := make(chan struct{})
		r.waiting = ch
		r.mu.Unlock()
		select {
		case <-ch:
		case <-time.After(400 * time.Millisecond):
			r.mu.Lock()
			if r.waiting == ch {
				r.waiting = nil
			}
			r.mu.Unlock()
		}
		return
	}
	ch := r.waiting
	r.waiting, r.met, r.armed = nil, true, false
	r.mu.Unlock()
	close(ch)
}

func isRejected(err error) bool {
	if err == nil {
		return false
	}
	s := strings.ToLower(err.Error())
	return strings.Contains(s, "failed to push some refs") || strings.Contains(s, "non-fast-forward") || strings.Contains(s, "merge needed") || strings.Contains(s, "fast forward") || strings.Contains(s, "fast-forward")
}

func c35concurrent(c *rig.Ctx) {
	c.Rule("rounds of two pushers that start from the same old remote head and each committed a different new head, pushing the same ref at the " +
		"same moment. Kinds: `existing` (both cloned remote main=H0 and push main), `new-branch` (remote has main; both create branch feat<n> " +
		"locally and push it: old head = none), `fresh-remote` (remote directory does not exist; both push main: old head = none). In a quarter " +
		"of the rounds B's head descends from A's (fetched through a side remote). Modes: one server process (two databases, two sessions; the " +
		"first two hits of datas.update.beforeCommit after the start wait for each other, so both pushers sit between closure evaluation and " +
		"root commit and the second committer takes the optimistic-lock retry path — except in a third of the rounds, where only a short sleep is " +
		"injected so that the late pusher often resolves the ref after the first landed; nbs.commit.beforeManifestUpdate yields) and two separate " +
		"server processes (barrier file for the start, file rendezvous resp. sleep at datas.update.beforeCommit). Rule: both may succeed only if one head " +
		"descends from the other; the remote head afterwards is the head of a successful pusher (the old head / none if nobody succeeded), never " +
		"one that drops an acknowledged push; remote closure complete; the loser pulls + pushes and the remote converges. " +
		"distinct = (mode, kind, descends, outcome)")
	dir := c.TempDir("c35c")
	defer os.RemoveAll(dir)
	srv, err := sqlrig.Start(filepath.Join(dir, "data"))
	rig.Must(err)
	defer srv.Stop()
	tl := newTally()
	rv := &rendezvous{}
	verifhook.Set("datas.update.beforeCommit", verifhook.Action{Kind: "func", Fn: func(string, int64) error { rv.hit(); return nil }})
	verifhook.Set("nbs.commit.beforeManifestUpdate", verifhook.Action{Kind: "yield"})
	defer verifhook.Clear("")

	judge := func(mode string, p *concPlan, met bool, h0, a1, b1 string, errA, errB error, wit map[string]any) {
		okA, okB := errA == nil, errB == nil
		out := fmt.Sprintf("A=%v,B=%v", okA, okB)
		tl.inc("c35.concurrent." + mode + ".rounds")
		tl.inc("c35.concurrent." + mode + "." + p.Kind + ".rounds")
		tl.inc("c35.concurrent." + mode + ".outcome." + out)
		if okA != okB {
			tl.inc("c35.concurrent_rounds_with_one_loser")
			tl.inc("c35.concurrent_rounds_with_one_loser." + p.Kind)
		}
		if met {
			tl.inc("c35.concurrent." + mode + ".rendezvous_met")
			loser := errA
			if okA {
				loser = errB
			}
			// both were past the closure on the old root when the first commit landed: the loser's rejection can only come
			// from the re-validation on the retry path
			if okA != okB && isRejected(loser) {
				tl.inc("c35.concurrent_retry_path_rejections")
				tl.inc("c35.concurrent_retry_path_rejections." + mode + "." + p.Kind)
			}
		}
		c.Distinct(fmt.Sprintf("c35c/%s/%s/desc=%v/%s", mode, p.Kind, p.Desc, out))
		wit["outcome"], wit["rendezvous_met"] = out, met
		wit["errA"], wit["errB"] = fmt.Sprint(errA), fmt.Sprint(errB)
		wit["h0"], wit["a1"], wit["b1"] = h0, a1, b1
		old := h0
		if old == "" {
			old = "(none: the ref did not exist at the remote)"
		}
		if okA && okB && !p.Desc {
			c.Violation("c35/concurrent-push/both-succeeded/"+mode+"/"+p.Kind, fmt.Sprintf("two concurrent pushes of %s from the same old head %s with unrelated new heads %s and %s were both acknowledged", p.Branch, old, a1, b1), wit)
		}
		if _, err := os.Stat(p.Rem); err != nil && !okA && !okB && h0 == "" {
			tl.inc("c35.concurrent_fresh_remote_never_created")
			return
		}
		v := viewRemote(p.Rem)
		if v.Err != "" {
			if !okA && !okB && h0 == "" {
				tl.inc("c35.concurrent_fresh_remote_never_created")
				return
			}
			c.Violation("c35/concurrent-push/remote-unopenable", "remote cannot be opened after concurrent pushes: "+v.Err, wit)
			return
		}
		got := v.Heads["heads/"+p.Branch]
		var allowed []string
		switch {
		case okA && okB && p.Desc:
			allowed = []string{b1} // b1 descends from a1: a remote at a1 would have dropped acknowledged b1
		case okA && okB:
			allowed = []string{a1, b1}
		case okA:
			allowed = []string{a1}
		case okB:
			allowed = []string{b1}
		default:
			allowed = []string{h0}
		}
		ok := false
		for _, a := range allowed {
			ok = ok || a == got
		}
		if !ok {
			c.Violation("c35/concurrent-push/remote-head/"+mode+"/"+p.Kind, fmt.Sprintf("after concurrent pushes of %s (%s) the remote head is %q; allowed %q (old=%s a1=%s b1=%s)", p.Branch, out, got, allowed, old, a1, b1), wit)
		}
		if rep := sqlrig.WalkClosure(v.ddb, nil, false); len(rep.Problems) > 0 {
			c.Violation("c35/concurrent-push/remote-closure/"+mode, fmt.Sprintf("after concurrent pushes the remote has dangling chunks: %v", rep.Problems), wit)
		}
	}

	// --- in one process
	n1 := c.Pick(18, 180)
	for round := 0; round < n1; round++ {
		r := c.SubRand("c35c-in", round)
		da, dbb := fmt.Sprintf("a%d", round), fmt.Sprintf("b%d", round)
		base := filepath.Join(dir, fmt.Sprintf("in%d", round))
		os.MkdirAll(base, 0o755)
		p := genConc(r, round, da, dbb, base)
		wit := map[string]any{"mode": "in-process", "round": round, "plan": p, "replay": "A: ASetup, ANew; B: BSetup, BNew; then both Push concurrently"}
		c.Case(fmt.Sprintf("c35/concurrent/in/%d", round), wit)
		xa, xb := srv.MustOpen(""), srv.MustOpen("")
		var h0, a1, b1 string
		err := script(xa, p.ASetup...)
		if err == nil && p.Kind == "existing" {
			h0, _ = xa.Scalar("select hashof('main')")
		}
		if err == nil {
			err = script(xb, p.BSetup...)
		}
		if err == nil {
			err = script(xa, p.ANew...)
		}
		if err == nil {
			err = script(xb, p.BNew...)
		}
		if err == nil {
			a1, _ = xa.Scalar("select hashof('" + p.Branch + "')")
			b1, _ = xb.Scalar("select hashof('" + p.Branch + "')")
		}
		if err != nil || a1 == "" || b1 == "" || a1 == b1 {
			c.Note(fmt.Sprintf("concurrent round setup failed (%s): %v", p.Kind, err))
			tl.inc("c35.concurrent_setup_failed")
			xa.Close()
			xb.Close()
			continue
		}
		var errA, errB error
		var wg sync.WaitGroup
		start := make(chan struct{})
		wg.Add(2)
		go func() { defer wg.Done(); <-start; errA = script(xa, p.Push) }()
		go func() { defer wg.Done(); <-start; errB = script(xb, p.Push) }()
		rv.arm()
		if concFree(round) {
			rv.disarm() // met is reset, nobody waits
		}
		close(start)
		wg.Wait()
		met := rv.disarm()
		judge("in-process", p, met, h0, a1, b1, errA, errB, wit)
		// convergence: losers pull and push
		for k, x := range []*sqlrig.Session{xa, xb} {
			if (k == 0 && errA == nil) || (k == 1 && errB == nil) {
				continue
			}
			if err := script(x, p.Converge...); err != nil {
				if strings.Contains(err.Error(), "up to date") || strings.Contains(err.Error(), "up-to-date") {
					continue
				}
				c.Violation("c35/concurrent-push/no-convergence", "after losing a concurrent push, pull + push failed: "+err.Error(), wit)
			} else {
				tl.inc("c35.concurrent_loser_converged")
				hh, _ := x.Scalar("select hashof('" + p.Branch + "')")
				if v := viewRemote(p.Rem); v.Heads["heads/"+p.Branch] != hh {
					c.Violation("c35/concurrent-push/no-convergence", fmt.Sprintf("after pull + push the remote head is %s, the pusher's head %s", v.Heads["heads/"+p.Branch], hh), wit)
				}
			}
		}
		xa.Close()
		xb.Close()
	}
	rv.disarm()

	// --- from two server processes
	n2 := c.Pick(6, 48)
	type res struct {
		p          *concPlan
		met        bool
		h0, a1, b1 string
		errA, errB error
		wit        map[string]any
		ok         bool
	}
	results := make([]res, n2)
	var wg sync.WaitGroup
	sem := make(chan struct{}, 3)
	for round := 0; round < n2; round++ {
		c.Case(fmt.Sprintf("c35/concurrent/proc/%d", round), map[string]any{"mode": "two-processes", "round": round, "kind": concKind(round + 1)})
		wg.Add(1)
		sem <- struct{}{}
		go func(round int) {
			defer wg.Done()
			defer func() { <-sem }()
			r := c.SubRand("c35c-proc", round)
			base := filepath.Join(dir, fmt.Sprintf("proc%d", round))
			rvDir := filepath.Join(base, "rv")
			os.MkdirAll(rvDir, 0o755)
			p := genConc(r, round+1, "pa", "pb", base) // +1: the first two-process rounds are new-branch rounds
			f := func(n string) string { return filepath.Join(base, n) }
			idx := map[string]int{}
			var stepsA, stepsB []childStep
			addA := func(label string, st childStep) {
				if label != "" {
					idx["A."+label] = len(stepsA)
				}
				stepsA = append(stepsA, st)
			}
			addB := func(label string, st childStep) {
				if label != "" {
					idx["B."+label] = len(stepsB)
				}
				stepsB = append(stepsB, st)
			}
			sqlSteps := func(add func(string, childStep), stmts []string) {
				for _, q := range stmts {
					if strings.HasPrefix(q, "use ") {
						continue // the child switches with DB on the next step
					}
					add("", childStep{SQL: q})
				}
			}
			// A
			addA("", childStep{SQL: p.ASetup[0]})
			for i, q := range p.ASetup[2:] {
				st := childStep{SQL: q}
				if i == 0 {
					st.DB = "pa"
				}
				addA("", st)
			}
			addA("h0", childStep{SQL: "select hashof('main')"})
			addA("", childStep{Touch: f("setupA")})
			sqlSteps(addA, p.ANew)
			addA("a1", childStep{SQL: "select hashof('" + p.Branch + "')"})
			addA("", childStep{Touch: f("readyA")})
			addA("", childStep{WaitFile: f("go")})
			hook := "datas.update.beforeCommit=rendezvous(" + rvDir + ")"
			if concFree(round + 1) {
				hook = "datas.update.beforeCommit=sleep(3)"
			}
			addA("push", childStep{SQL: p.Push, Hooks: hook})
			// B
			addB("", childStep{WaitFile: f("setupA")})
			addB("", childStep{SQL: p.BSetup[0]})
			for i, q := range p.BSetup[2:] {
				st := childStep{SQL: q}
				if i == 0 {
					st.DB = "pb"
				}
				addB("", st)
			}
			addB("", childStep{WaitFile: f("readyA")})
			if len(p.BSetup) == 2 {
				stepsB[len(stepsB)-1].DB = "pb"
			}
			sqlSteps(addB, p.BNew)
			addB("b1", childStep{SQL: "select hashof('" + p.Branch + "')"})
			addB("", childStep{Touch: f("readyB")})
			addB("", childStep{WaitFile: f("go")})
			addB("push", childStep{SQL: p.Push, Hooks: hook})
			var oa, ob childOutcome
			var cw sync.WaitGroup
			cw.Add(2)
			go func() { defer cw.Done(); oa = runChild(c, filepath.Join(base, "dataA"), "", stepsA) }()
			go func() { defer cw.Done(); ob = runChild(c, filepath.Join(base, "dataB"), "", stepsB) }()
			go func() {
				for k := 0; k < 120000; k++ {
					_, e1 := os.Stat(f("readyA"))
					_, e2 := os.Stat(f("readyB"))
					if e1 == nil && e2 == nil {
						break
					}
					time.Sleep(5 * time.Millisecond)
				}
				os.WriteFile(f("go"), []byte("x"), 0o644)
			}()
			cw.Wait()
			get := func(o childOutcome, step int) (string, error) {
				rr := o.result(step)
				if rr == nil {
					return "", fmt.Errorf("step %d did not run (exit %d killed %v log %s)", step, o.ExitCode, o.Killed, trunc(o.Log, 300))
				}
				if rr.Err != "" {
					return "", fmt.Errorf("%s", rr.Err)
				}
				if len(rr.Rows) > 0 && len(rr.Rows[0]) > 0 {
					return rr.Rows[0][0], nil
				}
				return "", nil
			}
			rs := res{p: p, wit: map[string]any{"mode": "two-processes", "round": round, "plan": p, "stepsA": stepsA, "stepsB": stepsB}}
			var e1, e2, e3 error
			rs.h0, e1 = get(oa, idx["A.h0"])
			if p.Kind != "existing" {
				rs.h0 = ""
			}
			rs.a1, e2 = get(oa, idx["A.a1"])
			rs.b1, e3 = get(ob, idx["B.b1"])
			// any failed setup statement makes the round void
			var setupErr error
			for _, rr := range oa.Results {
				if rr.Err != "" && rr.Step != idx["A.push"] && setupErr == nil {
					setupErr = fmt.Errorf("A step %d: %s", rr.Step, rr.Err)
				}
			}
			for _, rr := range ob.Results {
				if rr.Err != "" && rr.Step != idx["B.push"] && setupErr == nil {
					setupErr = fmt.Errorf("B step %d: %s", rr.Step, rr.Err)
				}
			}
			if e1 != nil || e2 != nil || e3 != nil || setupErr != nil || rs.a1 == "" || rs.a1 == rs.b1 || oa.result(idx["A.push"]) == nil || ob.result(idx["B.push"]) == nil {
				c.Note(fmt.Sprintf("two-process round %d (%s) setup failed: %v %v %v %v", round, p.Kind, e1, e2, e3, setupErr))
				tl.inc("c35.concurrent_setup_failed")
				results[round] = rs
				return
			}
			_, rs.errA = get(oa, idx["A.push"])
			_, rs.errB = get(ob, idx["B.push"])
			m, _ := filepath.Glob(filepath.Join(rvDir, "met-*"))
			rs.met = len(m) >= 2
			rs.ok = true
			results[round] = rs
		}(round)
	}
	wg.Wait()
	for _, rs := range results {
		if rs.ok {
			judge("two-processes", rs.p, rs.met, rs.h0, rs.a1, rs.b1, rs.errA, rs.errB, rs.wit)
		}
	}
	tl.flush(c)
	c.Require(tl.get("c35.concurrent_rounds_with_one_loser") > 0, "no round of concurrent pushes had exactly one loser")
	c.Require(tl.get("c35.concurrent_rounds_with_one_loser.new-branch") > 0, "no round that creates a new remote branch had exactly one loser")
	c.Require(tl.get("c35.concurrent.two-processes.rounds") > 0, "no two-process round completed")
	c.Require(tl.get("c35.concurrent_retry_path_rejections.in-process.new-branch")+tl.get("c35.concurrent_retry_path_rejections.two-processes.new-branch")+
		tl.get("c35.concurrent_retry_path_rejections.in-process.fresh-remote")+tl.get("c35.concurrent_retry_path_rejections.two-processes.fresh-remote") > 0,
		"no ref-creating round in which both pushers were between closure and commit at the same time and exactly one was rejected (optimistic-lock retry path not reached)")
}
