package vrepo

import (
	"context"
	"encoding/json"
	"fmt"
	"math/rand"
	"os"
	"os/exec"
	"path/filepath"
	"sort"
	"strings"
	"sync"

	"github.com/dolthub/dolt/go/cmd/dolt/cli"
	"github.com/dolthub/dolt/go/cmd/dolt/commands"
	"github.com/dolthub/dolt/go/libraries/doltcore/dbfactory"
	"github.com/dolthub/dolt/go/libraries/doltcore/doltdb"
	"github.com/dolthub/dolt/go/libraries/doltcore/env"
	"github.com/dolthub/dolt/go/libraries/doltcore/sqle/dprocedures"
	"github.com/dolthub/dolt/go/libraries/utils/filesys"
	"github.com/dolthub/dolt/go/store/hash"

	"verif/rig"
	"verif/sqlrig"
)

// ---------------------------------------------------------------------------------------------------------------
// C08, stage "states": generated repositories are deliberately left in every in-progress state the statement names,
// then collected three times (modes rotate) and restarted; the complete observable state must not change.

// op is one statement of a generated build script. Sess names the wire session that runs it.
type op struct {
	Sess    string `json:"s"`
	SQL     string `json:"q"`
	Snap    string `json:"snap,omitempty"`  // after the statement: record the rows of every user table of the session's working set under this name
	Probe   string `json:"probe,omitempty"` // the statement returns a commit hash that must be garbage after branch deletion
	Head    string `json:"head,omitempty"`  // the statement returns a hash recorded under this name
	MayFail bool   `json:"mayfail,omitempty"`
}

// mutation is one ref mutation between two collections. Root names the root class that alone keeps old data alive afterwards.
type mutation struct {
	Name string `json:"name"`
	Root string `json:"root,omitempty"` // tag | workingset | stash | mergestate | "" (no such effect)
	Ops  []op   `json:"ops"`
}

type gcSpec struct {
	Mode    string `json:"mode"` // default | full | shallow
	Archive int    `json:"archive"`
	Kill    bool   `json:"kill"` // kill_connections safepoint controller instead of session_aware
}

func (g gcSpec) String() string {
	s := g.Mode + fmt.Sprintf("/archive%d", g.Archive)
	if g.Kill {
		s += "/kill"
	}
	return s
}

func (g gcSpec) call() string {
	switch g.Mode {
	case "shallow":
		return "call dolt_gc('--shallow')"
	case "full":
		return fmt.Sprintf("call dolt_gc('--full','--archive-level','%d')", g.Archive)
	}
	return fmt.Sprintf("call dolt_gc('--archive-level','%d')", g.Archive)
}

type c08plan struct {
	DB            string   `json:"db"`
	Tables        []string `json:"tables"`
	Features      []string `json:"features"`
	Ops           []op     `json:"ops"`
	GCs           []gcSpec `json:"gcs"`
	RebaseRows    []string `json:"rebase_rows,omitempty"` // rows the rebased commits insert into t0 (rendered like Rows.Sorted)
	RebaseVariant string   `json:"rebase_variant,omitempty"`
	MergeVariant  string   `json:"merge_variant,omitempty"`
	// Gaps[k] = ref mutations applied between collection k+1 and k+2: they move chunks that an earlier collection put into
	// the old generation (branch-reachable then) under roots of the new-generation class (tag, working set, stash, merge state)
	Gaps   [2][]mutation `json:"gaps"`
	Remote string        `json:"remote,omitempty"`
	TxRows int           `json:"tx_rows,omitempty"`
}

// replay text for `vrepo sql <file>`
func (p *c08plan) text() []string {
	out := []string{"create database " + p.DB}
	for _, o := range p.Ops {
		out = append(out, "@"+o.Sess+" "+strings.ReplaceAll(o.SQL, "\n", `\n`))
	}
	for k, g := range p.GCs {
		out = append(out, "# (sessions tx/tm stay open; the others are closed here)", "@gc"+fmt.Sprint(k)+" "+g.call())
		if k < 2 {
			for _, m := range p.Gaps[k] {
				out = append(out, "# mutation "+m.Name)
				for _, o := range m.Ops {
					out = append(out, "@"+o.Sess+" "+o.SQL)
				}
			}
		}
	}
	return out
}

func randStr(r *rand.Rand, n int) string {
	const al = "abcdefghijklmnopqrstuvwxyz0123456789 _-"
	b := make([]byte, n)
	for i := range b {
		b[i] = al[r.Intn(len(al))]
	}
	return string(b)
}

var c08features = []string{"merge", "cherrypick", "revert", "rebase", "stash", "tag", "remote", "dirty", "tx", "stats", "txmerge"}

// genC08 builds the plan of repository i. Every feature lives on its own branch, so the states do not interact.
func genC08(r *rand.Rand, i int, remoteDir string) *c08plan {
	p := &c08plan{DB: fmt.Sprintf("g%d", i)}
	add := func(s, q string) *op {
		p.Ops = append(p.Ops, op{Sess: s, SQL: q})
		return &p.Ops[len(p.Ops)-1]
	}
	// schema
	p.Tables = []string{"t0"}
	add("m", "create table t0 (pk bigint primary key, a int, b varchar(200), key ia (a))")
	if r.Intn(3) != 0 {
		p.Tables = append(p.Tables, "t1")
		add("m", "create table t1 (pk bigint primary key, c bigint, d varchar(100))")
	}
	if r.Intn(3) == 0 {
		p.Tables = append(p.Tables, "kl")
		add("m", "create table kl (x int, y varchar(60))")
	}
	has := func(t string) bool {
		for _, n := range p.Tables {
			if n == t {
				return true
			}
		}
		return false
	}
	nBase := []int{4, 12, 40, 150}[r.Intn(4)]
	var vals []string
	for k := 1; k <= nBase; k++ {
		vals = append(vals, fmt.Sprintf("(%d,%d,'%s')", k, r.Intn(1000), randStr(r, 5+r.Intn(120))))
	}
	add("m", "insert into t0 values "+strings.Join(vals, ","))
	if has("t1") {
		vals = nil
		for k := 1; k <= 3+r.Intn(20); k++ {
			vals = append(vals, fmt.Sprintf("(%d,%d,'%s')", k, r.Int63n(1<<40), randStr(r, 3+r.Intn(60))))
		}
		add("m", "insert into t1 values "+strings.Join(vals, ","))
	}
	if has("kl") {
		add("m", fmt.Sprintf("insert into kl values (1,'%s'),(1,'dup'),(1,'dup'),(2,NULL)", randStr(r, 20)))
	}
	add("m", "call dolt_commit('-Am','c1')")
	// choose features: each with probability 0.7, at least four
	for _, f := range c08features {
		if r.Intn(10) < 7 {
			p.Features = append(p.Features, f)
		}
	}
	for len(p.Features) < 4 {
		f := c08features[r.Intn(len(c08features))]
		dup := false
		for _, g := range p.Features {
			dup = dup || g == f
		}
		if !dup {
			p.Features = append(p.Features, f)
		}
	}
	sort.Strings(p.Features)
	feat := func(f string) bool {
		for _, g := range p.Features {
			if g == f {
				return true
			}
		}
		return false
	}
	for _, b := range []string{"mconf", "mother", "cp", "rv", "rb", "st", "dead0", "tagged", "pushed", "txb", "txm"} {
		add("m", "call dolt_branch('"+b+"')")
	}
	add("m", fmt.Sprintf("insert into t0 values (1000,%d,'%s')", r.Intn(100), randStr(r, 30)))
	add("m", "call dolt_commit('-Am','c2')")
	add("m", "call dolt_branch('up')")
	// the branch every conflicting operation merges / picks from
	add("o", "call dolt_checkout('mother')")
	add("o", "update t0 set a = 100100 where pk = 1")
	add("o", "call dolt_commit('-Am','mother1')")
	if feat("merge") {
		add("a", "call dolt_checkout('mconf')")
		add("a", "update t0 set a = 100101 where pk = 1")
		add("a", fmt.Sprintf("insert into t0 values (2000,1,'%s')", randStr(r, 40)))
		add("a", "call dolt_commit('-Am','mconf1')")
		if has("t1") && r.Intn(2) == 0 {
			add("a", "update t1 set d = 'dirty-before-merge' where pk = 1") // uncommitted change in a table the merge does not touch
		}
		add("a", "select 1").Snap = "merge.pre"
		add("a", "set @@dolt_allow_commit_conflicts = 1")
		add("a", "call dolt_merge('mother')")
		if i%2 == 1 {
			// the branch is force-moved while the merge is in progress: the pre-merge head commit is now referenced by
			// nothing but the merge state
			p.MergeVariant = "head-moved"
			add("m", "call dolt_branch('-f','mconf','main')")
		}
	}
	if feat("cherrypick") {
		add("b", "call dolt_checkout('cp')")
		add("b", "update t0 set a = 100102 where pk = 1")
		add("b", "call dolt_commit('-Am','cp1')")
		add("b", "select 1").Snap = "cherrypick.pre"
		add("b", "set @@dolt_allow_commit_conflicts = 1")
		add("b", "call dolt_cherry_pick('mother')")
	}
	if feat("revert") {
		add("c", "call dolt_checkout('rv')")
		add("c", "update t0 set a = 100011 where pk = 1")
		add("c", "call dolt_commit('-Am','r1')")
		add("c", "update t0 set a = 100012 where pk = 1")
		add("c", "call dolt_commit('-Am','r2')")
		add("c", "update t0 set b = 'r3' where pk = 2")
		add("c", "call dolt_commit('-Am','r3')")
		add("c", "select 1").Snap = "revert.pre"
		add("c", "set @@dolt_allow_commit_conflicts = 1")
		add("c", "call dolt_revert('HEAD~2','HEAD')") // the first revert conflicts with r2, the second stays pending
	}
	if feat("rebase") {
		p.RebaseVariant = []string{"plain", "onto-deleted", "onto-moved", "midway"}[r.Intn(4)]
		add("u", "call dolt_checkout('up')")
		add("u", fmt.Sprintf("insert into t0 values (3000,3000,'%s')", randStr(r, 50)))
		if p.RebaseVariant == "midway" {
			add("u", "update t0 set a = 100200 where pk = 2")
		}
		add("u", "call dolt_commit('-Am','up1')")
		add("u", "select 1").Snap = "rebase.onto"
		add("d", "call dolt_checkout('rb')")
		for k := 0; k < 2+r.Intn(2); k++ {
			pk, a, b := 4000+k, r.Intn(100), randStr(r, 10+r.Intn(80))
			add("d", fmt.Sprintf("insert into t0 values (%d,%d,'%s')", pk, a, b))
			add("d", fmt.Sprintf("call dolt_commit('-Am','rb%d')", k))
			p.RebaseRows = append(p.RebaseRows, fmt.Sprintf("%d\x1f%d\x1f%s", pk, a, b))
		}
		if p.RebaseVariant == "midway" {
			add("d", "update t0 set a = 100201 where pk = 2")
			add("d", "call dolt_commit('-Am','rbconflict')")
		}
		add("d", "select hashof('HEAD')").Head = "rebase.branchhead"
		add("d", "select 1").Snap = "rebase.pre"
		add("d", "set @@dolt_allow_commit_conflicts = 1")
		add("d", "call dolt_rebase('-i','up')")
		switch p.RebaseVariant {
		case "onto-deleted":
			add("m", "call dolt_branch('-D','up')")
		case "onto-moved":
			add("m", "call dolt_branch('-f','up','main')")
		case "midway":
			add("d", "call dolt_rebase('--continue')").MayFail = true // stops at the conflicting commit
		}
	}
	if feat("stash") {
		add("e", "call dolt_checkout('st')")
		add("e", fmt.Sprintf("update t0 set b = 'stash-one-%s' where pk = 3", randStr(r, 30)))
		if has("t1") {
			add("e", "delete from t1 where pk = 2")
		}
		add("e", "select 1").Snap = "stash.one"
		add("e", "call dolt_stash('push','s1')")
		add("e", fmt.Sprintf("insert into t0 values (5000,5,'stash-two-%s')", randStr(r, 60)))
		add("e", "select 1").Snap = "stash.two"
		add("e", "call dolt_stash('push','s1')")
	}
	if feat("tag") {
		add("f", "call dolt_checkout('tagged')")
		add("f", fmt.Sprintf("insert into t0 values (6000,6,'%s')", randStr(r, 100)))
		add("f", "call dolt_commit('-Am','only-the-tag-keeps-me')")
		add("f", "call dolt_tag('v1','HEAD','-m','annotated')")
		add("f", "call dolt_tag('v0','main~1')")
		add("f", "call dolt_checkout('main')")
		add("f", "call dolt_branch('-D','tagged')")
	}
	if feat("remote") {
		p.Remote = "file://" + filepath.Join(remoteDir, p.DB)
		add("g", "call dolt_remote('add','origin','"+p.Remote+"')")
		add("g", "call dolt_push('origin','main')")
		add("g", "call dolt_checkout('pushed')")
		add("g", fmt.Sprintf("insert into t0 values (7000,7,'%s')", randStr(r, 100)))
		add("g", "call dolt_commit('-Am','only-the-remote-ref-keeps-me')")
		add("g", "call dolt_push('origin','pushed')")
		add("g", "call dolt_checkout('main')")
		add("g", "call dolt_branch('-D','pushed')")
		add("g", "call dolt_fetch('origin')")
	}
	// garbage: commits of a deleted branch, referenced by nothing else
	add("h", "call dolt_checkout('dead0')")
	for k := 0; k < 1+r.Intn(3); k++ {
		add("h", fmt.Sprintf("insert into t0 values (%d,8,'%s')", 8000+k, randStr(r, 150)))
		add("h", fmt.Sprintf("call dolt_commit('-Am','dead%d')", k))
	}
	add("h", "select hashof('HEAD')").Probe = "dead0"
	add("h", "call dolt_checkout('main')")
	add("h", "call dolt_branch('-D','dead0')")
	if feat("dirty") {
		add("m", fmt.Sprintf("insert into t0 values (9000,9,'staged-%s')", randStr(r, 40)))
		add("m", "call dolt_add('t0')")
		add("m", fmt.Sprintf("insert into t0 values (9001,9,'working-%s')", randStr(r, 40)))
		if has("t1") {
			add("m", "update t1 set c = c + 1")
		}
	}
	if feat("stats") {
		add("m", "analyze table t0")
	}
	// branches whose commits the first collections move into the old generation; the gap mutations below re-home them
	ogb := func(name string, stmts ...string) {
		add("og", "call dolt_checkout('-b','"+name+"','main')")
		for _, q := range stmts {
			add("og", q)
		}
	}
	ogb("og_tag", fmt.Sprintf("insert into t0 values (6100,1,'%s')", randStr(r, 120)), "call dolt_commit('-Am','ogtag1')")
	ogb("og_ws", fmt.Sprintf("insert into t0 values (6200,1,'%s')", randStr(r, 90)), "call dolt_commit('-Am','ogws1')",
		fmt.Sprintf("insert into t0 values (6201,1,'%s')", randStr(r, 150)), "update t0 set a = a + 1 where pk < 4", "call dolt_commit('-Am','ogws2')")
	ogb("og_st", fmt.Sprintf("insert into t0 values (6300,1,'%s')", randStr(r, 90)), "call dolt_commit('-Am','ogst1')",
		fmt.Sprintf("insert into t0 values (6301,1,'%s')", randStr(r, 150)), "call dolt_commit('-Am','ogst2')")
	ogb("og_mo", "update t0 set a = 100700 where pk = 2", fmt.Sprintf("insert into t0 values (6500,1,'%s')", randStr(r, 120)), "call dolt_commit('-Am','ogmo1')")
	ogb("og_m", "update t0 set a = 100701 where pk = 2", "call dolt_commit('-Am','ogm1')")
	ogb("og_back", fmt.Sprintf("insert into t0 values (6400,1,'%s')", randStr(r, 90)), "call dolt_commit('-Am','ogback1')",
		fmt.Sprintf("insert into t0 values (6401,1,'%s')", randStr(r, 150)), "call dolt_commit('-Am','ogback2')")
	ogb("og_src", fmt.Sprintf("insert into t0 values (6600,1,'%s')", randStr(r, 90)), "call dolt_commit('-Am','ogsrc1')")
	add("og", "call dolt_checkout('main')")
	add("og", "call dolt_tag('vdel','og_back~1')")
	muts := []mutation{
		{Name: "tag-then-delete-branch", Root: "tag", Ops: []op{{Sess: "mt", SQL: "call dolt_tag('vog','og_tag','-m','keeps og_tag alive')"}, {Sess: "mt", SQL: "call dolt_branch('-D','og_tag')"}}},
		{Name: "soft-reset", Root: "workingset", Ops: []op{{Sess: "mw", SQL: "call dolt_checkout('og_ws')"}, {Sess: "mw", SQL: "call dolt_reset('--soft','HEAD~1')"}}},
		{Name: "stash-then-drop-commit", Root: "stash", Ops: []op{{Sess: "ms", SQL: "call dolt_checkout('og_st')"}, {Sess: "ms", SQL: "update t0 set b = 'dirty-og' where pk = 3"},
			{Sess: "ms", SQL: "call dolt_stash('push','s2')"}, {Sess: "ms", SQL: "call dolt_reset('--hard','HEAD~1')"}}},
		{Name: "conflicted-merge-then-delete-source", Root: "mergestate", Ops: []op{{Sess: "mm", SQL: "call dolt_checkout('og_m')"}, {Sess: "mm", SQL: "select 1", Snap: "ogmerge.pre"},
			{Sess: "mm", SQL: "set @@dolt_allow_commit_conflicts = 1"}, {Sess: "mm", SQL: "call dolt_merge('og_mo')"}, {Sess: "mm2", SQL: "call dolt_branch('-D','og_mo')"}}},
		{Name: "tag-then-branch-f-backwards", Root: "tag", Ops: []op{{Sess: "mb", SQL: "call dolt_tag('vback','og_back')"}, {Sess: "mb", SQL: "call dolt_branch('-f','og_back','og_back~1')"}}},
		{Name: "delete-tag", Ops: []op{{Sess: "md", SQL: "call dolt_tag('-d','vdel')"}}},
		{Name: "branch-from-old-then-delete-original", Ops: []op{{Sess: "mc", SQL: "call dolt_branch('og_copy','og_src')"}, {Sess: "mc", SQL: "call dolt_branch('-D','og_src')"}}},
	}
	// GC sequence: two session-aware collections (repositories run concurrently) and one with the kill_connections
	// controller (run exclusively). A default collection comes first for two thirds of the repositories (it fills the old
	// generation), and every repository has a --full collection after its gaps: #2 for even i, #3 for odd i; the other
	// positions rotate with i so that a quick run covers every mode x archive level.
	modes := []gcSpec{{Mode: "default", Archive: 1}, {Mode: "full", Archive: 0}, {Mode: "default", Archive: 0}, {Mode: "full", Archive: 1}, {Mode: "shallow"}}
	p.GCs = []gcSpec{modes[i%len(modes)], modes[(i+1+r.Intn(3))%len(modes)], modes[(i+2+r.Intn(2))%len(modes)]}
	if i%3 != 2 {
		p.GCs[0] = gcSpec{Mode: "default", Archive: i % 2}
	}
	if i%2 == 0 {
		p.GCs[1] = gcSpec{Mode: "full", Archive: (i / 2) % 2}
	} else {
		p.GCs[2] = gcSpec{Mode: "full", Archive: (i / 2) % 2}
	}
	p.GCs[2].Kill = true
	if p.GCs[2].Mode == "shallow" {
		p.GCs[2] = gcSpec{Mode: "default", Archive: r.Intn(2), Kill: true}
	}
	// every mutation goes into one of the two gaps; for even i the root-moving ones must precede collection #2 (the --full one)
	for _, m := range muts {
		g := r.Intn(2)
		if i%2 == 0 && m.Root != "" {
			g = 0
		}
		p.Gaps[g] = append(p.Gaps[g], m)
	}
	// sessions that hold uncommitted state across the first collection
	if feat("tx") {
		p.TxRows = 1 + r.Intn(5)
		add("tx", "call dolt_checkout('txb')")
		add("tx", "set autocommit = 0")
		for k := 0; k < p.TxRows; k++ {
			add("tx", fmt.Sprintf("insert into t0 values (%d,10,'in-open-transaction-%s')", 10000+k, randStr(r, 80)))
		}
	}
	if feat("txmerge") {
		add("tm", "call dolt_checkout('txm')")
		add("tm", "update t0 set a = 100103 where pk = 1")
		add("tm", "call dolt_commit('-Am','txm1')")
		add("tm", "set autocommit = 0")
		add("tm", "call dolt_merge('mother')") // conflicted merge that only lives in the open transaction
	}
	return p
}

// c08repo is the run-time state of one repository.
type c08repo struct {
	plan        *c08plan
	sess        map[string]*sqlrig.Session
	snaps       map[string]map[string]string
	heads       map[string]string
	probes      map[string]string // name -> commit hash expected to be garbage
	fp          sqlrig.Fingerprint
	ok          bool
	txConf      string          // conflicts seen by the in-transaction merge before GC
	defaultDone bool            // a default-mode collection has completed (the old generation is populated)
	armed       map[string]bool // root classes that alone keep old-generation data alive (mutated after a default collection)
	applied     map[string]bool // gap mutations that were applied
}

func snapshot(x *sqlrig.Session, tables []string) map[string]string {
	out := map[string]string{}
	for _, t := range tables {
		r, err := x.Query("select * from `" + t + "`")
		if err != nil {
			out[t] = "ERROR: " + err.Error()
			continue
		}
		out[t] = fmt.Sprintf("%d:%s", len(r.Data), strings.Join(r.Sorted(), "\n"))
	}
	return out
}

func snapDiff(want, got map[string]string) string {
	var d []string
	for t, w := range want {
		if g := got[t]; g != w {
			d = append(d, fmt.Sprintf("%s: want %s got %s", t, trunc(w, 300), trunc(g, 300)))
		}
	}
	sort.Strings(d)
	return strings.Join(d, " ; ")
}

// fullFingerprint = SQL fingerprint + extra SQL components + graphs of remote-tracking refs + Go-API fingerprint.
func fullFingerprint(srv *sqlrig.Server, db string) (sqlrig.Fingerprint, []hash.Hash, *doltdb.DoltDB, error) {
	x, err := srv.Open("")
	if err != nil {
		return nil, nil, nil, err
	}
	defer x.Close()
	fp := sqlrig.TakeFingerprint(x, db, sqlrig.FingerprintOptions{})
	mergeFP(fp, extraFingerprint(x, db))
	if rb, err := x.Query("select name, hash from `" + db + "`.dolt_remote_branches"); err == nil {
		done := map[string]bool{}
		for _, r := range rb.Data {
			commitGraphFingerprint(x, db, r[1], fp, done)
		}
	}
	if r, err := x.Query("select count(*) from `" + db + "`.dolt_statistics"); err != nil {
		fp["stats/readable"] = "ERROR: " + err.Error()
	} else {
		_ = r
		fp["stats/readable"] = "ok"
	}
	ddb, err := srv.OpenDoltDB(db)
	if err != nil {
		return nil, nil, nil, err
	}
	api, roots := sqlrig.APIFingerprint(ddb)
	mergeFP(fp, api)
	return fp, roots, ddb, nil
}

// fpClass turns a fingerprint component key into a stable class name for violation keys.
func fpClass(line string) string {
	k := line
	if i := strings.Index(k, ": "); i >= 0 {
		k = k[i+2:]
	}
	if i := strings.Index(k, ":"); i >= 0 && !strings.HasPrefix(k, "api/") {
		k = k[:i]
	}
	parts := strings.Split(k, "/")
	switch parts[0] {
	case "api":
		if len(parts) > 2 && parts[1] == "ds" {
			if parts[2] == "refs" && len(parts) > 3 {
				return "api-dataset-" + parts[3]
			}
			return "api-dataset-" + parts[2]
		}
		if len(parts) > 1 {
			last := parts[len(parts)-1]
			if last == "merge" || last == "rebase" {
				return "api-" + parts[1] + "-" + last
			}
			return "api-" + parts[1]
		}
	case "x":
		if len(parts) > 2 {
			return "ws-" + parts[2]
		}
	case "ws", "staged":
		if len(parts) > 2 {
			return "ws-" + parts[len(parts)-1]
		}
		return "ws"
	case "c", "g":
		return "remote-ref-graph"
	}
	return strings.SplitN(parts[0], " ", 2)[0]
}

var gcMu sync.Mutex

func c08states(c *rig.Ctx) {
	c.Rule("seeded repositories (1-3 tables incl. secondary index / keyless, 4-150 base rows, ~12 branches) are left, through wire sessions of a " +
		"real sql-server, in the states the statement names — each on its own branch: conflicted merge committed to the working set " +
		"(@@dolt_allow_commit_conflicts), cherry-pick stopped on a conflict, multi-commit revert stopped with pending commits, started interactive " +
		"rebase (plain / onto branch deleted / onto branch moved / stopped midway on a conflict), two stash entries, tags (one on a commit no branch " +
		"reaches), remote-tracking refs of a file:// remote (one on a commit no local branch reaches, after push+fetch), staged+unstaged edits, " +
		"ANALYZE TABLE, deleted branches (garbage probes), plus sessions holding an open transaction (rows / a conflicted merge) across the " +
		"collection. Each repository is collected three times (default/--full/--shallow x archive level 0/1; third time with the " +
		"kill_connections safepoint controller; a default collection first for 2/3 of the repositories and a --full one after the gaps for all) " +
		"with fresh garbage before each; between the collections ref mutations re-home old-generation data under new-generation-class roots (tag + " +
		"branch delete / branch -f backwards, soft reset, stash + hard reset, conflicted merge + source branch delete, tag delete, branch copy + " +
		"delete), the comparison is re-based after each batch; then the server is restarted. Oracle: SQL fingerprint + " +
		"Go-API fingerprint (every dataset address, every address a working set / stash names) equal before/after; chunk-closure walk from the " +
		"store root and those addresses (present + bytes hash to address); dolt fsck after shutdown; finally every state is consumed (abort / " +
		"continue / pop / commit) and compared with rows recorded when it was created. distinct = (feature set, rebase variant, gc sequence)")
	c.Assume("the closure walk follows Dolt's own reference walker for chunk contents (C09 checks that walker); addresses named by working sets and stashes are added from the doltdb API independently of it")
	c.Assume("a dolt_gc call that returns an error is counted, not reported (C08 is about what a completed collection keeps)")
	dir := c.TempDir("c08s")
	defer os.RemoveAll(dir)
	remoteDir := filepath.Join(dir, "remotes")
	os.MkdirAll(remoteDir, 0o755)
	dataDir := filepath.Join(dir, "data")
	srv, err := sqlrig.Start(dataDir)
	rig.Must(err)
	tl := newTally()
	n := c.Pick(12, 60)
	repos := make([]*c08repo, n)
	var vmu sync.Mutex
	viol := func(key, what string, w any) {
		vmu.Lock()
		c.Violation(key, what, w)
		vmu.Unlock()
	}
	for i := range repos {
		repos[i] = &c08repo{plan: genC08(c.SubRand("c08s", i), i, remoteDir), sess: map[string]*sqlrig.Session{},
			snaps: map[string]map[string]string{}, heads: map[string]string{}, probes: map[string]string{}}
	}
	witness := func(rp *c08repo, extra map[string]any) map[string]any {
		w := map[string]any{"db": rp.plan.DB, "features": rp.plan.Features, "rebase_variant": rp.plan.RebaseVariant, "merge_variant": rp.plan.MergeVariant, "gcs": rp.plan.GCs,
			"replay": "vrepo sql <file with these lines>", "script": rp.plan.text()}
		for k, v := range extra {
			w[k] = v
		}
		return w
	}

	// compare the state with the previous observation
	observe := func(rp *c08repo, when string, g gcSpec) {
		fp, roots, ddb, err := fullFingerprint(srv, rp.plan.DB)
		if err != nil {
			viol("c08/open-after/"+g.Mode, "database cannot be opened "+when+": "+err.Error(), witness(rp, nil))
			rp.ok = false
			return
		}
		if rp.fp != nil {
			if d := rp.fp.Diff(fp); len(d) > 0 {
				seen := map[string]bool{}
				for _, line := range d {
					cl := fpClass(line)
					if seen[cl] {
						continue
					}
					seen[cl] = true
					viol("c08/fingerprint/"+cl, fmt.Sprintf("component changed %s (%s): %s", when, g, trunc(line, 400)), witness(rp, map[string]any{"diff": d, "when": when}))
				}
			}
			tl.inc("c08.fingerprints_compared")
			tl.add("c08.fingerprint_components_compared", len(fp))
		} else if e := fpErrors(fp); len(e) > 0 {
			// unreadable before any collection: not this property's business, but the case is useless
			c.Note(fmt.Sprintf("%s: components unreadable before GC: %v", rp.plan.DB, e))
		}
		rp.fp = fp
		rep := sqlrig.WalkClosure(ddb, roots, false)
		tl.add("c08.closure_chunks_walked", rep.Chunks)
		if len(rep.Problems) > 0 {
			viol("c08/closure/"+strings.SplitN(rep.Problems[0], " ", 2)[0], fmt.Sprintf("reachable chunk missing or altered %s (%s): %v", when, g, rep.Problems), witness(rp, map[string]any{"when": when}))
		}
	}

	build := func(rp *c08repo) {
		p := rp.plan
		c.Case("c08/states/"+p.DB, map[string]any{"features": p.Features, "rebase_variant": p.RebaseVariant, "gcs": p.GCs, "script": p.text()})
		x0 := srv.MustOpen("")
		if err := x0.Exec("create database " + p.DB); err != nil {
			c.Note("create database: " + err.Error())
			x0.Close()
			return
		}
		x0.Close()
		for _, o := range p.Ops {
			x := rp.sess[o.Sess]
			if x == nil {
				x = srv.MustOpen(p.DB)
				rp.sess[o.Sess] = x
			}
			r, err := x.Query(o.SQL)
			if err != nil {
				if o.MayFail {
					continue
				}
				c.Note(fmt.Sprintf("%s: build statement failed (case skipped): %s: %v", p.DB, trunc(o.SQL, 100), trunc(err.Error(), 200)))
				tl.inc("c08.build_failed")
				return
			}
			if o.Snap != "" {
				rp.snaps[o.Snap] = snapshot(x, p.Tables)
			}
			if (o.Probe != "" || o.Head != "") && len(r.Data) == 1 {
				if o.Probe != "" {
					rp.probes[o.Probe] = r.Data[0][0]
				} else {
					rp.heads[o.Head] = r.Data[0][0]
				}
			}
		}
		if s := rp.sess["tm"]; s != nil {
			if r, err := s.Query("select `table`, num_conflicts from dolt_conflicts"); err == nil {
				rp.txConf = strings.Join(r.Sorted(), ";")
			}
		}
		// every session whose state is persisted is closed; only the open-transaction sessions stay
		for name, s := range rp.sess {
			if name != "tx" && name != "tm" {
				s.Close()
				delete(rp.sess, name)
			}
		}
		rp.ok = true
		for _, f := range p.Features {
			tl.inc("c08.state." + f)
		}
		if p.RebaseVariant != "" {
			tl.inc("c08.state.rebase." + p.RebaseVariant)
		}
		if p.MergeVariant != "" {
			tl.inc("c08.state.merge." + p.MergeVariant)
		}
	}

	// one collection of one repository
	collect := func(rp *c08repo, k int) {
		p := rp.plan
		g := p.GCs[k]
		x, err := srv.Open(p.DB)
		if err != nil {
			c.Note("open for gc: " + err.Error())
			return
		}
		defer x.Close()
		if k > 0 { // fresh garbage (fingerprint-neutral: a branch is created, committed to and deleted)
			name := fmt.Sprintf("dead%d", k)
			err := script(x, "call dolt_checkout('-b','"+name+"','main')",
				fmt.Sprintf("insert into t0 values (%d,8,'%s')", 8100+k, strings.Repeat(fmt.Sprintf("garbage-%d-", k), 12)),
				"call dolt_commit('-Am','"+name+"')")
			if err == nil {
				if h, err := hashOf(x, "select hashof('HEAD')"); err == nil {
					rp.probes[name] = h
				}
				err = script(x, "call dolt_checkout('main')", "call dolt_branch('-D','"+name+"')")
			}
			if err != nil {
				c.Note("garbage creation failed: " + err.Error())
			}
		}
		ddb, err := srv.OpenDoltDB(p.DB)
		if err != nil {
			c.Note("open ddb: " + err.Error())
			return
		}
		present := map[string]bool{}
		for name, h := range rp.probes {
			ok, _ := ddb.Has(context.Background(), hash.Parse(h))
			present[name] = ok
		}
		_, b0 := dirSize(filepath.Join(dataDir, p.DB, ".dolt", "noms"))
		// One collection at a time per server: the statement quantifies over writers interleaved with *a* collection.
		// (Concurrent dolt_gc calls on two databases of one server crash the server — see the gc2db sub-command.)
		gcMu.Lock()
		_, err = x.Query(g.call())
		gcMu.Unlock()
		if err != nil {
			tl.inc("c08.gc_errors")
			c.Note(fmt.Sprintf("%s: %s failed: %v", p.DB, g.call(), trunc(err.Error(), 300)))
			return
		}
		tl.inc("c08.gc_runs")
		if g.Mode == "full" {
			for root := range rp.armed {
				tl.inc("c08.full_gc_after_default_gc_with_old_gen_only_" + root + "_root")
			}
		}
		if g.Mode == "default" {
			rp.defaultDone = true
		}
		tl.inc("c08.gc_runs." + g.String())
		_, b1 := dirSize(filepath.Join(dataDir, p.DB, ".dolt", "noms"))
		if b1 < b0 {
			tl.inc("c08.gc_runs_store_shrank")
		}
		collected := 0
		for name, h := range rp.probes {
			if !present[name] {
				continue
			}
			if ok, _ := ddb.Has(context.Background(), hash.Parse(h)); !ok {
				collected++
			}
		}
		if collected > 0 {
			tl.inc("c08.gc_runs_collected_garbage")
			tl.inc("c08.gc_runs_collected_garbage." + g.Mode)
			tl.add("c08.garbage_commits_collected", collected)
		}
	}

	run := func(workers int, all bool, fn func(rp *c08repo)) {
		ch := make(chan *c08repo)
		var wg sync.WaitGroup
		for w := 0; w < workers; w++ {
			wg.Add(1)
			go func() {
				defer wg.Done()
				for rp := range ch {
					fn(rp)
				}
			}()
		}
		for _, rp := range repos {
			if all || rp.ok {
				ch <- rp
			}
		}
		close(ch)
		wg.Wait()
	}
	workers := 6

	// mutate applies the ref mutations of gap k and re-bases the comparison (the repository changed on purpose)
	mutate := func(rp *c08repo, k int) {
		if len(rp.plan.Gaps[k]) == 0 {
			return
		}
		if rp.armed == nil {
			rp.armed, rp.applied = map[string]bool{}, map[string]bool{}
		}
		for _, m := range rp.plan.Gaps[k] {
			sess := map[string]*sqlrig.Session{}
			var err error
			for _, o := range m.Ops {
				x := sess[o.Sess]
				if x == nil {
					if x, err = srv.Open(rp.plan.DB); err != nil {
						break
					}
					sess[o.Sess] = x
				}
				if _, err = x.Query(o.SQL); err != nil {
					err = fmt.Errorf("%s: %w", o.SQL, err)
					break
				}
				if o.Snap != "" {
					rp.snaps[o.Snap] = snapshot(x, rp.plan.Tables)
				}
			}
			for _, x := range sess {
				x.Close()
			}
			if err != nil {
				c.Note(fmt.Sprintf("%s: mutation %s failed: %v", rp.plan.DB, m.Name, trunc(err.Error(), 200)))
				tl.inc("c08.mutation_failed")
				continue
			}
			rp.applied[m.Name] = true
			tl.inc("c08.mutation." + m.Name)
			if m.Root != "" && rp.defaultDone {
				rp.armed[m.Root] = true
			}
		}
		rp.fp = nil
		observe(rp, fmt.Sprintf("after the ref mutations of gap %d", k+1), gcSpec{})
	}

	// phase 1 (concurrent, session-aware controller): build, observe, two collections
	run(workers, true, func(rp *c08repo) {
		build(rp)
		if !rp.ok {
			return
		}
		observe(rp, "before any collection", gcSpec{})
		for k := 0; k < 2; k++ {
			collect(rp, k)
			observe(rp, fmt.Sprintf("after collection %d", k+1), rp.plan.GCs[k])
			if k == 0 {
				// sessions that held uncommitted state across the collection now commit / look at it
				if s := rp.sess["tx"]; s != nil {
					if err := s.Exec("commit"); err != nil {
						viol("c08/open-transaction/commit", "COMMIT of a transaction that was open during dolt_gc failed: "+err.Error(), witness(rp, nil))
					} else if n, err := s.Scalar("select count(*) from t0 where pk >= 10000 and pk < 11000"); err != nil || n != fmt.Sprint(rp.plan.TxRows) {
						viol("c08/open-transaction/rows", fmt.Sprintf("rows written before and committed after dolt_gc: want %d got %s (%v)", rp.plan.TxRows, n, err), witness(rp, nil))
					} else {
						tl.inc("c08.open_tx_committed_after_gc")
					}
					s.Close()
					delete(rp.sess, "tx")
					rp.fp = nil // the commit changed the repository: re-base the comparison
					if len(rp.plan.Gaps[0]) == 0 {
						observe(rp, "after committing the open transaction", gcSpec{})
					}
				}
				if s := rp.sess["tm"]; s != nil {
					r, err := s.Query("select `table`, num_conflicts from dolt_conflicts")
					got := ""
					if err == nil {
						got = strings.Join(r.Sorted(), ";")
					}
					if err != nil || got != rp.txConf {
						viol("c08/open-transaction/merge", fmt.Sprintf("conflicts of an in-transaction merge after dolt_gc: want %q got %q (%v)", rp.txConf, got, err), witness(rp, nil))
					} else if _, err := s.Query("select * from dolt_conflicts_t0"); err != nil {
						viol("c08/open-transaction/merge", "conflict rows of an in-transaction merge unreadable after dolt_gc: "+err.Error(), witness(rp, nil))
					} else {
						tl.inc("c08.open_tx_merge_intact_after_gc")
					}
					s.Exec("rollback")
					s.Close()
					delete(rp.sess, "tm")
				}
			}
			mutate(rp, k)
		}
	})

	// phase 2 (exclusive): kill_connections controller
	dprocedures.UseSessionAwareSafepointController = false
	for _, rp := range repos {
		if rp.ok {
			collect(rp, 2)
		}
	}
	dprocedures.UseSessionAwareSafepointController = true
	run(workers, false, func(rp *c08repo) { observe(rp, "after collection 3", rp.plan.GCs[2]) })

	// phase 3: shutdown, fsck, restart
	rig.Must(srv.Stop())
	dbfactory.CloseAllLocalDatabases()
	{
		// dolt fsck opens the store outside the singleton cache and never closes it, so it runs in a child process
		var names []string
		for _, rp := range repos {
			if rp.ok {
				names = append(names, rp.plan.DB)
			}
		}
		res := fsckChild(c, dataDir, names)
		for _, rp := range repos {
			if !rp.ok {
				continue
			}
			r, ok := res[rp.plan.DB]
			if !ok {
				c.Note("fsck did not report on " + rp.plan.DB)
				continue
			}
			if r.RC != 0 {
				viol("c08/fsck", fmt.Sprintf("dolt fsck reports problems after the collections (exit %d): %s", r.RC, trunc(r.Out, 1500)), witness(rp, nil))
			} else {
				tl.inc("c08.fsck_clean")
			}
		}
	}
	dbfactory.CloseAllLocalDatabases()
	srv, err = sqlrig.Start(dataDir)
	rig.Must(err)
	defer srv.Stop()
	run(workers, false, func(rp *c08repo) { observe(rp, "after server restart", rp.plan.GCs[2]) })

	// phase 4: consume every state
	run(workers, false, func(rp *c08repo) { consume(c, srv, rp, tl, viol, witness) })

	for _, rp := range repos {
		if rp.ok {
			gs := ""
			for _, g := range rp.plan.GCs {
				gs += g.String() + ","
			}
			c.Distinct("c08s/" + strings.Join(rp.plan.Features, ",") + "/" + rp.plan.RebaseVariant + "/" + rp.plan.MergeVariant + "/" + gs)
		}
	}
	if len(repos) > 0 {
		c.Sample(map[string]any{"db": repos[0].plan.DB, "features": repos[0].plan.Features, "gcs": repos[0].plan.GCs, "script_head": repos[0].plan.text()[:8]})
	}
	tl.flush(c)
	c.Require(tl.get("c08.gc_runs_collected_garbage") > 0, "no dolt_gc run collected a garbage commit")
	c.Require(tl.get("c08.gc_runs") >= n, "too few successful collections")
	c.Require(tl.get("c08.full_gc_after_default_gc_with_old_gen_only_tag_root") > 0, "no --full collection ran after a default collection with a tag as the only root of old-generation data")
	c.Require(tl.get("c08.full_gc_after_default_gc_with_old_gen_only_workingset_root") > 0, "no --full collection ran after a default collection with a working set as the only root of old-generation data")
	c.Require(tl.get("c08.state.merge.head-moved") > 0, "no repository with a merge state that alone references the pre-merge head")
	for _, f := range []string{"merge", "cherrypick", "revert", "rebase", "stash", "tag", "remote"} {
		c.Require(tl.get("c08.state."+f) > 0, "no repository in state "+f)
		c.Require(tl.get("c08.consumed."+f) > 0, "state "+f+" was never consumed successfully after the collections")
	}
}

// fsck runs `dolt fsck` in-process on a closed database directory.
func fsck(dataDir, db string) (int, string) {
	ctx := context.Background()
	dir := filepath.Join(dataDir, db)
	fs, err := filesys.LocalFilesysWithWorkingDir(dir)
	if err != nil {
		return -1, err.Error()
	}
	home := filepath.Join(filepath.Dir(dataDir), "home-"+filepath.Base(dataDir))
	dEnv := env.LoadWithoutDB(ctx, func() (string, error) { return home, nil }, fs, doltdb.LocalDirDoltDB, "verif")
	var buf lockedBuf
	oldOut, oldErr := cli.CliOut, cli.CliErr
	cli.CliOut, cli.CliErr = &buf, &buf
	rc := commands.FsckCmd{}.Exec(ctx, "fsck", []string{"--quiet"}, dEnv, nil)
	cli.CliOut, cli.CliErr = oldOut, oldErr
	out := buf.String()
	return rc, out
}

// consume uses every in-progress state after the collections: the addresses held only by merge / rebase / stash
// state are dereferenced by the real operations, and the results are compared with rows recorded before.
func consume(c *rig.Ctx, srv *sqlrig.Server, rp *c08repo, tl *tally, viol func(string, string, any), witness func(*c08repo, map[string]any) map[string]any) {
	p := rp.plan
	feat := func(f string) bool {
		for _, g := range p.Features {
			if g == f {
				return true
			}
		}
		return false
	}
	open := func(branch string) *sqlrig.Session {
		x, err := srv.Open(p.DB)
		if err != nil {
			return nil
		}
		if err := x.Exec("call dolt_checkout('" + branch + "')"); err != nil {
			viol("c08/consume/checkout", "checkout of "+branch+" failed after the collections: "+err.Error(), witness(rp, nil))
			x.Close()
			return nil
		}
		return x
	}
	check := func(f string, x *sqlrig.Session, stmt string, snap string) {
		if _, err := x.Query(stmt); err != nil {
			viol("c08/consume/"+f, fmt.Sprintf("%s failed after the collections: %v", stmt, err), witness(rp, nil))
			return
		}
		if d := snapDiff(rp.snaps[snap], snapshot(x, p.Tables)); d != "" {
			viol("c08/consume/"+f, fmt.Sprintf("after %s the working set differs from the rows recorded before the operation started: %s", stmt, d), witness(rp, nil))
			return
		}
		tl.inc("c08.consumed." + f)
	}
	if feat("merge") {
		if x := open("mconf"); x != nil {
			check("merge", x, "call dolt_merge('--abort')", "merge.pre")
			x.Close()
		}
	}
	if feat("cherrypick") {
		if x := open("cp"); x != nil {
			check("cherrypick", x, "call dolt_cherry_pick('--abort')", "cherrypick.pre")
			x.Close()
		}
	}
	if feat("revert") {
		if x := open("rv"); x != nil {
			check("revert", x, "call dolt_revert('--abort')", "revert.pre")
			x.Close()
		}
	}
	if feat("rebase") {
		if x := open("dolt_rebase_rb"); x != nil {
			x.Exec("set @@dolt_allow_commit_conflicts = 1")
			if p.RebaseVariant == "midway" {
				if _, err := x.Query("call dolt_rebase('--abort')"); err != nil {
					viol("c08/consume/rebase", "dolt_rebase('--abort') failed after the collections: "+err.Error(), witness(rp, nil))
				} else {
					h, _ := x.Scalar("select hashof('rb')")
					if d := snapDiff(rp.snaps["rebase.pre"], snapshot(x, p.Tables)); d != "" || h != rp.heads["rebase.branchhead"] {
						viol("c08/consume/rebase", fmt.Sprintf("after dolt_rebase('--abort'): head %s want %s; %s", h, rp.heads["rebase.branchhead"], d), witness(rp, nil))
					} else {
						tl.inc("c08.consumed.rebase")
						tl.inc("c08.consumed.rebase.midway")
					}
				}
			} else {
				if _, err := x.Query("call dolt_rebase('--continue')"); err != nil {
					viol("c08/consume/rebase", "dolt_rebase('--continue') failed after the collections ("+p.RebaseVariant+"): "+err.Error(), witness(rp, nil))
				} else {
					// expected: rows of the onto commit plus the rows the rebased commits insert
					want := map[string]string{}
					for t, v := range rp.snaps["rebase.onto"] {
						want[t] = v
					}
					var rows []string
					if v := rp.snaps["rebase.onto"]["t0"]; v != "" {
						if i := strings.Index(v, ":"); i >= 0 && len(v) > i+1 {
							rows = strings.Split(v[i+1:], "\n")
						}
					}
					rows = append(rows, p.RebaseRows...)
					sort.Strings(rows)
					want["t0"] = fmt.Sprintf("%d:%s", len(rows), strings.Join(rows, "\n"))
					if d := snapDiff(want, snapshot(x, p.Tables)); d != "" {
						viol("c08/consume/rebase", "rows after dolt_rebase('--continue') ("+p.RebaseVariant+"): "+d, witness(rp, nil))
					} else {
						tl.inc("c08.consumed.rebase")
						tl.inc("c08.consumed.rebase." + p.RebaseVariant)
					}
				}
			}
			x.Close()
		}
	}
	if feat("stash") {
		if x := open("st"); x != nil {
			check("stash", x, "call dolt_stash('pop','s1')", "stash.two")
			if err := x.Exec("call dolt_reset('--hard')"); err == nil {
				check("stash", x, "call dolt_stash('pop','s1')", "stash.one")
			}
			x.Close()
		}
	}
	if feat("tag") {
		if x := open("main"); x != nil {
			if n, err := x.Scalar("select count(*) from t0 as of 'v1' where pk = 6000"); err != nil || n != "1" {
				viol("c08/consume/tag", fmt.Sprintf("row of the tag-only commit: count=%s err=%v", n, err), witness(rp, nil))
			} else {
				tl.inc("c08.consumed.tag")
			}
			x.Close()
		}
	}
	if feat("remote") {
		if x := open("main"); x != nil {
			if err := script(x, "call dolt_checkout('-b','pushed2','origin/pushed')"); err != nil {
				viol("c08/consume/remote", "branch from remote-tracking ref failed: "+err.Error(), witness(rp, nil))
			} else if n, err := x.Scalar("select count(*) from t0 where pk = 7000"); err != nil || n != "1" {
				viol("c08/consume/remote", fmt.Sprintf("row of the remote-ref-only commit: count=%s err=%v", n, err), witness(rp, nil))
			} else {
				tl.inc("c08.consumed.remote")
			}
			x.Close()
		}
	}
	// states created by the gap mutations
	rowAt := func(key, rev string, pk int) {
		if x := open("main"); x != nil {
			if n, err := x.Scalar(fmt.Sprintf("select count(*) from t0 as of '%s' where pk = %d", rev, pk)); err != nil || n != "1" {
				viol("c08/consume/"+key, fmt.Sprintf("row %d of the commit only %s keeps alive: count=%s err=%v", pk, rev, n, err), witness(rp, nil))
			} else {
				tl.inc("c08.consumed." + key)
			}
			x.Close()
		}
	}
	if rp.applied["tag-then-delete-branch"] {
		rowAt("gap-tag", "vog", 6100)
	}
	if rp.applied["tag-then-branch-f-backwards"] {
		rowAt("gap-tag", "vback", 6401)
	}
	if rp.applied["soft-reset"] {
		if x := open("og_ws"); x != nil {
			if n, err := x.Scalar("select count(*) from t0 where pk in (6200, 6201)"); err != nil || n != "2" {
				viol("c08/consume/gap-workingset", fmt.Sprintf("rows kept only by the staged/working root after a soft reset: count=%s err=%v", n, err), witness(rp, nil))
			} else if _, err := x.Query("call dolt_commit('-m','recommit after soft reset')"); err != nil {
				viol("c08/consume/gap-workingset", "committing the staged root after the collections failed: "+err.Error(), witness(rp, nil))
			} else {
				tl.inc("c08.consumed.gap-workingset")
			}
			x.Close()
		}
	}
	if rp.applied["stash-then-drop-commit"] {
		if x := open("og_st"); x != nil {
			if _, err := x.Query("call dolt_stash('pop','s2')"); err != nil {
				viol("c08/consume/gap-stash", "popping the stash whose head commit only the stash keeps alive failed: "+err.Error(), witness(rp, nil))
			} else if n, err := x.Scalar("select count(*) from t0 where b = 'dirty-og'"); err != nil || n != "1" {
				viol("c08/consume/gap-stash", fmt.Sprintf("stashed edit after pop: count=%s err=%v", n, err), witness(rp, nil))
			} else {
				tl.inc("c08.consumed.gap-stash")
			}
			x.Close()
		}
	}
	if rp.applied["conflicted-merge-then-delete-source"] {
		if x := open("og_m"); x != nil {
			if n, err := x.Scalar("select count(*) from dolt_conflicts_t0"); err != nil || n == "0" {
				viol("c08/consume/gap-mergestate", fmt.Sprintf("conflict rows of the merge whose source commit only the merge state keeps alive: count=%s err=%v", n, err), witness(rp, nil))
			}
			check("gap-mergestate", x, "call dolt_merge('--abort')", "ogmerge.pre")
			x.Close()
		}
	}
}

type lockedBuf struct {
	mu sync.Mutex
	b  strings.Builder
}

func (l *lockedBuf) Write(p []byte) (int, error) {
	l.mu.Lock()
	defer l.mu.Unlock()
	return l.b.Write(p)
}

func (l *lockedBuf) String() string {
	l.mu.Lock()
	defer l.mu.Unlock()
	return l.b.String()
}

type fsckResult struct {
	DB  string `json:"db"`
	RC  int    `json:"rc"`
	Out string `json:"out"`
}

// fsckChild runs `vrepo fsck <dataDir> <db>...` and parses its JSON lines.
func fsckChild(c *rig.Ctx, dataDir string, dbs []string) map[string]fsckResult {
	out := map[string]fsckResult{}
	if len(dbs) == 0 {
		return out
	}
	cmd := exec.Command(rig.Self(), append([]string{"fsck", dataDir}, dbs...)...)
	cmd.Dir = c.Dir
	var env []string
	for _, e := range os.Environ() {
		if !strings.HasPrefix(e, "VERIF_HOOKS=") && !strings.HasPrefix(e, "GORACE=") {
			env = append(env, e)
		}
	}
	cmd.Env = env
	b, err := cmd.Output()
	if err != nil {
		c.Note("fsck child: " + err.Error())
	}
	for _, line := range strings.Split(string(b), "\n") {
		if !strings.HasPrefix(line, "FSCK ") {
			continue
		}
		var r fsckResult
		if json.Unmarshal([]byte(line[5:]), &r) == nil {
			out[r.DB] = r
		}
	}
	return out
}

func init() {
	rig.SubCommands["fsck"] = func(args []string) int {
		if len(args) < 2 {
			return 2
		}
		for _, db := range args[1:] {
			rc, o := fsck(args[0], db)
			b, _ := json.Marshal(fsckResult{DB: db, RC: rc, Out: o})
			fmt.Printf("\nFSCK %s\n", b)
		}
		return 0
	}
	// `vrepo gc2db [rounds]`: reproduction of a server crash outside C08's statement: dolt_gc() called concurrently on
	// two databases of one sql-server (session_aware safepoint controller, the default). The server-wide
	// GCSafepointController supports one waiter at a time; the second collection's CancelSafepoint / Waiter corrupts
	// the first one's bookkeeping and a session visit runs after its collection ended:
	// "panic: ValueStore gcAddChunk called while no GC is ongoing" (or "Attempt to create more than one GCSafepointWaiter").
	rig.SubCommands["gc2db"] = func(args []string) int {
		rounds := 200
		if len(args) > 0 {
			fmt.Sscan(args[0], &rounds)
		}
		dir, err := os.MkdirTemp("/var/tmp", "verif-gc2db-")
		if err != nil {
			return 2
		}
		defer os.RemoveAll(dir)
		srv, err := sqlrig.Start(filepath.Join(dir, "data"))
		if err != nil {
			fmt.Println(err)
			return 2
		}
		defer srv.Stop()
		var idle []*sqlrig.Session
		for _, db := range []string{"ga", "gb"} {
			x := srv.MustOpen("")
			if err := script(x, "create database "+db, "use "+db, "create table t (pk int primary key, v varchar(100))", "insert into t values (1,'x')", "call dolt_commit('-Am','c')"); err != nil {
				fmt.Println(err)
				return 2
			}
			idle = append(idle, x)
			for k := 0; k < 4; k++ { // idle sessions that have run a command: they are visited by every collection
				y := srv.MustOpen(db)
				y.Query("select * from t")
				idle = append(idle, y)
			}
		}
		var wg sync.WaitGroup
		for _, db := range []string{"ga", "gb"} {
			wg.Add(1)
			go func(db string) {
				defer wg.Done()
				x := srv.MustOpen(db)
				for k := 0; k < rounds; k++ {
					x.Query(fmt.Sprintf("insert into t values (%d,'y')", 10+k))
					if _, err := x.Query("call dolt_gc()"); err != nil {
						fmt.Printf("%s round %d: %v\n", db, k, err)
					}
				}
			}(db)
		}
		wg.Wait()
		fmt.Println("no crash in", rounds, "rounds")
		return 0
	}
}
