// Package vdatas holds the commit-graph and ref-update monitors (C18, C19, C20, C21, C44).
package vdatas

import (
	"context"
	"fmt"
	"math/rand"
	"sort"
	"strings"
	"time"

	"github.com/dolthub/dolt/go/store/chunks"
	"github.com/dolthub/dolt/go/store/datas"
	"github.com/dolthub/dolt/go/store/hash"
	"github.com/dolthub/dolt/go/store/prolly/tree"
	"github.com/dolthub/dolt/go/store/types"

	"verif/engines/vstore"
	"verif/rig"
)

var bg = context.Background()

// Register adds the checks of this engine.
func Register() {
	rig.Register(&rig.Spec{Prop: "C18", Level: "exploration", Stages: []rig.Stage{
		{Name: "dags", Fn: c18, TimeoutQuick: 20 * time.Minute, TimeoutThorough: 3 * time.Hour}}})
	rig.Register(&rig.Spec{Prop: "C19", Level: "exploration", Stages: []rig.Stage{
		{Name: "pairs", Fn: c19, TimeoutQuick: 20 * time.Minute, TimeoutThorough: 3 * time.Hour},
		{Name: "twin", Twin: &rig.Twin{Pkg: "store/datas", Files: []string{"verif_c19_test.go"}, Run: "^TestVerifC19$"},
			TimeoutQuick: 30 * time.Minute, TimeoutThorough: 3 * time.Hour}}})
	rig.Register(&rig.Spec{Prop: "C20", Level: "exploration",
		RaceFuncs: c20RaceFuncs,
		Stages: []rig.Stage{
			{Name: "lin", Fn: c20, Race: true, TimeoutQuick: 30 * time.Minute, TimeoutThorough: 4 * time.Hour}}})
	rig.Register(&rig.Spec{Prop: "C21", Level: "fault_enumeration",
		RaceFuncs: c20RaceFuncs,
		Stages: []rig.Stage{
			{Name: "pairs", Fn: c21, Race: true, TimeoutQuick: 30 * time.Minute, TimeoutThorough: 4 * time.Hour},
			{Name: "crash", Fn: vstore.C21Crash, TimeoutQuick: 30 * time.Minute, TimeoutThorough: 4 * time.Hour}}})
	rig.Register(&rig.Spec{Prop: "C44", Level: "exploration", Stages: []rig.Stage{
		{Name: "names", Fn: c44, TimeoutQuick: 20 * time.Minute, TimeoutThorough: 3 * time.Hour}}})
}

// ---- model commit DAG -------------------------------------------------------------------------------

// mCommit is one commit of the model DAG: ordered parent list (indexes of earlier commits, duplicates allowed).
type mCommit struct {
	Parents []int  `json:"p"`
	Val     string `json:"v"`
}

// mDAG is the model of a commit graph. Everything derived (heights, ancestor sets) is computed by brute force
// from the parent lists only.
type mDAG struct {
	C      []mCommit
	height []int
	anc    []bits // proper ancestors
}

type bits []uint64

func newBits(n int) bits { return make(bits, (n+63)/64) }
func (b bits) set(i int) { b[i/64] |= 1 << (uint(i) % 64) }
func (b bits) has(i int) bool {
	if i/64 >= len(b) {
		return false
	}
	return b[i/64]&(1<<(uint(i)%64)) != 0
}
func (b bits) or(o bits) {
	for i := range o {
		b[i] |= o[i]
	}
}
func (b bits) count() int {
	n := 0
	for _, w := range b {
		for ; w != 0; w &= w - 1 {
			n++
		}
	}
	return n
}

// add appends a commit and returns its index.
func (d *mDAG) add(val string, parents ...int) int {
	i := len(d.C)
	d.C = append(d.C, mCommit{Parents: append([]int{}, parents...), Val: val})
	h := 0
	a := newBits(i + 1)
	for _, p := range parents {
		if d.height[p] > h {
			h = d.height[p]
		}
		a.or(d.anc[p])
		a.set(p)
	}
	d.height = append(d.height, h+1)
	d.anc = append(d.anc, a)
	return i
}

// isAnc reports a ≼ b (a is b or a proper ancestor of b).
func (d *mDAG) isAnc(a, b int) bool { return a == b || d.anc[b].has(a) }

// bruteAncestors recomputes the proper ancestors of i by an explicit graph walk (independent of the incremental
// bitsets above; the two are cross-checked in C18 so that the oracle itself is validated on every DAG).
func (d *mDAG) bruteAncestors(i int) map[int]bool {
	seen := map[int]bool{}
	stack := append([]int{}, d.C[i].Parents...)
	for len(stack) > 0 {
		x := stack[len(stack)-1]
		stack = stack[:len(stack)-1]
		if seen[x] {
			continue
		}
		seen[x] = true
		stack = append(stack, d.C[x].Parents...)
	}
	return seen
}

func (d *mDAG) bruteHeight(i int, memo map[int]int) int {
	if h, ok := memo[i]; ok {
		return h
	}
	h := 0
	for _, p := range d.C[i].Parents {
		if ph := d.bruteHeight(p, memo); ph > h {
			h = ph
		}
	}
	memo[i] = h + 1
	return h + 1
}

// shape is a canonical description of the graph (used as distinct-case identity).
func (d *mDAG) shape() string {
	var sb strings.Builder
	for i, c := range d.C {
		fmt.Fprintf(&sb, "%d:%v;", i, c.Parents)
	}
	return sb.String()
}

type dagStats struct {
	Commits, Roots, Merges, Octopus, DupParents, CrissCross, MaxHeight int
}

func distinctInts(in []int) []int {
	seen := map[int]bool{}
	var out []int
	for _, x := range in {
		if !seen[x] {
			seen[x] = true
			out = append(out, x)
		}
	}
	return out
}

func (d *mDAG) stats() dagStats {
	s := dagStats{Commits: len(d.C)}
	for i, c := range d.C {
		dp := distinctInts(c.Parents)
		switch {
		case len(c.Parents) == 0:
			s.Roots++
		case len(dp) >= 3:
			s.Octopus++
			s.Merges++
		case len(dp) == 2:
			s.Merges++
		}
		if len(dp) != len(c.Parents) {
			s.DupParents++
		}
		if d.height[i] > s.MaxHeight {
			s.MaxHeight = d.height[i]
		}
	}
	// criss-cross: two commits with ≥ 2 incomparable best common ancestors
	for a := 0; a < len(d.C); a++ {
		for b := a + 1; b < len(d.C); b++ {
			if d.isAnc(a, b) {
				continue
			}
			if len(d.bestCommon(a, b)) >= 2 {
				s.CrissCross++
			}
		}
	}
	return s
}

// common returns all common ancestors (≼ both) of a and b.
func (d *mDAG) common(a, b int) []int {
	var out []int
	for x := 0; x < len(d.C); x++ {
		if d.isAnc(x, a) && d.isAnc(x, b) {
			out = append(out, x)
		}
	}
	return out
}

// bestCommon returns the common ancestors of maximal height.
func (d *mDAG) bestCommon(a, b int) []int {
	cs := d.common(a, b)
	mh := 0
	for _, x := range cs {
		if d.height[x] > mh {
			mh = d.height[x]
		}
	}
	var out []int
	for _, x := range cs {
		if d.height[x] == mh {
			out = append(out, x)
		}
	}
	return out
}

// genDAG produces a random DAG with n commits: random 0–4 parents biased to recent tips, duplicate parents,
// explicit criss-cross pairs, octopus merges and additional roots (disjoint histories).
func genDAG(r *rand.Rand, n int, tag string) *mDAG {
	d := &mDAG{}
	pick := func() int {
		i := len(d.C)
		if r.Intn(100) < 70 {
			w := 1 + r.Intn(6)
			if w > i {
				w = i
			}
			return i - 1 - r.Intn(w)
		}
		return r.Intn(i)
	}
	val := func() string { return fmt.Sprintf("%s-v%d", tag, len(d.C)) }
	dupP := r.Intn(25)
	rootP := r.Intn(12)
	for len(d.C) < n {
		i := len(d.C)
		if i == 0 {
			d.add(val())
			continue
		}
		x := r.Intn(100)
		switch {
		case x < rootP:
			d.add(val())
		case x < rootP+12 && i >= 2 && n-i >= 2:
			a, b := pick(), pick()
			if a == b {
				b = (a + 1) % i
			}
			d.add(val(), a, b)
			d.add(val(), b, a)
		case x < rootP+20 && i >= 3:
			k := 3 + r.Intn(2)
			var ps []int
			for len(ps) < k {
				ps = append(ps, pick())
			}
			d.add(val(), ps...)
		default:
			k := 1
			switch y := r.Intn(100); {
			case y < 55:
				k = 1
			case y < 85:
				k = 2
			case y < 93:
				k = 3
			default:
				k = 4
			}
			var ps []int
			for len(ps) < k {
				ps = append(ps, pick())
			}
			if r.Intn(100) < dupP {
				// duplicate one parent (keep ≤ 4)
				dup := ps[r.Intn(len(ps))]
				if len(ps) < 4 {
					pos := r.Intn(len(ps) + 1)
					ps = append(ps[:pos], append([]int{dup}, ps[pos:]...)...)
				} else {
					ps[r.Intn(len(ps))] = dup
				}
			}
			d.add(val(), ps...)
		}
	}
	return d
}

// ---- real database behind a model DAG ----------------------------------------------------------------

// realDB bundles a datas.Database with the value store / node store it was built from (the exported
// constructors need them separately).
type realDB struct {
	cs chunks.ChunkStore
	vs *types.ValueStore
	ns tree.NodeStore
	db datas.Database
}

func newRealDB(cs chunks.ChunkStore) *realDB {
	vs := types.NewValueStore(cs)
	ns := tree.NewNodeStore(cs)
	return &realDB{cs: cs, vs: vs, ns: ns, db: datas.NewTypesDatabase(vs, ns)}
}

func newMemDB() (*realDB, *chunks.MemoryStorage) {
	ms := &chunks.MemoryStorage{}
	return newRealDB(ms.NewViewWithDefaultFormat()), ms
}

var epoch = datas.CommitDateAt(time.UnixMilli(0))

func metaFor(desc string) *datas.CommitMeta {
	return &datas.CommitMeta{
		Author:      datas.CommitIdent{Name: "verif", Email: "verif@example.com", Date: epoch},
		Committer:   datas.CommitIdent{Name: "verif", Email: "verif@example.com", Date: epoch},
		Description: desc,
	}
}

// builtDAG is a model DAG materialised in a real database.
type builtDAG struct {
	*realDB
	m     *mDAG
	addr  []hash.Hash
	idx   map[hash.Hash]int
	route []string
	// dataset -> index of the commit currently at its head (datasets used while building)
	heads map[string]int
	// witDag, when set, replaces the full parent list in violation witnesses (tall graphs)
	witDag any
}

// buildDAG writes every commit of m through the real API, choosing one of three construction routes per commit:
//
//	fresh   : Database.Commit on a dataset without a head, explicit parents
//	onhead  : Database.Commit on a dataset whose head is one of the parents (the ordinary commit path)
//	prebuilt: datas.NewCommitForValue + Database.WriteCommit on a fresh dataset
func buildDAG(r *rand.Rand, rdb *realDB, m *mDAG, prefix string) (*builtDAG, error) {
	b := &builtDAG{realDB: rdb, m: m, idx: map[hash.Hash]int{}, heads: map[string]int{}}
	headOf := map[int][]string{} // commit idx -> datasets whose head it is
	for i, c := range m.C {
		parents := make([]hash.Hash, len(c.Parents))
		for k, p := range c.Parents {
			parents[k] = b.addr[p]
		}
		opts := datas.CommitOptions{Parents: parents, Meta: metaFor(c.Val)}
		v := types.String(c.Val)
		var ds datas.Dataset
		var err error
		route := "fresh"
		var onhead string
		for _, p := range c.Parents {
			if dss := headOf[p]; len(dss) > 0 && r.Intn(100) < 60 {
				onhead = dss[0]
				break
			}
		}
		switch {
		case onhead != "":
			route = "onhead"
			ds, err = rdb.db.GetDataset(bg, onhead)
			if err != nil {
				return nil, err
			}
			old := b.heads[onhead]
			ds, err = rdb.db.Commit(bg, ds, v, opts)
			if err != nil {
				return nil, fmt.Errorf("commit %d (onhead %s): %w", i, onhead, err)
			}
			// head moved
			hs := headOf[old]
			for k := range hs {
				if hs[k] == onhead {
					headOf[old] = append(hs[:k:k], hs[k+1:]...)
					break
				}
			}
			b.heads[onhead] = i
			headOf[i] = append(headOf[i], onhead)
		case len(parents) > 0 && r.Intn(100) < 30:
			route = "prebuilt"
			cm, err := datas.NewCommitForValue(bg, rdb.cs, rdb.vs, rdb.ns, v, opts)
			if err != nil {
				return nil, fmt.Errorf("NewCommitForValue %d: %w", i, err)
			}
			id := fmt.Sprintf("%s/n%d", prefix, i)
			ds, err = rdb.db.WriteCommit(bg, datas.NewHeadlessDataset(rdb.db, id), cm)
			if err != nil {
				return nil, fmt.Errorf("WriteCommit %d: %w", i, err)
			}
			b.heads[id] = i
			headOf[i] = append(headOf[i], id)
		default:
			id := fmt.Sprintf("%s/n%d", prefix, i)
			ds, err = rdb.db.GetDataset(bg, id)
			if err != nil {
				return nil, err
			}
			ds, err = rdb.db.Commit(bg, ds, v, opts)
			if err != nil {
				return nil, fmt.Errorf("commit %d (fresh): %w", i, err)
			}
			b.heads[id] = i
			headOf[i] = append(headOf[i], id)
		}
		a, ok := ds.MaybeHeadAddr()
		if !ok {
			return nil, fmt.Errorf("commit %d: dataset has no head after commit", i)
		}
		if j, dup := b.idx[a]; dup {
			return nil, fmt.Errorf("harness: commits %d and %d have the same address (values must be unique)", j, i)
		}
		b.addr = append(b.addr, a)
		b.idx[a] = i
		b.route = append(b.route, route)
	}
	return b, nil
}

func short(h hash.Hash) string { return h.String()[:8] }

func sortedKeys[V any](m map[string]V) []string {
	out := make([]string, 0, len(m))
	for k := range m {
		out = append(out, k)
	}
	sort.Strings(out)
	return out
}
