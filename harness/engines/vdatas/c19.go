package vdatas

import (
	"errors"
	"fmt"
	"math/rand"
	"strings"
	"sync"

	"github.com/dolthub/dolt/go/libraries/doltcore/doltdb"
	"github.com/dolthub/dolt/go/libraries/doltcore/ref"
	"github.com/dolthub/dolt/go/store/datas"
	"github.com/dolthub/dolt/go/store/hash"

	"verif/rig"
)

// C19 — merge bases, ancestor specs and fast-forward checks resolve as the commit graph dictates.
//
// For every ordered pair (a,b) of every DAG: datas.FindCommonAncestor and doltdb.GetCommitAncestor are compared with
// the brute-force set of common ancestors (is a common ancestor; none higher; same answer for (b,a); same answer on
// a second run through a fresh handle; "none" only if none exists). Commit.CanFastForwardTo / DoltDB.CanFastForward /
// Database.FastForward are compared with the model ancestor relation. Commit specs <hash|branch|HEAD><~n ^k chain>
// are resolved through doltdb.NewCommitSpec + DoltDB.Resolve and compared with the model parent walk.

func c19(c *rig.Ctx) {
	c.Rule("C19: the DAGs of C18 (same generator and seeds) built under refs/heads/*; all ordered pairs (incl. a==b) for merge base and fast-forward; per commit several random ancestor-spec chains over ~, ~n, ^, ^1, ^2 (plus the rejected forms ^0, ^3, ~0) on hash, branch-name and HEAD bases; a DAG is distinct by its parent-list shape and non-trivial when it contains a merge; plus the TALL family (see C18): all ordered pairs of ≤ ~76 boundary commits (heights around 1, 250–258, 509–514, forks, side branches, merges, tips) and 300 PRNG pairs in both orders per graph, fast-forwards and ~n specs across the 256-multiples")
	c.Assume("C19: height in 'no common ancestor is higher' is the model height 1+max(parents); C18 decides that stored heights equal it")
	c.Assume("C19: ancestor specs with a parent number other than 1 or 2 (^0, ^3, …) are rejected by the parser (ErrInvalidAncestorSpec); a rejection selects no commit and is counted, not reported")
	n := c.Pick(300, 20000)
	jobs := make(chan int)
	var mu sync.Mutex
	var wg sync.WaitGroup
	total := map[string]int{}
	for w := 0; w < 6; w++ {
		wg.Add(1)
		go func() {
			defer wg.Done()
			for i := range jobs {
				cnt := c19One(c, i)
				mu.Lock()
				for k, v := range cnt {
					total[k] += v
				}
				mu.Unlock()
			}
		}()
	}
	for i := 0; i < n; i++ {
		jobs <- i
	}
	close(jobs)
	wg.Wait()
	c19Tall(c, total, &mu)
	for _, k := range sortedKeys(total) {
		c.Count(k, total[k])
	}
	c.Require(total["c19.pairs.none_expected"] > 0, "no pair without a common ancestor was explored")
	c.Require(total["c19.pairs.multiple_best_candidates"] > 0, "no pair with several equal-height merge-base candidates (criss-cross) was explored")
	c.Require(total["c19.pairs.base_is_proper_ancestor_of_both"] > 0, "no diverged pair was explored")
	c.Require(total["c19.spec.resolved"] > 0 && total["c19.spec.second_parent_steps"] > 0 && total["c19.spec.walk_off_graph"] > 0,
		"ancestor specs: need resolved chains, ^2 steps and chains that leave the graph")
	c.Require(total["c19.pairs.straddling_a_multiple_of_256"] > 0 && total["c19.ff.real_fastforward_straddling_256"] > 0 && total["c19.tall.max_height"] >= 512,
		"tall graphs: need pairs and real fast-forwards straddling a multiple of 256 and a graph reaching height 512")
	c.Require(total["c19.ff.real_fastforward_ok"] > 0 && total["c19.ff.real_fastforward_refused"] > 0, "real FastForward: need accepted and refused cases")
}

func c19One(c *rig.Ctx, i int) map[string]int {
	cnt := map[string]int{}
	r := c.SubRand("c18", i) // the same DAGs as C18
	n := 1 + r.Intn(60)
	if i%23 == 0 {
		n = 1 + r.Intn(3)
	}
	m := genDAG(r, n, fmt.Sprintf("c18-%d", i))
	name := fmt.Sprintf("c19/dag%d", i)
	c.Case(name, map[string]any{"n": n, "commits": m.C})
	st := m.stats()
	if st.Merges > 0 {
		c.Distinct("c19:" + m.shape())
	}
	rdb, ms := newMemDB()
	defer rdb.db.Close()
	b, err := buildDAG(r, rdb, m, "refs/heads")
	if err != nil {
		c.Violation("c19/build-failed", "building a legal DAG through datas.Database failed: "+err.Error(), map[string]any{"dag": m.C})
		return cnt
	}
	// a second, independent handle on the same storage (no shared caches) for the determinism clause
	rdb2 := newRealDB(ms.NewViewWithDefaultFormat())
	defer rdb2.db.Close()
	ddb, err := doltdb.DoltDBFromCS(ms.NewViewWithDefaultFormat(), "c19")
	rig.Must(err)
	defer ddb.Close()

	dc := make([]*datas.Commit, len(m.C))
	dc2 := make([]*datas.Commit, len(m.C))
	hc := make([]*doltdb.Commit, len(m.C))
	for k := range m.C {
		dc[k], err = datas.LoadCommitAddr(bg, rdb.vs, b.addr[k])
		rig.Must(err)
		dc2[k], err = datas.LoadCommitAddr(bg, rdb2.vs, b.addr[k])
		rig.Must(err)
		hc[k], err = doltdb.NewCommit(bg, ddb.ValueReadWriter(), ddb.NodeStore(), dc2[k])
		rig.Must(err)
	}
	e := &c19Env{c: c, name: name, m: m, b: b, rdb: rdb, rdb2: rdb2, ddb: ddb, dc: dc, dc2: dc2, hc: hc, cnt: cnt, dagWit: m.C, res: map[[2]int]int{}}
	for a := range m.C {
		for bb := range m.C {
			e.pair(a, bb)
		}
	}
	e.symmetry()

	// DoltDB.CanFastForward through branch refs, and the real FastForward on a scratch branch
	heads := sortedKeys(b.heads)
	for t := 0; t < 30 && len(heads) > 0; t++ {
		id := heads[r.Intn(len(heads))]
		bb := r.Intn(len(m.C))
		if t%2 == 0 && m.anc[b.heads[id]].count() > 0 { // bias to related pairs
			bb = pickRelated(r, m, b.heads[id])
		}
		e.branchCanFF(id, bb)
	}
	for t := 0; t < 24; t++ {
		a := r.Intn(len(m.C))
		bb := r.Intn(len(m.C))
		if t%2 == 0 {
			bb = pickRelated(r, m, a)
		}
		e.realFF(fmt.Sprintf("refs/heads/scratch%d", t), a, bb)
	}

	// ancestor specs
	c19Specs(c, name, r, b, ddb, cnt)
	if i < 3 {
		c.Sample(map[string]any{"case": name, "stats": st, "parents": m.C})
	}
	return cnt
}


// c19Env carries one built DAG and its handles; pair() applies every merge-base / fast-forward oracle to one
// ordered pair of commits.
type c19Env struct {
	c         *rig.Ctx
	name      string
	m         *mDAG
	b         *builtDAG
	rdb, rdb2 *realDB
	ddb       *doltdb.DoltDB
	dc, dc2   []*datas.Commit
	hc        []*doltdb.Commit
	cnt       map[string]int
	dagWit    any
	res       map[[2]int]int // index of the returned base, -1 none, -2 error
}

func (e *c19Env) wit(a, bb int, extra map[string]any) map[string]any {
	w := map[string]any{"dag": e.dagWit, "a": a, "b": bb, "height_a": e.m.height[a], "height_b": e.m.height[bb]}
	for k, v := range extra {
		w[k] = v
	}
	return w
}

// straddles reports whether two heights lie in different 256-blocks (the closure key's height prefix is
// little-endian: byte-wise and numeric order differ exactly across these boundaries).
func straddles(h1, h2 int) bool { return h1/256 != h2/256 }

func (e *c19Env) pair(a, bb int) {
	c, name, m, b, cnt, rdb, rdb2, dc, dc2, hc := e.c, e.name, e.m, e.b, e.cnt, e.rdb, e.rdb2, e.dc, e.dc2, e.hc
	wit := e.wit
	if _, done := e.res[[2]int{a, bb}]; done {
		return
	}
	e.res[[2]int{a, bb}] = -2
	cnt["c19.pairs"]++
	best := m.bestCommon(a, bb)
	if straddles(m.height[a], m.height[bb]) {
		cnt["c19.pairs.straddling_a_multiple_of_256"]++
	} else if len(best) > 0 && straddles(m.height[best[0]], m.height[a]) {
		cnt["c19.pairs.base_below_a_multiple_of_256"]++
	}
	h, ok, err := datas.FindCommonAncestor(bg, dc[a], dc[bb], rdb.vs, rdb.vs, rdb.ns, rdb.ns)
	if err != nil {
		c.Violation("c19/merge-base/error", fmt.Sprintf("%s: FindCommonAncestor(%d,%d) failed: %v", name, a, bb, err), wit(a, bb, nil))
		return
	}
	switch {
	case len(best) == 0:
		cnt["c19.pairs.none_expected"]++
	case len(best) > 1:
		cnt["c19.pairs.multiple_best_candidates"]++
	}
	if len(best) > 0 && best[0] != a && best[0] != bb {
		cnt["c19.pairs.base_is_proper_ancestor_of_both"]++
	}
	if !ok {
		e.res[[2]int{a, bb}] = -1
		if len(best) > 0 {
			c.Violation("c19/merge-base/none-but-exists", fmt.Sprintf("%s: FindCommonAncestor(%d,%d) (heights %d,%d) found none; common ancestors of maximal height %d: %v", name, a, bb, m.height[a], m.height[bb], m.height[best[0]], best), wit(a, bb, map[string]any{"best": best}))
		}
	} else {
		x, known := b.idx[h]
		switch {
		case !known:
			c.Violation("c19/merge-base/not-a-commit-of-the-graph", fmt.Sprintf("%s: FindCommonAncestor(%d,%d) = %s which is no commit of the graph", name, a, bb, h), wit(a, bb, nil))
		case !(m.isAnc(x, a) && m.isAnc(x, bb)):
			e.res[[2]int{a, bb}] = x
			c.Violation("c19/merge-base/not-common-ancestor", fmt.Sprintf("%s: FindCommonAncestor(%d,%d) = %d which is not an ancestor of both", name, a, bb, x), wit(a, bb, map[string]any{"got": x, "best": best}))
		case m.height[x] != m.height[best[0]]:
			e.res[[2]int{a, bb}] = x
			c.Violation("c19/merge-base/not-highest", fmt.Sprintf("%s: FindCommonAncestor(%d,%d) = %d (height %d) but common ancestor(s) %v have height %d", name, a, bb, x, m.height[x], best, m.height[best[0]]), wit(a, bb, map[string]any{"got": x, "best": best}))
		default:
			e.res[[2]int{a, bb}] = x
		}
	}
	// second run through a fresh handle: the choice is deterministic
	h2, ok2, err2 := datas.FindCommonAncestor(bg, dc2[a], dc2[bb], rdb2.vs, rdb2.vs, rdb2.ns, rdb2.ns)
	if err2 != nil || ok2 != ok || h2 != h {
		c.Violation("c19/merge-base/nondeterministic", fmt.Sprintf("%s: FindCommonAncestor(%d,%d) = (%s,%v) and on a second run through a fresh handle (%s,%v,%v)", name, a, bb, h, ok, h2, ok2, err2), wit(a, bb, nil))
	}
	// doltdb layer
	oc, err := doltdb.GetCommitAncestor(bg, hc[a], hc[bb])
	switch {
	case err != nil && errors.Is(err, doltdb.ErrNoCommonAncestor):
		if ok {
			c.Violation("c19/doltdb-merge-base/differs", fmt.Sprintf("%s: doltdb.GetCommitAncestor(%d,%d) reports none, datas.FindCommonAncestor %s", name, a, bb, idxName(b, h)), wit(a, bb, nil))
		}
	case err != nil:
		c.Violation("c19/doltdb-merge-base/error", fmt.Sprintf("%s: doltdb.GetCommitAncestor(%d,%d) failed: %v", name, a, bb, err), wit(a, bb, nil))
	default:
		if !ok || oc.Addr != h {
			c.Violation("c19/doltdb-merge-base/differs", fmt.Sprintf("%s: doltdb.GetCommitAncestor(%d,%d) = %s, datas.FindCommonAncestor = (%s,%v)", name, a, bb, idxName(b, oc.Addr), idxName(b, h), ok), wit(a, bb, nil))
		}
		cnt["c19.pairs.doltdb_compared"]++
	}
	// fast-forward predicate
	can, err := hc[a].CanFastForwardTo(bg, hc[bb])
	want := m.isAnc(a, bb)
	if err != nil && !(errors.Is(err, doltdb.ErrUpToDate) || errors.Is(err, doltdb.ErrIsAhead) || errors.Is(err, doltdb.ErrNoCommonAncestor)) {
		c.Violation("c19/can-ff/error", fmt.Sprintf("%s: CanFastForwardTo(%d→%d) failed: %v", name, a, bb, err), wit(a, bb, nil))
	} else if can != want {
		c.Violation("c19/can-ff/wrong", fmt.Sprintf("%s: CanFastForwardTo(%d→%d) (heights %d→%d) = %v (err %v) but ancestor relation says %v", name, a, bb, m.height[a], m.height[bb], can, err, want), wit(a, bb, nil))
	}
	if want {
		cnt["c19.ff.can_expected_true"]++
	} else {
		cnt["c19.ff.can_expected_false"]++
	}
}

// symmetry compares the answers for (a,b) and (b,a) wherever both were evaluated.
func (e *c19Env) symmetry() {
	for k, v := range e.res {
		a, bb := k[0], k[1]
		if a >= bb {
			continue
		}
		w, both := e.res[[2]int{bb, a}]
		if !both {
			continue
		}
		if v != -2 && w != -2 && v != w {
			e.c.Violation("c19/merge-base/asymmetric", fmt.Sprintf("%s: FindCommonAncestor(%d,%d) = %d but FindCommonAncestor(%d,%d) = %d", e.name, a, bb, v, bb, a, w), e.wit(a, bb, nil))
		}
		e.cnt["c19.pairs.symmetry_checked"]++
	}
}

// branchCanFF checks DoltDB.CanFastForward of the branch dataset |id| to commit bb.
func (e *c19Env) branchCanFF(id string, bb int) {
	a := e.b.heads[id]
	can, err := e.ddb.CanFastForward(bg, ref.NewBranchRef(id), e.hc[bb])
	want := e.m.isAnc(a, bb)
	if err != nil && !(errors.Is(err, doltdb.ErrUpToDate) || errors.Is(err, doltdb.ErrIsAhead) || errors.Is(err, doltdb.ErrNoCommonAncestor)) {
		e.c.Violation("c19/can-ff/error", fmt.Sprintf("%s: DoltDB.CanFastForward(%s@%d→%d) failed: %v", e.name, id, a, bb, err), e.wit(a, bb, nil))
	} else if can != want {
		e.c.Violation("c19/can-ff/wrong", fmt.Sprintf("%s: DoltDB.CanFastForward(%s@%d→%d) = %v (err %v) but ancestor relation says %v", e.name, id, a, bb, can, err, want), e.wit(a, bb, nil))
	}
	e.cnt["c19.ff.branch_checked"]++
}

// realFF puts a scratch branch at commit a and fast-forwards it to bb through Database.FastForward.
func (e *c19Env) realFF(id string, a, bb int) {
	c, name, m, b, cnt, rdb := e.c, e.name, e.m, e.b, e.cnt, e.rdb
	wit := e.wit
	ds, err := rdb.db.SetHead(bg, datas.NewHeadlessDataset(rdb.db, id), b.addr[a], "")
	rig.Must(err)
	ds2, err := rdb.db.FastForward(bg, ds, b.addr[bb], "", false)
	want := m.isAnc(a, bb)
	if straddles(m.height[a], m.height[bb]) {
		cnt["c19.ff.real_fastforward_straddling_256"]++
	}
	switch {
	case err == nil:
		got, _ := ds2.MaybeHeadAddr()
		if !want {
			c.Violation("c19/fast-forward/moved-to-non-descendant", fmt.Sprintf("%s: FastForward of a branch at %d to %d succeeded but %d is not an ancestor of %d", name, a, bb, a, bb), wit(a, bb, nil))
		} else if got != b.addr[bb] {
			c.Violation("c19/fast-forward/wrong-head", fmt.Sprintf("%s: FastForward %d→%d succeeded but head is %s", name, a, bb, idxName(b, got)), wit(a, bb, nil))
		}
		cnt["c19.ff.real_fastforward_ok"]++
	case errors.Is(err, datas.ErrMergeNeeded):
		if want {
			c.Violation("c19/fast-forward/refused-descendant", fmt.Sprintf("%s: FastForward of a branch at %d (height %d) to its descendant %d (height %d) was refused (ErrMergeNeeded)", name, a, m.height[a], bb, m.height[bb]), wit(a, bb, nil))
		}
		cnt["c19.ff.real_fastforward_refused"]++
	default:
		c.Violation("c19/fast-forward/error", fmt.Sprintf("%s: FastForward %d→%d failed: %v", name, a, bb, err), wit(a, bb, nil))
	}
}

func pickRelated(r *rand.Rand, m *mDAG, a int) int {
	var rel []int
	for x := range m.C {
		if x != a && (m.isAnc(a, x) || m.isAnc(x, a)) {
			rel = append(rel, x)
		}
	}
	if len(rel) == 0 {
		return a
	}
	return rel[r.Intn(len(rel))]
}

// specTok is one token of an ancestor spec with its model meaning.
type specTok struct {
	text  string
	steps []int // parent indexes to follow (0-based); nil + bad => parser must reject
	bad   bool
}

func genSpec(r *rand.Rand) (string, []int, bool) {
	var sb strings.Builder
	var steps []int
	bad := false
	n := 1 + r.Intn(5)
	for i := 0; i < n; i++ {
		switch x := r.Intn(100); {
		case x < 25:
			sb.WriteString("~")
			steps = append(steps, 0)
		case x < 45:
			k := r.Intn(5) // ~0 … ~4
			if r.Intn(20) == 0 {
				k = 10 + r.Intn(5)
			}
			fmt.Fprintf(&sb, "~%d", k)
			for j := 0; j < k; j++ {
				steps = append(steps, 0)
			}
		case x < 60:
			sb.WriteString("^")
			steps = append(steps, 0)
		case x < 72:
			sb.WriteString("^1")
			steps = append(steps, 0)
		case x < 92:
			sb.WriteString("^2")
			steps = append(steps, 1)
		case x < 96:
			sb.WriteString("^3")
			bad = true
		default:
			sb.WriteString("^0")
			bad = true
		}
	}
	return sb.String(), steps, bad
}

func c19Specs(c *rig.Ctx, name string, r *rand.Rand, b *builtDAG, ddb *doltdb.DoltDB, cnt map[string]int) {
	m := b.m
	headOf := map[int]string{}
	for _, id := range sortedKeys(b.heads) {
		headOf[b.heads[id]] = id
	}
	for k := range m.C {
		for t := 0; t < 4; t++ {
			spec, steps, bad := genSpec(r)
			// model walk
			cur, off := k, false
			for _, s := range steps {
				if s >= len(m.C[cur].Parents) {
					off = true
					break
				}
				cur = m.C[cur].Parents[s]
				if s == 1 {
					cnt["c19.spec.second_parent_steps"]++
				}
			}
			bases := []struct {
				kind, base string
				cwb        ref.DoltRef
			}{{"hash", b.addr[k].String(), nil}}
			if id, ok := headOf[k]; ok {
				br := strings.TrimPrefix(id, "refs/heads/")
				bases = append(bases, struct {
					kind, base string
					cwb        ref.DoltRef
				}{"branch", br, nil})
				bases = append(bases, struct {
					kind, base string
					cwb        ref.DoltRef
				}{"ref", id, nil})
				hs := []string{"HEAD", "head", "Head"}
				bases = append(bases, struct {
					kind, base string
					cwb        ref.DoltRef
				}{"head", hs[r.Intn(3)], ref.NewBranchRef(br)})
			}
			for _, bs := range bases {
				full := bs.base + spec
				w := map[string]any{"dag": m.C, "commit": k, "spec": full, "model_steps": steps}
				cs, err := doltdb.NewCommitSpec(full)
				if bad {
					if err == nil {
						// the parser accepted ^0 / ^3: then it must still denote a parent walk; we have no model for it
						c.Violation("c19/spec/accepted-unsupported-parent-number", fmt.Sprintf("%s: commit spec %q was accepted although it uses a parent number the parser documents as invalid", name, full), w)
					} else {
						cnt["c19.spec.rejected_parent_number"]++
					}
					continue
				}
				if err != nil {
					c.Violation("c19/spec/parse-error", fmt.Sprintf("%s: commit spec %q rejected: %v", name, full, err), w)
					continue
				}
				oc, err := ddb.Resolve(bg, cs, bs.cwb)
				if off {
					cnt["c19.spec.walk_off_graph"]++
					if err == nil {
						c.Violation("c19/spec/resolved-beyond-graph", fmt.Sprintf("%s: %q (commit %d) resolved to %s although the parent walk %v leaves the graph", name, full, k, idxName(b, oc.Addr), steps), w)
					} else if !errors.Is(err, doltdb.ErrInvalidAncestorSpec) {
						c.Violation("c19/spec/error", fmt.Sprintf("%s: %q failed with %v (expected invalid ancestor spec)", name, full, err), w)
					}
					continue
				}
				if err != nil {
					c.Violation("c19/spec/error", fmt.Sprintf("%s: %q (commit %d, walk %v → %d) failed: %v", name, full, k, steps, cur, err), w)
					continue
				}
				cnt["c19.spec.resolved"]++
				cnt["c19.spec.base."+bs.kind]++
				if oc.Addr != b.addr[cur] {
					c.Violation("c19/spec/wrong-commit", fmt.Sprintf("%s: %q (commit %d) resolved to %s, the parent walk %v gives %d", name, full, k, idxName(b, oc.Addr), steps, cur), w)
				} else if cm, ok := oc.ToCommit(); ok {
					if h, _ := cm.HashOf(); h != oc.Addr {
						c.Violation("c19/spec/wrong-commit", fmt.Sprintf("%s: %q resolved to an OptionalCommit whose commit %s differs from its address %s", name, full, h, oc.Addr), w)
					}
				}
			}
		}
	}
}

var _ = hash.Hash{}
