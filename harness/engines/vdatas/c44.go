package vdatas

import (
	"errors"
	"fmt"
	"math/rand"
	"sort"
	"strings"

	"github.com/dolthub/dolt/go/libraries/doltcore/doltdb"
	"github.com/dolthub/dolt/go/libraries/doltcore/ref"
	"github.com/dolthub/dolt/go/store/datas"
	"github.com/dolthub/dolt/go/store/hash"

	"verif/rig"
)

// C44 — names and revision specs parse as documented.
//
// Part 1: an independent implementation of the documented ref-name rules is compared with ref.IsValidBranchName,
// doltdb.IsValidUserBranchName, doltdb.IsValidBranchRef, ref.IsValidTagName and doltdb.IsValidTagRef on all short
// strings over a 21-symbol alphabet of forbidden constructs and on long strings assembled from hostile fragments.
//
// The rule classes. S* are the rules the property statement lists; D* are documented at the function under test
// (doc comments of InvalidBranchNameRegex / InvalidTagNameRegex / validateDatasetIdComponent / ValidateDatasetId /
// IsValidUserBranchName) but not listed in the statement.
const (
	rEmptyComponent = "S1-empty-component" // "", leading/trailing "/", "//"
	rDotDot         = "S2-dotdot"
	rAtBrace        = "S3-at-brace"
	rControl        = "S4-control-char"
	rForbidden      = "S5-forbidden-char" // : ? [ \ ^ ~ * SP TAB
	rHEAD           = "S6-HEAD"
	rHash           = "S7-commit-hash"
	rDash           = "D1-single-dash"
	rLock           = "D2-component-ends-.lock"
	rLeadingDot     = "D3-component-begins-with-dot"
	rNonASCII       = "D4-non-ascii"
	rLowerHead      = "D5-head"
	rSingleAt       = "D6-single-at"
	rTrailingDot    = "D7-ends-with-dot"
)

var c44AllRules = []string{rEmptyComponent, rDotDot, rAtBrace, rControl, rForbidden, rHEAD, rHash, rDash, rLock, rLeadingDot, rNonASCII, rLowerHead, rSingleAt, rTrailingDot}

// c44Rules returns the set of rule classes the name violates (independent implementation: plain byte scanning, no
// regular expressions, no table shared with the code under test).
func c44Rules(s string) map[string]bool {
	v := map[string]bool{}
	if s == "" || strings.HasPrefix(s, "/") || strings.HasSuffix(s, "/") || strings.Contains(s, "//") {
		v[rEmptyComponent] = true
	}
	if strings.Contains(s, "..") {
		v[rDotDot] = true
	}
	if strings.Contains(s, "@{") {
		v[rAtBrace] = true
	}
	for i := 0; i < len(s); i++ {
		b := s[i]
		switch {
		case b == '\t':
			v[rControl] = true
			v[rForbidden] = true
		case b < 0x20 || b == 0x7f:
			v[rControl] = true
		case b == ':' || b == '?' || b == '[' || b == '\\' || b == '^' || b == '~' || b == '*' || b == ' ':
			v[rForbidden] = true
		case b >= 0x80:
			v[rNonASCII] = true
		}
	}
	if s == "HEAD" {
		v[rHEAD] = true
	}
	if s == "head" {
		v[rLowerHead] = true
	}
	if s == "-" {
		v[rDash] = true
	}
	if s == "@" {
		v[rSingleAt] = true
	}
	if len(s) == 32 {
		all := true
		for i := 0; i < 32; i++ {
			b := s[i]
			if !((b >= '0' && b <= '9') || (b >= 'a' && b <= 'v')) {
				all = false
			}
		}
		if all {
			v[rHash] = true
		}
	}
	if strings.HasSuffix(s, ".") {
		v[rTrailingDot] = true
	}
	for _, comp := range strings.Split(s, "/") {
		if strings.HasPrefix(comp, ".") {
			v[rLeadingDot] = true
		}
		if strings.HasSuffix(comp, ".lock") {
			v[rLock] = true
		}
	}
	return v
}

type c44Func struct {
	name  string
	rules map[string]bool // documented rules of this function
	call  func(s string) (accepted bool, applicable bool)
}

func ruleSet(rs ...string) map[string]bool {
	m := map[string]bool{}
	for _, r := range rs {
		m[r] = true
	}
	return m
}

func c44Funcs() []c44Func {
	sRules := []string{rEmptyComponent, rDotDot, rAtBrace, rControl, rForbidden, rHEAD, rHash}
	branch := append(append([]string{}, sRules...), rDash, rLock, rLeadingDot, rNonASCII, rSingleAt, rTrailingDot)
	user := append(append([]string{}, branch...), rLowerHead)
	tag := append(append([]string{}, sRules...), rDash, rLock)
	tagRef := append(append([]string{}, tag...), rLowerHead)
	return []c44Func{
		{"ref.IsValidBranchName", ruleSet(branch...), func(s string) (bool, bool) { return ref.IsValidBranchName(s), true }},
		{"doltdb.IsValidUserBranchName", ruleSet(user...), func(s string) (bool, bool) { return doltdb.IsValidUserBranchName(s), true }},
		{"doltdb.IsValidBranchRef", ruleSet(user...), func(s string) (bool, bool) {
			if strings.HasPrefix(s, "refs/") {
				return false, false // NewBranchRef interprets (and may panic on) full ref strings: not a bare name
			}
			return doltdb.IsValidBranchRef(ref.NewBranchRef(s)), true
		}},
		{"ref.IsValidTagName", ruleSet(tag...), func(s string) (bool, bool) { return ref.IsValidTagName(s), true }},
		{"doltdb.IsValidTagRef", ruleSet(tagRef...), func(s string) (bool, bool) {
			if strings.HasPrefix(s, "refs/") {
				return false, false
			}
			return doltdb.IsValidTagRef(ref.NewTagRef(s)), true
		}},
	}
}

var c44Alphabet = []string{"a", "v", "w", "0", "/", ".", "-", "@", "{", "~", "^", ":", "?", "[", "\\", "*", " ", "\t", "\x7f", "\x01", "é"}

var c44Fragments = []string{
	"HEAD", "head", "Head", "-", "@", "@{", "{", "}", ".lock", ".lock/", "lock", "..", ".", "/", "//", "a", "b", "main", "feature", "v1.0", "x-y", "_",
	"refs/heads/", "refs/tags/", "heads/", "tags/", "remotes/origin/", "~", "^", "~1", "^2", ":", "?", "[", "\\", "*", " ", "\t", "\x00", "\x1f", "\x7f", "é", "日本",
	"0123456789abcdefghijklmnopqrstuv", "0123456789abcdefghijklmnopqrstu", "0123456789abcdefghijklmnopqrstuvw", "0123456789abcdefghijklmnopqrstuw", "0123456789ABCDEFGHIJKLMNOPQRSTUV",
}

type c44Tally struct {
	cnt      map[string]int
	reported map[string]int
}

func c44(c *rig.Ctx) {
	c.Rule("C44 names: every string of length ≤ 4 (quick) / ≤ 5 (thorough) over the alphabet {a v w 0 / . - @ { ~ ^ : ? [ \\ * SP TAB DEL ^A é} plus PRNG concatenations of 1–5 hostile fragments (HEAD, head, -, @{, .lock, .., //, 32/31/33-character hash look-alikes, ref prefixes, control and non-ASCII bytes); a case is distinct by (function, set of violated rule classes, verdict)")
	c.Rule("C44 specs: on a doltdb with a random commit DAG and branches/tags carrying valid-but-hostile names, specs <base><suffix> with base ∈ {branch, heads/branch, refs/heads/branch, tag, tags/tag, hash, HEAD in any case} and random ~/~n/^/^n chains (also padded with white space) are resolved as a whole and compared with: base resolved separately through the real API, followed by the model parent walk")
	c.Assume("C44: a name is 'accepted' by a validator when it returns true; the reference asserts (a) every rule listed in the property statement, (b) the additional rules documented at the function under test, (c) acceptance of every name that violates no documented rule of any layer; names that violate only a rule documented at another layer (leading '.', trailing '.', non-ASCII, '@' for tag names; 'head' for the non-user validators) are a grey zone: counted, not asserted")
	t := &c44Tally{cnt: map[string]int{}, reported: map[string]int{}}
	fns := c44Funcs()
	check := func(s string) {
		viol := c44Rules(s)
		var vlist []string
		for _, r := range c44AllRules {
			if viol[r] {
				vlist = append(vlist, r)
			}
		}
		vkey := strings.Join(vlist, "+")
		for _, f := range fns {
			got, ok := f.call(s)
			if !ok {
				continue
			}
			t.cnt["c44.names.evaluations"]++
			var own []string
			for _, r := range vlist {
				if f.rules[r] {
					own = append(own, r)
				}
			}
			verdict := "reject"
			if got {
				verdict = "accept"
			}
			c.Distinct("c44:" + f.name + ":" + vkey + ":" + verdict)
			switch {
			case len(own) > 0:
				t.cnt["c44.names.must_reject"]++
				if got {
					cls := own[0]
					key := "c44/" + f.name + "/accepted-forbidden/" + cls
					t.reported[key]++
					if t.reported[key] <= 5 {
						c.Violation(key, fmt.Sprintf("%s(%q) = true although the name violates %v", f.name, s, own), map[string]any{"name": s, "bytes": fmt.Sprintf("% x", s), "violates": own})
					}
				}
			case len(vlist) == 0:
				t.cnt["c44.names.must_accept"]++
				if !got {
					key := "c44/" + f.name + "/rejected-conforming-name"
					t.reported[key]++
					if t.reported[key] <= 5 {
						c.Violation(key, fmt.Sprintf("%s(%q) = false although the name violates no documented rule", f.name, s), map[string]any{"name": s, "bytes": fmt.Sprintf("% x", s)})
					}
				}
			default:
				// grey zone: only rules documented at another layer are violated
				t.cnt[fmt.Sprintf("c44.grey.%s.%s.%s", f.name, vkey, verdict)]++
			}
		}
		// an accepted name must be usable as a dataset id under its ref prefix
		if doltdb.IsValidUserBranchName(s) {
			t.cnt["c44.names.branch_accepted"]++
			if err := datas.ValidateDatasetId("refs/heads/" + s); err != nil {
				key := "c44/branch-accepted-but-unusable"
				t.reported[key]++
				if t.reported[key] <= 5 {
					c.Violation(key, fmt.Sprintf("IsValidUserBranchName(%q) = true but refs/heads/%s is not a valid dataset id", s, s), map[string]any{"name": s})
				}
			}
		}
		if ref.IsValidTagName(s) {
			t.cnt["c44.names.tag_accepted"]++
			if err := datas.ValidateDatasetId("refs/tags/" + s); err != nil {
				t.cnt["c44.diag.tag_accepted_by_validator_but_dataset_id_invalid."+vkey]++
			}
		}
	}

	// exhaustive short strings
	maxLen := c.Pick(4, 5)
	c.Case("c44/exhaustive", map[string]any{"alphabet": c44Alphabet, "max_len": maxLen})
	var rec func(prefix string, depth int)
	nShort := 0
	rec = func(prefix string, depth int) {
		check(prefix)
		nShort++
		if depth == maxLen {
			return
		}
		for _, a := range c44Alphabet {
			rec(prefix+a, depth+1)
		}
	}
	rec("", 0)
	c.Count("c44.names.exhaustive_strings", nShort)

	// fragment generator
	nLong := c.Pick(150000, 4000000)
	c.Case("c44/fragments", map[string]any{"n": nLong, "fragments": c44Fragments})
	r := c.SubRand("c44-frag", 0)
	for i := 0; i < nLong; i++ {
		k := 1 + r.Intn(5)
		var sb strings.Builder
		for j := 0; j < k; j++ {
			sb.WriteString(c44Fragments[r.Intn(len(c44Fragments))])
		}
		s := sb.String()
		if r.Intn(50) == 0 { // mutate one byte of a hash look-alike / anything
			b := []byte(s)
			if len(b) > 0 {
				b[r.Intn(len(b))] = "0vwV/.@"[r.Intn(7)]
			}
			s = string(b)
		}
		check(s)
		if i < 3 {
			c.Sample(map[string]any{"name": s, "violates": fmt.Sprint(sortedRuleList(c44Rules(s)))})
		}
	}
	c.Count("c44.names.fragment_strings", nLong)
	for _, k := range sortedKeys(t.cnt) {
		c.Count(k, t.cnt[k])
	}
	for _, k := range sortedKeys(t.reported) {
		c.Count("c44.violations_of_class."+strings.TrimPrefix(k, "c44/"), t.reported[k])
	}
	c.Require(t.cnt["c44.names.must_reject"] > 0 && t.cnt["c44.names.must_accept"] > 0, "name generator produced no conforming or no forbidden names")

	c44Specs(c)
}

// c44ConformsBranch: the name violates none of the rules documented for ref.IsValidBranchName (harness's own rules).
func c44ConformsBranch(s string) bool {
	for r := range c44Rules(s) {
		if r != rLowerHead {
			return false
		}
	}
	return true
}

// c44HugeCount reports whether a ~ or ^ is followed by more than 6 digits.
func c44HugeCount(s string) bool {
	for i := 0; i < len(s); i++ {
		if s[i] == '~' || s[i] == '^' {
			j := i + 1
			for j < len(s) && s[j] >= '0' && s[j] <= '9' {
				j++
			}
			if j-(i+1) > 6 {
				return true
			}
		}
	}
	return false
}

func sortedRuleList(m map[string]bool) []string {
	var out []string
	for k := range m {
		out = append(out, k)
	}
	sort.Strings(out)
	return out
}

// c44ParseSuffix is the harness's own parser of ancestor suffixes: (~|^)[digits]* repeated.
// ^n needs n ∈ {1,2}; ~n is n first-parent steps.
func c44ParseSuffix(s string) ([]int, bool) {
	var steps []int
	i := 0
	for i < len(s) {
		op := s[i]
		if op != '~' && op != '^' {
			return nil, false
		}
		i++
		j := i
		for j < len(s) && s[j] >= '0' && s[j] <= '9' {
			j++
		}
		n := 1
		if j > i {
			if j-i > 6 {
				return nil, false // out of the explored range
			}
			n = 0
			for _, d := range s[i:j] {
				n = n*10 + int(d-'0')
			}
		}
		i = j
		if op == '^' {
			if n != 1 && n != 2 {
				return nil, false
			}
			steps = append(steps, n-1)
		} else {
			for k := 0; k < n; k++ {
				steps = append(steps, 0)
			}
		}
	}
	return steps, true
}

var c44BranchNames = []string{"main", "feature/x", "v1.0", "a-b", "@a", "a@", "x{y", "a}b", "UPPER", "123", "Head", "hEAD", "heads/q", "q", "tags/z", "z", "remotes/origin/r",
	"0123456789abcdefghijklmnopqrstu", "0123456789abcdefghijklmnopqrstuvv", "a.b.c", "lock", "a.lockx", "x/y/z", "_", "a+b", "a=b", "a,b", "a;b", "a'b", "a\"b", "a!b", "a#b", "a$b", "a%b", "a&b", "a(b)", "a<b>", "a|b", "a`b", "é-is-not-allowed"}
var c44TagNames = []string{"v1", "v1.0.0", "release/1", "t@g", "q", "z", "x{y", "T", "main2", ".dot", "dot.", "é"}

func c44Specs(c *rig.Ctx) {
	nDags := c.Pick(12, 300)
	cnt := map[string]int{}
	for di := 0; di < nDags; di++ {
		r := c.SubRand("c44-spec", di)
		m := genDAG(r, 8+r.Intn(25), fmt.Sprintf("c44-%d", di))
		name := fmt.Sprintf("c44/specs%d", di)
		c.Case(name, map[string]any{"commits": m.C})
		rdb, ms := newMemDB()
		b, err := buildDAG(r, rdb, m, "build")
		rig.Must(err)
		// refs with hostile names, created through the real API after the validators accepted them
		branches := map[string]int{} // full dataset id -> commit idx
		for _, bn := range c44BranchNames {
			if !doltdb.IsValidUserBranchName(bn) {
				cnt["c44.spec.ref_names_rejected_by_validator"]++
				continue
			}
			k := r.Intn(len(m.C))
			id := "refs/heads/" + bn
			_, err := rdb.db.SetHead(bg, datas.NewHeadlessDataset(rdb.db, id), b.addr[k], "")
			if err != nil {
				c.Violation("c44/branch-accepted-but-unusable", fmt.Sprintf("%s: branch name %q was accepted by IsValidUserBranchName but creating %s failed: %v", name, bn, id, err), map[string]any{"name": bn})
				continue
			}
			branches[id] = k
		}
		ddb, err := doltdb.DoltDBFromCS(ms.NewViewWithDefaultFormat(), "c44")
		rig.Must(err)
		hc := func(k int) *doltdb.Commit {
			dc, err := datas.LoadCommitAddr(bg, ddb.ValueReadWriter(), b.addr[k])
			rig.Must(err)
			cm, err := doltdb.NewCommit(bg, ddb.ValueReadWriter(), ddb.NodeStore(), dc)
			rig.Must(err)
			return cm
		}
		for _, tn := range c44TagNames {
			if !doltdb.IsValidTagRef(ref.NewTagRef(tn)) {
				cnt["c44.spec.ref_names_rejected_by_validator"]++
				continue
			}
			k := r.Intn(len(m.C))
			err := ddb.NewTagAtCommit(bg, ref.NewTagRef(tn), hc(k), datas.NewTagMeta("verif", "verif@example.com", "tag "+tn))
			if err != nil {
				if errors.Is(err, datas.ErrInvalidDatasetID) {
					cnt["c44.diag.tag_accepted_by_validator_but_creation_fails_invalid_dataset_id"]++
				} else {
					c.Violation("c44/tag-accepted-but-unusable", fmt.Sprintf("%s: tag name %q was accepted by IsValidTagRef but NewTagAtCommit failed: %v", name, tn, err), map[string]any{"name": tn})
				}
				continue
			}
			branches["refs/tags/"+tn] = k
		}
		cnt["c44.spec.refs_created"] += len(branches)

		// model of base resolution: documented candidate order
		resolveBase := func(base string, cwb string) (int, bool) {
			switch {
			case strings.EqualFold(base, "head"):
				k, ok := branches[cwb]
				return k, ok
			case len(base) == 32 && c44Rules(base)[rHash]:
				k, ok := b.idx[hash.Parse(base)]
				return k, ok
			}
			cands := []string{"refs/" + base, "refs/heads/" + base, "refs/tags/" + base, "refs/remotes/" + base}
			if strings.HasPrefix(base, "refs/") {
				cands = append([]string{base}, cands...)
			}
			for _, cd := range cands {
				if k, ok := branches[cd]; ok {
					return k, true
				}
			}
			return 0, false
		}
		ids := sortedKeys(branches)
		var heads []string
		for _, id := range ids {
			if strings.HasPrefix(id, "refs/heads/") {
				heads = append(heads, id)
			}
		}
		nSpecs := c.Pick(600, 2500)
		for si := 0; si < nSpecs; si++ {
			// base
			var base string
			switch x := r.Intn(100); {
			case x < 45:
				id := ids[r.Intn(len(ids))]
				switch r.Intn(3) {
				case 0:
					base = id
				case 1:
					base = strings.TrimPrefix(id, "refs/")
				default:
					base = strings.TrimPrefix(strings.TrimPrefix(id, "refs/heads/"), "refs/tags/")
				}
			case x < 65:
				base = b.addr[r.Intn(len(b.addr))].String()
			case x < 80:
				base = []string{"HEAD", "head", "Head", "hEaD"}[r.Intn(4)]
			case x < 90:
				base = []string{"nosuchbranch", "heads/nosuch", "0123456789abcdefghijklmnopqrstuv", "refs/heads/nosuch"}[r.Intn(4)]
			default:
				base = c44Fragments[r.Intn(len(c44Fragments))] + c44Fragments[r.Intn(len(c44Fragments))]
			}
			var suffix string
			switch x := r.Intn(100); {
			case x < 15:
				suffix = ""
			case x < 85:
				suffix, _, _ = genSpec(r)
			default:
				frag := []string{"~", "^", "~2", "^2", "^3", "~x", "^-1", "~~", "^^", "~01", "^02", "~99999", " ", "a", "@{1}"}
				for k := 0; k < 1+r.Intn(3); k++ {
					suffix += frag[r.Intn(len(frag))]
				}
			}
			pad := []string{"", "", "", " ", "\t", "  "}
			full := pad[r.Intn(len(pad))] + base + suffix + pad[r.Intn(len(pad))]
			cwbID := heads[r.Intn(len(heads))]
			cwb := ref.NewBranchRef(strings.TrimPrefix(cwbID, "refs/heads/"))
			cnt["c44.spec.evaluations"]++
			w := map[string]any{"spec": full, "cwb": cwbID, "dag": m.C, "refs": branches}

			if c44HugeCount(full) {
				// parseInstructions materialises one slice element per step of ~n: counts ≥ 10^7 only burn memory
				// (n ≈ 10^10 exhausts it). Out of the explored range; see the engine's note.
				cnt["c44.spec.skipped_huge_count"]++
				continue
			}
			cs, perr := doltdb.NewCommitSpec(full)
			// the harness's own split: the base ends at the first ~ or ^ of the trimmed spec
			trimmed := strings.TrimSpace(full)
			cut := strings.IndexAny(trimmed, "~^")
			hBase, hSuffix := trimmed, ""
			if cut >= 0 {
				hBase, hSuffix = trimmed[:cut], trimmed[cut:]
			}
			steps, sufOK := c44ParseSuffix(hSuffix)
			baseIsName := strings.EqualFold(hBase, "head") || c44Rules(hBase)[rHash] || c44ConformsBranch(hBase)
			if perr != nil {
				cnt["c44.spec.rejected"]++
				if sufOK && baseIsName {
					c.Violation("c44/spec/rejected-wellformed", fmt.Sprintf("%s: NewCommitSpec(%q) failed (%v) although %q is a valid base and %q a well-formed ancestor suffix", name, full, perr, hBase, hSuffix), w)
				}
				continue
			}
			cnt["c44.spec.accepted"]++
			if !sufOK || !baseIsName {
				c.Violation("c44/spec/accepted-malformed", fmt.Sprintf("%s: NewCommitSpec(%q) was accepted although base %q valid=%v, suffix %q well-formed=%v", name, full, hBase, baseIsName, hSuffix, sufOK), w)
				continue
			}
			// separately parsed base, resolved by the real code
			bcs, berr := doltdb.NewCommitSpec(hBase)
			if berr != nil {
				c.Violation("c44/spec/base-rejected-alone", fmt.Sprintf("%s: %q accepted as a whole but its base %q is rejected alone: %v", name, full, hBase, berr), w)
				continue
			}
			boc, berr := ddb.Resolve(bg, bcs, cwb)
			oc, err := ddb.Resolve(bg, cs, cwb)
			mk, mok := resolveBase(hBase, cwbID)
			if berr != nil {
				cnt["c44.spec.base_unresolvable"]++
				if mok {
					c.Violation("c44/spec/base-resolution", fmt.Sprintf("%s: base %q does not resolve (%v) but the documented candidate order finds commit %d", name, hBase, berr, mk), w)
				}
				if err == nil {
					c.Violation("c44/spec/resolves-without-base", fmt.Sprintf("%s: %q resolves to %s although its base %q does not resolve (%v)", name, full, idxName(b, oc.Addr), hBase, berr), w)
				}
				continue
			}
			bk, known := b.idx[boc.Addr]
			if !known {
				c.Violation("c44/spec/base-resolution", fmt.Sprintf("%s: base %q resolves to %s which is no commit of the graph", name, hBase, boc.Addr), w)
				continue
			}
			if !mok || mk != bk {
				c.Violation("c44/spec/base-resolution", fmt.Sprintf("%s: base %q resolves to commit %d; the documented candidate order gives %d (found=%v)", name, hBase, bk, mk, mok), w)
				continue
			}
			// model walk from the separately resolved base
			cur, off := bk, false
			for _, s := range steps {
				if s >= len(m.C[cur].Parents) {
					off = true
					break
				}
				cur = m.C[cur].Parents[s]
			}
			if off {
				cnt["c44.spec.walk_off_graph"]++
				if err == nil {
					c.Violation("c44/spec/resolved-beyond-graph", fmt.Sprintf("%s: %q resolved to %s although the walk %v from commit %d leaves the graph", name, full, idxName(b, oc.Addr), steps, bk), w)
				}
				continue
			}
			if err != nil {
				c.Violation("c44/spec/error", fmt.Sprintf("%s: %q failed (%v); base %q = commit %d, walk %v = commit %d", name, full, err, hBase, bk, steps, cur), w)
				continue
			}
			cnt["c44.spec.resolved_and_compared"]++
			if len(steps) > 0 {
				cnt["c44.spec.resolved_with_walk"]++
			}
			if oc.Addr != b.addr[cur] {
				c.Violation("c44/spec/wrong-commit", fmt.Sprintf("%s: %q resolved to %s; base %q = commit %d followed by walk %v = commit %d", name, full, idxName(b, oc.Addr), hBase, bk, steps, cur), w)
			}
			c.Distinct(fmt.Sprintf("c44spec:%d:%s", di, full))
		}
		ddb.Close()
		rdb.db.Close()
	}
	for _, k := range sortedKeys(cnt) {
		c.Count(k, cnt[k])
	}
	c.Require(cnt["c44.spec.resolved_with_walk"] > 0 && cnt["c44.spec.rejected"] > 0 && cnt["c44.spec.walk_off_graph"] > 0, "spec generator produced no resolved walks / rejected specs / walks leaving the graph")
}

var _ = rand.Int
