package vdatas

import (
	"fmt"
	"runtime"
	"strings"

	"github.com/dolthub/dolt/go/libraries/utils/verifhook"

	"verif/rig"
)

func verifYield() { runtime.Gosched() }

// C21 (exploration part) — a commit and its working-set update land together.
//
// Writers use CommitWithWorkingSet (55 %), UpdateWorkingSet, Commit, SetHead, FastForward and Delete on two branches
// and their working sets; two observer goroutines read head and working set of every branch from ONE Datasets() map
// (one store root) in a loop. Every observed snapshot is part of the history that porcupine decides (so each observed
// pair must be a pair the acknowledged history passed through), and two direct "torn pair" rules name the failure:
//
//	R1 head == commit created by an acknowledged CommitWithWorkingSet k, working set == the unique working set k
//	   replaced                                          → head moved, working set did not;
//	R2 working set == the unique working set k wrote, head == the head k replaced, and no operation of the history
//	   could have put that head back                      → working set moved, head did not.
//
// Unique values make both decidable: a harness-written working-set value is written by exactly one operation and can
// never reappear once replaced.
func c21(c *rig.Ctx) {
	c.Rule("C21: the C20 machinery with the writer mix commitws 55 / updws 20 / commit 8 / sethead 7 / ff 5 / delete 5 and 2 observers per history that snapshot all datasets from one Datasets() map (consecutive identical snapshots of an observer are recorded once); a history is distinct by its operations and non-trivial when ≥ 2 conditional updates with the same expectation overlapped")
	c.Assume("C21: this stage is the exploration part (interleavings with concurrent writers); crash points are the subject of stage `crash`")
	c.Assume("C21: dropping repeated identical observer snapshots cannot turn a linearizable history into a non-linearizable one (sound, slightly weaker)")
	c20Hooks()
	cnt := c20Drive(c, "c21", c.Pick(200, 6000), []string{"c21"}, 2)
	c.Require(cnt["c21.commitws_acked"] > 0, "no CommitWithWorkingSet was acknowledged")
	c.Require(cnt["c21.snapshots_showing_a_combined_update"] > 0, "observers never saw the result of a combined update")
	c.Require(cnt["c21.observer_snapshots_distinct"] > cnt["c21.histories"], "observers saw no intermediate states")
}

// c21Pairs applies the two direct torn-pair rules to every snapshot of the history and counts what the observers
// actually saw.
func c21Pairs(c *rig.Ctx, name string, h *c20History, add func(string, int)) {
	type cw struct {
		id                    int
		d, w                  int
		exp, prev, newC, newW string
	}
	var acked []cw
	restorable := map[string]bool{} // head tokens some operation (whatever its outcome) tried to set explicitly
	for _, o := range h.ops {
		in, out := o.Input.(c20Op), o.Output.(c20Out)
		if in.Kind == "commitws" && out.Err == "" {
			acked = append(acked, cw{in.ID, in.DS, in.WS, in.Exp, in.Prev, in.New, in.NewWS})
		}
		if in.Kind == "sethead" || in.Kind == "ff" {
			restorable[fmt.Sprintf("%d/%s", in.DS, in.New)] = true
		}
	}
	add("c21.commitws_acked", len(acked))
	unique := func(t string) bool { return strings.HasPrefix(t, "w:") && !strings.HasPrefix(t, "w:clean:") }
	snaps, together, distinctSnaps := 0, 0, map[c20State]bool{}
	for _, o := range h.ops {
		in, out := o.Input.(c20Op), o.Output.(c20Out)
		if in.Kind != "readall" {
			continue
		}
		snaps++
		distinctSnaps[out.All] = true
		for _, k := range acked {
			hd, ws := out.All[k.d], out.All[k.w]
			if hd == k.newC && ws == k.newW {
				together++
			}
			if hd == k.newC && ws == k.prev && unique(k.prev) {
				w := c20Render(h.names, h.init, h.ops)
				w["snapshot"] = renderState(h.names, out.All)
				w["commitws_op"] = k.id
				c.Violation("c21/torn-pair/head-moved-working-set-did-not",
					fmt.Sprintf("%s: an observer read, from one store root, head %s = the commit of CommitWithWorkingSet #%d together with the working set %s that this operation replaced", name, abbrevTok(hd), k.id, ws), w)
			}
			if ws == k.newW && k.exp != "" && hd == k.exp && hd != k.newC && !restorable[fmt.Sprintf("%d/%s", k.d, k.exp)] {
				w := c20Render(h.names, h.init, h.ops)
				w["snapshot"] = renderState(h.names, out.All)
				w["commitws_op"] = k.id
				c.Violation("c21/torn-pair/working-set-moved-head-did-not",
					fmt.Sprintf("%s: an observer read, from one store root, working set %s written by CommitWithWorkingSet #%d together with the head %s that this operation replaced", name, ws, k.id, abbrevTok(hd)), w)
			}
		}
	}
	add("c21.observer_snapshots_recorded", snaps)
	add("c21.observer_snapshots_distinct", len(distinctSnaps))
	add("c21.snapshots_showing_a_combined_update", together)
}

var _ = verifhook.Enabled
