package vdatas

import (
	"fmt"
	"io"
	"sync"

	"github.com/dolthub/dolt/go/store/datas"
	"github.com/dolthub/dolt/go/store/hash"
	"github.com/dolthub/dolt/go/store/types"

	"verif/oracle"
	"verif/rig"
)

// C18 — commit metadata describes the commit graph exactly.
//
// Refuting events: Height ≠ 1+max(parent heights) (1 for a root); stored parent list ≠ the parents given (order and
// duplicates preserved); stored closure ≠ brute-force proper ancestors with their heights; a commit whose address
// differs when it is re-read through a fresh handle, re-hashed from its bytes, or rebuilt from the same inputs.

type c18Result struct {
	viol   []func(c *rig.Ctx)
	counts map[string]int
	stats  dagStats
	sample any
}

func c18(c *rig.Ctx) {
	c.Rule("C18: PRNG-generated commit DAGs (1–60 commits, 0–4 parents biased to recent tips, duplicate parents, explicit criss-cross pairs, octopus merges, extra roots), built through datas.Database (Commit on fresh dataset / Commit on a dataset whose head is a parent / NewCommitForValue+WriteCommit) on memory storage and, for a subset, an on-disk NBS store that is reopened; a DAG is distinct by its parent-list shape and non-trivial when it contains a merge; plus the TALL family (chains of 260–700 commits with side branches and merges around heights 250–258 and 509–514, sometimes a second unrelated tall chain) whose boundary commits and a PRNG sample get the same checks")
	c.Assume("C18: the brute-force ancestor walk and height recursion of the harness (cross-checked against a second incremental implementation on every DAG) define 'proper ancestors' and 'height'")
	n := c.Pick(1000, 50000)
	type job struct{ i int }
	jobs := make(chan int)
	var mu sync.Mutex
	var wg sync.WaitGroup
	total := map[string]int{}
	var agg dagStats
	worker := func() {
		defer wg.Done()
		for i := range jobs {
			res := c18One(c, i)
			mu.Lock()
			for k, v := range res.counts {
				total[k] += v
			}
			agg.Commits += res.stats.Commits
			agg.Roots += res.stats.Roots
			agg.Merges += res.stats.Merges
			agg.Octopus += res.stats.Octopus
			agg.DupParents += res.stats.DupParents
			agg.CrissCross += res.stats.CrissCross
			if res.stats.MaxHeight > agg.MaxHeight {
				agg.MaxHeight = res.stats.MaxHeight
			}
			mu.Unlock()
		}
	}
	for w := 0; w < 6; w++ {
		wg.Add(1)
		go worker()
	}
	for i := 0; i < n; i++ {
		jobs <- i
	}
	close(jobs)
	wg.Wait()
	c18Tall(c, total, &mu)
	for _, k := range sortedKeys(total) {
		c.Count(k, total[k])
	}
	c.Count("c18.dag.commits", agg.Commits)
	c.Count("c18.dag.roots", agg.Roots)
	c.Count("c18.dag.merges", agg.Merges)
	c.Count("c18.dag.octopus", agg.Octopus)
	c.Count("c18.dag.dup_parent_commits", agg.DupParents)
	c.Count("c18.dag.crisscross_pairs", agg.CrissCross)
	c.Count("c18.dag.max_height", agg.MaxHeight)
	c.Require(agg.Merges > 0 && agg.Octopus > 0 && agg.DupParents > 0 && agg.CrissCross > 0 && agg.Roots > n,
		"C18 needs merges, octopus merges, duplicate parents, criss-cross pairs and multi-root DAGs")
	c.Require(total["c18.closure.entries_compared"] > 0, "C18 compared no closure entries")
	c.Require(total["c18.closure.entries_height_ge_256"] > 0 && total["c18.tall.max_height"] >= 512, "C18 tall graphs: no closure entry with height ≥ 256 compared / no graph reaching height 512")
	c.Require(total["c18.reread.nbs_reopened"] > 0, "C18 never re-read commits from a reopened on-disk store")
}

func c18One(c *rig.Ctx, i int) c18Result {
	res := c18Result{counts: map[string]int{}}
	r := c.SubRand("c18", i)
	n := 1 + r.Intn(60)
	if i%23 == 0 {
		n = 1 + r.Intn(3) // tiny graphs too
	}
	m := genDAG(r, n, fmt.Sprintf("c18-%d", i))
	name := fmt.Sprintf("c18/dag%d", i)
	c.Case(name, map[string]any{"n": n, "commits": m.C})
	res.stats = m.stats()
	if res.stats.Merges > 0 {
		c.Distinct("c18:" + m.shape())
	}

	// oracle self-check: incremental bitsets vs explicit walk
	memo := map[int]int{}
	for k := range m.C {
		ba := m.bruteAncestors(k)
		if len(ba) != m.anc[k].count() || m.bruteHeight(k, memo) != m.height[k] {
			rig.Must(fmt.Errorf("harness oracle inconsistent on %s commit %d", name, k))
		}
		for a := range ba {
			if !m.anc[k].has(a) {
				rig.Must(fmt.Errorf("harness oracle inconsistent on %s commit %d", name, k))
			}
		}
	}

	onDisk := i%10 == 3
	var rdb *realDB
	var dir string
	if onDisk {
		dir = c.TempDir("c18nbs")
		st, err := oracle.OpenLocal(dir, 1<<20)
		rig.Must(err)
		rdb = newRealDB(st)
	} else {
		rdb, _ = newMemDB()
	}
	b, err := buildDAG(r, rdb, m, "c18")
	if err != nil {
		c.Violation("c18/build-failed", "building a legal DAG through datas.Database failed: "+err.Error(), map[string]any{"dag": m.C})
		return res
	}
	for _, rt := range b.route {
		res.counts["c18.route."+rt]++
	}
	c18Check(c, name, b, b.realDB, "live", res.counts, nil)

	// a commit's address never changes: rebuild a few commits from the same inputs (pure construction, no head moves)
	for k := 0; k < 3 && len(m.C) > 1; k++ {
		j := 1 + r.Intn(len(m.C)-1)
		if len(m.C[j].Parents) == 0 {
			continue
		}
		parents := make([]hash.Hash, len(m.C[j].Parents))
		for x, p := range m.C[j].Parents {
			parents[x] = b.addr[p]
		}
		cm, err := datas.NewCommitForValue(bg, rdb.cs, rdb.vs, rdb.ns, types.String(m.C[j].Val),
			datas.CommitOptions{Parents: parents, Meta: metaFor(m.C[j].Val)})
		if err != nil {
			c.Violation("c18/rebuild-failed", "re-serialising a commit from identical inputs failed: "+err.Error(), map[string]any{"dag": m.C, "commit": j})
			continue
		}
		res.counts["c18.rebuild.compared"]++
		if cm.Addr() != b.addr[j] || int(cm.Height()) != m.height[j] {
			c.Violation("c18/address-unstable/rebuild", fmt.Sprintf("commit %d rebuilt from identical inputs has address %s height %d, originally %s height %d",
				j, cm.Addr(), cm.Height(), b.addr[j], m.height[j]), map[string]any{"dag": m.C, "commit": j})
		}
	}

	if onDisk {
		// reopen the store from disk: every commit must be found under the same address with the same content
		rig.Must(rdb.db.Close())
		st, err := oracle.OpenLocal(dir, 1<<20)
		rig.Must(err)
		rdb2 := newRealDB(st)
		c18Check(c, name, b, rdb2, "reopened", res.counts, nil)
		res.counts["c18.reread.nbs_reopened"]++
		rdb2.db.Close()
	} else {
		rdb.db.Close()
	}
	if i < 3 {
		c.Sample(map[string]any{"case": name, "stats": res.stats, "parents": m.C, "heights": m.height})
	}
	return res
}

// c18Check reads every commit of the DAG back through |rdb| and compares height, parents, closure and address.
func c18Check(c *rig.Ctx, name string, b *builtDAG, rdb *realDB, phase string, counts map[string]int, only []int) {
	m := b.m
	if only == nil {
		only = make([]int, len(m.C))
		for k := range only {
			only[k] = k
		}
	}
	var dagWit any = m.C
	if b.witDag != nil {
		dagWit = b.witDag
	}
	for _, k := range only {
		wit := func(extra map[string]any) map[string]any {
			w := map[string]any{"dag": dagWit, "commit": k, "height": m.height[k], "addr": b.addr[k].String(), "phase": phase, "route": b.route[k]}
			for a, v := range extra {
				w[a] = v
			}
			return w
		}
		cm, err := datas.LoadCommitAddr(bg, rdb.vs, b.addr[k])
		if err != nil {
			c.Violation("c18/reread-failed", fmt.Sprintf("%s: commit %d cannot be read back (%s): %v", name, k, phase, err), wit(nil))
			continue
		}
		counts["c18.commits_checked"]++
		// address stability: the address under which it is stored, the address computed from the value, and the
		// hash of the stored chunk bytes all agree.
		if cm.Addr() != b.addr[k] {
			c.Violation("c18/address-unstable/reread", fmt.Sprintf("%s: commit %d re-read reports address %s, written as %s", name, k, cm.Addr(), b.addr[k]), wit(nil))
		}
		vh, err := cm.NomsValue().Hash(rdb.vs.Format())
		if err != nil || vh != b.addr[k] {
			c.Violation("c18/address-unstable/rehash", fmt.Sprintf("%s: commit %d value re-hashes to %s (err %v), written as %s", name, k, vh, err, b.addr[k]), wit(nil))
		}
		ch, err := rdb.cs.Get(bg, b.addr[k])
		if err != nil || ch.IsEmpty() {
			c.Violation("c18/reread-failed", fmt.Sprintf("%s: commit %d chunk missing (%s): %v", name, k, phase, err), wit(nil))
		} else if hash.Of(ch.Data()) != b.addr[k] {
			c.Violation("c18/address-unstable/chunk", fmt.Sprintf("%s: commit %d chunk bytes hash to %s, stored under %s", name, k, hash.Of(ch.Data()), b.addr[k]), wit(nil))
		}

		// height
		if int(cm.Height()) != m.height[k] {
			c.Violation("c18/height", fmt.Sprintf("%s: commit %d (parents %v with heights %v) has stored height %d, model %d",
				name, k, m.C[k].Parents, heightsOf(m, m.C[k].Parents), cm.Height(), m.height[k]), wit(nil))
		}
		// parents, in order, duplicates preserved
		ps, err := datas.GetCommitParents(bg, rdb.vs, cm.NomsValue())
		if err != nil {
			c.Violation("c18/parents-unreadable", fmt.Sprintf("%s: commit %d parents unreadable: %v", name, k, err), wit(nil))
			continue
		}
		okp := len(ps) == len(m.C[k].Parents)
		for x := 0; okp && x < len(ps); x++ {
			if ps[x].Addr() != b.addr[m.C[k].Parents[x]] || int(ps[x].Height()) != m.height[m.C[k].Parents[x]] {
				okp = false
			}
		}
		if !okp {
			var got []string
			for _, p := range ps {
				got = append(got, fmt.Sprintf("%s@%d", idxName(b, p.Addr()), p.Height()))
			}
			c.Violation("c18/parents", fmt.Sprintf("%s: commit %d stored parents %v, model %v", name, k, got, m.C[k].Parents), wit(nil))
		}
		// closure
		sm, ok := cm.NomsValue().(types.SerialMessage)
		if !ok {
			c.Violation("c18/not-serial", fmt.Sprintf("%s: commit %d is not a serial message", name, k), wit(nil))
			continue
		}
		cc, err := datas.NewParentsClosure(bg, cm, sm, rdb.vs, rdb.ns)
		if err != nil {
			c.Violation("c18/closure-unreadable", fmt.Sprintf("%s: commit %d closure unreadable: %v", name, k, err), wit(nil))
			continue
		}
		type ent struct {
			idx    int
			height uint64
			addr   string
		}
		got := map[hash.Hash]uint64{}
		entries := 0
		var dupEntries []string
		if !cc.IsEmpty() {
			it, err := cc.IterAllReverse(bg)
			if err != nil {
				c.Violation("c18/closure-unreadable", fmt.Sprintf("%s: commit %d closure iteration: %v", name, k, err), wit(nil))
				continue
			}
			var prevH uint64
			first := true
			for {
				key, _, err := it.Next(bg)
				if err == io.EOF {
					break
				}
				if err != nil {
					c.Violation("c18/closure-unreadable", fmt.Sprintf("%s: commit %d closure iteration: %v", name, k, err), wit(nil))
					break
				}
				entries++
				if key.Height() >= 256 {
					counts["c18.closure.entries_height_ge_256"]++
				}
				if _, dup := got[key.Addr()]; dup {
					dupEntries = append(dupEntries, idxName(b, key.Addr()))
				}
				got[key.Addr()] = key.Height()
				if !first && key.Height() > prevH {
					c.Violation("c18/closure-order", fmt.Sprintf("%s: commit %d closure reverse iteration is not by descending height", name, k), wit(nil))
				}
				prevH, first = key.Height(), false
			}
			if n, err := cc.Count(); err == nil && n != entries {
				c.Violation("c18/closure-count", fmt.Sprintf("%s: commit %d closure Count()=%d but iteration yields %d entries", name, k, n, entries), wit(nil))
			}
		}
		counts["c18.closure.entries_compared"] += entries
		if m.anc[k].count() == 0 {
			counts["c18.closure.empty_expected"]++
		}
		var missing, extra, wrongH []string
		for a := 0; a < k; a++ {
			if !m.anc[k].has(a) {
				continue
			}
			h, ok := got[b.addr[a]]
			if !ok {
				missing = append(missing, fmt.Sprint(a))
			} else if int(h) != m.height[a] {
				wrongH = append(wrongH, fmt.Sprintf("%d: stored %d model %d", a, h, m.height[a]))
			}
		}
		for a := range got {
			j, known := b.idx[a]
			if !known || !m.anc[k].has(j) {
				extra = append(extra, idxName(b, a))
			}
		}
		if len(missing)+len(extra)+len(wrongH)+len(dupEntries) > 0 {
			key := "c18/closure/"
			switch {
			case len(missing) > 0:
				key += "missing-ancestor"
			case len(extra) > 0:
				key += "extra-entry"
			case len(wrongH) > 0:
				key += "wrong-height"
			default:
				key += "duplicate-entry"
			}
			c.Violation(key, fmt.Sprintf("%s: commit %d (parents %v) stored closure differs from the brute-force proper ancestors: missing %v extra %v wrong heights %v duplicate entries %v",
				name, k, m.C[k].Parents, missing, extra, wrongH, dupEntries), wit(map[string]any{"missing": missing, "extra": extra, "wrong_height": wrongH}))
		}
		// point queries agree with iteration
		if !cc.IsEmpty() && k > 0 {
			a := (k*7 + 3) % k
			has, err := cc.ContainsKey(bg, b.addr[a], uint64(m.height[a]))
			if err == nil && has != m.anc[k].has(a) {
				c.Violation("c18/closure/contains", fmt.Sprintf("%s: commit %d closure ContainsKey(commit %d)=%v, model %v", name, k, a, has, m.anc[k].has(a)), wit(nil))
			}
			counts["c18.closure.point_queries"]++
		}
	}
}

func heightsOf(m *mDAG, ps []int) []int {
	out := make([]int, len(ps))
	for i, p := range ps {
		out[i] = m.height[p]
	}
	return out
}

func idxName(b *builtDAG, a hash.Hash) string {
	if j, ok := b.idx[a]; ok {
		return fmt.Sprint(j)
	}
	return "unknown:" + short(a)
}
