package vdatas

import (
	"fmt"
	"sort"
	"strings"
	"sync"
	"time"

	"github.com/anishathalye/porcupine"

	"github.com/dolthub/dolt/go/store/hash"
)

// Whole-state model of the dataset map (DESIGN Appendix A.2): no key partition, because FastForward / SetHead /
// Delete with a working-set path and CommitWithWorkingSet touch two keys in one step.
//
// Values are *tokens*: "" (absent), "c:<commit addr>", "t:<unique tag description>", "w:<unique working set
// description>" for working sets written by the harness and "w:clean:<root addr>" for the working sets that
// FastForward / SetHead synthesise (working == staged == root of the new head, no meta). Every token denotes exactly
// one stored value (every value written by the harness is unique), so equality of tokens is equality of addresses.

const c20MaxDS = 6

type c20State [c20MaxDS]string

type c20Op struct {
	ID   int    `json:"id"`
	Kind string `json:"kind"` // commit ff sethead tag delete updws commitws read readall
	DS   int    `json:"ds"`   // index of the dataset (-1 none)
	WS   int    `json:"ws"`   // index of the working-set dataset (-1 none)
	// Exp is the token at the head of the Dataset handle the client passed ("" = handle without head).
	Exp string `json:"exp"`
	// Prev is the token of the working set whose address the client passed as prevHash ("" = zero hash).
	Prev         string `json:"prev,omitempty"`
	New          string `json:"new,omitempty"`   // token the head is set to
	NewWS        string `json:"newws,omitempty"` // token the working set is set to (updws, commitws)
	ExpInParents bool   `json:"exp_in_parents,omitempty"`
	AllowDirty   bool   `json:"allow_dirty,omitempty"`
	Via          string `json:"via,omitempty"` // API variant used (diagnostic)
	// Multi: the history runs on several Database handles over one directory (see the ff rule in c20Step)
	Multi bool `json:"multi,omitempty"`
}

type c20Out struct {
	Err string   `json:"err,omitempty"` // "" ok | merge | lock | dirty | exists | already | other
	Msg string   `json:"msg,omitempty"`
	Val string   `json:"val,omitempty"` // read
	All c20State `json:"all,omitempty"` // readall
}

// c20Facts is the read-only knowledge the model needs about values: ancestry between commits, the root value of
// each commit and the (working, staged) roots of each working-set token.
type c20Facts struct {
	mu      sync.RWMutex
	parents map[string][]string // commit token -> parent tokens
	rootOf  map[string]string   // commit token -> root value address (string)
	ws      map[string][2]string
	ancMemo map[string]map[string]bool
}

func newC20Facts() *c20Facts {
	return &c20Facts{parents: map[string][]string{}, rootOf: map[string]string{}, ws: map[string][2]string{}, ancMemo: map[string]map[string]bool{}}
}

func commitTok(a hash.Hash) string { return "c:" + a.String() }

func (f *c20Facts) addCommit(tok string, parents []string, root string) {
	f.mu.Lock()
	f.parents[tok] = parents
	f.rootOf[tok] = root
	f.mu.Unlock()
}

func (f *c20Facts) addWS(tok, working, staged string) {
	f.mu.Lock()
	f.ws[tok] = [2]string{working, staged}
	f.mu.Unlock()
}

// ancestors returns the set of proper ancestors of a commit token (memoised; brute-force walk).
func (f *c20Facts) ancestors(tok string) map[string]bool {
	f.mu.Lock()
	defer f.mu.Unlock()
	if m, ok := f.ancMemo[tok]; ok {
		return m
	}
	seen := map[string]bool{}
	stack := append([]string{}, f.parents[tok]...)
	for len(stack) > 0 {
		x := stack[len(stack)-1]
		stack = stack[:len(stack)-1]
		if seen[x] {
			continue
		}
		seen[x] = true
		stack = append(stack, f.parents[x]...)
	}
	f.ancMemo[tok] = seen
	return seen
}

// isAnc reports a ≼ b on commit tokens.
func (f *c20Facts) isAnc(a, b string) bool {
	if a == b {
		return true
	}
	return f.ancestors(b)[a]
}

func (f *c20Facts) root(tok string) (string, bool) {
	f.mu.RLock()
	defer f.mu.RUnlock()
	r, ok := f.rootOf[tok]
	return r, ok
}

// wsRoots returns (working, staged) of a working-set token.
func (f *c20Facts) wsRoots(tok string) (string, string, bool) {
	if strings.HasPrefix(tok, "w:clean:") {
		r := strings.TrimPrefix(tok, "w:clean:")
		return r, r, true
	}
	f.mu.RLock()
	defer f.mu.RUnlock()
	p, ok := f.ws[tok]
	return p[0], p[1], ok
}

// dirty mirrors the documented cleanliness condition of FastForward / Delete with a working-set path: the working
// set has unstaged changes (unless tolerated), or its staged root differs from the root of the current branch head.
// headTok == "" (no head to compare with) never counts as a mismatch.
func (f *c20Facts) dirty(wsTok, headTok string, allowDirty bool) bool {
	w, s, ok := f.wsRoots(wsTok)
	if !ok {
		return true
	}
	if !allowDirty && w != s {
		return true
	}
	if headTok == "" {
		return false
	}
	r, ok := f.root(headTok)
	return !ok || s != r
}

func cleanTok(root string) string { return "w:clean:" + root }

// c20Step is the sequential specification.
func c20Step(f *c20Facts, s c20State, op c20Op, out c20Out) (bool, c20State) {
	d, w := op.DS, op.WS
	switch op.Kind {
	case "read":
		return out.Val == s[d], s
	case "readall":
		return out.All == s, s
	}
	if out.Err == "other" {
		// a failure of an unlisted class: "fails" is allowed by the statement as long as nothing changed
		return true, s
	}
	switch op.Kind {
	case "commit":
		switch out.Err {
		case "":
			if s[d] != op.Exp || (op.Exp != "" && !op.ExpInParents) {
				return false, s
			}
			s[d] = op.New
			return true, s
		case "merge":
			return s[d] != op.Exp || (op.Exp != "" && !op.ExpInParents), s
		case "already":
			return s[d] == op.New, s
		}
	case "ff":
		switch out.Err {
		case "":
			if s[d] != op.Exp {
				// Identical concurrent fast-forwards through different handles ("processes"): both compute the same
				// store root and persist the same one-chunk table file, so both manifest contents have the same NBS
				// lock hash and the later writer's manifest update reads back "its own" contents and reports success.
				// The store is byte-for-byte in the state the operation asked for and nothing is lost; A.2 lists this
				// as "already committed" for Commit. Accepted only with several handles (one handle serialises on the
				// cached root and refuses) and only when head and working set already equal the operation's result.
				if op.Multi && s[d] == op.New && op.Exp != "" && f.isAnc(op.Exp, op.New) {
					if w < 0 {
						return true, s
					}
					if r, ok := f.root(op.New); ok && s[w] == cleanTok(r) {
						return true, s
					}
				}
				return false, s
			}
			if op.New == op.Exp {
				return true, s // already there: nothing changes
			}
			if op.Exp != "" && !f.isAnc(op.Exp, op.New) {
				return false, s
			}
			if w >= 0 && s[w] != "" && (s[d] == "" || f.dirty(s[w], s[d], op.AllowDirty)) {
				return false, s
			}
			s[d] = op.New
			if w >= 0 {
				r, _ := f.root(op.New)
				s[w] = cleanTok(r)
			}
			return true, s
		case "merge":
			return s[d] != op.Exp || (op.Exp != "" && !f.isAnc(op.Exp, op.New)), s
		case "dirty":
			return w >= 0 && s[w] != "" && f.dirty(s[w], s[d], op.AllowDirty), s
		}
	case "sethead":
		if out.Err == "" {
			s[d] = op.New
			if w >= 0 {
				r, _ := f.root(op.New)
				s[w] = cleanTok(r)
			}
			return true, s
		}
	case "tag":
		switch out.Err {
		case "":
			if s[d] != "" {
				return false, s
			}
			s[d] = op.New
			return true, s
		case "exists":
			return s[d] != "", s
		}
	case "delete":
		switch out.Err {
		case "":
			if w >= 0 && s[w] != "" && (s[d] == "" || f.dirty(s[w], s[d], false)) {
				return false, s
			}
			s[d] = ""
			if w >= 0 {
				s[w] = ""
			}
			return true, s
		case "merge":
			return true, s // "moved while deleting": always admissible (§6.4)
		case "dirty":
			return w >= 0 && s[w] != "" && f.dirty(s[w], s[d], false), s
		}
	case "updws":
		switch out.Err {
		case "":
			if s[w] != op.Prev {
				return false, s
			}
			s[w] = op.NewWS
			return true, s
		case "lock":
			return s[w] != op.Prev, s
		}
	case "commitws":
		switch out.Err {
		case "":
			if s[w] != op.Prev || s[d] != op.Exp {
				return false, s
			}
			s[d] = op.New
			s[w] = op.NewWS
			return true, s
		case "lock":
			return s[w] != op.Prev, s
		case "merge":
			return s[d] != op.Exp || (op.Exp != "" && !op.ExpInParents), s
		}
	}
	return false, s
}

func c20PorcupineModel(f *c20Facts, init c20State) porcupine.Model {
	return porcupine.Model{
		Init: func() interface{} { return init },
		Step: func(state, in, out interface{}) (bool, interface{}) {
			ok, ns := c20Step(f, state.(c20State), in.(c20Op), out.(c20Out))
			return ok, ns
		},
		Equal: func(a, b interface{}) bool { return a.(c20State) == b.(c20State) },
		DescribeOperation: func(in, out interface{}) string {
			return fmt.Sprintf("%+v -> %+v", in, out)
		},
	}
}

// c20Check decides one history. It returns "ok", "illegal" or "unknown" (checker timeout: inconclusive).
func c20Check(f *c20Facts, init c20State, hist []porcupine.Operation, timeout time.Duration) string {
	switch porcupine.CheckOperationsTimeout(c20PorcupineModel(f, init), hist, timeout) {
	case porcupine.Ok:
		return "ok"
	case porcupine.Illegal:
		return "illegal"
	}
	return "unknown"
}

// c20Render turns a history into a readable witness ordered by call time (times relative to the first call, ns).
func c20Render(names []string, init c20State, hist []porcupine.Operation) map[string]any {
	hs := append([]porcupine.Operation{}, hist...)
	sort.Slice(hs, func(i, j int) bool { return hs[i].Call < hs[j].Call })
	var t0 int64
	if len(hs) > 0 {
		t0 = hs[0].Call
	}
	nm := func(i int) string {
		if i < 0 || i >= len(names) {
			return "-"
		}
		return names[i]
	}
	var lines []string
	for _, o := range hs {
		in := o.Input.(c20Op)
		out := o.Output.(c20Out)
		res := "ok"
		switch {
		case in.Kind == "read":
			res = "= " + abbrevTok(out.Val)
		case in.Kind == "readall":
			res = "= " + renderState(names, out.All)
		case out.Err != "":
			res = "ERR " + out.Err
			if out.Err == "other" {
				res += " (" + out.Msg + ")"
			}
		}
		lines = append(lines, fmt.Sprintf("[%9d,%9d] client %d #%d %s(ds=%s ws=%s exp=%s prev=%s new=%s newws=%s expInParents=%v allowDirty=%v via=%s) %s",
			o.Call-t0, o.Return-t0, o.ClientId, in.ID, in.Kind, nm(in.DS), nm(in.WS), abbrevTok(in.Exp), abbrevTok(in.Prev), abbrevTok(in.New), abbrevTok(in.NewWS), in.ExpInParents, in.AllowDirty, in.Via, res))
	}
	return map[string]any{"datasets": names, "initial": renderState(names, init), "history": lines}
}

func abbrevTok(t string) string {
	if strings.HasPrefix(t, "c:") && len(t) > 10 {
		return t[:10]
	}
	if strings.HasPrefix(t, "w:clean:") && len(t) > 16 {
		return t[:16]
	}
	if t == "" {
		return "∅"
	}
	return t
}

func renderState(names []string, s c20State) string {
	var parts []string
	for i, n := range names {
		parts = append(parts, n+"="+abbrevTok(s[i]))
	}
	return strings.Join(parts, " ")
}
