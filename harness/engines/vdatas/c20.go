package vdatas

import (
	"errors"
	"fmt"
	"math/rand"
	"os"
	"regexp"
	"strings"
	"sync"
	"sync/atomic"
	"time"

	"github.com/anishathalye/porcupine"

	"github.com/dolthub/dolt/go/gen/fb/serial"
	"github.com/dolthub/dolt/go/libraries/utils/verifhook"
	"github.com/dolthub/dolt/go/store/datas"
	"github.com/dolthub/dolt/go/store/hash"
	"github.com/dolthub/dolt/go/store/types"

	"verif/oracle"
	"verif/rig"
)

// C20 — ref updates are linearizable and never lose a concurrent update (run from the -race build).
//
// 3–6 goroutines drive Commit / WriteCommit / SetHead / FastForward / Tag / Delete / UpdateWorkingSet /
// CommitWithWorkingSet / GetDataset on ≤ 5 datasets of one store (one datas.Database, or two Database handles on the
// same directory, which is what two processes look like to the manifest). Every written value is unique. Call and
// return are stamped with CLOCK_MONOTONIC; porcupine decides each history against the whole-state model of
// Appendix A.2; the descendant clause is checked directly on every acknowledged non-forced update.

// Race reports are escalated to violations only when both stacks run through these mechanism functions (the update
// loop and the per-operation CAS closures of datas.database). Armed after 0 race reports on the unchanged tree at
// seeds 1, 2, 3, 7, 1234; validated with mutant C20-update-unsynchronized-root-cache.
var c20RaceFuncs = []string{
	`datas\.\(\*database\)\.(update|doCommit|doSetHead|doFastForward|doDelete|doTag|doUpdateWorkingSet|tryCommitChunks|CommitWithWorkingSet|WriteCommit|doHeadUpdate)`,
}

// c20Env is one store with a pool of pre-built commits, shared by a batch of histories (each history uses its own
// dataset names, so histories are independent of each other in the model).
type c20Env struct {
	kind   string
	dir    string
	dbs    []*realDB
	pool   *builtDAG
	facts  *c20Facts
	uniq   atomic.Int64
	tokMu  sync.Mutex
	tokOf  map[hash.Hash]string
	addrOf map[string]hash.Hash
}

func c20Classify(err error) (string, string) {
	switch {
	case err == nil:
		return "", ""
	case errors.Is(err, datas.ErrMergeNeeded):
		return "merge", ""
	case errors.Is(err, datas.ErrOptimisticLockFailed):
		return "lock", ""
	case errors.Is(err, datas.ErrDirtyWorkspace):
		return "dirty", ""
	case errors.Is(err, datas.ErrAlreadyCommitted):
		return "already", ""
	case strings.Contains(err.Error(), "already exists and cannot be altered"):
		return "exists", ""
	}
	return "other", err.Error()
}

func newC20Env(c *rig.Ctx, r *rand.Rand, kind string, label string) *c20Env {
	e := &c20Env{kind: kind, facts: newC20Facts(), tokOf: map[hash.Hash]string{}, addrOf: map[string]hash.Hash{}}
	e.dir = c.TempDir(label)
	open := func() *realDB {
		switch kind {
		case "journal":
			st, err := oracle.OpenJournal(e.dir)
			rig.Must(err)
			return newRealDB(st)
		default:
			st, err := oracle.OpenLocal(e.dir, 1<<22)
			rig.Must(err)
			return newRealDB(st)
		}
	}
	e.dbs = append(e.dbs, open())
	// pool of commits with interesting ancestry
	m := genDAG(r, 10+r.Intn(15), label)
	b, err := buildDAG(r, e.dbs[0], m, "pool/"+label)
	rig.Must(err)
	e.pool = b
	for i := range m.C {
		var ps []string
		for _, p := range m.C[i].Parents {
			ps = append(ps, commitTok(b.addr[p]))
		}
		cm, err := datas.LoadCommitAddr(bg, e.dbs[0].vs, b.addr[i])
		rig.Must(err)
		rh, err := datas.GetCommitRootHash(cm.NomsValue())
		rig.Must(err)
		e.facts.addCommit(commitTok(b.addr[i]), ps, rh.String())
	}
	if kind == "local2" {
		e.dbs = append(e.dbs, open())
	}
	return e
}

func (e *c20Env) close() {
	for _, d := range e.dbs {
		d.db.Close()
	}
	os.RemoveAll(e.dir)
}

// token derives the token of the value stored at |addr| by decoding it (commit / tag / working set).
func (e *c20Env) token(rdb *realDB, addr hash.Hash) (string, error) {
	if addr.IsEmpty() {
		return "", nil
	}
	e.tokMu.Lock()
	t, ok := e.tokOf[addr]
	e.tokMu.Unlock()
	if ok {
		return t, nil
	}
	v, err := rdb.vs.ReadValue(bg, addr)
	if err != nil {
		return "", err
	}
	sm, ok := v.(types.SerialMessage)
	if !ok {
		return "", fmt.Errorf("value at %s is %T, not a serial message", addr, v)
	}
	switch serial.GetFileID(sm) {
	case serial.CommitFileID:
		t = commitTok(addr)
	case serial.TagFileID:
		tg, err := serial.TryGetRootAsTag(sm, serial.MessagePrefixSz)
		if err != nil {
			return "", err
		}
		t = "t:" + string(tg.Desc())
	case serial.WorkingSetFileID:
		ws, err := serial.TryGetRootAsWorkingSet(sm, serial.MessagePrefixSz)
		if err != nil {
			return "", err
		}
		working, staged := hash.New(ws.WorkingRootAddrBytes()), hash.New(ws.StagedRootAddrBytes())
		switch {
		case len(ws.Desc()) > 0:
			t = "w:" + string(ws.Desc())
		case working == staged:
			t = cleanTok(working.String())
		default:
			t = "w:anon:" + working.String() + ":" + staged.String()
		}
	default:
		return "", fmt.Errorf("value at %s has unexpected file id %q", addr, serial.GetFileID(sm))
	}
	e.tokMu.Lock()
	defer e.tokMu.Unlock()
	if a2, dup := e.addrOf[t]; dup && a2 != addr {
		return "", fmt.Errorf("harness: token %s denotes two addresses %s and %s", t, a2, addr)
	}
	e.tokOf[addr] = t
	e.addrOf[t] = addr
	return t, nil
}

// c20Handle is a Dataset handle a client holds, with the token of its head.
type c20Handle struct {
	ds   datas.Dataset
	tok  string
	addr hash.Hash
}

type c20History struct {
	env     *c20Env
	idx     int
	names   []string // dataset ids; [0..nb) branches, then their working sets, then tags
	nb, nt  int
	init    c20State
	mu      sync.Mutex
	ops     []porcupine.Operation
	opID    atomic.Int64
	infra   atomic.Value // first infrastructure error (string)
	observe int          // C21: number of observer goroutines
	mix     string
}

func (h *c20History) branch(i int) int { return i }
func (h *c20History) wsOf(i int) int   { return h.nb + i }
func (h *c20History) tag(i int) int    { return 2*h.nb + i }

func (h *c20History) record(client int, in c20Op, out c20Out, call, ret int64) {
	h.mu.Lock()
	h.ops = append(h.ops, porcupine.Operation{ClientId: client, Input: in, Call: call, Output: out, Return: ret})
	h.mu.Unlock()
}

func (h *c20History) fail(err error) {
	if err != nil && h.infra.Load() == nil {
		h.infra.Store(err.Error())
	}
}

type c20Client struct {
	h       *c20History
	id      int
	rdb     *realDB
	r       *rand.Rand
	handles map[int]*c20Handle
	known   []string // commit tokens this client may use as targets
}

func (cl *c20Client) nextID() int { return int(cl.h.opID.Add(1)) }

// begin stamps the call of an operation. With several Database handles on one directory (the "processes" of the
// design) a handle's cached store root may be stale; outcomes that write nothing (refusals, the no-op Delete of an
// absent dataset) are decided against that cached root without validation, which is the documented stale-view
// behaviour and not a ref-update defect. So every operation of a multi-handle history starts with a Rebase inside
// its own interval: whatever it then decides is decided against a state that was current within the interval.
func (cl *c20Client) begin() int64 {
	t := rig.Mono()
	if len(cl.h.env.dbs) > 1 {
		cl.rebase()
	}
	return t
}

func (cl *c20Client) rebase() {
	var err error
	for i := 0; i < 100; i++ {
		if err = cl.rdb.vs.Rebase(bg); err == nil {
			return
		}
		time.Sleep(2 * time.Millisecond) // manifest lock timeout (100 ms in NBS) under contention: try again
	}
	cl.h.fail(fmt.Errorf("Rebase: %w", err))
}

// read refreshes the handle of dataset |d| (a Read operation of the history).
func (cl *c20Client) read(d int) *c20Handle {
	e := cl.h.env
	in := c20Op{ID: cl.nextID(), Kind: "read", DS: d, WS: -1}
	call := rig.Mono()
	if len(e.dbs) > 1 || cl.r.Intn(4) == 0 {
		cl.rebase()
	}
	ds, err := cl.rdb.db.GetDataset(bg, cl.h.names[d])
	ret := rig.Mono()
	if err != nil {
		cl.h.fail(fmt.Errorf("GetDataset(%s): %w", cl.h.names[d], err))
		return &c20Handle{ds: datas.NewHeadlessDataset(cl.rdb.db, cl.h.names[d])}
	}
	a, _ := ds.MaybeHeadAddr()
	tok, err := e.token(cl.rdb, a)
	cl.h.fail(err)
	cl.h.record(cl.id, in, c20Out{Val: tok}, call, ret)
	hd := &c20Handle{ds: ds, tok: tok, addr: a}
	cl.handles[d] = hd
	if strings.HasPrefix(tok, "c:") {
		cl.known = append(cl.known, tok)
	}
	return hd
}

// readAll reads every dataset of the history from ONE store root.
func (cl *c20Client) readAll() c20State {
	in := c20Op{ID: cl.nextID(), Kind: "readall", DS: -1, WS: -1}
	call := rig.Mono()
	st, err := cl.h.snapshot(cl.rdb, len(cl.h.env.dbs) > 1)
	ret := rig.Mono()
	if err != nil {
		cl.h.fail(err)
		return st
	}
	cl.h.record(cl.id, in, c20Out{All: st}, call, ret)
	return st
}

// snapshot reads all datasets of this history from one Datasets() map (one store root).
func (h *c20History) snapshot(rdb *realDB, rebase bool) (c20State, error) {
	var st c20State
	if rebase {
		var err error
		for i := 0; i < 100; i++ {
			if err = rdb.vs.Rebase(bg); err == nil {
				break
			}
			time.Sleep(2 * time.Millisecond)
		}
		if err != nil {
			return st, err
		}
	}
	dm, err := rdb.db.Datasets(bg)
	if err != nil {
		return st, err
	}
	got := map[string]hash.Hash{}
	err = dm.IterAll(bg, func(id string, addr hash.Hash) error {
		got[id] = addr
		return nil
	})
	if err != nil {
		return st, err
	}
	for i, n := range h.names {
		t, err := h.env.token(rdb, got[n])
		if err != nil {
			return st, err
		}
		st[i] = t
	}
	return st, nil
}

// handle returns the handle to use for an operation: a fresh read (60 %), the cached (possibly stale) one, or a
// handle without a head.
func (cl *c20Client) handle(d int) *c20Handle {
	x := cl.r.Intn(100)
	hd := cl.handles[d]
	switch {
	case hd == nil || x < 60:
		return cl.read(d)
	case x < 93:
		return hd
	default:
		return &c20Handle{ds: datas.NewHeadlessDataset(cl.rdb.db, cl.h.names[d])}
	}
}

func (cl *c20Client) uniq(prefix string) string {
	return fmt.Sprintf("%s-h%d-c%d-%d", prefix, cl.h.idx, cl.id, cl.h.env.uniq.Add(1))
}

// pickTarget chooses a commit token: a descendant of exp when possible (so that non-forced moves can succeed),
// otherwise anything known.
func (cl *c20Client) pickTarget(exp string, wantDesc bool) string {
	f := cl.h.env.facts
	cands := cl.known
	if wantDesc && exp != "" {
		var ds []string
		for _, k := range cands {
			if k != exp && f.isAnc(exp, k) {
				ds = append(ds, k)
			}
		}
		if len(ds) > 0 {
			return ds[cl.r.Intn(len(ds))]
		}
	}
	return cands[cl.r.Intn(len(cands))]
}

func tokAddr(tok string) hash.Hash { return hash.Parse(strings.TrimPrefix(tok, "c:")) }

// newValue writes a fresh unique value and returns it with its address.
func (cl *c20Client) newValue(prefix string) (types.Value, hash.Hash, error) {
	v := types.String(cl.uniq(prefix))
	r, err := cl.rdb.vs.WriteValue(bg, v)
	if err != nil {
		return nil, hash.Hash{}, err
	}
	return v, r.TargetHash(), nil
}

// wsSpec builds a unique working-set spec. clean: working == staged == root of |headTok|; otherwise one of the
// dirty forms (unstaged changes, or staged changes).
func (cl *c20Client) wsSpec(headTok string, form int) (datas.WorkingSetSpec, string, error) {
	f := cl.h.env.facts
	desc := cl.uniq("ws")
	tok := "w:" + desc
	var working, staged hash.Hash
	headRoot, haveHead := f.root(headTok)
	if !haveHead {
		form = 2
	}
	switch form {
	case 0: // clean
		working = hash.Parse(headRoot)
		staged = working
	case 1: // unstaged changes only
		staged = hash.Parse(headRoot)
		_, a, err := cl.newValue("dirty")
		if err != nil {
			return datas.WorkingSetSpec{}, "", err
		}
		working = a
	default: // staged changes (working == staged != head root)
		_, a, err := cl.newValue("staged")
		if err != nil {
			return datas.WorkingSetSpec{}, "", err
		}
		working, staged = a, a
	}
	mk := func(a hash.Hash) (types.Ref, error) {
		v, err := cl.rdb.vs.ReadValue(bg, a)
		if err != nil {
			return types.Ref{}, err
		}
		if v == nil {
			return types.Ref{}, fmt.Errorf("harness: root value %s not readable", a)
		}
		return types.NewRef(v, cl.rdb.vs.Format())
	}
	wr, err := mk(working)
	if err != nil {
		return datas.WorkingSetSpec{}, "", err
	}
	sr, err := mk(staged)
	if err != nil {
		return datas.WorkingSetSpec{}, "", err
	}
	f.addWS(tok, working.String(), staged.String())
	return datas.WorkingSetSpec{
		Meta:        &datas.WorkingSetMeta{Name: "verif", Email: "verif@example.com", Description: desc, Timestamp: 1},
		WorkingRoot: wr, StagedRoot: sr,
	}, tok, nil
}

// one executes one operation of kind |kind|.
func (cl *c20Client) one(kind string) {
	h := cl.h
	e := h.env
	f := e.facts
	db := cl.rdb.db
	switch kind {
	case "read":
		cl.read(cl.r.Intn(len(h.names)))
	case "readall":
		cl.readAll()
	case "commit":
		bi := cl.r.Intn(h.nb)
		hd := cl.handle(h.branch(bi))
		v := types.String(cl.uniq("val"))
		var parents []hash.Hash
		expIn := true
		mode := cl.r.Intn(100)
		switch {
		case mode < 55 && hd.tok != "": // implicit parent = handle head
		case mode < 80: // merge commit: head + another known commit
			if hd.tok != "" {
				parents = append(parents, hd.addr)
			}
			parents = append(parents, tokAddr(cl.pickTarget("", false)))
			if cl.r.Intn(2) == 0 && len(parents) == 2 {
				parents[0], parents[1] = parents[1], parents[0]
			}
		default: // explicit parents that do NOT contain the handle head: must be refused unless the handle has no head
			p := tokAddr(cl.pickTarget("", false))
			if p == hd.addr {
				expIn = true
			} else {
				expIn = hd.tok == ""
			}
			parents = []hash.Hash{p}
		}
		opts := datas.CommitOptions{Parents: parents, Meta: metaFor(string(v))}
		in := c20Op{ID: cl.nextID(), Kind: "commit", DS: h.branch(bi), WS: -1, Exp: hd.tok, ExpInParents: expIn}
		// learn the address (pure construction; deterministic because all dates are fixed)
		var cm *datas.Commit
		var err error
		if expIn {
			cm, err = db.BuildNewCommit(bg, hd.ds, v, opts)
			if err != nil {
				h.fail(fmt.Errorf("BuildNewCommit: %w", err))
				return
			}
			in.New = commitTok(cm.Addr())
			ps := parents
			if len(ps) == 0 && hd.tok != "" {
				ps = []hash.Hash{hd.addr}
			}
			var pt []string
			for _, p := range ps {
				pt = append(pt, commitTok(p))
			}
			rh, _ := datas.GetCommitRootHash(cm.NomsValue())
			f.addCommit(in.New, pt, rh.String())
		}
		var out c20Out
		var call, ret int64
		if expIn && cl.r.Intn(2) == 0 {
			in.Via = "WriteCommit"
			call = cl.begin()
			_, err = db.WriteCommit(bg, hd.ds, cm)
			ret = rig.Mono()
		} else {
			in.Via = "Commit"
			call = cl.begin()
			_, err = db.Commit(bg, hd.ds, v, opts)
			ret = rig.Mono()
		}
		out.Err, out.Msg = c20Classify(err)
		h.record(cl.id, in, out, call, ret)
		if err == nil && in.New != "" {
			cl.known = append(cl.known, in.New)
		}
	case "ff", "sethead":
		bi := cl.r.Intn(h.nb)
		hd := cl.handle(h.branch(bi))
		tgt := cl.pickTarget(hd.tok, kind == "ff" && cl.r.Intn(100) < 75)
		in := c20Op{ID: cl.nextID(), Kind: kind, DS: h.branch(bi), WS: -1, Exp: hd.tok, New: tgt, Multi: len(e.dbs) > 1}
		wsPath := ""
		if cl.r.Intn(100) < 45 {
			in.WS = h.wsOf(bi)
			wsPath = h.names[in.WS]
		}
		var err error
		var call, ret int64
		if kind == "ff" {
			in.AllowDirty = cl.r.Intn(3) == 0
			call = cl.begin()
			_, err = db.FastForward(bg, hd.ds, tokAddr(tgt), wsPath, in.AllowDirty)
			ret = rig.Mono()
		} else {
			in.Exp = ""
			call = cl.begin()
			_, err = db.SetHead(bg, hd.ds, tokAddr(tgt), wsPath)
			ret = rig.Mono()
		}
		var out c20Out
		out.Err, out.Msg = c20Classify(err)
		h.record(cl.id, in, out, call, ret)
	case "tag":
		ti := cl.r.Intn(h.nt)
		hd := cl.handle(h.tag(ti))
		desc := cl.uniq("tag")
		tgt := cl.pickTarget("", false)
		in := c20Op{ID: cl.nextID(), Kind: "tag", DS: h.tag(ti), WS: -1, New: "t:" + desc}
		call := cl.begin()
		_, err := db.Tag(bg, hd.ds, tokAddr(tgt), datas.TagOptions{Meta: &datas.TagMeta{Name: "verif", Email: "verif@example.com", Description: desc, Timestamp: 1, UserTimestamp: 1}})
		ret := rig.Mono()
		var out c20Out
		out.Err, out.Msg = c20Classify(err)
		h.record(cl.id, in, out, call, ret)
	case "delete":
		var d int
		in := c20Op{ID: cl.nextID(), Kind: "delete", WS: -1}
		wsPath := ""
		if cl.r.Intn(100) < 30 {
			d = h.tag(cl.r.Intn(h.nt))
		} else {
			bi := cl.r.Intn(h.nb)
			d = h.branch(bi)
			if cl.r.Intn(100) < 60 {
				in.WS = h.wsOf(bi)
				wsPath = h.names[in.WS]
			}
		}
		in.DS = d
		hd := cl.handles[d]
		if hd == nil || cl.r.Intn(2) == 0 {
			hd = &c20Handle{ds: datas.NewHeadlessDataset(db, h.names[d])}
		}
		call := cl.begin()
		_, err := db.Delete(bg, hd.ds, wsPath)
		ret := rig.Mono()
		var out c20Out
		out.Err, out.Msg = c20Classify(err)
		h.record(cl.id, in, out, call, ret)
	case "updws":
		bi := cl.r.Intn(h.nb)
		w := h.wsOf(bi)
		hw := cl.handle(w)
		headTok := ""
		if hb := cl.handles[h.branch(bi)]; hb != nil {
			headTok = hb.tok
		}
		spec, tok, err := cl.wsSpec(headTok, cl.r.Intn(3))
		if err != nil {
			h.fail(err)
			return
		}
		in := c20Op{ID: cl.nextID(), Kind: "updws", DS: -1, WS: w, Prev: hw.tok, NewWS: tok}
		call := cl.begin()
		_, err = db.UpdateWorkingSet(bg, hw.ds, spec, hw.addr)
		ret := rig.Mono()
		var out c20Out
		out.Err, out.Msg = c20Classify(err)
		h.record(cl.id, in, out, call, ret)
	case "commitws":
		bi := cl.r.Intn(h.nb)
		hb := cl.handle(h.branch(bi))
		hw := cl.handle(h.wsOf(bi))
		v := types.String(cl.uniq("val"))
		var parents []hash.Hash
		if cl.r.Intn(100) < 35 {
			parents = append(parents, tokAddr(cl.pickTarget("", false)))
		}
		opts := datas.CommitOptions{Parents: parents, Meta: metaFor(string(v))}
		// the API prepends the handle head to explicit parents when it is missing: predict the same commit
		pred := opts
		if len(parents) > 0 && hb.tok != "" {
			found := false
			for _, p := range parents {
				if p == hb.addr {
					found = true
				}
			}
			if !found {
				pred.Parents = append([]hash.Hash{hb.addr}, parents...)
			}
		}
		cm, err := db.BuildNewCommit(bg, hb.ds, v, pred)
		if err != nil {
			h.fail(fmt.Errorf("BuildNewCommit (commitws): %w", err))
			return
		}
		newTok := commitTok(cm.Addr())
		ps := pred.Parents
		if len(ps) == 0 && hb.tok != "" {
			ps = []hash.Hash{hb.addr}
		}
		var pt []string
		for _, p := range ps {
			pt = append(pt, commitTok(p))
		}
		rh, _ := datas.GetCommitRootHash(cm.NomsValue())
		f.addCommit(newTok, pt, rh.String())
		// the usual caller writes a clean working set for the new commit; sometimes leave it dirty
		form := 0
		if cl.r.Intn(4) == 0 {
			form = 1 + cl.r.Intn(2)
		}
		spec, wtok, err := cl.wsSpec(newTok, form)
		if err != nil {
			h.fail(err)
			return
		}
		in := c20Op{ID: cl.nextID(), Kind: "commitws", DS: h.branch(bi), WS: h.wsOf(bi), Exp: hb.tok, Prev: hw.tok, New: newTok, NewWS: wtok, ExpInParents: true}
		call := cl.begin()
		_, _, err = db.CommitWithWorkingSet(bg, hb.ds, hw.ds, v, spec, hw.addr, opts)
		ret := rig.Mono()
		var out c20Out
		out.Err, out.Msg = c20Classify(err)
		h.record(cl.id, in, out, call, ret)
		if err == nil {
			cl.known = append(cl.known, newTok)
		}
	}
}

// c20Retry repeats a sequential set-up call while it fails with NBS's 100 ms manifest-lock timeout (a background
// conjoin or the other handle can hold the lock on a loaded machine). Set-up calls are not part of any history.
func c20Retry(fn func() error) error {
	var err error
	for i := 0; i < 200; i++ {
		if err = fn(); err == nil || !strings.Contains(err.Error(), "lock timeout exceeded") {
			return err
		}
		time.Sleep(5 * time.Millisecond)
	}
	return err
}

// c20Mixes are the operation mixes (weights) a history draws its operations from.
var c20Mixes = map[string][][2]any{
	"all":     {{"commit", 22}, {"ff", 12}, {"sethead", 8}, {"tag", 6}, {"delete", 8}, {"updws", 12}, {"commitws", 16}, {"read", 10}, {"readall", 6}},
	"commits": {{"commit", 50}, {"commitws", 20}, {"ff", 10}, {"read", 10}, {"readall", 10}},
	"ws":      {{"commitws", 40}, {"updws", 30}, {"ff", 8}, {"sethead", 6}, {"delete", 6}, {"readall", 10}},
	"refs":    {{"tag", 20}, {"delete", 25}, {"sethead", 20}, {"ff", 15}, {"commit", 10}, {"readall", 10}},
	// C21: the combined update against working-set writers and head movers
	"c21": {{"commitws", 55}, {"updws", 20}, {"commit", 8}, {"sethead", 7}, {"ff", 5}, {"delete", 5}},
}

func pickKind(r *rand.Rand, mix string) string {
	ws := c20Mixes[mix]
	tot := 0
	for _, w := range ws {
		tot += w[1].(int)
	}
	x := r.Intn(tot)
	for _, w := range ws {
		x -= w[1].(int)
		if x < 0 {
			return w[0].(string)
		}
	}
	return "read"
}

type c20Result struct {
	verdict    string // ok illegal unknown infra
	ops        int
	kinds      map[string]int
	errs       map[string]int
	contended  int // groups of ≥2 overlapping conditional updates with the same expectation, exactly one succeeded
	overlaps   int
	retriesHit int64
	pairsSeen  int
	witness    map[string]any
	nonDesc    []string
	infra      string
	hist       *c20History
}

// runHistory sets up the datasets of one history, runs the clients and returns the recorded history.
func c20RunHistory(c *rig.Ctx, e *c20Env, label string, idx int, mix string, observers int) *c20History {
	r := c.SubRand(label, idx)
	h := &c20History{env: e, idx: idx, nb: 2, nt: 1, mix: mix, observe: observers}
	for i := 0; i < h.nb; i++ {
		h.names = append(h.names, fmt.Sprintf("refs/heads/h%db%d", idx, i))
	}
	for i := 0; i < h.nb; i++ {
		h.names = append(h.names, fmt.Sprintf("workingSets/heads/h%db%d", idx, i))
	}
	for i := 0; i < h.nt; i++ {
		h.names = append(h.names, fmt.Sprintf("refs/tags/h%dt%d", idx, i))
	}
	// sequential set-up through the same API (not part of the history)
	setup := &c20Client{h: h, id: 99, rdb: e.dbs[0], r: r, handles: map[int]*c20Handle{}}
	for i := range e.pool.addr {
		setup.known = append(setup.known, commitTok(e.pool.addr[i]))
	}
	db := e.dbs[0].db
	for i := 0; i < h.nb; i++ {
		if r.Intn(100) < 85 {
			tgt := setup.pickTarget("", false)
			err := c20Retry(func() error {
				_, err := db.SetHead(bg, datas.NewHeadlessDataset(db, h.names[h.branch(i)]), tokAddr(tgt), "")
				return err
			})
			rig.Must(err)
			if r.Intn(100) < 70 {
				spec, _, err := setup.wsSpec(tgt, r.Intn(3))
				rig.Must(err)
				rig.Must(c20Retry(func() error {
					_, err := db.UpdateWorkingSet(bg, datas.NewHeadlessDataset(db, h.names[h.wsOf(i)]), spec, hash.Hash{})
					return err
				}))
			}
		}
	}
	init, err := h.snapshot(e.dbs[0], false)
	rig.Must(err)
	h.init = init
	h.ops = nil

	nclients := 3 + r.Intn(4)
	maxOps := 2 + r.Intn(7) // ≤ 8 planned operations per client (handle refreshes add reads)
	if nclients*maxOps > 30 {
		maxOps = 30 / nclients
	}
	var wg sync.WaitGroup
	start := make(chan struct{})
	var stop atomic.Bool
	for ci := 0; ci < nclients; ci++ {
		cl := &c20Client{h: h, id: ci, rdb: e.dbs[ci%len(e.dbs)], r: rand.New(rand.NewSource(r.Int63())), handles: map[int]*c20Handle{}}
		cl.known = append(cl.known, setup.known...)
		plan := make([]string, maxOps)
		for k := range plan {
			plan[k] = pickKind(r, mix)
		}
		wg.Add(1)
		go func() {
			defer wg.Done()
			<-start
			for _, k := range plan {
				cl.one(k)
			}
		}()
	}
	var owg sync.WaitGroup
	for oi := 0; oi < observers; oi++ {
		cl := &c20Client{h: h, id: nclients + oi, rdb: e.dbs[(nclients+oi)%len(e.dbs)], r: rand.New(rand.NewSource(r.Int63())), handles: map[int]*c20Handle{}}
		owg.Add(1)
		go func() {
			defer owg.Done()
			<-start
			var last c20State
			n := 0
			for !stop.Load() && n < 400 {
				cl.readAllDedup(&last, n == 0)
				n++
				// leave the store to the writers most of the time (with two handles every snapshot takes the
				// manifest file lock, whose 100 ms timeout would otherwise turn writer calls into lock-timeout errors)
				time.Sleep(time.Duration(100+cl.r.Intn(900)) * time.Microsecond)
			}
		}()
	}
	close(start)
	wg.Wait()
	stop.Store(true)
	owg.Wait()
	// final read after everything returned
	setup.id = nclients + observers
	if len(e.dbs) > 1 {
		rig.Must(e.dbs[0].vs.Rebase(bg))
	}
	setup.readAll()
	return h
}

// readAllDedup is the observer's read: it records a snapshot only when it differs from the observer's previous one
// (dropping reads from a history never makes a linearizable history non-linearizable, so this is sound).
func (cl *c20Client) readAllDedup(last *c20State, first bool) c20State {
	in := c20Op{Kind: "readall", DS: -1, WS: -1}
	call := rig.Mono()
	st, err := cl.h.snapshot(cl.rdb, len(cl.h.env.dbs) > 1)
	ret := rig.Mono()
	if err != nil {
		cl.h.fail(err)
		return st
	}
	if first || st != *last {
		in.ID = cl.nextID()
		cl.h.record(cl.id, in, c20Out{All: st}, call, ret)
		*last = st
	}
	return st
}

// c20Judge decides one recorded history.
func c20Judge(h *c20History) c20Result {
	res := c20Result{kinds: map[string]int{}, errs: map[string]int{}, hist: h}
	if v := h.infra.Load(); v != nil {
		res.verdict, res.infra = "infra", v.(string)
		return res
	}
	f := h.env.facts
	res.ops = len(h.ops)
	type cond struct {
		ds        int
		exp       string
		call, ret int64
		ok        bool
	}
	var conds []cond
	for _, o := range h.ops {
		in, out := o.Input.(c20Op), o.Output.(c20Out)
		res.kinds[in.Kind]++
		if in.Kind != "read" && in.Kind != "readall" {
			k := out.Err
			if k == "" {
				k = "ok"
			}
			res.errs[in.Kind+"."+k]++
		}
		// descendant clause: an acknowledged non-forced update only moves a branch to a descendant
		if out.Err == "" && (in.Kind == "commit" || in.Kind == "ff" || in.Kind == "commitws") && in.Exp != "" {
			if !f.isAnc(in.Exp, in.New) {
				res.nonDesc = append(res.nonDesc, fmt.Sprintf("#%d %s moved %s from %s to non-descendant %s", in.ID, in.Kind, h.names[in.DS], abbrevTok(in.Exp), abbrevTok(in.New)))
			}
		}
		switch in.Kind {
		case "commit", "ff", "commitws":
			conds = append(conds, cond{in.DS, in.Exp, o.Call, o.Return, out.Err == ""})
		case "updws":
			conds = append(conds, cond{in.WS, in.Prev, o.Call, o.Return, out.Err == ""})
		case "tag":
			conds = append(conds, cond{in.DS, "", o.Call, o.Return, out.Err == ""})
		}
	}
	// diagnostic: identical fast-forwards that were both acknowledged (multi-handle idempotent success, see c20Step)
	seenFF := map[string]int{}
	for _, o := range h.ops {
		in, out := o.Input.(c20Op), o.Output.(c20Out)
		if in.Kind == "ff" && out.Err == "" && in.Exp != in.New {
			seenFF[fmt.Sprintf("%d/%s/%s", in.DS, in.Exp, in.New)]++
		}
	}
	for _, n := range seenFF {
		if n > 1 {
			res.errs["ff.identical_both_acknowledged"] += n - 1
		}
	}
	// non-vacuity: overlapping conditional updates with the same expectation on the same key, exactly one succeeded
	for i := range conds {
		for j := i + 1; j < len(conds); j++ {
			a, b := conds[i], conds[j]
			if a.ds == b.ds && a.exp == b.exp && a.call <= b.ret && b.call <= a.ret {
				res.overlaps++
				if a.ok != b.ok {
					res.contended++
				}
			}
		}
	}
	res.verdict = c20Check(f, h.init, h.ops, 30*time.Second)
	if res.verdict == "illegal" || len(res.nonDesc) > 0 {
		res.witness = c20Render(h.names, h.init, h.ops)
		res.witness["mix"] = h.mix
		res.witness["store"] = h.env.kind
	}
	return res
}

var c20HashRe = regexp.MustCompile(`[0-9a-v]{32}|h[0-9]+[bt][0-9]+`)

// c20NormMsg strips addresses and dataset numbers from an error message so that it can be used as a counter name.
func c20NormMsg(m string) string {
	m = c20HashRe.ReplaceAllString(m, "#")
	if len(m) > 110 {
		m = m[:110]
	}
	return m
}

// c20Hooks installs the schedule-widening hooks (yield / short sleeps at the two points between reading the store
// root and committing the new one). Hooks never decide anything.
func c20Hooks() {
	var n atomic.Uint64
	act := func(point string, hit int64) error {
		x := n.Add(0x9E3779B97F4A7C15)
		x ^= x >> 29
		switch x % 8 {
		case 0, 1, 2:
			// no delay
		case 3, 4, 5:
			for i := 0; i < int(x>>8%4)+1; i++ {
				verifYield()
			}
		case 6:
			time.Sleep(time.Duration(20+(x>>12)%200) * time.Microsecond)
		default:
			time.Sleep(time.Duration(200+(x>>12)%800) * time.Microsecond)
		}
		return nil
	}
	verifhook.Set("datas.update.beforeCommit", verifhook.Action{Kind: "func", Fn: act})
	verifhook.Set("nbs.commit.beforeManifestUpdate", verifhook.Action{Kind: "func", Fn: func(string, int64) error { verifYield(); return nil }})
}

func c20(c *rig.Ctx) {
	c.Rule("C20: histories of 3–6 client goroutines × 3–8 planned operations (plus the GetDataset reads that refresh handles) over 5 datasets (2 branches, their 2 working sets, 1 tag) private to the history, on an NBS store (file manifest / journal / two Database handles on one directory); operation mixes all|commits|ws|refs; handles are fresh (60 %), stale or head-less; every written value unique; a history is distinct by its recorded operations and non-trivial when ≥ 2 conditional updates with the same expectation overlapped in time")
	c.Assume("C20: CLOCK_MONOTONIC stamps taken immediately around each API call bound the operation's real-time interval; porcupine v1.3.0 decides linearizability against the A.2 whole-state model; a checker timeout (30 s) is inconclusive")
	c.Assume("C20: with two handles on one directory, a FastForward that finds head (and working set) already equal to its own result may report success (identical store root and table file give identical NBS manifest lock hashes; idempotent, nothing lost)")
	c.Assume("C20: Delete may always answer ErrMergeNeeded; a Delete of an absent dataset succeeds (documented on datas.Database.Delete); errors of unlisted classes are accepted only as no-ops and are counted")
	if !c.Race {
		c.Note("C20 worker is not running from the -race build")
	}
	c20Hooks()
	c20Drive(c, "c20", c.Pick(300, 10000), []string{"all", "commits", "ws", "refs", "all"}, 0)
}

// c20Drive runs |n| histories in batches (one store per batch) and reports.
func c20Drive(c *rig.Ctx, label string, n int, mixes []string, observers int) map[string]int {
	prop := strings.ToLower(c.Prop)
	const batch = 20
	const workers = 4
	nb := (n + batch - 1) / batch
	type agg struct {
		sync.Mutex
		cnt map[string]int
	}
	a := &agg{cnt: map[string]int{}}
	add := func(k string, v int) {
		a.Lock()
		a.cnt[k] += v
		a.Unlock()
	}
	jobs := make(chan int)
	var wg sync.WaitGroup
	for w := 0; w < workers; w++ {
		wg.Add(1)
		go func() {
			defer wg.Done()
			for bi := range jobs {
				r := c.SubRand(label+"-env", bi)
				kind := []string{"local", "journal", "local2", "local"}[bi%4]
				e := newC20Env(c, r, kind, fmt.Sprintf("%s-b%d", label, bi))
				add(prop+".env."+kind, 1)
				for k := 0; k < batch && bi*batch+k < n; k++ {
					idx := bi*batch + k
					mix := mixes[idx%len(mixes)]
					name := fmt.Sprintf("%s/hist%d", label, idx)
					c.Case(name, map[string]any{"store": kind, "mix": mix, "batch": bi})
					h := c20RunHistory(c, e, label, idx, mix, observers)
					res := c20Judge(h)
					add(prop+".histories", 1)
					add(prop+".ops", res.ops)
					for kk, v := range res.kinds {
						add(prop+".op."+kk, v)
					}
					for kk, v := range res.errs {
						add(prop+".result."+kk, v)
					}
					for _, o := range h.ops {
						if out := o.Output.(c20Out); out.Err == "other" {
							add(prop+".other_error."+o.Input.(c20Op).Kind+": "+c20NormMsg(out.Msg), 1)
						}
					}
					add(prop+".overlapping_same_expectation_pairs", res.overlaps)
					add(prop+".contended_pairs_exactly_one_winner", res.contended)
					if res.contended > 0 {
						add(prop+".histories_with_contended_cas", 1)
						c.Distinct(fmt.Sprintf("%s:%s:%d", label, kind, idx))
					}
					switch res.verdict {
					case "ok":
						add(prop+".histories_linearizable", 1)
					case "unknown":
						add(prop+".porcupine_timeouts", 1)
						c.Inconclusive(fmt.Sprintf("%s: porcupine timed out (inconclusive, not a violation)", name))
					case "infra":
						add(prop+".histories_infra_error", 1)
						c.Inconclusive(fmt.Sprintf("%s: harness/infrastructure error while recording: %s", name, res.infra))
					case "illegal":
						c.Violation(prop+"/not-linearizable", fmt.Sprintf("%s (%s store, mix %s): no sequential execution of the dataset-map model explains this history", name, kind, mix), res.witness)
					}
					for _, nd := range res.nonDesc {
						c.Violation(prop+"/non-descendant-update", fmt.Sprintf("%s: %s", name, nd), res.witness)
					}
					if observers > 0 {
						c21Pairs(c, name, h, add)
					}
					if idx < 2 {
						c.Sample(c20Render(h.names, h.init, h.ops))
					}
				}
				e.close()
			}
		}()
	}
	for bi := 0; bi < nb; bi++ {
		jobs <- bi
	}
	close(jobs)
	wg.Wait()
	for _, k := range sortedKeys(a.cnt) {
		c.Count(k, a.cnt[k])
	}
	c.Count(prop+".hook.datas_update_beforeCommit_hits", int(verifhook.Hits("datas.update.beforeCommit")))
	c.Count(prop+".hook.nbs_beforeManifestUpdate_hits", int(verifhook.Hits("nbs.commit.beforeManifestUpdate")))
	c.Require(a.cnt[prop+".histories_with_contended_cas"] > 0, "no history had ≥ 2 overlapping conditional updates of which exactly one succeeded (A.7)")
	c.Require(verifhook.Hits("datas.update.beforeCommit") > 0, "hook datas.update.beforeCommit never reached")
	c.Require(a.cnt[prop+".histories_linearizable"] > 0, "no history was decided")
	return a.cnt
}
