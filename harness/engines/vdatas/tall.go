package vdatas

import (
	"fmt"
	"math/rand"
	"sort"
	"sync"

	"github.com/dolthub/dolt/go/libraries/doltcore/doltdb"
	"github.com/dolthub/dolt/go/store/datas"

	"verif/rig"
)

// TALL graphs: byte-boundary family for C18 / C19.
//
// A commit-closure key starts with the commit height as a little-endian uint64, and heights are stored in fixed-width
// fields elsewhere too; anything that confuses byte order with numeric order is invisible below height 256. So this
// family builds a long first-parent chain (260–700 commits) with short side branches forked at heights around the
// multiples of 256 (250, 253 … 258, 509 … 514, plus PRNG heights), merges whose parents lie on different sides of
// those heights, and sometimes a second, unrelated tall chain (pairs without any common ancestor at large heights).
// Heights crossing 65 536 are not generated (a 65k-commit graph costs minutes per DAG).

var tallMarks = []int{2, 100, 250, 253, 254, 255, 256, 257, 258, 300, 400, 509, 510, 511, 512, 513, 514, 600, 650}

type tallInfo struct {
	L         int   `json:"chain_len"`
	Forks     []int `json:"fork_heights"`
	Merges    int   `json:"merges"`
	Second    int   `json:"second_chain_len"`
	Commits   int   `json:"commits"`
	MaxHeight int   `json:"max_height"`
	focus     []int // commits around the boundaries, all side / merge commits
}

func genTallDAG(r *rand.Rand, i int, tag string) (*mDAG, *tallInfo) {
	d := &mDAG{}
	ti := &tallInfo{}
	val := func() string { return fmt.Sprintf("%s-v%d", tag, len(d.C)) }
	ti.L = 260 + r.Intn(441)
	if i%2 == 1 {
		ti.L = 520 + r.Intn(181) // at least three height blocks
	}
	for h := 1; h <= ti.L; h++ {
		if h == 1 {
			d.add(val())
		} else {
			d.add(val(), h-2)
		}
	}
	chain := func(h int) int { return h - 1 } // index of the main-chain commit of height h
	focus := map[int]bool{}
	mark := func(h int) {
		for x := h - 1; x <= h+1; x++ {
			if x >= 1 && x <= ti.L {
				focus[chain(x)] = true
			}
		}
	}
	mark(1)
	mark(ti.L)
	forkSet := map[int]bool{255: true, 256: true}
	for _, h := range tallMarks {
		if h < ti.L && r.Intn(100) < 60 {
			forkSet[h] = true
		}
	}
	for k := 0; k < 3; k++ {
		forkSet[2+r.Intn(ti.L-2)] = true
	}
	for h := range forkSet {
		if h < ti.L {
			ti.Forks = append(ti.Forks, h)
		}
	}
	sort.Ints(ti.Forks)
	var tips []int
	for _, h := range ti.Forks {
		mark(h)
		cur := chain(h)
		n := 1 + r.Intn(6)
		for k := 0; k < n; k++ {
			cur = d.add(val(), cur)
			focus[cur] = true
		}
		tips = append(tips, cur)
	}
	// merges across the boundaries: side tip × main-chain commit, side tip × side tip
	ti.Merges = 3 + r.Intn(4)
	for k := 0; k < ti.Merges; k++ {
		a := tips[r.Intn(len(tips))]
		var b int
		if r.Intn(3) == 0 {
			b = tips[r.Intn(len(tips))]
		} else {
			h := tallMarks[r.Intn(len(tallMarks))]
			if h > ti.L || r.Intn(4) == 0 {
				h = 1 + r.Intn(ti.L)
			}
			b = chain(h)
			mark(h)
		}
		if r.Intn(2) == 0 {
			a, b = b, a
		}
		cur := d.add(val(), a, b)
		focus[cur] = true
		for x := r.Intn(3); x > 0; x-- {
			cur = d.add(val(), cur)
			focus[cur] = true
		}
		tips = append(tips, cur)
	}
	// a second, unrelated chain
	if r.Intn(2) == 0 {
		ti.Second = 3 + r.Intn(40)
		if r.Intn(2) == 0 {
			ti.Second = 250 + r.Intn(60)
		}
		cur := d.add(val())
		focus[cur] = true
		for h := 2; h <= ti.Second; h++ {
			cur = d.add(val(), cur)
			if h >= ti.Second-1 || (h >= 253 && h <= 258) {
				focus[cur] = true
			}
		}
	}
	for _, h := range tallMarks {
		if h <= ti.L {
			mark(h)
		}
	}
	for k := range focus {
		ti.focus = append(ti.focus, k)
	}
	sort.Ints(ti.focus)
	ti.Commits = len(d.C)
	for _, h := range d.height {
		if h > ti.MaxHeight {
			ti.MaxHeight = h
		}
	}
	return d, ti
}

func tallCount(c *rig.Ctx) int { return c.Pick(6, 150) }

// c18Tall applies C18's height / parents / closure / address checks to the boundary commits of the tall graphs
// (and a PRNG sample of the others); closure entries with heights ≥ 256 must be complete and iterate in order.
func c18Tall(c *rig.Ctx, total map[string]int, mu *sync.Mutex) {
	n := tallCount(c)
	var wg sync.WaitGroup
	sem := make(chan struct{}, 4)
	for i := 0; i < n; i++ {
		wg.Add(1)
		sem <- struct{}{}
		go func(i int) {
			defer wg.Done()
			defer func() { <-sem }()
			r := c.SubRand("tall", i)
			m, ti := genTallDAG(r, i, fmt.Sprintf("tall-%d", i))
			name := fmt.Sprintf("c18/tall%d", i)
			c.Case(name, ti)
			c.Distinct(fmt.Sprintf("c18tall:%d:%v:%d:%d", ti.L, ti.Forks, ti.Merges, ti.Second))
			rdb, _ := newMemDB()
			defer rdb.db.Close()
			b, err := buildDAG(r, rdb, m, "c18t")
			if err != nil {
				c.Violation("c18/build-failed", "building a legal tall DAG through datas.Database failed: "+err.Error(), ti)
				return
			}
			b.witDag = ti
			only := append([]int{}, ti.focus...)
			for k := 0; k < 40; k++ {
				only = append(only, r.Intn(len(m.C)))
			}
			counts := map[string]int{}
			c18Check(c, name, b, rdb, "live", counts, only)
			mu.Lock()
			for k, v := range counts {
				total[k] += v
			}
			total["c18.tall.dags"]++
			total["c18.tall.commits"] += ti.Commits
			total["c18.tall.commits_checked"] += len(only)
			if ti.MaxHeight > total["c18.tall.max_height"] {
				total["c18.tall.max_height"] = ti.MaxHeight
			}
			mu.Unlock()
			if i == 0 {
				c.Sample(map[string]any{"case": name, "tall": ti})
			}
		}(i)
	}
	wg.Wait()
}

// c19Tall runs the C19 oracles on the tall graphs: every ordered pair of boundary commits (capped) plus a PRNG
// sample of arbitrary pairs, DoltDB.CanFastForward, the real FastForward across the boundaries and first-parent
// specs whose walk crosses them.
func c19Tall(c *rig.Ctx, total map[string]int, mu *sync.Mutex) {
	n := tallCount(c)
	var wg sync.WaitGroup
	sem := make(chan struct{}, 4)
	for i := 0; i < n; i++ {
		wg.Add(1)
		sem <- struct{}{}
		go func(i int) {
			defer wg.Done()
			defer func() { <-sem }()
			cnt := c19TallOne(c, i)
			mu.Lock()
			for k, v := range cnt {
				if k == "c19.tall.max_height" {
					if v > total[k] {
						total[k] = v
					}
					continue
				}
				total[k] += v
			}
			mu.Unlock()
		}(i)
	}
	wg.Wait()
}

func c19TallOne(c *rig.Ctx, i int) map[string]int {
	cnt := map[string]int{}
	r := c.SubRand("tall", i) // the same tall graphs as C18
	m, ti := genTallDAG(r, i, fmt.Sprintf("tall-%d", i))
	name := fmt.Sprintf("c19/tall%d", i)
	c.Case(name, ti)
	c.Distinct(fmt.Sprintf("c19tall:%d:%v:%d:%d", ti.L, ti.Forks, ti.Merges, ti.Second))
	rdb, ms := newMemDB()
	defer rdb.db.Close()
	b, err := buildDAG(r, rdb, m, "refs/heads")
	if err != nil {
		c.Violation("c19/build-failed", "building a legal tall DAG through datas.Database failed: "+err.Error(), ti)
		return cnt
	}
	rdb2 := newRealDB(ms.NewViewWithDefaultFormat())
	defer rdb2.db.Close()
	ddb, err := doltdb.DoltDBFromCS(ms.NewViewWithDefaultFormat(), "c19")
	rig.Must(err)
	defer ddb.Close()
	dc := make([]*datas.Commit, len(m.C))
	dc2 := make([]*datas.Commit, len(m.C))
	hc := make([]*doltdb.Commit, len(m.C))
	for k := range m.C {
		dc[k], err = datas.LoadCommitAddr(bg, rdb.vs, b.addr[k])
		rig.Must(err)
		dc2[k], err = datas.LoadCommitAddr(bg, rdb2.vs, b.addr[k])
		rig.Must(err)
		hc[k], err = doltdb.NewCommit(bg, ddb.ValueReadWriter(), ddb.NodeStore(), dc2[k])
		rig.Must(err)
	}
	e := &c19Env{c: c, name: name, m: m, b: b, rdb: rdb, rdb2: rdb2, ddb: ddb, dc: dc, dc2: dc2, hc: hc, cnt: cnt, dagWit: ti, res: map[[2]int]int{}}
	cnt["c19.tall.dags"]++
	cnt["c19.tall.max_height"] = ti.MaxHeight

	// boundary commits: all ordered pairs, capped by a PRNG subset when the focus set is large
	focus := append([]int{}, ti.focus...)
	if len(focus) > 70 {
		r.Shuffle(len(focus), func(x, y int) { focus[x], focus[y] = focus[y], focus[x] })
		keep := focus[:70]
		// the minimal straddling pairs are always kept
		for _, h := range []int{255, 256, 257, 511, 512, 513} {
			if h <= ti.L {
				keep = append(keep, h-1)
			}
		}
		focus = keep
	}
	for _, a := range focus {
		for _, bb := range focus {
			e.pair(a, bb)
		}
	}
	for k := 0; k < 300; k++ {
		a, bb := r.Intn(len(m.C)), r.Intn(len(m.C))
		e.pair(a, bb)
		e.pair(bb, a)
	}
	e.symmetry()

	// branch-level and real fast-forwards across the boundaries
	heads := sortedKeys(b.heads)
	for t := 0; t < 20 && len(heads) > 0; t++ {
		e.branchCanFF(heads[r.Intn(len(heads))], ti.focus[r.Intn(len(ti.focus))])
	}
	ffPairs := [][2]int{{250, 260}, {255, 256}, {256, 255}, {200, 240}, {258, 260}, {1, ti.L}, {ti.L, 1}}
	if ti.L > 514 {
		ffPairs = append(ffPairs, [2]int{511, 512}, [2]int{300, 514}, [2]int{255, 513})
	}
	for t, p := range ffPairs {
		e.realFF(fmt.Sprintf("refs/heads/scratch%d", t), p[0]-1, p[1]-1)
	}
	for t := 0; t < 16; t++ {
		a := ti.focus[r.Intn(len(ti.focus))]
		bb := ti.focus[r.Intn(len(ti.focus))]
		if t%2 == 0 {
			bb = pickRelated(r, m, a)
		}
		e.realFF(fmt.Sprintf("refs/heads/scratchr%d", t), a, bb)
	}

	// first-parent specs whose walk crosses the boundaries (tip of the main chain has index L-1 and height L)
	tip := ti.L - 1
	for _, k := range []int{1, 3, ti.L - 257, ti.L - 256, ti.L - 255, ti.L - 2, ti.L - 1, ti.L, ti.L + 5} {
		if k < 0 {
			continue
		}
		spec := fmt.Sprintf("%s~%d", b.addr[tip], k)
		cs, err := doltdb.NewCommitSpec(spec)
		if err != nil {
			c.Violation("c19/spec/parse-error", fmt.Sprintf("%s: commit spec %q rejected: %v", name, spec, err), map[string]any{"tall": ti, "spec": spec})
			continue
		}
		oc, err := ddb.Resolve(bg, cs, nil)
		switch {
		case k >= ti.L:
			cnt["c19.spec.walk_off_graph"]++
			if err == nil {
				c.Violation("c19/spec/resolved-beyond-graph", fmt.Sprintf("%s: %q resolved to %s although the chain has only %d commits", name, spec, idxName(b, oc.Addr), ti.L), map[string]any{"tall": ti, "spec": spec})
			}
		case err != nil:
			c.Violation("c19/spec/error", fmt.Sprintf("%s: %q failed: %v", name, spec, err), map[string]any{"tall": ti, "spec": spec})
		default:
			cnt["c19.spec.resolved"]++
			cnt["c19.tall.specs_resolved"]++
			if oc.Addr != b.addr[tip-k] {
				c.Violation("c19/spec/wrong-commit", fmt.Sprintf("%s: %q resolved to %s, the first-parent walk gives commit %d (height %d)", name, spec, idxName(b, oc.Addr), tip-k, ti.L-k), map[string]any{"tall": ti, "spec": spec})
			}
		}
	}
	if i == 0 {
		c.Sample(map[string]any{"case": name, "tall": ti})
	}
	return cnt
}
