package vwalk

import (
	"context"
	"fmt"
	"os"
	"sort"
	"time"

	"github.com/dolthub/dolt/go/libraries/doltcore/doltdb"
	"github.com/dolthub/dolt/go/libraries/doltcore/ref"
	"github.com/dolthub/dolt/go/store/chunks"
	"github.com/dolthub/dolt/go/store/hash"

	"verif/rig"
)

func Register() {
	rig.Register(&rig.Spec{Prop: "C09", Level: "exploration", Stages: []rig.Stage{
		{Name: "kinds", Fn: c09Kinds, TimeoutQuick: 20 * time.Minute, TimeoutThorough: 2 * time.Hour},
		{Name: "sql", Fn: c09SQL, TimeoutQuick: 20 * time.Minute, TimeoutThorough: 2 * time.Hour},
	}})
}

// session is one cold-cache run of production loaders over the recording store.
type session struct {
	name string
	fn   func(r *repo, l *loadLog)
}

type runner struct {
	c        *rig.Ctx
	kindSeen map[string]int
	lvlSeen  map[string]int
	derefs   map[string]int
	steps    map[string]int
}

func newRunner(c *rig.Ctx) *runner {
	return &runner{c: c, kindSeen: map[string]int{}, lvlSeen: map[string]int{}, derefs: map[string]int{}, steps: map[string]int{}}
}

// check computes the production walker's closure from the store root, then runs every session from a cold cache and
// applies both oracles. labels maps the distinct chunks the case placed into fields to the field they were placed in.
func (rn *runner) check(caseName string, r *repo, labels map[hash.Hash]string, sessions []session) (violations int) {
	c := rn.c
	root := storeRoot(r.rec)
	closure, ck := closureOf(r.rec, root)
	c.Count("c09.closure_chunks", len(closure))
	for k, n := range ck {
		c.Count("c09.closure_kind."+k, n)
	}
	for _, s := range sessions {
		cr := r.cold()
		l := newLoadLog()
		cr.rec.begin()
		s.fn(cr, l)
		ev := cr.rec.end()
		cr.closeEngine()
		st := analyze(r.rec, s.name, ev, root, closure)
		c.Count("c09.sessions", 1)
		c.Count("c09.addresses_requested", st.requests)
		c.Count("c09.requested_present_distinct", st.present)
		c.Count("c09.requested_absent_distinct", st.absent)
		c.Count("c09.reads_below_unreachable_chunk", st.belowUnreachable)
		c.Count("c09.loader_errors", len(l.errs))
		c.Count("c09.diag.string_form_hash_dereferenced", len(st.stringForm))
		for k, n := range st.kinds {
			rn.kindSeen[k] += n
		}
		for k, n := range st.levels {
			rn.lvlSeen[k] += n
		}
		for k, n := range st.derefs {
			rn.derefs[k] += n
		}
		for k, n := range st.copies {
			c.Count("c09.unreported_copy_learned_elsewhere."+k, n)
		}
		for k, n := range l.steps {
			rn.steps[k] += n
		}
		if len(st.stringForm) > 0 {
			c.Note("diagnostic (not judged): loader dereferenced an address stored as text: " + st.stringForm[0])
		}
		for _, f := range st.findings {
			violations++
			placed := ""
			if h, ok := hash.MaybeParse(f.Addr); ok {
				placed = labels[h]
			}
			what := fmt.Sprintf("%s oracle: loader %q requested %s (%s) which is stored in field %s of %s chunk %s but is not reported by WalkAddrs",
				f.Oracle, f.Loader, f.Addr, f.AddrKind, f.Field, f.RefKind, f.Referrer)
			if f.Oracle == "closure" {
				what += " and is not in the production walker's closure from the store root (GC / pull would not keep it)"
			}
			c.Violation(f.Key, what, map[string]any{"case": caseName, "finding": f, "distinct_chunk_placed_in": placed,
				"loader_errors": l.errs})
		}
	}
	return violations
}

// gcConsequence is the end-to-end form of the property: run the production garbage collector (DoltDB.GC, full
// mode) and re-run the loaders from a cold cache. A loader that succeeded before the collection and fails after it
// lost a chunk that the walker did not report. It is reported under the same key class as the walker omission when
// one was found for the case, otherwise as c09/gc-consequence/<loader>.
func (rn *runner) gcConsequence(caseName string, r *repo, sessions []session, hadFindings bool) {
	c := rn.c
	before := map[string]int{}
	for _, s := range sessions {
		cr := r.cold()
		l := newLoadLog()
		s.fn(cr, l)
		cr.closeEngine()
		before[s.name] = len(l.errs)
	}
	// the collector insists on a bare *NomsBlockStore, so GC runs on a DoltDB over the unwrapped store
	gdb, err := doltdb.DoltDBFromCS(r.rec.NomsBlockStore, r.name)
	rig.Must(err)
	gr := &repo{ddb: gdb}
	cfg := chunks.GCConfig{Mode: chunks.GCMode_Full, ArchiveLevel: chunks.NoArchive, IncrementalFileSize: chunks.IncrementalGCTablesDisabled}
	if err := gr.ddb.GC(bg, cfg, purgingSafepoint{gr.ddb}); err != nil {
		c.Note(fmt.Sprintf("gc-consequence skipped for %s: DoltDB.GC: %v", caseName, err))
		c.Count("c09.gc_failed", 1)
		return
	}
	c.Count("c09.gc_runs", 1)
	for _, s := range sessions {
		cr := r.cold()
		l := newLoadLog()
		// After a collection that swept a still-referenced chunk, dolt's readers may panic ("empty chunk returned
		// from ChunkStore") instead of returning an error. That is the consequence being demonstrated: it is turned
		// into a violation here so that the remaining cases of the stage still run.
		func() {
			defer func() {
				if p := recover(); p != nil {
					c.Count("c09.loader_panicked_after_gc", 1)
					c.Violation("c09/gc-consequence/panic", fmt.Sprintf("loader %q panicked after DoltDB.GC: %v", s.name, p),
						map[string]any{"case": caseName, "loader_ok_before_gc": before[s.name] == 0})
					l.errs = append(l.errs, fmt.Sprintf("panic: %v", p))
				}
			}()
			s.fn(cr, l)
		}()
		cr.closeEngine()
		if before[s.name] == 0 && len(l.errs) > 0 {
			c.Count("c09.loader_broken_by_gc", 1)
			if hadFindings {
				c.Note(fmt.Sprintf("consequence confirmed by DoltDB.GC in case %s: loader %q succeeded before GC and fails after it: %s",
					caseName, s.name, l.errs[0]))
				continue
			}
			c.Violation("c09/gc-consequence/"+s.name, fmt.Sprintf("loader %q succeeded before DoltDB.GC and fails after it: %s", s.name, l.errs[0]),
				map[string]any{"case": caseName, "errors": l.errs})
		} else if before[s.name] == 0 {
			c.Count("c09.loader_ok_after_gc", 1)
		}
	}
}

type purgingSafepoint struct{ ddb *doltdb.DoltDB }

func (p purgingSafepoint) BeginGC(ctx context.Context, keeper func(h hash.Hash) bool) error {
	p.ddb.PurgeCaches()
	return nil
}
func (p purgingSafepoint) EstablishPreFinalizeSafepoint(context.Context) error  { return nil }
func (p purgingSafepoint) EstablishPostFinalizeSafepoint(context.Context) error { return nil }
func (p purgingSafepoint) CancelSafepoint()                                      {}

func (rn *runner) finish() {
	c := rn.c
	emit := func(prefix string, m map[string]int) {
		keys := make([]string, 0, len(m))
		for k := range m {
			keys = append(keys, k)
		}
		sort.Strings(keys)
		for _, k := range keys {
			c.Count(prefix+k, m[k])
		}
	}
	emit("c09.fetched_kind.", rn.kindSeen)
	emit("c09.fetched_internal_node.", rn.lvlSeen)
	emit("c09.deref.", rn.derefs)
	emit("c09.loader_step.", rn.steps)
}

func c09Kinds(c *rig.Ctx) {
	c.Rule("kinds stage: every stored object kind x every subset of its optional address-valued fields is built through the " +
		"production writers (DoltDB API / SQL engine) in an in-memory NBS store wrapped by a recording ChunkStore; every address " +
		"field holds its own otherwise unreferenced chunk; production loaders run from a cold cache; a case is distinct by " +
		"(object kind, optional-field subset) and non-trivial when the loader fetched the object's chunk")
	c.Assume("types.WalkAddrsFromNomsValue (body of ValueStore.walkAddrs used by GC; SerialMessage.WalkAddrs used by pull/fsck) is the walker; " +
		"requests for addresses that are absent from the store are counted, not judged")
	if os.Getenv("VWALK_ONLY") == "sql" {
		c.Inconclusive("development filter VWALK_ONLY=sql: kinds stage skipped")
		return
	}
	rn := newRunner(c)
	defer rn.finish()

	// --- working sets -------------------------------------------------------------------------------------
	for i, sh := range allWsShapes() {
		name := fmt.Sprintf("ws%d", i)
		c.Case("workingset/"+sh.String(), sh)
		r := newRepo("k")
		s := newSyn(r)
		wsRef := s.buildWorkingSet(name, sh)
		ss := []session{
			{"DoltDB.ResolveWorkingSet", func(r *repo, l *loadLog) { loadWorkingSet(r, wsRef, false, l) }},
			{"DoltDB.ResolveWorkingSet+roots+commits", func(r *repo, l *loadLog) { loadWorkingSet(r, wsRef, true, l) }},
		}
		nv := rn.check("workingset/"+sh.String(), r, s.labels, ss)
		rn.gcConsequence("workingset/"+sh.String(), r, ss, nv > 0)
		c.Distinct("workingset/" + sh.String())
		if i < 2 {
			c.Sample(map[string]any{"kind": "workingset", "shape": sh.String()})
		}
		r.close()
	}
	c.Require(rn.kindSeen["workingset"] > 0, "no working set chunk was fetched by a loader")

	// --- ref level objects --------------------------------------------------------------------------------
	for _, rc := range refCases(c) {
		c.Case(rc.name, nil)
		r := newRepo("k")
		s := newSyn(r)
		rc.build(s)
		nv := rn.check(rc.name, r, s.labels, refSessions())
		rn.gcConsequence(rc.name, r, refSessions(), nv > 0)
		c.Distinct(rc.name)
		r.close()
	}

	// --- root value / table / schema / prolly nodes / artifacts via the SQL engine -------------------------
	for i, sh := range tblShapes(c) {
		name := "table/" + sh.String()
		c.Case(name, sh)
		r := newRepo("k")
		s := newSyn(r)
		buildTable(r, sh, c.SubRand("tblrows", i), 6+c.SubRand("tblrows-n", i).Intn(10))
		nv := rn.check(name, r, s.labels, tableSessions())
		rn.gcConsequence(name, r, tableSessions(), nv > 0)
		c.Distinct(fmt.Sprintf("table/fk=%v,index=%v,artifacts=%s", sh.FK, sh.Index, sh.Artifacts))
		if i < 2 {
			c.Sample(map[string]any{"kind": "table", "shape": sh.String()})
		}
		r.close()
	}
	// --- tables whose leaves hold fewer out-of-band addresses than the schema has address-capable columns ----
	partial := map[string]int{}
	for i, sh := range sparseShapes(c) {
		name := "sparse-oob/" + sh.String()
		c.Case(name, sh)
		r := newRepo("k")
		s := newSyn(r)
		one, none := buildSparse(r, sh, c.SubRand("sparserows", i))
		pop := leafPopulation(r.cold())
		c.Count("c09.sparse.rows_exactly_one_oob", one)
		c.Count("c09.sparse.rows_no_oob", none)
		c.Count("c09.sparse.leaves", pop.leaves)
		c.Count("c09.sparse.leaves_partial_oob", pop.partial)
		c.Count("c09.sparse.leaves_no_oob", pop.none)
		c.Count("c09.sparse.leaves_full_oob", pop.full)
		c.Count("c09.sparse.leaves_partial_oob."+sh.Enc+"."+sh.Size, pop.partial)
		partial[sh.Enc+"."+sh.Size] += pop.partial
		nv := rn.check(name, r, s.labels, tableSessions())
		rn.gcConsequence(name, r, tableSessions(), nv > 0)
		c.Distinct(fmt.Sprintf("sparse-oob/enc=%s,cols=%d,size=%s", sh.Enc, sh.Cols, sh.Size))
		if i < 1 {
			c.Sample(map[string]any{"kind": "sparse-oob table", "shape": sh.String(), "leaves": pop.leaves, "partial": pop.partial})
		}
		r.close()
	}
	for _, k := range []string{"adaptive.tiny", "adaptive.multi", "addr.tiny", "addr.multi"} {
		c.Require(partial[k] > 0, "no primary-index leaf with 0 < out-of-band addresses < address-capable columns for "+k)
	}

	for _, bc := range bigCases(c) {
		c.Case(bc.name, nil)
		r := newRepo("k")
		s := newSyn(r)
		bc.build(s)
		nv := rn.check(bc.name, r, s.labels, tableSessions())
		rn.gcConsequence(bc.name, r, tableSessions(), nv > 0)
		c.Distinct(bc.name)
		r.close()
	}

	// non-vacuity: every object kind of the statement was fetched by a production loader, trees had internal nodes,
	// out-of-band tuple fields were dereferenced, artifacts and optional fields were present
	for _, k := range []string{"storeroot", "commit", "tag", "workingset", "rootvalue", "table", "schema", "prollynode", "blob",
		"addressmap", "closure", "artifacts", "stash", "stashlist", "statistic", "tuple", "fkcollection"} {
		c.Require(rn.kindSeen[k] > 0, "no chunk of kind "+k+" was fetched by a loader")
	}
	for _, k := range []string{"prollynode", "blob", "addressmap", "closure", "artifacts"} {
		c.Require(rn.lvlSeen[k] > 0, "no internal (level>0) node of kind "+k+" was fetched")
	}
	for _, k := range []string{"workingset/merge_state.pre_merge_head_commit_addr", "workingset/rebase_state.onto_commit_addr",
		"workingset/rebase_state.pre_working_root_addr", "workingset/merge_state.from_commit_addr", "commit/parent_closure",
		"commit/parent_addrs", "tag/commit_addr", "stash/stash_root_addr", "stash/head_commit_addr", "statistic/root",
		"rootvalue/foreign_key_addr", "table/schema", "table/artifacts", "table/secondary_indexes/address_array(values)",
		"prollynode/value_items(out-of-band field)", "artifacts/key_items(address field)"} {
		c.Require(rn.derefs[k] > 0, "field "+k+" was never dereferenced by a loader")
	}
}

// c09SQL feeds real objects produced by SQL workloads to the same oracles.
func c09SQL(c *rig.Ctx) {
	c.Rule("sql stage: seeded SQL workloads through an in-process engine leave a conflicted merge, a schema-conflicted merge, a " +
		"constraint-violating merge, an interrupted multi-commit cherry-pick and revert, interactive rebases (not started / started), " +
		"stashes, tags and deleted source branches; each branch's working set is loaded in its own cold session, then everything is " +
		"loaded through the DoltDB API and through SQL reads; a workload is distinct by (seed, variant) and non-trivial when the states exist")
	rn := newRunner(c)
	defer rn.finish()
	seen := map[string]int{}
	for v := 0; v < c.Pick(2, 16); v++ {
		name := fmt.Sprintf("sql-workload/%d", v)
		c.Case(name, map[string]any{"seed": c.Seed, "variant": v})
		r := newRepo("s")
		soft := sqlWorkload(c, r, c.SubRand("sqlwl", v), v)
		for k, n := range soft {
			c.Count("c09.sql.tolerated_error."+k, n)
		}
		cr := r.cold()
		states := inspectStates(cr)
		for k, n := range states {
			seen[k] += n
			c.Count("c09.sql.state."+k, n)
		}
		branches, err := cr.ddb.GetBranches(bg)
		rig.Must(err)
		var ss []session
		for _, b := range branches {
			wsRef, err := ref.WorkingSetRefForHead(b)
			if err != nil {
				continue
			}
			bn := b.GetPath()
			ss = append(ss, session{"DoltDB.ResolveWorkingSet(" + bn + ")", func(r *repo, l *loadLog) {
				if ws, _ := r.ddb.ResolveWorkingSet(bg, wsRef); ws != nil {
					loadWorkingSet(r, wsRef, false, l)
				}
			}})
			ss = append(ss, session{"DoltDB working root->artifacts->source root-ish(" + bn + ")", func(r *repo, l *loadLog) {
				if ws, _ := r.ddb.ResolveWorkingSet(bg, wsRef); ws != nil {
					loadArtifactSources(r, bn, l)
				}
			}})
		}
		ss = append(ss, tableSessions()[:2]...)
		nv := rn.check(name, r, nil, ss)
		rn.gcConsequence(name, r, ss, nv > 0)
		c.Distinct(fmt.Sprintf("%s/%v", name, states))
		c.Sample(map[string]any{"workload": name, "states": states})
		r.close()
	}
	for _, k := range []string{"merge_state.merge", "merge_state.cherry-pick", "merge_state.revert", "merge_state.pre_merge_head", "merge_state.pending_commits",
		"merge_state.schema_conflicts", "rebase_state.not_started", "rebase_state.started", "tags", "stashes"} {
		c.Require(seen[k] > 0, "the SQL workload never produced state "+k)
	}
	c.Require(rn.steps["artifact"] > 0, "no artifacts were read")
}
