package vwalk

import (
	"fmt"
	"math/rand"
	"strings"

	"github.com/dolthub/dolt/go/libraries/doltcore/doltdb"
	"github.com/dolthub/dolt/go/libraries/doltcore/doltdb/durable"
	"github.com/dolthub/dolt/go/libraries/doltcore/ref"
	"github.com/dolthub/dolt/go/libraries/doltcore/schema"
	"github.com/dolthub/dolt/go/libraries/doltcore/schema/typeinfo"
	"github.com/dolthub/dolt/go/store/datas"
	"github.com/dolthub/dolt/go/store/types"

	"verif/rig"
)

// ---------------------------------------------------------------------------------------------------------
// ref-level objects: commits (parents / closure), tags, stashes, statistics, tuples, remote / workspace refs,
// a store root whose dataset map has internal nodes
// ---------------------------------------------------------------------------------------------------------

type refCase struct {
	name  string
	build func(s *syn)
}

func refCases(c *rig.Ctx) []refCase {
	chain := c.Pick(450, 4000)
	manyRefs := c.Pick(400, 5000)
	var out []refCase
	for n := 1; n <= 3; n++ {
		n := n
		out = append(out, refCase{fmt.Sprintf("commit/parents=%d", n), func(s *syn) {
			var ps []*doltdb.Commit
			for i := 0; i < n; i++ {
				ps = append(ps, s.commit(fmt.Sprintf("parent_addrs[%d]", i)))
			}
			cm := s.commit("branch head", ps...)
			rig.Must(s.r.ddb.NewBranchAtCommit(bg, ref.NewBranchRef(fmt.Sprintf("b%d", n)), cm, nil))
		}})
	}
	out = append(out, refCase{fmt.Sprintf("commit/closure-chain=%d", chain), func(s *syn) {
		cm := s.mainHead()
		var mid *doltdb.Commit
		for i := 0; i < chain; i++ {
			cm = s.commit(fmt.Sprintf("chain[%d]", i), cm)
			if i == chain/2 {
				mid = cm
			}
		}
		rig.Must(s.r.ddb.NewBranchAtCommit(bg, ref.NewBranchRef("long"), cm, nil))
		side := s.commit("side", mid)
		rig.Must(s.r.ddb.NewBranchAtCommit(bg, ref.NewBranchRef("side"), side, nil))
		merged := s.commit("merged", cm, side)
		rig.Must(s.r.ddb.NewBranchAtCommit(bg, ref.NewBranchRef("merged"), merged, nil))
	}})
	out = append(out, refCase{"tag", func(s *syn) {
		rig.Must(s.r.ddb.NewTagAtCommit(bg, ref.NewTagRef("v1"), s.commit("tag.commit_addr"), datas.NewTagMeta("v", "v@v", "tag one")))
	}})
	for _, n := range []int{1, 3} {
		n := n
		out = append(out, refCase{fmt.Sprintf("stash/list=%d", n), func(s *syn) {
			for i := 0; i < n; i++ {
				rig.Must(s.r.ddb.AddStash(bg, s.commit(fmt.Sprintf("stash[%d].head_commit_addr", i)),
					s.root(fmt.Sprintf("stash[%d].stash_root_addr", i)),
					datas.NewStashMeta("main", fmt.Sprintf("stash %d", i), []string{"t"}), doltdb.DoltCliRef))
			}
		}})
	}
	out = append(out, refCase{"statistics", func(s *syn) {
		idx, err := durable.NewEmptyPrimaryIndex(bg, s.r.ddb.ValueReadWriter(), s.r.ddb.NodeStore(), schema.StatsTableDoltSchema)
		rig.Must(err)
		m, err := durable.ProllyMapFromIndex(idx)
		rig.Must(err)
		_, err = s.r.ddb.NodeStore().Write(bg, m.Node())
		rig.Must(err)
		rig.Must(s.r.ddb.SetStatistics(bg, "main", m.HashOf()))
	}})
	out = append(out, refCase{"tuple", func(s *syn) {
		rig.Must(s.r.ddb.SetTuple(bg, "verifkey", []byte("some value bytes")))
	}})
	out = append(out, refCase{"remote+workspace refs", func(s *syn) {
		h, err := s.commit("remote ref head").HashOf()
		rig.Must(err)
		rig.Must(s.r.ddb.SetHead(bg, ref.NewRemoteRef("origin", "main"), h))
		rig.Must(s.r.ddb.NewWorkspaceAtCommit(bg, ref.NewWorkspaceRef("wsp"), s.commit("workspace ref head")))
	}})
	out = append(out, refCase{fmt.Sprintf("storeroot/refs=%d", manyRefs), func(s *syn) {
		cm := s.commit("tagged")
		for i := 0; i < manyRefs; i++ {
			rig.Must(s.r.ddb.NewTagAtCommit(bg, ref.NewTagRef(fmt.Sprintf("release-%05d", i)), cm,
				datas.NewTagMeta("v", "v@v", fmt.Sprintf("tag %d", i))))
		}
	}})
	return out
}

func refSessions() []session {
	return []session{
		{"DoltDB refs->commits->roots", func(r *repo, l *loadLog) { loadRefs(r, l, true) }},
		{"DoltDB tuple", func(r *repo, l *loadLog) {
			if _, ok, err := r.ddb.GetTuple(bg, "verifkey"); err == nil && ok {
				l.step("tuple")
			}
		}},
	}
}

// ---------------------------------------------------------------------------------------------------------
// root value / table / schema / prolly nodes / blobs / address maps / artifact maps, built by the SQL engine
// ---------------------------------------------------------------------------------------------------------

// tblShape: the optional address-valued fields of root value and table (FK collection, secondary indexes,
// artifacts) are enumerated exhaustively; the content dimensions are varied.
type tblShape struct {
	FK        bool   // rootvalue.foreign_key_addr populated
	Index     bool   // table.secondary_indexes non-empty
	Artifacts string // "" | conflict | cv     (table.artifacts)
	Keyless   bool
	OOB       string // "" | adaptive | addr    (tuples with out-of-band fields: adaptive encodings / legacy address encodings)
	AutoInc   bool
	IndexKind string // int | unique | textprefix
	// DropSource: after the merge the conflicted / violating state is committed (--force) and the merged branch is
	// deleted, so the artifact keys' commit address is the only reference to the source commit
	DropSource bool
}

func (t tblShape) String() string {
	return fmt.Sprintf("fk=%v,index=%v,artifacts=%s,keyless=%v,oob=%s,autoinc=%v,indexkind=%s", t.FK, t.Index, t.Artifacts, t.Keyless, t.OOB, t.AutoInc, t.IndexKind) +
		fmt.Sprintf(",dropsource=%v", t.DropSource)
}

func tblShapes(c *rig.Ctx) []tblShape {
	var out []tblShape
	i := 0
	for _, fk := range []bool{false, true} {
		for _, ix := range []bool{false, true} {
			for _, art := range []string{"", "conflict", "cv"} {
				variants := 1
				if c.Thorough() {
					variants = 12
				}
				for v := 0; v < variants; v++ {
					rnd := c.SubRand("tblshape", i)
					i++
					sh := tblShape{FK: fk, Index: ix, Artifacts: art,
						Keyless:   art == "" && rnd.Intn(3) == 0,
						OOB:       []string{"", "adaptive", "addr"}[rnd.Intn(3)],
						AutoInc:   rnd.Intn(2) == 0,
						IndexKind: []string{"int", "unique", "textprefix"}[rnd.Intn(3)], DropSource: art != "" && (v%2 == 0) == fk}
					if art == "cv" && !fk {
						sh.Index, sh.IndexKind = true, "unique" // a unique-key violation needs a unique index
						if !ix {
							continue // (index absent, cv without fk) cannot be produced: covered by fk=true
						}
					}
					if sh.Keyless {
						sh.AutoInc = false
					}
					out = append(out, sh)
				}
			}
		}
	}
	return out
}

func bigText(rnd *rand.Rand, n int) string {
	const al = "abcdefghijklmnopqrstuvwxyz0123456789 "
	var sb strings.Builder
	for sb.Len() < n {
		sb.WriteByte(al[rnd.Intn(len(al))])
	}
	return sb.String()
}

// buildTable creates the table (and the artifacts) with SQL statements.
func buildTable(r *repo, sh tblShape, rnd *rand.Rand, rows int) {
	if sh.OOB == "addr" {
		old := typeinfo.UseAdaptiveEncoding
		typeinfo.UseAdaptiveEncoding = false // tables written before adaptive encodings: *AddrEnc fields
		defer func() { typeinfo.UseAdaptiveEncoding = old }()
	}
	r.must("create table parent (id int primary key, v int)", "insert into parent values (1,1),(2,2),(3,3),(4,4)")
	var cols []string
	switch {
	case sh.Keyless:
		cols = append(cols, "pk int not null")
	case sh.AutoInc:
		cols = append(cols, "pk int primary key auto_increment")
	default:
		cols = append(cols, "pk int primary key")
	}
	cols = append(cols, "c1 int", "c2 varchar(40)")
	if sh.OOB != "" {
		cols = append(cols, "tx text", "bl blob", "js json", "tx2 longtext")
	} else {
		cols = append(cols, "tx varchar(100)")
	}
	if sh.Index {
		switch sh.IndexKind {
		case "unique":
			cols = append(cols, "unique key u1 (c2)")
		case "textprefix":
			cols = append(cols, "key tp (tx(12))", "key i1 (c1)")
		default:
			cols = append(cols, "key i1 (c1)")
		}
	}
	if sh.FK {
		cols = append(cols, "constraint fk1 foreign key (c1) references parent(id)")
	}
	r.must("create table t (" + strings.Join(cols, ", ") + ")")
	ins := func(pk int, c2 string) string {
		if sh.OOB != "" {
			return fmt.Sprintf("insert into t (pk,c1,c2,tx,bl,js,tx2) values (%d,%d,'%s','%s','%s','{\"k\":\"%s\"}','%s')", pk, 1+pk%2, c2,
				bigText(rnd, 2500+rnd.Intn(3000)), bigText(rnd, 3000), bigText(rnd, 4000), bigText(rnd, 50+rnd.Intn(6000)))
		}
		return fmt.Sprintf("insert into t (pk,c1,c2,tx) values (%d,%d,'%s','%s')", pk, 1+pk%2, c2, bigText(rnd, 30))
	}
	for i := 1; i <= rows; i++ {
		r.must(ins(i, fmt.Sprintf("row%d", i)))
	}
	r.must("call dolt_commit('-Am','base')")
	switch sh.Artifacts {
	case "conflict":
		r.must("call dolt_checkout('-b','other')", "update t set c2 = concat('other-', pk) where pk <= 4", "call dolt_commit('-am','other')",
			"call dolt_checkout('main')", "update t set c2 = concat('main-', pk) where pk <= 4", "call dolt_commit('-am','main')",
			"set @@dolt_allow_commit_conflicts = 1", "call dolt_merge('other')")
	case "cv":
		if sh.FK {
			r.must("call dolt_checkout('-b','other')", ins(1000, "child-of-4")+"", "update t set c1 = 4 where pk = 1000", "call dolt_commit('-am','other')",
				"call dolt_checkout('main')", "delete from parent where id = 4", "call dolt_commit('-am','main')")
		} else {
			r.must("call dolt_checkout('-b','other')", ins(1000, "dup"), "call dolt_commit('-am','other')",
				"call dolt_checkout('main')", ins(1001, "dup"), "call dolt_commit('-am','main')")
		}
		r.must("set @@dolt_force_transaction_commit = 1", "call dolt_merge('other')")
	}
	if sh.Artifacts != "" && sh.DropSource {
		r.must("set @@dolt_force_transaction_commit = 1", "call dolt_commit('-am','commit with artifacts','--force')", "call dolt_branch('-D','other')")
	}
}

func tableSessions() []session {
	return []session{
		{"DoltDB refs->commits->roots->tables->rows", func(r *repo, l *loadLog) { loadRefs(r, l, true) }},
		{"SQL engine reads", func(r *repo, l *loadLog) { sqlLoad(r, l) }},
		{"SQL conflicts / constraint violations only", func(r *repo, l *loadLog) { sqlArtifacts(r, l) }},
		{"DoltDB working root->artifacts->source root-ish", func(r *repo, l *loadLog) { loadArtifactSources(r, "main", l) }},
	}
}

// bigCases: trees with internal nodes for every tree-shaped message kind.
func bigCases(c *rig.Ctx) []refCase {
	rows := c.Pick(2500, 40000)
	tables := c.Pick(350, 3000)
	confl := c.Pick(1200, 12000)
	return []refCase{
		{fmt.Sprintf("prolly/rows=%d+index", rows), func(s *syn) {
			r := s.r
			rnd := rand.New(rand.NewSource(11))
			r.must("create table big (pk int primary key, c1 int, c2 varchar(60), tx text, key i1 (c1), key i2 (c2))")
			for lo := 0; lo < rows; lo += 500 {
				var vs []string
				for i := lo; i < lo+500 && i < rows; i++ {
					tx := "null"
					if i%40 == 0 { // out-of-band values in leaf nodes that are not the table's embedded root node
						tx = "'" + bigText(rnd, 3000+rnd.Intn(2000)) + "'"
					}
					vs = append(vs, fmt.Sprintf("(%d,%d,'value-%d-%d',%s)", i, i*7%1000, i, i*31, tx))
				}
				r.must("insert into big values " + strings.Join(vs, ","))
			}
			r.must("call dolt_commit('-Am','big')")
		}},
		{"blob/1MB text + 300KB json + 200KB blob", func(s *syn) {
			r := s.r
			rnd := rand.New(rand.NewSource(7))
			r.must("create table blobs (pk int primary key, tx longtext, js json, bl longblob)")
			r.must(fmt.Sprintf("insert into blobs values (1,'%s','{\"a\":\"%s\"}','%s')", bigText(rnd, 1<<20), bigText(rnd, 300<<10), bigText(rnd, 200<<10)))
			r.must("call dolt_commit('-Am','blobs')")
		}},
		{fmt.Sprintf("rootvalue/tables=%d", tables), func(s *syn) {
			root := s.base
			for i := 0; i < tables; i++ {
				sch := schema.MustSchemaFromCols(schema.NewColCollection(
					schema.NewColumn("pk", uint64(500000+i*2), types.IntKind, true, schema.NotNullConstraint{}),
					schema.NewColumn(fmt.Sprintf("c%d", i), uint64(500001+i*2), types.IntKind, false)))
				var err error
				root, err = doltdb.CreateEmptyTable(bg, root, doltdb.TableName{Name: fmt.Sprintf("tbl_%05d", i)}, sch)
				rig.Must(err)
			}
			_, h, err := s.r.ddb.WriteRootValue(bg, root)
			rig.Must(err)
			meta, _ := datas.NewCommitMeta("v", "v@v", "many tables")
			cm, err := s.r.ddb.CommitDanglingWithParentCommits(bg, h, []*doltdb.Commit{s.mainHead()}, meta)
			rig.Must(err)
			rig.Must(s.r.ddb.NewBranchAtCommit(bg, ref.NewBranchRef("manytables"), cm, nil))
		}},
		{fmt.Sprintf("artifacts/conflicts=%d", confl), func(s *syn) {
			r := s.r
			r.must("create table cf (pk int primary key, c1 int, c2 varchar(40))")
			for lo := 0; lo < confl; lo += 500 {
				var vs []string
				for i := lo; i < lo+500 && i < confl; i++ {
					vs = append(vs, fmt.Sprintf("(%d,%d,'v%d')", i, i, i))
				}
				r.must("insert into cf values " + strings.Join(vs, ","))
			}
			r.must("call dolt_commit('-Am','base')", "call dolt_checkout('-b','other')", "update cf set c2 = concat('o', pk)", "call dolt_commit('-am','other')",
				"call dolt_checkout('main')", "update cf set c2 = concat('m', pk)", "call dolt_commit('-am','main')",
				"set @@dolt_allow_commit_conflicts = 1", "call dolt_merge('other')")
		}},
	}
}
