package vwalk

import (
	"errors"
	"fmt"
	"io"
	"strings"

	"github.com/dolthub/go-mysql-server/sql"

	"github.com/dolthub/dolt/go/libraries/doltcore/doltdb"
	"github.com/dolthub/dolt/go/libraries/doltcore/doltdb/durable"
	"github.com/dolthub/dolt/go/libraries/doltcore/ref"
	"github.com/dolthub/dolt/go/libraries/doltcore/schema"
	"github.com/dolthub/dolt/go/store/hash"
	"github.com/dolthub/dolt/go/store/prolly"
	"github.com/dolthub/dolt/go/store/prolly/tree"
	"github.com/dolthub/dolt/go/store/val"
)

// The loaders below only *drive* production loading code (doltdb / durable / prolly / tree / the SQL engine); they
// never construct an address themselves: every address they hand to a production function was returned by one.
// A loader error is recorded (it may be the consequence of a missing reference) but is not itself a verdict.

type loadLog struct {
	errs    []string
	steps   map[string]int
	commits hash.HashSet // commits already loaded in this session (a shared ancestor is loaded once)
}

func newLoadLog() *loadLog { return &loadLog{steps: map[string]int{}, commits: hash.HashSet{}} }

func (l *loadLog) step(name string) { l.steps[name]++ }
func (l *loadLog) err(where string, err error) bool {
	if err == nil {
		return false
	}
	if len(l.errs) < 20 {
		l.errs = append(l.errs, where+": "+err.Error())
	}
	return true
}

// loadWorkingSet = DoltDB.ResolveWorkingSet -> workingSetFromDataset -> newWorkingSet (the anchored loader).
func loadWorkingSet(r *repo, wsRef ref.WorkingSetRef, deep bool, l *loadLog) *doltdb.WorkingSet {
	ws, err := r.ddb.ResolveWorkingSet(bg, wsRef)
	if l.err("ResolveWorkingSet "+wsRef.String(), err) {
		return nil
	}
	l.step("workingset")
	if !deep {
		return ws
	}
	loadRoot(r, ws.WorkingRoot(), l, true)
	if ws.StagedRoot() != nil {
		loadRoot(r, ws.StagedRoot(), l, true)
	}
	if ms := ws.MergeState(); ms != nil {
		l.step("workingset.merge_state")
		loadRoot(r, ms.PreMergeWorkingRoot(), l, true)
		loadCommit(r, ms.Commit(), l, 2, true)
		if hc := ms.PreMergeHeadCommit(); hc != nil {
			l.step("workingset.merge_state.pre_merge_head")
			loadCommit(r, hc, l, 2, true)
		}
		if ms.HasSchemaConflicts() {
			l.step("workingset.merge_state.schema_conflicts")
			err := ms.IterSchemaConflicts(bg, r.ddb, func(table doltdb.TableName, conflict doltdb.SchemaConflict) error {
				return nil
			})
			l.err("IterSchemaConflicts", err)
		}
	}
	if rs := ws.RebaseState(); rs != nil {
		l.step("workingset.rebase_state")
		loadRoot(r, rs.PreRebaseWorkingRoot(), l, true)
		loadCommit(r, rs.OntoCommit(), l, 2, true)
	}
	return ws
}

// loadCommit reads what a commit object gives access to: meta, root value, parents (to |depth|), parent closure.
func loadCommit(r *repo, cm *doltdb.Commit, l *loadLog, depth int, rows bool) {
	if cm == nil {
		return
	}
	if h, err := cm.HashOf(); err == nil {
		if l.commits.Has(h) {
			return
		}
		l.commits.Insert(h)
	}
	l.step("commit")
	_, err := cm.GetCommitMeta(bg)
	l.err("GetCommitMeta", err)
	root, err := cm.GetRootValue(bg)
	if !l.err("Commit.GetRootValue", err) {
		loadRoot(r, root, l, rows)
	}
	cl, err := cm.GetCommitClosure(bg)
	if !l.err("GetCommitClosure", err) && !cl.IsEmpty() {
		l.step("commit.closure")
		it, err := cl.IterAllReverse(bg)
		if !l.err("closure.IterAllReverse", err) {
			for {
				_, _, err := it.Next(bg)
				if err != nil {
					if err != io.EOF {
						l.err("closure.Next", err)
					}
					break
				}
			}
		}
	}
	if depth <= 0 {
		return
	}
	for i := 0; i < cm.NumParents(); i++ {
		oc, err := cm.GetParent(bg, i)
		if l.err("GetParent", err) {
			continue
		}
		p, ok := oc.ToCommit()
		if !ok {
			l.step("commit.ghost_parent")
			continue
		}
		l.step("commit.parent")
		loadCommit(r, p, l, depth-1, false)
	}
}

// loadRoot walks a root value the way readers do: table names, FK collection, every table, its schema, rows,
// secondary indexes, artifacts, auto-increment.
func loadRoot(r *repo, root doltdb.RootValue, l *loadLog, rows bool) {
	if root == nil {
		return
	}
	l.step("rootvalue")
	fkc, err := root.GetForeignKeyCollection(bg)
	if !l.err("GetForeignKeyCollection", err) && fkc != nil && fkc.Count() > 0 {
		l.step("rootvalue.fk")
	}
	_, err = root.GetDatabaseSchemas(bg)
	l.err("GetDatabaseSchemas", err)
	names, err := root.GetAllTableNames(bg, true)
	if l.err("GetAllTableNames", err) {
		return
	}
	for _, n := range names {
		tbl, ok, err := root.GetTable(bg, n)
		if l.err("GetTable "+n.Name, err) || !ok {
			continue
		}
		loadTable(r, tbl, l, rows)
	}
}

func loadTable(r *repo, tbl *doltdb.Table, l *loadLog, rows bool) {
	l.step("table")
	sch, err := tbl.GetSchema(bg)
	if l.err("Table.GetSchema", err) {
		return
	}
	l.step("schema")
	if schema.HasAutoIncrement(sch) {
		_, err := tbl.GetAutoIncrementValue(bg)
		l.err("GetAutoIncrementValue", err)
		l.step("table.autoincrement")
	}
	ns := tbl.NodeStore()
	idx, err := tbl.GetRowData(bg)
	if !l.err("GetRowData", err) && rows {
		loadIndex(idx, ns, l, "rows")
	}
	for _, def := range sch.Indexes().AllIndexes() {
		sidx, err := tbl.GetIndexRowData(bg, def.Name())
		if l.err("GetIndexRowData "+def.Name(), err) {
			continue
		}
		l.step("table.secondary_index")
		if rows {
			loadIndex(sidx, ns, l, "index")
		}
	}
	ai, err := tbl.GetArtifacts(bg)
	if !l.err("GetArtifacts", err) && ai != nil {
		am := durable.ProllyMapFromArtifactIndex(ai)
		if n, _ := am.Count(); n > 0 {
			l.step("table.artifacts")
			it, err := am.IterAllArtifacts(bg)
			if !l.err("IterAllArtifacts", err) {
				for {
					_, err := it.Next(bg)
					if err != nil {
						if err != io.EOF {
							l.err("artifact.Next", err)
						}
						break
					}
					l.step("artifact")
				}
			}
		}
	}
}

// loadIndex iterates a prolly map completely and reads every field through tree.GetField (the function the SQL row
// converters use), unwrapping lazily loaded out-of-band values.
func loadIndex(idx durable.Index, ns tree.NodeStore, l *loadLog, what string) {
	m, err := durable.ProllyMapFromIndex(idx)
	if err != nil {
		l.step("index.not_a_prolly_map")
		return
	}
	loadProllyMap(m, ns, l, what)
}

func loadProllyMap(m prolly.Map, ns tree.NodeStore, l *loadLog, what string) {
	kd, vd := m.Descriptors()
	it, err := m.IterAll(bg)
	if l.err("IterAll", err) {
		return
	}
	sctx := sql.NewEmptyContext()
	for {
		k, v, err := it.Next(bg)
		if err != nil {
			if err != io.EOF {
				l.err(what+".Next", err)
			}
			return
		}
		l.step(what + ".tuple")
		readTuple(sctx, kd, k, ns, l)
		readTuple(sctx, vd, v, ns, l)
	}
}

func readTuple(sctx *sql.Context, td *val.TupleDesc, t val.Tuple, ns tree.NodeStore, l *loadLog) {
	for i := 0; i < td.Count(); i++ {
		if td.IsNull(i, t) {
			continue
		}
		v, err := tree.GetField(sctx, td, i, t, ns)
		if l.err("GetField", err) {
			continue
		}
		if w, ok := v.(sql.AnyWrapper); ok {
			_, err = w.UnwrapAny(sctx)
			l.err("UnwrapAny", err)
			l.step("tuple.out_of_band_value")
		}
	}
}

// loadRefs resolves every ref of the store through the DoltDB API: branches (+ their working sets), remotes, tags,
// workspaces, stashes, statistics, tuples.
func loadRefs(r *repo, l *loadLog, deep bool) {
	branches, err := r.ddb.GetBranches(bg)
	l.err("GetBranches", err)
	var heads []*doltdb.Commit
	for _, b := range branches {
		cm, err := r.ddb.ResolveCommitRef(bg, b)
		if l.err("ResolveCommitRef "+b.String(), err) {
			continue
		}
		l.step("branch")
		heads = append(heads, cm)
		d := 1
		if deep {
			d = 1 << 20
		}
		loadCommit(r, cm, l, d, deep)
		wsRef, err := ref.WorkingSetRefForHead(b)
		if err == nil {
			if ws, err := r.ddb.ResolveWorkingSet(bg, wsRef); err == nil && ws != nil {
				loadWorkingSet(r, wsRef, deep, l)
			} else if err != nil && !errors.Is(err, doltdb.ErrWorkingSetNotFound) {
				l.err("ResolveWorkingSet "+wsRef.String(), err)
			}
		}
	}
	for i := 0; i+1 < len(heads) && i < 6; i++ {
		_, err := doltdb.GetCommitAncestor(bg, heads[i], heads[i+1])
		if err != nil && !errors.Is(err, doltdb.ErrNoCommonAncestor) {
			l.err("GetCommitAncestor", err)
		}
		l.step("merge_base")
	}
	// working sets that have no branch (synthetic cases, detached)
	_ = r.ddb.VisitRefsOfType(bg, map[ref.RefType]struct{}{ref.RemoteRefType: {}, ref.WorkspaceRefType: {}, ref.InternalRefType: {}},
		func(dr ref.DoltRef, addr hash.Hash) error {
			cm, err := r.ddb.ResolveCommitRef(bg, dr)
			if !l.err("ResolveCommitRef "+dr.String(), err) {
				l.step("ref." + string(dr.GetType()))
				loadCommit(r, cm, l, 1, deep)
			}
			return nil
		})
	tags, err := r.ddb.GetTags(bg)
	l.err("GetTags", err)
	for _, t := range tags {
		tag, err := r.ddb.ResolveTag(bg, t.(ref.TagRef))
		if l.err("ResolveTag "+t.String(), err) {
			continue
		}
		l.step("tag")
		loadCommit(r, tag.Commit, l, 0, deep)
	}
	if st, err := r.ddb.GetStashes(bg); err == nil {
		perRef := map[string]int{}
		for _, s := range st {
			l.step("stash")
			name := strings.TrimPrefix(s.StashReference, "refs/stashes/")
			i := perRef[name]
			perRef[name]++
			sr, hc, _, err := r.ddb.GetStashRootAndHeadCommitAtIdx(bg, i, name)
			if l.err("GetStashRootAndHeadCommitAtIdx", err) {
				continue
			}
			loadRoot(r, sr, l, deep)
			loadCommit(r, hc, l, 0, deep)
		}
	} else if !strings.Contains(err.Error(), "not found") {
		l.err("GetStashes", err)
	}
	if m, err := r.ddb.GetStatistics(bg); err == nil {
		l.step("statistics")
		loadProllyMap(m, r.ddb.NodeStore(), l, "stats")
	} else if !errors.Is(err, doltdb.ErrNoStatistics) {
		l.err("GetStatistics", err)
	}
}

// sqlLoad reads through the SQL engine: every table (rows and every secondary index), conflicts, constraint
// violations, and the system tables that expose working-set / ref level objects, on every branch.
func sqlLoad(r *repo, l *loadLog) {
	rows, err := r.query("select name from dolt_branches order by name")
	if l.err("dolt_branches", err) {
		return
	}
	if r.sqlCtx == nil {
		return
	}
	db := r.sqlCtx.GetCurrentDatabase()
	if i := strings.Index(db, "/"); i > 0 {
		db = db[:i]
	}
	try := func(q string) []sql.Row {
		rs, err := r.query(q)
		if err != nil {
			l.err("sql "+trunc(q, 80), err)
			return nil
		}
		l.step("sql.stmt")
		return rs
	}
	for _, br := range rows {
		b := fmt.Sprint(br[0])
		if _, err := r.query(fmt.Sprintf("use `%s/%s`", db, b)); err != nil {
			l.err("use "+b, err)
			continue
		}
		l.step("sql.branch")
		for _, q := range []string{"select * from dolt_status", "select * from dolt_merge_status", "select * from dolt_log",
			"select * from dolt_schema_conflicts", "select * from dolt_conflicts", "select * from dolt_constraint_violations",
			"select * from dolt_tags", "select * from dolt_stashes", "select * from dolt_schemas", "select * from dolt_diff"} {
			try(q)
		}
		if strings.HasPrefix(b, "dolt_rebase_") {
			try("select * from dolt_rebase")
		}
		tbls := try("show full tables where Table_type = 'BASE TABLE'")
		for ti, t := range tbls {
			n := fmt.Sprint(t[0])
			if ti >= 25 {
				try(fmt.Sprintf("select * from `%s`", n))
				continue
			}
			try(fmt.Sprintf("select * from `%s`", n))
			for _, ir := range try(fmt.Sprintf("show indexes from `%s`", n)) {
				key := fmt.Sprint(ir[2])
				if key == "PRIMARY" {
					continue
				}
				try(fmt.Sprintf("select count(*) from `%s` force index (`%s`)", n, key))
			}
			try(fmt.Sprintf("select * from `dolt_conflicts_%s`", n))
			try(fmt.Sprintf("select * from `dolt_constraint_violations_%s`", n))
			try(fmt.Sprintf("select count(*) from `dolt_diff_%s`", n))
			try(fmt.Sprintf("select count(*) from `dolt_history_%s`", n))
		}
	}
	r.query(fmt.Sprintf("use `%s`", db))
}

// sqlArtifacts reads only the conflict / constraint-violation system tables of the current branch (so that what
// they dereference is not already known to the session from other statements).
func sqlArtifacts(r *repo, l *loadLog) {
	tbls, err := r.query("show full tables where Table_type = 'BASE TABLE'")
	if l.err("show tables", err) {
		return
	}
	for i, t := range tbls {
		if i >= 25 {
			break
		}
		n := fmt.Sprint(t[0])
		for _, q := range []string{"select * from `dolt_conflicts_%s`", "select * from `dolt_constraint_violations_%s`"} {
			if _, err := r.query(fmt.Sprintf(q, n)); err != nil {
				l.err("sql "+q, err)
			} else {
				l.step("sql.artifact_stmt")
			}
		}
	}
}

// loadArtifactSources does what the dolt_conflicts_<t> / dolt_constraint_violations_<t> readers do with an artifact
// (prollyConflictRowIter.loadTableMaps): resolve the source root-ish stored in the artifact key through
// doltdb.LoadRootValueFromRootIshAddr - starting from the branch's working root only, without visiting the commit graph.
func loadArtifactSources(r *repo, branch string, l *loadLog) {
	ws, err := r.ddb.ResolveWorkingSet(bg, ref.NewWorkingSetRef("heads/"+branch))
	if l.err("ResolveWorkingSet "+branch, err) {
		return
	}
	root := ws.WorkingRoot()
	names, err := root.GetAllTableNames(bg, true)
	if l.err("GetAllTableNames", err) {
		return
	}
	for _, n := range names {
		tbl, ok, err := root.GetTable(bg, n)
		if l.err("GetTable", err) || !ok {
			continue
		}
		ai, err := tbl.GetArtifacts(bg)
		if l.err("GetArtifacts", err) || ai == nil {
			continue
		}
		am := durable.ProllyMapFromArtifactIndex(ai)
		it, err := am.IterAllArtifacts(bg)
		if l.err("IterAllArtifacts", err) {
			continue
		}
		seen := hash.HashSet{}
		for {
			art, err := it.Next(bg)
			if err != nil {
				if err != io.EOF {
					l.err("artifact.Next", err)
				}
				break
			}
			if seen.Has(art.SourceRootish) {
				continue
			}
			seen.Insert(art.SourceRootish)
			rv, err := doltdb.LoadRootValueFromRootIshAddr(bg, tbl.ValueReadWriter(), tbl.NodeStore(), art.SourceRootish)
			if !l.err("LoadRootValueFromRootIshAddr(artifact source)", err) {
				l.step("artifact.source_rootish")
				loadRoot(r, rv, l, false)
			}
		}
	}
}
