package vwalk

import (
	"fmt"
	"io"
	"sync/atomic"

	"github.com/dolthub/go-mysql-server/sql"

	"github.com/dolthub/dolt/go/cmd/dolt/commands/engine"
	"github.com/dolthub/dolt/go/libraries/doltcore/doltdb"
	"github.com/dolthub/dolt/go/libraries/doltcore/dtestutils"
	"github.com/dolthub/dolt/go/libraries/doltcore/env"
	"github.com/dolthub/dolt/go/libraries/utils/filesys"

	"verif/rig"
)

var repoSeq atomic.Int64

// repo is one in-memory dolt repository whose chunk store is the recording store.
type repo struct {
	name string
	url  string
	fs   filesys.Filesys
	hdp  env.HomeDirProvider
	dEnv *env.DoltEnv
	ddb  *doltdb.DoltDB
	rec  *recStore

	eng    *engine.SqlEngine
	sqlCtx *sql.Context
}

func newRepo(label string) *repo {
	installFactory()
	name := fmt.Sprintf("%s%d", label, repoSeq.Add(1))
	dEnv := dtestutils.CreateTestEnvWithName(name)
	r := &repo{name: name, url: doltdb.InMemDoltDB + name, fs: dEnv.FS, dEnv: dEnv}
	r.hdp = func() (string, error) { return dtestutils.TestHomeDirPrefix + name, nil }
	r.ddb = dEnv.DoltDB(bg)
	theFactory.mu.Lock()
	r.rec = theFactory.stores[name]
	theFactory.mu.Unlock()
	if r.rec == nil {
		rig.Must(fmt.Errorf("vwalk: recording factory was not used for %s", r.url))
	}
	return r
}

// cold returns a fresh environment (fresh ValueStore, NodeStore, DoltDB, commit cache) over the same store and
// purges the process-wide prolly node cache: every chunk a loader uses afterwards goes through the recorder.
func (r *repo) cold() *repo {
	r.closeEngine()
	dEnv := env.Load(bg, r.hdp, r.fs, r.url, "test")
	n := &repo{name: r.name, url: r.url, fs: r.fs, hdp: r.hdp, dEnv: dEnv, rec: r.rec}
	n.ddb = dEnv.DoltDB(bg)
	if n.ddb == nil {
		rig.Must(fmt.Errorf("vwalk: reload failed: %v", dEnv.DBLoadError))
	}
	n.ddb.PurgeCaches()
	return n
}

// engine starts the SQL engine over this environment. Failing to start is a loader outcome (after a collection
// that dropped a referenced chunk the engine cannot open the database), not a harness error.
func (r *repo) engine() (*engine.SqlEngine, *sql.Context, error) {
	if r.eng != nil {
		return r.eng, r.sqlCtx, nil
	}
	mrEnv, err := env.MultiEnvForDirectory(bg, r.dEnv.FS, r.dEnv)
	if err != nil {
		return nil, nil, fmt.Errorf("MultiEnvForDirectory: %w", err)
	}
	eng, err := engine.NewSqlEngine(bg, mrEnv, &engine.SqlEngineConfig{
		IsReadOnly: false, ServerUser: "root", ServerHost: "localhost", Autocommit: true,
	})
	if err != nil {
		return nil, nil, fmt.Errorf("engine.NewSqlEngine: %w", err)
	}
	ctx, err := eng.NewLocalContext(bg)
	if err != nil {
		eng.Close()
		return nil, nil, fmt.Errorf("NewLocalContext: %w", err)
	}
	ctx.SetCurrentDatabase(mrEnv.GetFirstDatabase())
	r.eng, r.sqlCtx = eng, ctx
	return eng, ctx, nil
}

func (r *repo) closeEngine() {
	if r.eng != nil {
		r.eng.Close()
		r.eng, r.sqlCtx = nil, nil
	}
}

func (r *repo) close() {
	r.closeEngine()
	theFactory.forget(r.name)
}

// query runs one statement and drains the result.
func (r *repo) query(q string) ([]sql.Row, error) {
	eng, ctx, err := r.engine()
	if err != nil {
		return nil, err
	}
	_, iter, _, err := eng.Query(ctx, q)
	if err != nil {
		return nil, err
	}
	var rows []sql.Row
	for {
		row, err := iter.Next(ctx)
		if err == io.EOF {
			break
		}
		if err != nil {
			iter.Close(ctx)
			return rows, err
		}
		rows = append(rows, row)
	}
	return rows, iter.Close(ctx)
}

// must runs statements that the workload needs to succeed (harness infrastructure).
func (r *repo) must(qs ...string) {
	for _, q := range qs {
		if _, err := r.query(q); err != nil {
			rig.Must(fmt.Errorf("vwalk workload statement failed: %s: %v", trunc(q, 200), err))
		}
	}
}

func trunc(s string, n int) string {
	if len(s) > n {
		return s[:n] + "…"
	}
	return s
}
