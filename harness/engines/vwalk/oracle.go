package vwalk

import (
	"bytes"
	"encoding/binary"
	"fmt"
	"os"
	"sort"

	"github.com/dolthub/dolt/go/gen/fb/serial"
	"github.com/dolthub/dolt/go/store/chunks"
	"github.com/dolthub/dolt/go/store/hash"
	"github.com/dolthub/dolt/go/store/types"

	"verif/rig"
)

// ---------------------------------------------------------------------------------------------------------
// walked(): what the production reference walker reports for a chunk. types.WalkAddrsFromNomsValue is the body
// of ValueStore.walkAddrs (GC mark), of InsertAddrsFromNomsValue (ref checks on write) and — through
// SerialMessage.walkRefs — of types.WalkAddrsForNBF (pull / clone). fsck calls SerialMessage.WalkAddrs itself.
// ---------------------------------------------------------------------------------------------------------

func walked(c chunks.Chunk) (hash.HashSet, error) {
	out := hash.HashSet{}
	err := types.WalkAddrsFromNomsValue(c, types.Format_DOLT, func(a hash.Hash) error {
		out.Insert(a)
		return nil
	})
	return out, err
}

// closureOf performs the full reference walk (the mark phase) from the given start addresses.
func closureOf(rec *recStore, starts ...hash.Hash) (hash.HashSet, map[string]int) {
	seen := hash.HashSet{}
	kinds := map[string]int{}
	queue := append([]hash.Hash{}, starts...)
	for len(queue) > 0 {
		h := queue[0]
		queue = queue[1:]
		if h.IsEmpty() || seen.Has(h) {
			continue
		}
		seen.Insert(h)
		c, ok := rec.raw(h)
		if !ok {
			continue
		}
		kinds[kindOf(c.Data())]++
		w, err := walked(c)
		if err != nil {
			rig.Must(fmt.Errorf("walker failed on %s (%s): %v", h, kindOf(c.Data()), err))
		}
		for a := range w {
			if !seen.Has(a) {
				queue = append(queue, a)
			}
		}
	}
	return seen, kinds
}

func storeRoot(rec *recStore) hash.Hash {
	rig.Must(rec.NomsBlockStore.Rebase(bg))
	h, err := rec.NomsBlockStore.Root(bg)
	rig.Must(err)
	return h
}

// ---------------------------------------------------------------------------------------------------------
// kinds and field location (independent of WalkAddrs: uses the generated flatbuffer accessors only)
// ---------------------------------------------------------------------------------------------------------

var kindNames = map[string]string{
	serial.StoreRootFileID:            "storeroot",
	serial.StashListFileID:            "stashlist",
	serial.StatisticFileID:            "statistic",
	serial.StashFileID:                "stash",
	serial.TagFileID:                  "tag",
	serial.WorkingSetFileID:           "workingset",
	serial.RootValueFileID:            "rootvalue",
	serial.TableFileID:                "table",
	serial.CommitFileID:               "commit",
	serial.TableSchemaFileID:          "schema",
	serial.ForeignKeyCollectionFileID: "fkcollection",
	serial.TupleFileID:                "tuple",
	serial.ProllyTreeNodeFileID:       "prollynode",
	serial.AddressMapFileID:           "addressmap",
	serial.MergeArtifactsFileID:       "artifacts",
	serial.BlobFileID:                 "blob",
	serial.CommitClosureFileID:        "closure",
	serial.VectorIndexNodeFileID:      "vectorindexnode",
}

func isSerial(data []byte) bool {
	return len(data) > serial.MessagePrefixSz+8 && types.NomsKind(data[0]) == types.SerialMessageKind
}

func kindOf(data []byte) string {
	if !isSerial(data) {
		return "nonserial"
	}
	id := serial.GetFileID(data)
	if n, ok := kindNames[id]; ok {
		return n
	}
	return "fileid-" + id
}

// levelOf returns the tree level of a tree-shaped message (or -1).
func levelOf(data []byte) int {
	if !isSerial(data) {
		return -1
	}
	defer func() { recover() }()
	switch serial.GetFileID(data) {
	case serial.ProllyTreeNodeFileID:
		var m serial.ProllyTreeNode
		if serial.InitProllyTreeNodeRoot(&m, data, serial.MessagePrefixSz) == nil {
			return int(m.TreeLevel())
		}
	case serial.AddressMapFileID:
		var m serial.AddressMap
		if serial.InitAddressMapRoot(&m, data, serial.MessagePrefixSz) == nil {
			return int(m.TreeLevel())
		}
	case serial.MergeArtifactsFileID:
		var m serial.MergeArtifacts
		if serial.InitMergeArtifactsRoot(&m, data, serial.MessagePrefixSz) == nil {
			return int(m.TreeLevel())
		}
	case serial.BlobFileID:
		var m serial.Blob
		if serial.InitBlobRoot(&m, data, serial.MessagePrefixSz) == nil {
			return int(m.TreeLevel())
		}
	case serial.CommitClosureFileID:
		var m serial.CommitClosure
		if serial.InitCommitClosureRoot(&m, data, serial.MessagePrefixSz) == nil {
			return int(m.TreeLevel())
		}
	}
	return -1
}

type namedBytes struct {
	name string
	b    []byte
}

// fieldsOf lists the byte regions of a message that can hold addresses, by field name.
func fieldsOf(data []byte) (out []namedBytes) {
	if !isSerial(data) {
		return nil
	}
	defer func() { recover() }()
	add := func(n string, b []byte) {
		if len(b) > 0 {
			out = append(out, namedBytes{n, b})
		}
	}
	sub := func(prefix string, b []byte) {
		if len(b) == 0 {
			return
		}
		for _, f := range fieldsOf(b) {
			out = append(out, namedBytes{prefix + "/" + f.name, f.b})
		}
	}
	switch serial.GetFileID(data) {
	case serial.WorkingSetFileID:
		var m serial.WorkingSet
		if serial.InitWorkingSetRoot(&m, data, serial.MessagePrefixSz) != nil {
			return
		}
		add("working_root_addr", m.WorkingRootAddrBytes())
		add("staged_root_addr", m.StagedRootAddrBytes())
		if ms, _ := m.TryMergeState(nil); ms != nil {
			add("merge_state.pre_working_root_addr", ms.PreWorkingRootAddrBytes())
			add("merge_state.from_commit_addr", ms.FromCommitAddrBytes())
			add("merge_state.pre_merge_head_commit_addr", ms.PreMergeHeadCommitAddrBytes())
		}
		if rs, _ := m.TryRebaseState(nil); rs != nil {
			add("rebase_state.pre_working_root_addr", rs.PreWorkingRootAddrBytes())
			add("rebase_state.onto_commit_addr", rs.OntoCommitAddrBytes())
		}
	case serial.CommitFileID:
		var m serial.Commit
		if serial.InitCommitRoot(&m, data, serial.MessagePrefixSz) != nil {
			return
		}
		add("root", m.RootBytes())
		add("parent_addrs", m.ParentAddrsBytes())
		add("parent_closure", m.ParentClosureBytes())
	case serial.TagFileID:
		var m serial.Tag
		if serial.InitTagRoot(&m, data, serial.MessagePrefixSz) != nil {
			return
		}
		add("commit_addr", m.CommitAddrBytes())
	case serial.StashFileID:
		var m serial.Stash
		if serial.InitStashRoot(&m, data, serial.MessagePrefixSz) != nil {
			return
		}
		add("stash_root_addr", m.StashRootAddrBytes())
		add("head_commit_addr", m.HeadCommitAddrBytes())
	case serial.StatisticFileID:
		var m serial.Statistic
		if serial.InitStatisticRoot(&m, data, serial.MessagePrefixSz) != nil {
			return
		}
		add("root", m.RootBytes())
	case serial.StoreRootFileID:
		var m serial.StoreRoot
		if serial.InitStoreRootRoot(&m, data, serial.MessagePrefixSz) != nil {
			return
		}
		sub("address_map", m.AddressMapBytes())
	case serial.StashListFileID:
		var m serial.StashList
		if serial.InitStashListRoot(&m, data, serial.MessagePrefixSz) != nil {
			return
		}
		sub("address_map", m.AddressMapBytes())
	case serial.RootValueFileID:
		var m serial.RootValue
		if serial.InitRootValueRoot(&m, data, serial.MessagePrefixSz) != nil {
			return
		}
		add("foreign_key_addr", m.ForeignKeyAddrBytes())
		sub("tables", m.TablesBytes())
	case serial.TableFileID:
		var m serial.Table
		if serial.InitTableRoot(&m, data, serial.MessagePrefixSz) != nil {
			return
		}
		add("schema", m.SchemaBytes())
		if cf, _ := m.TryConflicts(nil); cf != nil {
			add("conflicts.data", cf.DataBytes())
			add("conflicts.our_schema", cf.OurSchemaBytes())
			add("conflicts.their_schema", cf.TheirSchemaBytes())
			add("conflicts.ancestor_schema", cf.AncestorSchemaBytes())
		}
		add("violations", m.ViolationsBytes())
		add("artifacts", m.ArtifactsBytes())
		sub("secondary_indexes", m.SecondaryIndexesBytes())
		sub("primary_index", m.PrimaryIndexBytes())
	case serial.AddressMapFileID:
		var m serial.AddressMap
		if serial.InitAddressMapRoot(&m, data, serial.MessagePrefixSz) != nil {
			return
		}
		if m.TreeLevel() == 0 {
			add("address_array(values)", m.AddressArrayBytes())
		} else {
			add("address_array(children)", m.AddressArrayBytes())
		}
		add("key_items", m.KeyItemsBytes())
	case serial.ProllyTreeNodeFileID:
		var m serial.ProllyTreeNode
		if serial.InitProllyTreeNodeRoot(&m, data, serial.MessagePrefixSz) != nil {
			return
		}
		add("address_array(children)", m.AddressArrayBytes())
		add("value_items(out-of-band field)", m.ValueItemsBytes())
		add("key_items(out-of-band field)", m.KeyItemsBytes())
	case serial.MergeArtifactsFileID:
		var m serial.MergeArtifacts
		if serial.InitMergeArtifactsRoot(&m, data, serial.MessagePrefixSz) != nil {
			return
		}
		add("address_array(children)", m.AddressArrayBytes())
		add("key_items(address field)", m.KeyItemsBytes())
		add("value_items", m.ValueItemsBytes())
	case serial.BlobFileID:
		var m serial.Blob
		if serial.InitBlobRoot(&m, data, serial.MessagePrefixSz) != nil {
			return
		}
		add("address_array(children)", m.AddressArrayBytes())
		add("payload", m.PayloadBytes())
	case serial.CommitClosureFileID:
		var m serial.CommitClosure
		if serial.InitCommitClosureRoot(&m, data, serial.MessagePrefixSz) != nil {
			return
		}
		add("address_array(children)", m.AddressArrayBytes())
		add("key_items(commit addresses)", m.KeyItemsBytes())
	case serial.VectorIndexNodeFileID:
		var m serial.VectorIndexNode
		if serial.InitVectorIndexNodeRoot(&m, data, serial.MessagePrefixSz) != nil {
			return
		}
		add("address_array(children)", m.AddressArrayBytes())
		add("key_items", m.KeyItemsBytes())
		add("value_items", m.ValueItemsBytes())
	}
	return out
}

// locate names the field of the message that holds address a ("" if the bytes are not inside a known field).
func locate(data []byte, a hash.Hash) string {
	for _, f := range fieldsOf(data) {
		if bytes.Contains(f.b, a[:]) {
			return f.name
		}
	}
	return ""
}

// ---------------------------------------------------------------------------------------------------------
// session analysis
// ---------------------------------------------------------------------------------------------------------

var debugKind = os.Getenv("VWALK_DEBUG_KIND")

type fetched struct {
	idx  int // position of the first request in the session
	addr hash.Hash
	data []byte
}

type finding struct {
	Key      string
	Oracle   string // closure | per-object
	Referrer string
	RefKind  string
	Field    string
	Addr     string
	AddrKind string
	Loader   string
}

type sessionStats struct {
	requests, present, absent int
	kinds                     map[string]int // kinds of chunks fetched
	levels                    map[string]int // kind@level>0
	derefs                    map[string]int // kind/field dereferenced (address stored in a fetched chunk and requested later)
	copies                    map[string]int // kind/field holding an unreported copy of an address the loader learned elsewhere
	belowUnreachable          int
	stringForm                []string
	findings                  []finding
}

// analyze applies both oracles to one loader session.
//
//	closure form:    every address requested by the loader that is present in the store must be in the closure of
//	                 the production walker started at the store root;
//	per-object form: for every chunk X the loader fetched, every address literally stored in X that the loader
//	                 requested afterwards (and had not requested before it fetched X, and that no chunk fetched
//	                 before that request reports - so X is the only place the loader can have it from) must be in
//	                 WalkAddrs(X).
//
// Addresses that are requested but absent from the store (speculative Has, ghost commits) are counted, not judged.
func analyze(rec *recStore, loader string, events []readEvent, root hash.Hash, closure hash.HashSet) *sessionStats {
	st := &sessionStats{kinds: map[string]int{}, levels: map[string]int{}, derefs: map[string]int{}, copies: map[string]int{}}
	first := map[hash.Hash]int{}
	var order []fetched
	for i, e := range events {
		st.requests++
		if _, ok := first[e.Addr]; ok {
			continue
		}
		if !e.Present {
			st.absent++
			first[e.Addr] = -1 - i
			continue
		}
		first[e.Addr] = i
		st.present++
		c, ok := rec.raw(e.Addr)
		if !ok {
			continue
		}
		order = append(order, fetched{i, e.Addr, c.Data()})
		k := kindOf(c.Data())
		st.kinds[k]++
		if l := levelOf(c.Data()); l > 0 {
			st.levels[k]++
		}
	}
	// index of requested-and-present addresses for the window scan
	type pre [8]byte
	want := map[pre][]hash.Hash{}
	var tbl [1 << 16]bool
	for a, i := range first {
		if i < 0 {
			continue
		}
		var p pre
		copy(p[:], a[:8])
		want[p] = append(want[p], a)
		tbl[binary.BigEndian.Uint16(a[:2])] = true
	}
	// string-form index (base32 text of an address inside a chunk): diagnostics only
	wantStr := map[string]hash.Hash{}
	var tblS [1 << 16]bool
	for a, i := range first {
		if i < 0 {
			continue
		}
		s := a.String()
		wantStr[s] = a
		tblS[binary.BigEndian.Uint16([]byte(s[:2]))] = true
	}

	reportedBy := map[hash.Hash]bool{} // addresses reported by the walker for some fetched chunk
	type ref struct {
		x     *fetched
		field string
	}
	referrers := map[hash.Hash][]ref{}
	seenFinding := map[string]bool{}
	addFinding := func(f finding) {
		id := f.Oracle + "|" + f.Key + "|" + f.Addr
		if !seenFinding[id] {
			seenFinding[id] = true
			st.findings = append(st.findings, f)
		}
	}

	// pass 1: what the walker reports for every fetched chunk, and when the loader could first have learned an
	// address from a chunk that reports it
	walkedOf := make([]hash.HashSet, len(order))
	reportedAt := map[hash.Hash]int{}
	for xi := range order {
		x := &order[xi]
		if !isSerial(x.data) {
			continue
		}
		w, err := walked(chunks.NewChunkWithHash(x.addr, x.data))
		if err != nil {
			rig.Must(fmt.Errorf("walker failed on fetched chunk %s (%s): %v", x.addr, kindOf(x.data), err))
		}
		walkedOf[xi] = w
		if debugKind != "" && kindOf(x.data) == debugKind {
			for a := range w {
				fi, ok := first[a]
				fmt.Printf("DEBUG %s loader=%q X=%s xidx=%d reports %s first=%d requested=%v\n", debugKind, loader, x.addr, x.idx, a, fi, ok)
			}
		}
		for a := range w {
			reportedBy[a] = true
			if _, ok := reportedAt[a]; !ok {
				reportedAt[a] = x.idx
			}
		}
	}
	// pass 2: literal containment scan
	for xi := range order {
		x := &order[xi]
		if !isSerial(x.data) {
			continue
		}
		w := walkedOf[xi]
		d := x.data
		for o := 0; o+hash.ByteLen <= len(d); o++ {
			if !tbl[binary.BigEndian.Uint16(d[o:o+2])] {
				continue
			}
			var p pre
			copy(p[:], d[o:o+8])
			for _, a := range want[p] {
				if a == x.addr || !bytes.Equal(d[o:o+hash.ByteLen], a[:]) {
					continue
				}
				if first[a] <= x.idx {
					continue // the loader knew this address before it fetched X
				}
				field := locate(d, a)
				if field == "" {
					field = "unlocated-bytes"
				}
				kind := kindOf(d)
				referrers[a] = append(referrers[a], ref{x, field})
				if w.Has(a) {
					st.derefs[kind+"/"+field]++
					continue
				}
				if at, ok := reportedAt[a]; ok && at < first[a] {
					// a chunk fetched earlier reports this address: the loader may have learned it there (e.g. the
					// separator keys of internal commit-closure nodes are copies of leaf keys) - not attributable to X
					st.copies[kind+"/"+field]++
					continue
				}
				st.derefs[kind+"/"+field]++
				ac, _ := rec.raw(a)
				addFinding(finding{Key: "c09/" + kind + "/" + field, Oracle: "per-object", Referrer: x.addr.String(),
					RefKind: kind, Field: field, Addr: a.String(), AddrKind: kindOf(ac.Data()), Loader: loader})
			}
		}
		for o := 0; o+32 <= len(d); o++ {
			if !tblS[binary.BigEndian.Uint16(d[o:o+2])] {
				continue
			}
			if a, ok := wantStr[string(d[o:o+32])]; ok && first[a] > x.idx && !w.Has(a) {
				if at, ok := reportedAt[a]; !ok || at > first[a] {
					st.stringForm = append(st.stringForm, fmt.Sprintf("%s holds text of %s (%s)", kindOf(d), a, loader))
				}
			}
		}
	}

	// closure form
	var outside []hash.Hash
	for a, i := range first {
		if i >= 0 && a != root && !closure.Has(a) {
			outside = append(outside, a)
		}
	}
	sort.Slice(outside, func(i, j int) bool { return first[outside[i]] < first[outside[j]] })
	for _, a := range outside {
		ac, _ := rec.raw(a)
		rs := referrers[a]
		attributed := false
		for _, r := range rs {
			if r.x.addr == root || closure.Has(r.x.addr) {
				kind := kindOf(r.x.data)
				addFinding(finding{Key: "c09/" + kind + "/" + r.field, Oracle: "closure", Referrer: r.x.addr.String(),
					RefKind: kind, Field: r.field, Addr: a.String(), AddrKind: kindOf(ac.Data()), Loader: loader})
				attributed = true
			}
		}
		if attributed {
			continue
		}
		if len(rs) > 0 || reportedBy[a] {
			st.belowUnreachable++ // child of a chunk that is itself outside the closure: consequence, not a new class
			continue
		}
		addFinding(finding{Key: "c09/closure/unattributed-" + kindOf(ac.Data()), Oracle: "closure", Addr: a.String(),
			AddrKind: kindOf(ac.Data()), Loader: loader})
	}
	return st
}
