package vwalk

import (
	"context"
	"fmt"
	"math/rand"
	"strings"

	"github.com/dolthub/dolt/go/libraries/doltcore/doltdb/durable"
	"github.com/dolthub/dolt/go/libraries/doltcore/ref"
	"github.com/dolthub/dolt/go/libraries/doltcore/schema/typeinfo"
	"github.com/dolthub/dolt/go/store/hash"
	"github.com/dolthub/dolt/go/store/prolly/tree"
	"github.com/dolthub/dolt/go/store/val"

	"verif/rig"
)

// Sparse out-of-band population: tables with 2..4 address-capable value columns of mixed kinds (TEXT / BLOB / JSON /
// GEOMETRY) where, per row, only a random subset of those columns (exactly one, none, some, all) holds an
// out-of-band value and the others are inline / short / NULL. Leaves of such tables hold fewer addresses than the
// schema has address-capable columns - the population every "one address per column per row" generator misses.

type sparseShape struct {
	Enc     string // adaptive | addr (legacy *AddrEnc: every non-NULL value is an address, so "inline" means NULL)
	Cols    int    // 2..4 address-capable value columns
	Size    string // tiny (1..3 rows, one embedded leaf) | multi (several leaves)
	Keyless bool   // keyless tables carry all columns (and their addresses) in the value tuple as well
	Index   bool   // secondary indexes (int column + prefix of the first text-like column)
	Rows    int
}

func (s sparseShape) String() string {
	return fmt.Sprintf("enc=%s,cols=%d,size=%s,keyless=%v,index=%v,rows=%d", s.Enc, s.Cols, s.Size, s.Keyless, s.Index, s.Rows)
}

func sparseShapes(c *rig.Ctx) []sparseShape {
	var out []sparseShape
	i := 0
	for rep := 0; rep < c.Pick(1, 6); rep++ {
		for _, enc := range []string{"adaptive", "addr"} {
			for cols := 2; cols <= 4; cols++ {
				for _, size := range []string{"tiny", "multi"} {
					rnd := c.SubRand("sparseshape", i)
					i++
					sh := sparseShape{Enc: enc, Cols: cols, Size: size, Keyless: rnd.Intn(3) == 0, Index: rnd.Intn(2) == 0}
					if size == "tiny" {
						sh.Rows = 1 + rnd.Intn(3)
					} else {
						sh.Rows = c.Pick(500, 3000) + rnd.Intn(300)
					}
					out = append(out, sh)
				}
			}
		}
	}
	return out
}

var sparseKinds = []string{"text", "blob", "json", "geometry"}

func sparseValue(kind string, mode int, rnd *rand.Rand) string { // mode: 0 NULL, 1 short, 2 large
	if mode == 0 {
		return "NULL"
	}
	switch kind {
	case "json":
		if mode == 1 {
			return fmt.Sprintf("'{\"a\":%d}'", rnd.Intn(1000))
		}
		return "'{\"k\":\"" + bigText(rnd, 5000+rnd.Intn(3000)) + "\"}'"
	case "geometry":
		if mode == 1 {
			return fmt.Sprintf("ST_GeomFromText('POINT(%d %d)')", rnd.Intn(100), rnd.Intn(100))
		}
		var pts []string
		for i := 0; i < 400+rnd.Intn(200); i++ {
			pts = append(pts, fmt.Sprintf("%d %d", rnd.Intn(10000), rnd.Intn(10000)))
		}
		return "ST_GeomFromText('LINESTRING(" + strings.Join(pts, ",") + ")')"
	default:
		if mode == 1 {
			return "'" + bigText(rnd, 3+rnd.Intn(20)) + "'"
		}
		return "'" + bigText(rnd, 5000+rnd.Intn(3000)) + "'"
	}
}

// buildSparse creates table sp (budgeted: the leaf keeps fewer addresses than address-capable columns wherever the
// PRNG allows) and table sp2 (unconstrained random subsets, including none and all).
func buildSparse(r *repo, sh sparseShape, rnd *rand.Rand) (rowsOne, rowsNone int) {
	if sh.Enc == "addr" {
		old := typeinfo.UseAdaptiveEncoding
		typeinfo.UseAdaptiveEncoding = false
		defer func() { typeinfo.UseAdaptiveEncoding = old }()
	}
	kinds := append([]string{}, sparseKinds...)
	rnd.Shuffle(len(kinds), func(i, j int) { kinds[i], kinds[j] = kinds[j], kinds[i] })
	kinds = kinds[:sh.Cols]
	for _, tbl := range []string{"sp", "sp2"} {
		var cols []string
		if sh.Keyless {
			cols = append(cols, "id int not null")
		} else {
			cols = append(cols, "id int primary key")
		}
		cols = append(cols, "n int", "pad varchar(160)")
		firstTextLike := ""
		for i, k := range kinds {
			cols = append(cols, fmt.Sprintf("a%d %s", i, k))
			if firstTextLike == "" && (k == "text" || k == "blob") {
				firstTextLike = fmt.Sprintf("a%d", i)
			}
		}
		if sh.Index {
			cols = append(cols, "key ix_n (n)")
			if firstTextLike != "" {
				cols = append(cols, fmt.Sprintf("key ix_p (%s(8))", firstTextLike))
			}
		}
		r.must(fmt.Sprintf("create table %s (%s)", tbl, strings.Join(cols, ", ")))
	}
	inline := 1 // what a non-selected column holds
	row := func(id int, sel map[int]bool) string {
		vs := []string{fmt.Sprint(id), fmt.Sprint(rnd.Intn(50)), "'" + bigText(rnd, 60+rnd.Intn(90)) + "'"}
		for i, k := range kinds {
			switch {
			case sel[i]:
				vs = append(vs, sparseValue(k, 2, rnd))
			case sh.Enc == "addr" || rnd.Intn(3) == 0:
				vs = append(vs, "NULL")
			default:
				vs = append(vs, sparseValue(k, inline, rnd))
			}
		}
		return "(" + strings.Join(vs, ",") + ")"
	}
	// sp: budgeted
	var batch []string
	flush := func(tbl string) {
		if len(batch) > 0 {
			r.must(fmt.Sprintf("insert into %s values %s", tbl, strings.Join(batch, ",")))
			batch = nil
		}
	}
	for id := 0; id < sh.Rows; id++ {
		sel := map[int]bool{}
		switch {
		case sh.Size == "tiny" && id == 0:
			sel[rnd.Intn(sh.Cols)] = true // exactly one out-of-band value in the (single) leaf ...
		case sh.Size == "tiny":
			if sh.Cols >= 3 && id == 1 && rnd.Intn(2) == 0 {
				sel[rnd.Intn(sh.Cols)] = true // ... or two of >= 3
			}
		case rnd.Intn(110) == 0:
			sel[rnd.Intn(sh.Cols)] = true // a leaf of ~50-100 rows gets 0, 1, rarely 2 addresses
		}
		if len(sel) == 1 {
			rowsOne++
		} else if len(sel) == 0 {
			rowsNone++
		}
		batch = append(batch, row(id, sel))
		if len(batch) >= 60 {
			flush("sp")
		}
	}
	flush("sp")
	// sp2: any subset per row
	n2 := sh.Rows
	if n2 > 40 {
		n2 = 40
	}
	for id := 0; id < n2; id++ {
		sel := map[int]bool{}
		for i := 0; i < sh.Cols; i++ {
			if rnd.Intn(3) == 0 {
				sel[i] = true
			}
		}
		batch = append(batch, row(id, sel))
		if len(batch) >= 8 {
			flush("sp2")
		}
	}
	flush("sp2")
	r.must("call dolt_commit('-Am','sparse')")
	// a later edit rewrites only some leaves
	if sh.Size == "multi" {
		r.must(fmt.Sprintf("update sp set n = n + 1 where id %% 97 = 3"), "call dolt_commit('-am','touch')")
	}
	return
}

type leafPop struct{ leaves, none, partial, full, addrs int }

// leafPopulation counts, for every leaf of every table's primary index on main, the out-of-band addresses its value
// tuples hold (read from the tuples themselves, not from the node's address-offset vector) against the number of
// address-capable columns of the value descriptor.
func leafPopulation(r *repo) leafPop {
	var p leafPop
	ws, err := r.ddb.ResolveWorkingSet(bg, ref.NewWorkingSetRef("heads/main"))
	rig.Must(err)
	root := ws.WorkingRoot()
	names, err := root.GetAllTableNames(bg, true)
	rig.Must(err)
	for _, n := range names {
		tbl, ok, err := root.GetTable(bg, n)
		rig.Must(err)
		if !ok {
			continue
		}
		idx, err := tbl.GetRowData(bg)
		rig.Must(err)
		m, err := durable.ProllyMapFromIndex(idx)
		if err != nil {
			continue
		}
		_, vd := m.Descriptors()
		capable := vd.AddressFieldCount()
		if capable < 2 {
			continue
		}
		rig.Must(m.WalkNodes(bg, func(ctx context.Context, nd *tree.Node) error {
			if !nd.IsLeaf() {
				return nil
			}
			cnt := 0
			for i := 0; i < nd.Count(); i++ {
				t := val.Tuple(nd.GetValue(i))
				val.IterAddressFields(vd, func(j int, _ val.Type) {
					if f := t.GetField(j); len(f) > 0 && !hash.New(f).IsEmpty() {
						cnt++
					}
				})
				val.IterAdaptiveFields(vd, func(j int, _ val.Type) {
					if f := t.GetField(j); len(f) > 0 && val.AdaptiveValue(f).IsOutOfBand() {
						cnt++
					}
				})
			}
			p.leaves++
			p.addrs += cnt
			switch {
			case cnt == 0:
				p.none++
			case cnt < capable:
				p.partial++
			default:
				p.full++
			}
			return nil
		}))
	}
	return p
}
