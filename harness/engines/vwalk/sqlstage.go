package vwalk

import (
	"fmt"
	"math/rand"
	"strings"

	"github.com/dolthub/dolt/go/libraries/doltcore/ref"

	"verif/rig"
)

// sqlWorkload drives an in-process SQL engine (production writers only) into the states the property names:
// conflicted merge, schema-conflicted merge, constraint-violating merge, interrupted multi-commit cherry-pick and
// revert (pending commits), interactive rebases (plan not started / started and stopped on a conflict) whose
// onto-branch is deleted afterwards, stashes, tags, deleted branches.
func sqlWorkload(c *rig.Ctx, r *repo, rnd *rand.Rand, variant int) map[string]int {
	soft := map[string]int{}
	try := func(label, q string) {
		if _, err := r.query(q); err != nil {
			soft[label+": "+trunc(err.Error(), 44)]++
		}
	}
	n := 30 + rnd.Intn(40)
	big := func() string { return bigText(rnd, 2600+rnd.Intn(2000)) }
	r.must("set @@dolt_allow_commit_conflicts = 1", "set @@dolt_force_transaction_commit = 1")
	r.must("create table parent (id int primary key, v varchar(20))",
		"insert into parent values (1,'a'),(2,'b'),(3,'c'),(4,'d')",
		"create table t (pk int primary key, c1 int, c2 varchar(40), tx text, js json, key i1 (c1), unique key u2 (c2), constraint fk1 foreign key (c1) references parent(id))",
		"create table k (a int, b varchar(20), note text)",
		"create table seq (id int primary key auto_increment, v varchar(10))")
	for i := 0; i < n; i++ {
		r.must(fmt.Sprintf("insert into t values (%d,%d,'row%d','%s','{\"n\":%d,\"s\":\"%s\"}')", i, 1+i%3, i, big(), i, big()))
		r.must(fmt.Sprintf("insert into k values (%d,'k%d','%s')", i%5, i, bigText(rnd, 20)))
	}
	// rows where only one of several address-capable columns is out of band
	r.must("create table sp (id int primary key, a text, b blob, j json)",
		fmt.Sprintf("insert into sp values (1,'%s','short',null)", bigText(rnd, 6000)),
		"insert into sp values (2,'tiny',null,'{\"a\":1}')")
	r.must("insert into seq (v) values ('x'),('y'),('z')", "call dolt_commit('-Am','base')", "call dolt_tag('v0')")
	for i := 0; i < 3; i++ {
		r.must(fmt.Sprintf("update t set c2 = concat('m%d-', pk) where pk = %d", i, i), fmt.Sprintf("call dolt_commit('-am','main %d')", i))
	}
	r.must("call dolt_tag('v1','HEAD~1','-m','annotated tag')")

	// feature branches (all fork from main)
	mk := func(name string, stmts ...string) {
		r.must("call dolt_checkout('main')", fmt.Sprintf("call dolt_checkout('-b','%s')", name))
		for i, s := range stmts {
			r.must(s, fmt.Sprintf("call dolt_commit('-Am','%s %d')", name, i))
		}
	}
	mk("feat_merge", "update t set c2 = concat('fm-', pk) where pk between 5 and 9", "insert into seq (v) values ('fm')")
	mk("feat_schema", "alter table k modify column b varchar(80) not null default 'zz'")
	mk("feat_cv", fmt.Sprintf("insert into t values (5000,4,'cv-child','%s','{}')", big()), "insert into t values (5001,1,'dupe',null,null)")
	mk("feat_pick", "update t set c2 = concat('p1-', pk) where pk = 10", "update t set c2 = concat('p2-', pk) where pk = 11",
		"update t set c2 = concat('p3-', pk) where pk = 12")
	mk("onto1", "insert into seq (v) values ('onto1')")
	mk("onto2", "update t set c2 = concat('o2-', pk) where pk = 20")
	mk("onto3", "insert into seq (v) values ('onto3')")

	// 1. conflicted merge
	mk("br_merge", "update t set c2 = concat('bm-', pk) where pk between 5 and 9")
	try("merge", "call dolt_merge('feat_merge')")
	// 2. schema conflict
	mk("br_schema", "alter table k modify column b varchar(30)")
	try("schema-merge", "call dolt_merge('feat_schema')")
	// 3. constraint violations (fk parent deleted on our side; unique key collision)
	mk("br_cv", "delete from parent where id = 4", "insert into t values (6000,1,'dupe',null,null)")
	try("cv-merge", "call dolt_merge('feat_cv')")
	// 4. cherry-pick stopped on a conflict (the SQL procedure takes one commit; pending commits come from revert below)
	mk("br_pick", "update t set c2 = concat('bp-', pk) where pk = 10")
	try("cherry-pick", "call dolt_cherry_pick('feat_pick~2')")
	// 5. multi-commit revert interrupted by a conflict
	mk("br_revert", "update t set c2 = 'r1' where pk = 14", "update t set c2 = 'r2' where pk = 15", "update t set c2 = 'r1-again' where pk = 14")
	try("revert", "call dolt_revert('HEAD~2','HEAD~1')")
	// 6. interactive rebase, plan not started
	mk("br_rebase_ns", "update t set c2 = 'rb-ns' where pk = 16", "update t set c2 = 'rb-ns2' where pk = 17")
	try("rebase-i", "call dolt_rebase('-i','onto1')")
	// 7. interactive rebase, started and stopped on a data conflict
	mk("br_rebase_st", "update t set c2 = 'rb-st-ok' where pk = 21", "update t set c2 = 'rb-st-conflict' where pk = 20", "update t set c2 = 'rb-st-after' where pk = 22")
	try("rebase-i", "call dolt_rebase('-i','onto2')")
	try("rebase-continue", "call dolt_rebase('--continue')")
	// 8. rebase not started whose working branch is force-moved away from the onto commit by another session
	if variant%2 == 1 {
		mk("br_rebase_mv", "update t set c2 = 'rb-mv' where pk = 23")
		try("rebase-i", "call dolt_rebase('-i','onto3')")
		r.must("call dolt_checkout('main')")
		try("rebase-mv-force", "call dolt_branch('-f','dolt_rebase_br_rebase_mv','main')")
	}
	// the branches the operations came from are deleted / moved afterwards (a user cleaning up)
	r.must("call dolt_checkout('main')")
	for _, b := range []string{"onto1", "onto2", "onto3", "feat_pick", "feat_merge", "feat_cv", "feat_schema"} {
		if rnd.Intn(4) != 0 || strings.HasPrefix(b, "onto") {
			try("branch-delete", fmt.Sprintf("call dolt_branch('-D','%s')", b))
		}
	}
	// stashes
	for i := 0; i < 2+variant%2; i++ {
		r.must(fmt.Sprintf("update t set c2 = 'stash%d' where pk = 25", i), fmt.Sprintf("insert into k values (99,'stash%d','s')", i))
		try("stash", "call dolt_stash('push','verifstash')")
	}
	r.must("insert into seq (v) values ('dirty')", "create table staged_only (x int primary key)", "call dolt_add('staged_only')")
	return soft
}

// inspectStates reports which of the interesting states the workload actually left behind.
func inspectStates(r *repo) map[string]int {
	out := map[string]int{}
	branches, err := r.ddb.GetBranches(bg)
	rig.Must(err)
	for _, b := range branches {
		out["branches"]++
		wsRef, err := ref.WorkingSetRefForHead(b)
		if err != nil {
			continue
		}
		ws, err := r.ddb.ResolveWorkingSet(bg, wsRef)
		if err != nil {
			continue
		}
		out["workingsets"]++
		if ms := ws.MergeState(); ms != nil {
			out["merge_state."+ms.OperationName()]++
			if ms.PreMergeHeadCommit() != nil {
				out["merge_state.pre_merge_head"]++
			}
			if len(ms.PendingRevertCommitHashes()) > 0 {
				out["merge_state.pending_commits"]++
			}
			if ms.HasSchemaConflicts() {
				out["merge_state.schema_conflicts"]++
			}
		}
		if rs := ws.RebaseState(); rs != nil {
			if rs.RebasingStarted() {
				out["rebase_state.started"]++
			} else {
				out["rebase_state.not_started"]++
			}
		}
	}
	if tags, err := r.ddb.GetTags(bg); err == nil {
		out["tags"] = len(tags)
	}
	if st, err := r.ddb.GetCommandLineStashes(bg); err == nil {
		out["stashes.cli"] = len(st)
	}
	if st, err := r.ddb.GetStashes(bg); err == nil {
		out["stashes"] += len(st)
	}
	return out
}
