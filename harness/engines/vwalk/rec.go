// Package vwalk holds the reference-walker monitors (C09).
package vwalk

import (
	"context"
	"net/url"
	"strings"
	"sync"

	"github.com/dolthub/dolt/go/libraries/doltcore/dbfactory"
	"github.com/dolthub/dolt/go/libraries/doltcore/memlimit"
	"github.com/dolthub/dolt/go/store/blobstore"
	"github.com/dolthub/dolt/go/store/chunks"
	"github.com/dolthub/dolt/go/store/datas"
	"github.com/dolthub/dolt/go/store/hash"
	"github.com/dolthub/dolt/go/store/nbs"
	"github.com/dolthub/dolt/go/store/prolly/tree"
	"github.com/dolthub/dolt/go/store/types"
)

var bg = context.Background()

// readEvent is one address requested from the chunk store by production code.
type readEvent struct {
	Op      string // Get | GetMany | Has | HasMany | GetManyCompressed
	Addr    hash.Hash
	Present bool
}

// recStore is the *recording* chunks.ChunkStore: it embeds the real NomsBlockStore (so that every optional
// interface the production code asserts — GC, table files, … — is still there) and overrides the four read
// entry points. It only records; it never changes an answer.
type recStore struct {
	*nbs.NomsBlockStore
	mu     sync.Mutex
	on     bool
	events []readEvent
}

func (r *recStore) log(op string, h hash.Hash, present bool) {
	r.mu.Lock()
	if r.on {
		r.events = append(r.events, readEvent{op, h, present})
	}
	r.mu.Unlock()
}

func (r *recStore) Get(ctx context.Context, h hash.Hash) (chunks.Chunk, error) {
	c, err := r.NomsBlockStore.Get(ctx, h)
	if err == nil {
		r.log("Get", h, !c.IsEmpty())
	}
	return c, err
}

func (r *recStore) GetMany(ctx context.Context, hashes hash.HashSet, found func(context.Context, *chunks.Chunk)) error {
	req := hashes.Copy()
	var fmu sync.Mutex
	got := hash.HashSet{}
	err := r.NomsBlockStore.GetMany(ctx, hashes, func(ctx context.Context, c *chunks.Chunk) {
		fmu.Lock()
		got.Insert(c.Hash())
		fmu.Unlock()
		found(ctx, c)
	})
	if err == nil {
		for h := range req {
			r.log("GetMany", h, got.Has(h))
		}
	}
	return err
}

func (r *recStore) GetManyCompressed(ctx context.Context, hashes hash.HashSet, found func(context.Context, nbs.ToChunker)) error {
	req := hashes.Copy()
	var fmu sync.Mutex
	got := hash.HashSet{}
	err := r.NomsBlockStore.GetManyCompressed(ctx, hashes, func(ctx context.Context, c nbs.ToChunker) {
		fmu.Lock()
		got.Insert(c.Hash())
		fmu.Unlock()
		found(ctx, c)
	})
	if err == nil {
		for h := range req {
			r.log("GetManyCompressed", h, got.Has(h))
		}
	}
	return err
}

func (r *recStore) Has(ctx context.Context, h hash.Hash) (bool, error) {
	ok, err := r.NomsBlockStore.Has(ctx, h)
	if err == nil {
		r.log("Has", h, ok)
	}
	return ok, err
}

func (r *recStore) HasMany(ctx context.Context, hashes hash.HashSet) (hash.HashSet, error) {
	req := hashes.Copy()
	absent, err := r.NomsBlockStore.HasMany(ctx, hashes)
	if err == nil {
		for h := range req {
			r.log("HasMany", h, !absent.Has(h))
		}
	}
	return absent, err
}

// begin starts a recording session (dropping whatever was recorded before).
func (r *recStore) begin() {
	r.mu.Lock()
	r.on = true
	r.events = nil
	r.mu.Unlock()
}

// end stops recording and returns the session's events in request order.
func (r *recStore) end() []readEvent {
	r.mu.Lock()
	defer r.mu.Unlock()
	r.on = false
	ev := r.events
	r.events = nil
	return ev
}

// raw reads a chunk without recording (used by the oracle itself).
func (r *recStore) raw(h hash.Hash) (chunks.Chunk, bool) {
	c, err := r.NomsBlockStore.Get(bg, h)
	if err != nil || c.IsEmpty() {
		return chunks.EmptyChunk, false
	}
	return c, true
}

// recFactory replaces dolt's in-memory DBFactory ("mem://…", the one dtestutils environments use): same
// construction as dbfactory.MemFactory, but the NomsBlockStore is wrapped in a recStore, and loading the same
// URL again yields a *fresh* ValueStore / NodeStore / datas.Database over the same store (cold caches).
type recFactory struct {
	mu     sync.Mutex
	stores map[string]*recStore
}

var theFactory = &recFactory{stores: map[string]*recStore{}}

func installFactory() { dbfactory.DBFactories[dbfactory.MemScheme] = theFactory }

func (f *recFactory) PrepareDB(ctx context.Context, nbf *types.NomsBinFormat, u *url.URL, params map[string]interface{}) error {
	return nil
}

func (f *recFactory) store(ctx context.Context, nbf *types.NomsBinFormat, key string) (*recStore, error) {
	f.mu.Lock()
	defer f.mu.Unlock()
	if s, ok := f.stores[key]; ok {
		return s, nil
	}
	bs := blobstore.NewInMemoryBlobstore(key)
	st, err := nbs.NewBSStore(ctx, nbf.VersionString(), bs, memlimit.MemtableSize(), nbs.NewUnlimitedMemQuotaProvider())
	if err != nil {
		return nil, err
	}
	s := &recStore{NomsBlockStore: st}
	f.stores[key] = s
	return s, nil
}

func (f *recFactory) forget(key string) {
	f.mu.Lock()
	delete(f.stores, key)
	f.mu.Unlock()
}

func (f *recFactory) CreateDB(ctx context.Context, nbf *types.NomsBinFormat, u *url.URL, params map[string]interface{}) (datas.Database, types.ValueReadWriter, tree.NodeStore, error) {
	s, err := f.store(ctx, nbf, strings.Trim(u.Host+u.Path, "/"))
	if err != nil {
		return nil, nil, nil, err
	}
	vrw := types.NewValueStore(s)
	ns := tree.NewNodeStore(s)
	return datas.NewTypesDatabase(vrw, ns), vrw, ns, nil
}
