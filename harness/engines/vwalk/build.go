package vwalk

import (
	"fmt"

	"github.com/dolthub/go-mysql-server/sql"

	"github.com/dolthub/dolt/go/libraries/doltcore/doltdb"
	"github.com/dolthub/dolt/go/libraries/doltcore/ref"
	"github.com/dolthub/dolt/go/libraries/doltcore/schema"
	"github.com/dolthub/dolt/go/store/datas"
	"github.com/dolthub/dolt/go/store/hash"
	"github.com/dolthub/dolt/go/store/types"

	"verif/rig"
)

// syn builds objects through the production writers (DoltDB API) such that every address-valued field can be given
// its own, otherwise unreferenced, real chunk: distinct root values (a table whose name and column carry the
// label, so root value, table and schema chunks are all distinct) and distinct dangling commits.
type syn struct {
	r      *repo
	base   doltdb.RootValue
	n      uint64
	labels map[hash.Hash]string
}

func newSyn(r *repo) *syn {
	cm, err := r.ddb.ResolveCommitRef(bg, ref.NewBranchRef("main"))
	rig.Must(err)
	root, err := cm.GetRootValue(bg)
	rig.Must(err)
	return &syn{r: r, base: root, labels: map[hash.Hash]string{}}
}

func (s *syn) mainHead() *doltdb.Commit {
	cm, err := s.r.ddb.ResolveCommitRef(bg, ref.NewBranchRef("main"))
	rig.Must(err)
	return cm
}

// root returns a distinct root value, written to the store.
func (s *syn) root(label string) doltdb.RootValue {
	s.n++
	name := fmt.Sprintf("t_%s_%d", label, s.n)
	sch := schema.MustSchemaFromCols(schema.NewColCollection(
		schema.NewColumn("pk", 10000+s.n*2, types.IntKind, true, schema.NotNullConstraint{}),
		schema.NewColumn("c_"+name, 10001+s.n*2, types.IntKind, false),
	))
	root, err := doltdb.CreateEmptyTable(bg, s.base, doltdb.TableName{Name: name}, sch)
	rig.Must(err)
	root, h, err := s.r.ddb.WriteRootValue(bg, root)
	rig.Must(err)
	s.labels[h] = label
	return root
}

// commit returns a distinct dangling commit (own distinct root value).
func (s *syn) commit(label string, parents ...*doltdb.Commit) *doltdb.Commit {
	root := s.root(label + ".root")
	h, err := root.HashOf()
	rig.Must(err)
	meta, err := datas.NewCommitMeta("v", "v@v", "commit "+label)
	rig.Must(err)
	if len(parents) == 0 {
		parents = []*doltdb.Commit{s.mainHead()} // the writer refuses parentless commits
	}
	cm, err := s.r.ddb.CommitDanglingWithParentCommits(bg, h, parents, meta)
	rig.Must(err)
	ch, err := cm.HashOf()
	rig.Must(err)
	s.labels[ch] = label
	return cm
}

// wsShape is one point of the working-set optional-field space.
type wsShape struct {
	Merge      string // "" | merge | cherrypick | revert
	PreHead    bool   // merge_state.pre_merge_head_commit_addr populated
	Pending    bool   // merge_state.pending_commit_hashes populated (revert only has a production writer for it)
	Unmergable bool   // merge_state.unmergable_tables populated (schema conflicts)
	Rebase     string // "" | notstarted | started
}

func (w wsShape) String() string {
	return fmt.Sprintf("merge=%s,prehead=%v,pending=%v,unmergable=%v,rebase=%s", w.Merge, w.PreHead, w.Pending, w.Unmergable, w.Rebase)
}

func allWsShapes() []wsShape {
	var out []wsShape
	for _, rb := range []string{"", "notstarted", "started"} {
		out = append(out, wsShape{Rebase: rb})
		for _, m := range []string{"merge", "cherrypick", "revert"} {
			for _, ph := range []bool{false, true} {
				for _, un := range []bool{false, true} {
					pend := []bool{false}
					if m == "revert" {
						pend = []bool{false, true}
					}
					for _, p := range pend {
						out = append(out, wsShape{Merge: m, PreHead: ph, Pending: p, Unmergable: un, Rebase: rb})
					}
				}
			}
		}
	}
	return out
}

// buildWorkingSet writes a working set of the given shape under refs "workingSets/heads/<name>" through
// DoltDB.UpdateWorkingSet (-> WorkingSet.writeValues -> datas.newWorkingSet -> workingset_flatbuffer).
func (s *syn) buildWorkingSet(name string, sh wsShape) ref.WorkingSetRef {
	wsRef := ref.NewWorkingSetRef("heads/" + name)
	working := s.root("working_root")
	staged := s.root("staged_root")
	ws := doltdb.EmptyWorkingSet(wsRef).WithWorkingRoot(s.root("merge_state.pre_working_root")).WithStagedRoot(staged)
	var pending []string
	if sh.Pending {
		for i := 0; i < 2; i++ {
			h, err := s.commit(fmt.Sprintf("merge_state.pending_commit_hashes[%d]", i)).HashOf()
			rig.Must(err)
			pending = append(pending, h.String())
		}
	}
	var head *doltdb.Commit
	if sh.PreHead {
		head = s.commit("merge_state.pre_merge_head_commit")
	}
	switch sh.Merge {
	case "merge":
		ws = ws.StartMerge(head, s.commit("merge_state.from_commit"), "other")
	case "cherrypick":
		ws = ws.StartCherryPick(head, s.commit("merge_state.from_commit"), "other~1")
	case "revert":
		ws = ws.StartRevert(head, s.commit("merge_state.from_commit"), "HEAD~2", pending)
	}
	if sh.Merge != "" && sh.Unmergable {
		ws = ws.WithUnmergableTables([]doltdb.TableName{{Name: "t_unmergable"}})
	}
	if sh.Rebase != "" {
		var err error
		ws, err = ws.StartRebase(sql.NewEmptyContext(), s.commit("rebase_state.onto_commit"), "feature",
			s.root("rebase_state.pre_working_root"), doltdb.EmptyCommitHandling(0), doltdb.EmptyCommitHandling(1), false)
		rig.Must(err)
		if sh.Rebase == "started" {
			ws = ws.WithRebaseState(ws.RebaseState().WithRebasingStarted(true).WithLastAttemptedStep(2.0))
		}
	}
	ws = ws.WithWorkingRoot(working).WithStagedRoot(staged)
	rig.Must(s.r.ddb.UpdateWorkingSet(bg, wsRef, ws, hash.Hash{}, doltdb.TodoWorkingSetMeta(), nil))
	return wsRef
}
