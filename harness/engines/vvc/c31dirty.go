package vvc

import (
	"fmt"
	"math/rand"
	"sort"
	"strings"

	"verif/rig"
	"verif/sqlrig"
)

// C31 with a DIRTY working set. dolt_revert proceeds when the uncommitted changes are unstaged and disjoint from the
// tables the reverted commit touches (dirtyTablesConflictWithRevert) or are brand-new tables; dolt_cherry_pick proceeds
// only when the working set holds nothing but dolt_ignore'd new tables (WorkingSetContainsOnlyIgnoredTables). Everything
// else is refused. Asserted:
//   (a) the NEW COMMIT (read AS OF 'HEAD', every table, and the table list) holds exactly the model merge: the merge result
//       for the tables C touches and the previous HEAD's data for every other table - no uncommitted edit, no new table;
//   (b) the uncommitted edits are still in the working set (working == model merge + the edits) and dolt_status reports
//       exactly what it reported before the operation;
//   (c) after a conflict stop and --abort: HEAD, working set and dolt_status are those from before the operation;
//   refusal / error => HEAD, working set and dolt_status unchanged.

// touchedTables lists the tables whose contents differ between parent(C) and C.
func (h *c31Hist) touchedTables(c int) map[string]bool {
	out := map[string]bool{}
	C, P := h.Commits[c].Snap, h.Commits[h.parent(c)].Snap
	for _, n := range h.Tables {
		if !tableEq(C[n], P[n]) {
			out[n] = true
		}
	}
	return out
}

func genC31DirtyOps(r *rand.Rand, h *c31Hist) []c31Op {
	var ops []c31Op
	n := len(h.Commits)
	tips := []int{h.Tips["main"]}
	if b, ok := h.Tips["br"]; ok {
		tips = append(tips, b)
	}
	seq := int64(900000)
	val := func(c sqlrig.Col) string {
		seq++
		if strings.HasPrefix(c.Type, "int") {
			return fmt.Sprint(seq)
		}
		return fmt.Sprintf("d%d", seq)
	}
	// editTable returns the statements of an uncommitted edit of table t (as it is at commit T) and the resulting contents.
	editTable := func(t *sqlrig.Table) ([]string, *sqlrig.Table) {
		nt := t.Clone()
		var sql []string
		pk := 9000 + seq%1000
		row := make([]string, len(nt.Cols))
		lits := []string{fmt.Sprint(pk)}
		for i, c := range nt.Cols {
			row[i] = val(c)
			lits = append(lits, sqlrig.SQLLit(row[i]))
		}
		nt.Rows[pk] = row
		sql = append(sql, fmt.Sprintf("insert into `%s` values (%s)", nt.Name, strings.Join(lits, ", ")))
		if pks := nt.PKs(); len(pks) > 1 && r.Intn(2) == 0 {
			k := pks[r.Intn(len(pks)-1)]
			v := val(nt.Cols[0])
			nt.Rows[k][0] = v
			sql = append(sql, fmt.Sprintf("update `%s` set `%s` = %s where pk = %d", nt.Name, nt.Cols[0].Name, sqlrig.SQLLit(v), k))
		}
		return sql, nt
	}
	newTable := func(name string) ([]string, *sqlrig.Table) {
		t := &sqlrig.Table{Name: name, Cols: []sqlrig.Col{{Name: "c0", Type: "int"}}, Rows: map[int64][]string{}}
		sql := []string{t.CreateSQL()}
		for k := int64(1); k <= 2; k++ {
			v := val(t.Cols[0])
			t.Rows[k] = []string{v}
			sql = append(sql, fmt.Sprintf("insert into `%s` values (%d, %s)", name, k, sqlrig.SQLLit(v)))
		}
		return sql, t
	}
	pickW := func(names []string, weights []int) string {
		tot := 0
		for _, w := range weights {
			tot += w
		}
		k := r.Intn(tot)
		for i, w := range weights {
			if k < w {
				return names[i]
			}
			k -= w
		}
		return names[0]
	}
	for k := 0; k < 10 && n > 1; k++ {
		op := c31Op{C: 1 + r.Intn(n-1), Tx: r.Intn(2) == 0}
		if r.Intn(10) < 6 {
			op.Kind = "revert"
			op.T = []int{op.C, tips[r.Intn(len(tips))], r.Intn(n)}[r.Intn(3)]
			op.Dirty = pickW([]string{"unstaged-other", "untracked-new", "ignored-new", "staged-other", "unstaged-touched"}, []int{4, 3, 1, 1, 1})
		} else {
			op.Kind = "cherry-pick"
			op.T = []int{h.parent(op.C), tips[r.Intn(len(tips))], r.Intn(n)}[r.Intn(3)]
			op.Dirty = pickW([]string{"ignored-new", "unstaged-other", "untracked-new", "staged-other"}, []int{4, 1, 1, 1})
		}
		touched := h.touchedTables(op.C)
		var other, tch []string
		for _, t := range h.Tables {
			if touched[t] {
				tch = append(tch, t)
			} else {
				other = append(other, t)
			}
		}
		if (op.Dirty == "unstaged-other" || op.Dirty == "staged-other") && len(other) == 0 {
			op.Dirty = "untracked-new" // C touches every table: the only disjoint dirt is a new table
		}
		T := h.Commits[op.T].Snap
		switch op.Dirty {
		case "unstaged-other":
			op.DirtySQL, op.DirtyTab = editTable(T[other[r.Intn(len(other))]])
		case "staged-other":
			op.DirtySQL, op.DirtyTab = editTable(T[other[r.Intn(len(other))]])
			op.DirtySQL = append(op.DirtySQL, "call dolt_add('"+op.DirtyTab.Name+"')")
		case "unstaged-touched":
			op.DirtySQL, op.DirtyTab = editTable(T[tch[r.Intn(len(tch))]])
		case "untracked-new":
			op.DirtySQL, op.NewTab = newTable("zz_new")
		case "ignored-new":
			// the ignore pattern itself must be committed first (an uncommitted dolt_ignore is a change like any other)
			sql, t := newTable("ign_new")
			op.DirtySQL = append([]string{"insert into dolt_ignore values ('ign_%', true)", "call dolt_commit('-Am','ignore pattern')"}, sql...)
			op.NewTab = t
		}
		ops = append(ops, op)
	}
	return ops
}

// checkAsOfHead compares the committed root of the current branch (table list and every table) with want.
func checkAsOfHead(x *sqlrig.Session, want snap) string {
	var diffs []string
	r, err := x.Query("show tables as of 'HEAD'")
	if err != nil {
		return "show tables as of 'HEAD': " + err.Error()
	}
	var got []string
	for _, row := range r.Data {
		got = append(got, row[0])
	}
	sort.Strings(got)
	if g, w := strings.Join(got, ","), strings.Join(want.names(), ","); g != w {
		diffs = append(diffs, fmt.Sprintf("tables in the commit: [%s], expected [%s]", g, w))
	}
	for _, n := range want.names() {
		rows, err := readTable(x, "`"+n+"` as of 'HEAD'")
		if err != nil {
			diffs = append(diffs, n+": "+err.Error())
			continue
		}
		if g, w := strings.Join(rows, "\n"), strings.Join(want[n].SortedRows(), "\n"); g != w {
			diffs = append(diffs, fmt.Sprintf("%s as of HEAD: got %q want %q", n, rows, want[n].SortedRows()))
		}
	}
	return strings.Join(diffs, " ; ")
}

func statusOf(x *sqlrig.Session) (string, error) {
	r, err := x.Query("select table_name, staged, status from dolt_status")
	if err != nil {
		return "", err
	}
	return strings.Join(r.Sorted(), " | "), nil
}

func c31DirtyPickRevert(c *rig.Ctx, x *sqlrig.Session, h *c31Hist, op c31Op, shape snap, st *tally, viol violFn) {
	C, P, T := h.Commits[op.C].Snap, h.Commits[h.parent(op.C)].Snap, h.Commits[op.T].Snap
	proc := "dolt_cherry_pick"
	var want snap
	var confs map[string][]sqlrig.Conflict
	if op.Kind == "cherry-pick" {
		want, confs = mergeSnap(P, T, C)
	} else {
		want, confs = mergeSnap(C, T, P)
		proc = "dolt_revert"
	}
	key := "c31/" + op.Kind + "-dirty"
	st.inc("c31.dirty_ops")
	st.inc("c31.dirty." + op.Kind + "." + op.Dirty)
	// withDirt adds the uncommitted edits to a committed state
	withDirt := func(s snap) snap {
		out := s.clone()
		if op.DirtyTab != nil {
			out[op.DirtyTab.Name] = op.DirtyTab.Clone()
		}
		if op.NewTab != nil {
			out[op.NewTab.Name] = op.NewTab.Clone()
		}
		return out
	}
	for _, q := range op.DirtySQL {
		if err := x.Exec(q); err != nil {
			viol("c31/setup", "cannot make the working set dirty: "+q+": "+err.Error(), op, nil)
			return
		}
	}
	headBefore, err := x.Scalar("select hashof('HEAD')")
	rig.Must(err)
	statusBefore, err := statusOf(x)
	rig.Must(err)
	if op.Dirty != "ignored-new" && statusBefore == "" {
		viol("c31/harness", "the dirty edits are not reported by dolt_status", op, nil)
		return
	}
	if d := checkSnap(x, "", "", withDirt(T)); d != "" {
		viol("c31/harness", "working set before the operation is not HEAD + the dirty edits: "+d, op, nil)
		return
	}
	allowed := op.Dirty == "ignored-new" || (op.Kind == "revert" && (op.Dirty == "unstaged-other" || op.Dirty == "untracked-new"))
	unchanged := func(when string) {
		if hb, _ := x.Scalar("select hashof('HEAD')"); hb != headBefore {
			viol(key+"/"+when+"/head-moved", fmt.Sprintf("HEAD moved from %s to %s", headBefore, hb), op, nil)
		}
		if d := checkSnap(x, "", "", withDirt(T)); d != "" {
			viol(key+"/"+when+"/working", "the working set is no longer HEAD + the uncommitted edits: "+d, op, nil)
		}
		if s, _ := statusOf(x); s != statusBefore {
			viol(key+"/"+when+"/status", fmt.Sprintf("dolt_status changed from %q to %q", statusBefore, s), op, nil)
		}
	}
	if allowed && len(confs) > 0 {
		if op.Tx {
			rig.Must(x.Exec("set autocommit = 0"))
		} else {
			rig.Must(x.Exec("set @@dolt_allow_commit_conflicts = 1"))
		}
	}
	restore := func() {
		x.Exec("set autocommit = 1")
		x.Exec("set @@dolt_allow_commit_conflicts = 0")
	}
	defer restore()
	res, err := x.Query(fmt.Sprintf("call %s('%s')", proc, h.Commits[op.C].Hash))
	noop := snapEq(want, T) && len(confs) == 0
	if err != nil {
		if op.Tx {
			x.Exec("rollback")
		}
		switch {
		case sqlrig.IsInternalError(err):
			viol(key+"/internal-error", proc+" failed internally: "+err.Error(), op, nil)
		case allowed && !noop:
			viol(key+"/unexpected-error", proc+" refused a working set whose uncommitted changes are disjoint from the commit (allowed per the code): "+err.Error(), op, nil)
		}
		st.inc("c31.dirty_refused_or_noop")
		unchanged("refused")
		c.Distinct(fmt.Sprintf("dirty/%s/%s/refused", op.Kind, op.Dirty))
		return
	}
	if !allowed {
		// dolt accepted a dirty state the code says it refuses: the statement does not define the outcome; count it only
		st.inc("c31.dirty_unexpectedly_accepted")
		return
	}
	gotConf := "0"
	if len(res.Data) == 1 && len(res.Data[0]) >= 2 {
		gotConf = res.Data[0][1]
	}
	if gotConf != fmt.Sprint(len(confs)) {
		viol(key+"/conflict-count", fmt.Sprintf("%s reported %s tables with data conflicts, the model predicts %d", proc, gotConf, len(confs)), op, map[string]any{"result": res.Data})
	}
	if len(confs) > 0 {
		st.inc("c31.dirty_conflict_stops")
		if d := checkSnap(x, "", "", withDirt(want)); d != "" {
			viol(key+"/data-at-stop", "working set at the conflict stop differs from model merge + uncommitted edits: "+d, op, nil)
		}
		if d := checkConflicts(x, shape, confs); d != "" {
			viol(key+"/conflicts", "conflict tables differ from the model conflict set: "+d, op, nil)
		}
		if d := checkAsOfHead(x, T); d != "" {
			viol(key+"/commit-at-stop", "HEAD changed although the operation stopped with conflicts: "+d, op, nil)
		}
		if _, err := x.Query(fmt.Sprintf("call %s('--abort')", proc)); err != nil {
			viol(key+"/abort-error", "--abort failed: "+err.Error(), op, nil)
		}
		if op.Tx {
			if err := x.Exec("commit"); err != nil {
				viol(key+"/abort-commit", "commit after --abort failed: "+err.Error(), op, nil)
			}
		}
		restore()
		if op.Kind == "revert" && checkSnap(x, "", "", T) == "" {
			// finding class: after the abort the working set is exactly the clean pre-operation HEAD - the uncommitted edits were wiped
			viol(key+"/abort/uncommitted-edits-lost", fmt.Sprintf("after %s('--abort') the working set equals HEAD: the uncommitted edits that %s accepted (dolt_status before: %q) are gone", proc, proc, statusBefore), op, nil)
		} else {
			unchanged("abort")
		}
		st.inc("c31.dirty_aborts")
		c.Distinct(fmt.Sprintf("dirty/%s/%s/conflict-abort", op.Kind, op.Dirty))
		return
	}
	// success: (a) the new commit, (b) the working set and dolt_status
	st.inc("c31.dirty_accepted")
	st.inc("c31.dirty_accepted." + op.Kind + "." + op.Dirty)
	if hb, _ := x.Scalar("select hashof('HEAD')"); hb == headBefore && !noop {
		viol(key+"/no-commit", proc+" reported success but HEAD did not move", op, nil)
	}
	if d := checkAsOfHead(x, want); d != "" {
		viol(key+"/commit-data", fmt.Sprintf("the commit made by %s with a dirty working set does not hold exactly the model merge (uncommitted edits of unrelated tables must stay out of it): %s", proc, d), op, nil)
	}
	if d := checkSnap(x, "", "", withDirt(want)); d != "" {
		viol(key+"/working", "working set after the operation differs from model merge + the uncommitted edits: "+d, op, nil)
	}
	if s, _ := statusOf(x); s != statusBefore {
		viol(key+"/status", fmt.Sprintf("dolt_status before %q, after %q: the uncommitted edits must still be reported exactly as before", statusBefore, s), op, nil)
	}
	c.Distinct(fmt.Sprintf("dirty/%s/%s/ok", op.Kind, op.Dirty))
}
