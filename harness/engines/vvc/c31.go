package vvc

import (
	"fmt"
	"math/rand"
	"sort"
	"strings"

	"verif/rig"
	"verif/sqlrig"
)

// ---------------------------------------------------------------------------------------------------------
// C31  Cherry-pick, revert and rebase obey their merge definitions
// ---------------------------------------------------------------------------------------------------------

// c31Hist is a generated history of row edits over 1-2 tables: a linear main and (usually) one side branch.
type c31Hist struct {
	DB       string
	Steps    []step
	Commits  []*commitRec // index 0 is the first commit that has the tables (its parent is dolt's init commit)
	Tips     map[string]int
	Tables   []string
	fpBudget int // how many conflict stops of this history still get the (expensive) full fingerprint around --abort
}

func (h *c31Hist) parent(i int) int { return h.Commits[i].Parents[0] }

// ancestors returns the set of commits reachable from i (inclusive).
func (h *c31Hist) ancestors(i int) map[int]bool {
	out := map[int]bool{}
	for ; i >= 0; i = h.parent(i) {
		out[i] = true
		if len(h.Commits[i].Parents) == 0 || h.Commits[i].Parents[0] < 0 {
			break
		}
	}
	return out
}

func genC31Hist(r *rand.Rand, db string) *c31Hist {
	g := sqlrig.NewGen(r, "v")
	h := &c31Hist{DB: db, Tips: map[string]int{}}
	add := func(sql string) { h.Steps = append(h.Steps, step{SQL: sql, Commit: -1}) }
	cur := snap{}
	ntab := 1 + r.Intn(2)
	pool := 4 + r.Intn(4)
	for i := 0; i < ntab; i++ {
		t := g.NewTable(fmt.Sprintf("t%d", i), 1+r.Intn(3))
		h.Tables = append(h.Tables, t.Name)
		cur[t.Name] = t
		add(t.CreateSQL())
		for k := 0; k < pool; k++ {
			if r.Intn(3) != 0 {
				add(g.InsertSQL(t, int64(k)))
			}
		}
	}
	commit := func(branch string, parent int) int {
		idx := len(h.Commits)
		msg := fmt.Sprintf("c%d", idx)
		h.Commits = append(h.Commits, &commitRec{Idx: idx, Parents: []int{parent}, Snap: cur.clone(), Msg: msg, Branch: branch})
		h.Steps = append(h.Steps, step{SQL: fmt.Sprintf("call dolt_commit('-Am','%s')", msg), Commit: idx})
		h.Tips[branch] = idx
		return idx
	}
	commit("main", -1)
	n := 3 + r.Intn(8) // 3..10 commits
	branchAt := -1
	if r.Intn(10) < 7 {
		branchAt = r.Intn(n - 1)
	}
	onBranch := "main"
	work := map[string]snap{"main": cur}
	for len(h.Commits) < n {
		want := "main"
		if _, ok := h.Tips["br"]; ok && r.Intn(2) == 0 {
			want = "br"
		}
		if _, ok := h.Tips["br"]; !ok && branchAt >= 0 && len(h.Commits) > branchAt {
			// fork the side branch at commit branchAt
			add(fmt.Sprintf("call dolt_branch('br','{c%d}')", branchAt))
			h.Tips["br"] = branchAt
			work["br"] = h.Commits[branchAt].Snap.clone()
			want = "br"
		}
		if want != onBranch {
			add(fmt.Sprintf("call dolt_checkout('%s')", want))
			onBranch = want
		}
		cur = work[onBranch]
		before := cur.clone()
		nd := 1 + r.Intn(4)
		for k := 0; k < nd || snapEq(before, cur); k++ {
			t := cur[h.Tables[r.Intn(len(h.Tables))]]
			add(g.DML(t, pool))
		}
		commit(onBranch, h.Tips[onBranch])
	}
	if onBranch != "main" {
		add("call dolt_checkout('main')")
	}
	return h
}

// mergeSnap is the table-by-table three-way model merge (row edits only: the three snaps have the same tables).
func mergeSnap(base, ours, theirs snap) (snap, map[string][]sqlrig.Conflict) {
	out := snap{}
	confs := map[string][]sqlrig.Conflict{}
	for n := range ours {
		m, c := sqlrig.Merge3(base[n], ours[n], theirs[n])
		out[n] = m
		if len(c) > 0 {
			confs[n] = c
		}
	}
	return out, confs
}

// resolveTheirs applies "theirs" to the conflicted rows of a merged snap.
func resolveTheirs(merged snap, confs map[string][]sqlrig.Conflict) snap {
	out := merged.clone()
	for n, cs := range confs {
		for _, cf := range cs {
			if cf.Theirs == nil {
				delete(out[n].Rows, cf.PK)
			} else {
				out[n].Rows[cf.PK] = append([]string(nil), cf.Theirs...)
			}
		}
	}
	return out
}

func conflictWant(t *sqlrig.Table, conf []sqlrig.Conflict) []string {
	var want []string
	for _, cf := range conf {
		var parts []string
		for _, row := range [][]string{cf.Base, cf.Ours, cf.Theirs} {
			if row == nil {
				parts = append(parts, sqlrig.Null)
				for range t.Cols {
					parts = append(parts, sqlrig.Null)
				}
			} else {
				parts = append(parts, fmt.Sprint(cf.PK))
				parts = append(parts, row...)
			}
		}
		want = append(want, strings.Join(parts, "\x1f"))
	}
	sort.Strings(want)
	return want
}

func conflictCols(t *sqlrig.Table) string {
	var cols []string
	for _, p := range []string{"base_", "our_", "their_"} {
		cols = append(cols, p+"pk")
		for _, col := range t.Cols {
			cols = append(cols, p+col.Name)
		}
	}
	return strings.Join(cols, ", ")
}

// checkConflicts compares dolt_conflicts_<t> of every table with the model conflict sets.
func checkConflicts(x *sqlrig.Session, shape snap, confs map[string][]sqlrig.Conflict) string {
	var diffs []string
	for _, n := range shape.names() {
		want := conflictWant(shape[n], confs[n])
		if len(want) == 0 {
			cnt, err := x.Scalar("select count(*) from dolt_conflicts where `table` = '" + n + "'")
			if err != nil || cnt != "0" {
				diffs = append(diffs, fmt.Sprintf("%s: model has no conflict but dolt_conflicts lists the table (%v %v)", n, cnt, err))
			}
			continue
		}
		r, err := x.Query("select " + conflictCols(shape[n]) + " from dolt_conflicts_" + n)
		if err != nil {
			diffs = append(diffs, n+": "+err.Error())
			continue
		}
		if g, w := strings.Join(r.Sorted(), "\n"), strings.Join(want, "\n"); g != w {
			diffs = append(diffs, fmt.Sprintf("%s: conflicts got %q want %q", n, r.Sorted(), want))
		}
	}
	return strings.Join(diffs, " ; ")
}

// planStep is one row of an edited rebase plan.
type planStep struct {
	Commit int
	Action string // pick | drop | squash | fixup | reword
}

// c31Op is one operation under test, run on a fresh branch "op" created at commit T.
type c31Op struct {
	Kind     string // cherry-pick | revert | revert-multi | rebase
	C        int
	T        int
	Cs       []int  // revert-multi: commits in the order given to dolt_revert
	Resolve  string // revert-multi: ours | theirs
	Tx       bool   // run the conflicting procedure with autocommit=0 instead of @@dolt_allow_commit_conflicts
	Upstream int
	Default  []int // rebase: expected default plan
	Plan     []planStep
	// dirty working set variants (see c31dirty.go): the uncommitted edits made before the operation and their model
	Dirty    string        // "" | unstaged-other | untracked-new | ignored-new | staged-other | unstaged-touched
	DirtySQL []string      // statements that make the working set dirty (logged with the case)
	DirtyTab *sqlrig.Table // expected working contents of the edited tracked table (nil: none)
	NewTab   *sqlrig.Table // expected contents of the brand-new (untracked or ignored) table (nil: none)
}

func (o c31Op) String() string {
	switch o.Kind {
	case "rebase":
		var p []string
		for _, s := range o.Plan {
			p = append(p, fmt.Sprintf("%s c%d", s.Action, s.Commit))
		}
		return fmt.Sprintf("rebase branch@c%d onto c%d plan[%s]", o.T, o.Upstream, strings.Join(p, ", "))
	case "revert-multi":
		return fmt.Sprintf("revert %v on c%d resolve=%s", o.Cs, o.T, o.Resolve)
	}
	if o.Dirty != "" {
		return fmt.Sprintf("%s c%d on c%d tx=%v dirty=%s %q", o.Kind, o.C, o.T, o.Tx, o.Dirty, o.DirtySQL)
	}
	return fmt.Sprintf("%s c%d on c%d tx=%v", o.Kind, o.C, o.T, o.Tx)
}

func genC31Ops(r *rand.Rand, h *c31Hist, thorough bool) []c31Op {
	var ops []c31Op
	n := len(h.Commits)
	tips := []int{h.Tips["main"]}
	if b, ok := h.Tips["br"]; ok {
		tips = append(tips, b)
	}
	seen := map[string]bool{}
	add := func(o c31Op) {
		k := o.String()
		if !seen[k] {
			seen[k] = true
			ops = append(ops, o)
		}
	}
	for c := 1; c < n; c++ { // every commit with a parent that has the tables is tried as C
		add(c31Op{Kind: "cherry-pick", C: c, T: h.parent(c)})
		add(c31Op{Kind: "cherry-pick", C: c, T: tips[r.Intn(len(tips))], Tx: r.Intn(2) == 0})
		add(c31Op{Kind: "cherry-pick", C: c, T: r.Intn(n), Tx: r.Intn(2) == 0})
		add(c31Op{Kind: "revert", C: c, T: c})
		add(c31Op{Kind: "revert", C: c, T: tips[r.Intn(len(tips))], Tx: r.Intn(2) == 0})
		add(c31Op{Kind: "revert", C: c, T: r.Intn(n), Tx: r.Intn(2) == 0})
	}
	// multi-commit reverts with --continue: only series in which no step is a no-op in the model
	for k := 0; k < 3; k++ {
		t := tips[r.Intn(len(tips))]
		var cs []int
		for _, c := range r.Perm(n) {
			if c > 0 && len(cs) < 2+r.Intn(2) {
				cs = append(cs, c)
			}
		}
		cur := h.Commits[t].Snap
		ok := len(cs) >= 2
		res := []string{"ours", "theirs"}[r.Intn(2)]
		for _, c := range cs {
			m, cf := mergeSnap(h.Commits[c].Snap, cur, h.Commits[h.parent(c)].Snap)
			if len(cf) > 0 && res == "theirs" {
				m = resolveTheirs(m, cf)
			}
			if snapEq(m, cur) && len(cf) == 0 {
				ok = false
			}
			cur = m
		}
		if ok {
			add(c31Op{Kind: "revert-multi", T: t, Cs: cs, Resolve: res})
		}
	}
	// rebase plans
	nreb := 4
	if thorough {
		nreb = 10
	}
	for k := 0; k < nreb; k++ {
		x := tips[r.Intn(len(tips))]
		if r.Intn(4) == 0 {
			x = r.Intn(n)
		}
		u := r.Intn(n)
		au := h.ancestors(u)
		var def []int
		for i := range h.ancestors(x) {
			if !au[i] {
				def = append(def, i)
			}
		}
		sort.Ints(def)
		if len(def) == 0 || len(def) > 5 {
			continue
		}
		// edited plan: a permutation (usually identity or one swap) with actions
		order := append([]int(nil), def...)
		switch r.Intn(4) {
		case 0:
			r.Shuffle(len(order), func(i, j int) { order[i], order[j] = order[j], order[i] })
		case 1:
			if len(order) > 1 {
				i := r.Intn(len(order) - 1)
				order[i], order[i+1] = order[i+1], order[i]
			}
		}
		var plan []planStep
		seenPick := false
		for _, cidx := range order {
			acts := []string{"pick", "pick", "drop", "reword"}
			if seenPick {
				acts = append(acts, "squash", "squash", "fixup", "fixup")
			}
			a := acts[r.Intn(len(acts))]
			if a == "pick" || a == "reword" {
				seenPick = true
			}
			plan = append(plan, planStep{Commit: cidx, Action: a})
		}
		add(c31Op{Kind: "rebase", T: x, Upstream: u, Default: def, Plan: plan})
	}
	return ops
}

func c31(c *rig.Ctx) {
	c.Rule("seeded histories of 3-10 commits of row edits (1-2 tables, small shared key pool, unique cell values; linear main plus a side " +
		"branch in ~70% of histories); the model state of every table is recorded at every commit when the script is generated. Every commit " +
		"with a parent is tried as C for dolt_cherry_pick (onto parent(C), a branch tip, a random commit) and dolt_revert (on C itself, a tip, a " +
		"random commit), each on a fresh branch; multi-commit reverts with conflict resolution and --continue; interactive rebase plans " +
		"(reorder/pick/drop/squash/fixup/reword edited through the dolt_rebase table); plus ~10 cherry-picks/reverts per history run with a DIRTY working set " +
		"(unstaged or staged edit of a table C does not touch, unstaged edit of a table C touches, brand-new untracked table, dolt_ignore'd new table): the new commit " +
		"read AS OF HEAD must hold exactly the model merge, the uncommitted edits must stay in the working set and in dolt_status, refusals/aborts must change nothing. Expectation = sqlrig.Merge3 over the recorded states, " +
		"never another Dolt merge. A case is distinct when (kind, #conflicts, no-op?, plan shape) differs and the operation changed data or stopped with a conflict")
	c.Assume("row edits only (no schema change inside C31 histories); single BIGINT key; when the model merge equals HEAD an error ('nothing to commit') is accepted and only 'data unchanged' is asserted")
	srv, stop := startServer(c, "c31")
	defer stop()
	nh := c.Pick(60, 800)
	st := newTally()
	runParallel(nh, 4, func(i int) {
		if st.get("c31.unclassified_violations") > 12 {
			return
		}
		r := c.SubRand("c31", i)
		h := genC31Hist(r, fmt.Sprintf("c31_%d", i))
		ops := genC31Ops(r, h, c.Thorough())
		ops = append(ops, genC31DirtyOps(c.SubRand("c31dirty", i), h)...) // own PRNG stream: the clean-working-set cases stay as they were
		var opDesc []string
		for _, o := range ops {
			opDesc = append(opDesc, o.String())
		}
		c.Case(fmt.Sprintf("c31/%d", i), map[string]any{"db": h.DB, "script": sqls(h.Steps), "ops": opDesc})
		if i < 3 {
			c.Sample(map[string]any{"script": sqls(h.Steps), "ops": opDesc})
		}
		runC31(c, srv, h, ops, st)
	})
	st.flush(c)
	c.Require(st.get("c31.conflict_stops") > 0, "no cherry-pick/revert stopped with a conflict")
	c.Require(st.get("c31.aborts_fingerprinted") > 0, "no --abort was exercised")
	c.Require(st.get("c31.rebase_squash_fixup_steps") > 0 && st.get("c31.rebase_drop_steps") > 0 && st.get("c31.rebase_reordered_plans") > 0, "rebase plans did not cover squash/fixup, drop and reordering")
	c.Require(st.get("c31.rebase_conflict_stops") > 0, "no rebase stopped with a conflict")
	c.Require(st.get("c31.identity_checks") > 0, "identity clauses not exercised")
	c.Require(st.get("c31.multi_revert_continues") > 0, "no multi-commit revert was continued after a conflict")
	c.Require(st.get("c31.dirty_accepted.revert.unstaged-other") > 0, "no revert succeeded with an unstaged edit of a table the commit does not touch")
	c.Require(st.get("c31.dirty_accepted.revert.untracked-new") > 0, "no revert succeeded with a brand-new untracked table in the working set")
	c.Require(st.get("c31.dirty_accepted.cherry-pick.ignored-new") > 0, "no cherry-pick succeeded with an ignored new table in the working set")
	c.Require(st.get("c31.dirty_refused_or_noop") > 0, "no dirty working set was refused")
}

func runC31(c *rig.Ctx, srv *sqlrig.Server, h *c31Hist, ops []c31Op, st *tally) {
	x := srv.MustOpen("")
	defer x.Close()
	fpx := srv.MustOpen("")
	defer fpx.Close()
	if err := x.Exec("create database " + h.DB); err != nil {
		rig.Must(err)
	}
	defer x.Exec("drop database " + h.DB)
	rig.Must(x.Exec("use " + h.DB))
	if err := runScript(x, h.Steps, h.Commits); err != nil {
		c.Violation("c31/setup", "history script failed: "+err.Error(), nil)
		return
	}
	fpOpt := sqlrig.FingerprintOptions{MaxCommitsWithRows: 4}
	h.fpBudget = c.Pick(6, 12)
	shape := h.Commits[0].Snap
	viol := func(key, what string, op c31Op, extra map[string]any) {
		if !c31FindingClass[key] {
			st.inc("c31.unclassified_violations")
		}
		w := map[string]any{"op": op.String(), "db": h.DB, "script": sqls(h.Steps)}
		hashes := map[string]string{}
		for _, cm := range h.Commits {
			hashes[fmt.Sprintf("c%d", cm.Idx)] = cm.Hash
		}
		w["hashes"] = hashes
		for k, v := range extra {
			w[k] = v
		}
		c.Violation(key, what, w)
	}
	for k, op := range ops {
		br := fmt.Sprintf("op%d", k)
		if err := x.Exec(fmt.Sprintf("call dolt_checkout('-b','%s','%s')", br, h.Commits[op.T].Hash)); err != nil {
			viol("c31/setup", "cannot create op branch: "+err.Error(), op, nil)
			return
		}
		switch op.Kind {
		case "cherry-pick", "revert":
			if op.Dirty != "" {
				c31DirtyPickRevert(c, x, h, op, shape, st, viol)
				break
			}
			c31PickRevert(c, x, fpx, h, op, shape, fpOpt, st, viol)
		case "revert-multi":
			c31RevertMulti(c, x, h, op, shape, st, viol)
		case "rebase":
			c31Rebase(c, x, fpx, h, op, br, shape, fpOpt, st, viol)
		}
		// leave the op branch and delete it so that fingerprints stay small
		if err := x.Exec("call dolt_checkout('main')"); err != nil {
			viol("c31/cleanup", "cannot return to main after the operation: "+err.Error(), op, nil)
			return
		}
		x.Exec("call dolt_branch('-D','" + br + "')")
		if st.get("c31.unclassified_violations") > 12 {
			return
		}
	}
}

type violFn func(key, what string, op c31Op, extra map[string]any)

func c31PickRevert(c *rig.Ctx, x, fpx *sqlrig.Session, h *c31Hist, op c31Op, shape snap, fpOpt sqlrig.FingerprintOptions, st *tally, viol violFn) {
	C, P, T := h.Commits[op.C].Snap, h.Commits[h.parent(op.C)].Snap, h.Commits[op.T].Snap
	var want snap
	var confs map[string][]sqlrig.Conflict
	proc := "dolt_cherry_pick"
	if op.Kind == "cherry-pick" {
		want, confs = mergeSnap(P, T, C) // base = parent(C), ours = HEAD, theirs = C
		st.inc("c31.cherry_picks")
	} else {
		want, confs = mergeSnap(C, T, P) // base = C, ours = HEAD, theirs = parent(C)
		proc = "dolt_revert"
		st.inc("c31.reverts")
	}
	key := "c31/" + op.Kind
	identity := ""
	if op.Kind == "cherry-pick" && op.T == h.parent(op.C) {
		identity = "cherry-pick of C onto parent(C) must reproduce C's data"
		if !snapEq(want, C) || len(confs) > 0 {
			viol("c31/model", "model bug: identity does not hold in the model", op, nil)
		}
	}
	if op.Kind == "revert" && op.T == op.C {
		identity = "revert(HEAD) must restore the parent's data"
		if !snapEq(want, P) || len(confs) > 0 {
			viol("c31/model", "model bug: identity does not hold in the model", op, nil)
		}
	}
	var before sqlrig.Fingerprint
	doFP := false
	if len(confs) > 0 {
		if h.fpBudget > 0 {
			h.fpBudget--
			doFP = true
			before = sqlrig.TakeFingerprint(fpx, h.DB, fpOpt)
		}
		if op.Tx {
			rig.Must(x.Exec("set autocommit = 0"))
		} else {
			rig.Must(x.Exec("set @@dolt_allow_commit_conflicts = 1"))
		}
	}
	res, err := x.Query(fmt.Sprintf("call %s('%s')", proc, h.Commits[op.C].Hash))
	noop := snapEq(want, T) && len(confs) == 0
	if noop {
		st.inc("c31.model_noop_ops")
	}
	if err != nil {
		if sqlrig.IsInternalError(err) {
			viol(key+"/internal-error", proc+" failed internally: "+err.Error(), op, nil)
		} else if !noop {
			viol(key+"/unexpected-error", proc+" failed although the model merge changes data and has "+fmt.Sprint(len(confs))+" conflicted tables: "+err.Error(), op, nil)
		}
		if d := checkSnap(x, "", "", T); d != "" {
			viol(key+"/data-after-error", "table data changed although "+proc+" returned an error: "+d, op, nil)
		}
		if len(confs) > 0 {
			x.Exec("rollback")
			x.Exec("set autocommit = 1")
			x.Exec("set @@dolt_allow_commit_conflicts = 0")
		}
		return
	}
	gotConf := "0"
	if len(res.Data) == 1 && len(res.Data[0]) >= 2 {
		gotConf = res.Data[0][1]
	}
	if gotConf != fmt.Sprint(len(confs)) {
		viol(key+"/conflict-count", fmt.Sprintf("%s reported %s tables with data conflicts, the model predicts %d", proc, gotConf, len(confs)), op, map[string]any{"result": res.Data})
	}
	if d := checkSnap(x, "", "", want); d != "" {
		k := key + "/data"
		if identity != "" {
			k = key + "/identity"
		}
		viol(k, fmt.Sprintf("data after %s differs from the model merge (%s): %s", proc, identity, d), op, nil)
	}
	if identity != "" {
		st.inc("c31.identity_checks")
	}
	if len(confs) == 0 {
		if !noop {
			c.Distinct(fmt.Sprintf("%s/clean/%v", op.Kind, identity != ""))
		}
		return
	}
	// conflict: must have stopped with exactly the model's conflicts; --abort must restore the fingerprint
	st.inc("c31.conflict_stops")
	nconf := 0
	for _, cs := range confs {
		nconf += len(cs)
	}
	c.Distinct(fmt.Sprintf("%s/conflict/%d/%d", op.Kind, len(confs), nconf))
	if d := checkConflicts(x, shape, confs); d != "" {
		viol(key+"/conflicts", "conflict tables differ from the model conflict set: "+d, op, nil)
	}
	if _, err := x.Query(fmt.Sprintf("call %s('--abort')", proc)); err != nil {
		viol(key+"/abort-error", "--abort failed: "+err.Error(), op, nil)
	}
	if op.Tx {
		if err := x.Exec("commit"); err != nil {
			viol(key+"/abort-commit", "commit after --abort failed: "+err.Error(), op, nil)
		}
		rig.Must(x.Exec("set autocommit = 1"))
	} else {
		rig.Must(x.Exec("set @@dolt_allow_commit_conflicts = 0"))
	}
	if d := checkSnap(x, "", "", T); d != "" {
		viol(key+"/abort-data", "data after --abort differs from the pre-operation data: "+d, op, nil)
	}
	st.inc("c31.aborts")
	if doFP {
		after := sqlrig.TakeFingerprint(fpx, h.DB, fpOpt)
		if d := before.Diff(after); len(d) > 0 {
			viol(key+"/abort-fingerprint", "--abort did not restore the pre-operation fingerprint", op, map[string]any{"diff": d})
		}
		st.inc("c31.aborts_fingerprinted")
	}
}

func c31RevertMulti(c *rig.Ctx, x *sqlrig.Session, h *c31Hist, op c31Op, shape snap, st *tally, viol violFn) {
	st.inc("c31.multi_reverts")
	rig.Must(x.Exec("set @@dolt_allow_commit_conflicts = 1"))
	defer x.Exec("set @@dolt_allow_commit_conflicts = 0")
	cur := h.Commits[op.T].Snap
	var args []string
	for _, ci := range op.Cs {
		args = append(args, "'"+h.Commits[ci].Hash+"'")
	}
	res, err := x.Query("call dolt_revert(" + strings.Join(args, ", ") + ")")
	for i, ci := range op.Cs {
		m, cf := mergeSnap(h.Commits[ci].Snap, cur, h.Commits[h.parent(ci)].Snap)
		if len(cf) == 0 {
			cur = m
			continue
		}
		// the series must have stopped here
		if err != nil {
			viol("c31/revert-multi/error", fmt.Sprintf("series failed at step %d: %v", i, err), op, nil)
			return
		}
		if len(res.Data) != 1 || res.Data[0][1] != fmt.Sprint(len(cf)) {
			viol("c31/revert-multi/conflict-count", fmt.Sprintf("step %d: model predicts %d conflicted tables, dolt reported %v", i, len(cf), res.Data), op, nil)
			return
		}
		if d := checkSnap(x, "", "", m); d != "" {
			viol("c31/revert-multi/data-at-stop", fmt.Sprintf("step %d (revert of c%d): data at the conflict stop differs from the model: %s", i, ci, d), op, nil)
		}
		if d := checkConflicts(x, shape, cf); d != "" {
			viol("c31/revert-multi/conflicts", fmt.Sprintf("step %d: %s", i, d), op, nil)
		}
		for n := range cf {
			if _, e := x.Query(fmt.Sprintf("call dolt_conflicts_resolve('--%s','%s')", op.Resolve, n)); e != nil {
				viol("c31/revert-multi/resolve", e.Error(), op, nil)
				return
			}
		}
		if op.Resolve == "theirs" {
			m = resolveTheirs(m, cf)
		}
		cur = m
		if e := x.Exec("call dolt_add('-A')"); e != nil {
			viol("c31/revert-multi/add", e.Error(), op, nil)
			return
		}
		st.inc("c31.multi_revert_continues")
		c.Distinct(fmt.Sprintf("revert-multi/continue/%d/%s", i, op.Resolve))
		res, err = x.Query("call dolt_revert('--continue')")
	}
	if err != nil {
		viol("c31/revert-multi/error", "series failed: "+err.Error(), op, nil)
		return
	}
	if len(res.Data) == 1 && res.Data[0][1] != "0" {
		viol("c31/revert-multi/conflict-count", fmt.Sprintf("dolt reports conflicts %v where the model has none left", res.Data), op, nil)
		return
	}
	if d := checkSnap(x, "", "", cur); d != "" {
		viol("c31/revert-multi/data", "data after the revert series differs from folding the model merges: "+d, op, nil)
	}
	c.Distinct(fmt.Sprintf("revert-multi/%d", len(op.Cs)))
}

func c31Rebase(c *rig.Ctx, x, fpx *sqlrig.Session, h *c31Hist, op c31Op, br string, shape snap, fpOpt sqlrig.FingerprintOptions, st *tally, viol violFn) {
	st.inc("c31.rebases")
	rig.Must(x.Exec("set @@dolt_allow_commit_conflicts = 1"))
	defer x.Exec("set @@dolt_allow_commit_conflicts = 0")
	before := sqlrig.TakeFingerprint(fpx, h.DB, fpOpt)
	baseLog, err := x.Scalar("select count(*) from dolt_log('" + h.Commits[op.Upstream].Hash + "')")
	rig.Must(err)
	if _, err := x.Query("call dolt_rebase('-i','" + h.Commits[op.Upstream].Hash + "')"); err != nil {
		viol("c31/rebase/start-error", "dolt_rebase -i failed: "+err.Error(), op, nil)
		return
	}
	abort := func() { x.Query("call dolt_rebase('--abort')") }
	pl, err := x.Query("select commit_hash from dolt_rebase order by rebase_order")
	if err != nil {
		viol("c31/rebase/plan-read", err.Error(), op, nil)
		abort()
		return
	}
	var def []string
	for _, ci := range op.Default {
		def = append(def, h.Commits[ci].Hash)
	}
	var got []string
	for _, row := range pl.Data {
		got = append(got, row[0])
	}
	if strings.Join(got, ",") != strings.Join(def, ",") {
		// The statement does not define the default plan; the edited plan below presupposes it, so skip.
		c.Count("c31.rebase_default_plan_differs", 1)
		c.Note(fmt.Sprintf("default rebase plan %v differs from the expected %v (op %s, db %s)", got, def, op.String(), h.DB))
		abort()
		return
	}
	// edit the plan
	reordered := false
	for i, s := range op.Plan {
		if s.Commit != op.Default[i] {
			reordered = true
		}
		q := fmt.Sprintf("update dolt_rebase set rebase_order = %d, action = '%s' where commit_hash = '%s'", 100+i, s.Action, h.Commits[s.Commit].Hash)
		if s.Action == "reword" {
			q = fmt.Sprintf("update dolt_rebase set rebase_order = %d, action = 'reword', commit_message = 'reworded c%d' where commit_hash = '%s'", 100+i, s.Commit, h.Commits[s.Commit].Hash)
		}
		if err := x.Exec(q); err != nil {
			viol("c31/rebase/plan-edit", q+": "+err.Error(), op, nil)
			abort()
			return
		}
	}
	if reordered {
		st.inc("c31.rebase_reordered_plans")
	}
	// model: fold the plan over the upstream data
	cur := h.Commits[op.Upstream].Snap
	newCommits := 0
	countKnown := true
	stopAt := -1
	var stopConf map[string][]sqlrig.Conflict
	var stopData snap
	shapeSig := ""
	for i, s := range op.Plan {
		shapeSig += s.Action[:1]
		if s.Action == "drop" {
			st.inc("c31.rebase_drop_steps")
			continue
		}
		m, cf := mergeSnap(h.Commits[h.parent(s.Commit)].Snap, cur, h.Commits[s.Commit].Snap)
		if len(cf) > 0 {
			stopAt, stopConf, stopData = i, cf, m
			break
		}
		empty := snapEq(m, cur)
		if empty {
			st.inc("c31.rebase_picks_became_empty")
			countKnown = false // what happens to the commit count when a step becomes empty is not part of the statement
		}
		switch s.Action {
		case "pick", "reword":
			if !empty {
				newCommits++
			}
			if s.Action == "reword" {
				st.inc("c31.rebase_reword_steps")
			}
		case "squash", "fixup":
			st.inc("c31.rebase_squash_fixup_steps")
		}
		cur = m
	}
	res, err := x.Query("call dolt_rebase('--continue')")
	if stopAt >= 0 {
		st.inc("c31.rebase_conflict_stops")
		wantHash := h.Commits[op.Plan[stopAt].Commit].Hash
		if err == nil {
			viol("c31/rebase/missed-conflict", fmt.Sprintf("the model predicts a conflict at plan step %d (c%d) but the rebase reported %v", stopAt, op.Plan[stopAt].Commit, res.Data), op, nil)
			return
		}
		if !strings.Contains(err.Error(), "data conflict detected while rebasing commit "+wantHash) {
			viol("c31/rebase/wrong-stop", fmt.Sprintf("the model predicts a data conflict at c%d (%s); dolt said: %v", op.Plan[stopAt].Commit, wantHash, err), op, nil)
			abort()
			return
		}
		if d := checkSnap(x, "", "", stopData); d != "" {
			viol("c31/rebase/data-at-stop", "data at the conflict stop differs from the model: "+d, op, nil)
		}
		if d := checkConflicts(x, shape, stopConf); d != "" {
			viol("c31/rebase/conflicts", d, op, nil)
		}
		if _, err := x.Query("call dolt_rebase('--abort')"); err != nil {
			viol("c31/rebase/abort-error", err.Error(), op, nil)
			return
		}
		if b, _ := x.Scalar("select active_branch()"); b != br {
			viol("c31/rebase/abort-branch", "after --abort the session is on "+b+" instead of "+br, op, nil)
		}
		after := sqlrig.TakeFingerprint(fpx, h.DB, fpOpt)
		if d := before.Diff(after); len(d) > 0 {
			viol("c31/rebase/abort-fingerprint", "rebase --abort did not restore the pre-rebase fingerprint", op, map[string]any{"diff": d})
		}
		st.inc("c31.aborts_fingerprinted")
		c.Distinct("rebase/conflict/" + shapeSig)
		return
	}
	if err != nil {
		if sqlrig.IsInternalError(err) {
			viol("c31/rebase/internal-error", err.Error(), op, nil)
		} else {
			viol("c31/rebase/unexpected-error", "the model predicts no conflict, but the rebase failed: "+err.Error(), op, nil)
		}
		abort()
		return
	}
	if b, _ := x.Scalar("select active_branch()"); b != br {
		viol("c31/rebase/branch", "after the rebase the session is on "+b+" instead of "+br, op, nil)
		return
	}
	if d := checkSnap(x, "", "", cur); d != "" {
		viol("c31/rebase/data", "data after executing the rebase plan differs from cherry-picking its kept commits in plan order on the upstream: "+d, op, nil)
	}
	if countKnown {
		n, err := x.Scalar("select count(*) from dolt_log")
		var bl, nn int
		fmt.Sscan(baseLog, &bl)
		fmt.Sscan(n, &nn)
		if err != nil || nn != bl+newCommits {
			viol("c31/rebase/commit-count", fmt.Sprintf("the rebased branch has %s commits; upstream has %d and the plan keeps %d commits after folding squash/fixup (%v)", n, bl, newCommits, err), op, nil)
		}
	}
	c.Distinct("rebase/ok/" + shapeSig)
}

// c31FindingClass: violation classes precise enough to be judged (and listed as known findings) on their own; they do not
// count towards the early cut-off of a run.
var c31FindingClass = map[string]bool{
	// dolt_revert('--abort') sets working = staged = pre-revert HEAD root: uncommitted edits of tables the revert never
	// touched (which dolt_revert explicitly allows in the working set) and new untracked tables are gone after the abort
	"c31/revert-dirty/abort/uncommitted-edits-lost": true,
}
